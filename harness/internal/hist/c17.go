package hist

// Helpers for the read-scheduling property (C17). Add-only; hist.go is unchanged.

import (
	"fmt"
	"sort"
	"strings"

	"github.com/massnetorg/mass-core/massutil"
	"github.com/massnetorg/mass-core/wire"
	"massnet.org/mass-wallet/config"
	"massnet.org/mass-wallet/masswallet"
	"massnet.org/mass-wallet/masswallet/txmgr"
	"verifharness/internal/sim"
)

// C17Emit writes one line of the history.
func (h *H) C17Emit(format string, a ...interface{}) { h.emit(format, a...) }

// C17Sh returns the model's number of a script hash.
func (h *H) C17Sh(b []byte) int { return h.sh(b) }

// C17Announce announces b through the real handler goroutine and waits until it has been
// processed; nothing is written to the history (C17EmitProcessed does that later).
func (h *H) C17Announce(b *massutil.Block) bool {
	h.W.Notify(b)
	best := h.W.H.VerifBest()
	ok := best.Hash == *b.Hash()
	if *b.Hash() == *h.N.Tip().Hash() {
		h.Stale = false
	}
	return ok
}

// C17EmitProcessed writes the P line of an announcement made with C17Announce.
func (h *H) C17EmitProcessed(b *massutil.Block, ok bool) {
	res := "err"
	if ok {
		res = "ok"
	}
	h.emit("P %d %s", h.BlkID[*b.Hash()], res)
}

type c17row struct {
	tx, vout   int
	amt        int64
	height     uint64
	sh         int
	mat, confs uint32
}

func c17rows(rows []c17row) string {
	sort.Slice(rows, func(i, j int) bool {
		if rows[i].tx != rows[j].tx {
			return rows[i].tx < rows[j].tx
		}
		return rows[i].vout < rows[j].vout
	})
	var sb strings.Builder
	fmt.Fprintf(&sb, "C %d", len(rows))
	for _, r := range rows {
		fmt.Fprintf(&sb, " %d:%d:%d:%d:%d:%d:%d", r.tx, r.vout, r.amt, r.height, r.sh, r.mat, r.confs)
	}
	return sb.String()
}

// C17Utxos projects the answer of GetUtxo (rows de-duplicated: a script hash may be listed under
// its standard and its staking address form).
func (h *H) C17Utxos(m map[string][]*masswallet.UnspentDetail) string {
	seen := map[[2]int]bool{}
	var rows []c17row
	for addr, l := range m {
		sh := 0
		if a, err := massutil.DecodeAddress(addr, config.ChainParams); err == nil {
			sh = h.sh(a.ScriptAddress())
		}
		for _, u := range l {
			var th wire.Hash
			if hs, err := wire.NewHashFromStr(u.TxId); err == nil {
				th = *hs
			}
			tid := h.TxID[th]
			if seen[[2]int{tid, int(u.Vout)}] {
				continue
			}
			seen[[2]int{tid, int(u.Vout)}] = true
			rows = append(rows, c17row{tid, int(u.Vout), u.Amount.IntValue(), u.BlockHeight, sh, u.Maturity, u.Confirmations})
		}
	}
	return c17rows(rows)
}

// C17Credits projects a list of coins returned by the transaction-building selection.
func (h *H) C17Credits(l []*txmgr.Credit) string {
	var rows []c17row
	for _, c := range l {
		rows = append(rows, c17row{h.TxID[c.OutPoint.Hash], int(c.OutPoint.Index), c.Amount.IntValue(), c.BlockMeta.Height,
			h.sh(c.ScriptHash), c.Maturity, c.Confirmations})
	}
	return c17rows(rows)
}

// C17Order writes the Z line: every known transaction id in the order of its hash bytes (the
// order in which the unspent bucket's iterator yields a wallet's rows).
func (h *H) C17Order() {
	type e struct {
		h  wire.Hash
		id int
	}
	var l []e
	for th, id := range h.TxID {
		l = append(l, e{th, id})
	}
	sort.Slice(l, func(i, j int) bool { return bytesLess(l[i].h[:], l[j].h[:]) })
	var sb strings.Builder
	sb.WriteString("Z")
	for _, x := range l {
		fmt.Fprintf(&sb, " %d", x.id)
	}
	h.emit("%s", sb.String())
}

func bytesLess(a, b []byte) bool {
	for i := range a {
		if a[i] != b[i] {
			return a[i] < b[i]
		}
	}
	return false
}

// C17Block builds (does not attach) a block on the node's tip with exactly the given coinbase
// outputs and transactions and defines it for the model (B/T/I/O lines).
func (h *H) C17Block(cb []sim.Out, txs []*wire.MsgTx) *massutil.Block {
	b := h.N.MakeBlock(h.N.Tip(), cb, txs)
	h.defineBlock(b)
	return b
}

// C17TxNum is the history's number of a transaction (0 if unknown).
func (h *H) C17TxNum(th wire.Hash) int { return h.TxID[th] }
