// pending.go — unconfirmed transactions and deposit (staking/binding) histories on top of hist.H
// (properties C09 and C10). Adds to the line format of hist.go:
//
//	K2 <warmup>                          MASSIP0002 warm-up height in force (binding sequence rule)
//	D <txid> <nin> <nout>                definition of a stand-alone (non-coinbase) transaction, followed by I / O lines
//	U <txid> <rel|no|err>                the transaction was delivered as unconfirmed (VerifReceiveTx = real filterTx)
//	F <wid> <q> <n> tx:vout:flag...      spent_by_unmined flag of every listed coin (GetUtxo)
//	S <wid> <q> <excl> <n> row...        GetStakingHistory(excl)   row = tx:vout:amount:sh:frozen:height:spent:sbu:pending
//	Y <wid> <q> <excl> <n> row...        GetBindingHistory(excl)   row = tx:vout:amount:sh:0:height:spent:sbu:pending:targetok
//	M <n> txid...                        the handler's volatile set of known unconfirmed transactions
//	R <q> <n> txid:state...              TxStore.ExistUnminedTx for every non-coinbase transaction the harness knows
//	                                     (ok = deserialises and is the original, none, bad)
//	C <wid> <q> <E> <all> <half> <n> tx:vout...   AutoCreateRawTransaction asked for E (the eligible total according to the
//	                                     wallet's own listing: must fail) and for E/2 (inputs chosen)
//	W <wid> <txid> <vout> <locktime> <ok|err> <sequence>   CreateRawTransaction spending one deposit: sequence of its input
package hist

import (
	"encoding/hex"
	"fmt"
	"sort"
	"strings"
	"sync"

	"github.com/massnetorg/mass-core/consensus"
	"github.com/massnetorg/mass-core/massutil"
	"github.com/massnetorg/mass-core/wire"
	"massnet.org/mass-wallet/config"
	"massnet.org/mass-wallet/masswallet"
	mwdb "massnet.org/mass-wallet/masswallet/db"
	"verifharness/internal/sim"
)

// PendOpt selects the shapes the generator may produce. SimulConflicts, CoinbaseGames and AlreadyMined
// are shapes on which defects were found and repaired (KNOWN_FINDINGS.txt: 626fe73, 91b07dd, 0bc4560);
// cmd/c09 switches them on by default. ForeignInputs produces the shape of the recorded, unrepaired
// finding stale-pending:foreign-input and is switched on by -probes foreign only.
type PendOpt struct {
	SimulConflicts bool // two unconfirmed transactions spending the same coin may both be pending (delivered together, or one block apart)
	ForeignInputs  bool // transactions that concern a wallet depend on recent non-wallet outputs, which are later double spent
	CoinbaseGames  bool // coinbase transactions pay staking / binding scripts
	AlreadyMined   bool // a transaction first seen in a block is delivered as unconfirmed afterwards
	UnseenParents  bool // an unconfirmed transaction spends an output of a block the wallet has not processed yet (shape of finding stale-pending:unseen-parent)
	Games          int  // percentage of wallet payees that are staking/binding scripts
}

type pext struct {
	opt       PendOpt
	all       map[int]*wire.MsgTx // every non-coinbase transaction known to the harness, by id
	pool      []*wire.MsgTx       // transactions the wallet accepted as relevant (in creation order)
	inPool    map[wire.Hash]bool
	nU        map[string]int
	restarted bool
}

var (
	extMu sync.Mutex
	exts  = map[*H]*pext{}
)

func (h *H) px() *pext {
	extMu.Lock()
	defer extMu.Unlock()
	e := exts[h]
	if e == nil {
		e = &pext{all: map[int]*wire.MsgTx{}, inPool: map[wire.Hash]bool{}, nU: map[string]int{}}
		exts[h] = e
	}
	return e
}

// SetPendOpt sets the generator options and emits the K2 line.
func (h *H) SetPendOpt(o PendOpt) {
	h.px().opt = o
	h.emit("K2 %d", consensus.MASSIP0002WarmUpHeight)
}

// ClosePending forgets the side table of h.
func (h *H) ClosePending() {
	extMu.Lock()
	delete(exts, h)
	extMu.Unlock()
}

// PendStats returns counters of delivered transactions by result.
func (h *H) PendStats() map[string]int { return h.px().nU }

func (h *H) ownedSh() map[int]int {
	m := map[int]int{}
	for _, w := range h.Wallets {
		for _, a := range w.Addrs {
			m[a.Sh] = w.Num
		}
	}
	return m
}

// payee picks an output script: a wallet address (possibly as a staking/binding script) or a stranger.
func (h *H) payee(games bool, noBinding bool, walletPct int) []byte {
	return h.payeeMin(games, noBinding, walletPct, 2)
}

// payeeMin: staking scripts get a frozen period of at least minFrozen (a coinbase deposit is shown with
// frozen period max(CoinbaseMaturity, frozen+1)-1; every legal period exceeds the coinbase maturity).
func (h *H) payeeMin(games bool, noBinding bool, walletPct int, minFrozen int) []byte {
	var all []*AddrInfo
	for _, w := range h.Wallets {
		all = append(all, w.Addrs...)
	}
	if len(all) > 0 && h.R.Chance(walletPct) {
		ai := all[h.R.Intn(len(all))]
		if games && h.R.Chance(h.px().opt.Games) {
			if noBinding || h.R.Chance(50) {
				if h.R.Chance(10) { // see frozenPeriod
					big := []uint64{1474560, 1474561, 2949120, 0xfffffffe}
					return h.scriptStaking(ai, big[h.R.Intn(len(big))])
				}
				return h.scriptStaking(ai, uint64(minFrozen+h.R.Intn(5)))
			}
			// consensus admits 20-byte targets below the MASSIP0002 warm-up height and 22-byte targets from it on
			return h.scriptBinding(ai, h.N.Height()+1 >= consensus.MASSIP0002WarmUpHeight)
		}
		return h.scriptStd(ai)
	}
	return h.Strangers[h.R.Intn(len(h.Strangers))]
}

// defineTx assigns an id to a stand-alone transaction and writes its definition.
func (h *H) defineTx(tx *wire.MsgTx) int {
	th := tx.TxHash()
	if tid, ok := h.TxID[th]; ok {
		return tid
	}
	tid := h.nextTx
	h.nextTx++
	h.TxID[th] = tid
	h.px().all[tid] = tx
	h.emit("D %d %d %d", tid, len(tx.TxIn), len(tx.TxOut))
	for _, in := range tx.TxIn {
		h.emit("I %d %d", h.TxID[in.PreviousOutPoint.Hash], in.PreviousOutPoint.Index)
	}
	for _, o := range tx.TxOut {
		c, p, sh := h.classify(o.PkScript)
		h.emit("O %d %d %d %d", sh, o.Value, c, p)
	}
	return tid
}

// livePool: accepted transactions that are not on the best chain and whose inputs all exist
// (on the chain, unspent, or as outputs of live transactions), in creation order.
func (h *H) livePool() []*wire.MsgTx {
	e := h.px()
	var live []*wire.MsgTx
	liveSet := map[wire.Hash]*wire.MsgTx{}
	// accepted unconfirmed transactions and the transactions of detached blocks (the wallet moves
	// those back to its pending set), parents before children
	cands := append([]*wire.MsgTx{}, e.pool...)
	have := map[wire.Hash]bool{}
	for _, tx := range cands {
		have[tx.TxHash()] = true
	}
	for _, tx := range h.Detached {
		if !have[tx.TxHash()] {
			have[tx.TxHash()] = true
			cands = append(cands, tx)
		}
	}
	sort.SliceStable(cands, func(i, j int) bool { return h.TxID[cands[i].TxHash()] < h.TxID[cands[j].TxHash()] })
	for _, tx := range cands {
		th := tx.TxHash()
		if h.OnBest(th) {
			continue
		}
		ok := true
		for _, in := range tx.TxIn {
			if h.Utxo[in.PreviousOutPoint] != nil {
				continue
			}
			if p := liveSet[in.PreviousOutPoint.Hash]; p != nil && int(in.PreviousOutPoint.Index) < len(p.TxOut) {
				continue
			}
			ok = false
		}
		if ok {
			live = append(live, tx)
			liveSet[th] = tx
		}
	}
	return live
}

// claimedForeign: non-wallet coins that some transaction known to the harness spends, whether that transaction is
// alive or not. Without option ForeignInputs such a coin belongs to its first spender for ever: a transaction that was
// conflicted away through a WALLET coin may come back to life when the conflicting block is reorganised away (a node
// may well still hold it), and if another wallet-relevant transaction had taken its non-wallet coin meanwhile, the two
// would conflict on a coin the wallet does not watch — the shape of the recorded finding stale-pending:foreign-input,
// which is generated on request only (false alarm of C10 on history 779 of the escalated quick tier, DESIGN §10).
func (h *H) claimedForeign() map[wire.OutPoint]bool {
	m := map[wire.OutPoint]bool{}
	if h.px().opt.ForeignInputs {
		return m
	}
	owned := h.ownedSh()
	for _, tx := range h.px().all {
		for _, in := range tx.TxIn {
			if c := h.Utxo[in.PreviousOutPoint]; c != nil {
				if _, own := owned[c.Sh]; !own {
					m[in.PreviousOutPoint] = true
				}
			}
		}
	}
	return m
}

func spentByPool(live []*wire.MsgTx) map[wire.OutPoint]*wire.MsgTx {
	m := map[wire.OutPoint]*wire.MsgTx{}
	for _, tx := range live {
		for _, in := range tx.TxIn {
			m[in.PreviousOutPoint] = tx
		}
	}
	return m
}

// source of an input for a new unconfirmed transaction
type src struct {
	op     wire.OutPoint
	val    int64
	class  int
	param  int64
	sh     int
	owned  bool
	onPool bool
}

// sources lists what a new unconfirmed transaction may spend at the next height.
func (h *H) sources(live []*wire.MsgTx, includeSpent bool) []src {
	owned := h.ownedSh()
	next := h.N.Height() + 1
	spent := spentByPool(live)
	var l []src
	wbest := h.W.H.VerifBest().Height
	claimed := h.claimedForeign()
	for _, c := range h.matureSorted(next) {
		if _, s := spent[c.Op]; s && !includeSpent {
			continue
		}
		if claimed[c.Op] {
			continue
		}
		if c.Height > wbest && !h.px().opt.UnseenParents {
			// created in a block the wallet has not processed: if that block is reorganised away first,
			// the wallet never learns the parent transaction
			continue
		}
		_, own := owned[c.Sh]
		if !own && !h.px().opt.ForeignInputs {
			// a foreign coin is used only when no later reorganisation of this history can remove it
			// and (being excluded from every other generator) nothing else will spend it
			if c.Height+uint64(h.Opt.MaxReorg) >= next || c.Class != ClsStd {
				continue
			}
		}
		l = append(l, src{op: c.Op, val: c.Val, class: c.Class, param: c.Param, sh: c.Sh, owned: own})
	}
	for _, tx := range live {
		th := tx.TxHash()
		for vi, o := range tx.TxOut {
			op := wire.OutPoint{Hash: th, Index: uint32(vi)}
			if _, s := spent[op]; s && !includeSpent {
				continue
			}
			c, p, sh := h.classify(o.PkScript)
			if c != ClsStd {
				continue
			}
			_, own := owned[sh]
			if !own && !h.px().opt.ForeignInputs {
				continue
			}
			l = append(l, src{op: op, val: o.Value, class: c, param: p, sh: sh, owned: own, onPool: true})
		}
	}
	return l
}

func (h *H) buildFrom(ins []src, walletPct int) *wire.MsgTx {
	var ops []wire.OutPoint
	var seqs []uint64
	total := int64(0)
	noBinding := false
	for _, s := range ins {
		ops = append(ops, s.op)
		seq := uint64(wire.MaxTxInSequenceNum)
		if s.class == ClsStaking {
			seq = uint64(s.param) + 1
		}
		if s.class == ClsBindingOld || s.class == ClsBindingNew {
			noBinding = true
		}
		seqs = append(seqs, seq)
		total += s.val
	}
	nout := 1 + h.R.Intn(3)
	var outs []sim.Out
	rest := total
	for i := 0; i < nout; i++ {
		v := rest
		if i < nout-1 {
			v = int64(h.R.U64() % uint64(rest+1))
		}
		rest -= v
		if v == 0 && h.R.Chance(80) {
			continue
		}
		outs = append(outs, sim.Out{Script: h.payee(true, noBinding, walletPct), Value: v})
	}
	if len(outs) == 0 {
		outs = append(outs, sim.Out{Script: h.payee(true, noBinding, walletPct), Value: total})
	}
	// the payload makes two transactions with the same inputs and outputs distinct
	return sim.NewTx(ops, seqs, outs, 0, h.R.Bytes(4))
}

// NewPending builds an unconfirmed transaction. kind: 0 spends wallet coins, 1 incoming payment
// (foreign inputs, pays a wallet), 2 child of a pending transaction, 3 irrelevant.
func (h *H) NewPending(kind int) *wire.MsgTx {
	live := h.livePool()
	srcs := h.sources(live, false)
	var pick []src
	filter := func(f func(s src) bool) []src {
		var l []src
		for _, s := range srcs {
			if f(s) {
				l = append(l, s)
			}
		}
		return l
	}
	var cand []src
	walletPct := 60
	switch kind {
	case 0:
		cand = filter(func(s src) bool { return s.owned })
	case 1:
		cand = filter(func(s src) bool { return !s.owned && !s.onPool })
		walletPct = 100
	case 2:
		cand = filter(func(s src) bool { return s.onPool })
	default:
		cand = filter(func(s src) bool { return !s.owned && !s.onPool })
		walletPct = 0
	}
	if len(cand) == 0 {
		return nil
	}
	first := cand[h.R.Intn(len(cand))]
	pick = append(pick, first)
	if h.R.Chance(40) {
		// a second input of any admissible kind
		var more []src
		for _, s := range srcs {
			if s.op != first.op && (kind != 3 || !s.owned) && (kind != 1 || !s.owned || h.R.Chance(30)) {
				more = append(more, s)
			}
		}
		if len(more) > 0 {
			pick = append(pick, more[h.R.Intn(len(more))])
		}
	}
	tx := h.buildFrom(pick, walletPct)
	h.defineTx(tx)
	return tx
}

// NewConflict builds a transaction that spends at least one wallet coin a live pending transaction spends.
func (h *H) NewConflict() (*wire.MsgTx, *wire.MsgTx) {
	live := h.livePool()
	owned := h.ownedSh()
	type cand struct {
		victim *wire.MsgTx
		s      src
	}
	var cs []cand
	for _, tx := range live {
		for _, in := range tx.TxIn {
			c := h.Utxo[in.PreviousOutPoint]
			if c == nil {
				continue // output of a pending parent: handled through the parent
			}
			if _, own := owned[c.Sh]; !own && !h.px().opt.ForeignInputs {
				continue
			}
			if c.Class == ClsBindingNew || c.Class == ClsUnsupported {
				continue
			}
			_, own := owned[c.Sh]
			cs = append(cs, cand{tx, src{op: c.Op, val: c.Val, class: c.Class, param: c.Param, sh: c.Sh, owned: own}})
		}
	}
	if len(cs) == 0 {
		return nil, nil
	}
	c := cs[h.R.Intn(len(cs))]
	pick := []src{c.s}
	if h.R.Chance(30) {
		free := h.sources(live, false)
		var own []src
		for _, s := range free {
			if s.owned && !s.onPool {
				own = append(own, s)
			}
		}
		if len(own) > 0 {
			pick = append(pick, own[h.R.Intn(len(own))])
		}
	}
	tx := h.buildFrom(pick, 50)
	h.defineTx(tx)
	return tx, c.victim
}

// Receive delivers an unconfirmed transaction through the real filterTx.
func (h *H) Receive(tx *wire.MsgTx) string {
	tid := h.defineTx(tx)
	rel, err := h.W.H.VerifReceiveTx(tx)
	res := "no"
	if err != nil {
		res = "err"
	} else if rel {
		res = "rel"
		e := h.px()
		th := tx.TxHash()
		if !e.inPool[th] {
			e.inPool[th] = true
			e.pool = append(e.pool, tx)
		}
	}
	h.px().nU[res]++
	h.emit("U %d %s", tid, res)
	return res
}

// minable reports whether every input of tx is an unspent, mature coin of the best chain or an
// output of one of the transactions in earlier.
func (h *H) minable(tx *wire.MsgTx, earlier map[wire.Hash]*wire.MsgTx, taken map[wire.OutPoint]bool) bool {
	next := h.N.Height() + 1
	for _, o := range tx.TxOut {
		c, _, _ := h.classify(o.PkScript)
		if (c == ClsBindingOld && next >= consensus.MASSIP0002WarmUpHeight) || (c == ClsBindingNew && next < consensus.MASSIP0002WarmUpHeight) {
			return false
		}
	}
	for _, in := range tx.TxIn {
		if taken[in.PreviousOutPoint] {
			return false
		}
		if p := earlier[in.PreviousOutPoint.Hash]; p != nil {
			if int(in.PreviousOutPoint.Index) >= len(p.TxOut) {
				return false
			}
			continue
		}
		c := h.Utxo[in.PreviousOutPoint]
		if c == nil {
			return false
		}
		if c.CB && next-c.Height < consensus.CoinbaseMaturity {
			return false
		}
		if c.Class == ClsStaking && next-c.Height < uint64(c.Param)+1 {
			return false
		}
		if c.Class == ClsBindingNew || c.Class == ClsUnsupported {
			return false
		}
	}
	return true
}

// PickMinable chooses up to max transactions (parents first) among the given candidates that the
// next block may contain.
func (h *H) PickMinable(cands []*wire.MsgTx, max int) []*wire.MsgTx {
	var res []*wire.MsgTx
	earlier := map[wire.Hash]*wire.MsgTx{}
	taken := map[wire.OutPoint]bool{}
	for _, tx := range cands {
		if len(res) >= max {
			break
		}
		th := tx.TxHash()
		if h.OnBest(th) || earlier[th] != nil {
			continue
		}
		if !h.minable(tx, earlier, taken) {
			continue
		}
		if !h.R.Chance(60) {
			continue
		}
		res = append(res, tx)
		earlier[th] = tx
		for _, in := range tx.TxIn {
			taken[in.PreviousOutPoint] = true
		}
	}
	return res
}

// BuildBlockP is BuildBlock for histories with unconfirmed transactions: coins spent by live
// pending transactions are left alone by the random transactions (conflicts are built on
// purpose, by NewConflict), staking inputs carry the sequence consensus requires, and the
// coinbase pays deposit scripts only when the option allows it.
func (h *H) BuildBlockP(ntx int, extra []*wire.MsgTx) *massutil.Block {
	next := h.N.Height() + 1
	avail := h.matureSorted(next)
	used := map[wire.OutPoint]bool{}
	for _, tx := range extra {
		for _, in := range tx.TxIn {
			used[in.PreviousOutPoint] = true
		}
	}
	for op := range spentByPool(h.livePool()) {
		used[op] = true
	}
	for op := range h.claimedForeign() {
		used[op] = true
	}
	var av2 []*Coin
	for _, c := range avail {
		if !used[c.Op] {
			av2 = append(av2, c)
		}
	}
	avail = av2
	txs := append([]*wire.MsgTx{}, extra...)
	for i := 0; i < ntx; i++ {
		if len(avail) == 0 {
			break
		}
		nin := 1 + h.R.Intn(2)
		if nin > len(avail) {
			nin = len(avail)
		}
		// Without option ForeignInputs a transaction that concerns a wallet never depends on a recent
		// non-wallet output (whose ancestry a reorganisation may still conflict — the recorded finding
		// stale-pending:foreign-input): such outputs are spent by transactions among strangers only.
		owned := h.ownedSh()
		safe := func(c *Coin) bool {
			if h.px().opt.ForeignInputs {
				return true
			}
			_, own := owned[c.Sh]
			return own || c.Height+uint64(h.Opt.MaxReorg) < next
		}
		var ins []src
		walletPct := 65
		firstSafe := true
		for j := 0; j < nin; j++ {
			var idx []int
			for k, c := range avail {
				_, own := owned[c.Sh]
				if j == 0 || (firstSafe && safe(c)) || (!firstSafe && !own) {
					idx = append(idx, k)
				}
			}
			if len(idx) == 0 {
				break
			}
			k := idx[h.R.Intn(len(idx))]
			c := avail[k]
			if j == 0 && !safe(c) {
				firstSafe = false
				walletPct = 0
			}
			avail = append(avail[:k], avail[k+1:]...)
			ins = append(ins, src{op: c.Op, val: c.Val, class: c.Class, param: c.Param, sh: c.Sh})
		}
		tx := h.buildFrom(ins, walletPct)
		txs = append(txs, tx)
		if h.R.Chance(40) {
			th := tx.TxHash()
			for vi, o := range tx.TxOut {
				c, p, sh := h.classify(o.PkScript)
				if c == ClsStd && o.Value > 0 {
					avail = append(avail, &Coin{Op: wire.OutPoint{Hash: th, Index: uint32(vi)}, Val: o.Value, Script: o.PkScript, Class: c, Param: p, Sh: sh, Height: next})
				}
			}
		}
	}
	var cb []sim.Out
	cbGames := h.px().opt.CoinbaseGames
	if h.R.Chance(70) {
		cb = append(cb, sim.Out{Script: h.payeeMin(cbGames, false, 65, int(consensus.CoinbaseMaturity)), Value: int64(1+h.R.Intn(50)) * 10000000})
	}
	if h.R.Chance(20) {
		cb = append(cb, sim.Out{Script: h.payeeMin(cbGames, false, 65, int(consensus.CoinbaseMaturity)), Value: int64(1+h.R.Intn(50)) * 1000000})
	}
	b := h.N.MakeBlock(h.N.Tip(), cb, txs)
	h.defineBlock(b)
	e := h.px()
	for i, tx := range b.MsgBlock().Transactions {
		if i > 0 {
			e.all[h.TxID[tx.TxHash()]] = tx
		}
	}
	return b
}

// ---------------------------------------------------------------- observation

func b01(b bool) int {
	if b {
		return 1
	}
	return 0
}

func (h *H) tidOfStr(s string) int {
	hs, err := wire.NewHashFromStr(s)
	if err != nil {
		return -1
	}
	return h.TxID[*hs]
}

// outScript returns the script of output (tid, vout) according to the harness' own record.
func (h *H) outScript(th wire.Hash, vout uint32) []byte {
	if tx := h.N.Known[th]; tx != nil && int(vout) < len(tx.TxOut) {
		return tx.TxOut[vout].PkScript
	}
	if tx := h.px().all[h.TxID[th]]; tx != nil && int(vout) < len(tx.TxOut) {
		return tx.TxOut[vout].PkScript
	}
	return nil
}

func (h *H) shOfAddr(a string) int {
	addr, err := massutil.DecodeAddress(a, config.ChainParams)
	if err != nil {
		return 0
	}
	return h.sh(addr.ScriptAddress())
}

// QueryP observes every wallet: the C01 report plus flags, deposit histories, the volatile set and
// the pending set read back through the store.
func (h *H) QueryP(selection bool, withdrawals bool) {
	q := 1
	if h.Stale {
		q = 0
	}
	for _, wi := range h.Wallets {
		o := h.W.Observe(wi.ID)
		h.emit("Q %d %d %s", wi.Num, q, h.Report(o))
		if o.Err != "" {
			continue
		}
		// flags
		type fr struct{ tx, vout, f int }
		var frs []fr
		seen := map[[2]int]bool{}
		for _, u := range o.Utxos {
			tid := h.tidOfStr(u.TxID)
			if seen[[2]int{tid, int(u.Vout)}] {
				continue
			}
			seen[[2]int{tid, int(u.Vout)}] = true
			frs = append(frs, fr{tid, int(u.Vout), b01(u.SpentUnmined)})
		}
		sort.Slice(frs, func(i, j int) bool {
			if frs[i].tx != frs[j].tx {
				return frs[i].tx < frs[j].tx
			}
			return frs[i].vout < frs[j].vout
		})
		var sb strings.Builder
		for _, f := range frs {
			fmt.Fprintf(&sb, " %d:%d:%d", f.tx, f.vout, f.f)
		}
		h.emit("F %d %d %d%s", wi.Num, q, len(frs), sb.String())
		// deposit histories
		for excl := 0; excl < 2; excl++ {
			sh, err := h.W.WM.GetStakingHistory(excl == 1)
			if err != nil {
				h.emit("S %d %d %d error", wi.Num, q, excl)
			} else {
				var rows []string
				for _, d := range sh {
					pend := d.BlockHeight == 0
					rows = append(rows, fmt.Sprintf("%d:%d:%d:%d:%d:%d:%d:%d:%d", h.TxID[d.TxHash], d.Index, d.Utxo.Amount.IntValue(),
						h.shOfAddr(d.Utxo.Address), d.Utxo.FrozenPeriod, d.BlockHeight, b01(d.Utxo.Spent), b01(d.Utxo.SpentByUnmined), b01(pend)))
				}
				sort.Strings(rows)
				h.emit("S %d %d %d %d %s", wi.Num, q, excl, len(rows), strings.Join(rows, " "))
			}
			bh, err := h.W.WM.GetBindingHistory(excl == 1)
			if err != nil {
				h.emit("Y %d %d %d error", wi.Num, q, excl)
			} else {
				var rows []string
				for _, d := range bh {
					pend := d.BlockHeight == 0
					// the reported target must be the one in the output's script (the harness' own record)
					tok := 0
					if pk := h.outScript(d.TxHash, d.Index); pk != nil && d.Utxo.BindingTarget != nil {
						if strings.Contains(hex.EncodeToString(pk), hex.EncodeToString(d.Utxo.BindingTarget.ScriptAddress())) {
							tok = 1
						}
					}
					holder := 0
					if d.Utxo.Holder != nil {
						holder = h.sh(d.Utxo.Holder.ScriptAddress())
					}
					rows = append(rows, fmt.Sprintf("%d:%d:%d:%d:%d:%d:%d:%d:%d:%d", h.TxID[d.TxHash], d.Index, d.Utxo.Amount.IntValue(),
						holder, 0, d.BlockHeight, b01(d.Utxo.Spent), b01(d.Utxo.SpentByUnmined), b01(pend), tok))
				}
				sort.Strings(rows)
				h.emit("Y %d %d %d %d %s", wi.Num, q, excl, len(rows), strings.Join(rows, " "))
			}
		}
		if selection {
			h.selection(wi, o, q)
		}
		if withdrawals {
			h.withdrawals(wi, o)
		}
	}
	// the handler's volatile set
	var ids []int
	for _, th := range h.W.H.VerifMempool() {
		ids = append(ids, h.TxID[th])
	}
	sort.Ints(ids)
	var sb strings.Builder
	for _, id := range ids {
		fmt.Fprintf(&sb, " %d", id)
	}
	h.emit("M %d%s", len(ids), sb.String())
	// the pending set, read back through the store's read API
	e := h.px()
	var tids []int
	for tid := range e.all {
		tids = append(tids, tid)
	}
	sort.Ints(tids)
	_, ts, _, _, db := h.W.WM.VerifStores()
	var rb strings.Builder
	mwdb.View(db, func(rtx mwdb.ReadTransaction) error {
		for _, tid := range tids {
			tx := e.all[tid]
			th := tx.TxHash()
			got, err := ts.ExistUnminedTx(rtx, &th)
			st := "bad"
			switch {
			case err != nil && strings.Contains(err.Error(), "not found"):
				st = "none"
			case err == nil && got != nil && got.TxHash() == th:
				st = "ok"
			}
			fmt.Fprintf(&rb, " %d:%s", tid, st)
		}
		return nil
	})
	h.emit("R %d %d%s", q, len(tids), rb.String())
	// the pending-side buckets themselves (store dump accessors, build tag verif)
	us, _, _, _, _ := h.W.WM.VerifStores()
	wnum := map[string]int{}
	for _, wi := range h.Wallets {
		wnum[wi.ID] = wi.Num
	}
	mwdb.View(db, func(rtx mwdb.ReadTransaction) error {
		var uc []string
		for _, op := range us.VerifUnminedCredits(rtx) {
			uc = append(uc, fmt.Sprintf("%d:%d", h.TxID[op.Hash], op.Index))
		}
		sort.Strings(uc)
		h.emit("UC %d %s", len(uc), strings.Join(uc, " "))
		var ui []string
		for op, l := range us.VerifUnminedInputs(rtx) {
			var sp []string
			for _, th := range l {
				sp = append(sp, fmt.Sprintf("%d", h.TxID[th]))
			}
			ui = append(ui, fmt.Sprintf("%d:%d=%s", h.TxID[op.Hash], op.Index, strings.Join(sp, ",")))
		}
		sort.Strings(ui)
		h.emit("UI %d %s", len(ui), strings.Join(ui, " "))
		for _, unm := range []bool{false, true} {
			var gr []string
			for _, r := range ts.VerifGameRows(rtx, unm) {
				gr = append(gr, fmt.Sprintf("%d:%d:%d:%d:%d:%d", wnum[r.WalletId], b01(r.IsBinding), b01(r.Withdrawn), h.TxID[r.TxHash], r.Height, r.Vout))
			}
			sort.Strings(gr)
			tag := "GR"
			if unm {
				tag = "GU"
			}
			h.emit("%s %d %s", tag, len(gr), strings.Join(gr, " "))
		}
		return nil
	})
}

func decodeTxHex(s string) *wire.MsgTx {
	bs, err := hex.DecodeString(s)
	if err != nil {
		return nil
	}
	tx := wire.NewMsgTx()
	if err := tx.SetBytes(bs, wire.Packet); err != nil {
		return nil
	}
	return tx
}

// selection asks the wallet to build transactions by automatic coin selection.
func (h *H) selection(wi *WInfo, o sim.Obs, q int) {
	if len(wi.Addrs) == 0 {
		return
	}
	// the eligible total according to the wallet's own listing
	e := int64(0)
	for _, u := range o.Utxos {
		hs, err := wire.NewHashFromStr(u.TxID)
		if err != nil {
			continue
		}
		c, _, _ := h.classify(h.outScript(*hs, u.Vout))
		if c == ClsStd && u.Confirmations >= u.Maturity && !u.SpentUnmined {
			e += u.Amount
		}
	}
	to := wi.Addrs[0].Addr
	ask := func(v int64) (string, []string) {
		amt, err := massutil.NewAmountFromInt(v)
		if err != nil || v <= 0 {
			return "-", nil
		}
		hx, _, err := h.W.WM.AutoCreateRawTransaction(map[string]massutil.Amount{to: amt}, 0, massutil.ZeroAmount(), "", "", nil)
		if err != nil {
			return "err", nil
		}
		tx := decodeTxHex(hx)
		if tx == nil {
			return "undecodable", nil
		}
		h.W.WM.ClearUsedUTXOMark(tx)
		var ins []string
		for _, in := range tx.TxIn {
			ins = append(ins, fmt.Sprintf("%d:%d", h.TxID[in.PreviousOutPoint.Hash], in.PreviousOutPoint.Index))
		}
		sort.Strings(ins)
		return "ok", ins
	}
	all, _ := ask(e)
	half, ins := ask(e / 2)
	h.emit("C %d %d %d %s %s %d %s", wi.Num, q, e, all, half, len(ins), strings.Join(ins, " "))
}

// withdrawals builds, for every listed deposit, the transaction that spends it and records the
// sequence number of its input.
func (h *H) withdrawals(wi *WInfo, o sim.Obs) {
	if len(wi.Addrs) == 0 {
		return
	}
	to := wi.Addrs[0].Addr
	var okDeps []dep
	for _, u := range o.Utxos {
		hs, err := wire.NewHashFromStr(u.TxID)
		if err != nil {
			continue
		}
		c, _, _ := h.classify(h.outScript(*hs, u.Vout))
		if c != ClsStaking && c != ClsBindingOld && c != ClsBindingNew {
			continue
		}
		amt, err := massutil.NewAmountFromInt(u.Amount)
		if err != nil {
			continue
		}
		lock := uint64(0)
		if h.R.Chance(30) {
			lock = uint64(1 + h.R.Intn(5))
		}
		hx, _, err := h.W.WM.CreateRawTransaction([]*masswallet.TxIn{{TxId: u.TxID, Vout: u.Vout}},
			map[string]massutil.Amount{to: amt}, lock, to, map[string]struct{}{to: {}})
		if err != nil {
			h.emit("W %d %d %d %d err 0", wi.Num, h.TxID[*hs], u.Vout, lock)
			continue
		}
		tx := decodeTxHex(hx)
		if tx == nil || len(tx.TxIn) != 1 {
			h.emit("W %d %d %d %d undecodable 0", wi.Num, h.TxID[*hs], u.Vout, lock)
			continue
		}
		h.W.WM.ClearUsedUTXOMark(tx)
		h.emit("W %d %d %d %d ok %d", wi.Num, h.TxID[*hs], u.Vout, lock, tx.TxIn[0].Sequence)
		okDeps = append(okDeps, dep{u.TxID, u.Vout, h.TxID[*hs], u.Amount})
	}
	// several deposits withdrawn by ONE transaction (all deposits of one transaction first, then random groups):
	// every input must carry the sequence its own lock requires, whatever the other inputs are
	// (one W line per input, judged like the single withdrawals)
	byTx := map[string][]dep{}
	var order []string
	for _, d := range okDeps {
		if _, ok := byTx[d.txid]; !ok {
			order = append(order, d.txid)
		}
		byTx[d.txid] = append(byTx[d.txid], d)
	}
	var groups [][]dep
	for _, t := range order {
		if len(byTx[t]) >= 2 {
			groups = append(groups, byTx[t])
		}
	}
	if len(okDeps) >= 2 {
		for k := 0; k < 2; k++ {
			n := 2 + h.R.Intn(2)
			if n > len(okDeps) {
				n = len(okDeps)
			}
			perm := make([]int, len(okDeps)) // Fisher-Yates from the history's own PRNG
			for i := range perm {
				perm[i] = i
			}
			for i := len(perm) - 1; i > 0; i-- {
				j := h.R.Intn(i + 1)
				perm[i], perm[j] = perm[j], perm[i]
			}
			var g []dep
			for _, i := range perm[:n] {
				g = append(g, okDeps[i])
			}
			groups = append(groups, g)
		}
	}
	for _, g := range groups {
		var ins []*masswallet.TxIn
		total := int64(0)
		for _, d := range g {
			ins = append(ins, &masswallet.TxIn{TxId: d.txid, Vout: d.vout})
			total += d.amount
		}
		amt, err := massutil.NewAmountFromInt(total)
		if err != nil {
			continue
		}
		lock := uint64(0)
		if h.R.Chance(30) {
			lock = uint64(1 + h.R.Intn(5))
		}
		hx, _, err := h.W.WM.CreateRawTransaction(ins, map[string]massutil.Amount{to: amt}, lock, to, map[string]struct{}{to: {}})
		if err != nil {
			for _, d := range g {
				h.emit("W %d %d %d %d err 0", wi.Num, d.tid, d.vout, lock)
			}
			continue
		}
		tx := decodeTxHex(hx)
		if tx == nil || len(tx.TxIn) != len(g) {
			for _, d := range g {
				h.emit("W %d %d %d %d undecodable 0", wi.Num, d.tid, d.vout, lock)
			}
			continue
		}
		h.W.WM.ClearUsedUTXOMark(tx)
		for i, d := range g {
			// inputs are built in request order; match by outpoint to be safe
			seq := tx.TxIn[i].Sequence
			for _, ti := range tx.TxIn {
				if ti.PreviousOutPoint.Hash.String() == d.txid && ti.PreviousOutPoint.Index == d.vout {
					seq = ti.Sequence
				}
			}
			h.emit("W %d %d %d %d ok %d", wi.Num, d.tid, d.vout, lock, seq)
		}
		h.px().nU["multi_withdrawals"]++
	}
}

type dep struct {
	txid   string
	vout   uint32
	tid    int
	amount int64
}

// LivePool is the exported view of livePool.
func (h *H) LivePool() []*wire.MsgTx { return h.livePool() }

// ChildOf builds a transaction spending one wallet-owned standard output of p (nil when p has none).
func (h *H) ChildOf(p *wire.MsgTx) *wire.MsgTx {
	owned := h.ownedSh()
	th := p.TxHash()
	var cand []src
	for vi, o := range p.TxOut {
		c, prm, sh := h.classify(o.PkScript)
		if _, own := owned[sh]; c == ClsStd && own && o.Value > 0 {
			cand = append(cand, src{op: wire.OutPoint{Hash: th, Index: uint32(vi)}, val: o.Value, class: c, param: prm, sh: sh, owned: true, onPool: true})
		}
	}
	if len(cand) == 0 {
		return nil
	}
	tx := h.buildFrom([]src{cand[h.R.Intn(len(cand))]}, 60)
	h.defineTx(tx)
	return tx
}

// KnownDelivered picks a transaction the wallet has already been shown: one it accepted as
// unconfirmed earlier (still pending, confirmed since, or conflicted), or — option AlreadyMined —
// one it first saw in a block.
func (h *H) KnownDelivered() *wire.MsgTx {
	e := h.px()
	if e.opt.AlreadyMined && h.R.Chance(50) {
		var l []*wire.MsgTx
		for _, b := range h.N.Best {
			for i, tx := range b.MsgBlock().Transactions {
				if i > 0 && !e.inPool[tx.TxHash()] {
					l = append(l, tx)
				}
			}
		}
		if len(l) > 0 {
			return l[h.R.Intn(len(l))]
		}
	}
	cands := e.pool
	if e.restarted {
		// the volatile set is gone: a node would re-announce only what is still unconfirmed and can still
		// confirm (its pool has dropped a transaction whose input a confirmed transaction spends: delivering
		// that one again is not an event the node can produce — false alarm of C09 thorough, history 1147,
		// DESIGN §10); with option AlreadyMined also what has confirmed meanwhile
		cands = nil
		live := map[wire.Hash]bool{}
		for _, tx := range h.livePool() {
			live[tx.TxHash()] = true
		}
		for _, tx := range e.pool {
			if live[tx.TxHash()] || (e.opt.AlreadyMined && h.OnBest(tx.TxHash())) {
				cands = append(cands, tx)
			}
		}
	}
	if len(cands) == 0 {
		return nil
	}
	return cands[h.R.Intn(len(cands))]
}

// matureSorted is matureCoins in an order that does not depend on transaction hashes (wallet keys
// are random, transaction ids are not): histories are then reproducible from the seed.
func (h *H) matureSorted(next uint64) []*Coin {
	l := h.matureCoins(next)
	sort.SliceStable(l, func(i, j int) bool {
		a, b := h.TxID[l[i].Op.Hash], h.TxID[l[j].Op.Hash]
		if a != b {
			return a < b
		}
		return l[i].Op.Index < l[j].Op.Index
	})
	return l
}

// CanReceive mirrors the guard of proccessReceivedTx (an unconfirmed transaction is looked at only
// while the wallet is at most one block behind the node): the wallet has processed the node's tip,
// or — only with option SimulConflicts, because a transaction built on the node's view may then
// conflict with one the wallet still holds — the tip is the one block it has not processed yet.
func (h *H) CanReceive() bool {
	best := h.W.H.VerifBest()
	tip := h.N.Tip()
	if best.Hash == *tip.Hash() {
		return true
	}
	return h.px().opt.SimulConflicts && tip.MsgBlock().Header.Previous == best.Hash
}

// Restart stops the wallet the way the daemon does and starts it again on the same database: the
// handler's volatile state (the set of known unconfirmed transactions) is lost, the store is kept.
func (h *H) Restart() error {
	h.W.Stop()
	w, err := sim.OpenWallet(h.N, h.Dir, nil, true)
	if err != nil {
		h.W = nil
		return err
	}
	h.W = w
	h.px().restarted = true
	h.emit("Z restart")
	return nil
}

// ---------------------------------------------------------------- directed shapes (findings)

// freeCoins lists mature standard coins of the best chain that no live pending transaction spends,
// owned by a wallet or not.
func (h *H) freeCoins(owned bool) []src {
	own := h.ownedSh()
	spent := spentByPool(h.livePool())
	var l []src
	for _, c := range h.matureSorted(h.N.Height() + 1) {
		if _, s := spent[c.Op]; s || c.Class != ClsStd || c.Val < 100000 {
			continue
		}
		if _, o := own[c.Sh]; o == owned {
			l = append(l, src{op: c.Op, val: c.Val, class: c.Class, param: c.Param, sh: c.Sh, owned: o})
		}
	}
	return l
}

// mineNow attaches a block holding exactly the given transactions (plus the coinbase) and lets the wallet process it.
func (h *H) mineNow(txs []*wire.MsgTx) error {
	b := h.BuildBlockP(0, txs)
	if err := h.Attach(b); err != nil {
		return err
	}
	h.Process(b)
	return nil
}

// Scenario plays one directed shape; it returns false when the chain does not offer the coins it needs yet.
func (h *H) Scenario(name string) (bool, error) {
	if h.Stale {
		h.Process(h.N.Tip())
	}
	switch name {
	case "simul":
		// two pending transactions share input a; a third transaction confirms that double-spends
		// only the first one's other input: removing the first deletes the whole key of a
		own := h.freeCoins(true)
		if len(own) < 3 {
			return false, nil
		}
		a, b, c := own[0], own[1], own[2]
		t1 := h.buildFrom([]src{a, b}, 60)
		t2 := h.buildFrom([]src{a, c}, 60)
		h.defineTx(t1)
		h.defineTx(t2)
		h.Receive(t1)
		h.Receive(t2)
		t3 := h.buildFrom([]src{b}, 60)
		h.defineTx(t3)
		if err := h.mineNow([]*wire.MsgTx{t3}); err != nil {
			return false, err
		}
	case "mined":
		// a transaction first seen in a block (it spends a wallet coin and pays strangers) is delivered as unconfirmed afterwards
		own := h.freeCoins(true)
		if len(own) < 1 {
			return false, nil
		}
		t := h.buildFrom([]src{own[0]}, 0)
		h.defineTx(t)
		if err := h.mineNow([]*wire.MsgTx{t}); err != nil {
			return false, err
		}
		h.Receive(t)
	case "forkrecv":
		// The node has switched to a fork of the same height and relays a transaction before the wallet has
		// processed the switch (the guard of proccessReceivedTx compares heights only): t, spending a, is
		// confirmed for the wallet; the node replaces t's block; u, spending a and b, arrives (for the wallet a
		// is still spent by the mined t); the wallet processes the switch (t returns to the pending set beside
		// u); t confirms again: u must vanish and b be free (seed C09f: Rollback overwrote the list of a's
		// pending spenders, u was never found again).
		own := h.freeCoins(true)
		if len(own) < 2 {
			return false, nil
		}
		a, b := own[0], own[1]
		t := h.buildFrom([]src{a}, 40)
		h.defineTx(t)
		if err := h.mineNow([]*wire.MsgTx{t}); err != nil {
			return false, err
		}
		if _, err := h.Detach(); err != nil {
			return false, err
		}
		b2 := h.BuildBlockP(0, nil)
		if err := h.Attach(b2); err != nil {
			return false, err
		}
		u := h.buildFrom([]src{a, b}, 40)
		h.defineTx(u)
		h.Receive(u)
		h.Process(b2)
		h.QueryP(false, false)
		if err := h.mineNow([]*wire.MsgTx{t}); err != nil {
			return false, err
		}
	case "foreign":
		// an incoming payment is double-spent by its sender in a transaction that does not concern the wallet
		fr := h.freeCoins(false)
		if len(fr) < 1 || len(h.ownedSh()) == 0 {
			return false, nil
		}
		t := h.buildFrom([]src{fr[0]}, 100)
		h.defineTx(t)
		if h.Receive(t) != "rel" {
			return false, nil
		}
		t2 := h.buildFrom([]src{fr[0]}, 0)
		h.defineTx(t2)
		if err := h.mineNow([]*wire.MsgTx{t2}); err != nil {
			return false, err
		}
	case "unseen":
		// the wallet is one block behind; an unconfirmed child of a transaction of that block arrives; the
		// block is reorganised away before the wallet processes it and the parent is double-spent: the
		// wallet never learns the parent, the child stays pending
		own := h.freeCoins(true)
		if len(own) < 1 {
			return false, nil
		}
		parent := h.buildFrom([]src{own[0]}, 100)
		h.defineTx(parent)
		child := h.ChildOf(parent)
		if child == nil {
			return false, nil
		}
		b := h.BuildBlockP(0, []*wire.MsgTx{parent})
		if err := h.Attach(b); err != nil {
			return false, err
		}
		h.Receive(child)
		if _, err := h.Detach(); err != nil {
			return false, err
		}
		x := h.buildFrom([]src{own[0]}, 0)
		h.defineTx(x)
		if err := h.mineNow([]*wire.MsgTx{x}); err != nil {
			return false, err
		}
	default:
		return true, nil
	}
	h.QueryP(false, false)
	return true, nil
}
