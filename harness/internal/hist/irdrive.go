package hist

// Protocol drivers shared by cmd/c07 and cmd/c08: they run the real import / removal workers step
// by step (the worker is parked by internal/gate after each of its database transactions), let
// the caller move the node and queue ONE announcement between two steps, and record the order in
// which the handler and the worker actually ran as M / R / P lines. Add-only.

import (
	"fmt"
	"os"
	"time"

	"github.com/massnetorg/mass-core/massutil"
	"verifharness/internal/gate"
)

// Drive couples a history with the gate of its running instance.
type Drive struct {
	H      *H
	G      *gate.Gate
	PassID map[string]int
	Pend   *massutil.Block // announced without waiting; not yet known to be processed
	Stats  map[string]int
}

func NewDrive(h *H, g *gate.Gate) *Drive {
	return &Drive{H: h, G: g, PassID: map[string]int{}, Stats: map[string]int{}}
}

// Pass returns the model's name for a passphrase string.
func (d *Drive) Pass(s string) int {
	if id, ok := d.PassID[s]; ok {
		return id
	}
	id := len(d.PassID) + 1
	d.PassID[s] = id
	return id
}

// NewWallet creates a ready wallet and emits W new.
func (d *Drive) NewWallet() (*WInfo, error) {
	wi, err := d.H.NewWallet()
	if err != nil {
		return nil, err
	}
	d.H.emit("W new %d %d", wi.Num, d.Pass(wi.Pass))
	return wi, nil
}

// Announce queues the announcement of b without waiting (only while the worker is parked, or when
// the caller resolves it before the next one).
func (d *Drive) Announce(b *massutil.Block) {
	if d.Pend != nil {
		panic("hist: one pending announcement at a time")
	}
	d.Pend = b
	d.H.emit("D await %d", d.H.BlkID[*b.Hash()])
	d.H.IFlush()
	d.H.W.NotifyAsync(b)
}

// resolve emits the P line of the pending announcement if the handler has taken it. It must be
// called while the handler cannot be in the middle of a block: when the worker is parked (the
// handler is suspended then) or after Barrier.
func (d *Drive) resolve() bool {
	if d.Pend == nil {
		return false
	}
	if d.H.W.H.VerifQueueLen() > 0 {
		return false
	}
	b := d.Pend
	d.Pend = nil
	res := "err"
	if d.H.W.H.VerifBest().Hash == *b.Hash() {
		res = "ok"
	}
	d.H.emit("P %d %s", d.H.BlkID[*b.Hash()], res)
	if *b.Hash() == *d.H.N.Tip().Hash() {
		d.H.Stale = false
	}
	return true
}

// Settle waits for the handler to drain and resolves the pending announcement.
func (d *Drive) Settle() {
	d.H.W.Barrier()
	d.resolve()
}

// Between is called while the worker is parked after a step. kind: "import" or "remove";
// step counts the worker's finished transactions of this task. It may change the node and call
// Announce once. Returning "restart" makes the driver crash the instance here and reopen it
// (after calling the function again with kind "+down" so that the node can move while the wallet is down).
type Between func(kind string, step int, status string) string

// RunImport drives the import task of wi to its end. It expects the gate to be armed and the
// worker not yet started on the task (call it right after ImportMnemonic/ImportKeystoreJSON made
// with the gate armed). Returns the final status and whether the task ended normally.
func (d *Drive) RunImport(wi *WInfo, between Between, timeout time.Duration) (string, bool) {
	h := d.H
	step := 0
	for {
		ev, ok := d.G.WaitHeld(timeout)
		if !ok {
			// no worker transaction: finished earlier, or the task was dropped
			st := h.StatusOf(wi.ID)
			return st, st == "ready"
		}
		st := h.StatusOf(wi.ID)
		if d.resolve() {
			d.Stats["between_import_steps"]++
		}
		res := "fail"
		if ev.Committed {
			res = "ok"
			step++
		} else {
			d.Stats["import_retries"]++
		}
		h.emit("M %d %s %s", wi.Num, res, st)
		if st == "ready" {
			d.G.Disarm()
			d.G.Release()
			return st, true
		}
		if between != nil {
			if ev.Committed {
				between("import", step, st)
			} else {
				between("import-failed", step, st)
			}
		}
		if d.Stats["import_retries"] > 400 {
			d.G.Disarm()
			d.G.Release()
			return st, false
		}
		d.G.Release()
	}
}

// RunRemove drives the removal of wi after a successful RemoveWallet made with the gate armed.
// reopen re-creates the instance after a crash (returns the new gate, already armed) — nil when
// restarts are not used.
func (d *Drive) RunRemove(wi *WInfo, between Between, reopen func() (*gate.Gate, string), timeout time.Duration) (string, bool) {
	h := d.H
	step := 0
	for {
		ev, ok := d.G.WaitHeld(timeout)
		if !ok {
			st := h.StatusOf(wi.ID)
			return st, st == "gone"
		}
		st := h.StatusOf(wi.ID)
		if d.resolve() {
			d.Stats["between_remove_steps"]++
		}
		if !ev.Committed {
			h.emit("V remove-step-failed wallet %d step %d", wi.Num, step)
		} else if step == 0 {
			h.emit("R phase1 %d", wi.Num)
			step++
		} else {
			h.emit("R round %d %s", wi.Num, st)
			step++
		}
		if st == "gone" {
			d.G.Disarm()
			d.G.Release()
			return st, true
		}
		act := ""
		if ev.Committed && between != nil {
			act = between("remove", step, st)
		}
		if act == "restart" && reopen != nil {
			// crash with the worker parked (it never runs again), node may move, reopen
			h.CrashInstance()
			between("remove+down", step, st)
			h.emit("D restart")
			h.IFlush()
			g2, res := reopen()
			h.emit("R restart %s", res)
			d.Stats["restarts"]++
			d.G = g2 // the old gate keeps the old worker parked for ever
			d.Pend = nil
			if res != "ok" {
				return "restart-" + res, false
			}
			h.Stale = h.W.H.VerifBest().Hash != *h.N.Tip().Hash()
			step = 0
			continue
		}
		d.G.Release()
	}
}

// Reopen opens the instance in its directory again under a fresh, armed gate; the start (catch-up
// included) runs under recover.
func (d *Drive) Reopen(name string) (g *gate.Gate, res string) {
	g = gate.New()
	g.Arm()
	res = "ok"
	func() {
		defer func() {
			if r := recover(); r != nil {
				res = "panic"
				if os.Getenv("VERIF_DUMP") != "" {
					fmt.Fprintln(os.Stderr, "start panicked:", r)
				}
			}
		}()
		var err error
		if name == "" {
			err = d.H.openAt(d.H.Dir, g.Wrap)
		} else {
			err = d.H.OpenInstance(name, g.Wrap)
		}
		if err != nil {
			res = "err"
		}
	}()
	return g, res
}
