package hist

// Helpers for the address-issuing property (C12): blocks that pay chosen scripts, exported
// access to the line writer and to the script-hash numbering. Add-only; hist.go is unchanged.

import (
	"github.com/massnetorg/mass-core/massutil"
	"github.com/massnetorg/mass-core/txscript"
	"github.com/massnetorg/mass-core/wire"
	"massnet.org/mass-wallet/config"
	"verifharness/internal/sim"
)

// AEmit writes one line of the history (same writer and log as the built-in lines).
// (Named apart from the accessors other checks add to this package.)
func (h *H) AEmit(format string, a ...interface{}) { h.emit(format, a...) }

// AShID returns the model's number of a 32-byte script hash (assigning the next free one).
func (h *H) AShID(b []byte) int { return h.sh(b) }

// ScriptStdOf / ScriptStakingOf / ScriptBindingOf build output scripts for a bare script hash.
func ScriptStdOf(sh []byte) []byte { return witnessScript(sh) }

func ScriptStakingOf(sh []byte, frozen uint64) []byte {
	a, err := massutil.NewAddressStakingScriptHash(sh, config.ChainParams)
	if err != nil {
		panic(err)
	}
	s, err := txscript.PayToStakingAddrScript(a, frozen)
	if err != nil {
		panic(err)
	}
	return s
}

func ScriptBindingOf(holder []byte, target20 []byte) []byte {
	s, err := txscript.PayToBindingScriptHashScript(holder, target20)
	if err != nil {
		panic(err)
	}
	return s
}

// PayBlock builds (and defines for the model) a block on the node's tip whose coinbase pays cbOuts
// and which, when txOuts is not empty and a mature coin exists, contains one transaction spending
// that coin into txOuts (the first output takes the coin's whole value, the others 0: the chain
// database does not validate amounts, the models do not depend on them).
func (h *H) PayBlock(cbOuts []sim.Out, txOuts []sim.Out) *massutil.Block {
	var txs []*wire.MsgTx
	if len(txOuts) > 0 {
		avail := h.matureCoins(h.N.Height() + 1)
		var pick *Coin
		for _, c := range avail {
			if c.Class == ClsStd && c.Val > 0 {
				pick = c
				break
			}
		}
		if pick == nil {
			cbOuts = append(cbOuts, txOuts...)
		} else {
			outs := make([]sim.Out, len(txOuts))
			copy(outs, txOuts)
			rest := pick.Val
			for i := range outs {
				if outs[i].Value > rest {
					outs[i].Value = rest
				}
				rest -= outs[i].Value
			}
			outs[0].Value += rest
			txs = append(txs, sim.NewTx([]wire.OutPoint{pick.Op}, nil, outs, 0, nil))
		}
	}
	b := h.N.MakeBlock(h.N.Tip(), cbOuts, txs)
	h.defineBlock(b)
	return b
}

// StrangerScript returns one of the non-wallet payee scripts of this history.
func (h *H) StrangerScript() []byte { return h.Strangers[h.R.Intn(len(h.Strangers))] }
