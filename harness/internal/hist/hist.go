// Package hist generates chain/wallet histories, executes them on the real wallet through
// internal/sim, and writes them — together with the implementation's observations — in the
// line format the extracted Coq model (ocaml/C01/driver.ml and friends) replays.
//
// Line format (space separated, one history between "H <n>" and "E"):
//   K <cbmat> <bindlock>                 consensus parameters in force
//   G <bid>                              genesis block id
//   A <sh> <wid>                         script hash id sh now belongs to ready wallet wid
//   B <bid> <prev> <height> <ntx>        block definition, followed by its transactions:
//   T <txid> <cb> <nin> <nout>  /  I <ptxid> <pvout>  /  O <sh> <value> <class> <param>
//   N attach <bid> | N detach            node chain operations
//   P <bid> <ok|err>                     the wallet processed the announcement of block bid
//   Q <wid> <quiescent 0|1> <report>     observation of wallet wid (implementation's report)
//   E
// report = synced total spendable wstaking wbinding nrows row...   row = tx:vout:amount:height:sh:maturity:confs:spendable
package hist

import (
	"bufio"
	"encoding/hex"
	"fmt"
	"os"
	"sort"
	"strings"

	"github.com/massnetorg/mass-core/consensus"
	"github.com/massnetorg/mass-core/massutil"
	"github.com/massnetorg/mass-core/txscript"
	"github.com/massnetorg/mass-core/wire"
	"massnet.org/mass-wallet/config"
	mwdb "massnet.org/mass-wallet/masswallet/db"
	"verifharness/internal/rng"
	"verifharness/internal/sim"
)

const (
	ClsStd = iota
	ClsStaking
	ClsBindingOld
	ClsBindingNew
	ClsUnsupported = 9
)

// Coin is an output on the node's best chain.
type Coin struct {
	Op     wire.OutPoint
	Val    int64
	Script []byte
	Class  int
	Param  int64
	Sh     int // script-hash id, 0 = not a witness script hash
	Height uint64
	CB     bool
}

type AddrInfo struct {
	Addr    string // standard address
	Staking string // staking form, "" unless issued as staking address
	Sh      int
	ShBytes []byte
}

type WInfo struct {
	ID    string
	Num   int
	Pass  string
	Addrs []*AddrInfo
	Mnemo string
}

type undo struct {
	blk     *massutil.Block
	spent   []*Coin
	created []wire.OutPoint
}

// H is one history being generated and executed.
type H struct {
	R       *rng.R
	N       *sim.Node
	W       *sim.Wallet
	Out     *bufio.Writer
	Dir     string
	Wallets []*WInfo
	shID    map[string]int
	TxID    map[wire.Hash]int
	BlkID   map[wire.Hash]int
	Blocks  map[int]*massutil.Block
	Utxo    map[wire.OutPoint]*Coin
	undos   []undo
	Stale   bool // the wallet has not yet accepted the node's current tip
	nextTx  int
	nextBlk int
	Strangers [][]byte // scripts of non-wallet payees
	Detached []*wire.MsgTx // non-coinbase transactions of detached blocks (candidates for re-mining)
	Log     []string
	Opt     Options
}

type Options struct {
	Unsupported bool // generate non-witness outputs (OP_RETURN etc.)
	Games       bool // staking / binding outputs
	Lag         bool // let announcements lag behind the node
	MaxReorg    int
}

func (h *H) emit(format string, a ...interface{}) {
	s := fmt.Sprintf(format, a...)
	h.Log = append(h.Log, s)
	if h.Out != nil {
		h.Out.WriteString(s)
		h.Out.WriteByte('\n')
	}
}

// New creates the node, the wallet manager and the bookkeeping; emits the history header.
func New(r *rng.R, out *bufio.Writer, n int, opt Options, wrap sim.DBWrap) (*H, error) {
	dir, err := os.MkdirTemp(scratchRoot(), "vh")
	if err != nil {
		return nil, err
	}
	node, err := sim.NewNode(dir)
	if err != nil {
		os.RemoveAll(dir)
		return nil, err
	}
	w, err := sim.OpenWallet(node, dir, wrap, true)
	if err != nil {
		node.Close()
		os.RemoveAll(dir)
		return nil, err
	}
	h := &H{R: r, N: node, W: w, Out: out, Dir: dir, shID: map[string]int{}, TxID: map[wire.Hash]int{}, BlkID: map[wire.Hash]int{},
		Blocks: map[int]*massutil.Block{}, Utxo: map[wire.OutPoint]*Coin{}, nextTx: 1, nextBlk: 1, Opt: opt}
	if h.Opt.MaxReorg == 0 {
		h.Opt.MaxReorg = 4
	}
	h.emit("H %d", n)
	h.emit("K %d %d", consensus.CoinbaseMaturity, consensus.MASSIP0002BindingLockedPeriod)
	g := node.Best[0]
	h.BlkID[*g.Hash()] = 0
	h.Blocks[0] = g
	h.emit("G 0")
	for i := 0; i < 3; i++ {
		h.Strangers = append(h.Strangers, witnessScript(r.Bytes(32)))
	}
	return h, nil
}

func scratchRoot() string {
	if st, err := os.Stat("/dev/shm"); err == nil && st.IsDir() {
		return "/dev/shm"
	}
	return ""
}

// Close stops the wallet and removes every scratch file.
func (h *H) Close() {
	delete(retiredScripts, h)
	if h.W != nil {
		h.W.Stop()
	}
	h.N.Close()
	os.RemoveAll(h.Dir)
}

func witnessScript(hash32 []byte) []byte {
	s, err := txscript.PayToWitnessScriptHashScript(hash32)
	if err != nil {
		panic(err)
	}
	return s
}

func (h *H) sh(b []byte) int {
	k := hex.EncodeToString(b)
	if id, ok := h.shID[k]; ok {
		return id
	}
	id := len(h.shID) + 1
	h.shID[k] = id
	return id
}

// classify returns (class, param, script-hash id) of a script the way the model sees it.
func (h *H) classify(pk []byte) (int, int64, int) {
	class, pops := txscript.GetScriptInfo(pk)
	switch class {
	case txscript.WitnessV0ScriptHashTy:
		_, rsh, err := txscript.GetParsedOpcode(pops, class)
		if err != nil {
			return ClsUnsupported, 0, 0
		}
		return ClsStd, 0, h.sh(rsh[:])
	case txscript.StakingScriptHashTy:
		fr, rsh, err := txscript.GetParsedOpcode(pops, class)
		if err != nil {
			return ClsUnsupported, 0, 0
		}
		return ClsStaking, int64(fr), h.sh(rsh[:])
	case txscript.BindingScriptHashTy:
		holder, target, err := txscript.GetParsedBindingOpcode(pops)
		if err != nil {
			return ClsUnsupported, 0, 0
		}
		if len(target) == 20 {
			return ClsBindingOld, 0, h.sh(holder)
		}
		return ClsBindingNew, 0, h.sh(holder)
	}
	return ClsUnsupported, 0, 0
}

// NewWallet creates a wallet (ready at once) and selects nothing.
func (h *H) NewWallet() (*WInfo, error) {
	pass := fmt.Sprintf("passW%d@verif", len(h.Wallets)+1)
	id, mn, _, err := h.W.WM.CreateWallet(pass, "", 128)
	if err != nil {
		return nil, err
	}
	wi := &WInfo{ID: id, Num: len(h.Wallets) + 1, Pass: pass, Mnemo: mn}
	h.Wallets = append(h.Wallets, wi)
	return wi, nil
}

// NewAddress issues the next address of wallet wi (class 0 standard, 1 staking).
func (h *H) NewAddress(wi *WInfo, class uint16) (*AddrInfo, error) {
	if _, err := h.W.WM.UseWallet(wi.ID); err != nil {
		return nil, err
	}
	a, err := h.W.WM.NewAddress(class)
	if err != nil {
		return nil, err
	}
	addr, err := massutil.DecodeAddress(a, config.ChainParams)
	if err != nil {
		return nil, err
	}
	ai := &AddrInfo{ShBytes: addr.ScriptAddress()}
	std, err := massutil.NewAddressWitnessScriptHash(addr.ScriptAddress(), config.ChainParams)
	if err != nil {
		return nil, err
	}
	ai.Addr = std.EncodeAddress()
	if class == 1 {
		ai.Staking = a
	}
	ai.Sh = h.sh(ai.ShBytes)
	wi.Addrs = append(wi.Addrs, ai)
	h.emit("A %d %d", ai.Sh, wi.Num)
	return ai, nil
}

// ---------------------------------------------------------------- scripts for payees

func (h *H) scriptStd(ai *AddrInfo) []byte { return witnessScript(ai.ShBytes) }

func (h *H) scriptStaking(ai *AddrInfo, frozen uint64) []byte {
	a, err := massutil.NewAddressStakingScriptHash(ai.ShBytes, config.ChainParams)
	if err != nil {
		panic(err)
	}
	s, err := txscript.PayToStakingAddrScript(a, frozen)
	if err != nil {
		panic(err)
	}
	return s
}

func (h *H) scriptBinding(ai *AddrInfo, newStyle bool) []byte {
	var target []byte
	if newStyle {
		target = append(h.R.Bytes(20), byte(h.R.Intn(2)), byte(20+h.R.Intn(30))) // 20-byte hash, type byte, size byte
	} else {
		target = h.R.Bytes(20)
	}
	s, err := txscript.PayToBindingScriptHashScript(ai.ShBytes, target)
	if err != nil {
		panic(err)
	}
	return s
}

// frozenPeriod: mostly short periods (so that stakes mature within a history), now and then one around
// consensus.MASSIP0001MaxValidPeriod (1474560, the cap of the staking WEIGHT, which must not leak into the lock)
// or near the top of the 32-bit range; such a stake never matures within a history, but its recorded maturity
// (frozen period + 1) is part of every report and of the staking history.
func (h *H) frozenPeriod() uint64 {
	if h.R.Chance(12) {
		big := []uint64{1474559, 1474560, 1474561, 1474562, 2949120, 1 << 31, 0xfffffffd, 0xfffffffe}
		return big[h.R.Intn(len(big))]
	}
	return uint64(2 + h.R.Intn(5))
}

// randomPayee picks an output script; noBinding: the transaction spends a binding output,
// consensus (checkParsePkScriptNew) then forbids binding outputs.
func (h *H) randomPayee(noBinding bool) []byte {
	// 65% a wallet address, else a stranger
	var all []*AddrInfo
	for _, w := range h.Wallets {
		all = append(all, w.Addrs...)
	}
	if len(all) > 0 && h.R.Chance(65) {
		ai := all[h.R.Intn(len(all))]
		if h.Opt.Games && h.R.Chance(25) {
			k := h.R.Intn(3)
			if noBinding {
				k = 0
			}
			switch k {
			case 0:
				return h.scriptStaking(ai, h.frozenPeriod())
			case 1:
				return h.scriptBinding(ai, false)
			default:
				return h.scriptBinding(ai, true)
			}
		}
		return h.scriptStd(ai)
	}
	if h.Opt.Unsupported && h.R.Chance(15) {
		switch h.R.Intn(3) {
		case 0:
			return append([]byte{txscript.OP_RETURN, 4}, h.R.Bytes(4)...)
		case 1:
			return []byte{txscript.OP_DUP, txscript.OP_HASH160, 2, 1, 2, txscript.OP_EQUALVERIFY, txscript.OP_CHECKSIG}
		default:
			return []byte{txscript.OP_TRUE}
		}
	}
	return h.Strangers[h.R.Intn(len(h.Strangers))]
}

// ---------------------------------------------------------------- chain operations

func (h *H) defineBlock(b *massutil.Block) int {
	id := h.nextBlk
	h.nextBlk++
	h.BlkID[*b.Hash()] = id
	h.Blocks[id] = b
	mb := b.MsgBlock()
	h.emit("B %d %d %d %d", id, h.BlkID[mb.Header.Previous], mb.Header.Height, len(mb.Transactions))
	for i, tx := range mb.Transactions {
		th := tx.TxHash()
		tid, ok := h.TxID[th]
		if !ok {
			tid = h.nextTx
			h.nextTx++
			h.TxID[th] = tid
		}
		cb := 0
		nin := len(tx.TxIn)
		if i == 0 {
			cb = 1
			nin = 0
		}
		h.emit("T %d %d %d %d", tid, cb, nin, len(tx.TxOut))
		if i > 0 {
			for _, in := range tx.TxIn {
				h.emit("I %d %d", h.TxID[in.PreviousOutPoint.Hash], in.PreviousOutPoint.Index)
			}
		}
		for _, o := range tx.TxOut {
			c, p, sh := h.classify(o.PkScript)
			h.emit("O %d %d %d %d", sh, o.Value, c, p)
		}
	}
	return id
}

// spendable coins for a block at height next (consensus-valid chains only)
func (h *H) matureCoins(next uint64) []*Coin {
	var l []*Coin
	for _, c := range h.Utxo {
		if c.CB && next-c.Height < consensus.CoinbaseMaturity {
			continue
		}
		if c.Class == ClsStaking && next-c.Height < uint64(c.Param)+1 {
			continue
		}
		if c.Class == ClsBindingNew {
			continue // locked for 2^32-2 blocks
		}
		if c.Class == ClsUnsupported {
			continue
		}
		l = append(l, c)
	}
	sort.Slice(l, func(i, j int) bool {
		// order by the history's own transaction numbers, not by hash: wallet keys are random per run, so
		// hashes (and an order derived from them) differ between two runs of the same seed
		a, b := l[i].Op, l[j].Op
		if a.Hash != b.Hash {
			ia, ib := h.TxID[a.Hash], h.TxID[b.Hash]
			if ia != ib {
				return ia < ib
			}
			return strings.Compare(a.Hash.String(), b.Hash.String()) < 0
		}
		return a.Index < b.Index
	})
	return l
}

// randomTx spends 1..3 of the available coins (removing them from avail) into 1..3 outputs.
func (h *H) randomTx(avail *[]*Coin) *wire.MsgTx {
	if len(*avail) == 0 {
		return nil
	}
	nin := 1 + h.R.Intn(3)
	if nin > len(*avail) {
		nin = len(*avail)
	}
	var ins []wire.OutPoint
	var seqs []uint64
	total := int64(0)
	noBinding := false
	for i := 0; i < nin; i++ {
		k := h.R.Intn(len(*avail))
		c := (*avail)[k]
		*avail = append((*avail)[:k], (*avail)[k+1:]...)
		ins = append(ins, c.Op)
		seq := uint64(wire.MaxTxInSequenceNum)
		if c.Class == ClsStaking {
			seq = uint64(c.Param)
		}
		if c.Class == ClsBindingOld || c.Class == ClsBindingNew {
			noBinding = true
		}
		seqs = append(seqs, seq)
		total += c.Val
	}
	nout := 1 + h.R.Intn(3)
	var outs []sim.Out
	rest := total
	for i := 0; i < nout; i++ {
		v := rest
		if i < nout-1 {
			v = int64(h.R.U64() % uint64(rest+1))
		}
		rest -= v
		if v == 0 && h.R.Chance(80) {
			continue
		}
		outs = append(outs, sim.Out{Script: h.randomPayee(noBinding), Value: v})
	}
	if len(outs) == 0 {
		outs = append(outs, sim.Out{Script: h.randomPayee(noBinding), Value: total})
	}
	return sim.NewTx(ins, seqs, outs, 0, nil)
}

// BuildBlock makes a block on the current tip with ntx random transactions (spend chains inside
// the block included) plus the given extra transactions, and defines it for the model.
func (h *H) BuildBlock(ntx int, extra []*wire.MsgTx) *massutil.Block {
	next := h.N.Height() + 1
	avail := h.matureCoins(next)
	// drop coins the extra transactions spend
	used := map[wire.OutPoint]bool{}
	for _, tx := range extra {
		for _, in := range tx.TxIn {
			used[in.PreviousOutPoint] = true
		}
	}
	var av2 []*Coin
	for _, c := range avail {
		if !used[c.Op] {
			av2 = append(av2, c)
		}
	}
	avail = av2
	txs := append([]*wire.MsgTx{}, extra...)
	for i := 0; i < ntx; i++ {
		tx := h.randomTx(&avail)
		if tx == nil {
			break
		}
		txs = append(txs, tx)
		// outputs of this transaction may be spent later in the same block
		if h.R.Chance(40) {
			th := tx.TxHash()
			for vi, o := range tx.TxOut {
				c, p, sh := h.classify(o.PkScript)
				if c == ClsStd && o.Value > 0 {
					avail = append(avail, &Coin{Op: wire.OutPoint{Hash: th, Index: uint32(vi)}, Val: o.Value, Script: o.PkScript, Class: c, Param: p, Sh: sh, Height: next})
				}
			}
		}
	}
	var cb []sim.Out
	if h.R.Chance(70) {
		cb = append(cb, sim.Out{Script: h.randomPayee(false), Value: int64(1+h.R.Intn(50)) * 10000000})
	}
	if h.R.Chance(20) {
		cb = append(cb, sim.Out{Script: h.randomPayee(false), Value: int64(1+h.R.Intn(50)) * 1000000})
	}
	b := h.N.MakeBlock(h.N.Tip(), cb, txs)
	h.defineBlock(b)
	return b
}

// Attach makes b the node's best block and updates the harness' UTXO view.
func (h *H) Attach(b *massutil.Block) error {
	if err := h.N.Attach(b); err != nil {
		return err
	}
	u := undo{blk: b}
	for i, tx := range b.MsgBlock().Transactions {
		if i > 0 {
			for _, in := range tx.TxIn {
				c := h.Utxo[in.PreviousOutPoint]
				if c == nil {
					return fmt.Errorf("hist: block %d spends a missing coin %v", b.Height(), in.PreviousOutPoint)
				}
				u.spent = append(u.spent, c)
				delete(h.Utxo, in.PreviousOutPoint)
			}
		}
		th := tx.TxHash()
		for vi, o := range tx.TxOut {
			c, p, sh := h.classify(o.PkScript)
			op := wire.OutPoint{Hash: th, Index: uint32(vi)}
			h.Utxo[op] = &Coin{Op: op, Val: o.Value, Script: o.PkScript, Class: c, Param: p, Sh: sh, Height: b.Height(), CB: i == 0}
			u.created = append(u.created, op)
		}
	}
	h.undos = append(h.undos, u)
	h.emit("N attach %d", h.BlkID[*b.Hash()])
	h.Stale = true
	return nil
}

// Detach disconnects the node's best block.
func (h *H) Detach() (*massutil.Block, error) {
	b, err := h.N.Detach()
	if err != nil {
		return nil, err
	}
	u := h.undos[len(h.undos)-1]
	h.undos = h.undos[:len(h.undos)-1]
	for _, op := range u.created {
		delete(h.Utxo, op)
	}
	for _, c := range u.spent {
		// a coin created and spent inside the detached block stays gone
		if h.isCreatedBy(u, c.Op) {
			continue
		}
		h.Utxo[c.Op] = c
	}
	for i, tx := range b.MsgBlock().Transactions {
		if i > 0 {
			h.Detached = append(h.Detached, tx)
		}
	}
	h.emit("N detach")
	h.Stale = true
	return b, nil
}

func (h *H) isCreatedBy(u undo, op wire.OutPoint) bool {
	for _, o := range u.created {
		if o == op {
			return true
		}
	}
	return false
}

// Process lets the wallet process the announcement of b (as the node would deliver it now).
func (h *H) Process(b *massutil.Block) {
	if os.Getenv("VERIF_DUMP") != "" {
		h.DumpSync(fmt.Sprintf("before P %d", h.BlkID[*b.Hash()]))
	}
	h.W.Notify(b)
	best := h.W.H.VerifBest()
	ok := best.Hash == *b.Hash()
	res := "err"
	if ok {
		res = "ok"
	}
	h.emit("P %d %s", h.BlkID[*b.Hash()], res)
	if *b.Hash() == *h.N.Tip().Hash() {
		// the announcement of the node's current tip has been processed: from here on the
		// wallet is expected to report the node's best chain (C01), accepted or not
		h.Stale = false
	}
}

// ---------------------------------------------------------------- observation

func (h *H) Report(o sim.Obs) string {
	if o.Err != "" {
		return "error " + strings.ReplaceAll(o.Err, " ", "_")
	}
	type row struct {
		tx, vout                               int
		amt                                    int64
		height                                 uint64
		sh                                     int
		mat, confs                             uint32
	}
	seen := map[[2]int]bool{}
	var rows []row
	for _, u := range o.Utxos {
		var th wire.Hash
		hs, err := wire.NewHashFromStr(u.TxID)
		if err == nil {
			th = *hs
		}
		tid := h.TxID[th]
		if seen[[2]int{tid, int(u.Vout)}] {
			continue
		}
		seen[[2]int{tid, int(u.Vout)}] = true
		a, err := massutil.DecodeAddress(u.Addr, config.ChainParams)
		sh := 0
		if err == nil {
			sh = h.sh(a.ScriptAddress())
		}
		rows = append(rows, row{tid, int(u.Vout), u.Amount, u.Height, sh, u.Maturity, u.Confirmations})
	}
	sort.Slice(rows, func(i, j int) bool {
		if rows[i].tx != rows[j].tx {
			return rows[i].tx < rows[j].tx
		}
		return rows[i].vout < rows[j].vout
	})
	var sb strings.Builder
	fmt.Fprintf(&sb, "%d %d %d %d %d %d", o.Synced, o.Total, o.Spendable, o.WStaking, o.WBinding, len(rows))
	for _, r := range rows {
		sp := 0
		if r.confs >= r.mat {
			sp = 1
		}
		fmt.Fprintf(&sb, " %d:%d:%d:%d:%d:%d:%d:%d", r.tx, r.vout, r.amt, r.height, r.sh, r.mat, r.confs, sp)
	}
	return sb.String()
}

// Query observes every wallet.
func (h *H) Query() {
	q := 1
	if h.Stale {
		q = 0
	}
	for _, wi := range h.Wallets {
		o := h.W.Observe(wi.ID)
		h.emit("Q %d %d %s", wi.Num, q, h.Report(o))
	}
}

func (h *H) End() { h.emit("E") }

// OnBest reports whether the transaction is part of the node's current best chain.
func (h *H) OnBest(th wire.Hash) bool {
	for _, b := range h.N.Best {
		for _, tx := range b.MsgBlock().Transactions {
			if tx.TxHash() == th {
				return true
			}
		}
	}
	return false
}

// DumpSync prints the wallet's synced chain (debugging aid, VERIF_DUMP=1).
func (h *H) DumpSync(tag string) {
	_, _, ss, _, db := h.W.WM.VerifStores()
	mwdb.Update(db, func(tx mwdb.DBTransaction) error {
		st, err := ss.SyncedTo(tx)
		fmt.Fprintf(os.Stderr, "DUMP %s syncedTo=%v err=%v |", tag, st, err)
		for i := uint64(0); i < 12; i++ {
			bm, err := ss.SyncedBlock(tx, i)
			if bm != nil {
				fmt.Fprintf(os.Stderr, " %d:%d", i, h.BlkID[bm.Hash])
			} else {
				fmt.Fprintf(os.Stderr, " %d:-(%v)", i, err)
			}
		}
		fmt.Fprintln(os.Stderr)
		return nil
	})
}
