package hist

import (
	"bytes"
	"fmt"
	"os"
	"os/exec"
	"regexp"
	"strconv"
	"strings"
	"sync"
)

// ParallelSelf re-executes the running binary as `workers` sequential worker processes
// (flag -worker), each on a contiguous slice of the history indexes, and concatenates their
// outputs in index order. STATS lines printed by the workers on stderr are summed
// (keys named max* are maximised) and printed once.
func ParallelSelf(count, first, workers int, outPath string, args []string) error {
	if workers < 1 {
		workers = 1
	}
	if workers > count {
		workers = count
	}
	if count == 0 {
		return nil
	}
	self, err := os.Executable()
	if err != nil {
		return err
	}
	// strip -n/-first/-out/-j from the forwarded arguments
	var fwd []string
	skip := false
	for _, a := range args {
		if skip {
			skip = false
			continue
		}
		name := strings.TrimLeft(a, "-")
		if i := strings.Index(name, "="); i >= 0 {
			name = name[:i]
		} else if name == "n" || name == "first" || name == "out" || name == "j" {
			skip = true
		}
		if name == "n" || name == "first" || name == "out" || name == "j" {
			continue
		}
		fwd = append(fwd, a)
	}
	outs := make([][]byte, workers)
	errsOut := make([]string, workers)
	errs := make([]error, workers)
	var wg sync.WaitGroup
	per := (count + workers - 1) / workers
	for k := 0; k < workers; k++ {
		lo := k * per
		hi := lo + per
		if hi > count {
			hi = count
		}
		if lo >= hi {
			continue
		}
		wg.Add(1)
		go func(k, lo, hi int) {
			defer wg.Done()
			a := append([]string{"-worker", "-first", strconv.Itoa(first + lo), "-n", strconv.Itoa(hi - lo)}, fwd...)
			cmd := exec.Command(self, a...)
			var so, se bytes.Buffer
			cmd.Stdout = &so
			cmd.Stderr = &se
			errs[k] = cmd.Run()
			outs[k] = so.Bytes()
			errsOut[k] = se.String()
		}(k, lo, hi)
	}
	wg.Wait()
	f := os.Stdout
	if outPath != "" {
		f, err = os.Create(outPath)
		if err != nil {
			return err
		}
		defer f.Close()
	}
	sum := map[string]int{}
	var order []string
	re := regexp.MustCompile(`(\w+)=(\d+)`)
	for k := 0; k < workers; k++ {
		f.Write(outs[k])
		if errs[k] != nil {
			tail := errsOut[k]
			if len(tail) > 3000 {
				tail = tail[len(tail)-3000:]
			}
			fmt.Fprintf(f, "X -1 worker-%d-died %v\n", k, errs[k])
			fmt.Fprintf(os.Stderr, "worker %d failed: %v\n%s\n", k, errs[k], tail)
		}
		for _, l := range strings.Split(errsOut[k], "\n") {
			if !strings.HasPrefix(l, "STATS ") {
				continue
			}
			for _, m := range re.FindAllStringSubmatch(l, -1) {
				v, _ := strconv.Atoi(m[2])
				if _, ok := sum[m[1]]; !ok {
					order = append(order, m[1])
				}
				if strings.HasPrefix(m[1], "max") {
					if v > sum[m[1]] {
						sum[m[1]] = v
					}
				} else {
					sum[m[1]] += v
				}
			}
		}
	}
	var sb strings.Builder
	for _, k := range order {
		fmt.Fprintf(&sb, "%s=%d ", k, sum[k])
	}
	fmt.Fprintln(os.Stderr, strings.TrimSpace(sb.String()))
	return nil
}
