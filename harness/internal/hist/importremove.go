package hist

// Additions for the import / removal checks (C07, C08). Add-only; hist.go is unchanged.
//
// Extra line kinds written here (replayed by ocaml/C07/driver.ml on coq/Ledger/{Import,Remove}.v):
//   S start                              a wallet instance starts on the node's current chain with no wallet
//   W new <wid> <passid>                 wallet created (ready)
//   W import <wid> <passid> <res> <n> <sh>...   keystore/mnemonic import; res ok|err; discovered script hashes
//   M <wid> <ok|fail> <status>           one run of the import worker was observed; status after it
//   R req <wid> <passid> <res>           RemoveWallet request; res ok|badpass|unready|err
//   R phase1 <wid>                       removal phase 1 committed
//   R round <wid> <status>               one phase 2 round committed; status after it (gone = finished)
//   R restart                            the instance was stopped/crashed and reopened (worker resumes from flags)
//   L <wid>:<status> ...                 Wallets() listing, sorted by wallet number
//   U <wid> <res>                        UseWallet result: ok|unready|err
//   Y <wid> <ngame> <row>...             mined staking/binding history rows tx:vout:height:amount:spent:kind
//   D <text>                             danger marker: flushed before a step that may kill the process
//   Z <wid> <n> <hit>...                 raw LevelDB scan for the removed wallet
//   V <key> <text>                       a property violation established by the harness itself
// status = ready | importing:<cursor> | removing | gone

import (
	"bytes"
	"encoding/hex"
	"fmt"
	"os"
	"path/filepath"
	"sort"
	"strings"
	"time"

	"github.com/massnetorg/mass-core/logging"
	"github.com/massnetorg/mass-core/massutil"
	"github.com/massnetorg/mass-core/wire"
	"github.com/syndtr/goleveldb/leveldb"
	"github.com/syndtr/goleveldb/leveldb/opt"
	"massnet.org/mass-wallet/config"
	"massnet.org/mass-wallet/masswallet"
	"massnet.org/mass-wallet/masswallet/keystore"
	mwdb "massnet.org/mass-wallet/masswallet/db"
	"massnet.org/mass-wallet/masswallet/txmgr"
	"verifharness/internal/sim"
)

// IEmit writes one raw line.
func (h *H) IEmit(format string, a ...interface{}) { h.emit(format, a...) }

// IFlush flushes the output writer (before steps that may kill the process).
func (h *H) IFlush() {
	if h.Out != nil {
		h.Out.Flush()
	}
}

// IBlockID / ITxID: numbering used by the line format.
func (h *H) IBlockID(b *massutil.Block) int { return h.BlkID[*b.Hash()] }

// StatusOf returns the wallet's status string as listed by Wallets() ("gone" when not listed).
func (h *H) StatusOf(id string) string {
	ws, err := h.W.WM.Wallets()
	if err != nil {
		return "err"
	}
	for _, s := range ws {
		if s.WalletID == id {
			return statusString(s.Status)
		}
	}
	return "gone"
}

func statusString(s *txmgr.WalletStatus) string {
	switch {
	case s.IsRemoved():
		return "removing"
	case s.Ready():
		return "ready"
	default:
		return fmt.Sprintf("importing:%d", s.SyncedHeight)
	}
}

// Listing emits the L line.
func (h *H) Listing(extra ...*WInfo) string {
	ws, err := h.W.WM.Wallets()
	if err != nil {
		h.emit("L error")
		return "error"
	}
	num := map[string]int{}
	for _, wi := range h.Wallets {
		num[wi.ID] = wi.Num
	}
	for _, wi := range extra {
		num[wi.ID] = wi.Num
	}
	type e struct {
		n int
		s string
	}
	var l []e
	for _, s := range ws {
		l = append(l, e{num[s.WalletID], statusString(s.Status)})
	}
	sort.Slice(l, func(i, j int) bool { return l[i].n < l[j].n })
	var parts []string
	for _, x := range l {
		parts = append(parts, fmt.Sprintf("%d:%s", x.n, x.s))
	}
	s := strings.Join(parts, " ")
	h.emit("L %s", s)
	return s
}

// Use emits the U line for a wallet.
func (h *H) Use(wi *WInfo) string {
	_, err := h.W.WM.UseWallet(wi.ID)
	r := "ok"
	if err == masswallet.ErrWalletUnready {
		r = "unready"
	} else if err != nil {
		r = "err"
	}
	h.emit("U %d %s", wi.Num, r)
	return r
}

// GameRows returns the projected mined staking/binding history of the wallet and the number of
// pending (unmined) entries.
func (h *H) GameRows(id string) (rows []string, pending int, err error) {
	if _, err = h.W.WM.UseWallet(id); err != nil {
		return nil, 0, err
	}
	sh, err := h.W.WM.GetStakingHistory(false)
	if err != nil {
		return nil, 0, err
	}
	for _, d := range sh {
		if d.BlockHeight == 0 {
			pending++
			continue
		}
		sp := 0
		if d.Utxo.Spent {
			sp = 1
		}
		rows = append(rows, fmt.Sprintf("%d:%d:%d:%d:%d:s", h.TxID[d.TxHash], d.Index, d.BlockHeight, d.Utxo.Amount.IntValue(), sp))
	}
	bh, err := h.W.WM.GetBindingHistory(false)
	if err != nil {
		return nil, 0, err
	}
	for _, d := range bh {
		if d.BlockHeight == 0 {
			pending++
			continue
		}
		sp := 0
		if d.Utxo.Spent {
			sp = 1
		}
		rows = append(rows, fmt.Sprintf("%d:%d:%d:%d:%d:b", h.TxID[d.TxHash], d.Index, d.BlockHeight, d.Utxo.Amount.IntValue(), sp))
	}
	sort.Strings(rows)
	return rows, pending, nil
}

// Games emits the Y line of a wallet.
func (h *H) Games(wi *WInfo) {
	rows, _, err := h.GameRows(wi.ID)
	if err != nil {
		h.emit("Y %d error", wi.Num)
		return
	}
	h.emit("Y %d %d %s", wi.Num, len(rows), strings.Join(rows, " "))
}

// UsedAddrs returns the sorted "class:address" list of addresses reported as used.
func (h *H) UsedAddrs(id string) ([]string, error) {
	if _, err := h.W.WM.UseWallet(id); err != nil {
		return nil, err
	}
	l, err := h.W.WM.GetAddresses(65535)
	if err != nil {
		return nil, err
	}
	var r []string
	for _, a := range l {
		if a.Used {
			r = append(r, fmt.Sprintf("%d:%s", a.AddressClass, a.Address))
		}
	}
	sort.Strings(r)
	return r, nil
}

// Snapshot is everything C07/C08 compare between two wallets / two moments (implementation side).
type Snapshot struct {
	Report  string
	Utxos   string // with the spent-by-pending flag
	Games   string
	Pending int
	Addrs   string
	Err     string
}

func (h *H) Snap(id string) Snapshot {
	o := h.W.Observe(id)
	s := Snapshot{Report: h.Report(o), Err: o.Err}
	var us []string
	for _, u := range o.Utxos {
		us = append(us, fmt.Sprintf("%d:%d:%d:%v", h.TxID[hashOf(u.TxID)], u.Vout, u.Amount, u.SpentUnmined))
	}
	s.Utxos = strings.Join(us, " ")
	rows, pend, err := h.GameRows(id)
	if err != nil {
		s.Err += " games:" + err.Error()
	}
	s.Games = strings.Join(rows, " ")
	s.Pending = pend
	ad, err := h.UsedAddrs(id)
	if err != nil {
		s.Err += " addrs:" + err.Error()
	}
	s.Addrs = strings.Join(ad, " ")
	return s
}

// PendingCoinsOf: the coins of wallet wi created by PENDING transactions (unmined-credits bucket; ownership decided from
// the transaction's own output script — the store's ExistsUtxo does not tell whose an unmined credit is), each with
// whether the wallet can still read it back (TxStore.ExistsUtxo, what signing and explicit-input building use: it
// needs the pending transaction's record) — "ability to build and sign transactions" for coins not yet confirmed.
// extra: pending transactions the node does not know (delivered through VerifReceiveTx only).
func (h *H) PendingCoinsOf(wi *WInfo, extra []*wire.MsgTx) string {
	if _, err := h.W.WM.UseWallet(wi.ID); err != nil {
		return "use-err"
	}
	own := map[int]bool{}
	for _, a := range wi.Addrs {
		own[a.Sh] = true
	}
	txOf := func(th wire.Hash) *wire.MsgTx {
		if tx := h.N.Known[th]; tx != nil {
			return tx
		}
		for _, tx := range extra {
			if tx.TxHash() == th {
				return tx
			}
		}
		return nil
	}
	us, ts, _, _, db := h.W.WM.VerifStores()
	var l []string
	mwdb.View(db, func(rtx mwdb.ReadTransaction) error {
		for _, op := range us.VerifUnminedCredits(rtx) {
			tx := txOf(op.Hash)
			if tx == nil || int(op.Index) >= len(tx.TxOut) {
				continue
			}
			_, _, sh := h.classify(tx.TxOut[op.Index].PkScript)
			if !own[sh] {
				continue
			}
			name := fmt.Sprintf("%s:%d", op.Hash.String()[:10], op.Index)
			if id, ok := h.TxID[op.Hash]; ok {
				name = fmt.Sprintf("%d:%d", id, op.Index)
			}
			// signing and explicit-input building: ExistsUtxo (the coin and its flags), then the transaction that
			// created it (ExistsTx for mined ones, ExistUnminedTx for pending ones: wallet.go / tx.go / common.go)
			if _, err := ts.ExistsUtxo(rtx, &op); err != nil {
				l = append(l, name+":unreadable")
			} else if mtx, err := ts.ExistUnminedTx(rtx, &op.Hash); err != nil || mtx == nil {
				l = append(l, name+":creating-transaction-gone")
			} else {
				l = append(l, name+":ok")
			}
		}
		return nil
	})
	sort.Strings(l)
	return strings.Join(l, " ")
}

func hashOf(s string) wire.Hash {
	p, err := wire.NewHashFromStr(s)
	if err != nil {
		return wire.Hash{}
	}
	return *p
}

// DiffSnap lists the fields in which two snapshots differ ("" = equal). The synced height is part
// of Report; callers compare at equal tips.
func DiffSnap(a, b Snapshot) string {
	var d []string
	if a.Err != b.Err {
		d = append(d, fmt.Sprintf("err[%s|%s]", a.Err, b.Err))
	}
	if a.Report != b.Report {
		d = append(d, fmt.Sprintf("report[%s|%s]", a.Report, b.Report))
	}
	if a.Utxos != b.Utxos {
		d = append(d, fmt.Sprintf("utxoflags[%s|%s]", a.Utxos, b.Utxos))
	}
	if a.Games != b.Games {
		d = append(d, fmt.Sprintf("games[%s|%s]", a.Games, b.Games))
	}
	if a.Addrs != b.Addrs {
		d = append(d, fmt.Sprintf("addrs[%s|%s]", a.Addrs, b.Addrs))
	}
	return strings.Join(d, " ")
}

// QueryOne observes one wallet (Q line) and its game rows (Y line).
func (h *H) QueryOne(wi *WInfo) {
	q := 1
	if h.Stale {
		q = 0
	}
	o := h.W.Observe(wi.ID)
	h.emit("Q %d %d %s", wi.Num, q, h.Report(o))
	if o.Err == "" {
		h.Games(wi)
	}
}

// ---------------------------------------------------------------- instances

// CloseInstance stops the running wallet instance (keeps node and directories).
func (h *H) CloseInstance() {
	if h.W != nil {
		h.W.Stop()
		h.W = nil
	}
}

// CrashInstance abandons the running instance (LevelDB closed, nothing else told).
func (h *H) CrashInstance() {
	if h.W != nil {
		h.W.Abandon()
		h.W = nil
	}
}

// OpenInstance opens (or creates) a wallet instance in sub-directory name of the history's
// scratch directory on the node's current chain.
func (h *H) OpenInstance(name string, wrap sim.DBWrap) error {
	dir := filepath.Join(h.Dir, name)
	if err := os.MkdirAll(dir, 0700); err != nil {
		return err
	}
	w, err := sim.OpenWallet(h.N, dir, wrap, true)
	if err != nil {
		return err
	}
	h.W = w
	return nil
}

// InstanceDir is the directory of a named instance (the first instance made by New lives in h.Dir).
func (h *H) InstanceDir(name string) string {
	if name == "" {
		return h.Dir
	}
	return filepath.Join(h.Dir, name)
}

// ReplayChainLines writes the chain-side lines (K G B T I O N) of Log[from:to] to the output; used
// after a muted phase (Out = nil) whose wallet-side lines belong to another instance.
func (h *H) ReplayChainLines(from, to int) {
	if h.Out == nil {
		return
	}
	for _, l := range h.Log[from:to] {
		switch l[0] {
		case 'H', 'K', 'G', 'B', 'T', 'I', 'O', 'N':
			h.Out.WriteString(l)
			h.Out.WriteByte('\n')
		}
	}
}

// ---------------------------------------------------------------- import

// AddrsOfKeystore lists the managed addresses of a wallet known to the running instance.
func (h *H) AddrsOfKeystore(id string) ([]*AddrInfo, error) {
	_, _, _, ks, _ := h.W.WM.VerifStores()
	am, err := ks.GetAddrManagerByAccountID(id)
	if err != nil {
		return nil, err
	}
	var l []*AddrInfo
	for _, ma := range am.ManagedAddresses() {
		ai := &AddrInfo{Addr: ma.String(), ShBytes: append([]byte{}, ma.ScriptAddress()...)}
		ai.Sh = h.sh(ai.ShBytes)
		l = append(l, ai)
	}
	sort.Slice(l, func(i, j int) bool { return l[i].Sh < l[j].Sh })
	return l, nil
}

// ImportMnemonic restores a wallet from its mnemonic in the running instance and emits W import.
// num is the model's wallet number (the original's, for a twin).
func (h *H) ImportMnemonic(num int, mnemonic, pass string, passID int) (*WInfo, error) {
	h.dropRetired(num)
	ws, err := h.W.WM.ImportWalletWithMnemonic(&keystore.WalletParams{
		Version: keystore.KeystoreVersion0, Mnemonic: mnemonic, PrivatePassphrase: []byte(pass),
		AddressGapLimit: h.W.Cfg.Wallet.Settings.AddressGapLimit}) // as api/wallet_service.go passes it
	if err != nil {
		h.emit("W import %d %d err 0", num, passID)
		return nil, err
	}
	return h.afterImport(num, ws.WalletID, pass, passID, mnemonic)
}

// ImportMnemonicHint is ImportMnemonic with an external index hint (a possibly stale count of issued addresses).
func (h *H) ImportMnemonicHint(num int, mnemonic, pass string, passID int, ext uint32) (*WInfo, error) {
	h.dropRetired(num)
	ws, err := h.W.WM.ImportWalletWithMnemonic(&keystore.WalletParams{
		Version: keystore.KeystoreVersion0, Mnemonic: mnemonic, PrivatePassphrase: []byte(pass), ExternalIndex: ext,
		AddressGapLimit: h.W.Cfg.Wallet.Settings.AddressGapLimit})
	if err != nil {
		h.emit("W import %d %d err 0", num, passID)
		return nil, err
	}
	return h.afterImport(num, ws.WalletID, pass, passID, mnemonic)
}

// ImportKeystoreJSON restores a wallet from an exported keystore.
func (h *H) ImportKeystoreJSON(num int, js, pass string, passID int) (*WInfo, error) {
	h.dropRetired(num)
	ws, err := h.W.WM.ImportWallet(js, pass)
	if err != nil {
		h.emit("W import %d %d err 0", num, passID)
		return nil, err
	}
	return h.afterImport(num, ws.WalletID, pass, passID, "")
}

func (h *H) afterImport(num int, id, pass string, passID int, mn string) (*WInfo, error) {
	wi := &WInfo{ID: id, Num: num, Pass: pass, Mnemo: mn}
	addrs, err := h.AddrsOfKeystore(id)
	if err != nil {
		return nil, err
	}
	wi.Addrs = addrs
	var sb strings.Builder
	for _, a := range addrs {
		fmt.Fprintf(&sb, " %d", a.Sh)
	}
	h.emit("W import %d %d ok %d%s", num, passID, len(addrs), sb.String())
	return wi, nil
}

// ---------------------------------------------------------------- raw scan

// RawScan opens the (closed) wallet database of an instance directory and looks for the wallet id,
// each address string and each raw script hash in every key and value. Hits are reported as
// "<where>:<needle-kind>:<bucket-ish key prefix>"; values of entries whose key does not mention
// the wallet are searched only for the id and the address strings and, for the raw script hash,
// only when the value is not a serialized transaction (pending transactions shared with another
// wallet legitimately contain the scripts they pay).
func RawScan(instanceDir string, id string, addrs []*AddrInfo) ([]string, error) {
	db, err := leveldb.OpenFile(filepath.Join(instanceDir, "walletdb"), &opt.Options{ReadOnly: true, ErrorIfMissing: true})
	if err != nil {
		return nil, err
	}
	defer db.Close()
	type needle struct {
		kind string
		b    []byte
		raw  bool
	}
	needles := []needle{{"id", []byte(id), false}}
	for _, a := range addrs {
		needles = append(needles, needle{"addr", []byte(a.Addr), false})
		if a.Staking != "" {
			needles = append(needles, needle{"addr", []byte(a.Staking), false})
		}
		if st, err := massutil.NewAddressStakingScriptHash(a.ShBytes, config.ChainParams); err == nil {
			needles = append(needles, needle{"addr", []byte(st.EncodeAddress()), false})
		}
		needles = append(needles, needle{"sh", a.ShBytes, true})
		needles = append(needles, needle{"shhex", []byte(hex.EncodeToString(a.ShBytes)), false})
	}
	seen := map[string]bool{}
	var hits []string
	it := db.NewIterator(nil, nil)
	defer it.Release()
	for it.Next() {
		k, v := it.Key(), it.Value()
		for _, n := range needles {
			where := ""
			if bytes.Contains(k, n.b) {
				where = "key"
			} else if bytes.Contains(v, n.b) {
				if n.raw && bytes.Contains(k[:minInt(len(k), 12)], []byte("_m_")) {
					continue // bucket "m": serialized pending transactions, keyed by their own hash
				}
				where = "value"
			}
			if where == "" {
				continue
			}
			// inner key = <depth>_<bucket path segments joined by _>_<key>; keep depth+1 segments
			pfx := k
			if len(k) > 2 && k[0] >= '1' && k[0] <= '9' && k[1] == '_' {
				want := int(k[0]-'0') + 1
				idx := 0
				for i := 0; i < len(k); i++ {
					if k[i] == '_' {
						idx++
						if idx == want {
							pfx = k[:i]
							break
						}
					}
				}
			}
			if len(pfx) > 24 {
				pfx = pfx[:24]
			}
			desc := fmt.Sprintf("%s:%s:%s", where, n.kind, printable(pfx))
			if !seen[desc] {
				seen[desc] = true
				hits = append(hits, desc)
			}
		}
	}
	sort.Strings(hits)
	return hits, it.Error()
}

func printable(b []byte) string {
	var sb strings.Builder
	for _, c := range b {
		if c > 32 && c < 127 && c != ':' {
			sb.WriteByte(c)
		} else {
			fmt.Fprintf(&sb, "%%%02x", c)
		}
	}
	return sb.String()
}

// WaitStatus polls until the wallet's status string satisfies pred or the timeout passes.
func (h *H) WaitStatus(id string, pred func(string) bool, d time.Duration) (string, bool) {
	deadline := time.Now().Add(d)
	for {
		s := h.StatusOf(id)
		if pred(s) {
			return s, true
		}
		if time.Now().After(deadline) {
			return s, false
		}
		time.Sleep(time.Millisecond)
	}
}

// PayTx builds a transaction spending coin c entirely into outs (first output takes the rest).
func PayTx(c *Coin, outs []sim.Out) *wire.MsgTx {
	o := make([]sim.Out, len(outs))
	copy(o, outs)
	rest := c.Val
	for i := range o {
		if o[i].Value > rest {
			o[i].Value = rest
		}
		rest -= o[i].Value
	}
	o[0].Value += rest
	seq := uint64(wire.MaxTxInSequenceNum)
	if c.Class == ClsStaking {
		seq = uint64(c.Param)
	}
	return sim.NewTx([]wire.OutPoint{c.Op}, []uint64{seq}, o, 0, nil)
}

// MatureCoins exposes the consensus-spendable coins for a block at height next.
func (h *H) MatureCoins(next uint64) []*Coin { return h.matureCoins(next) }

// BlockWith builds and defines a block on the tip containing exactly txs (plus a coinbase paying cb).
func (h *H) BlockWith(cb []sim.Out, txs []*wire.MsgTx) *massutil.Block {
	b := h.N.MakeBlock(h.N.Tip(), cb, txs)
	h.defineBlock(b)
	return b
}

// ScriptStd / ScriptStaking / ScriptBinding for an address of a wallet.
func (h *H) ScriptStd(ai *AddrInfo) []byte                     { return h.scriptStd(ai) }
func (h *H) ScriptStaking(ai *AddrInfo, frozen uint64) []byte  { return h.scriptStaking(ai, frozen) }
func (h *H) ScriptBinding(ai *AddrInfo, newStyle bool) []byte  { return h.scriptBinding(ai, newStyle) }

func (h *H) openAt(dir string, wrap sim.DBWrap) error {
	w, err := sim.OpenWallet(h.N, dir, wrap, true)
	if err != nil {
		return err
	}
	h.W = w
	return nil
}

// RandomTx builds a random consensus-valid transaction over the currently mature coins (not mined,
// not recorded): used for pending transactions.
func (h *H) RandomTx() *wire.MsgTx {
	avail := h.matureCoins(h.N.Height() + 1)
	return h.randomTx(&avail)
}

// InputsUnspent reports whether every input of tx is an unspent output of the node's best chain.
func (h *H) InputsUnspent(tx *wire.MsgTx) bool {
	for _, in := range tx.TxIn {
		if h.Utxo[in.PreviousOutPoint] == nil {
			return false
		}
	}
	return true
}

// RetireWallet takes a wallet out of the generator's wallet list (it is no longer observed by
// Query) but keeps paying its addresses: their scripts join the strangers.
func (h *H) RetireWallet(wi *WInfo) {
	for i, x := range h.Wallets {
		if x == wi {
			h.Wallets = append(h.Wallets[:i:i], h.Wallets[i+1:]...)
			break
		}
	}
	for _, a := range wi.Addrs {
		sc := witnessScript(a.ShBytes)
		h.Strangers = append(h.Strangers, sc)
		retiredScripts[h] = append(retiredScripts[h], retiredScript{wi.Num, sc})
	}
}

// retiredScripts remembers which stranger scripts are addresses of a retired wallet (by model number).
// When the same wallet is restored again (ImportMnemonic / ImportKeystoreJSON with that number), they stop
// being payees: the restored wallet only knows the addresses its discovery scan finds, and a payment to a
// not-yet-reissued address of it would break the environment assumption "an address is issued before it is
// paid" (the wallet would issue that address later and rightly know nothing of the earlier payment).
type retiredScript struct {
	num int
	sc  []byte
}

var retiredScripts = map[*H][]retiredScript{}

func (h *H) dropRetired(num int) {
	var keep []retiredScript
	for _, r := range retiredScripts[h] {
		if r.num != num {
			keep = append(keep, r)
			continue
		}
		for i, s := range h.Strangers {
			if bytes.Equal(s, r.sc) && len(h.Strangers) > 1 {
				h.Strangers = append(h.Strangers[:i:i], h.Strangers[i+1:]...)
				break
			}
		}
	}
	retiredScripts[h] = keep
}

// AdoptWallet puts a wallet (with its model number already set) into the generator's list.
func (h *H) AdoptWallet(wi *WInfo) { h.Wallets = append(h.Wallets, wi) }

func minInt(a, b int) int {
	if a < b {
		return a
	}
	return b
}

// QuietLogs re-initialises mass-core's logger after sim.Init so that nothing is printed on stdout
// (the history lines go there) while the wallet still logs at the given level into a scratch
// directory (asyncRemove logs after resuming the handler; at level "info" that widens the window in
// which the handler can take a queued block before the worker suspends it again). The directory is
// returned; the caller removes it.
func QuietLogs(level string) string {
	dir, err := os.MkdirTemp(scratchRoot(), "vlog")
	if err != nil {
		dir = os.TempDir()
	}
	logging.Init(dir, "wallet", level, 1, true)
	return dir
}

// BuildSign lets wallet wi build (AutoCreateRawTransaction, a third of its spendable funds to a
// stranger) and sign (SignRawTx, its own passphrase) a transaction; nothing is broadcast and the
// reservation marks are cleared. Answers ok | nofunds | use-err | create-err | decode-err | sign-err.
func (h *H) BuildSign(wi *WInfo) string {
	if _, err := h.W.WM.UseWallet(wi.ID); err != nil {
		return "use-err"
	}
	wb, err := h.W.WM.WalletBalance(1, true)
	if err != nil {
		return "use-err"
	}
	spend := wb.Spendable.IntValue()
	if spend < 3000000 {
		return "nofunds"
	}
	var shb [32]byte
	for i := range shb {
		shb[i] = byte(7*i + 3)
	}
	sa, err := massutil.NewAddressWitnessScriptHash(shb[:], config.ChainParams)
	if err != nil {
		return "create-err"
	}
	amt, err := massutil.NewAmountFromInt(spend / 3)
	if err != nil {
		return "create-err"
	}
	hx, _, err := h.W.WM.AutoCreateRawTransaction(map[string]massutil.Amount{sa.EncodeAddress(): amt}, 0, massutil.ZeroAmount(), "", "", nil)
	if err != nil {
		if os.Getenv("VERIF_DUMP") != "" {
			fmt.Fprintf(os.Stderr, "DUMP AutoCreateRawTransaction: %v (spendable %d)\n", err, spend)
		}
		return "create-err"
	}
	raw, err := hex.DecodeString(hx)
	if err != nil {
		return "decode-err"
	}
	var tx wire.MsgTx
	if err := tx.SetBytes(raw, wire.Packet); err != nil {
		return "decode-err"
	}
	defer h.W.WM.ClearUsedUTXOMark(&tx)
	if _, err := h.W.WM.SignRawTx([]byte(wi.Pass), "ALL", &tx); err != nil {
		return "sign-err"
	}
	return "ok"
}

// ForgetWallet takes a wallet out of the generator's list without keeping its addresses as payees.
func (h *H) ForgetWallet(wi *WInfo) {
	for i, x := range h.Wallets {
		if x == wi {
			h.Wallets = append(h.Wallets[:i:i], h.Wallets[i+1:]...)
			return
		}
	}
}
