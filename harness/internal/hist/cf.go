package hist

// Additions for the crash / storage-fault checks (C06, C18): accessors that let another
// package record a generated history as a replayable script. Nothing here changes hist.go.

import (
	"github.com/massnetorg/mass-core/massutil"
)

// Emit writes one raw line of the history format.
func (h *H) CfEmit(format string, a ...interface{}) { h.emit(format, a...) }

// LogLen is the number of lines emitted so far.
func (h *H) CfLogLen() int { return len(h.Log) }

// ShID returns the script-hash id of a 32-byte script hash (allocating one if new).
func (h *H) CfShID(b []byte) int { return h.sh(b) }

// BlockID returns the id the history format uses for a block.
func (h *H) CfBlockID(b *massutil.Block) int { return h.BlkID[*b.Hash()] }

// AddForeignWallet registers a wallet that exists elsewhere (its addresses are payees of the
// generator, the wallet manager does not know it yet); returns its number.
func (h *H) CfAddForeignWallet(wi *WInfo) int {
	wi.Num = len(h.Wallets) + 1
	for _, a := range wi.Addrs {
		a.Sh = h.sh(a.ShBytes)
	}
	h.Wallets = append(h.Wallets, wi)
	return wi.Num
}

// SetStale marks whether the wallet has accepted the node's tip.
func (h *H) CfSetStale(v bool) { h.Stale = v }
