package hist

// Add-only companion of irdrive.go for cmd/c07's bounce family: RunImport decides by itself when the
// worker is released (and lets it go for good as soon as the wallet is ready); the bounce histories
// need the worker parked at EVERY hold, the last one included, because the node moves back exactly
// while the batch that handed the wallet over is still inside its commit (handler suspended).

import "time"

// ImportHold waits until the import worker is parked after a finished write transaction (gate armed),
// resolves the pending announcement if the handler has taken it, emits the M line of that worker
// step and returns the wallet's status. The worker STAYS parked: the caller moves the node / queues
// an announcement and calls d.G.Release(). ok=false: no worker transaction within the timeout.
func (d *Drive) ImportHold(wi *WInfo, timeout time.Duration) (status string, committed bool, ok bool) {
	h := d.H
	ev, held := d.G.WaitHeld(timeout)
	if !held {
		return h.StatusOf(wi.ID), false, false
	}
	st := h.StatusOf(wi.ID)
	if d.resolve() {
		d.Stats["between_import_steps"]++
	}
	res := "fail"
	if ev.Committed {
		res = "ok"
	} else {
		d.Stats["import_retries"]++
	}
	h.emit("M %d %s %s", wi.Num, res, st)
	return st, ev.Committed, true
}
