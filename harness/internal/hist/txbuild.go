package hist

// Helpers for checks that build transactions on a wallet produced by a history (C02).
// Add-only: methods on *H, nothing in hist.go changes.

import (
	"bytes"
	"encoding/hex"
	"fmt"

	"github.com/massnetorg/mass-core/massutil"
	"github.com/massnetorg/mass-core/txscript"
	"github.com/massnetorg/mass-core/wire"
	"massnet.org/mass-wallet/config"
	"verifharness/internal/sim"
)

// TxMine builds a block on the tip (coinbase paying cb, then txs), attaches it and lets the wallet process it.
func (h *H) TxMine(cb []sim.Out, txs []*wire.MsgTx) (*massutil.Block, error) {
	b := h.N.MakeBlock(h.N.Tip(), cb, txs)
	h.defineBlock(b)
	if err := h.Attach(b); err != nil {
		return nil, err
	}
	h.Process(b)
	if h.Stale {
		return nil, fmt.Errorf("hist: the wallet did not accept block %d", b.Height())
	}
	return b, nil
}

// ScriptStd / ScriptStaking / ScriptBinding: output scripts paying a wallet address.
func (h *H) TxScriptStd(ai *AddrInfo) []byte                     { return h.scriptStd(ai) }
func (h *H) TxScriptStaking(ai *AddrInfo, frozen uint64) []byte  { return h.scriptStaking(ai, frozen) }
func (h *H) TxScriptBinding(ai *AddrInfo, newStyle bool) []byte  { return h.scriptBinding(ai, newStyle) }

// TxShID is the id of a script hash (or any byte string used as a destination parameter).
func (h *H) TxShID(b []byte) int { return h.sh(b) }

// TxDest describes where a pkScript pays, the way coq/Tx/Build.v's [dest] does:
// class 0 standard (sh), 1 staking (sh, frozen period), 2 binding (holder sh, id of the target bytes); 9 anything else.
func (h *H) TxDest(pk []byte) (class int, sh int, par int64) {
	cls, pops := txscript.GetScriptInfo(pk)
	switch cls {
	case txscript.WitnessV0ScriptHashTy:
		_, rsh, err := txscript.GetParsedOpcode(pops, cls)
		if err != nil {
			return 9, 0, 0
		}
		return 0, h.sh(rsh[:]), 0
	case txscript.StakingScriptHashTy:
		fr, rsh, err := txscript.GetParsedOpcode(pops, cls)
		if err != nil {
			return 9, 0, 0
		}
		return 1, h.sh(rsh[:]), int64(fr)
	case txscript.BindingScriptHashTy:
		holder, target, err := txscript.GetParsedBindingOpcode(pops)
		if err != nil {
			return 9, 0, 0
		}
		return 2, h.sh(holder), int64(h.sh(append([]byte("target:"), target...)))
	}
	return 9, 0, 0
}

// TxTargetID is the destination parameter Dest reports for a binding target.
func (h *H) TxTargetID(target []byte) int64 { return int64(h.sh(append([]byte("target:"), target...))) }

// TxAddrSh decodes an address string and returns the id of its script hash (0 if it does not decode
// to a witness script hash address) and its extend version (0 standard, 1 staking).
func (h *H) TxAddrSh(addr string) (sh int, staking bool, ok bool) {
	a, err := massutil.DecodeAddress(addr, config.ChainParams)
	if err != nil {
		return 0, false, false
	}
	w, isw := a.(*massutil.AddressWitnessScriptHash)
	if !isw || !a.IsForNet(config.ChainParams) {
		return 0, false, false
	}
	return h.sh(w.ScriptAddress()), w.WitnessExtendVersion() == 1, true
}

// DecodeTxHex decodes what the Create* calls return.
func DecodeTxHex(s string) (*wire.MsgTx, error) {
	bs, err := hex.DecodeString(s)
	if err != nil {
		return nil, err
	}
	tx := wire.NewMsgTx()
	if _, err := tx.Decode(bytes.NewReader(bs), wire.Packet); err != nil {
		return nil, err
	}
	return tx, nil
}
