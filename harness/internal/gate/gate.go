// Package gate wraps the wallet database so that the harness can stop a background goroutine
// (the import / removal worker of ntfnshandler.go) right AFTER one of its write transactions has
// been committed (or rolled back), and release it later. Everything else is delegated to the real
// driver untouched (the transaction wrapper embeds the driver's transaction; bucket metas and
// buckets are the driver's own).
//
// While the worker is held inside Commit the notification handler is parked (the worker holds
// it suspended around each of its database updates), the driver's write lock is already
// released, and nothing else moves: the harness can change the node's chain and queue
// announcements "between two worker steps", then release the worker.
//
// Goroutines are told apart by their runtime id: the harness marks its own goroutine (Me) and,
// the first time a foreign goroutine ends a write transaction while a hold is armed, learns the
// worker's id or the handler's id from the order the wallet uses them (the harness drains the
// handler before arming, so the first foreign transaction after arming is the worker's).
package gate

import (
	"bytes"
	"runtime"
	"strconv"
	"sync"
	"time"

	mwdb "massnet.org/mass-wallet/masswallet/db"
)

func gid() uint64 {
	var buf [64]byte
	b := buf[:runtime.Stack(buf[:], false)]
	b = bytes.TrimPrefix(b, []byte("goroutine "))
	i := bytes.IndexByte(b, ' ')
	if i < 0 {
		return 0
	}
	n, _ := strconv.ParseUint(string(b[:i]), 10, 64)
	return n
}

// role tells the wallet's two background goroutines apart by their call stack: "worker"
// (masswallet.worker: asyncImport / asyncRemove), "handler" (masswallet.handle: blocks and
// unconfirmed transactions), "" for anything else.
func role() string {
	buf := make([]byte, 16384)
	st := buf[:runtime.Stack(buf, false)]
	switch {
	case bytes.Contains(st, []byte("masswallet.worker(")):
		return "worker"
	case bytes.Contains(st, []byte("masswallet.handle(")):
		return "handler"
	}
	return ""
}

// Ev is one finished write transaction seen by the gate.
type Ev struct {
	G         uint64
	Committed bool // false: rolled back (the update function returned an error)
	Seq       int
}

// Gate controls one wrapped database.
type Gate struct {
	mu      sync.Mutex
	me      map[uint64]bool // harness goroutines: never held, not recorded as foreign
	Worker  uint64          // id of the goroutine being held (learnt at the first hold)
	armed   bool
	armedAny bool  // one-shot: park the next foreign goroutine that ends a write transaction, whoever it is
	Handler  uint64 // the goroutine parked by HoldNextForeign (the notification handler)
	armedB  bool // one-shot: park the first foreign goroutine BEFORE it begins a write transaction
	held    chan struct{} // non-nil while a goroutine is parked
	heldEv  Ev
	notify  chan Ev
	seq     int
	Log     []Ev
	closed  bool
}

func New() *Gate {
	g := &Gate{me: map[uint64]bool{}, notify: make(chan Ev, 1024)}
	g.me[gid()] = true
	return g
}

// Me marks the calling goroutine as belonging to the harness.
func (g *Gate) Me() { g.mu.Lock(); g.me[gid()] = true; g.mu.Unlock() }

// Wrap is the sim.DBWrap of this gate.
func (g *Gate) Wrap(db mwdb.DB) mwdb.DB { return &gdb{DB: db, g: g} }

// Arm: from now on the worker goroutine is parked after each write transaction it ends.
// If the worker is not known yet, the first foreign goroutine that ends a write transaction is
// taken to be the worker.
func (g *Gate) Arm() { g.mu.Lock(); g.armed = true; g.mu.Unlock() }

// ArmBegin parks the next foreign goroutine that is about to begin a write transaction, before the
// driver's write lock is taken (one shot). The event of that hold has Seq 0.
func (g *Gate) ArmBegin() { g.mu.Lock(); g.armedB = true; g.mu.Unlock() }

// HoldNextForeign parks the NEXT foreign goroutine that ends a write transaction (one shot), without
// taking it for the worker: used to keep the notification handler inside processConnectedBlock —
// its database commit is done, its volatile tip not yet updated — while a background task is started.
func (g *Gate) HoldNextForeign() { g.mu.Lock(); g.armedAny = true; g.mu.Unlock() }

// Disarm stops holding (a goroutine already parked stays parked until Release).
func (g *Gate) Disarm() { g.mu.Lock(); g.armed = false; g.mu.Unlock() }

// WaitHeld waits until the worker is parked; returns its event. ok=false on timeout.
func (g *Gate) WaitHeld(d time.Duration) (Ev, bool) {
	deadline := time.After(d)
	for {
		g.mu.Lock()
		if g.held != nil {
			e := g.heldEv
			g.mu.Unlock()
			return e, true
		}
		g.mu.Unlock()
		select {
		case <-g.notify:
		case <-deadline:
			return Ev{}, false
		case <-time.After(time.Millisecond):
		}
	}
}

// IsHeld reports whether the worker is parked right now.
func (g *Gate) IsHeld() bool { g.mu.Lock(); defer g.mu.Unlock(); return g.held != nil }

// Release lets the parked worker continue.
func (g *Gate) Release() {
	g.mu.Lock()
	ch := g.held
	g.held = nil
	g.mu.Unlock()
	if ch != nil {
		close(ch)
	}
}

// Shutdown disarms and releases for good (before Stop).
func (g *Gate) Shutdown() {
	g.mu.Lock()
	g.armed = false
	g.closed = true
	ch := g.held
	g.held = nil
	g.mu.Unlock()
	if ch != nil {
		close(ch)
	}
}

// ForeignSince returns the events of non-harness goroutines with Seq > seq.
func (g *Gate) ForeignSince(seq int) []Ev {
	g.mu.Lock()
	defer g.mu.Unlock()
	var r []Ev
	for _, e := range g.Log {
		if e.Seq > seq {
			r = append(r, e)
		}
	}
	return r
}

// Seq is the number of the last recorded event.
func (g *Gate) Seq() int { g.mu.Lock(); defer g.mu.Unlock(); return g.seq }

func (g *Gate) ended(committed bool) {
	id := gid()
	g.mu.Lock()
	if g.me[id] || g.closed {
		g.mu.Unlock()
		return
	}
	g.seq++
	e := Ev{G: id, Committed: committed, Seq: g.seq}
	g.Log = append(g.Log, e)
	hold := false
	if g.armedAny || g.armed {
		switch role() {
		case "handler":
			g.Handler = id
			if g.armedAny {
				g.armedAny = false
				hold = true
			}
		case "worker":
			g.Worker = id
			hold = g.armed
		}
	}
	var ch chan struct{}
	if hold {
		ch = make(chan struct{})
		g.held = ch
		g.heldEv = e
	}
	g.mu.Unlock()
	select {
	case g.notify <- e:
	default:
	}
	if ch != nil {
		<-ch
	}
}

type gdb struct {
	mwdb.DB
	g *Gate
}

func (g *Gate) beginning() {
	id := gid()
	g.mu.Lock()
	if g.me[id] || g.closed || !g.armedB {
		g.mu.Unlock()
		return
	}
	if role() != "worker" {
		g.mu.Unlock()
		return
	}
	g.armedB = false
	g.Worker = id
	ch := make(chan struct{})
	g.held = ch
	g.heldEv = Ev{G: id}
	g.mu.Unlock()
	select {
	case g.notify <- Ev{G: id}:
	default:
	}
	<-ch
}

func (d *gdb) BeginTx() (mwdb.DBTransaction, error) {
	d.g.beginning()
	tx, err := d.DB.BeginTx()
	if err != nil {
		return nil, err
	}
	return &gtx{DBTransaction: tx, g: d.g}, nil
}

type gtx struct {
	mwdb.DBTransaction
	g *Gate
}

func (t *gtx) Commit() error {
	err := t.DBTransaction.Commit()
	t.g.ended(err == nil)
	return err
}

func (t *gtx) Rollback() error {
	err := t.DBTransaction.Rollback()
	t.g.ended(false)
	return err
}
