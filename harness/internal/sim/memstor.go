package sim

// In-memory storage adapter for mass-core's chain database. Copied from
// mass-core/database/memdb (which hard-codes the relative path "./blocks") so
// that several simulated nodes can live in one process, each with its own
// absolute block-file directory. Environment code, not under verification.

import (
	dbstorage "github.com/massnetorg/mass-core/database/storage"
	"github.com/syndtr/goleveldb/leveldb"
	"github.com/syndtr/goleveldb/leveldb/iterator"
	"github.com/syndtr/goleveldb/leveldb/opt"
	"github.com/syndtr/goleveldb/leveldb/storage"
	"github.com/syndtr/goleveldb/leveldb/util"
)

type memLevelDB struct{ db *leveldb.DB }
type levelBatch struct{ b *leveldb.Batch }
type levelIterator struct {
	iter  iterator.Iterator
	slice *dbstorage.Range
}

func newMemStorage() (dbstorage.Storage, error) {
	mdb, err := leveldb.Open(storage.NewMemStorage(), &opt.Options{})
	if err != nil {
		return nil, err
	}
	return &memLevelDB{db: mdb}, nil
}

func (l *memLevelDB) Close() error { return l.db.Close() }
func (l *memLevelDB) Get(key []byte) ([]byte, error) {
	value, err := l.db.Get(key, nil)
	if err != nil {
		if err == leveldb.ErrNotFound {
			return nil, dbstorage.ErrNotFound
		}
		return nil, err
	}
	return value, nil
}
func (l *memLevelDB) Put(key, value []byte) error {
	if len(key) == 0 {
		return dbstorage.ErrInvalidKey
	}
	return l.db.Put(key, value, nil)
}
func (l *memLevelDB) Has(key []byte) (bool, error) {
	_, err := l.Get(key)
	if err != nil {
		if err == dbstorage.ErrNotFound {
			return false, nil
		}
		return false, err
	}
	return true, nil
}
func (l *memLevelDB) Delete(key []byte) error { return l.db.Delete(key, nil) }
func (l *memLevelDB) NewBatch() dbstorage.Batch {
	return &levelBatch{b: new(leveldb.Batch)}
}
func (l *memLevelDB) Write(batch dbstorage.Batch) error {
	lb, ok := batch.(*levelBatch)
	if !ok {
		return dbstorage.ErrInvalidBatch
	}
	return l.db.Write(lb.b, nil)
}
func (l *memLevelDB) NewIterator(slice *dbstorage.Range) dbstorage.Iterator {
	if slice == nil {
		slice = &dbstorage.Range{}
	} else {
		if len(slice.Start) == 0 {
			slice.Start = nil
		}
		if len(slice.Limit) == 0 {
			slice.Limit = nil
		}
	}
	return &levelIterator{slice: slice, iter: l.db.NewIterator(&util.Range{Start: slice.Start, Limit: slice.Limit}, nil)}
}
func (b *levelBatch) Put(key, value []byte) error {
	if len(key) == 0 {
		return dbstorage.ErrInvalidKey
	}
	b.b.Put(key, value)
	return nil
}
func (b *levelBatch) Delete(key []byte) error {
	if len(key) == 0 {
		return dbstorage.ErrInvalidKey
	}
	b.b.Delete(key)
	return nil
}
func (b *levelBatch) Reset()                    { b.b.Reset() }
func (b *levelBatch) Release()                  { b.b = nil }
func (it *levelIterator) Seek(key []byte) bool  { return it.iter.Seek(key) }
func (it *levelIterator) Next() bool            { return it.iter.Next() }
func (it *levelIterator) Key() []byte           { return it.iter.Key() }
func (it *levelIterator) Value() []byte         { return it.iter.Value() }
func (it *levelIterator) Release()              { it.iter.Release() }
func (it *levelIterator) Error() error          { return it.iter.Error() }
