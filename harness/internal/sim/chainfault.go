package sim

// Chain-side fault injection (property C05, error paths under faults). Add-only file: OpenWallet,
// OpenWalletSync and their server are unchanged.
//
// ChainFault wraps the node's chain database (mass-core's database.Db, an interface: the real one
// is embedded, the read calls the wallet makes through its chainFetcher are overridden). While it
// is armed the overridden calls whose kind is in the mask are numbered; calls number
// failAt .. failAt+count-1 return the injected error WITHOUT touching the real database. Only the
// handle the WALLET gets (Server.ChainDB) is wrapped: the blockchain.Blockchain object of the
// instance and the harness itself keep using the real database, so the node never fails — the
// wallet's view of it does ("chain database closed / I/O error while the wallet reads it").
//
// OpenWalletChain is OpenWallet with (a) that wrapper between the node and the wallet and (b) the
// public passphrase as a parameter (histories that change it restart with the new one).

import (
	"errors"
	"fmt"
	"os"
	"path/filepath"
	"sync"
	"time"

	"github.com/massnetorg/mass-core/blockchain"
	"github.com/massnetorg/mass-core/blockchain/state"
	"github.com/massnetorg/mass-core/database"
	"github.com/massnetorg/mass-core/massutil"
	"github.com/massnetorg/mass-core/trie/rawdb"
	"github.com/massnetorg/mass-core/wire"
	"massnet.org/mass-wallet/config"
	"massnet.org/mass-wallet/masswallet"
	mwdb "massnet.org/mass-wallet/masswallet/db"
)

// ErrChainInjected is the error an injected chain-database fault returns.
var ErrChainInjected = errors.New("chainfault: injected chain database fault")

// ChainKind names a numbered chain-database call.
type ChainKind uint8

const (
	CKCheckUsed ChainKind = iota // CheckScriptHashUsed (the look-up of imports and of the gap rule)
	CKRelatedTx                  // FetchScriptHashRelatedTx (rescan of an import, transaction history)
	CKTxByLoc                    // FetchTxByLoc, FetchTxByFileLoc
	CKTxBySha                    // FetchTxBySha
	CKBlock                      // FetchBlockBySha, FetchBlockHeaderBySha
	CKHeight                     // FetchBlockShaByHeight, FetchBlockLocByHeight
	CKNewest                     // NewestSha
	NChainKinds
)

var chainKindNames = [...]string{"checkused", "relatedtx", "txbyloc", "txbysha", "block", "height", "newest"}

func (k ChainKind) String() string { return chainKindNames[k] }

// MaskLookup selects the used-address look-up only, MaskFetch every other read the wallet makes.
const (
	MaskLookup uint32 = 1 << CKCheckUsed
	MaskFetch  uint32 = 1<<CKRelatedTx | 1<<CKTxByLoc | 1<<CKTxBySha | 1<<CKBlock | 1<<CKHeight | 1<<CKNewest
)

// ChainFault is the controller and the wrapped database in one.
type ChainFault struct {
	database.Db
	mu        sync.Mutex
	armed     bool
	mask      uint32
	calls     int
	failAt    int
	failCount int
	injected  int
	firstKind ChainKind
	Err       error
	Total     [NChainKinds]int
}

// NewChainFault wraps db; nothing fails until Arm.
func NewChainFault(db database.Db) *ChainFault { return &ChainFault{Db: db, Err: ErrChainInjected} }

// Arm starts numbering the calls of the kinds in mask from 1; calls failAt .. failAt+count-1 fail
// (failAt 0: count only).
func (c *ChainFault) Arm(mask uint32, failAt, count int) {
	c.mu.Lock()
	c.armed, c.mask, c.calls, c.failAt, c.failCount, c.injected = true, mask, 0, failAt, count, 0
	c.mu.Unlock()
}

// Disarm stops numbering; it returns the number of numbered calls and of injected faults since Arm
// and the kind of the first injected one.
func (c *ChainFault) Disarm() (calls, injected int, first ChainKind) {
	c.mu.Lock()
	defer c.mu.Unlock()
	c.armed = false
	return c.calls, c.injected, c.firstKind
}

// Calm stops injecting but keeps counting (a persistent fault ends, the operation goes on).
func (c *ChainFault) Calm() {
	c.mu.Lock()
	c.failAt = 0
	c.mu.Unlock()
}

// Totals returns how often each kind has been called since the wrapper was made (armed or not).
func (c *ChainFault) Totals() [NChainKinds]int {
	c.mu.Lock()
	defer c.mu.Unlock()
	return c.Total
}

func (c *ChainFault) call(k ChainKind) bool {
	c.mu.Lock()
	defer c.mu.Unlock()
	c.Total[k]++
	if !c.armed || c.mask&(1<<k) == 0 {
		return false
	}
	c.calls++
	fail := c.failAt > 0 && c.calls >= c.failAt && c.calls < c.failAt+c.failCount
	if fail {
		if c.injected == 0 {
			c.firstKind = k
		}
		c.injected++
	}
	return fail
}

func (c *ChainFault) CheckScriptHashUsed(scriptHash []byte) (bool, error) {
	if c.call(CKCheckUsed) {
		return false, c.Err
	}
	return c.Db.CheckScriptHashUsed(scriptHash)
}

func (c *ChainFault) FetchScriptHashRelatedTx(scriptHashes [][]byte, start, stop uint64) (map[uint64][]*wire.TxLoc, error) {
	if c.call(CKRelatedTx) {
		return nil, c.Err
	}
	return c.Db.FetchScriptHashRelatedTx(scriptHashes, start, stop)
}

func (c *ChainFault) FetchTxByLoc(blkHeight uint64, txOff int, txLen int) (*wire.MsgTx, error) {
	if c.call(CKTxByLoc) {
		return nil, c.Err
	}
	return c.Db.FetchTxByLoc(blkHeight, txOff, txLen)
}

func (c *ChainFault) FetchTxByFileLoc(blkLoc *database.BlockLoc, txLoc *wire.TxLoc) (*wire.MsgTx, error) {
	if c.call(CKTxByLoc) {
		return nil, c.Err
	}
	return c.Db.FetchTxByFileLoc(blkLoc, txLoc)
}

func (c *ChainFault) FetchTxBySha(txsha *wire.Hash) ([]*database.TxReply, error) {
	if c.call(CKTxBySha) {
		return nil, c.Err
	}
	return c.Db.FetchTxBySha(txsha)
}

func (c *ChainFault) FetchBlockBySha(sha *wire.Hash) (*massutil.Block, error) {
	if c.call(CKBlock) {
		return nil, c.Err
	}
	return c.Db.FetchBlockBySha(sha)
}

func (c *ChainFault) FetchBlockHeaderBySha(sha *wire.Hash) (*wire.BlockHeader, error) {
	if c.call(CKBlock) {
		return nil, c.Err
	}
	return c.Db.FetchBlockHeaderBySha(sha)
}

func (c *ChainFault) FetchBlockShaByHeight(height uint64) (*wire.Hash, error) {
	if c.call(CKHeight) {
		return nil, c.Err
	}
	return c.Db.FetchBlockShaByHeight(height)
}

func (c *ChainFault) FetchBlockLocByHeight(height uint64) (*database.BlockLoc, error) {
	if c.call(CKHeight) {
		return nil, c.Err
	}
	return c.Db.FetchBlockLocByHeight(height)
}

func (c *ChainFault) NewestSha() (*wire.Hash, uint64, error) {
	if c.call(CKNewest) {
		return nil, 0, c.Err
	}
	return c.Db.NewestSha()
}

// OpenWalletChain: see the file comment. chain may be nil (the wallet then reads the node's database
// directly, as with OpenWallet). The errors of NewWalletManager and Start are returned with their
// text unchanged behind a prefix (the C05 scan reads them).
func OpenWalletChain(n *Node, dir string, wrap DBWrap, chain *ChainFault, pubpass string, start bool) (*Wallet, error) {
	cfg := &config.Config{Core: config.NewDefCoreConfig(), Wallet: config.NewDefWalletConfig()}
	cfg.Wallet.Settings.AddressGapLimit = Cur.GapLimit
	dbPath := filepath.Join(dir, "walletdb")
	var db mwdb.DB
	var err error
	if _, serr := os.Stat(dbPath); serr == nil {
		db, err = mwdb.OpenDB("leveldb", dbPath)
	} else {
		if err := os.MkdirAll(dir, 0700); err != nil {
			return nil, err
		}
		db, err = mwdb.CreateDB("leveldb", dbPath)
	}
	if err != nil {
		return nil, fmt.Errorf("wallet db: %v", err)
	}
	if wrap != nil {
		db = wrap(db)
	}
	cache := filepath.Join(dir, fmt.Sprintf("blockcache-%d", time.Now().UnixNano()))
	bc, err := blockchain.NewBlockchain(&blockchain.Config{
		DB:             n.DB,
		StateBindingDb: state.NewDatabase(rawdb.NewMemoryDatabase()),
		ChainParams:    config.ChainParams,
		CachePath:      cache,
	})
	if err != nil {
		db.Close()
		return nil, fmt.Errorf("NewBlockchain: %v", err)
	}
	var cdb database.Db = n.DB
	if chain != nil {
		cdb = chain
	}
	srv := &server{db: cdb, chain: bc}
	srv.pool = bc.GetTxPool()
	wm, err := masswallet.NewWalletManager(srv, db, cfg, config.ChainParams, pubpass)
	if err != nil {
		db.Close()
		return nil, fmt.Errorf("NewWalletManager: %v", err)
	}
	w := &Wallet{Dir: dir, DB: db, WM: wm, H: wm.VerifHandler(), Cfg: cfg, node: n, srv: srv}
	if start {
		if err := wm.Start(); err != nil {
			db.Close()
			return nil, fmt.Errorf("Start: %v", err)
		}
		for i := 0; i < 2000 && !w.H.VerifTaskChanReady(); i++ {
			time.Sleep(time.Millisecond)
		}
	}
	return w, nil
}
