// Package sim drives the real wallet (masswallet.WalletManager on a real LevelDB
// directory) against a simulated node: mass-core's chain database (in-memory
// storage) filled with hand-built blocks on the real genesis, plus a real
// blockchain.Blockchain object over it. mass-core is environment, not subject:
// nothing here validates consensus rules; the harness generators produce
// well-formed chains themselves.
package sim

import (
	"fmt"
	"os"
	"path/filepath"
	"time"

	"github.com/massnetorg/mass-core/database"
	"github.com/massnetorg/mass-core/database/ldb"
	"github.com/massnetorg/mass-core/massutil"
	"github.com/massnetorg/mass-core/txscript"
	"github.com/massnetorg/mass-core/wire"
	"massnet.org/mass-wallet/config"
)

// Out is a transaction output of a synthetic transaction.
type Out struct {
	Script []byte
	Value  int64
}

// Node is the simulated full node: chain database + the harness' own record of the best chain.
type Node struct {
	Dir    string
	DB     database.Db
	Best   []*massutil.Block // index = height
	Known  map[wire.Hash]*wire.MsgTx
	stamp  int64
	uniq   uint64
	cbSeed uint64
}

// NewNode creates a chain database holding only the genesis block.
func NewNode(dir string) (*Node, error) {
	stor, err := newMemStorage()
	if err != nil {
		return nil, err
	}
	if err := os.MkdirAll(filepath.Join(dir, "blocks"), 0700); err != nil {
		return nil, err
	}
	db, err := ldb.NewChainDb(filepath.Join(dir, "blocks"), stor)
	if err != nil {
		return nil, err
	}
	g := massutil.NewBlock(config.ChainParams.GenesisBlock)
	if err := db.InitByGenesisBlock(g); err != nil {
		return nil, err
	}
	n := &Node{Dir: dir, DB: db, Best: []*massutil.Block{g}, Known: map[wire.Hash]*wire.MsgTx{},
		stamp: config.ChainParams.GenesisBlock.Header.Timestamp.Unix()}
	for _, tx := range g.MsgBlock().Transactions {
		n.Known[tx.TxHash()] = tx
	}
	return n, nil
}

func (n *Node) Close() { n.DB.Close() }

// Tip returns the best block.
func (n *Node) Tip() *massutil.Block { return n.Best[len(n.Best)-1] }

// Height of the best block.
func (n *Node) Height() uint64 { return uint64(len(n.Best) - 1) }

// NewTx builds a transaction. Witnesses stay empty: the chain database does not validate.
func NewTx(ins []wire.OutPoint, seqs []uint64, outs []Out, lockTime uint64, payload []byte) *wire.MsgTx {
	tx := wire.NewMsgTx()
	for i, op := range ins {
		seq := uint64(wire.MaxTxInSequenceNum)
		if seqs != nil && i < len(seqs) {
			seq = seqs[i]
		}
		in := wire.NewTxIn(&wire.OutPoint{Hash: op.Hash, Index: op.Index}, nil)
		in.Sequence = seq
		tx.AddTxIn(in)
	}
	for _, o := range outs {
		tx.AddTxOut(wire.NewTxOut(o.Value, o.Script))
	}
	tx.LockTime = lockTime
	tx.Payload = payload
	return tx
}

// coinbase builds a coinbase transaction unique to (height, uniq).
func (n *Node) coinbase(height uint64, outs []Out) *wire.MsgTx {
	tx := wire.NewMsgTx()
	in := wire.NewTxIn(&wire.OutPoint{Hash: wire.Hash{}, Index: wire.MaxPrevOutIndex}, nil)
	in.Sequence = wire.MaxTxInSequenceNum
	tx.AddTxIn(in)
	n.uniq++
	tx.Payload = []byte(fmt.Sprintf("cb-%d-%d", height, n.uniq))
	for _, o := range outs {
		tx.AddTxOut(wire.NewTxOut(o.Value, o.Script))
	}
	if len(outs) == 0 {
		tx.AddTxOut(wire.NewTxOut(0, []byte{txscript.OP_0, txscript.OP_DATA_32,
			1, 2, 3, 4, 5, 6, 7, 8, 9, 10, 11, 12, 13, 14, 15, 16, 17, 18, 19, 20, 21, 22, 23, 24, 25, 26, 27, 28, 29, 30, 31, 32}))
	}
	return tx
}

// MakeBlock builds (does not attach) a block on top of prev: a coinbase paying cbOuts followed by txs.
func (n *Node) MakeBlock(prev *massutil.Block, cbOuts []Out, txs []*wire.MsgTx) *massutil.Block {
	gh := config.ChainParams.GenesisBlock.Header
	hdr := gh // copy: keeps serialisable PubKey/Proof/Signature/Target of the genesis header
	hdr.Height = prev.Height() + 1
	hdr.Previous = *prev.Hash()
	n.stamp += 10
	hdr.Timestamp = time.Unix(n.stamp, 0)
	hdr.BanList = nil
	blk := wire.NewEmptyMsgBlock()
	blk.Header = hdr
	all := append([]*wire.MsgTx{n.coinbase(hdr.Height, cbOuts)}, txs...)
	for _, tx := range all {
		blk.AddTransaction(tx)
	}
	merkles := wire.BuildMerkleTreeStoreTransactions(blk.Transactions, false)
	blk.Header.TransactionRoot = *merkles[len(merkles)-1]
	wmerkles := wire.BuildMerkleTreeStoreTransactions(blk.Transactions, true)
	blk.Header.WitnessRoot = *wmerkles[len(wmerkles)-1]
	return massutil.NewBlock(blk)
}

// scriptHashes returns the 32-byte script hashes a pkScript is indexed under (as mass-core's indexer does).
func indexedHash(pk []byte) ([]byte, bool) {
	class, pops := txscript.GetScriptInfo(pk)
	switch class {
	case txscript.WitnessV0ScriptHashTy, txscript.StakingScriptHashTy:
		_, rsh, err := txscript.GetParsedOpcode(pops, class)
		if err != nil {
			return nil, false
		}
		return rsh[:], true
	case txscript.BindingScriptHashTy:
		holder, _, err := txscript.GetParsedBindingOpcode(pops)
		if err != nil {
			return nil, false
		}
		return holder, true
	}
	return nil, false
}

func (n *Node) addrIndex(b *massutil.Block) (*database.AddrIndexData, error) {
	locs, err := b.TxLoc()
	if err != nil {
		return nil, err
	}
	type key struct {
		sh  [32]byte
		loc wire.TxLoc
	}
	seen := map[key]bool{}
	idx := database.TxAddrIndex{}
	inBlock := map[wire.Hash]*wire.MsgTx{}
	add := func(pk []byte, loc wire.TxLoc) {
		h, ok := indexedHash(pk)
		if !ok {
			return
		}
		var k key
		copy(k.sh[:], h)
		k.loc = loc
		if seen[k] {
			return
		}
		seen[k] = true
		l := loc
		idx[k.sh] = append(idx[k.sh], &l)
	}
	for i, tx := range b.MsgBlock().Transactions {
		inBlock[tx.TxHash()] = tx
		if i > 0 {
			for _, in := range tx.TxIn {
				prev := inBlock[in.PreviousOutPoint.Hash]
				if prev == nil {
					prev = n.Known[in.PreviousOutPoint.Hash]
				}
				if prev == nil || int(in.PreviousOutPoint.Index) >= len(prev.TxOut) {
					return nil, fmt.Errorf("sim: input %v of %v refers to an unknown output", in.PreviousOutPoint, tx.TxHash())
				}
				add(prev.TxOut[in.PreviousOutPoint.Index].PkScript, locs[i])
			}
		}
		for _, o := range tx.TxOut {
			add(o.PkScript, locs[i])
		}
	}
	return &database.AddrIndexData{TxIndex: idx, BindingTxIndex: database.BindingTxAddrIndex{}, BindingTxSpentIndex: database.BindingTxSpentAddrIndex{}}, nil
}

// Attach makes b the new best block (b must extend the current tip).
func (n *Node) Attach(b *massutil.Block) error {
	if b.MsgBlock().Header.Previous != *n.Tip().Hash() {
		return fmt.Errorf("sim: block %d does not extend the tip", b.Height())
	}
	if err := n.DB.SubmitBlock(b); err != nil {
		return fmt.Errorf("SubmitBlock: %v", err)
	}
	idx, err := n.addrIndex(b)
	if err != nil {
		return err
	}
	if err := n.DB.SubmitAddrIndex(b.Hash(), b.Height(), idx); err != nil {
		return fmt.Errorf("SubmitAddrIndex: %v", err)
	}
	if err := n.DB.Commit(*b.Hash()); err != nil {
		return fmt.Errorf("Commit: %v", err)
	}
	n.Best = append(n.Best, b)
	for _, tx := range b.MsgBlock().Transactions {
		n.Known[tx.TxHash()] = tx
	}
	return nil
}

// Detach removes the best block from the chain database.
func (n *Node) Detach() (*massutil.Block, error) {
	if len(n.Best) <= 1 {
		return nil, fmt.Errorf("sim: cannot detach genesis")
	}
	b := n.Tip()
	if err := n.DB.DeleteAddrIndex(b.Hash(), b.Height()); err != nil {
		return nil, fmt.Errorf("DeleteAddrIndex: %v", err)
	}
	if err := n.DB.DeleteBlock(b.Hash()); err != nil {
		return nil, fmt.Errorf("DeleteBlock: %v", err)
	}
	if err := n.DB.Commit(*b.Hash()); err != nil {
		return nil, fmt.Errorf("Commit(delete): %v", err)
	}
	n.Best = n.Best[:len(n.Best)-1]
	return b, nil
}
