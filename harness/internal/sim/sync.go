package sim

// OpenWalletSync is OpenWallet with a node that has a p2p layer object: mass-core's real
// netsync.SyncManager, constructed in vault mode (no listener, no discovery, no socket) and never
// started, so its peer set stays empty. What this buys (property C19): SendRawTransaction can be
// followed all the way — the node's transaction pool hands an accepted transaction to the sync
// manager's channel (created by NewSyncManager, nil otherwise: the pool would block for ever) and
// tells the wallet's follower, whose proccessReceivedTx asks SyncManager().BestPeer() — and
// GetClientStatus can be served ("no peers"). Add-only file: OpenWallet and its server are unchanged.

import (
	"fmt"
	"os"
	"path/filepath"
	"time"

	"github.com/massnetorg/mass-core/blockchain"
	"github.com/massnetorg/mass-core/blockchain/state"
	coreconfig "github.com/massnetorg/mass-core/config"
	"github.com/massnetorg/mass-core/netsync"
	"github.com/massnetorg/mass-core/trie/rawdb"
	"github.com/massnetorg/mass-core/wire"
	"massnet.org/mass-wallet/config"
	"massnet.org/mass-wallet/masswallet"
	mwdb "massnet.org/mass-wallet/masswallet/db"
)

type serverSync struct {
	server
	sm *netsync.SyncManager
}

func (s *serverSync) SyncManager() *netsync.SyncManager { return s.sm }

// OpenWalletSync: see the file comment. The returned Wallet behaves like the one of OpenWallet.
func OpenWalletSync(n *Node, dir string, wrap DBWrap, start bool) (*Wallet, error) {
	cfg := &config.Config{Core: config.NewDefCoreConfig(), Wallet: config.NewDefWalletConfig()}
	cfg.Wallet.Settings.AddressGapLimit = Cur.GapLimit
	dbPath := filepath.Join(dir, "walletdb")
	var db mwdb.DB
	var err error
	if _, serr := os.Stat(dbPath); serr == nil {
		db, err = mwdb.OpenDB("leveldb", dbPath)
	} else {
		db, err = mwdb.CreateDB("leveldb", dbPath)
	}
	if err != nil {
		return nil, fmt.Errorf("wallet db: %v", err)
	}
	if wrap != nil {
		db = wrap(db)
	}
	stamp := time.Now().UnixNano()
	chain, err := blockchain.NewBlockchain(&blockchain.Config{
		DB:             n.DB,
		StateBindingDb: state.NewDatabase(rawdb.NewMemoryDatabase()),
		ChainParams:    config.ChainParams,
		CachePath:      filepath.Join(dir, fmt.Sprintf("blockcache-%d", stamp)),
	})
	if err != nil {
		db.Close()
		return nil, fmt.Errorf("NewBlockchain: %v", err)
	}
	var core coreconfig.Config
	if cfg.Core != nil {
		core = *cfg.Core
	}
	if core.P2P == nil {
		core.P2P = &coreconfig.P2P{}
	} else {
		p := *core.P2P
		core.P2P = &p
	}
	core.P2P.VaultMode = true
	if core.Datastore == nil {
		core.Datastore = &coreconfig.Datastore{}
	} else {
		d := *core.Datastore
		core.Datastore = &d
	}
	core.Datastore.Dir = filepath.Join(dir, fmt.Sprintf("p2p-%d", stamp))
	if err := os.MkdirAll(core.Datastore.Dir, 0700); err != nil {
		db.Close()
		return nil, err
	}
	sm, err := netsync.NewSyncManager(&core, chain, chain.GetTxPool(), make(chan *wire.Hash, 64))
	if err != nil {
		db.Close()
		return nil, fmt.Errorf("NewSyncManager: %v", err)
	}
	srv := &serverSync{server: server{db: n.DB, chain: chain}, sm: sm}
	srv.pool = chain.GetTxPool()
	wm, err := masswallet.NewWalletManager(srv, db, cfg, config.ChainParams, PubPass)
	if err != nil {
		db.Close()
		return nil, fmt.Errorf("NewWalletManager: %v", err)
	}
	w := &Wallet{Dir: dir, DB: db, WM: wm, H: wm.VerifHandler(), Cfg: cfg, node: n, srv: &srv.server}
	if start {
		if err := wm.Start(); err != nil {
			db.Close()
			return nil, fmt.Errorf("Start: %v", err)
		}
		for i := 0; i < 2000 && !w.H.VerifTaskChanReady(); i++ {
			time.Sleep(time.Millisecond)
		}
	}
	return w, nil
}
