package sim

import (
	"fmt"
	"os"
	"path/filepath"
	"sort"
	"sync"
	"time"

	"github.com/massnetorg/mass-core/blockchain"
	"github.com/massnetorg/mass-core/blockchain/state"
	"github.com/massnetorg/mass-core/consensus"
	"github.com/massnetorg/mass-core/database"
	"github.com/massnetorg/mass-core/logging"
	"github.com/massnetorg/mass-core/massutil"
	"github.com/massnetorg/mass-core/netsync"
	"github.com/massnetorg/mass-core/trie/rawdb"
	"github.com/massnetorg/mass-core/wire"
	"massnet.org/mass-wallet/config"
	"massnet.org/mass-wallet/masswallet"
	mwdb "massnet.org/mass-wallet/masswallet/db"
	_ "massnet.org/mass-wallet/masswallet/db/ldb"
	"massnet.org/mass-wallet/masswallet/keystore"
)

var initOnce sync.Once

// Params lowered by the harness (package variables of mass-core / keystore).
type Params struct {
	CoinbaseMaturity uint64
	MinFrozenPeriod  uint64
	GapLimit         uint32
}

var Cur = Params{CoinbaseMaturity: 4, MinFrozenPeriod: 3, GapLimit: 20}

// Init lowers scrypt cost and consensus maturities once per process and silences logging.
func Init(p Params) {
	initOnce.Do(func() {
		Cur = p
		keystore.DefaultScryptOptions = keystore.ScryptOptions{N: 16, R: 8, P: 1}
		consensus.CoinbaseMaturity = p.CoinbaseMaturity
		consensus.MinFrozenPeriod = p.MinFrozenPeriod
		lvl := "fatal"
		if v := os.Getenv("VERIF_LOG"); v != "" {
			lvl = v
		}
		logging.Init(os.TempDir(), "verif-sim", lvl, 1, false)
	})
}

type server struct {
	db    database.Db
	chain *blockchain.Blockchain
	pool  *blockchain.TxPool
}

func (s *server) Blockchain() *blockchain.Blockchain { return s.chain }
func (s *server) ChainDB() database.Db               { return s.db }
func (s *server) TxMemPool() *blockchain.TxPool      { return s.pool }
func (s *server) SyncManager() *netsync.SyncManager  { return nil }

// Wallet is one running instance of the real wallet on a LevelDB directory.
type Wallet struct {
	Dir  string
	DB   mwdb.DB
	WM   *masswallet.WalletManager
	H    *masswallet.NtfnsHandler
	Cfg  *config.Config
	node *Node
	srv  *server
}

// DBWrap optionally wraps the wallet database (commit counting, fault injection, read scheduling).
type DBWrap func(mwdb.DB) mwdb.DB

const PubPass = "verifPubPass1"

// OpenWallet opens (or creates) the wallet database under dir, builds a Blockchain over the
// node's current database, constructs the WalletManager and starts it (catch-up included).
func OpenWallet(n *Node, dir string, wrap DBWrap, start bool) (*Wallet, error) {
	cfg := &config.Config{Core: config.NewDefCoreConfig(), Wallet: config.NewDefWalletConfig()}
	cfg.Wallet.Settings.AddressGapLimit = Cur.GapLimit
	dbPath := filepath.Join(dir, "walletdb")
	var db mwdb.DB
	var err error
	if _, serr := os.Stat(dbPath); serr == nil {
		db, err = mwdb.OpenDB("leveldb", dbPath)
	} else {
		db, err = mwdb.CreateDB("leveldb", dbPath)
	}
	if err != nil {
		return nil, fmt.Errorf("wallet db: %v", err)
	}
	if wrap != nil {
		db = wrap(db)
	}
	cache := filepath.Join(dir, fmt.Sprintf("blockcache-%d", time.Now().UnixNano()))
	chain, err := blockchain.NewBlockchain(&blockchain.Config{
		DB:             n.DB,
		StateBindingDb: state.NewDatabase(rawdb.NewMemoryDatabase()),
		ChainParams:    config.ChainParams,
		CachePath:      cache,
	})
	if err != nil {
		db.Close()
		return nil, fmt.Errorf("NewBlockchain: %v", err)
	}
	srv := &server{db: n.DB, chain: chain}
	srv.pool = chain.GetTxPool()
	wm, err := masswallet.NewWalletManager(srv, db, cfg, config.ChainParams, PubPass)
	if err != nil {
		db.Close()
		return nil, fmt.Errorf("NewWalletManager: %v", err)
	}
	w := &Wallet{Dir: dir, DB: db, WM: wm, H: wm.VerifHandler(), Cfg: cfg, node: n, srv: srv}
	if start {
		if err := wm.Start(); err != nil {
			db.Close()
			return nil, fmt.Errorf("Start: %v", err)
		}
		// the worker goroutine creates its task queue asynchronously
		for i := 0; i < 2000 && !w.H.VerifTaskChanReady(); i++ {
			time.Sleep(time.Millisecond)
		}
	}
	return w, nil
}

// Barrier returns when every queued notification has been processed.
func (w *Wallet) Barrier() {
	for w.H.VerifQueueLen() > 0 {
		time.Sleep(200 * time.Microsecond)
	}
	w.H.VerifBarrier()
}

// Notify announces a block the way the node does and waits until it has been processed.
func (w *Wallet) Notify(b *massutil.Block) {
	w.H.OnBlockConnected(b.MsgBlock())
	w.Barrier()
}

// NotifyAsync announces without waiting.
func (w *Wallet) NotifyAsync(b *massutil.Block) { w.H.OnBlockConnected(b.MsgBlock()) }

// WaitTasks waits until no wallet is importing or being removed (or the timeout passes).
func (w *Wallet) WaitTasks(timeout time.Duration) bool {
	deadline := time.Now().Add(timeout)
	for time.Now().Before(deadline) {
		ws, err := w.WM.Wallets()
		busy := err != nil
		for _, s := range ws {
			if !s.Status.Ready() || s.Status.IsRemoved() {
				busy = true
			}
		}
		if !busy && w.H.VerifTaskQueueLen() == 0 {
			w.Barrier()
			return true
		}
		time.Sleep(2 * time.Millisecond)
	}
	return false
}

// Stop shuts the wallet down the way the daemon does (closes the database).
func (w *Wallet) Stop() { w.WM.Stop() }

// Abandon simulates a crash: the LevelDB handle is closed, nothing else is told.
func (w *Wallet) Abandon() { w.DB.Close() }

// ---------------------------------------------------------------- observables

// Utxo is one reported unspent output, projected.
type Utxo struct {
	Addr          string
	TxID          string
	Vout          uint32
	Amount        int64
	Height        uint64
	Maturity      uint32
	Confirmations uint32
	SpentUnmined  bool
}

// Obs is what a wallet reports, canonicalised (sorted).
type Obs struct {
	WalletID    string
	Err         string
	Synced      uint64
	Total       int64
	Spendable   int64
	WStaking    int64
	WBinding    int64
	UseTotal    int64
	Utxos       []Utxo
	AddrBalance map[string][4]int64
}

// Observe selects the wallet and reads balances and coins.
func (w *Wallet) Observe(id string) Obs {
	o := Obs{WalletID: id}
	info, err := w.WM.UseWallet(id)
	if err != nil {
		o.Err = "use:" + err.Error()
		return o
	}
	o.UseTotal = info.TotalBalance.IntValue()
	h, err := w.WM.SyncedTo()
	if err != nil {
		o.Err = "synced:" + err.Error()
		return o
	}
	o.Synced = h
	wb, err := w.WM.WalletBalance(1, true)
	if err != nil {
		o.Err = "balance:" + err.Error()
		return o
	}
	o.Total, o.Spendable, o.WStaking, o.WBinding = wb.Total.IntValue(), wb.Spendable.IntValue(), wb.WithdrawableStaking.IntValue(), wb.WithdrawableBinding.IntValue()
	m, err := w.WM.GetUtxo(nil)
	if err != nil {
		o.Err = "utxo:" + err.Error()
		return o
	}
	for addr, l := range m {
		for _, u := range l {
			o.Utxos = append(o.Utxos, Utxo{Addr: addr, TxID: u.TxId, Vout: u.Vout, Amount: u.Amount.IntValue(), Height: u.BlockHeight,
				Maturity: u.Maturity, Confirmations: u.Confirmations, SpentUnmined: u.SpentByUnmined})
		}
	}
	sort.Slice(o.Utxos, func(i, j int) bool {
		a, b := o.Utxos[i], o.Utxos[j]
		if a.TxID != b.TxID {
			return a.TxID < b.TxID
		}
		if a.Vout != b.Vout {
			return a.Vout < b.Vout
		}
		return a.Addr < b.Addr
	})
	abs, err := w.WM.AddressBalance(1, nil)
	if err != nil {
		o.Err = "addrbalance:" + err.Error()
		return o
	}
	o.AddrBalance = map[string][4]int64{}
	for _, ab := range abs {
		o.AddrBalance[ab.Address] = [4]int64{ab.Total.IntValue(), ab.Spendable.IntValue(), ab.WithdrawableStaking.IntValue(), ab.WithdrawableBinding.IntValue()}
	}
	return o
}

var _ = wire.Hash{}
