// Package bipref: primitive recorder and an independent BIP-32 implementation written from the
// text of the BIP (crypto/hmac, crypto/sha512, btcec group operations). Shares no code with
// masswallet/keystore/hdkeychain. This is a copy of harness/cmd/c14/ref.go (which stays where it
// is, unchanged) made importable, with an exported facade at the end, for the C04 / C05 harnesses.
package bipref

import (
	"crypto/hmac"
	"crypto/sha256"
	"crypto/sha512"
	"encoding/hex"
	"math/big"
	"strings"

	"github.com/btcsuite/btcd/btcec"
	"github.com/massnetorg/mass-core/massutil/base58"
	"golang.org/x/crypto/ripemd160"
)

// ---------------------------------------------------------------- primitive table

// table collects true input->output pairs of the primitives for one case line.
type table struct {
	m     map[string]string
	order []string
}

func newTable() *table { return &table{m: map[string]string{}} }
func (t *table) put(k, v string) {
	if _, ok := t.m[k]; !ok {
		t.m[k] = v
		t.order = append(t.order, k)
	}
}
func (t *table) String() string {
	var sb strings.Builder
	for i, k := range t.order {
		if i > 0 {
			sb.WriteByte(';')
		}
		sb.WriteString(k)
		sb.WriteByte('=')
		sb.WriteString(t.m[k])
	}
	return sb.String()
}

func hx(b []byte) string { return hex.EncodeToString(b) }

// pt is an affine point as btcec returns it; (0,0) is btcec's point at infinity.
type pt struct{ x, y *big.Int }

func pad32(b []byte) []byte {
	if len(b) >= 32 {
		return b
	}
	out := make([]byte, 32)
	copy(out[32-len(b):], b)
	return out
}
func (p pt) xy() string  { return hx(pad32(p.x.Bytes())) + hx(pad32(p.y.Bytes())) }
func (p pt) inf() bool   { return p.x.Sign() == 0 && p.y.Sign() == 0 }
func scalarKey(k *big.Int) string { return k.Text(16) }

type prims struct{ t *table }

func (p *prims) hmac(key, data []byte) []byte {
	h := hmac.New(sha512.New, key)
	h.Write(data)
	out := h.Sum(nil)
	p.t.put("K:"+hx(key)+","+hx(data), hx(out))
	return out
}
func (p *prims) mulG(k *big.Int) pt {
	x, y := btcec.S256().ScalarBaseMult(k.Bytes())
	r := pt{x, y}
	p.t.put("M:"+scalarKey(k), r.xy())
	return r
}
func (p *prims) add(a, b pt) pt {
	x, y := btcec.S256().Add(a.x, a.y, b.x, b.y)
	r := pt{x, y}
	p.t.put("A:"+a.xy()+","+b.xy(), r.xy())
	return r
}
func (p *prims) ser(a pt) []byte {
	pk := btcec.PublicKey{Curve: btcec.S256(), X: a.x, Y: a.y}
	out := pk.SerializeCompressed()
	p.t.put("S:"+a.xy(), hx(out))
	return out
}
func (p *prims) parse(b []byte) (pt, bool) {
	pk, err := btcec.ParsePubKey(b, btcec.S256())
	if err != nil {
		p.t.put("D:"+hx(b), "err")
		return pt{}, false
	}
	r := pt{pk.X, pk.Y}
	p.t.put("D:"+hx(b), r.xy())
	return r, true
}
func (p *prims) hash160(b []byte) []byte {
	s := sha256.Sum256(b)
	h := ripemd160.New()
	h.Write(s[:])
	out := h.Sum(nil)
	p.t.put("H:"+hx(b), hx(out))
	return out
}
func (p *prims) dsha(b []byte) []byte {
	a := sha256.Sum256(b)
	c := sha256.Sum256(a[:])
	p.t.put("C:"+hx(b), hx(c[:]))
	return c[:]
}
func (p *prims) b58enc(b []byte) string {
	s := base58.Encode(b)
	p.t.put("E:"+hx(b), hx([]byte(s)))
	return s
}
func (p *prims) b58dec(s string) []byte {
	d := base58.Decode(s)
	p.t.put("B:"+hx([]byte(s)), hx(d))
	return d
}

// ---------------------------------------------------------------- BIP-32 from the text

var curveN = btcec.S256().N
var curveP = btcec.S256().P

func ser256(k *big.Int) []byte { // 32 bytes, most significant first
	out := make([]byte, 32)
	t := new(big.Int).Set(k)
	m := big.NewInt(256)
	r := new(big.Int)
	for j := 31; j >= 0; j-- {
		t.DivMod(t, m, r)
		out[j] = byte(r.Int64())
	}
	return out
}
func ser32(i uint32) []byte { return []byte{byte(i >> 24), byte(i >> 16), byte(i >> 8), byte(i)} }
func parse256(b []byte) *big.Int {
	v := new(big.Int)
	for _, c := range b {
		v.Lsh(v, 8)
		v.Or(v, big.NewInt(int64(c)))
	}
	return v
}
func cat(parts ...[]byte) []byte {
	var out []byte
	for _, q := range parts {
		out = append(out, q...)
	}
	return out
}

// xkey is an extended key of the BIP: (k, c) or (K, c), plus the serialization metadata.
type xkey struct {
	priv  bool
	k     *big.Int
	K     pt
	c     []byte
	depth int
	fp    []byte
	num   uint32
	ver   []byte
}

func (p *prims) pointOf(x *xkey) pt {
	if x.priv {
		return p.mulG(x.k)
	}
	return x.K
}

// refMaster: "Master key generation".
func (p *prims) refMaster(ver, seed []byte) (*xkey, string) {
	if len(seed) < 16 || len(seed) > 64 {
		return nil, "EInvalidSeedLen"
	}
	I := p.hmac([]byte("Bitcoin seed"), seed)
	il := parse256(I[:32])
	if il.Sign() == 0 || il.Cmp(curveN) >= 0 {
		return nil, "EUnusableSeed"
	}
	return &xkey{priv: true, k: il, c: I[32:], depth: 0, fp: []byte{0, 0, 0, 0}, num: 0, ver: ver}, ""
}

// refCKD: CKDpriv for private parents, CKDpub for public parents.
func (p *prims) refCKD(x *xkey, i uint32) (*xkey, string) {
	if x.depth == 255 {
		return nil, "EDeriveBeyondMaxDepth"
	}
	hard := i >= 0x80000000
	par := p.pointOf(x)
	fp := p.hash160(p.ser(par))[:4]
	if x.priv {
		var I []byte
		if hard {
			I = p.hmac(x.c, cat([]byte{0}, ser256(x.k), ser32(i)))
		} else {
			I = p.hmac(x.c, cat(p.ser(par), ser32(i)))
		}
		il := parse256(I[:32])
		ki := new(big.Int).Add(il, x.k)
		ki.Mod(ki, curveN)
		if il.Cmp(curveN) >= 0 || ki.Sign() == 0 {
			return nil, "EInvalidChild"
		}
		return &xkey{priv: true, k: ki, c: I[32:], depth: x.depth + 1, fp: fp, num: i, ver: x.ver}, ""
	}
	if hard {
		return nil, "EDeriveHardFromPublic"
	}
	I := p.hmac(x.c, cat(p.ser(x.K), ser32(i)))
	il := parse256(I[:32])
	Ki := p.add(p.mulG(il), x.K)
	if il.Cmp(curveN) >= 0 || Ki.inf() {
		return nil, "EInvalidChild"
	}
	return &xkey{priv: false, K: Ki, c: I[32:], depth: x.depth + 1, fp: fp, num: i, ver: x.ver}, ""
}

var xprvVer = []byte{0x04, 0x88, 0xad, 0xe4}
var xpubVer = []byte{0x04, 0x88, 0xb2, 0x1e}

// refNeuter: N((k, c)) = (point(k), c).
func (p *prims) refNeuter(x *xkey) (*xkey, string) {
	if !x.priv {
		return x, ""
	}
	if hx(x.ver) != hx(xprvVer) {
		return nil, "EUnknownHDKeyID"
	}
	return &xkey{priv: false, K: p.mulG(x.k), c: x.c, depth: x.depth, fp: x.fp, num: x.num, ver: xpubVer}, ""
}

func (p *prims) refKeyData(x *xkey) []byte {
	if x.priv {
		return cat([]byte{0}, ser256(x.k))
	}
	return p.ser(x.K)
}

// refString: "Serialization format" + Base58Check.
func (p *prims) refString(x *xkey) string {
	payload := cat(x.ver, []byte{byte(x.depth)}, x.fp, ser32(x.num), x.c, p.refKeyData(x))
	cs := p.dsha(payload)[:4]
	return p.b58enc(cat(payload, cs))
}

// onCurveCompressed decides, with math/big only, whether 33 bytes are the SEC1 compressed
// encoding of a curve point (prefix 02/03, x < p, x^3+7 a square).
func onCurveCompressed(b []byte) bool {
	if len(b) != 33 || (b[0] != 2 && b[0] != 3) {
		return false
	}
	x := parse256(b[1:])
	if x.Cmp(curveP) >= 0 {
		return false
	}
	r := new(big.Int).Exp(x, big.NewInt(3), curveP)
	r.Add(r, big.NewInt(7))
	r.Mod(r, curveP)
	return new(big.Int).ModSqrt(r, curveP) != nil
}

// refParse: what the property asks of parsing: length, checksum, key material.
// loose = true accepts what btcec.ParsePubKey accepts (x >= p allowed) so that the
// strict and the lenient reading can both be reported.
func (p *prims) refParse(s string) (*xkey, string) {
	d := p.b58dec(s)
	if len(d) != 82 {
		return nil, "EInvalidKeyLen"
	}
	payload, cs := d[:78], d[78:]
	if hx(p.dsha(payload)[:4]) != hx(cs) {
		return nil, "EBadChecksum"
	}
	x := &xkey{ver: payload[0:4], depth: int(payload[4]), fp: payload[5:9],
		num: uint32(payload[9])<<24 | uint32(payload[10])<<16 | uint32(payload[11])<<8 | uint32(payload[12]),
		c: payload[13:45]}
	kd := payload[45:78]
	if kd[0] == 0 {
		k := parse256(kd[1:])
		if k.Sign() == 0 || k.Cmp(curveN) >= 0 {
			return nil, "EUnusableSeed"
		}
		x.priv, x.k = true, k
		return x, ""
	}
	if !onCurveCompressed(kd) {
		p.parse(kd) // record the oracle's answer for the model side
		return nil, "EPubKeyParse"
	}
	K, ok := p.parse(kd)
	if !ok {
		return nil, "EPubKeyParse"
	}
	x.K = K
	return x, ""
}

// ---------------------------------------------------------------- exported facade

// P is a primitive recorder plus the reference derivation functions.
type P struct{ p *prims }

// Key is an extended key of the BIP.
type Key = xkey

func New() *P { return &P{&prims{newTable()}} }

// Table returns the recorded primitive input->output pairs ("K:" HMAC-SHA512, "M:" k*G, "A:" point
// addition, "S:" / "D:" point (de)serialisation, "H:" hash160, "C:" double SHA-256, "E:" / "B:" base58,
// "X:" SHA-256).
func (q *P) Table() string { return q.p.t.String() }

func (q *P) Master(ver, seed []byte) (*Key, string) { return q.p.refMaster(ver, seed) }
func (q *P) CKD(k *Key, i uint32) (*Key, string)    { return q.p.refCKD(k, i) }
func (q *P) Neuter(k *Key) (*Key, string)           { return q.p.refNeuter(k) }
func (q *P) String(k *Key) string                   { return q.p.refString(k) }

// Pub33 is serP of the key's point.
func (q *P) Pub33(k *Key) []byte { return q.p.ser(q.p.pointOf(k)) }

// Anticipate records what the model of hdkeychain asks about a public key it derives from:
// the decoding of its 33 bytes.
func (q *P) Anticipate(pub33 []byte) { q.p.parse(pub33) }

func (q *P) Hash160(b []byte) []byte { return q.p.hash160(b) }

// Sha256 records and returns SHA-256 of b.
func (q *P) Sha256(b []byte) []byte {
	s := sha256.Sum256(b)
	q.p.t.put("X:"+hx(b), hx(s[:]))
	return s[:]
}

// Scalar returns the private scalar of a private key (nil for a public key).
func Scalar(k *Key) *big.Int {
	if !k.priv {
		return nil
	}
	return new(big.Int).Set(k.k)
}

// IsPriv reports whether the key is private.
func IsPriv(k *Key) bool { return k.priv }

var XprvVer = xprvVer
var XpubVer = xpubVer
