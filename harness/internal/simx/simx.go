// Package simx opens the real wallet like internal/sim does (same chain node, real LevelDB wallet
// database, real Blockchain + WalletManager), with the public passphrase as a parameter — the
// C04 / C05 histories restart a wallet after ChangePubPassphrase. Add-only companion of
// internal/sim (which is unchanged).
package simx

import (
	"fmt"
	"os"
	"path/filepath"
	"time"

	"github.com/massnetorg/mass-core/blockchain"
	"github.com/massnetorg/mass-core/blockchain/state"
	"github.com/massnetorg/mass-core/database"
	"github.com/massnetorg/mass-core/netsync"
	"github.com/massnetorg/mass-core/trie/rawdb"
	"massnet.org/mass-wallet/config"
	"massnet.org/mass-wallet/masswallet"
	mwdb "massnet.org/mass-wallet/masswallet/db"
	_ "massnet.org/mass-wallet/masswallet/db/ldb"
	"massnet.org/mass-wallet/masswallet/keystore"
	"verifharness/internal/sim"
)

type server struct {
	db    database.Db
	chain *blockchain.Blockchain
	pool  *blockchain.TxPool
}

func (s *server) Blockchain() *blockchain.Blockchain { return s.chain }
func (s *server) ChainDB() database.Db               { return s.db }
func (s *server) TxMemPool() *blockchain.TxPool      { return s.pool }
func (s *server) SyncManager() *netsync.SyncManager  { return nil }

// Wallet is one running instance.
type Wallet struct {
	Dir string
	DB  mwdb.DB
	WM  *masswallet.WalletManager
	H   *masswallet.NtfnsHandler
	KS  *keystore.KeystoreManager
}

// DBPath is the LevelDB directory of a wallet instance directory.
func DBPath(dir string) string { return filepath.Join(dir, "walletdb") }

// Open opens (or creates) the wallet database under dir with the given public passphrase and
// starts the wallet manager (sim.Init must have been called).
func Open(n *sim.Node, dir, pubpass string) (*Wallet, error) {
	cfg := &config.Config{Core: config.NewDefCoreConfig(), Wallet: config.NewDefWalletConfig()}
	cfg.Wallet.Settings.AddressGapLimit = sim.Cur.GapLimit
	dbPath := DBPath(dir)
	var db mwdb.DB
	var err error
	if _, serr := os.Stat(dbPath); serr == nil {
		db, err = mwdb.OpenDB("leveldb", dbPath)
	} else {
		if err := os.MkdirAll(dir, 0700); err != nil {
			return nil, err
		}
		db, err = mwdb.CreateDB("leveldb", dbPath)
	}
	if err != nil {
		return nil, fmt.Errorf("wallet db: %v", err)
	}
	cache := filepath.Join(dir, fmt.Sprintf("blockcache-%d", time.Now().UnixNano()))
	chain, err := blockchain.NewBlockchain(&blockchain.Config{
		DB:             n.DB,
		StateBindingDb: state.NewDatabase(rawdb.NewMemoryDatabase()),
		ChainParams:    config.ChainParams,
		CachePath:      cache,
	})
	if err != nil {
		db.Close()
		return nil, fmt.Errorf("NewBlockchain: %v", err)
	}
	srv := &server{db: n.DB, chain: chain}
	srv.pool = chain.GetTxPool()
	wm, err := masswallet.NewWalletManager(srv, db, cfg, config.ChainParams, pubpass)
	if err != nil {
		db.Close()
		return nil, fmt.Errorf("NewWalletManager: %v", err)
	}
	w := &Wallet{Dir: dir, DB: db, WM: wm, H: wm.VerifHandler()}
	_, _, _, w.KS, _ = wm.VerifStores()
	if err := wm.Start(); err != nil {
		db.Close()
		return nil, fmt.Errorf("Start: %v", err)
	}
	for i := 0; i < 2000 && !w.H.VerifTaskChanReady(); i++ {
		time.Sleep(time.Millisecond)
	}
	return w, nil
}

// WaitTasks waits until no wallet is importing or being removed (or the timeout passes).
func (w *Wallet) WaitTasks(timeout time.Duration) bool {
	deadline := time.Now().Add(timeout)
	for time.Now().Before(deadline) {
		ws, err := w.WM.Wallets()
		busy := err != nil
		for _, s := range ws {
			if !s.Status.Ready() || s.Status.IsRemoved() {
				busy = true
			}
		}
		if !busy && w.H.VerifTaskQueueLen() == 0 {
			for w.H.VerifQueueLen() > 0 {
				time.Sleep(200 * time.Microsecond)
			}
			w.H.VerifBarrier()
			return true
		}
		time.Sleep(2 * time.Millisecond)
	}
	return false
}

// Stop shuts the wallet down the way the daemon does (closes the database).
func (w *Wallet) Stop() { w.WM.Stop() }
