// Package sched wraps the wallet database (masswallet/db DB / transaction / bucket / iterator)
// around the real LevelDB driver, delegates every call, and gives the harness control over WHEN
// the calling goroutine proceeds. It is the only schedule control the C20 and C17 checks use:
// nothing inside /repo is instrumented.
//
// Every wrapper method that matters is a "point". At a point the wrapper
//  1. finds out who is calling (role = handler goroutine, worker goroutine, or other; fn = the
//     innermost masswallet function on the stack) by walking the call stack,
//  2. appends an Event to the trace (when tracing),
//  3. blocks the caller if a Gate is armed for (role, fn, point) until the harness releases it,
//  4. (read transactions) numbers the reads of the transaction and calls OnRead before each.
//
// Points:
//
//	begin     before the driver's BeginTx (the driver's write lock is NOT yet held)
//	commit    after the driver's Commit returned nil (write lock released)
//	abort     after a write transaction was rolled back
//	view      before the driver's BeginReadTx
//	get put del iter prefix   bucket operations, before the driver is called
//	close     DB.Close
package sched

import (
	"fmt"
	"runtime"
	"strings"
	"sync"
	"sync/atomic"
	"time"

	mwdb "massnet.org/mass-wallet/masswallet/db"
)

type Role uint8

const (
	Other Role = iota
	Handler
	Worker
)

func (r Role) String() string { return [...]string{"A", "H", "K"}[r] }

// Event is one passage through a point.
type Event struct {
	Seq   int
	Role  Role
	Fn    string // innermost function of package masswallet on the stack (without the package path)
	Point string
	Tx    int    // transaction number (0 for DB-level points before the transaction exists)
	K     int    // read number inside a read transaction (point get/iter/prefix), else 0
	Bkt   string // bucket name (reads of a read transaction only)
}

func (e Event) String() string {
	return fmt.Sprintf("%s:%s:%s", e.Role, e.Fn, e.Point)
}

// Gate blocks the first (nth) caller matching it.
type Gate struct {
	c       *Ctl
	Role    Role
	Fn      string // "" = any
	Point   string
	skip    int
	arrived chan struct{}
	release chan struct{}
	done    bool
	Ev      Event // the event that arrived
}

// Ctl is shared by everything wrapped from one database.
type Ctl struct {
	mu      sync.Mutex
	seq     int
	txn     int
	Tracing bool
	OpTrace bool // also trace bucket operations (costly)
	events  []Event
	gates   []*Gate
	opGates int32 // number of armed gates on bucket-operation points
	// OnRead is called (without the controller lock) before read number k of read transaction tx.
	OnRead  func(ev Event, key []byte)
	reads   int32 // 1 when OnRead is set
	Commits int
	Closed  bool
	// HoldHK: every passage of the handler or the worker goroutine through begin / commit / abort
	// waits until the harness grants it; the event is recorded when granted.
	HoldHK  bool
	pending map[Role]*pend
}

type pend struct {
	ev Event
	ch chan struct{}
}

// SetHold switches the hold-everything mode on; switching it off grants whatever is pending.
func (c *Ctl) SetHold(on bool) {
	c.mu.Lock()
	c.HoldHK = on
	var rel []*pend
	if !on {
		for r, p := range c.pending {
			rel = append(rel, p)
			delete(c.pending, r)
		}
	}
	for _, p := range rel {
		c.seq++
		p.ev.Seq = c.seq
		c.events = append(c.events, p.ev)
	}
	c.mu.Unlock()
	for _, p := range rel {
		close(p.ch)
	}
}

// Pending returns the event the goroutine of that role is held at, if any.
func (c *Ctl) Pending(r Role) (Event, bool) {
	c.mu.Lock()
	defer c.mu.Unlock()
	if p, ok := c.pending[r]; ok {
		return p.ev, true
	}
	return Event{}, false
}

// Grant records the pending event of that role now and lets the goroutine go on.
func (c *Ctl) Grant(r Role) bool {
	c.mu.Lock()
	p, ok := c.pending[r]
	if ok {
		delete(c.pending, r)
		c.seq++
		p.ev.Seq = c.seq
		c.events = append(c.events, p.ev)
	}
	c.mu.Unlock()
	if ok {
		close(p.ch)
	}
	return ok
}

func New() *Ctl { return &Ctl{Tracing: true, pending: map[Role]*pend{}} }

func (c *Ctl) Wrap(db mwdb.DB) mwdb.DB { return &wdb{c: c, in: db} }

func (c *Ctl) SetOnRead(f func(ev Event, key []byte)) {
	c.mu.Lock()
	c.OnRead = f
	if f != nil {
		atomic.StoreInt32(&c.reads, 1)
	} else {
		atomic.StoreInt32(&c.reads, 0)
	}
	c.mu.Unlock()
}

func isOp(point string) bool {
	switch point {
	case "get", "put", "del", "iter", "prefix":
		return true
	}
	return false
}

// Arm installs a gate for the (skip+1)-th matching passage from now on.
func (c *Ctl) Arm(role Role, fn, point string, skip int) *Gate {
	g := &Gate{c: c, Role: role, Fn: fn, Point: point, skip: skip, arrived: make(chan struct{}), release: make(chan struct{})}
	c.mu.Lock()
	c.gates = append(c.gates, g)
	if isOp(point) {
		atomic.AddInt32(&c.opGates, 1)
	}
	c.mu.Unlock()
	return g
}

// Wait reports whether a caller arrived at the gate within d.
func (g *Gate) Wait(d time.Duration) bool {
	select {
	case <-g.arrived:
		return true
	case <-time.After(d):
		return false
	}
}

// Arrived reports without waiting.
func (g *Gate) Arrived() bool {
	select {
	case <-g.arrived:
		return true
	default:
		return false
	}
}

// Release lets the held caller (or a future one: the gate is removed) go on.
func (g *Gate) Release() {
	g.c.mu.Lock()
	if !g.done {
		g.done = true
		for i, x := range g.c.gates {
			if x == g {
				g.c.gates = append(g.c.gates[:i], g.c.gates[i+1:]...)
				if isOp(g.Point) {
					atomic.AddInt32(&g.c.opGates, -1)
				}
				break
			}
		}
		close(g.release)
	}
	g.c.mu.Unlock()
}

// RenameLast changes the point of the most recent harness-made event (fn, from) to `to`.
func (c *Ctl) RenameLast(fn, from, to string) {
	c.mu.Lock()
	defer c.mu.Unlock()
	for i := len(c.events) - 1; i >= 0; i-- {
		if c.events[i].Role == Other && c.events[i].Fn == fn && c.events[i].Point == from {
			c.events[i].Point = to
			return
		}
	}
}

// IsClosed reports whether DB.Close has returned.
func (c *Ctl) IsClosed() bool { c.mu.Lock(); defer c.mu.Unlock(); return c.Closed }

// Events returns a copy of the trace.
func (c *Ctl) Events() []Event {
	c.mu.Lock()
	defer c.mu.Unlock()
	return append([]Event(nil), c.events...)
}

// Note appends a harness-made event (stop, announce, task ...) to the trace.
func (c *Ctl) Note(fn, point string) {
	c.mu.Lock()
	c.seq++
	c.events = append(c.events, Event{Seq: c.seq, Role: Other, Fn: fn, Point: point})
	c.mu.Unlock()
}

const pkg = "massnet.org/mass-wallet/masswallet."

// who walks the stack: role from the goroutine's entry function, fn = innermost masswallet function.
func who() (Role, string) {
	var pcs [64]uintptr
	n := runtime.Callers(3, pcs[:])
	fr := runtime.CallersFrames(pcs[:n])
	role, fn := Other, ""
	for {
		f, more := fr.Next()
		name := f.Function
		if strings.HasPrefix(name, pkg) {
			short := name[len(pkg):]
			// methods look like (*NtfnsHandler).asyncImport or (*NtfnsHandler).asyncImport.func1
			if i := strings.Index(short, ")."); i >= 0 {
				short = short[i+2:]
			}
			if i := strings.Index(short, "."); i >= 0 {
				short = short[:i]
			}
			if fn == "" {
				fn = short
			}
			if short == "handle" {
				role = Handler
			} else if short == "worker" {
				role = Worker
			}
		}
		if !more {
			break
		}
	}
	return role, fn
}

// at is the common path of every point; returns the event.
func (c *Ctl) at(point string, tx, k int, cheap bool) Event {
	if cheap && !c.OpTrace && atomic.LoadInt32(&c.opGates) == 0 {
		return Event{}
	}
	role, fn := who()
	ev := Event{Role: role, Fn: fn, Point: point, Tx: tx, K: k}
	c.mu.Lock()
	if c.HoldHK && (role == Handler || role == Worker) && (point == "begin" || point == "commit" || point == "abort") {
		if point == "commit" {
			c.Commits++
		}
		p := &pend{ev: ev, ch: make(chan struct{})}
		c.pending[role] = p
		c.mu.Unlock()
		<-p.ch
		return ev
	}
	c.seq++
	ev.Seq = c.seq
	if c.Tracing && (!cheap || c.OpTrace) {
		c.events = append(c.events, ev)
	}
	if point == "commit" {
		c.Commits++
	}
	var hit *Gate
	for _, g := range c.gates {
		if g.done || g.Arrived() || g.Role != role || g.Point != point || (g.Fn != "" && g.Fn != fn) {
			continue
		}
		if g.skip > 0 {
			g.skip--
			continue
		}
		hit = g
		g.Ev = ev
		close(g.arrived)
		break
	}
	c.mu.Unlock()
	if hit != nil {
		<-hit.release
	}
	return ev
}

func (c *Ctl) newTx() int {
	c.mu.Lock()
	c.txn++
	n := c.txn
	c.mu.Unlock()
	return n
}

// ---------------------------------------------------------------- DB

type wdb struct {
	c  *Ctl
	in mwdb.DB
}

func (d *wdb) Close() error {
	err := d.in.Close()
	d.c.mu.Lock()
	d.c.Closed = true
	d.c.mu.Unlock()
	d.c.at("close", 0, 0, false) // recorded once the database is really closed
	return err
}

func (d *wdb) BeginTx() (mwdb.DBTransaction, error) {
	d.c.at("begin", 0, 0, false)
	t, err := d.in.BeginTx()
	if err != nil {
		return nil, err
	}
	return &wtx{c: d.c, in: t, n: d.c.newTx()}, nil
}

func (d *wdb) BeginReadTx() (mwdb.ReadTransaction, error) {
	d.c.at("view", 0, 0, false)
	t, err := d.in.BeginReadTx()
	if err != nil {
		return nil, err
	}
	return &rtx{c: d.c, in: t, n: d.c.newTx()}, nil
}

// ---------------------------------------------------------------- transactions

type wtx struct {
	c  *Ctl
	in mwdb.DBTransaction
	n  int
}

func (t *wtx) Commit() error {
	err := t.in.Commit()
	if err == nil {
		t.c.at("commit", t.n, 0, false)
	}
	return err
}

func (t *wtx) Rollback() error {
	err := t.in.Rollback()
	t.c.at("abort", t.n, 0, false)
	return err
}
func (t *wtx) TopLevelBucket(name string) mwdb.Bucket {
	return wrapBucket(t.c, t.in.TopLevelBucket(name), nil, t.n)
}
func (t *wtx) BucketNames() ([]string, error) { return t.in.BucketNames() }
func (t *wtx) FetchBucket(meta mwdb.BucketMeta) mwdb.Bucket {
	return wrapBucket(t.c, t.in.FetchBucket(meta), nil, t.n)
}
func (t *wtx) CreateTopLevelBucket(name string) (mwdb.Bucket, error) {
	b, err := t.in.CreateTopLevelBucket(name)
	if err != nil {
		return nil, err
	}
	return wrapBucket(t.c, b, nil, t.n), nil
}
func (t *wtx) DeleteTopLevelBucket(name string) error { return t.in.DeleteTopLevelBucket(name) }

type rtx struct {
	c     *Ctl
	in    mwdb.ReadTransaction
	n     int
	reads int
}

func (t *rtx) TopLevelBucket(name string) mwdb.Bucket {
	return wrapBucket(t.c, t.in.TopLevelBucket(name), t, t.n)
}
func (t *rtx) FetchBucket(meta mwdb.BucketMeta) mwdb.Bucket {
	return wrapBucket(t.c, t.in.FetchBucket(meta), t, t.n)
}
func (t *rtx) BucketNames() ([]string, error) { return t.in.BucketNames() }
func (t *rtx) Rollback() error {
	err := t.in.Rollback()
	t.c.at("viewend", t.n, 0, false)
	return err
}

// ---------------------------------------------------------------- buckets

type wbucket struct {
	c  *Ctl
	in mwdb.Bucket
	rt *rtx // non-nil inside a read transaction
	n  int
}

func wrapBucket(c *Ctl, b mwdb.Bucket, rt *rtx, n int) mwdb.Bucket {
	if b == nil {
		return nil
	}
	return &wbucket{c: c, in: b, rt: rt, n: n}
}

// read numbers a read of a read transaction and runs the read hook.
func (b *wbucket) read(point string, key []byte) {
	if b.rt != nil && atomic.LoadInt32(&b.c.reads) == 1 {
		b.rt.reads++
		role, fn := who2()
		ev := Event{Role: role, Fn: fn, Point: point, Tx: b.n, K: b.rt.reads, Bkt: b.in.GetBucketMeta().Name()}
		b.c.mu.Lock()
		f := b.c.OnRead
		b.c.mu.Unlock()
		if f != nil {
			f(ev, key)
		}
	}
	b.c.at(point, b.n, 0, true)
}

// who2 = who with one frame less to skip (called from wbucket.read, not from Ctl.at).
func who2() (Role, string) { return who() }

func (b *wbucket) NewBucket(name string) (mwdb.Bucket, error) {
	nb, err := b.in.NewBucket(name)
	if err != nil {
		return nil, err
	}
	return wrapBucket(b.c, nb, b.rt, b.n), nil
}
func (b *wbucket) Bucket(name string) mwdb.Bucket {
	return wrapBucket(b.c, b.in.Bucket(name), b.rt, b.n)
}
func (b *wbucket) BucketNames() ([]string, error) { return b.in.BucketNames() }
func (b *wbucket) DeleteBucket(name string) error { return b.in.DeleteBucket(name) }
func (b *wbucket) Put(key, value []byte) error {
	b.c.at("put", b.n, 0, true)
	return b.in.Put(key, value)
}
func (b *wbucket) Delete(key []byte) error {
	b.c.at("del", b.n, 0, true)
	return b.in.Delete(key)
}
func (b *wbucket) Get(key []byte) ([]byte, error) {
	b.read("get", key)
	return b.in.Get(key)
}
func (b *wbucket) Clear() error { return b.in.Clear() }
func (b *wbucket) GetByPrefix(p []byte) ([]*mwdb.Entry, error) {
	b.read("prefix", p)
	return b.in.GetByPrefix(p)
}
func (b *wbucket) GetBucketMeta() mwdb.BucketMeta { return b.in.GetBucketMeta() }
func (b *wbucket) NewIterator(slice *mwdb.Range) mwdb.Iterator {
	var k []byte
	if slice != nil {
		k = slice.Start
	}
	b.read("iter", k)
	return b.in.NewIterator(slice)
}

// ---------------------------------------------------------------- goroutine inspection

// G is one goroutine of a stack dump.
type G struct {
	Header string // "goroutine 12 [chan send, 2 minutes]:"
	State  string // "chan send"
	Text   string
}

// Dump returns the stacks of all goroutines.
func Dump() string {
	buf := make([]byte, 1<<20)
	for {
		n := runtime.Stack(buf, true)
		if n < len(buf) {
			return string(buf[:n])
		}
		buf = make([]byte, 2*len(buf))
	}
}

// Goroutines parses Dump().
func Goroutines() []G {
	var res []G
	for _, blk := range strings.Split(Dump(), "\n\n") {
		blk = strings.TrimSpace(blk)
		if !strings.HasPrefix(blk, "goroutine ") {
			continue
		}
		nl := strings.Index(blk, "\n")
		hdr := blk
		if nl >= 0 {
			hdr = blk[:nl]
		}
		st := ""
		if i := strings.Index(hdr, "["); i >= 0 {
			st = strings.TrimSuffix(strings.TrimSuffix(hdr[i+1:], ":"), "]")
			if j := strings.Index(st, ","); j >= 0 {
				st = st[:j]
			}
		}
		res = append(res, G{Header: hdr, State: st, Text: blk})
	}
	return res
}

// Find returns the first goroutine whose stack contains all the given substrings.
func Find(subs ...string) *G {
	for _, g := range Goroutines() {
		ok := true
		for _, s := range subs {
			if !strings.Contains(g.Text, s) {
				ok = false
				break
			}
		}
		if ok {
			gg := g
			return &gg
		}
	}
	return nil
}

// Until polls cond every 200µs for at most d.
func Until(d time.Duration, cond func() bool) bool {
	dl := time.Now().Add(d)
	for {
		if cond() {
			return true
		}
		if time.Now().After(dl) {
			return false
		}
		time.Sleep(200 * time.Microsecond)
	}
}
