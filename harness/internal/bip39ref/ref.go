package bip39ref

// Independent BIP-39 (English) written from the BIP text with bit strings:
//   ENT in {128,160,192,224,256}; CS = ENT/32; MS = (ENT+CS)/11
//   bits(entropy) || first CS bits of SHA256(entropy), cut into 11-bit groups, each a word index
//   seed = PBKDF2-HMAC-SHA512(password = sentence (NFKD), salt = "mnemonic"+passphrase (NFKD), c = 2048, dkLen = 64)
// No math/big, no x/crypto/pbkdf2, no code of /repo.

import (
	"crypto/hmac"
	"crypto/sha256"
	"crypto/sha512"
	"encoding/binary"
	"strings"
	"unicode/utf8"

	"golang.org/x/text/unicode/norm"
)

var index = func() map[string]int {
	m := map[string]int{}
	for i, w := range English {
		m[w] = i
	}
	return m
}()

func bitsOf(b []byte) []byte {
	out := make([]byte, 0, len(b)*8)
	for _, x := range b {
		for i := 7; i >= 0; i-- {
			out = append(out, (x>>uint(i))&1)
		}
	}
	return out
}

func LegalEntropyLen(n int) bool { return n == 16 || n == 20 || n == 24 || n == 28 || n == 32 }

// EncodeWords returns the word sequence of an entropy; ok=false for an illegal size.
func EncodeWords(ent []byte) ([]string, bool) {
	if !LegalEntropyLen(len(ent)) {
		return nil, false
	}
	h := sha256.Sum256(ent)
	bits := bitsOf(ent)
	bits = append(bits, bitsOf(h[:])[:len(ent)*8/32]...)
	var words []string
	for g := 0; g+11 <= len(bits); g += 11 {
		idx := 0
		for _, b := range bits[g : g+11] {
			idx = idx*2 + int(b)
		}
		words = append(words, English[idx])
	}
	return words, true
}

func Encode(ent []byte) (string, bool) {
	w, ok := EncodeWords(ent)
	return strings.Join(w, " "), ok
}

// CandidateEntropy: the entropy part of a sentence with a legal word count whose words are
// all on the list (whatever the checksum); ok=false otherwise.
func CandidateEntropy(words []string) (ent []byte, csBits []byte, ok bool) {
	n := len(words)
	if n != 12 && n != 15 && n != 18 && n != 21 && n != 24 {
		return nil, nil, false
	}
	var bits []byte
	for _, w := range words {
		i, found := index[w]
		if !found {
			return nil, nil, false
		}
		for k := 10; k >= 0; k-- {
			bits = append(bits, byte(i>>uint(k))&1)
		}
	}
	entBits := n * 11 * 32 / 33
	ent = make([]byte, entBits/8)
	for i := 0; i < entBits; i++ {
		ent[i/8] = ent[i/8]<<1 | bits[i]
	}
	return ent, bits[entBits:], true
}

// DecodeWords: accepted exactly when legal count, only list words, correct checksum.
func DecodeWords(words []string) ([]byte, bool) {
	ent, cs, ok := CandidateEntropy(words)
	if !ok {
		return nil, false
	}
	h := sha256.Sum256(ent)
	want := bitsOf(h[:])[:len(cs)]
	for i := range cs {
		if cs[i] != want[i] {
			return nil, false
		}
	}
	return ent, true
}

// IsSpace: Unicode White_Space, listed by hand (Unicode 13 / 15: the same 25 code points).
func IsSpace(r rune) bool {
	switch {
	case r >= 0x09 && r <= 0x0d, r == 0x20, r == 0x85, r == 0xa0, r == 0x1680,
		r >= 0x2000 && r <= 0x200a, r == 0x2028, r == 0x2029, r == 0x202f, r == 0x205f, r == 0x3000:
		return true
	}
	return false
}

// Split: maximal runs of non-white-space runes (invalid UTF-8 bytes are non-space).
func Split(s string) []string {
	var out []string
	start := -1
	for i := 0; i < len(s); {
		r, w := utf8.DecodeRuneInString(s[i:])
		if r == utf8.RuneError && w <= 1 {
			r, w = -1, 1
		}
		if IsSpace(r) {
			if start >= 0 {
				out = append(out, s[start:i])
				start = -1
			}
		} else if start < 0 {
			start = i
		}
		i += w
	}
	if start >= 0 {
		out = append(out, s[start:])
	}
	return out
}

// PBKDF2SHA512 from RFC 8018 section 5.2 with HMAC-SHA512.
func PBKDF2SHA512(password, salt []byte, iter, dkLen int) []byte {
	var out []byte
	for block := uint32(1); len(out) < dkLen; block++ {
		mac := hmac.New(sha512.New, password)
		mac.Write(salt)
		var ib [4]byte
		binary.BigEndian.PutUint32(ib[:], block)
		mac.Write(ib[:])
		u := mac.Sum(nil)
		t := append([]byte(nil), u...)
		for i := 1; i < iter; i++ {
			mac.Reset()
			mac.Write(u)
			u = mac.Sum(nil)
			for j := range t {
				t[j] ^= u[j]
			}
		}
		out = append(out, t...)
	}
	return out[:dkLen]
}

func NFKD(s string) string { return norm.NFKD.String(s) }

// Seed: the BIP-39 seed of a word sequence and a passphrase.
func Seed(words []string, passphrase string) []byte {
	return PBKDF2SHA512([]byte(NFKD(strings.Join(words, " "))), []byte("mnemonic"+NFKD(passphrase)), 2048, 64)
}
