// Package bip39ref: reference data and an independent BIP-39 implementation written from the BIP text
// (bit strings, crypto/sha256, crypto/hmac+sha512). Shares no code with masswallet/keystore.
// english.go: the BIP-39 English word list (bips/bip-0039/english.txt), copied once; its SHA-256 is checked in init.
package bip39ref

import (
	"crypto/sha256"
	"encoding/hex"
	"strings"
)

// EnglishSHA256 is the SHA-256 of english.txt (2048 lines, each terminated by \n).
const EnglishSHA256 = "2f5eed53a4727b4bf8880d8f3f199efc90e58503646d9ff8eff3a2ed3b24dbda"

// English is the reference list.
var English = strings.Fields(englishTxt)

func init() {
	h := sha256.Sum256([]byte(strings.Join(English, "\n") + "\n"))
	if hex.EncodeToString(h[:]) != EnglishSHA256 || len(English) != 2048 {
		panic("bip39ref: embedded word list corrupted")
	}
}

const englishTxt = `
abandon ability able about above absent absorb abstract absurd abuse access accident
account accuse achieve acid acoustic acquire across act action actor actress actual
adapt add addict address adjust admit adult advance advice aerobic affair afford
afraid again age agent agree ahead aim air airport aisle alarm album
alcohol alert alien all alley allow almost alone alpha already also alter
always amateur amazing among amount amused analyst anchor ancient anger angle angry
animal ankle announce annual another answer antenna antique anxiety any apart apology
appear apple approve april arch arctic area arena argue arm armed armor
army around arrange arrest arrive arrow art artefact artist artwork ask aspect
assault asset assist assume asthma athlete atom attack attend attitude attract auction
audit august aunt author auto autumn average avocado avoid awake aware away
awesome awful awkward axis baby bachelor bacon badge bag balance balcony ball
bamboo banana banner bar barely bargain barrel base basic basket battle beach
bean beauty because become beef before begin behave behind believe below belt
bench benefit best betray better between beyond bicycle bid bike bind biology
bird birth bitter black blade blame blanket blast bleak bless blind blood
blossom blouse blue blur blush board boat body boil bomb bone bonus
book boost border boring borrow boss bottom bounce box boy bracket brain
brand brass brave bread breeze brick bridge brief bright bring brisk broccoli
broken bronze broom brother brown brush bubble buddy budget buffalo build bulb
bulk bullet bundle bunker burden burger burst bus business busy butter buyer
buzz cabbage cabin cable cactus cage cake call calm camera camp can
canal cancel candy cannon canoe canvas canyon capable capital captain car carbon
card cargo carpet carry cart case cash casino castle casual cat catalog
catch category cattle caught cause caution cave ceiling celery cement census century
cereal certain chair chalk champion change chaos chapter charge chase chat cheap
check cheese chef cherry chest chicken chief child chimney choice choose chronic
chuckle chunk churn cigar cinnamon circle citizen city civil claim clap clarify
claw clay clean clerk clever click client cliff climb clinic clip clock
clog close cloth cloud clown club clump cluster clutch coach coast coconut
code coffee coil coin collect color column combine come comfort comic common
company concert conduct confirm congress connect consider control convince cook cool copper
copy coral core corn correct cost cotton couch country couple course cousin
cover coyote crack cradle craft cram crane crash crater crawl crazy cream
credit creek crew cricket crime crisp critic crop cross crouch crowd crucial
cruel cruise crumble crunch crush cry crystal cube culture cup cupboard curious
current curtain curve cushion custom cute cycle dad damage damp dance danger
daring dash daughter dawn day deal debate debris decade december decide decline
decorate decrease deer defense define defy degree delay deliver demand demise denial
dentist deny depart depend deposit depth deputy derive describe desert design desk
despair destroy detail detect develop device devote diagram dial diamond diary dice
diesel diet differ digital dignity dilemma dinner dinosaur direct dirt disagree discover
disease dish dismiss disorder display distance divert divide divorce dizzy doctor document
dog doll dolphin domain donate donkey donor door dose double dove draft
dragon drama drastic draw dream dress drift drill drink drip drive drop
drum dry duck dumb dune during dust dutch duty dwarf dynamic eager
eagle early earn earth easily east easy echo ecology economy edge edit
educate effort egg eight either elbow elder electric elegant element elephant elevator
elite else embark embody embrace emerge emotion employ empower empty enable enact
end endless endorse enemy energy enforce engage engine enhance enjoy enlist enough
enrich enroll ensure enter entire entry envelope episode equal equip era erase
erode erosion error erupt escape essay essence estate eternal ethics evidence evil
evoke evolve exact example excess exchange excite exclude excuse execute exercise exhaust
exhibit exile exist exit exotic expand expect expire explain expose express extend
extra eye eyebrow fabric face faculty fade faint faith fall false fame
family famous fan fancy fantasy farm fashion fat fatal father fatigue fault
favorite feature february federal fee feed feel female fence festival fetch fever
few fiber fiction field figure file film filter final find fine finger
finish fire firm first fiscal fish fit fitness fix flag flame flash
flat flavor flee flight flip float flock floor flower fluid flush fly
foam focus fog foil fold follow food foot force forest forget fork
fortune forum forward fossil foster found fox fragile frame frequent fresh friend
fringe frog front frost frown frozen fruit fuel fun funny furnace fury
future gadget gain galaxy gallery game gap garage garbage garden garlic garment
gas gasp gate gather gauge gaze general genius genre gentle genuine gesture
ghost giant gift giggle ginger giraffe girl give glad glance glare glass
glide glimpse globe gloom glory glove glow glue goat goddess gold good
goose gorilla gospel gossip govern gown grab grace grain grant grape grass
gravity great green grid grief grit grocery group grow grunt guard guess
guide guilt guitar gun gym habit hair half hammer hamster hand happy
harbor hard harsh harvest hat have hawk hazard head health heart heavy
hedgehog height hello helmet help hen hero hidden high hill hint hip
hire history hobby hockey hold hole holiday hollow home honey hood hope
horn horror horse hospital host hotel hour hover hub huge human humble
humor hundred hungry hunt hurdle hurry hurt husband hybrid ice icon idea
identify idle ignore ill illegal illness image imitate immense immune impact impose
improve impulse inch include income increase index indicate indoor industry infant inflict
inform inhale inherit initial inject injury inmate inner innocent input inquiry insane
insect inside inspire install intact interest into invest invite involve iron island
isolate issue item ivory jacket jaguar jar jazz jealous jeans jelly jewel
job join joke journey joy judge juice jump jungle junior junk just
kangaroo keen keep ketchup key kick kid kidney kind kingdom kiss kit
kitchen kite kitten kiwi knee knife knock know lab label labor ladder
lady lake lamp language laptop large later latin laugh laundry lava law
lawn lawsuit layer lazy leader leaf learn leave lecture left leg legal
legend leisure lemon lend length lens leopard lesson letter level liar liberty
library license life lift light like limb limit link lion liquid list
little live lizard load loan lobster local lock logic lonely long loop
lottery loud lounge love loyal lucky luggage lumber lunar lunch luxury lyrics
machine mad magic magnet maid mail main major make mammal man manage
mandate mango mansion manual maple marble march margin marine market marriage mask
mass master match material math matrix matter maximum maze meadow mean measure
meat mechanic medal media melody melt member memory mention menu mercy merge
merit merry mesh message metal method middle midnight milk million mimic mind
minimum minor minute miracle mirror misery miss mistake mix mixed mixture mobile
model modify mom moment monitor monkey monster month moon moral more morning
mosquito mother motion motor mountain mouse move movie much muffin mule multiply
muscle museum mushroom music must mutual myself mystery myth naive name napkin
narrow nasty nation nature near neck need negative neglect neither nephew nerve
nest net network neutral never news next nice night noble noise nominee
noodle normal north nose notable note nothing notice novel now nuclear number
nurse nut oak obey object oblige obscure observe obtain obvious occur ocean
october odor off offer office often oil okay old olive olympic omit
once one onion online only open opera opinion oppose option orange orbit
orchard order ordinary organ orient original orphan ostrich other outdoor outer output
outside oval oven over own owner oxygen oyster ozone pact paddle page
pair palace palm panda panel panic panther paper parade parent park parrot
party pass patch path patient patrol pattern pause pave payment peace peanut
pear peasant pelican pen penalty pencil people pepper perfect permit person pet
phone photo phrase physical piano picnic picture piece pig pigeon pill pilot
pink pioneer pipe pistol pitch pizza place planet plastic plate play please
pledge pluck plug plunge poem poet point polar pole police pond pony
pool popular portion position possible post potato pottery poverty powder power practice
praise predict prefer prepare present pretty prevent price pride primary print priority
prison private prize problem process produce profit program project promote proof property
prosper protect proud provide public pudding pull pulp pulse pumpkin punch pupil
puppy purchase purity purpose purse push put puzzle pyramid quality quantum quarter
question quick quit quiz quote rabbit raccoon race rack radar radio rail
rain raise rally ramp ranch random range rapid rare rate rather raven
raw razor ready real reason rebel rebuild recall receive recipe record recycle
reduce reflect reform refuse region regret regular reject relax release relief rely
remain remember remind remove render renew rent reopen repair repeat replace report
require rescue resemble resist resource response result retire retreat return reunion reveal
review reward rhythm rib ribbon rice rich ride ridge rifle right rigid
ring riot ripple risk ritual rival river road roast robot robust rocket
romance roof rookie room rose rotate rough round route royal rubber rude
rug rule run runway rural sad saddle sadness safe sail salad salmon
salon salt salute same sample sand satisfy satoshi sauce sausage save say
scale scan scare scatter scene scheme school science scissors scorpion scout scrap
screen script scrub sea search season seat second secret section security seed
seek segment select sell seminar senior sense sentence series service session settle
setup seven shadow shaft shallow share shed shell sheriff shield shift shine
ship shiver shock shoe shoot shop short shoulder shove shrimp shrug shuffle
shy sibling sick side siege sight sign silent silk silly silver similar
simple since sing siren sister situate six size skate sketch ski skill
skin skirt skull slab slam sleep slender slice slide slight slim slogan
slot slow slush small smart smile smoke smooth snack snake snap sniff
snow soap soccer social sock soda soft solar soldier solid solution solve
someone song soon sorry sort soul sound soup source south space spare
spatial spawn speak special speed spell spend sphere spice spider spike spin
spirit split spoil sponsor spoon sport spot spray spread spring spy square
squeeze squirrel stable stadium staff stage stairs stamp stand start state stay
steak steel stem step stereo stick still sting stock stomach stone stool
story stove strategy street strike strong struggle student stuff stumble style subject
submit subway success such sudden suffer sugar suggest suit summer sun sunny
sunset super supply supreme sure surface surge surprise surround survey suspect sustain
swallow swamp swap swarm swear sweet swift swim swing switch sword symbol
symptom syrup system table tackle tag tail talent talk tank tape target
task taste tattoo taxi teach team tell ten tenant tennis tent term
test text thank that theme then theory there they thing this thought
three thrive throw thumb thunder ticket tide tiger tilt timber time tiny
tip tired tissue title toast tobacco today toddler toe together toilet token
tomato tomorrow tone tongue tonight tool tooth top topic topple torch tornado
tortoise toss total tourist toward tower town toy track trade traffic tragic
train transfer trap trash travel tray treat tree trend trial tribe trick
trigger trim trip trophy trouble truck true truly trumpet trust truth try
tube tuition tumble tuna tunnel turkey turn turtle twelve twenty twice twin
twist two type typical ugly umbrella unable unaware uncle uncover under undo
unfair unfold unhappy uniform unique unit universe unknown unlock until unusual unveil
update upgrade uphold upon upper upset urban urge usage use used useful
useless usual utility vacant vacuum vague valid valley valve van vanish vapor
various vast vault vehicle velvet vendor venture venue verb verify version very
vessel veteran viable vibrant vicious victory video view village vintage violin virtual
virus visa visit visual vital vivid vocal voice void volcano volume vote
voyage wage wagon wait walk wall walnut want warfare warm warrior wash
wasp waste water wave way wealth weapon wear weasel weather web wedding
weekend weird welcome west wet whale what wheat wheel when where whip
whisper wide width wife wild will win window wine wing wink winner
winter wire wisdom wise wish witness wolf woman wonder wood wool word
work world worry worth wrap wreck wrestle wrist write wrong yard year
yellow you young youth zebra zero zone zoo`
