package cfsim

import (
	"crypto/sha256"
	"encoding/hex"
	"fmt"
	"sort"
	"strings"

	mwdb "massnet.org/mass-wallet/masswallet/db"
)

// StoreDump reads the whole wallet database through the wallet's own database interface: every
// bucket (recursively), every key; "bucket/path\x00hexkey" -> short hash of the value.
func (r *Run) StoreDump() (map[string]string, error) {
	_, _, _, _, db := r.W.WM.VerifStores()
	out := map[string]string{}
	var walk func(path string, b mwdb.Bucket) error
	walk = func(path string, b mwdb.Bucket) error {
		subs, err := b.BucketNames()
		if err != nil {
			return err
		}
		it := b.NewIterator(nil)
		for it.Next() {
			h := sha256.Sum256(it.Value())
			out[path+"\x00"+hex.EncodeToString(it.Key())] = hex.EncodeToString(h[:8])
		}
		err = it.Error()
		it.Release()
		if err != nil {
			return err
		}
		for _, n := range subs {
			sb := b.Bucket(n)
			if sb == nil {
				continue
			}
			if err := walk(path+"/"+n, sb); err != nil {
				return err
			}
		}
		return nil
	}
	err := mwdb.View(db, func(tx mwdb.ReadTransaction) error {
		names, err := tx.BucketNames()
		if err != nil {
			return err
		}
		for _, n := range names {
			b := tx.TopLevelBucket(n)
			if b == nil {
				continue
			}
			if err := walk(n, b); err != nil {
				return err
			}
		}
		return nil
	})
	return out, err
}

// volatileKeys: what differs between two undisturbed replays of the same script (random salts and
// nonces of the keystore encryption, wall-clock fields) cannot be compared between a faulted
// replay and the twin either: keys whose value differs, and buckets whose key sets differ.
func volatileKeys(a, b map[string]string) (keys map[string]bool, buckets map[string]bool) {
	keys, buckets = map[string]bool{}, map[string]bool{}
	for k, v := range a {
		w, ok := b[k]
		if !ok {
			buckets[k[:strings.Index(k, "\x00")]] = true
		} else if v != w {
			keys[k] = true
		}
	}
	for k := range b {
		if _, ok := a[k]; !ok {
			buckets[k[:strings.Index(k, "\x00")]] = true
		}
	}
	return
}

// storeDiff compares the database of a faulted replay with the twin's; "" = equal where comparable.
func storeDiff(twin *Twin, got map[string]string) (bucket, what string) {
	var ks []string
	for k := range twin.Store {
		ks = append(ks, k)
	}
	for k := range got {
		if _, ok := twin.Store[k]; !ok {
			ks = append(ks, k)
		}
	}
	sort.Strings(ks)
	n := 0
	for _, k := range ks {
		i := strings.Index(k, "\x00")
		b, key := k[:i], k[i+1:]
		if twin.VolatileBuckets[b] {
			continue
		}
		v, okT := twin.Store[k]
		w, okG := got[k]
		var d string
		switch {
		case !okG:
			d = fmt.Sprintf("key %s is missing", key)
		case !okT:
			d = fmt.Sprintf("key %s is extra", key)
		case v != w && !twin.VolatileKeys[k]:
			d = fmt.Sprintf("key %s has another value", key)
		default:
			continue
		}
		if n == 0 {
			bucket = b
		}
		if n < 4 {
			what += fmt.Sprintf("bucket %s: %s; ", b, d)
		}
		n++
	}
	if n > 4 {
		what += fmt.Sprintf("(%d differences)", n)
	}
	return
}
