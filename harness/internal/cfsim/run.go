package cfsim

import (
	"fmt"
	"os"
	"sort"
	"strings"
	"sync"
	"time"

	"github.com/massnetorg/mass-core/massutil"
	"github.com/massnetorg/mass-core/wire"
	mwdb "massnet.org/mass-wallet/masswallet/db"
	"massnet.org/mass-wallet/masswallet/keystore"
	"verifharness/internal/dbwrap"
	"verifharness/internal/sim"
)

// Run is one replay of a script on a fresh node and a fresh wallet directory.
type Run struct {
	S         *Script
	Dir       string
	N         *sim.Node
	W         *sim.Wallet
	Ctl       *dbwrap.Ctl
	Active    map[int]bool // wallets the wallet manager is expected to know (created/imported, not removed)
	Issued    map[int][]string
	Lines     []string           // the history as this replay executed it (format of internal/hist)
	Seen      map[wire.Hash]bool // blocks that have been on the wallet's synced chain
	Attached  map[int]bool       // blocks the node has connected at some time
	NodeDone  []bool             // node operations already performed (the node moved on while the wallet was down)
	Stale     bool
	nq        int
	Restarts  int
	WaitLimit time.Duration
	TipBefore wire.Hash // stored tip found by the last Open before Start ran
	RecTip    wire.Hash // the wallet's tip according to the emitted record (last accepted P)
	tipKnown  bool      // the last Open got as far as reading the stored tip
}

func (r *Run) emit(f string, a ...interface{}) { r.Lines = append(r.Lines, fmt.Sprintf(f, a...)) }

// accepted records that the wallet accepted the announcement of b (its tip is now b).
func (r *Run) accepted(b *massutil.Block) {
	r.emit("P %d ok", r.S.Gen.CfBlockID(b))
	r.RecTip = *b.Hash()
	r.markSeen(b)
}

// NewRun creates the node and the scratch directory; the wallet is opened by Open.
func NewRun(s *Script) (*Run, error) {
	dir, err := os.MkdirTemp(scratchRoot(), "vr")
	if err != nil {
		return nil, err
	}
	node, err := sim.NewNode(dir)
	if err != nil {
		os.RemoveAll(dir)
		return nil, err
	}
	r := &Run{S: s, Dir: dir, N: node, Active: map[int]bool{}, WaitLimit: 30 * time.Second, Issued: map[int][]string{}, Seen: map[wire.Hash]bool{}, Attached: map[int]bool{}, NodeDone: make([]bool, len(s.Ops))}
	r.Lines = append(r.Lines, s.Header...)
	r.RecTip = *node.Best[0].Hash()
	return r, nil
}

// Close stops what is still running and removes the scratch files. A crashed (abandoned) wallet
// is not stopped: its goroutines are frozen inside the wrapper.
func (r *Run) Close() {
	if HoldBackground && r.Ctl != nil {
		r.Ctl.Release()
	}
	if r.W != nil && (r.Ctl == nil || r.Ctl.Defuse()) {
		done := make(chan struct{})
		go func() { r.W.Stop(); close(done) }()
		select {
		case <-done:
		case <-time.After(10 * time.Second):
			fmt.Fprintln(os.Stderr, "cfsim: Stop did not return within 10 s (wallet abandoned)")
		}
	}
	r.N.Close()
	os.RemoveAll(r.Dir)
}

// guard runs f in its own goroutine; false = the crash point was reached before f returned.
func (r *Run) guard(f func()) bool {
	if r.Ctl == nil {
		f()
		return true
	}
	done := make(chan struct{})
	go func() { f(); close(done) }()
	select {
	case <-done:
		return true
	case <-r.Ctl.CrashedCh:
		// f may also have completed at the same moment; the crash wins only if f is still running
		select {
		case <-done:
			return true
		case <-time.After(2 * time.Millisecond):
		}
		return false
	}
}

// Open opens (or reopens) the wallet on the run's directory through ctl (nil: no wrapper) and
// starts it. Returns false when the crash point was reached while opening/starting.
// syncedBefore is the wallet's stored tip height before Start ran (for the catch-up record).
func (r *Run) Open(ctl *dbwrap.Ctl) (ok bool, syncedBefore uint64, err error) {
	r.Ctl = ctl
	r.tipKnown = false
	var wrap sim.DBWrap
	var opened mwdb.DB
	if ctl != nil {
		// the crash: close the LevelDB handle, tell nobody (what sim.Wallet.Abandon does)
		ctl.OnCrash = func() {
			if opened != nil {
				opened.Close()
			}
		}
		wrap = func(db mwdb.DB) mwdb.DB {
			opened = ctl.Wrap(db)
			return opened
		}
	}
	var w *sim.Wallet
	fin := r.guard(func() {
		w, err = sim.OpenWallet(r.N, r.Dir, wrap, false)
		if err != nil {
			return
		}
		r.W = w
		syncedBefore, r.TipBefore, err = r.storedTip()
		if err != nil {
			return
		}
		r.tipKnown = true
		err = w.WM.Start()
		if err != nil {
			return
		}
		for i := 0; i < 4000 && !w.H.VerifTaskChanReady(); i++ {
			time.Sleep(500 * time.Microsecond)
		}
	})
	if !fin {
		return false, syncedBefore, nil
	}
	return true, syncedBefore, err
}

// ---------------------------------------------------------------- operations

// Outcome of one executed operation.
type Outcome struct {
	Done bool   // false: the crash point was reached while the operation was in flight
	Err  error  // API error (create/newaddr/import/remove), or announce not accepted
	Val  string // wallet id / address / accepted block
}

func (r *Run) useWallet(num int) error {
	_, err := r.W.WM.UseWallet(r.S.Wallets[num].ID)
	return err
}

// HoldBackground (set by a command before any run; C18): the background worker is held while the
// API call that queues its task (import, remove) runs and released when the next operation starts,
// and the reads of the harness' own polling are not numbered — so that every numbered call of the
// background work falls into the window of the operation that waits for it, at the same number in
// every replay of a script.
var HoldBackground bool

const workerFn = "masswallet.worker"

// Exec performs operation i.
func (r *Run) Exec(i int) Outcome {
	op := &r.S.Ops[i]
	var out Outcome
	if HoldBackground && r.Ctl != nil {
		r.Ctl.Skip("sim.(*Wallet).WaitTasks")
		if op.Kind == OpImport || op.Kind == OpRemove {
			r.Ctl.Hold(workerFn)
		} else {
			r.Ctl.Release()
		}
	}
	switch op.Kind {
	case OpCreate:
		ws := r.S.Wallets[op.W]
		out.Done = r.guard(func() {
			WithEntropy(op.Seed, func() { out.Val, _, _, out.Err = r.W.WM.CreateWallet(ws.Pass, "", 128) })
		})
		if out.Done && out.Err == nil {
			r.Active[op.W] = true
		}
	case OpNewAddr:
		out.Done = r.guard(func() {
			if out.Err = r.useWallet(op.W); out.Err != nil {
				return
			}
			out.Val, out.Err = r.W.WM.NewAddress(op.Class)
		})
		if out.Done && out.Err == nil {
			r.noteAddr(op, out.Val)
		}
	case OpImport:
		ws := r.S.Wallets[op.W]
		out.Done = r.guard(func() {
			// (see Generate: a restore is started on a wallet that follows the node's tip; after a
			// restart late announcements may have taken the wallet back)
			if r.W.H.VerifBest().Hash != *r.N.Tip().Hash() {
				r.W.Notify(r.N.Tip())
				if best := r.W.H.VerifBest(); best.Hash == *r.N.Tip().Hash() {
					r.accepted(r.N.Tip())
					r.Stale = false
				} else {
					r.emit("P %d err", r.S.Gen.CfBlockID(r.N.Tip()))
				}
			}
			sum, err := r.W.WM.ImportWalletWithMnemonic(&keystore.WalletParams{Mnemonic: ws.Mnemonic, PrivatePassphrase: []byte(ws.Pass),
				ExternalIndex: uint32(ws.NAddr), AddressGapLimit: sim.Cur.GapLimit})
			out.Err = err
			if err == nil {
				out.Val = sum.WalletID
			}
		})
		if out.Done && out.Err == nil {
			r.Active[op.W] = true
		}
	case OpRemove:
		ws := r.S.Wallets[op.W]
		out.Done = r.guard(func() { out.Err = r.W.WM.RemoveWallet(ws.ID, ws.Pass) })
		if out.Done && out.Err == nil {
			r.Active[op.W] = false
		}
	case OpAttach:
		out.Done = true
		if r.NodeDone[i] {
			break
		}
		out.Err = r.nodeOp(i)
	case OpDetach:
		out.Done = true
		if r.NodeDone[i] {
			break
		}
		out.Err = r.nodeOp(i)
	case OpAnnounce:
		out.Done = r.guard(func() { r.W.Notify(op.Blk) })
		if out.Done {
			best := r.W.H.VerifBest()
			if best.Hash == *op.Blk.Hash() {
				out.Val = "ok"
				r.accepted(op.Blk)
			} else {
				out.Val = "err"
				out.Err = fmt.Errorf("announcement of block %d not accepted", op.BlkID)
				r.emit("P %d err", op.BlkID)
			}
			r.Stale = best.Hash != *r.N.Tip().Hash()
		}
	case OpQuery:
		out.Done = r.guard(func() { r.Query() })
	case OpWait:
		out.Done = r.guard(func() {
			if !r.W.WaitTasks(r.WaitLimit) {
				out.Err = fmt.Errorf("background tasks did not finish")
			}
		})
	}
	return out
}

func (r *Run) noteAddr(op *Op, got string) {
	r.Issued[op.W] = append(r.Issued[op.W], got)
	if got == op.Addr {
		r.emit("A %d %d", op.Sh, op.W)
	}
}

// nodeOp performs attach/detach i on the node and records it.
func (r *Run) nodeOp(i int) error {
	op := &r.S.Ops[i]
	r.NodeDone[i] = true
	r.Stale = true
	if op.Kind == OpAttach {
		r.Lines = append(r.Lines, op.Defs...)
		if err := r.N.Attach(op.Blk); err != nil {
			return err
		}
		r.Attached[op.BlkID] = true
		r.emit("N attach %d", op.BlkID)
		return nil
	}
	if _, err := r.N.Detach(); err != nil {
		return err
	}
	r.emit("N detach")
	return nil
}

// Query observes every active wallet and records the reports in the history format.
func (r *Run) Query() {
	q := 1
	if r.Stale {
		q = 0
	}
	var lines []string
	for _, num := range r.activeNums() {
		id := r.S.Wallets[num].ID
		if ready, err := r.W.WM.CheckReady(id); err != nil || !ready {
			continue // being imported (or removed): it has no report yet
		}
		o := r.W.Observe(id)
		lines = append(lines, fmt.Sprintf("Q %d %d %s", num, q, r.S.Gen.Report(o)))
	}
	r.Lines = append(r.Lines, lines...)
	r.nq += len(lines)
}

func (r *Run) activeNums() []int {
	var l []int
	for n, a := range r.Active {
		if a {
			l = append(l, n)
		}
	}
	sort.Ints(l)
	return l
}

// ---------------------------------------------------------------- snapshots (implementation vs implementation)

// Snapshot is everything the wallet reports, canonicalised: per active wallet the balances, the
// coins, the per-address balances, the address list (with class and used flag) and the key
// counters of UseWallet; plus the Wallets() list with each wallet's status.
func (r *Run) Snapshot() string {
	var sb strings.Builder
	ws, err := r.W.WM.Wallets()
	if err != nil {
		fmt.Fprintf(&sb, "wallets: error %v\n", err)
	}
	var wl []string
	for _, s := range ws {
		st := "ready"
		if !s.Status.Ready() {
			st = fmt.Sprintf("syncing@%d", s.Status.SyncedHeight)
		}
		if s.Status.IsRemoved() {
			st += "+removed"
		}
		wl = append(wl, s.WalletID+":"+st)
	}
	sort.Strings(wl)
	fmt.Fprintf(&sb, "wallets %s\n", strings.Join(wl, " "))
	// the keystores the in-memory keystore manager holds (a failed CreateWallet / import must not
	// leave one behind: filterTx and getReadyWallets consult this table)
	_, _, _, ksm, _ := r.W.WM.VerifStores()
	names := append([]string{}, ksm.ListKeystoreNames()...)
	sort.Strings(names)
	fmt.Fprintf(&sb, "cached-keystores %s\n", strings.Join(names, " "))
	for _, num := range r.activeNums() {
		id := r.S.Wallets[num].ID
		info, err := r.W.WM.UseWallet(id)
		if err != nil {
			fmt.Fprintf(&sb, "w%d use-error %v\n", num, err)
			continue
		}
		fmt.Fprintf(&sb, "w%d keys ext=%d int=%d total=%d\n", num, info.ExternalKeyCount, info.InternalKeyCount, info.TotalBalance.IntValue())
		o := r.W.Observe(id)
		fmt.Fprintf(&sb, "w%d report %s\n", num, r.S.Gen.Report(o))
		var ab []string
		for a, v := range o.AddrBalance {
			ab = append(ab, fmt.Sprintf("%s=%v", a, v))
		}
		sort.Strings(ab)
		fmt.Fprintf(&sb, "w%d addrbal %s\n", num, strings.Join(ab, " "))
		// durable issuance: the addresses the keystore manages for the wallet
		_, _, _, ks, _ := r.W.WM.VerifStores()
		kl, err := ks.GetAddrs(id)
		if err != nil {
			fmt.Fprintf(&sb, "w%d keystore-addrs error %v\n", num, err)
		} else {
			kl = append([]string{}, kl...)
			sort.Strings(kl)
			fmt.Fprintf(&sb, "w%d keystore-addrs %s\n", num, strings.Join(kl, " "))
		}
		// address-book rows (GetAddresses): SOFT lines (prefix "~"), compared separately. On the
		// code as found they are not a function of the final chain: Rollback deletes the row of an
		// issued address whose first payment is reorganised away, so a run that processed an
		// abandoned fork and one that skipped it (both legitimate) end with different lists.
		for _, cls := range []uint16{0, 1} {
			l, err := r.W.WM.GetAddresses(cls)
			if err != nil {
				fmt.Fprintf(&sb, "~w%d addrs%d error %v\n", num, cls, err)
				continue
			}
			var as []string
			for _, d := range l {
				as = append(as, fmt.Sprintf("%s/%d/%v", d.Address, d.AddressClass, d.Used))
			}
			sort.Strings(as)
			fmt.Fprintf(&sb, "~w%d addrs%d %s\n", num, cls, strings.Join(as, " "))
		}
	}
	return sb.String()
}

// WalletKnown reports whether Wallets() lists the id, and whether it is marked removed.
func (r *Run) WalletKnown(id string) (known, removed bool) {
	ws, _ := r.W.WM.Wallets()
	for _, s := range ws {
		if s.WalletID == id {
			return true, s.Status.IsRemoved()
		}
	}
	return false, false
}

// HasAddress reports whether wallet num lists the address.
func (r *Run) HasAddress(num int, addr string, class uint16) bool {
	if r.useWallet(num) != nil {
		return false
	}
	l, err := r.W.WM.GetAddresses(class)
	if err != nil {
		return false
	}
	for _, d := range l {
		if d.Address == addr {
			return true
		}
	}
	return false
}

// Strict returns the lines of a snapshot that must agree between any two replays of a script;
// Soft the address-book lines (see Snapshot).
func Strict(snap string) string { return pick(snap, false) }
func Soft(snap string) string   { return pick(snap, true) }

func pick(snap string, soft bool) string {
	var out []string
	for _, l := range strings.Split(snap, "\n") {
		if strings.HasPrefix(l, "~") == soft {
			out = append(out, l)
		}
	}
	return strings.Join(out, "\n")
}

// stuck background tasks per faulted call (site/kind), counted per harness process: see the OpWait cases of
// fault.go and plan.go
var (
	stuckMu    sync.Mutex
	stuckSites = map[string]int{}
)

func stuckSeen(k string) int {
	stuckMu.Lock()
	defer stuckMu.Unlock()
	return stuckSites[k]
}

func stuckNote(k string) {
	stuckMu.Lock()
	stuckSites[k]++
	stuckMu.Unlock()
}
