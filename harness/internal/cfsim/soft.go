package cfsim

import (
	"fmt"
	"sort"
	"strings"

	"github.com/massnetorg/mass-core/massutil"
	"github.com/massnetorg/mass-core/txscript"
	"github.com/massnetorg/mass-core/wire"
	"massnet.org/mass-wallet/config"
)

// The address-book rows (GetAddresses) of two replays of one script may differ for ONE known
// reason (KNOWN_FINDINGS: addressbook-row-lost-by-rollback; C12: listing-lost-after-reorged-
// first-payment): TxStore.Rollback deletes the row of an issued address when the block that
// first paid it is reorganised away, so a run that processed an abandoned fork and a run that
// skipped it end with different lists. explainSoft decides, entry by entry, whether a
// difference has exactly that shape:
//   (b) the entry's address is issued (the keystore manages it) and the final best chain pays
//       nothing of the entry's class to it, and
//   (c) a block that is not on the final best chain pays the address and was processed by (at
//       least) one of the two runs — live, by catch-up, or by a restore scanning it.
// Anything else is a genuine divergence.

// payClass: 0 = standard witness output, 1 = staking output, -1 = anything else.
func payInfo(pk []byte) (sh string, class int) {
	cls, pops := txscript.GetScriptInfo(pk)
	switch cls {
	case txscript.WitnessV0ScriptHashTy:
		_, rsh, err := txscript.GetParsedOpcode(pops, cls)
		if err != nil {
			return "", -1
		}
		return string(rsh[:]), 0
	case txscript.StakingScriptHashTy:
		_, rsh, err := txscript.GetParsedOpcode(pops, cls)
		if err != nil {
			return "", -1
		}
		return string(rsh[:]), 1
	case txscript.BindingScriptHashTy:
		holder, _, err := txscript.GetParsedBindingOpcode(pops)
		if err != nil {
			return "", -1
		}
		return string(holder), 2
	}
	return "", -1
}

func blockPays(b *massutil.Block, sh string, class int) bool {
	for _, tx := range b.MsgBlock().Transactions {
		for _, o := range tx.TxOut {
			s, c := payInfo(o.PkScript)
			if s == sh && (class < 0 || c == class) {
				return true
			}
		}
	}
	return false
}

// markSeen records that the wallet's synced chain has been b and its ancestors.
func (r *Run) markSeen(b *massutil.Block) {
	for b != nil && !r.Seen[*b.Hash()] {
		r.Seen[*b.Hash()] = true
		b = r.S.byHash()[b.MsgBlock().Header.Previous]
	}
}

func (s *Script) byHash() map[wire.Hash]*massutil.Block {
	if s.blocks == nil {
		s.blocks = map[wire.Hash]*massutil.Block{}
		for i := range s.Ops {
			if s.Ops[i].Kind == OpAttach {
				s.blocks[*s.Ops[i].Blk.Hash()] = s.Ops[i].Blk
			}
		}
	}
	return s.blocks
}

type softEntry struct {
	wallet string // "w3"
	class  int
	addr   string
}

func softEntries(soft string) map[softEntry]string {
	m := map[softEntry]string{}
	for _, l := range strings.Split(soft, "\n") {
		f := strings.Fields(l)
		if len(f) < 2 || !strings.HasPrefix(f[1], "addrs") {
			continue
		}
		for _, e := range f[2:] {
			p := strings.Split(e, "/")
			if len(p) != 3 {
				continue
			}
			c := 0
			if p[1] == "1" {
				c = 1
			}
			m[softEntry{strings.TrimPrefix(f[0], "~"), c, p[0]}] = p[2]
		}
	}
	return m
}

// explainSoft returns "" when every difference between the two address books has the known
// shape, else a description of the first one that has not.
func explainSoft(s *Script, final []*massutil.Block, strict string, softA, softB string, seenA, seenB map[wire.Hash]bool) string {
	a, b := softEntries(softA), softEntries(softB)
	keys := map[softEntry]bool{}
	for k := range a {
		keys[k] = true
	}
	for k := range b {
		keys[k] = true
	}
	var diff []softEntry
	for k := range keys {
		if a[k] != b[k] {
			diff = append(diff, k)
		}
	}
	sort.Slice(diff, func(i, j int) bool { return fmt.Sprint(diff[i]) < fmt.Sprint(diff[j]) })
	onFinal := map[wire.Hash]bool{}
	for _, blk := range final {
		onFinal[*blk.Hash()] = true
	}
	for _, e := range diff {
		addr, err := massutil.DecodeAddress(e.addr, config.ChainParams)
		if err != nil {
			return fmt.Sprintf("%v: undecodable address", e)
		}
		sh := string(addr.ScriptAddress())
		std, err := massutil.NewAddressWitnessScriptHash(addr.ScriptAddress(), config.ChainParams)
		if err != nil {
			return fmt.Sprintf("%v: %v", e, err)
		}
		// (b) issued: the keystore of that wallet manages the address
		issued := false
		for _, l := range strings.Split(strict, "\n") {
			f := strings.Fields(l)
			if len(f) >= 2 && f[0] == e.wallet && f[1] == "keystore-addrs" {
				for _, x := range f[2:] {
					if x == std.EncodeAddress() {
						issued = true
					}
				}
			}
		}
		if !issued {
			return fmt.Sprintf("%v differs (%q vs %q) and is not an issued address of the wallet", e, a[e], b[e])
		}
		for _, blk := range final {
			if blockPays(blk, sh, e.class) {
				return fmt.Sprintf("%v differs (%q vs %q) although the final best chain pays it (block at height %d)", e, a[e], b[e], blk.Height())
			}
		}
		// (c) an abandoned block paying it, processed by exactly one run
		found := false
		for h, blk := range s.byHash() {
			if !onFinal[h] && (seenA[h] || seenB[h]) && blockPays(blk, sh, -1) {
				found = true
			}
		}
		if !found {
			return fmt.Sprintf("%v differs (%q vs %q) and no abandoned block paying it was processed by either run", e, a[e], b[e])
		}
	}
	return ""
}
