package cfsim

import (
	"sync"

	"github.com/sirupsen/logrus"
	"verifharness/internal/dbwrap"
)

// The wallet logs some failures at FATAL level (keystore.UpdateManagedKeystores when the reload of a
// keystore fails), and logrus then exits the process.  While a fault run is watching, the exit is
// turned into what it means for the wallet under test: the process stops right there (the database
// handle is closed, the logging goroutine and every goroutine that enters the database wrapper
// freeze, all volatile state is lost) — and the harness process lives on to report it.
var (
	fatalMu   sync.Mutex
	fatalCtl  *dbwrap.Ctl
	fatalOnce sync.Once
)

func watchFatal(ctl *dbwrap.Ctl) {
	fatalOnce.Do(func() {
		logrus.RegisterExitHandler(func() {
			fatalMu.Lock()
			ctl := fatalCtl
			fatalMu.Unlock()
			if ctl == nil {
				return
			}
			ctl.Kill()
			select {}
		})
	})
	fatalMu.Lock()
	fatalCtl = ctl
	fatalMu.Unlock()
}
