package cfsim

import (
	"fmt"
	"os"
	"strings"

	"github.com/massnetorg/mass-core/massutil"
	"github.com/massnetorg/mass-core/wire"
	mwdb "massnet.org/mass-wallet/masswallet/db"
	"verifharness/internal/dbwrap"
)

// Twin is the undisturbed replay of a script: the reference every crashed / faulted replay is
// compared with.
type Twin struct {
	Final     string   // final snapshot
	Lines     []string // history as executed (with the implementation's reports)
	Commits   int      // write commits of the whole run (crash points are 1..Commits)
	CommitsAt []int    // commits after operation i
	Calls     []int    // numbered database calls made while operation i ran
	Kinds     [][]dbwrap.Kind
	Info      [][]dbwrap.CallInfo // kind, calling functions and key of every numbered call of operation i (RunTwinInfo)
	// the whole database at the end (RunTwinInfo; see store.go), and what of it is not comparable
	Store           map[string]string
	VolatileKeys    map[string]bool
	VolatileBuckets map[string]bool
	OpErr     []bool // operation i reported an error in the undisturbed run
	Snap      []string // snapshot after operation i (only when wanted)
	Seen      map[wire.Hash]bool // blocks that have been on the wallet's synced chain
}

// Violation is a divergence from the twin.
type Violation struct {
	Key  string
	What string
}

// RunTwin replays the script undisturbed, counting commits and database calls per operation.
func RunTwin(s *Script, trace, snaps bool) (*Twin, error) { return runTwin(s, trace, snaps, false) }

// RunTwinInfo is RunTwin(s, true, true) that also records, for every numbered call of every
// operation, the wallet functions that made it and its key (Twin.Info).
func RunTwinInfo(s *Script) (*Twin, error) {
	t, err := runTwin(s, true, true, true)
	if err != nil {
		return nil, err
	}
	// a second undisturbed replay tells which database contents are not a function of the script
	t2, err := runTwin(s, false, false, true)
	if err != nil {
		return nil, err
	}
	if t.Store != nil && t2.Store != nil {
		t.VolatileKeys, t.VolatileBuckets = volatileKeys(t.Store, t2.Store)
	} else {
		t.Store = nil
	}
	return t, nil
}

func runTwin(s *Script, trace, snaps, info bool) (*Twin, error) {
	r, err := NewRun(s)
	if err != nil {
		return nil, err
	}
	defer r.Close()
	ctl := dbwrap.New()
	if ok, _, err := r.Open(ctl); err != nil || !ok {
		return nil, fmt.Errorf("twin: open: %v", err)
	}
	t := &Twin{}
	for i := range s.Ops {
		if info {
			ctl.ArmSet(nil, true)
		} else {
			ctl.Arm(0, 0, trace)
		}
		out := r.Exec(i)
		n := ctl.Disarm()
		if !out.Done {
			return nil, fmt.Errorf("twin: operation %d did not complete", i)
		}
		if info {
			ci := ctl.CallInfos()
			if len(ci) > n {
				ci = ci[:n]
			}
			t.Info = append(t.Info, ci)
			ks := make([]dbwrap.Kind, len(ci))
			for x := range ci {
				ks[x] = ci[x].Kind
			}
			ctl.Trace = ks
		}
		op := &s.Ops[i]
		switch op.Kind {
		case OpCreate, OpImport:
			if out.Err != nil || out.Val != op.WalletID {
				return nil, fmt.Errorf("twin: %v %d: got %q err %v, script has %q (replay is not deterministic)", op.Kind, i, out.Val, out.Err, op.WalletID)
			}
		case OpNewAddr:
			if out.Err != nil || out.Val != op.Addr {
				return nil, fmt.Errorf("twin: newaddr %d: got %q err %v, script has %q (replay is not deterministic)", i, out.Val, out.Err, op.Addr)
			}
		case OpRemove, OpAttach, OpDetach, OpWait:
			if out.Err != nil {
				return nil, fmt.Errorf("twin: %v %d: %v", op.Kind, i, out.Err)
			}
		}
		t.OpErr = append(t.OpErr, out.Err != nil)
		t.CommitsAt = append(t.CommitsAt, ctl.NCommits())
		t.Calls = append(t.Calls, n)
		if trace {
			t.Kinds = append(t.Kinds, append([]dbwrap.Kind{}, ctl.Trace...))
		}
		if snaps {
			sn := ""
			// (not right after import/remove: the worker is already busy, the status is in motion)
			if op.Kind == OpCreate || op.Kind == OpNewAddr || op.Kind == OpAnnounce || op.Kind == OpWait {
				sn = r.Snapshot()
			}
			t.Snap = append(t.Snap, sn)
		}
	}
	t.Commits = ctl.NCommits()
	if info {
		t.Store, _ = r.StoreDump()
	}
	t.Final = r.Snapshot()
	t.Seen = r.Seen
	t.Lines = append(r.Lines, "E")
	return t, nil
}

// CrashAt says where a crash happened.
type CrashAt struct {
	K        int    // commit number (of this incarnation of the wallet) after which it crashed
	Op       int    // operation in flight (-1: between operations / while starting)
	Context  string // what was going on
	MovedOn  int    // node operations performed while the wallet was down
	CaughtUp int    // blocks the restart had to catch up with
}

type CrashResult struct {
	Crashes []CrashAt
	Final   string
	Lines   []string
	Viol    *Violation
	Traces  []Violation // findings after which the run went on (the harness healed the state)
}

func (r *Run) storedTip() (uint64, wire.Hash, error) {
	_, _, ss, _, db := r.W.WM.VerifStores()
	var h uint64
	var hash wire.Hash
	err := mwdb.View(db, func(tx mwdb.ReadTransaction) error {
		bm, err := ss.SyncedTo(tx)
		if err != nil {
			return err
		}
		h, hash = bm.Height, bm.Hash
		return nil
	})
	return h, hash, err
}

// context names what was going on when the crash point was reached.
func (r *Run) context(i int, inflight bool) string {
	if i >= len(r.S.Ops) {
		return "end"
	}
	if !inflight {
		return "between"
	}
	op := &r.S.Ops[i]
	if op.Kind == OpWait {
		// what the worker was doing
		for j := i - 1; j >= 0; j-- {
			if k := r.S.Ops[j].Kind; k == OpImport || k == OpRemove {
				return "background-" + k.String()
			}
		}
	}
	return op.Kind.String()
}

// RunCrash replays the script; the wallet crashes right after its ks[0]-th commit, is restarted
// on the same directory (after the node has performed up to moveOn further chain operations of
// the script), crashes again after ks[1] further commits, and so on. A crash point beyond the
// commits of the run simply does not happen.
// dropLost: announcements of blocks the node connected before a restart are lost with the process
// (the restarted wallet learns of them by catching up); otherwise the script delivers them late.
func RunCrash(s *Script, ks []int, moveOn int, dropLost bool, twin *Twin) (*CrashResult, error) {
	r, err := NewRun(s)
	if err != nil {
		return nil, err
	}
	defer r.Close()
	res := &CrashResult{}
	fail := func(key, f string, a ...interface{}) (*CrashResult, error) {
		res.Viol = &Violation{Key: key, What: fmt.Sprintf(f, a...)}
		res.Lines = r.Lines
		return res, nil
	}
	seg := 0
	newCtl := func() *dbwrap.Ctl {
		c := dbwrap.New()
		if seg < len(ks) {
			c.CrashAfter = ks[seg]
		}
		seg++
		return c
	}
	ctl := newCtl()
	i := 0
	inflight := false
	ok, _, err := r.Open(ctl)
	if err != nil {
		return nil, fmt.Errorf("first open: %v", err)
	}
	crashed := !ok
	skip := make([]bool, len(s.Ops))
	mark := -1 // position in the record where the current outage began
	ctxOverride := ""
	if !ok {
		ctxOverride = "open"
	}
	for {
		if !crashed {
			for i < len(s.Ops) {
				if skip[i] {
					i++
					continue
				}
				out := r.Exec(i)
				if !out.Done {
					crashed, inflight = true, true
					break
				}
				op := &s.Ops[i]
				// (an announcement may legitimately be refused here although the twin accepted it: the
				// node may have moved past that block while the wallet was down; the model check
				// compares accept/reject of every announcement with the model's)
				if out.Err != nil && !twin.OpErr[i] && op.Kind != OpAnnounce {
					return fail("operation-fails-after-restart:"+op.Kind.String(), "operation %d (%v) failed after %d restart(s): %v; it succeeded in the run that never stopped",
						i, op.Kind, r.Restarts, out.Err)
				}
				if op.Kind == OpNewAddr && out.Val != op.Addr {
					var ctxs []string
					for _, c := range res.Crashes {
						ctxs = append(ctxs, c.Context)
					}
					return fail("address-differs-after-restart:"+strings.Join(ctxs, ","), "operation %d: NewAddress of wallet %d returned %s after %d restart(s), the run that never stopped got %s (skipped or duplicated index)",
						i, op.W, out.Val, r.Restarts, op.Addr)
				}
				if (op.Kind == OpCreate || op.Kind == OpImport) && out.Val != op.WalletID {
					return fail("wallet-differs-after-restart", "operation %d: %v returned wallet %s, expected %s", i, op.Kind, out.Val, op.WalletID)
				}
				i++
				if ctl.Crashed() {
					crashed, inflight = true, false
					break
				}
			}
			if !crashed {
				break
			}
		}
		// ---- the wallet process is gone
		at := CrashAt{K: ctl.CrashAfter, Op: -1, Context: r.context(i, inflight)}
		if ctxOverride != "" {
			at.Context = ctxOverride
			ctxOverride = ""
		}
		if inflight {
			at.Op = i
		}
		// the node moves on while the wallet is down (only chain operations that precede the next
		// wallet-changing API call of the script, so that the script's order of API calls is kept)
		if mark < 0 {
			mark = len(r.Lines) // (kept across restarts that crash again before the record is resynchronised)
		}
		j := i
		if inflight {
			j = i + 1
		}
		for m := moveOn; j < len(s.Ops) && m > 0; j++ {
			k := s.Ops[j].Kind
			if k.Mutating() {
				break
			}
			if (k == OpAttach || k == OpDetach) && !r.NodeDone[j] {
				if err := r.nodeOp(j); err != nil {
					return nil, fmt.Errorf("node operation %d while down: %v", j, err)
				}
				m--
				at.MovedOn++
			}
		}
		// ---- restart on the same data directory
		ctl = newCtl()
		okOpen, syncedBefore, err := r.Open(ctl)
		if err != nil {
			res.Crashes = append(res.Crashes, at)
			return fail("restart-fails:"+at.Context, "after a crash right after commit %d (%s) the wallet does not come up again: %v", at.K, at.Context, err)
		}
		r.Restarts++
		if !okOpen {
			// crashed again while opening / catching up; an operation in flight stays in flight
			res.Crashes = append(res.Crashes, at)
			crashed, ctxOverride = true, "restart"
			continue
		}
		crashed = false
		// lines that belong BEFORE the node moved on: an announcement whose commit happened in the
		// crashed incarnation but whose acceptance the harness could not record any more (the
		// announcement in flight, the delivery of the tip after a stale restart): the stored tip
		// found at reopening says so ...
		var pre []string
		var resync *massutil.Block
		if r.TipBefore != r.RecTip {
			if blk := s.byHash()[r.TipBefore]; blk != nil {
				pre = append(pre, fmt.Sprintf("P %d ok", s.Gen.CfBlockID(blk)))
				resync = blk
			}
		}
		// ... and the operation in flight, if its effect is there (then it is not re-issued).
		// Everything that touches the wallet is guarded: the next crash point may be reached by
		// the background worker at any moment.
		advance := false
		if !r.guard(func() {
			if inflight {
				op := &s.Ops[i]
				ws := s.Wallets[op.W]
				switch op.Kind {
				case OpCreate, OpImport:
					if known, _ := r.WalletKnown(ws.ID); known {
						advance = true
					}
				case OpNewAddr:
					if r.HasAddress(op.W, op.Addr, op.Class) {
						advance = true
					}
				case OpRemove:
					if known, removed := r.WalletKnown(ws.ID); !known || removed {
						advance = true
					}
				}
			}
		}) {
			res.Crashes = append(res.Crashes, at)
			crashed, ctxOverride = true, "after-restart"
			continue
		}
		if inflight && advance {
			op := &s.Ops[i]
			switch op.Kind {
			case OpCreate, OpImport:
				r.Active[op.W] = true
			case OpNewAddr:
				r.Issued[op.W] = append(r.Issued[op.W], op.Addr)
				// (the address was committed before anything the restart did)
				pre = append([]string{fmt.Sprintf("A %d %d", op.Sh, op.W)}, pre...)
			case OpRemove:
				r.Active[op.W] = false
			}
			i++
		}
		inflight = false
		if resync != nil {
			r.RecTip = *resync.Hash()
			r.markSeen(resync)
		}
		if len(pre) > 0 {
			// (a block connected by an interrupted catch-up was attached after the outage began:
			//  its line goes after its own "N attach")
			for _, l := range pre {
				at := mark
				var id int
				if n, _ := fmt.Sscanf(l, "P %d ok", &id); n == 1 {
					want := fmt.Sprintf("N attach %d", id)
					for x := len(r.Lines) - 1; x >= at; x-- {
						if r.Lines[x] == want {
							at = x + 1
							break
						}
					}
				}
				r.Lines = append(r.Lines[:at:at], append([]string{l}, r.Lines[at:]...)...)
				if at == mark {
					mark++
				}
			}
		}
		mark = -1
		if dropLost {
			for j := i; j < len(s.Ops); j++ {
				if s.Ops[j].Kind == OpAnnounce && r.Attached[s.Ops[j].BlkID] {
					skip[j] = true
				}
			}
		}
		// catch-up performed by Start (possibly over several attempts): the node's blocks above
		// the stored tip, in order
		from := syncedBefore
		best := r.W.H.VerifBest()
		for h := from + 1; h <= r.N.Height(); h++ {
			v := "ok"
			if best.Height < h {
				v = "err"
			}
			r.emit("P %d %s", s.Gen.CfBlockID(r.N.Best[h]), v)
			if v == "ok" {
				r.RecTip = *r.N.Best[h].Hash()
			}
			at.CaughtUp++
		}
		r.Stale = best.Hash != *r.N.Tip().Hash()
		if blk := s.byHash()[best.Hash]; blk != nil {
			if best.Hash != r.RecTip {
				// Start (as repaired) found the stored tip replaced at the same or a lower height
				// and sent the node's best block through processConnectedBlock
				r.emit("P %d ok", s.Gen.CfBlockID(blk))
				r.RecTip = best.Hash
			}
			// (every block Start connected on the way is an ancestor of the tip it reached)
			r.markSeen(blk)
		}
		res.Crashes = append(res.Crashes, at)
		// Start only catches up by HEIGHT (syncedTo+1 .. node height). If the node replaced the
		// wallet's tip by a block of the same (or a lower) height while the wallet was down or
		// before the lost announcement was processed, the restarted wallet stays on the abandoned
		// block — and keeps reporting its coins, and a resumed restore answers "importing
		// continuable" for ever — until the NEXT block is connected. Recorded as a finding; the
		// harness then delivers the tip's announcement (what the next block would do) and goes on.
		if r.Stale && best.Height >= r.N.Height() {
			res.Traces = append(res.Traces, Violation{Key: "restart-stays-on-abandoned-tip",
				What: fmt.Sprintf("crash right after commit %d (%s); the node's best block at height %d is now block %d, the wallet's stored tip is the abandoned block %d at height %d: Start catches up by height only (%d..%d = nothing), the wallet stays on the abandoned block until another block is connected",
					at.K, at.Context, r.N.Height(), s.Gen.CfBlockID(r.N.Tip()), blockIDByHash(s, best.Hash), best.Height, best.Height+1, r.N.Height())})
			healed := false
			if !r.guard(func() {
				r.W.Notify(r.N.Tip())
				healed = r.W.H.VerifBest().Hash == *r.N.Tip().Hash()
			}) {
				crashed, ctxOverride = true, "after-restart"
				continue
			}
			if healed {
				r.accepted(r.N.Tip())
				r.Stale = false
			} else {
				r.emit("P %d err", s.Gen.CfBlockID(r.N.Tip()))
			}
		}
		if !r.guard(func() { r.Query() }) {
			crashed, ctxOverride = true, "after-restart"
			continue
		}
	}
	if !r.guard(func() { res.Final = r.Snapshot() }) {
		return nil, fmt.Errorf("crash point reached while taking the final snapshot (background work after the final wait)")
	}
	res.Lines = append(r.Lines, "E")
	if Strict(res.Final) != Strict(twin.Final) && len(res.Crashes) == 0 {
		f, x, y := firstDiff(Strict(twin.Final), Strict(res.Final))
		return nil, fmt.Errorf("replay without any crash differs from the twin (harness not deterministic): %s | %s | %s", f, x, y)
	}
	if res.Final != twin.Final && len(res.Crashes) > 0 {
		ctxs := []string{}
		for _, c := range res.Crashes {
			ctxs = append(ctxs, c.Context)
		}
		if os.Getenv("VERIF_CF_DEBUG") != "" {
			fmt.Fprintf(os.Stderr, "TWIN\n%s\nCRASHED\n%s\n", twin.Final, res.Final)
		}
		if Strict(res.Final) != Strict(twin.Final) {
			field, a, b := firstDiff(Strict(twin.Final), Strict(res.Final))
			res.Viol = &Violation{Key: "crash-" + strings.Join(ctxs, "+") + ":" + field,
				What: fmt.Sprintf("after crash(es) %v and restart the wallet reports [%s]; the run that never stopped reports [%s]", res.Crashes, b, a)}
		} else {
			_, a, b := firstDiff(Soft(twin.Final), Soft(res.Final))
			why := explainSoft(s, r.N.Best, Strict(res.Final), Soft(twin.Final), Soft(res.Final), twin.Seen, r.Seen)
			if why == "" {
				res.Viol = &Violation{Key: "addressbook-row-lost-by-rollback",
					What: fmt.Sprintf("ledgers, balances and keystores agree; the address lists differ only in issued addresses that the final chain does not pay and that an abandoned fork, processed by one of the two runs only, paid: after crash(es) %v and restart [%s]; the run that never stopped [%s]", res.Crashes, b, a)}
			} else {
				res.Viol = &Violation{Key: "crash-" + strings.Join(ctxs, "+") + ":addressbook",
					What: fmt.Sprintf("after crash(es) %v and restart the address lists differ and not in the known way (%s): [%s]; the run that never stopped [%s]", res.Crashes, why, b, a)}
			}
		}
	}
	return res, nil
}

// firstDiff returns the kind of the first differing snapshot line and both versions.
func firstDiff(a, b string) (field, la, lb string) {
	al, bl := strings.Split(a, "\n"), strings.Split(b, "\n")
	for i := 0; i < len(al) || i < len(bl); i++ {
		x, y := "", ""
		if i < len(al) {
			x = al[i]
		}
		if i < len(bl) {
			y = bl[i]
		}
		if x != y {
			f := strings.Fields(x + " " + y)
			field = "?"
			if len(f) > 1 {
				field = f[1]
				if f[0] == "wallets" || f[0] == "cached-keystores" {
					field = f[0]
				}
			}
			return field, x, y
		}
	}
	return "", "", ""
}

func blockIDByHash(s *Script, h wire.Hash) int {
	if b := s.byHash()[h]; b != nil {
		return s.Gen.CfBlockID(b)
	}
	return -1
}
