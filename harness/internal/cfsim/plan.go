package cfsim

import (
	"fmt"
	"os"
	"runtime"
	"sort"
	"strconv"
	"strings"
	"time"

	mwdb "massnet.org/mass-wallet/masswallet/db"
	"verifharness/internal/dbwrap"
)

// FaultSpec is the fault of one operation of a plan: database call number J of the operation fails;
// D > 0: and the D-th numbered call after it fails as well (numbered in the faulted run itself, so
// the second fault strikes whatever the code does after the first one: the repair of its in-memory
// state, the reload of a keystore, the retry of a background step).  D = 1 is two adjacent calls.
type FaultSpec struct{ J, D int }

func (f FaultSpec) String() string {
	if f.D > 0 {
		return fmt.Sprintf("%d+%d", f.J, f.D)
	}
	return strconv.Itoa(f.J)
}

// Plan maps operation indexes of a script to their faults; operations without an entry run undisturbed.
type Plan map[int]FaultSpec

// String renders a plan as "v<op>.<j>[+<d>]_<op>.<j>..." (the form ParsePlan reads).
func (p Plan) String() string {
	var ops []int
	for i := range p {
		ops = append(ops, i)
	}
	sort.Ints(ops)
	var sb strings.Builder
	sb.WriteByte('v')
	for n, i := range ops {
		if n > 0 {
			sb.WriteByte('_')
		}
		fmt.Fprintf(&sb, "%d.%s", i, p[i])
	}
	return sb.String()
}

// ParsePlan reads what Plan.String writes.
func ParsePlan(name string) (Plan, error) {
	if !strings.HasPrefix(name, "v") {
		return nil, fmt.Errorf("not an explicit plan: %q", name)
	}
	p := Plan{}
	for _, f := range strings.Split(name[1:], "_") {
		if f == "" {
			continue
		}
		dot := strings.Index(f, ".")
		if dot < 0 {
			return nil, fmt.Errorf("plan element %q", f)
		}
		op, err := strconv.Atoi(f[:dot])
		if err != nil {
			return nil, err
		}
		jd := strings.SplitN(f[dot+1:], "+", 2)
		var sp FaultSpec
		if sp.J, err = strconv.Atoi(jd[0]); err != nil {
			return nil, err
		}
		if len(jd) == 2 {
			if sp.D, err = strconv.Atoi(jd[1]); err != nil {
				return nil, err
			}
		}
		p[op] = sp
	}
	return p, nil
}

// UniformPlan is the plan "j<k>+<d>": the same two faults in every operation that makes at least k calls.
func UniformPlan(s *Script, twin *Twin, k, d int) Plan {
	p := Plan{}
	for i := range s.Ops {
		if Faultable(s.Ops[i].Kind) && twin.Calls[i] >= k {
			p[i] = FaultSpec{k, d}
		}
	}
	return p
}

// Faultable: the operations a storage fault is injected into.
func Faultable(k OpKind) bool { return k.Mutating() || k == OpAnnounce || k == OpWait }

// OpLabel names the kind of operation i for fault targets: the background work an OpWait waits for
// is named after the request that started it.
func (s *Script) OpLabel(i int) string {
	op := &s.Ops[i]
	if op.Kind != OpWait {
		return op.Kind.String()
	}
	for b := i - 1; b >= 0; b-- {
		switch s.Ops[b].Kind {
		case OpImport:
			return "wait-import"
		case OpRemove:
			return "wait-remove"
		case OpWait:
			return "wait"
		}
	}
	return "wait"
}

// Targets names the calls of one operation as fault targets: operation kind, kind of call, calling
// functions, key, and the ordinal of the call among the calls of the operation with the same
// description (1, 2, 3 = third or later).
func Targets(label string, calls []dbwrap.CallInfo) []string {
	seen := map[string]int{}
	out := make([]string, len(calls))
	for i, c := range calls {
		d := c.String()
		seen[d]++
		n := seen[d]
		if n > 3 {
			n = 3
		}
		out[i] = fmt.Sprintf("%s|%s|#%d", label, d, n)
	}
	return out
}

func (e FaultEvent) String() string {
	s := fmt.Sprintf("{op %d %v call %d", e.Op, e.OpKind, e.J)
	if e.D > 0 {
		s += fmt.Sprintf("+%d", e.D)
	}
	if len(e.Hits) > 0 {
		var hs []string
		for _, h := range e.Hits {
			hs = append(hs, h.String())
		}
		s += " " + strings.Join(hs, " & ")
	} else {
		s += fmt.Sprintf(" %v by %s", e.CallKind, e.Site)
	}
	if e.Outcome != "" {
		s += " -> " + e.Outcome
	}
	return s + "}"
}

// keystoreCached reports whether the in-memory keystore table holds the wallet.
func (r *Run) keystoreCached(id string) bool {
	_, _, _, ksm, _ := r.W.WM.VerifStores()
	for _, n := range ksm.ListKeystoreNames() {
		if n == id {
			return true
		}
	}
	return false
}

// healKeystore does what a restart does for a keystore that is in the store but not in the
// in-memory table: load it.
func (r *Run) healKeystore(id string) {
	_, _, _, ksm, db := r.W.WM.VerifStores()
	mwdb.View(db, func(rtx mwdb.ReadTransaction) error {
		ksm.UpdateManagedKeystores(rtx, id)
		return nil
	})
}

// RunFaultPlan replays the script with the faults of the plan (single faults and pairs of
// non-adjacent faults inside one operation), applying RunFault's verdicts to every faulted
// operation: it reports the failure or recovers; after a reported failure nothing observable has
// changed; repeated with working storage it succeeds with the twin's result; the state then
// equals the twin's; the final states are equal.  In addition the results of the operations that
// run WITHOUT a fault (after earlier faulted ones) are compared with the twin's: a later
// NewAddress must hand out the twin's address.
// Every event records the description of the calls that failed (Hits) and of the calls the
// operation made after its first failing call (After: the repair / reload / retry path).
func RunFaultPlan(s *Script, plan Plan, twin *Twin) (*FaultResult, error) {
	return runFaultPlan(s, plan, twin, os.Getenv("VERIF_CF_TRACK") != "")
}

// RunFaultPlanTracked is RunFaultPlan that compares the state with the twin's after EVERY operation
// (also the undisturbed ones): it names the operation after which a run starts to differ.  Used to
// attribute a divergence that RunFaultPlan noticed only later (at the next faulted operation, or
// at the end), on plans reduced to one faulted operation.
func RunFaultPlanTracked(s *Script, plan Plan, twin *Twin) (*FaultResult, error) {
	return runFaultPlan(s, plan, twin, true)
}

func runFaultPlan(s *Script, plan Plan, twin *Twin, track bool) (*FaultResult, error) {
	r, err := NewRun(s)
	if err != nil {
		return nil, err
	}
	defer r.Close()
	res := &FaultResult{}
	ctl := dbwrap.New()
	if ok, _, err := r.Open(ctl); err != nil || !ok {
		return nil, fmt.Errorf("fault run: open: %v", err)
	}
	fail := func(key, f string, a ...interface{}) (*FaultResult, error) {
		res.Viol = &Violation{Key: key, What: fmt.Sprintf(f, a...)}
		res.Lines = r.Lines
		return res, nil
	}
	watchFatal(ctl)
	defer watchFatal(nil)
	debug := os.Getenv("VERIF_CF_DEBUG") != ""
	cache := ""
	lastOn := map[int]string{} // wallet number -> tag of the last faulted operation on it
	lastAny := ""
	for i := range s.Ops {
		op := &s.Ops[i]
		sp, planned := plan[i]
		if !Faultable(op.Kind) || !planned || sp.J < 1 {
			out := r.Exec(i)
			if out.Err != nil && !twin.OpErr[i] {
				return fail("operation-fails-later:"+op.Kind.String(), "operation %d (%v) failed although no fault was active any more: %v (earlier faults: %v)", i, op.Kind, out.Err, res.Events)
			}
			earlier := lastOn[op.W]
			if earlier == "" {
				earlier = lastAny
			}
			switch op.Kind {
			case OpNewAddr:
				if out.Val != op.Addr && len(res.Events) > 0 {
					return fail("address-index-differs-after-fault:"+earlier+":later-call", "operation %d: NewAddress of wallet %d, run without a fault after earlier faulted operations, returned %s, the fault-free run got %s (skipped or duplicated address index); earlier faults: %v",
						i, op.W, out.Val, op.Addr, res.Events)
				}
			case OpCreate, OpImport:
				if out.Val != op.WalletID && len(res.Events) > 0 {
					return fail("wallet-differs-after-fault:"+earlier+":later-call", "operation %d: %v returned wallet %s, the fault-free run %s; earlier faults: %v", i, op.Kind, out.Val, op.WalletID, res.Events)
				}
			}
			if Faultable(op.Kind) {
				cache = ""
			}
			if track && len(res.Events) > 0 && len(twin.Snap) > i && twin.Snap[i] != "" {
				// VERIF_CF_TRACK=1 (debugging aid): where does a run start to differ from its twin?
				if now := r.Snapshot(); now != twin.Snap[i] {
					field, a, b := firstDiff(twin.Snap[i], now)
					last := res.Events[len(res.Events)-1]
					what := last.CallKind.String() + "@" + last.Site
					if len(last.Hits) > 0 {
						what = last.Hits[0].Kind.String() + "@" + last.Hits[0].Site
					}
					return fail("state-differs-later:"+op.Kind.String()+":"+field+":after-"+s.OpLabel(last.Op)+"/"+what,
						"operation %d (%v), run without a fault after the faults %v: afterwards the wallet reports [%s], the fault-free run [%s]", i, op.Kind, res.Events, b, a)
				}
			}
			continue
		}
		pre := cache
		if pre == "" {
			pre = r.Snapshot()
		}
		cache = ""
		j := sp.J
		set := []int{j}
		if sp.D > 0 {
			set = append(set, j+sp.D)
		}
		wasCached := op.Kind == OpNewAddr && r.keystoreCached(s.Wallets[op.W].ID)
		ctl.ArmSet(set, true)
		out := r.Exec(i)
		ctl.Disarm()
		inj := ctl.NInjected()
		at := ctl.InjectedCalls()
		infos := ctl.CallInfos()
		ev := FaultEvent{Op: i, OpKind: op.Kind, CallKind: ctl.FirstKind, Site: ctl.FirstSite, Injected: inj, J: j, D: sp.D}
		for _, n := range at {
			if n >= 1 && n <= len(infos) {
				ev.Hits = append(ev.Hits, infos[n-1])
			}
		}
		if len(at) > 0 && at[0] <= len(infos) {
			ev.After = infos[at[0]:]
			ev.Before = at[0] - 1
			ev.All = infos
		}
		if !out.Done {
			// the wallet logged at FATAL level: the process exits in the middle of the operation
			ev.Outcome = "process-exit"
			res.Events = append(res.Events, ev)
			where := "?"
			if len(ev.Hits) > 0 {
				where = ev.Hits[len(ev.Hits)-1].Site
			}
			if strings.Contains(where, "loadAddrManager") || strings.Contains(where, "updateManagedKeystore") {
				where = "keystore-reload" // (UpdateManagedKeystores logs FATAL whichever read of the reload fails)
			}
			return fail(fmt.Sprintf("process-exits-after-%d-faults:%s:%s", inj, s.OpLabel(i), where),
				"operation %d (%s, wallet %d) with the storage faults %s: the wallet logs at FATAL level and the process exits in the middle of the operation (it neither reports the failure nor retries)",
				i, s.OpLabel(i), op.W, ev.String())
		}
		if inj == 0 {
			if out.Err != nil && !twin.OpErr[i] {
				return fail("operation-fails-later:"+op.Kind.String(), "operation %d (%v) failed without a fault: %v (earlier faults: %v)", i, op.Kind, out.Err, res.Events)
			}
			continue
		}
		tag := op.Kind.String() + "/" + ev.CallKind.String()
		hits := ev.String()
		switch {
		case op.Kind == OpWait:
			ev.Outcome = "background"
			if out.Err != nil {
				r.WaitLimit = 4 * time.Second
			}
			stuckKey := ev.Site + "/" + ev.CallKind.String()
			if stuckSeen(stuckKey) >= 2 && r.WaitLimit > 8*time.Second {
				// a background task stuck after a fault at this very call has been waited for in full twice already
				// (and reported): later plans striking the same call get a shorter patience, so that a tree on which
				// a task never recovers is reported in minutes, not half an hour (seed C18f)
				r.WaitLimit = 8 * time.Second
			}
			w := r.Exec(i)
			r.WaitLimit = 30 * time.Second
			if w.Err != nil {
				stuckNote(stuckKey)
				if debug {
					buf := make([]byte, 1<<20)
					fmt.Fprintf(os.Stderr, "STUCK\n%s\n", buf[:runtime.Stack(buf, true)])
				}
				task := strings.TrimPrefix(s.OpLabel(i), "wait-")
				return fail("background-"+task+"-stuck-after-fault:"+ev.Site+"/"+ev.CallKind.String(),
					"operation %d: after %d storage fault(s) in the background %s %s the wallet never settles: %v; Wallets() says: %s",
					i, inj, task, hits, w.Err, r.walletsLine())
			}
		case out.Err == nil:
			ev.Outcome = "recovered"
		case twin.OpErr[i]:
			ev.Outcome = "refused-anyway"
			if post := r.Snapshot(); post != pre {
				field, a, b := firstDiff(pre, post)
				res.Traces = append(res.Traces, Violation{Key: traceKey(op.Kind, ev.CallKind, field),
					What: fmt.Sprintf("operation %d (%v) failed %s, the wallet changed: before [%s] after [%s]", i, op.Kind, hits, a, b)})
			}
		default:
			ev.Outcome = "failed"
			if inj >= 2 && wasCached && !r.keystoreCached(s.Wallets[op.W].ID) {
				// NewAddress failed and the reload that repairs the cached keystore failed as well: the
				// keystore is in the store but no longer in the in-memory table (every call for the wallet
				// answers "account not found" until a restart).  Recorded; the harness then loads the
				// keystore as a restart would and goes on.
				ev.Outcome = "failed-keystore-dropped"
				res.Traces = append(res.Traces, Violation{Key: "newaddress-fault-then-reload-fault-drops-keystore",
					What: fmt.Sprintf("operation %d (NewAddress of wallet %d) failed %s and reported \"%v\"; afterwards the in-memory keystore table no longer holds the wallet (cached: %v), Wallets() says: %s",
						i, op.W, hits, out.Err, r.cachedNames(), r.walletsLine())})
				r.healKeystore(s.Wallets[op.W].ID)
			}
			post := r.Snapshot()
			if post != pre {
				field, a, b := firstDiff(pre, post)
				if debug {
					fmt.Fprintf(os.Stderr, "BEFORE\n%s\nAFTER FAILED OP\n%s\n", pre, post)
				}
				key := traceKey(op.Kind, ev.CallKind, field)
				if inj >= 2 {
					key += ":double-fault"
				}
				res.Traces = append(res.Traces, Violation{Key: key,
					What: fmt.Sprintf("operation %d (%v of wallet %d) failed %s and reported \"%v\", but the wallet changed: before [%s] after [%s]",
						i, op.Kind, op.W, hits, out.Err, a, b)})
			}
			out = r.Exec(i)
			if out.Err != nil {
				return fail("retry-fails:"+tag, "operation %d (%v) failed %s; repeated with working storage it fails again: %v", i, op.Kind, hits, out.Err)
			}
		}
		res.Events = append(res.Events, ev)
		lastAny = tag
		if op.Kind.Mutating() {
			lastOn[op.W] = tag
		}
		switch op.Kind {
		case OpNewAddr:
			if out.Val != op.Addr {
				return fail("address-index-differs-after-fault:"+tag, "operation %d: after the faults %s NewAddress of wallet %d returned %s, the fault-free run got %s (skipped or duplicated address index)",
					i, hits, op.W, out.Val, op.Addr)
			}
		case OpCreate, OpImport:
			if out.Val != op.WalletID {
				return fail("wallet-differs-after-fault:"+tag, "operation %d: %v returned wallet %s, the fault-free run %s", i, op.Kind, out.Val, op.WalletID)
			}
		}
		if len(twin.Snap) > i && twin.Snap[i] != "" {
			now := r.Snapshot()
			cache = now
			if now != twin.Snap[i] {
				field, a, b := firstDiff(twin.Snap[i], now)
				if debug {
					fmt.Fprintf(os.Stderr, "TWIN AFTER OP\n%s\nFAULTED AFTER RETRY\n%s\n", twin.Snap[i], now)
				}
				key := "state-differs-after-" + ev.Outcome + "-" + tag + ":" + field
				if ev.Outcome == "recovered" || ev.Outcome == "background" {
					key = "fault-swallowed:" + ev.Site
				}
				return fail(key, "operation %d (%v), faults %s, outcome %s: afterwards the wallet reports [%s], the fault-free run [%s]",
					i, op.Kind, hits, ev.Outcome, b, a)
			}
		}
	}
	var store map[string]string
	if twin.Store != nil {
		store, _ = r.StoreDump()
	}
	res.Final = r.Snapshot()
	res.Lines = append(r.Lines, "E")
	if res.Final != twin.Final {
		field, a, b := firstDiff(twin.Final, res.Final)
		res.Viol = &Violation{Key: "final-state-differs-after-faults:" + field,
			What: fmt.Sprintf("after faults %v the wallet finally reports [%s], the fault-free run [%s]", res.Events, b, a)}
	} else if store != nil {
		if bucket, what := storeDiff(twin, store); what != "" {
			last := "?"
			if len(res.Events) > 0 {
				e := res.Events[len(res.Events)-1]
				last = s.OpLabel(e.Op) + "/" + e.CallKind.String() + "@" + e.Site
				if len(e.Hits) > 0 {
					last = s.OpLabel(e.Op) + "/" + e.Hits[0].Kind.String() + "@" + e.Hits[0].Site
					for _, h := range e.Hits[1:] {
						last += "+" + h.Kind.String() + "@" + h.Site
					}
				}
			}
			_ = bucket // (the buckets are named in the text: one cause shows in several)
			res.Viol = &Violation{Key: "final-store-differs:after-" + last,
				What: fmt.Sprintf("after faults %v the wallet reports what the fault-free run reports, but its database differs from the fault-free run's: %s", res.Events, what)}
		}
	}
	return res, nil
}

func (r *Run) cachedNames() []string {
	_, _, _, ksm, _ := r.W.WM.VerifStores()
	names := append([]string{}, ksm.ListKeystoreNames()...)
	sort.Strings(names)
	return names
}
