package cfsim

import (
	"fmt"
	"os"
	"runtime"
	"time"

	"verifharness/internal/dbwrap"
)

// FaultEvent describes one operation that ran with an injected storage fault.
type FaultEvent struct {
	Op       int
	OpKind   OpKind
	CallKind dbwrap.Kind // kind of the database call that failed
	Site     string      // wallet function that made the failing call
	Injected int
	Outcome  string // "failed" (the operation reported the failure), "recovered" (it succeeded all the same), "background"
	// filled by RunFaultPlan (plan.go):
	J, D   int               // the fault of the plan: call J fails, and (D > 0) the D-th call after it
	Hits   []dbwrap.CallInfo // the calls that failed
	Before int               // calls the operation made before the first failing one
	After  []dbwrap.CallInfo // the calls the operation made after its first failing call
	All    []dbwrap.CallInfo // every numbered call of the faulted execution
}

type FaultResult struct {
	Events []FaultEvent
	Final  string
	Lines  []string
	Viol   *Violation  // the divergence that ended the run (state not recoverable by the retry), if any
	Traces []Violation // "a failed operation left a trace" findings after which the run went on
}

// RunFault replays the script with a storage fault in every operation that makes at least
// j = pick(op) numbered database calls: call number j of the operation fails (see dbwrap for what failing
// means per call kind). repeat: the first retry of the operation fails at the same call again
// (API operations), respectively two consecutive calls fail (background work, announcements).
// After the failure the harness checks that nothing observable changed, switches the fault
// off, repeats the operation and compares the state with the undisturbed twin's state after the
// same operation; at the end the final states are compared.
func RunFault(s *Script, pick func(op int) int, repeat bool, twin *Twin) (*FaultResult, error) {
	r, err := NewRun(s)
	if err != nil {
		return nil, err
	}
	defer r.Close()
	res := &FaultResult{}
	ctl := dbwrap.New()
	if ok, _, err := r.Open(ctl); err != nil || !ok {
		return nil, fmt.Errorf("fault run: open: %v", err)
	}
	fail := func(key, f string, a ...interface{}) (*FaultResult, error) {
		res.Viol = &Violation{Key: key, What: fmt.Sprintf(f, a...)}
		res.Lines = r.Lines
		return res, nil
	}
	debug := os.Getenv("VERIF_CF_DEBUG") != ""
	cache := "" // snapshot taken after the last wallet-changing operation, "" = unknown
	for i := range s.Ops {
		op := &s.Ops[i]
		faultable := op.Kind.Mutating() || op.Kind == OpAnnounce || op.Kind == OpWait
		j := 0
		if faultable {
			j = pick(i)
		}
		if !faultable || j < 1 || twin.Calls[i] < j {
			out := r.Exec(i)
			if out.Err != nil && !twin.OpErr[i] {
				return fail("operation-fails-later:"+op.Kind.String(), "operation %d (%v) failed although no fault was active any more: %v (earlier faults: %v)", i, op.Kind, out.Err, res.Events)
			}
			if faultable {
				cache = ""
			}
			continue
		}
		pre := cache
		if pre == "" {
			pre = r.Snapshot()
		}
		cache = ""
		count := 1
		if repeat && (op.Kind == OpWait || op.Kind == OpAnnounce) {
			count = 2
		}
		ctl.Arm(j, count, false)
		out := r.Exec(i)
		ctl.Disarm()
		inj := ctl.NInjected()
		ev := FaultEvent{Op: i, OpKind: op.Kind, CallKind: ctl.FirstKind, Site: ctl.FirstSite, Injected: inj}
		if inj == 0 {
			if out.Err != nil && !twin.OpErr[i] {
				return fail("operation-fails-later:"+op.Kind.String(), "operation %d (%v) failed without a fault: %v (earlier faults: %v)", i, op.Kind, out.Err, res.Events)
			}
			continue
		}
		tag := op.Kind.String() + "/" + ev.CallKind.String()
		switch {
		case op.Kind == OpWait:
			// the worker retries by itself; make sure it is done
			ev.Outcome = "background"
			if out.Err != nil {
				r.WaitLimit = 4 * time.Second
			}
			stuckKey := ev.Site + "/" + ev.CallKind.String()
			if stuckSeen(stuckKey) >= 2 && r.WaitLimit > 8*time.Second {
				// a background task stuck after a fault at this very call has been waited for in full twice already
				// (and reported): later plans striking the same call get a shorter patience, so that a tree on which
				// a task never recovers is reported in minutes, not half an hour (seed C18f)
				r.WaitLimit = 8 * time.Second
			}
			w := r.Exec(i)
			r.WaitLimit = 30 * time.Second
			if w.Err != nil {
				stuckNote(stuckKey)
				if debug {
					buf := make([]byte, 1<<20)
					fmt.Fprintf(os.Stderr, "STUCK\n%s\n", buf[:runtime.Stack(buf, true)])
				}
				task := "?"
				for b := i - 1; b >= 0; b-- {
					if k := s.Ops[b].Kind; k == OpImport || k == OpRemove {
						task = k.String()
						break
					}
				}
				return fail("background-"+task+"-stuck-after-fault:"+ev.Site+"/"+ev.CallKind.String(),
					"operation %d: after %d consecutive storage fault(s) in the background %s (first: %v call made by %s) the wallet never settles: %v; Wallets() says: %s",
					i, inj, task, ev.CallKind, ev.Site, w.Err, r.walletsLine())
			}
		case out.Err == nil:
			ev.Outcome = "recovered"
		case twin.OpErr[i]:
			// (an announcement the fault-free run refuses as well: stale block)
			ev.Outcome = "refused-anyway"
			if post := r.Snapshot(); post != pre {
				field, a, b := firstDiff(pre, post)
				res.Traces = append(res.Traces, Violation{Key: traceKey(op.Kind, ev.CallKind, field),
					What: fmt.Sprintf("operation %d (%v) failed at database call %d (%v), the wallet changed: before [%s] after [%s]", i, op.Kind, j, ev.CallKind, a, b)})
			}
		default:
			ev.Outcome = "failed"
			// the operation reported the failure: nothing observable may have changed
			post := r.Snapshot()
			if post != pre {
				field, a, b := firstDiff(pre, post)
				if debug {
					fmt.Fprintf(os.Stderr, "BEFORE\n%s\nAFTER FAILED OP\n%s\n", pre, post)
				}
				res.Traces = append(res.Traces, Violation{Key: traceKey(op.Kind, ev.CallKind, field),
					What: fmt.Sprintf("operation %d (%v of wallet %d) failed at database call %d (%v) and reported \"%v\", but the wallet changed: before [%s] after [%s]",
						i, op.Kind, op.W, j, ev.CallKind, out.Err, a, b)})
			}
			if repeat && op.Kind.Mutating() {
				ctl.Arm(j, 1, false)
				out2 := r.Exec(i)
				ctl.Disarm()
				if out2.Err != nil {
					if post2 := r.Snapshot(); post2 != pre {
						field, a, b := firstDiff(pre, post2)
						res.Traces = append(res.Traces, Violation{Key: traceKey(op.Kind, ev.CallKind, field),
							What: fmt.Sprintf("operation %d (%v of wallet %d) failed twice at database call %d (%v), the wallet changed: before [%s] after [%s]",
								i, op.Kind, op.W, j, ev.CallKind, a, b)})
					}
				} else {
					out = out2
					ev.Outcome = "failed-then-ok-under-fault"
				}
			}
			if out.Err != nil {
				// storage works again: repeat the operation
				out = r.Exec(i)
				if out.Err != nil {
					return fail("retry-fails:"+tag, "operation %d (%v) failed at database call %d (%v); repeated with working storage it fails again: %v", i, op.Kind, j, ev.CallKind, out.Err)
				}
			}
		}
		res.Events = append(res.Events, ev)
		// the result of the (repeated) operation is the twin's
		switch op.Kind {
		case OpNewAddr:
			if out.Val != op.Addr {
				return fail("address-index-differs-after-fault:"+tag, "operation %d: after a fault at call %d (%v) NewAddress of wallet %d returned %s, the fault-free run got %s (skipped or duplicated address index)",
					i, j, ev.CallKind, op.W, out.Val, op.Addr)
			}
		case OpCreate, OpImport:
			if out.Val != op.WalletID {
				return fail("wallet-differs-after-fault:"+tag, "operation %d: %v returned wallet %s, the fault-free run %s", i, op.Kind, out.Val, op.WalletID)
			}
		}
		if len(twin.Snap) > i && twin.Snap[i] != "" {
			now := r.Snapshot()
			cache = now
			if now != twin.Snap[i] {
				field, a, b := firstDiff(twin.Snap[i], now)
				if debug {
					fmt.Fprintf(os.Stderr, "TWIN AFTER OP\n%s\nFAULTED AFTER RETRY\n%s\n", twin.Snap[i], now)
				}
				key := "state-differs-after-" + ev.Outcome + "-" + tag + ":" + field
				if ev.Outcome == "recovered" || ev.Outcome == "background" {
					// the operation went on although a database call failed: the error was swallowed
					key = "fault-swallowed:" + ev.Site
				}
				return fail(key, "operation %d (%v), fault at database call %d (%v call made by %s), outcome %s: afterwards the wallet reports [%s], the fault-free run [%s]",
					i, op.Kind, j, ev.CallKind, ev.Site, ev.Outcome, b, a)
			}
		}
	}
	res.Final = r.Snapshot()
	res.Lines = append(r.Lines, "E")
	if res.Final != twin.Final {
		field, a, b := firstDiff(twin.Final, res.Final)
		res.Viol = &Violation{Key: "final-state-differs-after-faults:" + field,
			What: fmt.Sprintf("after faults %v the wallet finally reports [%s], the fault-free run [%s]", res.Events, b, a)}
	}
	return res, nil
}

// traceKey is the shape key of "a failed operation left a trace": operation kind, what changed,
// and the kind of the failing call — except for the one shape in which every call kind after the
// same program point behaves alike: NewAddress updates the keystore's in-memory address table
// inside the transaction closure (keystore.NextAddresses -> updateManagedAddress), so any later
// failing call (the get in updateManagedAddress, PutNewAddress's put, the commit) leaves the
// cached address and the advanced key counter behind.
func traceKey(op OpKind, call dbwrap.Kind, field string) string {
	if op == OpNewAddr && field == "keys" {
		return "newaddress-failed-leaves-cached-address"
	}
	return "failed-" + op.String() + "/" + call.String() + "-leaves-trace:" + field
}

func (r *Run) walletsLine() string {
	ws, err := r.W.WM.Wallets()
	if err != nil {
		return "error: " + err.Error()
	}
	return fmt.Sprintf("%d wallets", len(ws))
}
