// Package cfsim ("crash / fault simulation") turns a generated wallet history into a replayable
// SCRIPT (a list of concrete operations: the very blocks, mnemonics and API calls) and replays
// scripts on the real wallet — undisturbed (the twin), with a crash after commit k and a restart
// on the same data directory (C06), or with an injected storage fault at database call k (C18).
// All replays of one script run the same operations in the same order on the same blocks, so
// their observations are comparable field by field.
package cfsim

import (
	"crypto/rand"
	"fmt"
	"io"
	"os"
	"time"

	"github.com/massnetorg/mass-core/massutil"
	"github.com/massnetorg/mass-core/wire"
	"massnet.org/mass-wallet/config"
	"massnet.org/mass-wallet/masswallet/keystore"
	"verifharness/internal/hist"
	"verifharness/internal/rng"
	"verifharness/internal/sim"
)

type OpKind int

const (
	OpCreate   OpKind = iota // CreateWallet (deterministic entropy: Seed)
	OpNewAddr                // UseWallet + NewAddress(Class)
	OpImport                 // ImportWalletWithMnemonic of the foreign wallet
	OpRemove                 // RemoveWallet
	OpAttach                 // node: Blk becomes the best block
	OpDetach                 // node: best block disconnected
	OpAnnounce               // OnBlockConnected(Blk), wait until processed
	OpQuery                  // observe every active wallet
	OpWait                   // wait for the background worker (import / removal) to finish
)

var kindName = [...]string{"create", "newaddr", "import", "remove", "attach", "detach", "announce", "query", "wait"}

func (k OpKind) String() string { return kindName[k] }

// Mutating reports whether the operation changes the wallet through its API (not node, not query).
func (k OpKind) Mutating() bool { return k <= OpRemove }

type Op struct {
	Kind  OpKind
	W     int // wallet number (create, newaddr, import, remove)
	Class uint16
	Blk   *massutil.Block
	Seed  uint64
	// results of the generation run = what every replay must reproduce
	WalletID string
	Addr     string   // address as returned by NewAddress
	Sh       int      // its script-hash id
	Defs     []string // definition lines of the history format that belong to this op (B/T/I/O)
	BlkID    int
}

// WSpec is what the script knows about a wallet.
type WSpec struct {
	Num      int
	ID       string
	Pass     string
	Mnemonic string
	NAddr    int  // foreign wallet: number of external addresses issued before the import
	Foreign  bool // created elsewhere, imported by OpImport
}

type Script struct {
	N       int
	Header  []string // H, K, G and the A lines of the foreign wallet
	Ops     []Op
	Wallets map[int]*WSpec
	blocks  map[wire.Hash]*massutil.Block
	Gen     *hist.H // id maps (script hashes, transactions, blocks) for rendering reports
	Stats   GenStats
}

type GenStats struct{ Blocks, Reorgs, Txs, NewAddr, Creates, Imports, Removes, MaxDepth int }

type GenOptions struct {
	Hist     hist.Options
	Import   bool
	Remove   bool
	MinSteps int
	MaxSteps int
	// Long > 0: a straight chain of that many empty-ish blocks is mined before the random part
	// (to reach the 1000-height import batches and the 2000-block fast-forward of Start)
	Long int
	// LongNoWallet: the long chain is mined and announced BEFORE the first wallet exists
	LongNoWallet bool
	// TailNewAddr (C18): NewAddress calls that make a stale in-memory key counter observable — one for
	// the restored wallet right after its import has finished (3 histories in 4), and one for every
	// wallet the manager knows at the end of the history (the last operations before the final
	// announcement), so that every operation on a wallet is followed by a NewAddress of that wallet
	TailNewAddr bool
}

// ---------------------------------------------------------------- deterministic entropy

type detReader struct{ r *rng.R }

func (d *detReader) Read(p []byte) (int, error) {
	for i := range p {
		p[i] = byte(d.r.U64())
	}
	return len(p), nil
}

// WithEntropy runs f with crypto/rand.Reader replaced by a stream determined by seed (CreateWallet
// draws its mnemonic from it), then restores the system source.
func WithEntropy(seed uint64, f func()) {
	old := rand.Reader
	rand.Reader = io.Reader(&detReader{rng.New(seed ^ 0xC0FFEE1234)})
	defer func() { rand.Reader = old }()
	f()
}

// ---------------------------------------------------------------- generation

// makeForeign creates a wallet in a throw-away wallet database, issues n addresses and returns
// its mnemonic: the wallet the script later restores with ImportWalletWithMnemonic.
func makeForeign(seed uint64, n int) (*hist.WInfo, error) {
	dir, err := os.MkdirTemp(scratchRoot(), "vf")
	if err != nil {
		return nil, err
	}
	defer os.RemoveAll(dir)
	node, err := sim.NewNode(dir)
	if err != nil {
		return nil, err
	}
	defer node.Close()
	w, err := sim.OpenWallet(node, dir, nil, true)
	if err != nil {
		return nil, err
	}
	defer w.Stop()
	wi := &hist.WInfo{Pass: "passForeign@verif"}
	var cerr error
	WithEntropy(seed, func() { wi.ID, wi.Mnemo, _, cerr = w.WM.CreateWallet(wi.Pass, "", 128) })
	if cerr != nil {
		return nil, cerr
	}
	if _, err := w.WM.UseWallet(wi.ID); err != nil {
		return nil, err
	}
	for i := 0; i < n; i++ {
		a, err := w.WM.NewAddress(0)
		if err != nil {
			return nil, err
		}
		addr, err := massutil.DecodeAddress(a, config.ChainParams)
		if err != nil {
			return nil, err
		}
		wi.Addrs = append(wi.Addrs, &hist.AddrInfo{Addr: a, ShBytes: addr.ScriptAddress()})
	}
	return wi, nil
}

func scratchRoot() string {
	if st, err := os.Stat("/dev/shm"); err == nil && st.IsDir() {
		return "/dev/shm"
	}
	return ""
}

type gen struct {
	h      *hist.H
	s      *Script
	r      *rng.R
	absent map[int]bool // wallet numbers the wallet manager does not (or no longer) know
	seed   uint64
}

func (g *gen) add(op Op) { g.s.Ops = append(g.s.Ops, op) }

func (g *gen) create() error {
	seed := g.seed*7919 + uint64(len(g.s.Ops)) + 1
	var wi *hist.WInfo
	var err error
	WithEntropy(seed, func() { wi, err = g.h.NewWallet() })
	if err != nil {
		return err
	}
	g.s.Wallets[wi.Num] = &WSpec{Num: wi.Num, ID: wi.ID, Pass: wi.Pass, Mnemonic: wi.Mnemo}
	g.add(Op{Kind: OpCreate, W: wi.Num, Seed: seed, WalletID: wi.ID})
	g.s.Stats.Creates++
	return nil
}

func (g *gen) present() []*hist.WInfo {
	var l []*hist.WInfo
	for _, wi := range g.h.Wallets {
		if !g.absent[wi.Num] {
			l = append(l, wi)
		}
	}
	return l
}

func (g *gen) newAddr(wi *hist.WInfo, class uint16) error {
	ai, err := g.h.NewAddress(wi, class)
	if err != nil {
		return err
	}
	a := ai.Addr
	if class == 1 {
		a = ai.Staking
	}
	g.add(Op{Kind: OpNewAddr, W: wi.Num, Class: class, Addr: a, Sh: ai.Sh})
	g.s.Stats.NewAddr++
	return nil
}

func (g *gen) block(ntx int, extra []*wire.MsgTx) (*massutil.Block, error) {
	l0 := g.h.CfLogLen()
	b := g.h.BuildBlock(ntx, extra)
	defs := append([]string{}, g.h.Log[l0:]...)
	if err := g.h.Attach(b); err != nil {
		return nil, err
	}
	g.add(Op{Kind: OpAttach, Blk: b, Defs: defs, BlkID: g.h.CfBlockID(b)})
	g.s.Stats.Blocks++
	g.s.Stats.Txs += len(b.MsgBlock().Transactions)
	return b, nil
}

func (g *gen) announce(b *massutil.Block) {
	g.h.W.Notify(b)
	g.add(Op{Kind: OpAnnounce, Blk: b, BlkID: g.h.CfBlockID(b)})
}

// Generate runs the history generator on a real wallet and records it as a script.
func Generate(seed uint64, n int, opt GenOptions) (*Script, error) {
	r := rng.New(seed*1000003 + uint64(n))
	var foreign *hist.WInfo
	if opt.Import {
		var err error
		foreign, err = makeForeign(seed*31+uint64(n), 1+r.Intn(3))
		if err != nil {
			return nil, fmt.Errorf("foreign wallet: %v", err)
		}
	}
	h, err := hist.New(r, nil, n, opt.Hist, nil)
	if err != nil {
		return nil, err
	}
	defer h.Close()
	s := &Script{N: n, Wallets: map[int]*WSpec{}, Gen: h}
	g := &gen{h: h, s: s, r: r, absent: map[int]bool{}, seed: seed*1000003 + uint64(n)}

	if opt.Long > 0 && opt.LongNoWallet {
		for i := 0; i < opt.Long; i++ {
			b, err := g.block(0, nil)
			if err != nil {
				return nil, err
			}
			if i%97 == 0 || i == opt.Long-1 {
				g.announce(b)
			}
		}
	}
	if foreign != nil {
		num := h.CfAddForeignWallet(foreign)
		g.absent[num] = true
		s.Wallets[num] = &WSpec{Num: num, ID: foreign.ID, Pass: foreign.Pass, Mnemonic: foreign.Mnemo, NAddr: len(foreign.Addrs), Foreign: true}
		for _, a := range foreign.Addrs {
			h.CfEmit("A %d %d", a.Sh, num)
		}
	}
	s.Header = append([]string{}, h.Log...)
	// the header holds H, K, G (+ foreign A lines); block definitions made above are in their ops
	hdr := s.Header[:0:0]
	for _, l := range s.Header {
		if l[0] == 'H' || l[0] == 'K' || l[0] == 'G' || l[0] == 'A' {
			hdr = append(hdr, l)
		}
	}
	s.Header = hdr

	nW := 1 + r.Intn(2)
	for i := 0; i < nW; i++ {
		if err := g.create(); err != nil {
			return nil, err
		}
		wi := h.Wallets[len(h.Wallets)-1]
		for j, na := 0, 1+r.Intn(3); j < na; j++ {
			cls := uint16(0)
			if opt.Hist.Games && r.Chance(30) {
				cls = 1
			}
			if err := g.newAddr(wi, cls); err != nil {
				return nil, err
			}
		}
	}
	if opt.Long > 0 && !opt.LongNoWallet {
		for i := 0; i < opt.Long; i++ {
			ntx := 0
			if i%50 == 7 {
				ntx = 2
			}
			b, err := g.block(ntx, nil)
			if err != nil {
				return nil, err
			}
			if i%97 == 0 || i == opt.Long-1 {
				g.announce(b)
			}
		}
	}
	var queue []*massutil.Block
	announce := func(b *massutil.Block) {
		if opt.Hist.Lag && r.Chance(35) {
			queue = append(queue, b)
			return
		}
		for _, q := range queue {
			g.announce(q)
		}
		queue = nil
		g.announce(b)
	}
	steps := opt.MinSteps + r.Intn(opt.MaxSteps-opt.MinSteps+1)
	imported, removed := !opt.Import, !opt.Remove
	importAt, removeAt := steps/3+r.Intn(steps/2+1), steps/4+r.Intn(steps/2+1)
	for st := 0; st < steps; st++ {
		if !imported && st >= importAt && h.N.Height() >= 2 {
			imported = true
			// the restore starts from a wallet that follows the node's tip (a restore started on a
			// stale tip answers "importing continuable" until the next announcement: C07's subject)
			for _, q := range queue {
				g.announce(q)
			}
			queue = nil
			if h.W.H.VerifBest().Hash != *h.N.Tip().Hash() {
				g.announce(h.N.Tip())
			}
			num := 0
			for _, ws := range s.Wallets {
				if ws.Foreign {
					num = ws.Num
				}
			}
			ws := s.Wallets[num]
			sum, err := h.W.WM.ImportWalletWithMnemonic(&keystore.WalletParams{Mnemonic: ws.Mnemonic, PrivatePassphrase: []byte(ws.Pass),
				ExternalIndex: uint32(ws.NAddr), AddressGapLimit: sim.Cur.GapLimit})
			if err != nil {
				return nil, fmt.Errorf("import: %v", err)
			}
			if sum.WalletID != ws.ID {
				return nil, fmt.Errorf("import: wallet id %s, expected %s", sum.WalletID, ws.ID)
			}
			if !h.W.WaitTasks(20 * time.Second) {
				return nil, fmt.Errorf("import did not finish")
			}
			g.absent[num] = false
			g.add(Op{Kind: OpImport, W: num, WalletID: ws.ID})
			g.add(Op{Kind: OpWait})
			g.add(Op{Kind: OpQuery})
			s.Stats.Imports++
			if opt.TailNewAddr && r.Chance(75) {
				for _, wi := range h.Wallets {
					if wi.Num == num {
						if err := g.newAddr(wi, 0); err != nil {
							return nil, err
						}
					}
				}
			}
			continue
		}
		if !removed && st >= removeAt && len(g.present()) >= 2 {
			removed = true
			ps := g.present()
			wi := ps[r.Intn(len(ps))]
			if err := h.W.WM.RemoveWallet(wi.ID, wi.Pass); err != nil {
				return nil, fmt.Errorf("remove: %v", err)
			}
			if !h.W.WaitTasks(20 * time.Second) {
				return nil, fmt.Errorf("removal did not finish")
			}
			g.absent[wi.Num] = true
			g.add(Op{Kind: OpRemove, W: wi.Num, WalletID: wi.ID})
			g.add(Op{Kind: OpWait})
			g.add(Op{Kind: OpQuery})
			s.Stats.Removes++
			continue
		}
		switch k := r.Intn(100); {
		case k < 52:
			var extra []*wire.MsgTx
			if len(h.Detached) > 0 && r.Chance(50) {
				tx := h.Detached[r.Intn(len(h.Detached))]
				ok := true
				for _, in := range tx.TxIn {
					if h.Utxo[in.PreviousOutPoint] == nil {
						ok = false
					}
				}
				if _, mined := h.N.Known[tx.TxHash()]; ok && !h.OnBest(tx.TxHash()) && mined {
					extra = append(extra, tx)
				}
			}
			b, err := g.block(r.Intn(4), extra)
			if err != nil {
				return nil, err
			}
			announce(b)
		case k < 68:
			if h.N.Height() < 2 {
				continue
			}
			d := 1 + r.Intn(h.Opt.MaxReorg)
			if uint64(d) > h.N.Height()-1 {
				d = int(h.N.Height() - 1)
			}
			for i := 0; i < d; i++ {
				if _, err := h.Detach(); err != nil {
					return nil, err
				}
				g.add(Op{Kind: OpDetach})
			}
			nnew := d + r.Intn(2)
			perBlock := r.Chance(60)
			var last *massutil.Block
			for i := 0; i < nnew; i++ {
				b, err := g.block(r.Intn(3), nil)
				if err != nil {
					return nil, err
				}
				last = b
				if perBlock {
					announce(b)
				}
			}
			if !perBlock && last != nil {
				announce(last)
			}
			s.Stats.Reorgs++
			if d > s.Stats.MaxDepth {
				s.Stats.MaxDepth = d
			}
		case k < 80:
			ps := g.present()
			if len(ps) > 0 {
				wi := ps[r.Intn(len(ps))]
				cls := uint16(0)
				if opt.Hist.Games && r.Chance(25) {
					cls = 1
				}
				if err := g.newAddr(wi, cls); err != nil {
					return nil, err
				}
			}
		case k < 85:
			if len(h.Wallets) < 4 {
				if err := g.create(); err != nil {
					return nil, err
				}
				if err := g.newAddr(h.Wallets[len(h.Wallets)-1], 0); err != nil {
					return nil, err
				}
			}
		default:
			g.add(Op{Kind: OpQuery})
		}
	}
	if opt.TailNewAddr {
		for _, wi := range g.present() {
			if err := g.newAddr(wi, 0); err != nil {
				return nil, err
			}
		}
	}
	for _, q := range queue {
		g.announce(q)
	}
	g.announce(h.N.Tip())
	g.add(Op{Kind: OpWait})
	g.add(Op{Kind: OpQuery})
	return s, nil
}
