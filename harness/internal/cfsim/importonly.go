package cfsim

// The "import-only" family of crash histories (C06): the wallet database holds NO READY wallet at
// the crash — its only wallet is being restored (ImportWalletWithMnemonic) — and the node is
// reorganised and grows while the wallet process is down.
//
//   chain A  : L > 1000 blocks mined before anything else (the restored wallet's addresses are
//              payees from the first block on), the wallet follows it by announcements;
//   restore  : ImportWalletWithMnemonic, the background rescan runs in batches of 1000 heights
//              (cursor 0 -> 1000 -> ... -> done);
//   outage   : the node abandons the blocks above the fork height F and grows to F + D + G on
//              another branch (in the run that never stops this happens after the rescan has
//              finished and reaches the wallet as ordinary announcements);
//   tail     : the tip is announced, a few more blocks, final wait and query.
//
// The interesting crash points are the commits of the restore itself and of its rescan batches
// ("right after ImportWallet", "between two batches"): cmd/c06 enumerates all of them, with the
// whole outage performed while the wallet is down (RunCrash, moveOn). At the restart Start() sees
// "no wallet ready": with the node more than 2000 blocks ahead of the stored tip it takes its
// fast-forward (sync records only) — and must not do so over a stored tip that the node has
// abandoned, because the credits below the rescan cursor are in the store and only the ordinary
// reorganisation path rolls them back and pulls the cursor back to the fork.
//
// Shapes: the fork below the rescan cursor (F < 1000), above it, no reorganisation at all; the new
// branch higher than, as high as, or lower than the abandoned one; FF: the node ends more than
// 2000 blocks above the stored tip (histories of ~3100 blocks).

import (
	"fmt"
	"strings"

	"github.com/massnetorg/mass-core/massutil"
	"verifharness/internal/hist"
	"verifharness/internal/rng"
)

// ImportBatch and FastForwardMargin are literals of masswallet/ntfnshandler.go (asyncImport: 1000
// heights per batch; Start: the last 2000 blocks are always processed), not package variables:
// the histories have to be that long.
const (
	ImportBatch       = 1000
	FastForwardMargin = 2000
)

type IOOptions struct {
	Hist hist.Options
	// FF: the node ends more than FastForwardMargin blocks above the wallet's stored tip
	FF bool
	// QuietBranch: the new branch carries no transactions above the rescan cursor, only coinbase
	// payments (0: at random, 1: yes, 2: no). A transaction up there that spends a coin the new
	// branch paid the wallet BELOW the cursor makes a rescan that skipped that coin fail for ever
	// ("credit not found", retried): the wallet never becomes ready. On a quiet branch such a
	// rescan finishes and the wallet reports the coins of the abandoned blocks.
	QuietBranch int
}

// IOInfo describes the generated history (for the crash plans and the statistics).
type IOInfo struct {
	Shape    string // below-cursor | above-cursor | no-reorg
	L        int    // length of chain A
	Fork     int    // fork height F (L when there is no reorganisation)
	Depth    int    // blocks abandoned
	NewTip   int    // height of the node after the outage
	ImportOp int    // index of the OpImport operation; ImportOp+1 is its OpWait
	Outage   int    // number of node operations of the outage
	Quiet    bool   // see IOOptions.QuietBranch
	PaidGone int    // abandoned blocks at heights F+1..cursor that pay the restored wallet
}

func (g *gen) announceOnly(b *massutil.Block) {
	g.add(Op{Kind: OpAnnounce, Blk: b, BlkID: g.h.CfBlockID(b)})
}

// paysForeign reports whether one of the block's outputs pays a script hash of the wallet
// (definition lines "O <sh> <value> <class> <param>" of the history format).
func paysForeign(defs []string, shs map[int]bool) bool {
	for _, l := range defs {
		if !strings.HasPrefix(l, "O ") {
			continue
		}
		var sh int
		var v int64
		if n, _ := fmt.Sscanf(l, "O %d %d", &sh, &v); n == 2 && shs[sh] && v > 0 {
			return true
		}
	}
	return false
}

// GenerateImportOnly builds one history of the family. Nothing is executed on a wallet here: the
// undisturbed replay (RunTwin) is the reference and is itself checked against the model and the
// chain specification by the check.
func GenerateImportOnly(seed uint64, n int, opt IOOptions) (*Script, *IOInfo, error) {
	r := rng.New(seed*1000003 + uint64(n) + 0x10f0)
	foreign, err := makeForeign(seed*31+uint64(n), 1+r.Intn(3))
	if err != nil {
		return nil, nil, fmt.Errorf("foreign wallet: %v", err)
	}
	h, err := hist.New(r, nil, n, opt.Hist, nil)
	if err != nil {
		return nil, nil, err
	}
	defer h.Close()
	s := &Script{N: n, Wallets: map[int]*WSpec{}, Gen: h}
	g := &gen{h: h, s: s, r: r, absent: map[int]bool{}, seed: seed*1000003 + uint64(n)}

	num := h.CfAddForeignWallet(foreign)
	g.absent[num] = true
	s.Wallets[num] = &WSpec{Num: num, ID: foreign.ID, Pass: foreign.Pass, Mnemonic: foreign.Mnemo, NAddr: len(foreign.Addrs), Foreign: true}
	shs := map[int]bool{}
	for _, a := range foreign.Addrs {
		h.CfEmit("A %d %d", a.Sh, num)
		shs[a.Sh] = true
	}
	s.Header = append([]string{}, h.Log...)

	info := &IOInfo{}
	// ---- chain A: the cursor of the first rescan batch (1000) lies strictly inside it
	info.L = ImportBatch + 3 + r.Intn(90)
	pays := make([]bool, info.L+1)
	for i := 1; i <= info.L; i++ {
		ntx := 0
		// transactions (spends of the wallet's coins among them) now and then, and densely around
		// the heights a fork may abandon
		if i%37 == 5 || (i > ImportBatch-130 && r.Chance(45)) {
			ntx = 1 + r.Intn(2)
		}
		b, err := g.block(ntx, nil)
		if err != nil {
			return nil, nil, err
		}
		pays[i] = paysForeign(s.Ops[len(s.Ops)-1].Defs, shs)
		if i%211 == 0 || i == info.L {
			g.announceOnly(b)
		}
	}
	// ---- the restore
	info.ImportOp = len(s.Ops)
	g.add(Op{Kind: OpImport, W: num, WalletID: foreign.ID})
	g.add(Op{Kind: OpWait})
	g.add(Op{Kind: OpQuery})
	g.absent[num] = false
	s.Stats.Imports++

	// ---- the outage: fork height and new branch
	k := r.Intn(100)
	if opt.FF {
		k = r.Intn(70) // the long histories always reorganise
	}
	switch {
	case k < 55:
		info.Shape = "below-cursor"
		// a paying block at or below the cursor is abandoned: the fork lies below it
		hp := 0
		for i := ImportBatch; i > ImportBatch-120; i-- {
			if pays[i] && (hp == 0 || r.Chance(30)) {
				hp = i
			}
		}
		if hp == 0 {
			hp = ImportBatch
		}
		info.Fork = hp - 1 - r.Intn(12)
	case k < 70:
		info.Shape = "above-cursor"
		info.Fork = ImportBatch + r.Intn(info.L-ImportBatch)
	default:
		info.Shape = "no-reorg"
		info.Fork = info.L
	}
	info.Depth = info.L - info.Fork
	for i := info.Fork + 1; i <= ImportBatch && i <= info.L; i++ {
		if pays[i] {
			info.PaidGone++
		}
	}
	grow := 0
	switch {
	case opt.FF:
		grow = FastForwardMargin + 2 + r.Intn(40)
	case r.Chance(12) && info.Depth > 1:
		grow = -(1 + r.Intn(minInt(info.Depth-1, 6))) // the new branch stays lower than the abandoned one
	case r.Chance(12) && info.Depth > 0:
		grow = 0 // same height
	default:
		grow = 1 + r.Intn(25)
	}
	info.NewTip = info.L + grow
	info.Quiet = opt.QuietBranch == 1 || (opt.QuietBranch == 0 && r.Chance(50))
	first := len(s.Ops)
	for i := 0; i < info.Depth; i++ {
		if _, err := h.Detach(); err != nil {
			return nil, nil, err
		}
		g.add(Op{Kind: OpDetach})
	}
	var last *massutil.Block
	for i := info.Fork + 1; i <= info.NewTip; i++ {
		ntx := 0
		if info.Quiet && i > ImportBatch {
			ntx = 0
		} else if i <= info.L+25 && r.Chance(45) {
			ntx = 1 + r.Intn(2)
		} else if i%37 == 5 {
			ntx = 1
		}
		b, err := g.block(ntx, nil)
		if err != nil {
			return nil, nil, err
		}
		last = b
		// a few announcements on the way (in a crashed run they arrive late or are lost)
		if (i-info.Fork)%487 == 3 && i < info.NewTip {
			g.announceOnly(b)
		}
	}
	info.Outage = 0
	for _, op := range s.Ops[first:] {
		if op.Kind == OpAttach || op.Kind == OpDetach {
			info.Outage++
		}
	}
	if info.Depth > 0 {
		s.Stats.Reorgs++
		s.Stats.MaxDepth = info.Depth
	}
	if last != nil {
		g.announceOnly(last)
	}
	g.add(Op{Kind: OpWait})
	g.add(Op{Kind: OpQuery})
	// ---- tail: the chain goes on
	for i, nb := 0, 1+r.Intn(4); i < nb; i++ {
		if r.Chance(25) && h.N.Height() > uint64(info.NewTip) {
			if _, err := h.Detach(); err != nil {
				return nil, nil, err
			}
			g.add(Op{Kind: OpDetach})
		}
		ntx := r.Intn(3)
		if info.Quiet {
			ntx = 0
		}
		b, err := g.block(ntx, nil)
		if err != nil {
			return nil, nil, err
		}
		if r.Chance(60) {
			g.announceOnly(b)
		}
	}
	g.announceOnly(h.N.Tip())
	g.add(Op{Kind: OpWait})
	g.add(Op{Kind: OpQuery})
	return s, info, nil
}

func minInt(a, b int) int {
	if a < b {
		return a
	}
	return b
}
