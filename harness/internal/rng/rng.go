// Package rng: one deterministic PRNG (splitmix64) for every random choice of the harness.
package rng

import (
	"os"
	"strconv"
)

type R struct{ s uint64 }

func New(seed uint64) *R { return &R{s: seed*0x9E3779B97F4A7C15 + 0x1234567} }

// FromEnv seeds from VERIF_SEED (default 1), mixed with a per-stream salt.
func FromEnv(salt uint64) *R {
	seed := uint64(1)
	if v := os.Getenv("VERIF_SEED"); v != "" {
		if n, err := strconv.ParseUint(v, 10, 64); err == nil {
			seed = n
		}
	}
	return New(seed ^ (salt * 0xD1342543DE82EF95))
}

func Seed() uint64 {
	if v := os.Getenv("VERIF_SEED"); v != "" {
		if n, err := strconv.ParseUint(v, 10, 64); err == nil {
			return n
		}
	}
	return 1
}

func (r *R) U64() uint64 {
	r.s += 0x9E3779B97F4A7C15
	z := r.s
	z = (z ^ (z >> 30)) * 0xBF58476D1CE4E5B9
	z = (z ^ (z >> 27)) * 0x94D049BB133111EB
	return z ^ (z >> 31)
}

// Intn returns a value in [0,n).
func (r *R) Intn(n int) int {
	if n <= 0 {
		return 0
	}
	return int(r.U64() % uint64(n))
}
func (r *R) Bool() bool        { return r.U64()&1 == 1 }
func (r *R) Chance(p int) bool { return r.Intn(100) < p } // p percent
func (r *R) Bytes(n int) []byte {
	b := make([]byte, n)
	for i := range b {
		b[i] = byte(r.U64())
	}
	return b
}
func (r *R) Pick(s string) byte { return s[r.Intn(len(s))] }
