package dbwrap

import (
	"fmt"
	"runtime"
	"strings"
)

// CallInfo describes one numbered call: its kind, the wallet functions that made it (innermost
// function outside this package and outside masswallet/db, and that function's caller:
// "keystore.fetchChildNum<keystore.loadAddrManager") and, for the calls that carry one, a short form
// of the key (Get / Put / Delete / GetByPrefix; the name for NewBucket / DeleteBucket / CreateTopLevelBucket).
type CallInfo struct {
	Kind Kind
	Site string
	Key  string
}

func (ci CallInfo) String() string {
	if ci.Key == "" {
		return ci.Kind.String() + "@" + ci.Site
	}
	return ci.Kind.String() + "[" + ci.Key + "]@" + ci.Site
}

// ArmSet starts numbering calls from 1 like Arm; every call whose number is in fails returns the
// injected error (numbers count the calls of the faulted run itself: {k, k+d} = call k fails, and
// the d-th call after it, wherever the code has got to by then — its repair, reload or retry path).
// info: every numbered call is recorded in Info with its calling functions and key.
func (c *Ctl) ArmSet(fails []int, info bool) {
	c.mu.Lock()
	c.armed, c.calls, c.failAt, c.failCount, c.Injected, c.tracing = true, 0, 0, 0, 0, false
	c.Trace = nil
	c.failSet = map[int]bool{}
	for _, k := range fails {
		if k > 0 {
			c.failSet[k] = true
		}
	}
	c.infoOn, c.Info, c.InjectedAt = info, nil, nil
	c.mu.Unlock()
}

// Calls made since Arm / ArmSet that failed, and the descriptions recorded (copies).
func (c *Ctl) InjectedCalls() []int {
	c.mu.Lock()
	defer c.mu.Unlock()
	return append([]int{}, c.InjectedAt...)
}

func (c *Ctl) CallInfos() []CallInfo {
	c.mu.Lock()
	defer c.mu.Unlock()
	return append([]CallInfo{}, c.Info...)
}

func trimFn(fn string) string {
	if i := strings.LastIndex(fn, "/"); i >= 0 {
		fn = fn[i+1:]
	}
	for strings.Contains(fn, ".func") {
		fn = fn[:strings.LastIndex(fn, ".func")]
	}
	// methods: keystore.(*AddrManager).nextAddresses -> keystore.nextAddresses
	if i := strings.Index(fn, ".("); i >= 0 {
		if j := strings.Index(fn[i:], ")."); j >= 0 {
			fn = fn[:i+1] + fn[i+j+2:]
		}
	}
	return fn
}

// callChain names the innermost function outside this package and outside masswallet/db on the
// stack and the first different function below it.
func callChain() string {
	pcs := make([]uintptr, 32)
	n := runtime.Callers(4, pcs)
	frames := runtime.CallersFrames(pcs[:n])
	first := ""
	for {
		f, more := frames.Next()
		fn := f.Function
		if fn != "" && !strings.Contains(fn, "internal/dbwrap.") && !strings.Contains(fn, "masswallet/db.") {
			fn = trimFn(fn)
			if first == "" {
				first = fn
			} else if fn != first {
				return first + "<" + fn
			}
		}
		if !more {
			if first == "" {
				return "?"
			}
			return first
		}
	}
}

// shortKey: keys that are names (letters, digits, '_', '-', '.', at most 24 bytes) stand for
// themselves; every other key (hashes, addresses, counters) by its length: "~32".
func shortKey(key []byte) string {
	if key == nil {
		return ""
	}
	if len(key) > 0 && len(key) <= 24 {
		ok := true
		for _, b := range key {
			if !(b >= 'a' && b <= 'z' || b >= 'A' && b <= 'Z' || b >= '0' && b <= '9' || b == '_' || b == '-' || b == '.') {
				ok = false
				break
			}
		}
		if ok {
			return string(key)
		}
	}
	return fmt.Sprintf("~%d", len(key))
}

// Kill marks the database as crashed NOW (the process "exits" at this point, e.g. because the wallet
// logged at FATAL level): OnCrash runs, CrashedCh is closed, and from then on every goroutine that
// enters the wrapper freezes.  The caller freezes its own goroutine.  False: already crashed.
func (c *Ctl) Kill() bool {
	c.mu.Lock()
	if c.crashed {
		c.mu.Unlock()
		return false
	}
	c.crashed = true
	c.Killed = true
	f := c.OnCrash
	c.mu.Unlock()
	if f != nil {
		f()
	}
	close(c.CrashedCh)
	return true
}

// ---------------------------------------------------------------- calls by origin
//
// Skip(sub): numbered calls made with a function whose name contains sub on their stack are
// delegated without being numbered (never fail, do not appear in Info): the harness' own polling
// reads (sim.WaitTasks -> Wallets) must not shift the numbers of the wallet's calls.
// Hold(sub): such calls block until Release: the background worker is kept from starting its work
// inside the window of the API call that queued it, so that ALL its calls fall into the window of
// the operation that waits for it, at the same numbers in every run.

func (c *Ctl) Skip(sub string) {
	c.mu.Lock()
	c.skipSub = sub
	c.filtered = c.skipSub != "" || c.holdSub != ""
	c.mu.Unlock()
}

func (c *Ctl) Hold(sub string) {
	c.mu.Lock()
	if c.holdSub == "" {
		c.holdCh = make(chan struct{})
	}
	c.holdSub = sub
	c.filtered = true
	c.mu.Unlock()
}

func (c *Ctl) Release() {
	c.mu.Lock()
	if c.holdSub != "" {
		c.holdSub = ""
		close(c.holdCh)
	}
	c.filtered = c.skipSub != ""
	c.mu.Unlock()
}

func stackHas(sub string) bool {
	pcs := make([]uintptr, 64)
	n := runtime.Callers(4, pcs)
	frames := runtime.CallersFrames(pcs[:n])
	for {
		f, more := frames.Next()
		if strings.Contains(f.Function, sub) {
			return true
		}
		if !more {
			return false
		}
	}
}

// filter is called first by callKey; true: do not number this call.
func (c *Ctl) filter() bool {
	c.mu.Lock()
	on, skip, hold, ch := c.filtered, c.skipSub, c.holdSub, c.holdCh
	c.mu.Unlock()
	if !on {
		return false
	}
	if hold != "" && stackHas(hold) {
		<-ch
	}
	return skip != "" && stackHas(skip)
}
