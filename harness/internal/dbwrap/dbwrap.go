// Package dbwrap wraps the wallet database (masswallet/db DB / DBTransaction / ReadTransaction /
// Bucket / Iterator) around the real driver and delegates every call to it. It adds
//
//  (a) crash points (C06): successful commits of write transactions are counted; right after
//      commit number CrashAfter the controller marks the database as crashed, calls OnCrash
//      (the harness closes the LevelDB handle there: sim.Wallet.Abandon) and then FREEZES the
//      committing goroutine for ever; from that moment every other goroutine that enters the
//      wrapper freezes as well. Nothing the wallet does after the crash point can therefore
//      reach the disk or be observed: this is "the process stopped right after commit k, all
//      volatile state lost" (the frozen goroutines are simply abandoned with the wallet object);
//
//  (b) storage faults (C18): every call that has an error result (or an iterator result) is
//      numbered while the controller is armed; calls number FailAt .. FailAt+FailCount-1 return
//      ErrInjected WITHOUT touching the real database.
//      Numbered kinds: BeginTx, BeginReadTx, Commit, CreateTopLevelBucket, tx.BucketNames,
//      NewBucket, DeleteBucket, Bucket.BucketNames, Put, Delete, Get, Clear, GetByPrefix,
//      NewIterator.
//      Nearest faithful behaviour where the real driver has no direct error result:
//        * Commit: the batch is NOT written, the driver's write lock is released exactly as the
//          real Commit does after a failed leveldb.Write (we call the inner Rollback, which only
//          unlocks), and the error is returned;
//        * BeginTx: fails before the driver's write lock is taken;
//        * NewIterator: returns an iterator over nothing whose Seek/Next answer false and whose
//          Error() reports the injected error (what a goleveldb iterator does on an I/O error);
//        * TopLevelBucket / FetchBucket / Bucket / GetBucketMeta / Rollback / DeleteTopLevelBucket
//          and the iterator's own methods are delegated and never numbered: the first three
//          answer nil for "absent" and for "error" alike (the callers dereference the answer;
//          that is C19's subject, not C18's), Rollback's result is ignored by every caller.
//
// Bucket metas are passed through untouched (the stores keep the driver's metas and the driver's
// FetchBucket caches by meta identity).
package dbwrap

import (
	"errors"
	"fmt"
	"os"
	"runtime"
	"runtime/debug"
	"strings"
	"sync"

	mwdb "massnet.org/mass-wallet/masswallet/db"
)

// ErrInjected is the error returned by an injected storage fault.
var ErrInjected = errors.New("dbwrap: injected storage fault")

// Kind names a numbered call.
type Kind uint8

const (
	KBeginTx Kind = iota
	KBeginReadTx
	KCommit
	KCreateTop
	KTxBucketNames
	KNewBucket
	KDeleteBucket
	KBucketNames
	KPut
	KDelete
	KGet
	KClear
	KGetByPrefix
	KNewIterator
	nKinds
)

var kindNames = [...]string{"begin", "beginread", "commit", "createtop", "txbucketnames", "newbucket", "deletebucket",
	"bucketnames", "put", "delete", "get", "clear", "getbyprefix", "newiterator"}

func (k Kind) String() string { return kindNames[k] }

// Ctl is the controller shared by everything wrapped from one database.
type Ctl struct {
	mu sync.Mutex

	// crash points
	Commits    int // successful write commits so far
	CrashAfter int // crash right after this commit number (0 = never)
	OnCrash    func()
	crashed    bool
	CrashedCh  chan struct{} // closed at the crash point

	// faults
	armed     bool
	calls     int // numbered calls since Arm
	failAt    int // first failing call number (1-based; 0 = none)
	failCount int
	Injected  int    // faults injected since Arm
	FirstKind Kind   // kind of the first injected fault
	FirstSite string // function of the wallet that made the first failing call
	Trace     []Kind // kinds of the numbered calls since Arm (when tracing)
	tracing   bool
	// fault sets and call descriptions (ArmSet, see set.go)
	failSet    map[int]bool // call numbers that fail in addition to failAt..failAt+failCount-1
	infoOn     bool         // record Info: kind, calling functions and key of every numbered call
	Info       []CallInfo   // the numbered calls since ArmSet (when infoOn)
	InjectedAt []int        // numbers of the calls that failed since Arm / ArmSet
	Killed     bool         // Kill was called (see set.go)
	filtered   bool         // Skip / Hold active (see set.go)
	skipSub    string
	holdSub    string
	holdCh     chan struct{}

	// totals (statistics)
	Total [nKinds]int
}

// New returns a controller.
func New() *Ctl { return &Ctl{CrashedCh: make(chan struct{})} }

// Wrap is a sim.DBWrap.
func (c *Ctl) Wrap(db mwdb.DB) mwdb.DB { return &wdb{c: c, in: db} }

// Arm starts numbering calls from 1; calls failAt .. failAt+count-1 fail (failAt 0: count only).
func (c *Ctl) Arm(failAt, count int, trace bool) {
	c.mu.Lock()
	c.armed, c.calls, c.failAt, c.failCount, c.Injected, c.tracing = true, 0, failAt, count, 0, trace
	c.Trace = nil
	c.failSet, c.infoOn, c.Info, c.InjectedAt = nil, false, nil, nil
	c.mu.Unlock()
}

// Disarm stops numbering and returns the number of calls seen since Arm.
func (c *Ctl) Disarm() int {
	c.mu.Lock()
	defer c.mu.Unlock()
	c.armed = false
	return c.calls
}

// Calls returns the number of numbered calls since Arm.
func (c *Ctl) Calls() int { c.mu.Lock(); defer c.mu.Unlock(); return c.calls }

// NInjected returns the number of faults injected since Arm.
func (c *Ctl) NInjected() int { c.mu.Lock(); defer c.mu.Unlock(); return c.Injected }

// NCommits returns the number of successful commits.
func (c *Ctl) NCommits() int { c.mu.Lock(); defer c.mu.Unlock(); return c.Commits }

// Defuse removes a crash point that has not been reached; false = it has been reached already.
func (c *Ctl) Defuse() bool {
	c.mu.Lock()
	defer c.mu.Unlock()
	c.CrashAfter = 0
	return !c.crashed
}

// Crashed reports whether the crash point has been reached AND OnCrash has completed (the
// database handle is closed, the directory may be reopened).
func (c *Ctl) Crashed() bool {
	select {
	case <-c.CrashedCh:
		return true
	default:
		return false
	}
}

// callSite names the innermost function outside this package and outside masswallet/db (View,
// Update and the bucket helpers) on the stack: the wallet function that made the database call.
func callSite() string {
	pcs := make([]uintptr, 24)
	n := runtime.Callers(3, pcs)
	frames := runtime.CallersFrames(pcs[:n])
	for {
		f, more := frames.Next()
		fn := f.Function
		if fn != "" && !strings.Contains(fn, "internal/dbwrap.") && !strings.Contains(fn, "masswallet/db.") {
			if i := strings.LastIndex(fn, "/"); i >= 0 {
				fn = fn[i+1:]
			}
			// closures: masswallet.(*WalletManager).NewAddress.func1 -> NewAddress
			for strings.Contains(fn, ".func") {
				fn = fn[:strings.LastIndex(fn, ".func")]
			}
			return fn
		}
		if !more {
			return "?"
		}
	}
}

// VERIF_FAULT_STACK=1 prints the call stack of every injected fault (debugging aid).
var debugStacks = os.Getenv("VERIF_FAULT_STACK") != ""

func freeze() { select {} }

// enter is called first by every wrapper method: after the crash point nothing moves any more.
func (c *Ctl) enter() {
	c.mu.Lock()
	dead := c.crashed
	c.mu.Unlock()
	if dead {
		freeze()
	}
}

// call numbers one call; true = inject the fault.
func (c *Ctl) call(k Kind) bool { return c.callKey(k, nil) }

// callKey is call for the calls that carry a key (Get / Put / Delete / GetByPrefix / bucket names).
func (c *Ctl) callKey(k Kind, key []byte) bool {
	if c.filter() {
		return false
	}
	c.mu.Lock()
	if c.crashed {
		c.mu.Unlock()
		freeze()
	}
	c.Total[k]++
	if !c.armed {
		c.mu.Unlock()
		return false
	}
	c.calls++
	if c.tracing {
		c.Trace = append(c.Trace, k)
	}
	fail := (c.failAt > 0 && c.calls >= c.failAt && c.calls < c.failAt+c.failCount) || c.failSet[c.calls]
	if c.infoOn {
		c.Info = append(c.Info, CallInfo{Kind: k, Site: callChain(), Key: shortKey(key)})
	}
	if fail {
		c.InjectedAt = append(c.InjectedAt, c.calls)
		if c.Injected == 0 {
			c.FirstKind = k
			c.FirstSite = callSite()
		}
		c.Injected++
		if debugStacks {
			fmt.Fprintf(os.Stderr, "dbwrap: injecting fault at call %d (%v)\n%s\n", c.calls, k, debug.Stack())
		}
	}
	c.mu.Unlock()
	return fail
}

func (c *Ctl) committed() {
	c.mu.Lock()
	c.Commits++
	hit := c.CrashAfter > 0 && c.Commits == c.CrashAfter && !c.crashed
	if hit {
		c.crashed = true
	}
	f := c.OnCrash
	c.mu.Unlock()
	if hit {
		if f != nil {
			f()
		}
		close(c.CrashedCh)
		freeze()
	}
}

// ---------------------------------------------------------------- DB

type wdb struct {
	c  *Ctl
	in mwdb.DB
}

func (d *wdb) Close() error {
	// Close is what Abandon/Stop call; it must work after the crash point too.
	return d.in.Close()
}

func (d *wdb) BeginTx() (mwdb.DBTransaction, error) {
	if d.c.call(KBeginTx) {
		return nil, ErrInjected
	}
	t, err := d.in.BeginTx()
	if err != nil {
		return nil, err
	}
	return &wtx{c: d.c, in: t}, nil
}

func (d *wdb) BeginReadTx() (mwdb.ReadTransaction, error) {
	if d.c.call(KBeginReadTx) {
		return nil, ErrInjected
	}
	t, err := d.in.BeginReadTx()
	if err != nil {
		return nil, err
	}
	return &rtx{c: d.c, in: t}, nil
}

// ---------------------------------------------------------------- transactions

type wtx struct {
	c  *Ctl
	in mwdb.DBTransaction
}

func (t *wtx) Commit() error {
	if t.c.call(KCommit) {
		t.in.Rollback() // releases the driver's write lock as a failed leveldb.Write does; writes nothing
		return ErrInjected
	}
	err := t.in.Commit()
	if err == nil {
		t.c.committed()
	}
	return err
}

func (t *wtx) Rollback() error { t.c.enter(); return t.in.Rollback() }

func (t *wtx) TopLevelBucket(name string) mwdb.Bucket {
	t.c.enter()
	return wrapBucket(t.c, t.in.TopLevelBucket(name))
}

func (t *wtx) BucketNames() ([]string, error) {
	if t.c.call(KTxBucketNames) {
		return nil, ErrInjected
	}
	return t.in.BucketNames()
}

func (t *wtx) FetchBucket(meta mwdb.BucketMeta) mwdb.Bucket {
	t.c.enter()
	return wrapBucket(t.c, t.in.FetchBucket(meta))
}

func (t *wtx) CreateTopLevelBucket(name string) (mwdb.Bucket, error) {
	if t.c.callKey(KCreateTop, []byte(name)) {
		return nil, ErrInjected
	}
	b, err := t.in.CreateTopLevelBucket(name)
	if err != nil {
		return nil, err
	}
	return wrapBucket(t.c, b), nil
}

func (t *wtx) DeleteTopLevelBucket(name string) error { t.c.enter(); return t.in.DeleteTopLevelBucket(name) }

type rtx struct {
	c  *Ctl
	in mwdb.ReadTransaction
}

func (t *rtx) TopLevelBucket(name string) mwdb.Bucket {
	t.c.enter()
	return wrapBucket(t.c, t.in.TopLevelBucket(name))
}

func (t *rtx) FetchBucket(meta mwdb.BucketMeta) mwdb.Bucket {
	t.c.enter()
	return wrapBucket(t.c, t.in.FetchBucket(meta))
}

func (t *rtx) BucketNames() ([]string, error) {
	if t.c.call(KTxBucketNames) {
		return nil, ErrInjected
	}
	return t.in.BucketNames()
}

func (t *rtx) Rollback() error { t.c.enter(); return t.in.Rollback() }

// ---------------------------------------------------------------- buckets

type wbucket struct {
	c  *Ctl
	in mwdb.Bucket
}

// wrapBucket keeps nil nil (an interface holding a typed nil would defeat the callers' nil checks).
func wrapBucket(c *Ctl, b mwdb.Bucket) mwdb.Bucket {
	if b == nil {
		return nil
	}
	return &wbucket{c: c, in: b}
}

func (b *wbucket) NewBucket(name string) (mwdb.Bucket, error) {
	if b.c.callKey(KNewBucket, []byte(name)) {
		return nil, ErrInjected
	}
	nb, err := b.in.NewBucket(name)
	if err != nil {
		return nil, err
	}
	return wrapBucket(b.c, nb), nil
}

func (b *wbucket) Bucket(name string) mwdb.Bucket {
	b.c.enter()
	return wrapBucket(b.c, b.in.Bucket(name))
}

func (b *wbucket) BucketNames() ([]string, error) {
	if b.c.call(KBucketNames) {
		return nil, ErrInjected
	}
	return b.in.BucketNames()
}

func (b *wbucket) DeleteBucket(name string) error {
	if b.c.callKey(KDeleteBucket, []byte(name)) {
		return ErrInjected
	}
	return b.in.DeleteBucket(name)
}

func (b *wbucket) Put(key, value []byte) error {
	if b.c.callKey(KPut, key) {
		return ErrInjected
	}
	return b.in.Put(key, value)
}

func (b *wbucket) Delete(key []byte) error {
	if b.c.callKey(KDelete, key) {
		return ErrInjected
	}
	return b.in.Delete(key)
}

func (b *wbucket) Get(key []byte) ([]byte, error) {
	if b.c.callKey(KGet, key) {
		return nil, ErrInjected
	}
	return b.in.Get(key)
}

func (b *wbucket) Clear() error {
	if b.c.call(KClear) {
		return ErrInjected
	}
	return b.in.Clear()
}

func (b *wbucket) GetByPrefix(p []byte) ([]*mwdb.Entry, error) {
	if b.c.callKey(KGetByPrefix, p) {
		return nil, ErrInjected
	}
	return b.in.GetByPrefix(p)
}

func (b *wbucket) GetBucketMeta() mwdb.BucketMeta { b.c.enter(); return b.in.GetBucketMeta() }

func (b *wbucket) NewIterator(slice *mwdb.Range) mwdb.Iterator {
	if b.c.call(KNewIterator) {
		return &failedIter{}
	}
	return &witer{c: b.c, in: b.in.NewIterator(slice)}
}

// ---------------------------------------------------------------- iterators

type witer struct {
	c  *Ctl
	in mwdb.Iterator
}

func (i *witer) Release()             { i.c.enter(); i.in.Release() }
func (i *witer) Error() error         { i.c.enter(); return i.in.Error() }
func (i *witer) Seek(k []byte) bool   { i.c.enter(); return i.in.Seek(k) }
func (i *witer) Next() bool           { i.c.enter(); return i.in.Next() }
func (i *witer) Key() []byte          { i.c.enter(); return i.in.Key() }
func (i *witer) Value() []byte        { i.c.enter(); return i.in.Value() }

// failedIter is an iterator that could not read: empty, Error() = the injected fault.
type failedIter struct{}

func (*failedIter) Release()           {}
func (*failedIter) Error() error       { return ErrInjected }
func (*failedIter) Seek([]byte) bool   { return false }
func (*failedIter) Next() bool         { return false }
func (*failedIter) Key() []byte        { return nil }
func (*failedIter) Value() []byte      { return nil }
