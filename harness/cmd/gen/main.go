// gen: translator — prints coq/Gen/Consts.v from the constants the code under
// /repo (and the mass-core version it pins) is compiled with on this run.
package main

import (
	"fmt"
	"os"

	"github.com/massnetorg/mass-core/blockchain"
	"github.com/massnetorg/mass-core/consensus"
	"massnet.org/mass-wallet/config"
	"massnet.org/mass-wallet/masswallet/keystore"
	"massnet.org/mass-wallet/masswallet/keystore/hdkeychain"
	"massnet.org/mass-wallet/api"
	"massnet.org/mass-wallet/masswallet"
)

func main() {
	w := os.Stdout
	fmt.Fprintln(w, "(* GENERATED on every run by harness/cmd/gen from /repo's compiled constants. Do not edit. *)")
	fmt.Fprintln(w, "From Coq Require Import ZArith.")
	fmt.Fprintln(w, "Open Scope Z_scope.")
	z := func(name string, v interface{}) { fmt.Fprintf(w, "Definition %s : Z := %v.\n", name, v) }
	z("MaxMass", consensus.MaxMass)
	z("MaxwellPerMass", consensus.MaxwellPerMass)
	z("MinRelayTxFee", consensus.MinRelayTxFee)
	z("CoinbaseMaturity", consensus.CoinbaseMaturity)
	z("TransactionMaturity", consensus.TransactionMaturity)
	z("MinFrozenPeriod", consensus.MinFrozenPeriod)
	z("LenWalletId", api.LenWalletId)
	z("AddressMaxLen", api.AddressMaxLen)
	z("LenTxId", api.LenTxId)
	z("LenPassMax", api.LenPassMax)
	z("LenPassMin", api.LenPassMin)
	z("LenRemarksMax", api.LenRemarksMax)
	z("LenMnemonicMax", api.LenMnemonicMax)
	z("LenMnemonicMin", api.LenMnemonicMin)
	// the background task queue (masswallet/task.go): the "busy" threshold of the API and the capacity the
	// queue is actually created with for 0 and for 10 wallets (measured on the constructor, not read from its text)
	z("MaxWaitingTaskNum", masswallet.MaxWaitingTaskNum)
	z("TaskQueueCap0", cap(masswallet.NewWalletTaskChan(0).C))
	z("TaskQueueCap10", cap(masswallet.NewWalletTaskChan(10).C))
	z("MASSIP0001MaxValidPeriod", consensus.MASSIP0001MaxValidPeriod)
	z("MASSIP0002BindingLockedPeriod", consensus.MASSIP0002BindingLockedPeriod)
	// literals of the selection model (Tx/Select.v) and of the key-chain model (Keys/Gap.v), tied by
	// C02_selector_capacity_is_the_code / C12_limits_are_the_code
	z("MaxStandardTxSize", blockchain.GetMaxStandardTxSize())
	z("HardenedKeyStart", uint64(hdkeychain.HardenedKeyStart))
	z("MaxAddressesPerAccount", uint64(keystore.MaxAddressesPerAccount))
	z("DefaultAddressGapLimit", config.DefaultAddressGapLimit)
	z("MaxMemPoolExpire", masswallet.MaxMemPoolExpire)
}
