package main

import (
	"fmt"
	"os"
	"path/filepath"
	"runtime/pprof"
	"time"

	"github.com/massnetorg/mass-core/logging"
	mwdb "massnet.org/mass-wallet/masswallet/db"
	"massnet.org/mass-wallet/masswallet/db/ldb"
)

func main() {
	tmp, _ := os.MkdirTemp("", "c11-")
	defer os.RemoveAll(tmp)
	logging.Init(tmp, "c11.log", "fatal", 1, true)
	f, _ := os.Create("/tmp/c11.prof")
	pprof.StartCPUProfile(f)
	t0 := time.Now()
	for i := 0; i < 200; i++ {
		p := filepath.Join(tmp, fmt.Sprintf("d%d", i))
		d, err := ldb.CreateDB(p)
		if err != nil {
			panic(err)
		}
		mwdb.Update(d, func(tx mwdb.DBTransaction) error {
			b, _ := tx.CreateTopLevelBucket("a")
			b.Put([]byte("k"), []byte("v"))
			return nil
		})
		d.Close()
		d, err = ldb.OpenDB(p)
		if err != nil {
			panic(err)
		}
		d.Close()
		os.RemoveAll(p)
	}
	pprof.StopCPUProfile()
	fmt.Println(time.Since(t0))
}
