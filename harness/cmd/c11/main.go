// c11: drives the REAL masswallet/db + masswallet/db/ldb on op sequences against a LevelDB in a
// temp dir (created and removed here) and prints one line per op:
//
//	<op> \t <projected result> \t <reference verdict>
//
// The op language is the one of coq/KV/Model.v [op]; bytes are hex ("-" = empty).
// The reference verdict is the second oracle: a plain Go map keyed by (bucket name tuple, key)
// — no key encoding at all — that predicts point reads, prefix reads, listings, read-only
// iteration and the full content after commit / rollback / failed Update / reopen.
// "-" = no prediction (behaviour outside the property text, or the run is tainted by it),
// "ok" = prediction met, "BAD:<expected>" = the implementation's observation violates the property.
package main

import (
	"bufio"
	"encoding/hex"
	"errors"
	"flag"
	"fmt"
	"os"
	"path/filepath"
	"sort"
	"strconv"
	"strings"

	"github.com/massnetorg/mass-core/logging"
	"github.com/syndtr/goleveldb/leveldb"
	mwdb "massnet.org/mass-wallet/masswallet/db"
	"massnet.org/mass-wallet/masswallet/db/ldb"
	"verifharness/internal/rng"
)

const nslots = 8

// ---------------------------------------------------------------- reference (second oracle)

type refState struct {
	bk map[string]bool              // existing buckets, by path id
	kv map[string]map[string]string // path id -> key -> value
}

func pid(names []string) string {
	h := make([]string, len(names))
	for i, n := range names {
		h[i] = hex.EncodeToString([]byte(n))
	}
	return strings.Join(h, "/") + "/"
}
func newRef() *refState { return &refState{map[string]bool{}, map[string]map[string]string{}} }
func (s *refState) clone() *refState {
	c := newRef()
	for k := range s.bk {
		c.bk[k] = true
	}
	for p, m := range s.kv {
		c.kv[p] = map[string]string{}
		for k, v := range m {
			c.kv[p][k] = v
		}
	}
	return c
}
func (s *refState) put(p, k, v string) {
	if s.kv[p] == nil {
		s.kv[p] = map[string]string{}
	}
	s.kv[p][k] = v
}
func (s *refState) removeTree(p string) {
	for q := range s.bk {
		if strings.HasPrefix(q, p) {
			delete(s.bk, q)
		}
	}
	for q := range s.kv {
		if strings.HasPrefix(q, p) {
			delete(s.kv, q)
		}
	}
}
func (s *refState) children(p string) []string {
	var out []string
	for q := range s.bk {
		if strings.HasPrefix(q, p) && q != p {
			rest := strings.TrimSuffix(q[len(p):], "/")
			if !strings.Contains(rest, "/") {
				b, _ := hex.DecodeString(rest)
				out = append(out, string(b))
			}
		}
	}
	sort.Strings(out)
	return out
}
func (s *refState) entries(p string, keep func(k string) bool) [][2]string {
	var out [][2]string
	for k, v := range s.kv[p] {
		if keep(k) {
			out = append(out, [2]string{k, v})
		}
	}
	sort.Slice(out, func(i, j int) bool { return out[i][0] < out[j][0] })
	return out
}

type refIter struct {
	ents  [][2]string
	pos   int // -1 = before the first, len = past the end
	epoch int // write epoch of the runner when the iterator was created (iterators of write transactions)
	// iterators of write transactions: what the implementation's DESIGN yields (the committed entries of the range as
	// they are, followed by the transaction's net puts of the range, each run ascending; theorem C11_seek_write_tx),
	// which is not the transaction's view once the transaction has touched the range (known finding
	// write-tx-iterator-not-view)
	ents2 [][2]string
	pos2  int
	two   bool
	a, b  [][2]string // the two runs ents2 is made of (a Seek restricts both to the keys >= its argument)
}

// ---------------------------------------------------------------- runner

type slot struct {
	w     bool
	b     mwdb.Bucket
	names []string
}
type islot struct {
	w   bool
	it  mwdb.Iterator
	ref *refIter
}
type runner struct {
	out   *bufio.Writer
	base  string
	dir   string
	n     int
	db    mwdb.DB
	wtx   mwdb.DBTransaction
	inUpd bool
	rtx   mwdb.ReadTransaction
	bs    [nslots]*slot
	is    [nslots]*islot

	closed bool

	committed *refState
	pending   *refState
	rsnap     *refState // what the open read transaction must see: the state committed when it began
	deleted   map[string]bool
	tainted   bool
	wepoch    int // bumped by every operation that writes (or ends) the write transaction
	wputs     map[string]map[string]string // net puts of the current write transaction: path id -> key -> value

	src   func() []string
	stats map[string]int
	lines int
	bad   int
}

var errFail = errors.New("harness: requested failure")
var errAbort = errors.New("harness: sequence ended inside Update")

func hx(b []byte) string {
	if len(b) == 0 {
		return "-"
	}
	return hex.EncodeToString(b)
}
func unhx(s string) []byte {
	if s == "-" {
		return []byte{}
	}
	b, err := hex.DecodeString(s)
	if err != nil {
		return []byte{}
	}
	return b
}
func projErr(err error) string {
	switch err {
	case nil:
		return "ok"
	case mwdb.ErrIllegalKey:
		return "err:invalid-key"
	case mwdb.ErrIllegalValue:
		return "err:invalid-value"
	case mwdb.ErrBucketExist:
		return "err:bucket-exists"
	case mwdb.ErrBucketNotFound:
		return "err:bucket-not-found"
	case mwdb.ErrInvalidBucketName:
		return "err:invalid-name"
	case mwdb.ErrIllegalBucketPath:
		return "err:invalid-path"
	case mwdb.ErrWriteNotAllowed:
		return "err:write-not-allowed"
	case mwdb.ErrNotSupported:
		return "err:not-supported"
	case leveldb.ErrClosed:
		return "err:closed"
	}
	return "err:other"
}
func entsStr(es [][2]string) string {
	sort.Slice(es, func(i, j int) bool {
		if es[i][0] != es[j][0] {
			return es[i][0] < es[j][0]
		}
		return es[i][1] < es[j][1]
	})
	p := make([]string, len(es))
	for i, e := range es {
		p[i] = hx([]byte(e[0])) + "=" + hx([]byte(e[1]))
	}
	return "[" + strings.Join(p, ",") + "]"
}
func namesStr(ns []string) string {
	s := append([]string(nil), ns...)
	sort.Strings(s)
	p := make([]string, len(s))
	for i, n := range s {
		p[i] = hx([]byte(n))
	}
	return "names:[" + strings.Join(p, ",") + "]"
}
func validName(n string) bool { return len(n) > 0 && len(n) <= 256 && !strings.Contains(n, "_") }
func encPath(names []string) string {
	return strconv.Itoa(len(names)) + "_" + strings.Join(names, "_")
}

// committed states are never mutated (a write transaction works on a clone), so a pointer is a snapshot
func (r *runner) view(w bool) *refState {
	if w {
		return r.pending
	}
	if r.rsnap != nil {
		return r.rsnap
	}
	return r.committed
}
func (r *runner) deletedHere(p string) bool {
	for q := range r.deleted {
		if strings.HasPrefix(p, q) {
			return true
		}
	}
	return false
}
func (r *runner) verdict(got, want string) string {
	if r.tainted {
		return "-"
	}
	if got == want {
		return "ok"
	}
	return "BAD:" + want
}
func (r *runner) emit(op []string, res, ref string) {
	fmt.Fprintf(r.out, "%s\t%s\t%s\n", strings.Join(op, " "), res, ref)
	r.lines++
	if strings.HasPrefix(ref, "BAD") {
		r.bad++
	}
	r.stats[op[0]]++
}

func (r *runner) open(create bool) {
	var err error
	if create {
		r.db, err = ldb.CreateDB(r.dir)
	} else {
		r.db, err = ldb.OpenDB(r.dir)
	}
	if err != nil {
		panic(fmt.Sprintf("cannot open %s: %v", r.dir, err))
	}
}
func (r *runner) dropTx(w bool) {
	for i := range r.is {
		if r.is[i] != nil && r.is[i].w == w {
			r.is[i].it.Release()
			r.is[i] = nil
		}
	}
	for i := range r.bs {
		if r.bs[i] != nil && r.bs[i].w == w {
			r.bs[i] = nil
		}
	}
}
func (r *runner) reset() {
	r.n++
	r.dir = filepath.Join(r.base, fmt.Sprintf("db%d", r.n))
	r.open(true)
	r.committed, r.pending, r.rsnap, r.deleted, r.tainted, r.closed = newRef(), nil, nil, nil, false, false
}
func (r *runner) teardown() {
	r.dropTx(true)
	r.dropTx(false)
	if r.wtx != nil && !r.inUpd {
		r.wtx.Rollback()
	}
	if r.rtx != nil {
		r.rtx.Rollback()
	}
	r.wtx, r.rtx, r.inUpd = nil, nil, false
	if r.db != nil {
		if !r.closed {
			r.db.Close()
		}
		r.db = nil
	}
	os.RemoveAll(r.dir)
}

// runSeq executes one sequence (a fresh database) drawing ops from r.src until it returns nil.
func (r *runner) runSeq(id string) {
	r.reset()
	r.emit([]string{"reset", id}, "ok", "-")
	for {
		op := r.src()
		if op == nil {
			break
		}
		if op[0] == "ubegin" && r.wtx == nil {
			r.doUpdate(op)
		} else {
			r.execPrint(op)
		}
	}
	r.teardown()
}

func (r *runner) doUpdate(op []string) {
	if r.closed {
		got := projErr(mwdb.Update(r.db, func(tx mwdb.DBTransaction) error { return nil }))
		r.emit(op, got, r.verdict(got, "err:closed"))
		return
	}
	r.emit(op, "ok", "-")
	var endTok []string
	err := mwdb.Update(r.db, func(tx mwdb.DBTransaction) error {
		r.wtx, r.inUpd = tx, true
		r.pending, r.deleted, r.wputs = r.committed.clone(), map[string]bool{}, map[string]map[string]string{}
		for {
			o := r.src()
			if o == nil {
				return errAbort
			}
			if o[0] == "uend" && len(o) == 2 {
				endTok = o
				if o[1] == "1" {
					return errFail
				}
				return nil
			}
			r.execPrint(o)
		}
	})
	r.dropTx(true)
	r.wtx, r.inUpd = nil, false
	if endTok != nil && err == nil {
		r.committed = r.pending
	}
	r.pending = nil
	if endTok != nil {
		want := "ok"
		if endTok[1] == "1" {
			want = "err:other"
		}
		got := projErr(err)
		r.emit(endTok, got, r.verdict(got, want))
	}
}

func (r *runner) execPrint(op []string) {
	res, ref := "panic", "BAD:no-panic"
	func() {
		defer func() {
			if e := recover(); e != nil {
				res, ref = "panic", "BAD:no-panic"
				fmt.Fprintf(os.Stderr, "panic in %v: %v\n", op, e)
			}
		}()
		res, ref = r.exec(op)
	}()
	r.emit(op, res, ref)
}

func atoi(s string) int {
	n, err := strconv.Atoi(s)
	if err != nil || n < 0 || n >= nslots {
		return -1
	}
	return n
}

func (r *runner) txOf(w bool) (interface {
	TopLevelBucket(string) mwdb.Bucket
	FetchBucket(mwdb.BucketMeta) mwdb.Bucket
	BucketNames() ([]string, error)
}, bool) {
	if w {
		if r.wtx == nil {
			return nil, false
		}
		return r.wtx, true
	}
	if r.rtx == nil {
		return nil, false
	}
	return r.rtx, true
}

func (r *runner) pendingTops() []string {
	if r.pending != nil {
		return r.pending.children("")
	}
	return r.committed.children("")
}

// existence verdict for TopLevelBucket / Bucket / FetchBucket
func (r *runner) existVerdict(w bool, names []string, got bool) string {
	if r.tainted {
		return "-"
	}
	want := r.view(w).bk[pid(names)]
	if got == want {
		return "ok"
	}
	if got && !want && w && r.deletedHere(pid(names)) {
		// Bucket() after DeleteBucket in the same transaction still answers: outside the property text
		r.tainted = true
		return "-"
	}
	if want {
		return "BAD:ok"
	}
	return "BAD:nil"
}

func (r *runner) setSlot(dst int, w bool, b mwdb.Bucket, names []string) string {
	if b == nil {
		r.bs[dst] = nil
		return "nil"
	}
	r.bs[dst] = &slot{w, b, append([]string(nil), names...)}
	return "ok"
}

func (r *runner) slotOf(tok string) *slot {
	i := atoi(tok)
	if i < 0 || r.bs[i] == nil {
		return nil
	}
	s := r.bs[i]
	if (s.w && r.wtx == nil) || (!s.w && r.rtx == nil) {
		return nil
	}
	return s
}

func (r *runner) dumpImpl() string {
	var parts []string
	var rec func(b mwdb.Bucket)
	rec = func(b mwdb.Bucket) {
		path := strings.Join(b.GetBucketMeta().Paths(), "_")
		names, err := b.BucketNames()
		if err != nil {
			parts = append(parts, hx([]byte(path))+"!"+projErr(err))
			return
		}
		es, err := b.GetByPrefix(nil)
		if err != nil {
			parts = append(parts, hx([]byte(path))+"!"+projErr(err))
			return
		}
		l := make([][2]string, len(es))
		for i, e := range es {
			l[i] = [2]string{string(e.Key), string(e.Value)}
		}
		parts = append(parts, hx([]byte(path))+entsStr(l))
		sort.Strings(names)
		for _, n := range names {
			if sub := b.Bucket(n); sub != nil {
				rec(sub)
			} else {
				parts = append(parts, hx([]byte(n))+"!err:bucket-not-found")
			}
		}
	}
	verr := mwdb.View(r.db, func(tx mwdb.ReadTransaction) error {
		names, err := tx.BucketNames()
		if err != nil {
			parts = append(parts, "-!"+projErr(err))
			return nil
		}
		sort.Strings(names)
		for _, n := range names {
			if b := tx.TopLevelBucket(n); b != nil {
				rec(b)
			} else {
				parts = append(parts, hx([]byte(n))+"!err:bucket-not-found")
			}
		}
		return nil
	})
	if verr != nil {
		parts = append(parts, "-!"+projErr(verr))
	}
	return "dump:" + strings.Join(parts, ";")
}
func (r *runner) dumpRef() string {
	var parts []string
	var rec func(names []string)
	rec = func(names []string) {
		p := pid(names)
		parts = append(parts, hx([]byte(encPath(names)))+entsStr(r.committed.entries(p, func(string) bool { return true })))
		for _, c := range r.committed.children(p) {
			rec(append(append([]string(nil), names...), c))
		}
	}
	for _, c := range r.committed.children("") {
		rec([]string{c})
	}
	return "dump:" + strings.Join(parts, ";")
}

func (r *runner) exec(op []string) (string, string) {
	bad := func() (string, string) { return "skip", "-" }
	switch op[0] {
	case "put", "rm", "clear", "delb", "new", "ctop", "dtop", "commit", "rollback", "uend", "ubegin":
		r.wepoch++
	}
	switch op[0] {
	case "begin":
		if len(op) != 2 {
			return bad()
		}
		if op[1] == "w" {
			if r.wtx != nil {
				return bad()
			}
			tx, err := r.db.BeginTx()
			if r.closed {
				if err == nil {
					tx.Rollback()
				}
				return projErr(err), r.verdict(projErr(err), "err:closed")
			}
			if err != nil {
				return projErr(err), "BAD:ok"
			}
			r.wtx = tx
			r.pending, r.deleted, r.wputs = r.committed.clone(), map[string]bool{}, map[string]map[string]string{}
			return "ok", "-"
		}
		if r.rtx != nil {
			return bad()
		}
		tx, err := r.db.BeginReadTx()
		if r.closed {
			if err == nil {
				tx.Rollback()
			}
			return projErr(err), r.verdict(projErr(err), "err:closed")
		}
		if err != nil {
			return projErr(err), "BAD:ok"
		}
		r.rtx, r.rsnap = tx, r.committed
		return "ok", "-"
	case "commit", "rollback":
		if r.wtx == nil || r.inUpd {
			return bad()
		}
		r.dropTx(true)
		var err error
		if op[0] == "commit" {
			err = r.wtx.Commit()
			if err == nil {
				r.committed = r.pending
			}
		} else {
			err = r.wtx.Rollback()
		}
		r.wtx, r.pending = nil, nil
		got := projErr(err)
		return got, r.verdict(got, "ok")
	case "rend":
		if r.rtx == nil {
			return bad()
		}
		r.dropTx(false)
		err := r.rtx.Rollback()
		r.rtx, r.rsnap = nil, nil
		return projErr(err), "-"
	case "ubegin", "uend":
		return bad()
	case "close":
		if r.wtx != nil || r.rtx != nil || r.closed {
			return bad()
		}
		if err := r.db.Close(); err != nil {
			return projErr(err), "BAD:ok"
		}
		r.closed = true
		return "ok", "-"
	case "reopen":
		if r.wtx != nil || r.rtx != nil {
			return bad()
		}
		if !r.closed {
			if err := r.db.Close(); err != nil {
				return projErr(err), "BAD:ok"
			}
		}
		r.db, r.closed = nil, false
		r.open(false)
		return "ok", "-"
	case "dump":
		got := r.dumpImpl()
		if r.closed {
			return got, r.verdict(got, "dump:-!err:closed")
		}
		return got, r.verdict(got, r.dumpRef())
	case "bp":
		if len(op) != 2 {
			return bad()
		}
		p := unhx(op[1])
		rg := mwdb.BytesPrefix(append([]byte(nil), p...))
		lim := "none"
		if rg.Limit != nil {
			lim = hx(rg.Limit)
		}
		got := "range:" + hx(rg.Start) + ":" + lim
		// reference: strip trailing 0xff, increment the last remaining byte
		q := append([]byte(nil), p...)
		for len(q) > 0 && q[len(q)-1] == 0xff {
			q = q[:len(q)-1]
		}
		want := "range:" + hx(p) + ":none"
		if len(q) > 0 {
			q[len(q)-1]++
			want = "range:" + hx(p) + ":" + hx(q)
		}
		return got, r.verdict(got, want)
	case "top", "txnames", "fetch":
		if len(op) < 2 {
			return bad()
		}
		w := op[1] == "w"
		tx, ok := r.txOf(w)
		if !ok {
			return bad()
		}
		switch op[0] {
		case "top":
			if len(op) != 4 || atoi(op[2]) < 0 {
				return bad()
			}
			name := string(unhx(op[3]))
			b := tx.TopLevelBucket(name)
			v := r.existVerdict(w, []string{name}, b != nil)
			return r.setSlot(atoi(op[2]), w, b, []string{name}), v
		case "txnames":
			names, err := tx.BucketNames()
			if err != nil {
				return projErr(err), r.verdict("err", "names")
			}
			got := namesStr(names)
			return got, r.verdict(got, namesStr(r.view(w).children("")))
		default:
			if len(op) != 4 || atoi(op[2]) < 0 {
				return bad()
			}
			s := r.slotOf(op[3])
			if s == nil {
				return bad()
			}
			b := tx.FetchBucket(s.b.GetBucketMeta())
			v := r.existVerdict(w, s.names, b != nil)
			return r.setSlot(atoi(op[2]), w, b, s.names), v
		}
	case "ctop":
		if len(op) != 3 || atoi(op[1]) < 0 || r.wtx == nil {
			return bad()
		}
		name := string(unhx(op[2]))
		p := pid([]string{name})
		b, err := r.wtx.CreateTopLevelBucket(name)
		got := projErr(err)
		want := ""
		switch {
		case !validName(name):
			want = "err:invalid-name"
		case r.committed.bk[p]:
			want = "err:bucket-exists"
		case !r.pending.bk[p]:
			want = "ok"
		}
		if err == nil {
			r.pending.bk[p] = true
			r.setSlot(atoi(op[1]), true, b, []string{name})
		}
		if want == "" {
			return got, "-"
		}
		return got, r.verdict(got, want)
	case "dtop":
		if len(op) != 2 || r.wtx == nil {
			return bad()
		}
		return projErr(r.wtx.DeleteTopLevelBucket(string(unhx(op[1])))), "-"
	case "new", "bkt":
		if len(op) != 4 || atoi(op[1]) < 0 {
			return bad()
		}
		s := r.slotOf(op[2])
		if s == nil {
			return bad()
		}
		name := string(unhx(op[3]))
		names := append(append([]string(nil), s.names...), name)
		p := pid(names)
		if op[0] == "bkt" {
			b := s.b.Bucket(name)
			v := r.existVerdict(s.w, names, b != nil)
			return r.setSlot(atoi(op[1]), s.w, b, names), v
		}
		b, err := s.b.NewBucket(name)
		got := projErr(err)
		want := ""
		switch {
		case !s.w:
			want = "err:write-not-allowed"
		case !validName(name):
			want = "err:invalid-name"
		case r.committed.bk[p] && r.pending.bk[p]:
			want = "err:bucket-exists"
		case !r.pending.bk[p] && !r.deletedHere(p):
			want = "ok"
		}
		if err == nil {
			if !r.pending.bk[pid(s.names)] {
				r.tainted = true // a bucket created under a parent that no longer exists: outside the property text
			}
			r.pending.bk[p] = true
			r.setSlot(atoi(op[1]), true, b, names)
		}
		if want == "" {
			return got, "-"
		}
		return got, r.verdict(got, want)
	case "delb":
		if len(op) != 3 {
			return bad()
		}
		s := r.slotOf(op[1])
		if s == nil {
			return bad()
		}
		name := string(unhx(op[2]))
		p := pid(append(append([]string(nil), s.names...), name))
		got := projErr(s.b.DeleteBucket(name))
		if !s.w {
			return got, r.verdict(got, "err:write-not-allowed")
		}
		if r.pending.bk[p] {
			r.pending.removeTree(p)
			r.deleted[p] = true
		}
		for q := range r.wputs {
			if strings.HasPrefix(q, p) {
				delete(r.wputs, q)
			}
		}
		return got, r.verdict(got, "ok")
	case "names":
		if len(op) != 2 {
			return bad()
		}
		s := r.slotOf(op[1])
		if s == nil {
			return bad()
		}
		names, err := s.b.BucketNames()
		if err != nil {
			return projErr(err), r.verdict("err", "names")
		}
		got := namesStr(names)
		return got, r.verdict(got, namesStr(r.view(s.w).children(pid(s.names))))
	case "put":
		if len(op) != 4 {
			return bad()
		}
		s := r.slotOf(op[1])
		if s == nil {
			return bad()
		}
		k, v := unhx(op[2]), unhx(op[3])
		got := projErr(s.b.Put(append([]byte(nil), k...), append([]byte(nil), v...)))
		want := "ok"
		switch {
		case !s.w:
			want = "err:write-not-allowed"
		case len(v) == 0:
			want = "err:invalid-value"
		case len(k) == 0:
			want = "err:invalid-key"
		}
		if got == "ok" {
			if !r.pending.bk[pid(s.names)] {
				r.tainted = true // write through a handle of a deleted bucket: outside the property text
			}
			r.pending.put(pid(s.names), string(k), string(v))
			if r.wputs[pid(s.names)] == nil {
				r.wputs[pid(s.names)] = map[string]string{}
			}
			r.wputs[pid(s.names)][string(k)] = string(v)
		}
		return got, r.verdict(got, want)
	case "rm":
		if len(op) != 3 {
			return bad()
		}
		s := r.slotOf(op[1])
		if s == nil {
			return bad()
		}
		k := unhx(op[2])
		got := projErr(s.b.Delete(append([]byte(nil), k...)))
		if !s.w {
			return got, r.verdict(got, "err:write-not-allowed")
		}
		if got == "ok" && r.pending.kv[pid(s.names)] != nil {
			delete(r.pending.kv[pid(s.names)], string(k))
		}
		if got == "ok" && r.wputs[pid(s.names)] != nil {
			delete(r.wputs[pid(s.names)], string(k))
		}
		return got, r.verdict(got, "ok")
	case "get":
		if len(op) != 3 {
			return bad()
		}
		s := r.slotOf(op[1])
		if s == nil {
			return bad()
		}
		k := unhx(op[2])
		v, err := s.b.Get(append([]byte(nil), k...))
		got := "nil"
		if err != nil {
			got = projErr(err)
		} else if v != nil {
			got = "v:" + hx(v)
		}
		want := "nil"
		if x, ok := r.view(s.w).kv[pid(s.names)][string(k)]; ok {
			want = "v:" + hx([]byte(x))
		}
		return got, r.verdict(got, want)
	case "clear":
		if len(op) != 2 {
			return bad()
		}
		s := r.slotOf(op[1])
		if s == nil {
			return bad()
		}
		got := projErr(s.b.Clear())
		if !s.w {
			return got, r.verdict(got, "err:write-not-allowed")
		}
		if got == "ok" {
			delete(r.pending.kv, pid(s.names))
			delete(r.wputs, pid(s.names))
		}
		return got, r.verdict(got, "ok")
	case "pfx":
		if len(op) != 3 {
			return bad()
		}
		s := r.slotOf(op[1])
		if s == nil {
			return bad()
		}
		p := unhx(op[2])
		es, err := s.b.GetByPrefix(append([]byte(nil), p...))
		if err != nil {
			return projErr(err), r.verdict("err", "ents")
		}
		l := make([][2]string, len(es))
		for i, e := range es {
			l[i] = [2]string{string(e.Key), string(e.Value)}
		}
		got := "ents:" + entsStr(l)
		want := "ents:" + entsStr(r.view(s.w).entries(pid(s.names), func(k string) bool { return strings.HasPrefix(k, string(p)) }))
		return got, r.verdict(got, want)
	case "iter":
		if len(op) != 6 || atoi(op[1]) < 0 {
			return bad()
		}
		s := r.slotOf(op[2])
		if s == nil {
			return bad()
		}
		dst := atoi(op[1])
		if r.is[dst] != nil {
			r.is[dst].it.Release()
			r.is[dst] = nil
		}
		a, l := unhx(op[4]), unhx(op[5])
		var it mwdb.Iterator
		var keep func(k string) bool
		switch op[3] {
		case "0":
			it = s.b.NewIterator(nil)
			keep = func(string) bool { return true }
		case "1":
			it = s.b.NewIterator(&mwdb.Range{Start: append([]byte(nil), a...), Limit: append([]byte(nil), l...)})
			keep = func(k string) bool { return k >= string(a) && (len(l) == 0 || k < string(l)) }
		default:
			it = s.b.NewIterator(mwdb.BytesPrefix(append([]byte(nil), a...)))
			keep = func(k string) bool { return strings.HasPrefix(k, string(a)) }
		}
		sl := &islot{w: s.w, it: it}
		if !s.w && !r.tainted {
			sl.ref = &refIter{ents: r.view(false).entries(pid(s.names), keep), pos: -1}
		} else if s.w && !r.tainted {
			// an iterator of the write transaction lists what the transaction sees when it is created (its own puts
			// and deletes included); it is judged as long as the transaction writes nothing more (seed C11g: a cached
			// sorted key list made a NEW iterator miss a key that had been put, deleted and put again)
			sl.ref = &refIter{ents: r.view(true).entries(pid(s.names), keep), pos: -1, epoch: r.wepoch, two: true, pos2: -1}
			sl.ref.a = r.committed.entries(pid(s.names), keep)
			sl.ref.ents2 = append([][2]string(nil), sl.ref.a...)
			var b [][2]string
			for k, v := range r.wputs[pid(s.names)] {
				if keep(k) {
					b = append(b, [2]string{k, v})
				}
			}
			sort.Slice(b, func(i, j int) bool { return b[i][0] < b[j][0] })
			sl.ref.b = b
			sl.ref.ents2 = append(sl.ref.ents2, b...)
		}
		r.is[dst] = sl
		return "ok", "-"
	case "seek", "next", "rel":
		if len(op) < 2 || atoi(op[1]) < 0 || r.is[atoi(op[1])] == nil {
			return bad()
		}
		sl := r.is[atoi(op[1])]
		if op[0] == "rel" {
			sl.it.Release()
			r.is[atoi(op[1])] = nil
			return "ok", "-"
		}
		var ok bool
		if op[0] == "seek" {
			if len(op) != 3 {
				return bad()
			}
			k := unhx(op[2])
			ok = sl.it.Seek(append([]byte(nil), k...))
			if sl.ref != nil {
				sl.ref.pos = sort.Search(len(sl.ref.ents), func(i int) bool { return sl.ref.ents[i][0] >= string(k) })
				// design list after Seek(k): the committed run from k on, then the run of net puts from k on
				sl.ref.ents2 = nil
				for _, run := range [][][2]string{sl.ref.a, sl.ref.b} {
					for _, e := range run {
						if e[0] >= string(k) {
							sl.ref.ents2 = append(sl.ref.ents2, e)
						}
					}
				}
				sl.ref.pos2 = 0
			}
		} else {
			ok = sl.it.Next()
			if sl.ref != nil && sl.ref.pos < len(sl.ref.ents) {
				sl.ref.pos++
			}
			if sl.ref != nil && sl.ref.pos2 < len(sl.ref.ents2) {
				sl.ref.pos2++
			}
		}
		key, val := sl.it.Key(), sl.it.Value()
		ks := "nil"
		if key != nil {
			ks = hx(key)
		}
		got := fmt.Sprintf("it:%s:%s:%s", map[bool]string{true: "T", false: "F"}[ok], ks, hx(val))
		if sl.ref == nil || (sl.w && sl.ref.epoch != r.wepoch) {
			return got, "-"
		}
		want := "it:F:nil:-"
		if sl.ref.pos >= 0 && sl.ref.pos < len(sl.ref.ents) {
			e := sl.ref.ents[sl.ref.pos]
			want = fmt.Sprintf("it:T:%s:%s", hx([]byte(e[0])), hx([]byte(e[1])))
		}
		if sl.ref.two && got != want && !r.tainted {
			want2 := "it:F:nil:-"
			if sl.ref.pos2 >= 0 && sl.ref.pos2 < len(sl.ref.ents2) {
				e := sl.ref.ents2[sl.ref.pos2]
				want2 = fmt.Sprintf("it:T:%s:%s", hx([]byte(e[0])), hx([]byte(e[1])))
			}
			if got == want2 {
				// not the transaction's view, but exactly what the design yields: the recorded finding
				return got, "KF:" + want
			}
		}
		return got, r.verdict(got, want)
	}
	return bad()
}

// ---------------------------------------------------------------- generator

var namePool = []string{"a", "b", "ab", "1", "2", "10", "\x00", "\xff", "a\xff", "b1", "k", "_", "a_b", "", "2_a"}
var keyPool = []string{"a", "b", "ab", "abc", "a_", "_", "__", "_a", "a_b", "1", "2", "1_a", "2_a_b", "b_1_a", "b_2_a_b",
	"\x00", "a\x00", "\xff", "\xff\xff", "a\xff", "a\xff\xff", "a\xffb", "\xfe", "\xfe\xff", "k1", "k2", "`", "a`", ""}
var valPool = []string{"v", "w", "x", "\x00", "\xff", "a_b", "1", ""}
var alphabet = []byte{'_', '1', '2', 'a', 'b', 0x00, 0xff, 0xfe, '`', '^'}

type gen struct {
	r    *rng.R
	run  *runner
	left int
	// per-sequence working sets (small, so that reads hit what was written)
	wn, wk []string
	queue  [][]string // follow-ups: read back what was just written / deleted
}

func newGen(r *rng.R, run *runner, left int) *gen {
	g := &gen{r: r, run: run, left: left}
	for i, n := 0, 2+r.Intn(3); i < n; i++ {
		g.wn = append(g.wn, g.poolName())
	}
	for i, n := 0, 3+r.Intn(6); i < n; i++ {
		g.wk = append(g.wk, g.poolKey())
	}
	return g
}
func (g *gen) name() string {
	if g.r.Chance(80) {
		return g.wn[g.r.Intn(len(g.wn))]
	}
	return g.poolName()
}
func (g *gen) key() string {
	if g.r.Chance(80) {
		return g.wk[g.r.Intn(len(g.wk))]
	}
	return g.poolKey()
}
func (g *gen) prefix() string {
	k := g.key()
	switch c := g.r.Intn(10); {
	case c < 2:
		return ""
	case c < 6 && len(k) > 0:
		return k[:1+g.r.Intn(len(k))]
	case c < 7:
		return k + "\xff"
	}
	return k
}

func (g *gen) randBytes(max int) string {
	n := g.r.Intn(max + 1)
	b := make([]byte, n)
	for i := range b {
		b[i] = alphabet[g.r.Intn(len(alphabet))]
	}
	return string(b)
}
func (g *gen) poolName() string {
	switch k := g.r.Intn(100); {
	case k < 80:
		return namePool[g.r.Intn(len(namePool))]
	case k < 84:
		return strings.Repeat("n", 256)
	case k < 86:
		return strings.Repeat("n", 257)
	default:
		return strings.Replace(g.randBytes(3), "_", "c", -1)
	}
}
func (g *gen) poolKey() string {
	switch k := g.r.Intn(100); {
	case k < 75:
		return keyPool[g.r.Intn(len(keyPool))]
	case k < 78:
		return strings.Repeat("x", 300) + g.randBytes(2)
	default:
		return g.randBytes(4)
	}
}
func (g *gen) val() string {
	switch k := g.r.Intn(100); {
	case k < 80:
		return valPool[g.r.Intn(len(valPool))]
	case k < 84:
		return strings.Repeat("V", 700)
	default:
		return g.randBytes(5)
	}
}
func h(s string) string { return hx([]byte(s)) }

// pick a filled bucket slot of the given transaction kind (or any), -1 if none
func (g *gen) slot(want func(*slot) bool) int {
	var c []int
	for i, s := range g.run.bs {
		if s != nil && want(s) {
			c = append(c, i)
		}
	}
	if len(c) == 0 {
		return -1
	}
	return c[g.r.Intn(len(c))]
}
func (g *gen) islot() int {
	var c []int
	for i, s := range g.run.is {
		if s != nil {
			c = append(c, i)
		}
	}
	if len(c) == 0 {
		return -1
	}
	return c[g.r.Intn(len(c))]
}
func (g *gen) dst() string { return strconv.Itoa(g.r.Intn(nslots - 2)) }

func (g *gen) next() []string {
	if g.left <= 0 {
		return nil
	}
	g.left--
	if len(g.queue) > 0 {
		op := g.queue[0]
		g.queue = g.queue[1:]
		return op
	}
	op := g.pick()
	r := g.r
	switch op[0] {
	case "put":
		if r.Chance(30) {
			g.queue = append(g.queue, []string{"get", op[1], op[2]})
		}
		if r.Chance(10) && op[2] != "-" {
			g.queue = append(g.queue, []string{"pfx", op[1], op[2][:2]})
		}
	case "rm":
		if r.Chance(40) {
			g.queue = append(g.queue, []string{"get", op[1], op[2]})
		}
		if r.Chance(25) {
			// delete, list, put the same key again, list with a fresh iterator
			d1, d2 := "0", "1"
			g.queue = append(g.queue, []string{"iter", d1, op[1], "0", "-", "-"}, []string{"next", d1},
				[]string{"put", op[1], op[2], h(g.val())},
				[]string{"iter", d2, op[1], "0", "-", "-"}, []string{"next", d2}, []string{"next", d2}, []string{"next", d2}, []string{"seek", d2, op[2]})
		}
	case "clear":
		if r.Chance(50) {
			g.queue = append(g.queue, []string{"pfx", op[1], "-"})
		}
	case "delb":
		if r.Chance(40) {
			g.queue = append(g.queue, []string{"names", op[1]})
		}
		if r.Chance(50) { // Bucket() / NewBucket right after DeleteBucket in the same transaction
			d := g.dst()
			if r.Chance(30) {
				g.queue = append(g.queue, []string{"bkt", d, op[1], op[2]})
			} else {
				g.queue = append(g.queue, []string{"new", d, op[1], op[2]})
			}
			g.queue = append(g.queue, []string{"pfx", d, "-"})
		}
	case "new", "ctop":
		if r.Chance(25) {
			if op[0] == "new" {
				g.queue = append(g.queue, []string{"names", op[2]})
			} else {
				g.queue = append(g.queue, []string{"txnames", "w"})
			}
		}
	case "commit", "uend":
		if g.run.rtx != nil {
			if tops := g.run.pendingTops(); len(tops) > 0 {
				g.queue = append(g.queue, []string{"top", "r", g.dst(), h(tops[r.Intn(len(tops))])})
			}
			g.queue = append(g.queue, []string{"txnames", "r"})
			if s := g.slot(func(s *slot) bool { return !s.w }); s >= 0 {
				g.queue = append(g.queue, []string{"get", strconv.Itoa(s), h(g.key())}, []string{"pfx", strconv.Itoa(s), "-"},
					[]string{"names", strconv.Itoa(s)}, []string{"iter", "2", strconv.Itoa(s), "0", "-", "-"}, []string{"next", "2"})
			}
		}
	case "iter":
		for i, n := 0, r.Intn(5); i < n; i++ {
			g.queue = append(g.queue, []string{"next", op[1]})
		}
	}
	return op
}

func (g *gen) pick() []string {
	run, r := g.run, g.r
	if i := g.islot(); i >= 0 && r.Chance(25) {
		if r.Chance(25) {
			return []string{"seek", strconv.Itoa(i), h(g.key())}
		}
		return []string{"next", strconv.Itoa(i)}
	}
	if run.wtx == nil && run.rtx != nil { // inside a read transaction only: mostly reads and scans
		rs := func(s *slot) bool { return !s.w }
		k := r.Intn(100)
		s := g.slot(rs)
		if s < 0 && k >= 60 {
			if k < 85 {
				return []string{"begin", "w"}
			}
			return []string{"rend"}
		}
		switch {
		case s < 0 || k < 15:
			if tops := run.committed.children(""); len(tops) > 0 && r.Chance(85) {
				return []string{"top", "r", g.dst(), h(tops[r.Intn(len(tops))])}
			}
			return []string{"top", "r", g.dst(), h(g.name())}
		case k < 30:
			if subs := run.view(false).children(pid(run.bs[s].names)); len(subs) > 0 && r.Chance(70) {
				return []string{"bkt", g.dst(), strconv.Itoa(s), h(subs[r.Intn(len(subs))])}
			}
			return []string{"bkt", g.dst(), strconv.Itoa(s), h(g.name())}
		case k < 55:
			if s2 := g.slot(func(s *slot) bool { return !s.w && len(run.view(false).kv[pid(s.names)]) > 0 }); s2 >= 0 {
				s = s2
			}
			d := strconv.Itoa(r.Intn(3))
			switch m := r.Intn(10); {
			case m < 3:
				return []string{"iter", d, strconv.Itoa(s), "0", "-", "-"}
			case m < 6:
				return []string{"iter", d, strconv.Itoa(s), "1", h(g.key()), h(g.key())}
			default:
				return []string{"iter", d, strconv.Itoa(s), "2", h(g.prefix()), "-"}
			}
		case k < 65:
			return []string{"get", strconv.Itoa(s), h(g.key())}
		case k < 75:
			return []string{"pfx", strconv.Itoa(s), h(g.prefix())}
		case k < 80:
			return []string{"names", strconv.Itoa(s)}
		case k < 83:
			return []string{"txnames", "r"}
		case k < 86:
			return []string{"put", strconv.Itoa(s), h(g.key()), h(g.val())}
		case k < 92:
			return []string{"rend"}
		case k < 97:
			return []string{"begin", "w"}
		default:
			return []string{"ubegin"}
		}
	}
	for try := 0; try < 50; try++ {
		k := r.Intn(1000)
		anyS := func(*slot) bool { return true }
		wS := func(s *slot) bool { return s.w }
		if run.wtx == nil && run.rtx == nil && run.closed {
			switch {
			case k < 500:
				return []string{"reopen"}
			case k < 650:
				return []string{"begin", "w"}
			case k < 800:
				return []string{"begin", "r"}
			case k < 900:
				return []string{"ubegin"}
			default:
				return []string{"dump"}
			}
		}
		if run.wtx == nil && run.rtx == nil {
			if k >= 985 {
				return []string{"close"}
			}
			switch {
			case k < 300:
				return []string{"ubegin"}
			case k < 600:
				return []string{"begin", "w"}
			case k < 820:
				return []string{"begin", "r"}
			case k < 900:
				return []string{"reopen"}
			case k < 960:
				return []string{"dump"}
			default:
				return []string{"bp", h(g.prefix())}
			}
		}
		if run.wtx == nil { // only a read transaction
			switch {
			case k < 120:
				return []string{"begin", "w"}
			case k < 200:
				return []string{"ubegin"}
			case k < 260:
				return []string{"rend"}
			}
		}
		if run.wtx != nil && run.rtx == nil && k < 40 {
			return []string{"begin", "r"} // a read transaction that stays open across the commit of this write transaction
		}
		w := run.wtx != nil && (run.rtx == nil || r.Chance(75))
		ws := map[bool]string{true: "w", false: "r"}[w]
		mine := func(s *slot) bool { return s.w == w }
		switch {
		case k < 290:
			if run.wtx != nil && r.Chance(15) {
				if run.inUpd {
					return []string{"uend", map[bool]string{true: "1", false: "0"}[r.Chance(30)]}
				}
				if r.Chance(70) {
					return []string{"commit"}
				}
				return []string{"rollback"}
			}
			if s := g.slot(wS); s >= 0 {
				return []string{"put", strconv.Itoa(s), h(g.key()), h(g.val())}
			}
			if run.wtx != nil {
				return []string{"ctop", g.dst(), h(g.name())}
			}
		case k < 340:
			if run.wtx != nil {
				return []string{"ctop", g.dst(), h(g.name())}
			}
		case k < 400:
			if tops := run.view(w).children(""); len(tops) > 0 && r.Chance(60) {
				return []string{"top", ws, g.dst(), h(tops[r.Intn(len(tops))])}
			}
			return []string{"top", ws, g.dst(), h(g.name())}
		case k < 470:
			if s := g.slot(wS); s >= 0 && run.bs[s].names != nil && len(run.bs[s].names) < 5 {
				return []string{"new", g.dst(), strconv.Itoa(s), h(g.name())}
			}
		case k < 530:
			if s := g.slot(mine); s >= 0 {
				return []string{"bkt", g.dst(), strconv.Itoa(s), h(g.name())}
			}
		case k < 570:
			if s := g.slot(wS); s >= 0 {
				return []string{"delb", strconv.Itoa(s), h(g.name())}
			}
		case k < 610:
			if s := g.slot(mine); s >= 0 {
				return []string{"names", strconv.Itoa(s)}
			}
		case k < 630:
			return []string{"txnames", ws}
		case k < 690:
			if s := g.slot(wS); s >= 0 {
				return []string{"rm", strconv.Itoa(s), h(g.key())}
			}
		case k < 780:
			if s := g.slot(mine); s >= 0 {
				return []string{"get", strconv.Itoa(s), h(g.key())}
			}
		case k < 840:
			if s := g.slot(mine); s >= 0 {
				return []string{"pfx", strconv.Itoa(s), h(g.prefix())}
			}
		case k < 850:
			if s := g.slot(wS); s >= 0 {
				return []string{"clear", strconv.Itoa(s)}
			}
		case k < 860:
			if s := g.slot(anyS); s >= 0 {
				return []string{"fetch", ws, g.dst(), strconv.Itoa(s)}
			}
		case k < 900:
			if s := g.slot(func(s *slot) bool { return !s.w || r.Chance(30) }); s >= 0 {
				d := strconv.Itoa(r.Intn(3))
				switch m := r.Intn(10); {
				case m < 3:
					return []string{"iter", d, strconv.Itoa(s), "0", "-", "-"}
				case m < 6:
					return []string{"iter", d, strconv.Itoa(s), "1", h(g.key()), h(g.key())}
				default:
					return []string{"iter", d, strconv.Itoa(s), "2", h(g.prefix()), "-"}
				}
			}
		case k < 960:
			if i := g.islot(); i >= 0 {
				if r.Chance(25) {
					return []string{"seek", strconv.Itoa(i), h(g.key())}
				}
				return []string{"next", strconv.Itoa(i)}
			}
		case k < 965:
			if i := g.islot(); i >= 0 {
				return []string{"rel", strconv.Itoa(i)}
			}
		case k < 975:
			return []string{"dump"}
		case k < 980:
			if run.wtx != nil {
				return []string{"dtop", h(g.name())}
			}
		case k < 990:
			if s := g.slot(func(s *slot) bool { return !s.w }); s >= 0 { // writes through a read-only bucket
				return []string{"put", strconv.Itoa(s), h(g.key()), h(g.val())}
			}
		default:
			return []string{"bp", h(g.prefix())}
		}
	}
	return []string{"bp", h(g.prefix())}
}

// ---------------------------------------------------------------- exhaustive small sequences

// every sequence of length <= maxLen over a small op alphabet, run after a fixed committed prologue
func exhaustive(maxLen int, f func(id string, ops [][]string)) {
	A, B, C := h("a"), h("k"), h("c")
	k1, k2, v1, v2 := h("a"), h("a\xff"), h("v"), h("w")
	pro := [][]string{{"begin", "w"}, {"ctop", "0", A}, {"put", "0", k1, v1}, {"new", "1", "0", C}, {"put", "1", k1, v1}, {"commit"},
		{"begin", "r"}, {"top", "r", "4", A}, {"bkt", "5", "4", C}, // a read transaction that stays open to the end
		{"begin", "w"}, {"top", "w", "0", A}, {"bkt", "1", "0", C}}
	alpha := [][][]string{
		{{"put", "0", k1, v2}}, {{"put", "0", k2, v1}}, {{"rm", "0", k1}}, {{"get", "0", k1}}, {{"pfx", "0", k1}},
		{{"clear", "0"}}, {{"put", "1", k1, v2}}, {{"delb", "0", C}}, {{"new", "1", "0", C}}, {{"names", "0"}},
		{{"commit"}, {"dump"}, {"begin", "w"}, {"top", "w", "0", A}, {"bkt", "1", "0", C}},
		{{"rollback"}, {"dump"}, {"begin", "w"}, {"top", "w", "0", A}, {"bkt", "1", "0", C}},
		{{"get", "1", k1}}, {{"pfx", "1", "-"}},
	}
	_ = B
	// the sub bucket is listed through its handle before the commit (seed C11f: a prefix read of a bucket deleted and
	// re-created in the same transaction ignored the transaction's own deletes)
	epi := [][]string{{"pfx", "0", "-"}, {"pfx", "1", "-"}, {"names", "0"}, {"commit"}, {"dump"},
		{"get", "4", k1}, {"pfx", "4", "-"}, {"names", "4"}, {"pfx", "5", "-"}, {"rend"}, {"begin", "r"}, {"top", "r", "2", A}, {"iter", "0", "2", "2", k1, "-"},
		{"next", "0"}, {"next", "0"}, {"next", "0"}, {"seek", "0", k2}, {"bkt", "3", "2", C}, {"pfx", "3", "-"}}
	idx := make([]int, 0, maxLen)
	n := 0
	var rec func()
	rec = func() {
		ops := append([][]string(nil), pro...)
		for _, i := range idx {
			ops = append(ops, alpha[i]...)
		}
		ops = append(ops, epi...)
		f(fmt.Sprintf("x%d", n), ops)
		n++
		if len(idx) == maxLen {
			return
		}
		for i := range alpha {
			idx = append(idx, i)
			rec()
			idx = idx[:len(idx)-1]
		}
	}
	rec()
}

// ---------------------------------------------------------------- main

func main() {
	tier := flag.String("tier", "quick", "quick|thorough")
	outPath := flag.String("out", "", "output file")
	replay := flag.String("replay", "", "file with op lines (first tab-separated field); 'reset' starts a new database")
	shard := flag.String("shard", "0/1", "i/n: run the sequences with index = i mod n")
	nseq := flag.Int("n", 0, "number of random sequences (default by tier)")
	nops := flag.Int("ops", 60, "ops per random sequence")
	exh := flag.Int("exhaustive", -1, "max length of the exhaustive small sequences (default by tier; 0 = none)")
	flag.Parse()

	f := os.Stdout
	if *outPath != "" {
		var err error
		f, err = os.Create(*outPath)
		if err != nil {
			panic(err)
		}
		defer f.Close()
	}
	base, err := os.MkdirTemp("", "verif-c11-")
	if err != nil {
		panic(err)
	}
	defer os.RemoveAll(base)
	logging.Init(filepath.Join(base, "log"), "c11.log", "fatal", 1, true)

	run := &runner{out: bufio.NewWriterSize(f, 1<<20), base: base, stats: map[string]int{}}
	defer run.out.Flush()

	if *replay != "" {
		data, err := os.ReadFile(*replay)
		if err != nil {
			panic(err)
		}
		var seqs [][][]string
		var ids []string
		for _, line := range strings.Split(string(data), "\n") {
			opstr := strings.SplitN(line, "\t", 2)[0]
			if strings.TrimSpace(opstr) == "" {
				continue
			}
			toks := strings.Split(opstr, " ")
			if toks[0] == "reset" {
				seqs = append(seqs, nil)
				id := "r"
				if len(toks) > 1 {
					id = toks[1]
				}
				ids = append(ids, id)
				continue
			}
			if len(seqs) == 0 {
				seqs = append(seqs, nil)
				ids = append(ids, "r0")
			}
			seqs[len(seqs)-1] = append(seqs[len(seqs)-1], toks)
		}
		for i, ops := range seqs {
			pos := 0
			run.src = func() []string {
				if pos >= len(ops) {
					return nil
				}
				pos++
				return ops[pos-1]
			}
			run.runSeq(ids[i])
		}
		return
	}

	var si, sn int
	fmt.Sscanf(*shard, "%d/%d", &si, &sn)
	if sn <= 0 {
		sn = 1
	}
	n := *nseq
	if n == 0 {
		n = 2000
		if *tier == "thorough" {
			n = 12000
		}
	}
	ex := *exh
	if ex < 0 {
		ex = 2
		if *tier == "thorough" {
			ex = 4
		}
	}
	seed := rng.Seed()
	for j := 0; j < n; j++ {
		if j%sn != si {
			continue
		}
		g := newGen(rng.New(seed*1000003+uint64(j)*7919+11), run, *nops)
		if j%10 == 9 {
			g.left = *nops * 3
		}
		run.src = g.next
		run.runSeq(fmt.Sprintf("s%d", j))
	}
	cnt := 0
	if ex > 0 {
		exhaustive(ex, func(id string, ops [][]string) {
			cnt++
			if (cnt-1)%sn != si {
				return
			}
			pos := 0
			run.src = func() []string {
				if pos >= len(ops) {
					return nil
				}
				pos++
				return ops[pos-1]
			}
			run.runSeq(id)
		})
	}
	fmt.Fprintf(os.Stderr, "stats lines=%d refbad=%d kinds=%v\n", run.lines, run.bad, run.stats)
}
