// The bounce family of c07: a rescan batch runs while the node is on a chain the handler has not been
// told about, and the node is BACK on the handler's chain before the handler runs again.
//
//   instance 1   the original wallet lives through a short random history whose last blocks pay it;
//   instance 2   the twin is restored with the import worker parked in front of the write transaction of
//                one of its batches (the handler is suspended by asyncImport at that point). While it is
//                parked the node leaves the handler's chain: d blocks disconnected, a side branch of
//                d-1 .. d+1 blocks connected (paying the twin, spending one of its coins, both, or leaving
//                out what the disconnected blocks paid). The batch then runs — it reads the side branch —
//                and is parked again inside its commit (or roll-back), the handler still suspended.
//                The node goes back: side branch disconnected, r of the d old blocks connected again,
//                0..2 new blocks on top. Only then is anybody released; stale or current announcements
//                are queued in between. The handler never sees a reason to roll back below the height
//                at which the node rejoined its chain.
//   The code as found commits what the batch read on the side branch (and hands the wallet over when the
//   batch reaches the handler's height): the twin ends ready with credits of blocks that are not on the
//   chain, or without credits of blocks that are. The repaired code refuses such a batch and retries it.
//   Long cases (1001+ blocks) put the bounce at the last of two batches, or at the first one (the side
//   branch replaces the blocks around height 1000, the batch commits them and moves the cursor on).
//
// Everything is written in the line format of internal/hist and replayed on the model (N attach / N
// detach / M / P lines in the order things happened); at the end the twin is compared with the model,
// the chain specification and the original wallet.
package main

import (
	"bufio"
	"strings"

	"github.com/massnetorg/mass-core/massutil"
	"github.com/massnetorg/mass-core/wire"
	"verifharness/internal/gate"
	"verifharness/internal/hist"
	"verifharness/internal/rng"
	"verifharness/internal/sim"
)

// sideBlock builds one block of the side branch on the node's current tip.
//   pay:   its coinbase pays an address of the twin
//   spend: it spends one mature standard coin of the twin (to a stranger)
func sideBlock(h *hist.H, r *rng.R, twin *hist.WInfo, pay, spend bool) *massutil.Block {
	var cb []sim.Out
	if pay && len(twin.Addrs) > 0 {
		a := twin.Addrs[r.Intn(len(twin.Addrs))]
		cb = append(cb, sim.Out{Script: h.ScriptStd(a), Value: int64(1+r.Intn(50)) * 1000000})
	}
	var txs []*wire.MsgTx
	if spend {
		mine := map[int]bool{}
		for _, a := range twin.Addrs {
			mine[a.Sh] = true
		}
		for _, c := range h.MatureCoins(h.N.Height() + 1) {
			if mine[c.Sh] && c.Class == hist.ClsStd && c.Val > 0 {
				txs = append(txs, hist.PayTx(c, []sim.Out{{Script: h.StrangerScript(), Value: c.Val}}))
				bump("bounce_side_spends", 1)
				break
			}
		}
	}
	return h.BlockWith(cb, txs)
}

// kind: "short" (one batch), "last" (long chain, bounce at the second = last batch),
// "first" (long chain, bounce at the first batch: the side branch covers the batch's upper end)
func runBounce(seed uint64, n int, out *bufio.Writer, kind string) {
	r := rng.New(seed*1000003 + uint64(n))
	r = rng.New(r.U64() ^ (uint64(n)+1)*0xD1342543DE82EF95)
	h, err := hist.New(r, out, n, hist.Options{Unsupported: true, Games: true, MaxReorg: 4}, nil)
	must(err)
	e := &env{h: h, r: r}
	var d *hist.Drive
	defer func() {
		if rc := recover(); rc != nil {
			h.Out = out
			h.IEmit("X %d harness-error %v", n, rc)
			h.End()
		}
		if d != nil {
			d.G.Shutdown()
		}
		h.Close()
		out.Flush()
	}()
	// ---------------- instance 1: the original (not replayed on the model)
	h.Out = nil
	mark := len(h.Log)
	w1, err := h.NewWallet()
	must(err)
	newAddr := func() {
		cls := uint16(0)
		if r.Chance(25) {
			cls = 1
		}
		_, err := h.NewAddress(w1, cls)
		must(err)
	}
	newAddr()
	for s, steps := 0, 5+r.Intn(8); s < steps; s++ {
		if r.Chance(15) {
			newAddr()
		}
		e.step(true)
	}
	if kind != "short" {
		// filler: empty blocks so that the rescan needs two batches
		target := uint64(batchSize) + 2 + uint64(r.Intn(6))
		if kind == "first" {
			target = uint64(batchSize) + 1 + uint64(r.Intn(3))
		}
		for h.N.Height() < target-4 {
			e.attach(h.BlockWith(nil, nil), true)
		}
		bump("bounce_long_cases", 1)
	}
	// the tail: blocks that pay the original (they are the ones the node will leave and rejoin)
	for i, tail := 0, 3+r.Intn(3); i < tail; i++ {
		if r.Chance(75) {
			a := w1.Addrs[r.Intn(len(w1.Addrs))]
			e.attach(h.BlockWith([]sim.Out{{Script: h.ScriptStd(a), Value: int64(1+r.Intn(50)) * 1000000}}, nil), true)
		} else {
			e.attach(h.BuildBlock(r.Intn(3), e.extra()), true)
		}
	}
	if h.Stale {
		h.Process(h.N.Tip())
	}
	mn, pass := w1.Mnemo, w1.Pass
	js := ""
	useJSON := r.Chance(40)
	if useJSON {
		js, err = h.W.WM.ExportWallet(w1.ID, pass)
		must(err)
	}
	h.CloseInstance()

	// ---------------- instance 2: the twin, replayed on the model
	h.Out = out
	h.ReplayChainLines(mark, len(h.Log))
	g := gate.New()
	must(h.OpenInstance("twin", g.Wrap))
	d = hist.NewDrive(h, g)
	h.IEmit("S start")
	h.Detached = nil
	if r.Chance(30) {
		v, err := d.NewWallet() // a ready wallet of this instance
		must(err)
		_, err = h.NewAddress(v, 0)
		must(err)
	}
	h.ForgetWallet(w1)
	h.W.Barrier()

	bounceAt := 0 // index of the batch that runs on the side branch
	if kind == "last" {
		bounceAt = 1
	}
	g.Arm()
	if bounceAt == 0 {
		g.ArmBegin()
	}
	var twin *hist.WInfo
	if useJSON {
		twin, err = h.ImportKeystoreJSON(w1.Num, js, pass, d.Pass(pass))
	} else {
		twin, err = h.ImportMnemonic(w1.Num, mn, pass, d.Pass(pass))
	}
	must(err)
	h.AdoptWallet(twin)
	st := ""
	for i := 0; i < bounceAt; i++ {
		var ok bool
		st, _, ok = d.ImportHold(twin, stepTimeout)
		if !ok {
			panic("bounce: the import worker did not run")
		}
		if st == "ready" {
			panic("bounce: the import finished before the batch that was to be steered")
		}
		if i == bounceAt-1 {
			g.ArmBegin()
		}
		g.Release()
	}
	ev, ok := g.WaitHeld(stepTimeout)
	if !ok || ev.Seq != 0 {
		panic("bounce: the worker did not park in front of its write transaction")
	}
	// the worker is parked in front of the batch's write transaction, the handler is suspended.
	// The node leaves the handler's chain.
	depth := 1 + r.Intn(3)
	if kind == "first" {
		// the side branch must replace the blocks around the batch's upper end
		depth = int(h.N.Height()) - batchSize + 1 + r.Intn(3)
	}
	if uint64(depth) > h.N.Height()-1 {
		depth = int(h.N.Height() - 1)
	}
	var old []*massutil.Block // old[0] = lowest disconnected block
	for i := 0; i < depth; i++ {
		b, err := h.Detach()
		must(err)
		old = append([]*massutil.Block{b}, old...)
	}
	sideLen := depth - 1 + r.Intn(3)
	pay, spend := false, false
	switch k := r.Intn(100); {
	case k < 35:
		pay = true
	case k < 55:
		spend = true
	case k < 85:
		pay, spend = true, true
	}
	var side []*massutil.Block
	for i := 0; i < sideLen; i++ {
		b := sideBlock(h, r, twin, pay && (i == 0 || r.Chance(50)), spend && i == sideLen-1)
		must(h.Attach(b))
		side = append(side, b)
	}
	bump("bounce_cases", 1)
	if sideLen < depth {
		bump("bounce_side_shorter", 1)
	}
	g.Release()
	// the batch runs on the side branch and is parked inside its commit / roll-back
	st, committed, ok := d.ImportHold(twin, stepTimeout)
	if !ok {
		panic("bounce: the steered batch did not end")
	}
	if committed {
		bump("bounce_batch_committed", 1)
	} else {
		bump("bounce_batch_refused", 1)
	}
	// the node goes back before the handler runs: side branch off, r old blocks on again, new blocks on top
	for range side {
		_, err := h.Detach()
		must(err)
	}
	back := depth
	if r.Chance(30) {
		back = 1 + r.Intn(depth) // rejoin only the lower part of the old blocks, then a third branch
	}
	for i := 0; i < back; i++ {
		must(h.Attach(old[i]))
	}
	grow := r.Intn(3)
	if back < depth && grow == 0 {
		grow = 1
	}
	for i := 0; i < grow; i++ {
		must(h.Attach(h.BuildBlock(r.Intn(3), nil)))
	}
	// announcements that were "on their way": the side branch's tip (stale by now) or the current tip
	switch k := r.Intn(100); {
	case k < 35 && len(side) > 0:
		d.Announce(side[len(side)-1])
		bump("bounce_stale_announcement", 1)
	case k < 60:
		d.Announce(h.N.Tip())
		bump("bounce_tip_announcement", 1)
	}
	// let the import finish (the repaired code retries the refused batch)
	finished := true
	for tries := 0; st != "ready"; tries++ {
		if tries > 60 {
			finished = false
			break
		}
		g.Release()
		var done bool
		st, done, ok = d.ImportHold(twin, stepTimeout)
		if !ok {
			finished = st == "ready"
			break
		}
		if !done && d.Pend == nil && h.W.H.VerifBest().Hash != *h.N.Tip().Hash() {
			// refused again: the node is still not on the handler's chain — its announcement arrives
			d.Announce(h.N.Tip())
		}
	}
	g.Disarm()
	g.Release()
	if !finished {
		h.IEmit("V import-did-not-finish wallet %d status %s", twin.Num, st)
	}
	d.Settle()
	if h.Stale {
		h.Process(h.N.Tip())
	}
	h.Listing(twin)
	h.Use(twin)
	h.Query()
	for _, wi := range h.Wallets {
		h.Games(wi)
	}
	if finished {
		for s, ns := 0, 2+r.Intn(4); s < ns; s++ {
			e.step(true)
		}
		if h.Stale {
			h.Process(h.N.Tip())
		}
		h.Query()
		for _, wi := range h.Wallets {
			h.Games(wi)
		}
	}
	s2 := h.Snap(twin.ID)
	for k, n := range d.Stats {
		bump(k, n)
	}
	d.G.Shutdown()
	h.CloseInstance()
	d = nil

	// ---------------- instance 1 again: catch up to the same tip, compare
	h.Out = nil
	func() {
		defer func() {
			if rc := recover(); rc != nil {
				h.Out = out
				h.IEmit("V original-cannot-catch-up %v", rc)
			}
		}()
		must(h.OpenInstance("", nil))
		h.Process(h.N.Tip())
		s1 := h.Snap(w1.ID)
		h.Out = out
		s1.Utxos, s2.Utxos = "", ""
		if diff := hist.DiffSnap(s1, s2); diff != "" && finished {
			h.IEmit("V twin-differs-from-original %s", strings.ReplaceAll(diff, "\n", " "))
		} else {
			h.IEmit("C twin-equals-original pending %d/%d", s1.Pending, s2.Pending)
			bump("twin_equal", 1)
		}
	}()
	h.Out = out
	h.End()
	bump("histories", 1)
}
