// c07: a wallet lives through a generated chain history (instance 1); a twin is restored from its
// mnemonic or exported keystore in a fresh instance on the same node while the chain keeps moving
// (instance 2, import worker driven batch by batch through internal/gate); at the end both
// instances are brought to the same tip and compared. Line format: internal/hist (+ importremove.go);
// only instance 2 is replayed on the model. Used by the C07 check.
//
//   c07 -n N -long L -out FILE -j J     N short histories and L long ones (1100+ blocks: two or more
//                                       rescan batches), in J worker processes
package main

import (
	"massnet.org/mass-wallet/masswallet/keystore"
	"bufio"
	"bytes"
	"flag"
	"fmt"
	"os"
	"os/exec"
	"regexp"
	"runtime"
	"strconv"
	"strings"
	"sync"
	"time"

	"github.com/massnetorg/mass-core/massutil"
	"github.com/massnetorg/mass-core/wire"
	"verifharness/internal/gate"
	"verifharness/internal/hist"
	"verifharness/internal/rng"
	"verifharness/internal/sim"
)

const stepTimeout = 20 * time.Second

var stats = map[string]int{}

// rescan batch size of asyncImport (the check reads it from the source and passes -batch)
var batchSize = 1000
var statMu sync.Mutex

func bump(k string, n int) { statMu.Lock(); stats[k] += n; statMu.Unlock() }

func must(err error) {
	if err != nil {
		panic(err)
	}
}

type env struct {
	h *hist.H
	r *rng.R
	// small gap limits: no reorganisations in the original's life — a payment that justified later address indexes
	// and is then reorganised away makes restore discovery miss funded addresses (recorded under C12:
	// discovery-after-reorged-first-payment), which is not what C07's histories are about
	noReorg bool
}

func (e *env) attach(b *massutil.Block, process bool) {
	must(e.h.Attach(b))
	if process {
		e.h.Process(b)
	}
}

func (e *env) extra() []*wire.MsgTx {
	h, r := e.h, e.r
	if len(h.Detached) > 0 && r.Chance(50) {
		tx := h.Detached[r.Intn(len(h.Detached))]
		if h.InputsUnspent(tx) && !h.OnBest(tx.TxHash()) {
			return []*wire.MsgTx{tx}
		}
	}
	return nil
}

// reorg detaches d blocks, attaches d or d+1 new ones; process: announce the new tip and wait
func (e *env) reorg(d int, process bool) *massutil.Block {
	h, r := e.h, e.r
	if uint64(d) > h.N.Height()-1 {
		d = int(h.N.Height() - 1)
	}
	if d < 1 {
		return nil
	}
	for i := 0; i < d; i++ {
		_, err := h.Detach()
		must(err)
	}
	var last *massutil.Block
	for i, nn := 0, d+r.Intn(2); i < nn; i++ {
		ntx := r.Intn(3)
		if d > 8 && i < d-4 {
			ntx = 0
		}
		b := h.BuildBlock(ntx, e.extra())
		must(h.Attach(b))
		last = b
	}
	bump("reorgs", 1)
	if process && last != nil {
		h.Process(last)
	}
	return last
}

func (e *env) step(process bool) {
	h, r := e.h, e.r
	switch k := r.Intn(100); {
	case k < 62:
		e.attach(h.BuildBlock(r.Intn(4), e.extra()), process)
		bump("blocks", 1)
	case k < 80:
		if h.N.Height() >= 2 && !e.noReorg {
			e.reorg(1+r.Intn(4), process)
		}
	default:
		if process {
			h.Query()
		}
	}
}

func runOne(seed uint64, n int, out *bufio.Writer, long bool) {
	r := rng.New(seed*1000003 + uint64(n))
	r = rng.New(r.U64() ^ (uint64(n)+1)*0xD1342543DE82EF95) // consecutive seeds of splitmix64 give shifted copies of one stream
	// the gap limit of the instances of this history: mostly the default 20; short histories now and then a small one,
	// so that restore hints at or above the gap limit, and used addresses beyond them, occur (stale exports / hints)
	gap := uint32(20)
	if !long && r.Chance(30) {
		gap = []uint32{3, 5}[r.Intn(2)]
	}
	sim.Cur.GapLimit = gap
	defer func() { sim.Cur.GapLimit = 20 }()
	h, err := hist.New(r, out, n, hist.Options{Unsupported: true, Games: true, MaxReorg: 4}, nil)
	must(err)
	e := &env{h: h, r: r, noReorg: gap < 20}
	var d *hist.Drive
	defer func() {
		if rc := recover(); rc != nil {
			h.Out = out
			h.IEmit("X %d harness-error %v", n, rc)
			h.End()
		}
		if d != nil {
			d.G.Shutdown()
		}
		h.Close()
		out.Flush()
	}()
	// ---------------- instance 1: the original lives through the history (not replayed on the model)
	h.Out = nil
	mark := len(h.Log)
	w1, err := h.NewWallet()
	must(err)
	var w0 *hist.WInfo
	if r.Chance(50) {
		w0, err = h.NewWallet()
		must(err)
		_, err = h.NewAddress(w0, 0)
		must(err)
	}
	newAddr := func() {
		cls := uint16(0)
		if r.Chance(30) {
			cls = 1
		}
		_, err := h.NewAddress(w1, cls)
		if err == keystore.ErrGapLimit && gap < 20 {
			bump("gap_refusals", 1)
			return
		}
		must(err)
	}
	newAddr()
	steps := 10 + r.Intn(20)
	// a STALE backup: the keystore is exported (or the index hint noted) at some step of the history, the wallet goes
	// on issuing and being paid, and the restore uses the old export / the old hint
	staleAt := -1
	if !long && r.Chance(40) {
		staleAt = r.Intn(steps)
	}
	staleJS, staleHint := "", uint32(0)
	fillerAt := -1
	if long {
		fillerAt = r.Intn(steps)
	}
	for s := 0; s < steps; s++ {
		if r.Chance(12) || (gap < 20 && r.Chance(35)) {
			newAddr()
		}
		if s == staleAt {
			var err error
			staleJS, err = h.W.WM.ExportWallet(w1.ID, w1.Pass)
			must(err)
			staleHint = uint32(len(w1.Addrs))
			bump("stale_backups", 1)
		}
		e.step(true)
		if s == fillerAt {
			// filler: empty blocks so that the rescan needs more than one batch
			for i, nf := 0, 1010+r.Intn(150); i < nf; i++ {
				e.attach(h.BlockWith(nil, nil), true)
			}
			bump("filler_cases", 1)
		}
	}
	if h.Stale {
		h.Process(h.N.Tip())
	}
	mn, pass := w1.Mnemo, w1.Pass
	js := ""
	useJSON := r.Chance(40)
	if useJSON {
		js, err = h.W.WM.ExportWallet(w1.ID, pass)
		must(err)
		if staleJS != "" {
			js = staleJS
		}
	}
	h.CloseInstance()

	// ---------------- instance 2: fresh directory on the same node; replayed on the model
	h.Out = out
	h.ReplayChainLines(mark, len(h.Log))
	g := gate.New()
	must(h.OpenInstance("twin", g.Wrap))
	d = hist.NewDrive(h, g)
	h.IEmit("S start")
	h.Detached = nil // transactions reorganised away in instance 1 may pay addresses a restore cannot discover
	var v *hist.WInfo
	if r.Chance(60) {
		// a wallet created in this instance (ready from the start); numbered after those of instance 1
		v, err = d.NewWallet()
		must(err)
		_, err = h.NewAddress(v, 0)
		must(err)
	}
	if w0 != nil {
		h.RetireWallet(w0) // its addresses stay payees (strangers for this instance)
	}
	h.ForgetWallet(w1) // the twin (with the addresses it discovered) is adopted below
	h.W.Barrier()
	// a block that pays an address the restore will discover, delivered around the start of the import:
	//  - "mid-block": the handler is kept inside processConnectedBlock (commit done, volatile tip not yet
	//    updated) while the import task starts, then let go: the worker's first statements run while
	//    the handler is busy, its suspend is taken only after the block;
	//  - "queued": the announcement is queued right after the task was pushed (either order may happen).
	var payable []*hist.AddrInfo
	for i, a := range w1.Addrs {
		if used, _ := h.W.WM.VerifChainFetcher().CheckScriptHashUsed(a.ShBytes); used {
			payable = w1.Addrs[:i+1]
		}
	}
	payBlock := func() *massutil.Block {
		a := payable[r.Intn(len(payable))]
		b := h.BlockWith([]sim.Out{{Script: h.ScriptStd(a), Value: int64(1+r.Intn(50)) * 1000000}}, nil)
		must(h.Attach(b))
		return b
	}
	steer := ""
	if !long && len(payable) > 0 {
		switch k := r.Intn(100); {
		case k < 35:
			steer = "mid-block"
		case k < 60:
			steer = "queued"
		}
	}
	if steer == "mid-block" {
		g.HoldNextForeign()
		d.Announce(payBlock())
		if _, ok := g.WaitHeld(stepTimeout); !ok {
			panic("handler did not reach its commit")
		}
		bump("handler_mid_block_at_import_start", 1)
	}
	var queued *massutil.Block
	if steer == "queued" {
		queued = payBlock() // the node has the block already; its announcement follows the start of the import
	}
	g.Arm()
	var twin *hist.WInfo
	if useJSON {
		twin, err = h.ImportKeystoreJSON(w1.Num, js, pass, d.Pass(pass))
		bump("import_keystore", 1)
	} else {
		if staleAt >= 0 {
			twin, err = h.ImportMnemonicHint(w1.Num, mn, pass, d.Pass(pass), staleHint)
			bump("import_mnemonic_stale_hint", 1)
		} else {
			twin, err = h.ImportMnemonic(w1.Num, mn, pass, d.Pass(pass))
		}
		bump("import_mnemonic", 1)
	}
	must(err)
	if steer == "mid-block" {
		time.Sleep(30 * time.Millisecond) // the worker is in asyncImport, blocked on (or about to send) suspend
		g.Release()                       // the handler finishes the block and then parks
	} else if steer == "queued" {
		d.Announce(queued) // the node is not touched here: the worker may be reading it
		bump("announcement_queued_at_import_start", 1)
	}
	// every address of the original that the chain ever paid must have been discovered
	known := map[int]bool{}
	for _, a := range twin.Addrs {
		known[a.Sh] = true
	}
	for _, a := range w1.Addrs {
		used, _ := h.W.WM.VerifChainFetcher().CheckScriptHashUsed(a.ShBytes)
		if used && !known[a.Sh] {
			h.IEmit("V discovery-missed-used-address wallet %d script hash %d", w1.Num, a.Sh)
		}
	}
	h.AdoptWallet(twin) // from now on the generator pays the twin's (discovered) addresses
	first := true
	moves := 0
	between := func(kind string, step int, status string) string {
		if kind != "import" {
			return ""
		}
		if first {
			first = false
			h.Listing(twin)
			h.Use(twin)
		}
		if moves >= 3 {
			return ""
		}
		k := r.Intn(100)
		if long {
			// long cases: the kind of movement is fixed by the index so that every tier has each kind
			k = []int{10, 50, 50, 90, 10, 50}[(n+moves)%6]
		}
		if os.Getenv("VERIF_DUMP") != "" {
			fmt.Fprintf(os.Stderr, "DUMP between %s step %d status %s k=%d\n", kind, step, status, k)
		}
		switch {
		case k < 30:
			// the node extends its chain: above the cursor, possibly paying the twin
			var last *massutil.Block
			for i, nb := 0, 1+r.Intn(2); i < nb; i++ {
				last = h.BuildBlock(r.Intn(3), e.extra())
				must(h.Attach(last))
			}
			d.Announce(last)
			moves++
			bump("between_extend", 1)
		case k < 70:
			// reorg: near the tip (above the cursor in long cases, below it in short ones) or deep
			depth := 1 + r.Intn(4)
			if long && (n+moves)%6 == 2 {
				depth = 100 + r.Intn(60) // below a cursor that stands at a multiple of the batch size
				bump("between_deep_reorg", 1)
			}
			if last := e.reorg(depth, false); last != nil {
				d.Announce(last)
			}
			moves++
			bump("between_reorg", 1)
		}
		return ""
	}
	st, ok := d.RunImport(twin, between, stepTimeout)
	if !ok {
		h.IEmit("V import-did-not-finish wallet %d status %s", twin.Num, st)
		d.G.Disarm()
		d.G.Release()
	}
	d.Settle()
	if h.Stale {
		h.Process(h.N.Tip())
	}
	h.Listing(twin)
	h.Use(twin)
	h.Query()
	for _, wi := range h.Wallets {
		h.Games(wi)
	}
	if ok {
		for s, ns := 0, 2+r.Intn(5); s < ns; s++ {
			e.step(true)
		}
		if h.Stale {
			h.Process(h.N.Tip())
		}
		h.Query()
		for _, wi := range h.Wallets {
			h.Games(wi)
		}
	}
	s2 := h.Snap(twin.ID)
	for k, n := range d.Stats {
		bump(k, n)
	}
	d.G.Shutdown()
	h.CloseInstance()
	d = nil

	// ---------------- instance 1 again: catch up to the same tip, compare
	h.Out = nil
	func() {
		defer func() {
			if rc := recover(); rc != nil {
				h.Out = out
				h.IEmit("V original-cannot-catch-up %v", rc)
			}
		}()
		must(h.OpenInstance("", nil))
		h.Process(h.N.Tip())
		s1 := h.Snap(w1.ID)
		h.Out = out
		// the spent-by-pending flags are not compared: the original remembers transactions that were
		// reorganised away, a restored wallet cannot know them
		if s1.Utxos != s2.Utxos {
			bump("pending_spend_flags_differ", 1)
		}
		s1.Utxos, s2.Utxos = "", ""
		if diff := hist.DiffSnap(s1, s2); diff != "" && ok {
			h.IEmit("V twin-differs-from-original %s", strings.ReplaceAll(diff, "\n", " "))
		} else {
			h.IEmit("C twin-equals-original pending %d/%d", s1.Pending, s2.Pending)
			bump("twin_equal", 1)
		}
		if s1.Pending != s2.Pending {
			bump("pending_game_rows_differ", 1)
		}
	}()
	h.Out = out
	h.End()
	bump("histories", 1)
}

// directed scenario 1 (witness of C07_import_abandoned_refuted): the rescan cursor stands at 1000 on
// the old branch; the node reorganises from height 995: the new branch pays the wallet at 996 and
// spends that coin at 1002; the announcement is still on its way when the second batch runs: it
// reads the new branch above the cursor, meets the spend of a coin it never imported
// (ErrUnexpectedCreditNotFound) and the worker drops the task: the wallet stays "importing".
func scenario(k int, out *bufio.Writer) {
	r := rng.New(4242)
	h, err := hist.New(r, out, 800000+k, hist.Options{MaxReorg: 4}, nil)
	must(err)
	e := &env{h: h, r: r}
	var d *hist.Drive
	defer func() {
		if rc := recover(); rc != nil {
			h.Out = out
			h.IEmit("X %d harness-error %v", 800000+k, rc)
		}
		h.End()
		if d != nil {
			d.G.Shutdown()
		}
		h.Close()
		out.Flush()
	}()
	h.Out = nil
	mark := len(h.Log)
	w1, err := h.NewWallet()
	must(err)
	a1, err := h.NewAddress(w1, 0)
	must(err)
	for i := 0; i < 6; i++ {
		e.attach(h.BlockWith([]sim.Out{{Script: h.StrangerScript(), Value: 1000}, {Script: h.ScriptStd(a1), Value: 10}}, nil), true)
	}
	for h.N.Height() < 1004 {
		e.attach(h.BlockWith(nil, nil), true)
	}
	mn, pass := w1.Mnemo, w1.Pass
	h.CloseInstance()
	h.Out = out
	h.ReplayChainLines(mark, len(h.Log))
	g := gate.New()
	must(h.OpenInstance("twin", g.Wrap))
	d = hist.NewDrive(h, g)
	h.IEmit("S start")
	h.ForgetWallet(w1)
	h.W.Barrier()
	g.Arm()
	twin, err := h.ImportMnemonic(w1.Num, mn, pass, d.Pass(pass))
	must(err)
	h.AdoptWallet(twin)
	var tip *massutil.Block
	fails := 0
	st, ok := d.RunImport(twin, func(kind string, step int, status string) string {
		if kind == "import-failed" {
			// the batch met the spend of a coin it never imported. As found, the worker dropped the
			// task here; repaired, it retries: after the second failure the announcement arrives
			fails++
			if fails == 2 {
				h.Listing(twin)
				h.Use(twin)
				d.Announce(tip)
			}
			return ""
		}
		if tip != nil {
			return ""
		}
		for h.N.Height() > 995 {
			_, err := h.Detach()
			must(err)
		}
		var stranger *hist.Coin
		for _, c := range h.MatureCoins(h.N.Height() + 1) {
			if c.Sh != a1.Sh && c.Val > 0 && c.Class == hist.ClsStd {
				stranger = c
				break
			}
		}
		pay := hist.PayTx(stranger, []sim.Out{{Script: h.ScriptStd(a1), Value: 1}})
		b := h.BlockWith(nil, []*wire.MsgTx{pay}) // 996: pays the wallet
		must(h.Attach(b))
		for h.N.Height() < 1001 {
			must(h.Attach(h.BlockWith(nil, nil)))
		}
		op := wire.OutPoint{Hash: pay.TxHash(), Index: 0}
		spend := sim.NewTx([]wire.OutPoint{op}, nil, []sim.Out{{Script: h.StrangerScript(), Value: pay.TxOut[0].Value}}, 0, nil)
		must(h.Attach(h.BlockWith(nil, []*wire.MsgTx{spend}))) // 1002: spends it
		for h.N.Height() < 1006 {
			tip = h.BlockWith(nil, nil)
			must(h.Attach(tip))
		}
		return "" // the announcement of the new tip is NOT delivered yet
	}, 3*time.Second)
	h.IEmit("C import-ended %s %v", st, ok)
	d.G.Disarm()
	d.G.Release()
	if d.Pend == nil && tip != nil && h.W.H.VerifBest().Hash != *tip.Hash() {
		h.Process(tip) // (code as found: the task was dropped before the announcement was delivered)
	}
	d.Settle()
	time.Sleep(100 * time.Millisecond)
	h.Listing(twin)
	h.Use(twin)
	if s := h.StatusOf(twin.ID); s != "ready" {
		h.IEmit("V import-abandoned wallet %d stays %s after the node reorganised under a running rescan", twin.Num, s)
		// a restart resumes the import from the status row
		h.CloseInstance()
		g2, res := d.Reopen("twin")
		h.IEmit("R restart %s", res)
		d.G = g2
		st, ok = d.RunImport(twin, nil, 5*time.Second)
		h.IEmit("C import-after-restart %s %v", st, ok)
		d.Settle()
	}
	h.Listing(twin)
	h.Query()
}

// directed scenario 2: the handler is inside processConnectedBlock of a block that pays the wallet
// (commit done, tip copy not yet updated) when the import task starts; the single batch must reach the
// tip the handler has when it parks, i.e. include that block.
func scenario2(out *bufio.Writer) {
	r := rng.New(777)
	h, err := hist.New(r, out, 800002, hist.Options{MaxReorg: 4}, nil)
	must(err)
	e := &env{h: h, r: r}
	var d *hist.Drive
	defer func() {
		if rc := recover(); rc != nil {
			h.Out = out
			h.IEmit("X %d harness-error %v", 800002, rc)
		}
		h.End()
		if d != nil {
			d.G.Shutdown()
		}
		h.Close()
		out.Flush()
	}()
	h.Out = nil
	mark := len(h.Log)
	w1, err := h.NewWallet()
	must(err)
	a1, err := h.NewAddress(w1, 0)
	must(err)
	for i := 0; i < 6; i++ {
		e.attach(h.BlockWith([]sim.Out{{Script: h.ScriptStd(a1), Value: 10}}, nil), true)
	}
	mn, pass := w1.Mnemo, w1.Pass
	h.CloseInstance()
	h.Out = out
	h.ReplayChainLines(mark, len(h.Log))
	g := gate.New()
	must(h.OpenInstance("twin", g.Wrap))
	d = hist.NewDrive(h, g)
	h.IEmit("S start")
	h.ForgetWallet(w1)
	h.W.Barrier()
	x := h.BlockWith([]sim.Out{{Script: h.ScriptStd(a1), Value: 777}}, nil)
	must(h.Attach(x))
	g.HoldNextForeign()
	d.Announce(x)
	if _, ok := g.WaitHeld(stepTimeout); !ok {
		panic("handler did not reach its commit")
	}
	g.Arm()
	twin, err := h.ImportMnemonic(w1.Num, mn, pass, d.Pass(pass))
	must(err)
	h.AdoptWallet(twin)
	time.Sleep(100 * time.Millisecond)
	g.Release()
	st, ok := d.RunImport(twin, nil, stepTimeout)
	h.IEmit("C import-ended %s %v", st, ok)
	d.Settle()
	h.Listing(twin)
	h.Query()
	e.attach(h.BlockWith(nil, nil), true)
	h.Query()
}

var reH = regexp.MustCompile(`(?m)^H (\d+)$`)

func runWorkers(idx []string, j int) []byte {
	self, _ := os.Executable()
	outs := make([][]byte, len(idx))
	var wg sync.WaitGroup
	sem := make(chan struct{}, j)
	var sb strings.Builder
	for i, a := range idx {
		wg.Add(1)
		go func(i int, a string) {
			defer wg.Done()
			sem <- struct{}{}
			defer func() { <-sem }()
			cmd := exec.Command("timeout", "300", self, "-worker", "-batch", strconv.Itoa(batchSize), "-list", a)
			var so, se bytes.Buffer
			cmd.Stdout, cmd.Stderr = &so, &se
			err := cmd.Run()
			b := so.Bytes()
			if err != nil {
				if len(b) > 0 && b[len(b)-1] != '\n' {
					b = append(b, '\n')
				}
				why := "died"
				if strings.Contains(se.String(), "watchdog:") {
					why = "hang"
				}
				b = append(b, []byte(fmt.Sprintf("F died %s\nE\n", why))...)
				if os.Getenv("VERIF_DUMP") != "" {
					fmt.Fprintln(os.Stderr, se.String())
				}
			}
			statMu.Lock()
			for _, l := range strings.Split(se.String(), "\n") {
				if strings.HasPrefix(l, "STATS ") {
					sb.WriteString(l + "\n")
				}
			}
			statMu.Unlock()
			outs[i] = b
		}(i, a)
	}
	wg.Wait()
	sum := map[string]int{}
	var order []string
	re := regexp.MustCompile(`(\w+)=(\d+)`)
	for _, m := range re.FindAllStringSubmatch(sb.String(), -1) {
		v, _ := strconv.Atoi(m[2])
		if _, ok := sum[m[1]]; !ok {
			order = append(order, m[1])
		}
		sum[m[1]] += v
	}
	var s2 strings.Builder
	for _, k := range order {
		fmt.Fprintf(&s2, "%s=%d ", k, sum[k])
	}
	fmt.Fprintln(os.Stderr, strings.TrimSpace(s2.String()))
	return bytes.Join(outs, nil)
}

func main() {
	count := flag.Int("n", 40, "short histories")
	nlong := flag.Int("long", 1, "long histories (more than one rescan batch)")
	first := flag.Int("first", 0, "index of the first history")
	outPath := flag.String("out", "", "output file")
	workers := flag.Int("j", 12, "worker processes")
	worker := flag.Bool("worker", false, "internal")
	list := flag.String("list", "", "internal: comma separated indexes, L prefix = long")
	scen := flag.Int("scenario", 0, "run directed scenario k")
	nbounce := flag.Int("bounce", 0, "bounce histories (bounce.go): short chains")
	nblong := flag.Int("blong", 0, "bounce histories on chains that need two rescan batches")
	flag.IntVar(&batchSize, "batch", batchSize, "rescan batch size of the code under test")
	flag.Parse()
	if *scen > 0 {
		sim.Init(sim.Params{CoinbaseMaturity: 4, MinFrozenPeriod: 2, GapLimit: 20})
		defer os.RemoveAll(hist.QuietLogs("fatal"))
		w := bufio.NewWriter(os.Stdout)
		if *scen == 2 {
			scenario2(w)
		} else {
			scenario(*scen, w)
		}
		w.Flush()
		return
	}
	if *worker {
		sim.Init(sim.Params{CoinbaseMaturity: 4, MinFrozenPeriod: 2, GapLimit: 20})
		lv := "fatal"
		if v := os.Getenv("VERIF_LOG"); v != "" {
			lv = v
		}
		defer os.RemoveAll(hist.QuietLogs(lv))
		seed := rng.Seed()
		w := bufio.NewWriter(os.Stdout)
		for _, a := range strings.Split(*list, ",") {
			if a == "" {
				continue
			}
			long := strings.HasPrefix(a, "L")
			n, _ := strconv.Atoi(strings.TrimLeft(a, "LBFZ"))
			done := make(chan struct{})
			go func() {
				select {
				case <-done:
				case <-time.After(240 * time.Second):
					buf := make([]byte, 1<<20)
					fmt.Fprintf(os.Stderr, "watchdog: history %d hangs\n%s\n", n, buf[:runtime.Stack(buf, true)])
					os.Exit(3)
				}
			}()
			switch {
			case strings.HasPrefix(a, "BF"):
				runBounce(seed, n, w, "first")
			case strings.HasPrefix(a, "BZ"):
				runBounce(seed, n, w, "last")
			case strings.HasPrefix(a, "B"):
				runBounce(seed, n, w, "short")
			default:
				runOne(seed, n, w, long)
			}
			close(done)
			w.Flush()
		}
		var sb strings.Builder
		for k, v := range stats {
			fmt.Fprintf(&sb, "%s=%d ", k, v)
		}
		fmt.Fprintln(os.Stderr, "STATS "+sb.String())
		return
	}
	// long cases first (one per process), short ones in chunks
	var idx []string
	for i := 0; i < *nlong; i++ {
		idx = append(idx, fmt.Sprintf("L%d", 500000+*first+i))
	}
	// bounce histories: long ones one per process (BF: bounce at the first of two batches, BZ: at the last),
	// short ones in chunks
	for i := 0; i < *nblong; i++ {
		idx = append(idx, fmt.Sprintf("%s%d", []string{"BF", "BZ"}[(*first+i)%2], 700000+*first+i))
	}
	if bchunk := (*nbounce + *workers - 1) / *workers; bchunk > 0 {
		for i := 0; i < *nbounce; i += bchunk {
			var l []string
			for k := i; k < i+bchunk && k < *nbounce; k++ {
				l = append(l, fmt.Sprintf("B%d", 600000+*first+k))
			}
			idx = append(idx, strings.Join(l, ","))
		}
	}
	chunk := (*count + *workers*2 - 1) / (*workers * 2)
	if chunk < 1 {
		chunk = 1
	}
	for i := 0; i < *count; i += chunk {
		var l []string
		for k := i; k < i+chunk && k < *count; k++ {
			l = append(l, strconv.Itoa(*first+k))
		}
		idx = append(idx, strings.Join(l, ","))
	}
	res := runWorkers(idx, *workers)
	if *outPath != "" {
		must(os.WriteFile(*outPath, res, 0644))
	} else {
		os.Stdout.Write(res)
	}
}
