// c17: queries of the wallet API racing with block commits, on the real WalletManager.
//
// mode sched (default): histories as in cmd/c01 (internal/hist); at chosen points a query
// (WalletBalance / AddressBalance / GetUtxo / the transaction-building coin selection) is run
// while the database wrapper (internal/sched) numbers the reads of its View and, before chosen
// reads, lets the REAL handler goroutine commit pending blocks (connects or a reorg) announced
// through OnBlockConnected. Output = the history lines of internal/hist plus
//
//	V <wid> <kind> <minconf> <nsh> <sh>.. | <npend> <bid>.. | <nreads> <idx>.. | <answer>
//
// (idx_k = number of commits made before the k-th read of the query; answer = "B total spend
// wstaking wbinding" or "C n tx:vout:amount:height:sh:maturity:confs ..", "E" for an error).
// ocaml/C17/driver.ml replays the lines on the extracted model (coq/Sched/Reads.v over Ledger).
//
// mode race: API callers, block processing, background import and removal run concurrently; meant
// to be built with -race (the race detector's reports go to stderr).
package main

import (
	"bufio"
	"bytes"
	crand "crypto/rand"
	"flag"
	"fmt"
	"os"
	"runtime/pprof"
	"sort"
	"strings"
	"sync"
	"time"

	"github.com/massnetorg/mass-core/massutil"
	"massnet.org/mass-wallet/masswallet/keystore"
	"verifharness/internal/hist"
	"verifharness/internal/rng"
	"verifharness/internal/sched"
	"verifharness/internal/sim"
)

type detReader struct{ r *rng.R }

func (d *detReader) Read(p []byte) (int, error) {
	for i := range p {
		p[i] = byte(d.r.U64())
	}
	return len(p), nil
}

var queryFns = map[string]bool{"WalletBalance": true, "AddressBalance": true, "getUtxos": true, "getUtxosExcludeBindingAndStaking": true}

type stats struct {
	hist, queries, injected, reads, blocks, reorgs int
}

var st stats

// scheduledQuery runs one query with the given injection plan (plan[i] = number of the model read
// before which pending[i] is committed) and writes the V line followed by the P lines.
func scheduledQuery(h *hist.H, ctl *sched.Ctl, wi *hist.WInfo, kind string, minconf uint32, shSel []*hist.AddrInfo,
	pending []*massutil.Block, plan []int) error {
	if _, err := h.W.WM.UseWallet(wi.ID); err != nil {
		return fmt.Errorf("use: %v", err)
	}
	var mu sync.Mutex
	viewTx := 0
	mk := 0        // next model read number
	syncReads := 0 // reads of the sync bucket seen
	done := 0      // pending blocks committed so far
	var idxs []int // commit index serving each model read
	var results []bool
	var injErr error
	ctl.SetOnRead(func(ev sched.Event, key []byte) {
		if ev.Role != sched.Other || !queryFns[ev.Fn] {
			return
		}
		mu.Lock()
		defer mu.Unlock()
		if viewTx == 0 {
			viewTx = ev.Tx
		}
		if ev.Tx != viewTx {
			return
		}
		if ev.Bkt == "sync" {
			syncReads++
			if syncReads > 1 {
				return // second half of SyncedTo (block meta of the height just read): same model read
			}
		}
		m := mk
		mk++
		for done < len(pending) && plan[done] <= m {
			b := pending[done]
			ch := make(chan bool, 1)
			go func() { ch <- h.C17Announce(b) }()
			select {
			case ok := <-ch:
				results = append(results, ok)
			case <-time.After(20 * time.Second):
				injErr = fmt.Errorf("the handler could not commit block %d while the query stood before read %d (%s %s)", h.BlkID[*b.Hash()], m, ev.Point, ev.Bkt)
				results = append(results, false)
			}
			done++
		}
		idxs = append(idxs, done)
	})
	var answer string
	var shs []int
	switch kind {
	case "WB":
		wb, err := h.W.WM.WalletBalance(minconf, true)
		if err != nil {
			answer = "E " + strings.ReplaceAll(err.Error(), " ", "_")
		} else {
			answer = fmt.Sprintf("B %d %d %d %d", wb.Total.IntValue(), wb.Spendable.IntValue(), wb.WithdrawableStaking.IntValue(), wb.WithdrawableBinding.IntValue())
		}
	case "AB":
		var addrs []string
		for _, a := range shSel {
			addrs = append(addrs, a.Addr)
			shs = append(shs, a.Sh)
		}
		abs, err := h.W.WM.AddressBalance(minconf, addrs)
		if err != nil {
			answer = "E " + strings.ReplaceAll(err.Error(), " ", "_")
		} else {
			var t, s, ws, wb int64
			for _, ab := range abs {
				t += ab.Total.IntValue()
				s += ab.Spendable.IntValue()
				ws += ab.WithdrawableStaking.IntValue()
				wb += ab.WithdrawableBinding.IntValue()
			}
			answer = fmt.Sprintf("B %d %d %d %d", t, s, ws, wb)
		}
	case "UT":
		m, err := h.W.WM.GetUtxo(nil)
		if err != nil {
			answer = "E " + strings.ReplaceAll(err.Error(), " ", "_")
		} else {
			answer = h.C17Utxos(m)
		}
	case "SP":
		var addrs []string
		for _, a := range wi.Addrs {
			addrs = append(addrs, a.Addr)
		}
		want, _ := massutil.NewAmountFromInt(1 << 50)
		l, _, err := h.W.WM.VerifSpendableCoins(addrs, want)
		if err != nil {
			answer = "E " + strings.ReplaceAll(err.Error(), " ", "_")
		} else {
			answer = h.C17Credits(l)
		}
	}
	ctl.SetOnRead(nil)
	if injErr != nil {
		return injErr
	}
	h.C17Order()
	var sb strings.Builder
	fmt.Fprintf(&sb, "V %d %s %d %d", wi.Num, kind, minconf, len(shs))
	for _, s := range shs {
		fmt.Fprintf(&sb, " %d", s)
	}
	fmt.Fprintf(&sb, " | %d", len(pending))
	for _, b := range pending {
		fmt.Fprintf(&sb, " %d", h.BlkID[*b.Hash()])
	}
	fmt.Fprintf(&sb, " | %d 0", len(idxs)) // 0 = commits made before the read transaction began
	for _, i := range idxs {
		fmt.Fprintf(&sb, " %d", i)
	}
	fmt.Fprintf(&sb, " | %s", answer)
	h.C17Emit("%s", sb.String())
	for i := 0; i < done; i++ {
		h.C17EmitProcessed(pending[i], results[i])
	}
	// the commits the query did not meet
	for i := done; i < len(pending); i++ {
		h.Process(pending[i])
	}
	st.queries++
	st.injected += done
	st.reads += len(idxs)
	return nil
}

// grow attaches n random blocks and lets the wallet process them.
func grow(h *hist.H, r *rng.R, n int) error {
	for i := 0; i < n; i++ {
		b := h.BuildBlock(r.Intn(3), nil)
		if err := h.Attach(b); err != nil {
			return err
		}
		h.Process(b)
		st.blocks++
	}
	return nil
}

// pendingBlocks prepares 1..3 commits the wallet has not seen: new blocks on the tip, or a reorg.
func pendingBlocks(h *hist.H, r *rng.R, force int) ([]*massutil.Block, error) {
	var res []*massutil.Block
	reorg := r.Chance(30) && h.N.Height() > 3
	if force > 0 {
		reorg = false
	}
	if reorg {
		d := 1 + r.Intn(2)
		for i := 0; i < d; i++ {
			if _, err := h.Detach(); err != nil {
				return nil, err
			}
		}
		st.reorgs++
		n := d + r.Intn(2)
		for i := 0; i < n; i++ {
			b := h.BuildBlock(r.Intn(3), nil)
			if err := h.Attach(b); err != nil {
				return nil, err
			}
			res = append(res, b)
		}
		return res, nil
	}
	n := 1 + r.Intn(3)
	if force > 0 {
		n = force
	}
	for i := 0; i < n; i++ {
		b := h.BuildBlock(r.Intn(3), nil)
		if err := h.Attach(b); err != nil {
			return nil, err
		}
		res = append(res, b)
	}
	return res, nil
}

func runOne(seed uint64, n int) ([]byte, error) {
	var buf bytes.Buffer
	out := bufio.NewWriter(&buf)
	r := rng.New(seed*1000003 + uint64(n))
	ctl := sched.New()
	ctl.Tracing = false
	h, err := hist.New(r, out, n, hist.Options{Games: true, MaxReorg: 3}, ctl.Wrap)
	if err != nil {
		return nil, err
	}
	defer h.Close()
	// wallets get their mnemonics from a seeded stream: transaction hashes, hence the key order of
	// the unspent bucket, are the same in every run of history n
	old := crand.Reader
	crand.Reader = &detReader{rng.New(seed*7 + uint64(n)*13 + 5)}
	defer func() { crand.Reader = old }()
	nW := 1 + r.Intn(2)
	for i := 0; i < nW; i++ {
		wi, err := h.NewWallet()
		if err != nil {
			return nil, err
		}
		for j, na := 0, 1+r.Intn(3); j < na; j++ {
			cls := uint16(0)
			if r.Chance(25) {
				cls = 1
			}
			if _, err := h.NewAddress(wi, cls); err != nil {
				return nil, err
			}
		}
	}
	if err := grow(h, r, 5+r.Intn(8)); err != nil {
		return nil, err
	}
	kinds := []string{"WB", "AB", "UT", "SP"}
	rounds := 2 + r.Intn(3)
	for round := 0; round < rounds; round++ {
		wi := h.Wallets[r.Intn(len(h.Wallets))]
		o := h.W.Observe(wi.ID)
		maxReads := 3 + 2*len(o.Utxos)
		force := 0
		if n%4 == 0 && round == 0 {
			force = 2 // two plain connects: the shape in which confs wraps
		}
		nre := st.reorgs
		pend, err := pendingBlocks(h, r, force)
		if err != nil {
			return nil, err
		}
		pendReorg := st.reorgs != nre
		plan := make([]int, len(pend))
		for i := range plan {
			plan[i] = r.Intn(maxReads + 2)
		}
		if force > 0 {
			// both commits between the height read and the iterator
			plan[0], plan[1] = 1, 1
		}
		sort.Ints(plan)
		kind := kinds[r.Intn(len(kinds))]
		if kind == "SP" {
			// the model has no pending set: the selection query is exercised only where no coin of
			// the wallet is spent by a pending (rolled-back) transaction and no reorg is pending
			for _, u := range o.Utxos {
				if u.SpentUnmined {
					kind = "UT"
				}
			}
			if pendReorg {
				kind = "UT"
			}
		}
		minconf := uint32([]int{0, 1, 1, 2, int(sim.Cur.CoinbaseMaturity)}[r.Intn(5)])
		var sel []*hist.AddrInfo
		if kind == "AB" {
			for _, a := range wi.Addrs {
				if r.Chance(70) {
					sel = append(sel, a)
				}
			}
			if len(sel) == 0 {
				sel = wi.Addrs[:1]
			}
		}
		if err := scheduledQuery(h, ctl, wi, kind, minconf, sel, pend, plan); err != nil {
			return nil, err
		}
		h.Query()
		if err := grow(h, r, r.Intn(3)); err != nil {
			return nil, err
		}
	}
	h.End()
	out.Flush()
	st.hist++
	return buf.Bytes(), nil
}

// ---------------------------------------------------------------- race exploration

func raceRun(seed uint64, dur time.Duration) {
	r := rng.New(seed)
	var buf bytes.Buffer
	out := bufio.NewWriter(&buf)
	h, err := hist.New(r, out, 0, hist.Options{Games: true, MaxReorg: 2}, nil)
	if err != nil {
		fmt.Println("X", err)
		return
	}
	var wis []*hist.WInfo
	for i := 0; i < 3; i++ {
		wi, err := h.NewWallet()
		if err != nil {
			fmt.Println("X", err)
			return
		}
		for j := 0; j < 2; j++ {
			h.NewAddress(wi, 0)
		}
		wis = append(wis, wi)
	}
	grow(h, r, 8)
	stop := make(chan struct{})
	var wg sync.WaitGroup
	var ops int64
	var omu sync.Mutex
	count := func() { omu.Lock(); ops++; omu.Unlock() }
	// node thread: announces blocks (the chain itself is built by this goroutine only)
	wg.Add(1)
	go func() {
		defer wg.Done()
		for {
			select {
			case <-stop:
				return
			default:
			}
			b := h.BuildBlock(r.Intn(3), nil)
			if err := h.Attach(b); err != nil {
				return
			}
			h.W.H.OnBlockConnected(b.MsgBlock())
			count()
			time.Sleep(2 * time.Millisecond)
		}
	}()
	// API clients: queries
	for c := 0; c < 3; c++ {
		wg.Add(1)
		go func(c int) {
			defer wg.Done()
			rr := rng.New(seed*31 + uint64(c))
			for {
				select {
				case <-stop:
					return
				default:
				}
				wi := wis[rr.Intn(2)] // the third wallet is the one being removed
				h.W.WM.UseWallet(wi.ID)
				switch rr.Intn(7) {
				case 6:
					h.W.WM.GetAllAddressesWithPubkey()
				case 0:
					h.W.WM.WalletBalance(1, true)
				case 1:
					h.W.WM.AddressBalance(1, nil)
				case 2:
					h.W.WM.GetUtxo(nil)
				case 3:
					h.W.WM.Wallets()
				case 4:
					h.W.WM.NewAddress(0)
				case 5:
					h.W.WM.SyncedTo()
				}
				count()
			}
		}(c)
	}
	// API client: imports and one removal
	wg.Add(1)
	go func() {
		defer wg.Done()
		rr := rng.New(seed * 77)
		removed := false
		for i := 0; ; i++ {
			select {
			case <-stop:
				return
			default:
			}
			if i%3 == 2 && !removed {
				h.W.WM.RemoveWallet(wis[2].ID, wis[2].Pass)
				removed = true
			} else {
				mn, _ := keystore.NewMnemonic(rr.Bytes(16))
				h.W.WM.ImportWalletWithMnemonic(&keystore.WalletParams{Mnemonic: mn, PrivatePassphrase: []byte("passRace@verif"),
					ExternalIndex: 2, AddressGapLimit: sim.Cur.GapLimit})
			}
			count()
			time.Sleep(15 * time.Millisecond)
		}
	}()
	time.Sleep(dur)
	close(stop)
	wg.Wait()
	h.W.WM.Stop()
	h.W = nil
	h.Close()
	fmt.Printf("RACE-RUN ops=%d\n", ops)
}

func main() {
	count := flag.Int("n", 40, "number of histories")
	outPath := flag.String("out", "", "output file")
	workers := flag.Int("j", 12, "parallel worker processes")
	first := flag.Int("first", 0, "index of the first history")
	worker := flag.Bool("worker", false, "internal: run sequentially and print to stdout")
	mode := flag.String("mode", "sched", "sched | build | race")
	thorough := flag.Bool("thorough", false, "mode build: thorough tier")
	dur := flag.Int("ms", 1500, "race mode: duration in ms")
	flag.Parse()
	if pf := os.Getenv("VERIF_PPROF"); pf != "" && *worker {
		if f, err := os.Create(pf); err == nil {
			pprof.StartCPUProfile(f)
			defer pprof.StopCPUProfile()
		}
	}
	if *mode == "race" {
		sim.Init(sim.Params{CoinbaseMaturity: 4, MinFrozenPeriod: 2, GapLimit: 20})
		raceRun(rng.Seed(), time.Duration(*dur)*time.Millisecond)
		return
	}
	if !*worker {
		if err := hist.ParallelSelf(*count, *first, *workers, *outPath, os.Args[1:]); err != nil {
			fmt.Fprintln(os.Stderr, err)
			os.Exit(2)
		}
		return
	}
	sim.Init(sim.Params{CoinbaseMaturity: 4, MinFrozenPeriod: 2, GapLimit: 20})
	seed := rng.Seed()
	if *mode == "build" {
		buildWorker(seed, *first, *count, *thorough)
		return
	}
	w := bufio.NewWriter(os.Stdout)
	for i := 0; i < *count; i++ {
		res, err := runOne(seed, *first+i)
		if err != nil {
			fmt.Fprintf(w, "X %d harness-error %v\n", *first+i, err)
			continue
		}
		w.Write(res)
	}
	w.Flush()
	fmt.Fprintf(os.Stderr, "STATS histories=%d scheduled_queries=%d commits_injected=%d reads=%d blocks=%d reorgs=%d\n",
		st.hist, st.queries, st.injected, st.reads, st.blocks, st.reorgs)
}
