// mode build: transaction-building calls racing with block commits.
//
// A transaction-building call (AutoCreateRawTransaction, CreateStakingTransaction,
// CreateBindingTransaction, EstimateTxFee, CreateRawTransaction with explicit inputs) is not one
// read transaction but a SEQUENCE of them: one per coin-selection round (a further one when the
// first change would be dust, a further round when the estimated size needs a higher fee), one
// look-up of the previous transaction per selected coin for the size estimate of every round,
// and one more per input when the inputs are added (addTxIn). The database wrapper numbers the
// read transactions of the call (and the reads inside each); for EVERY placement the REAL handler
// goroutine commits the pending blocks right before the chosen read transaction (or before a
// chosen read inside a selection round). One wallet serves all placements of a scenario (opening a
// wallet database costs a 128 MiB write buffer): before every placement a block sweeps the wallet's
// spendable coins away (a transaction made elsewhere with the same keys) and funds it afresh with
// the coins that give the call its shape, so that the call meets the same situation each time.
//
// Output = the history lines of internal/hist plus, per call,
//
//	W <wid> <call>@<placement> <out> <nout> <userfee> <payload> <nins> <tx:vout>.. | <npend> <ndone> <bid>.. |
//	  <nrt> <kind><idx>:<reads>.. | <nreserved> <tx:vout>.. | ok <fee> <outs total> <nin> <tx:vout>..
//	                                                        | err <class>
//
// kind: S coin selection (getUtxosExcludeBindingAndStaking), L previous-transaction look-up
// (existsMsgTx), U look-up in the pending set, O anything else; idx = number of pending blocks
// committed when the read transaction began. ocaml/C17/driver.ml replays the call on the extracted
// model coq/Sched/Build.v and evaluates the single-boundary predicate on the result.
package main

import (
	"bufio"
	"bytes"
	crand "crypto/rand"
	"fmt"
	"io"
	"os"
	"runtime"
	"sort"
	"strings"
	"sync"
	"time"

	"github.com/massnetorg/mass-core/massutil"
	"github.com/massnetorg/mass-core/wire"
	"massnet.org/mass-wallet/config"
	"massnet.org/mass-wallet/masswallet"
	mwdb "massnet.org/mass-wallet/masswallet/db"
	"massnet.org/mass-wallet/masswallet/txmgr"
	"verifharness/internal/hist"
	"verifharness/internal/rng"
	"verifharness/internal/sched"
	"verifharness/internal/sim"
)

// ---------------------------------------------------------------- the BeginReadTx hook

// viewDB sits on top of the sched wrapper and runs a hook right before a read transaction of the
// goroutine that makes the call under test begins (the snapshot is taken after the hook).
type viewDB struct {
	mwdb.DB
	mu   sync.Mutex
	hook func(fn string)
}

func (d *viewDB) setHook(f func(fn string)) { d.mu.Lock(); d.hook = f; d.mu.Unlock() }

func (d *viewDB) BeginReadTx() (mwdb.ReadTransaction, error) {
	d.mu.Lock()
	f := d.hook
	d.mu.Unlock()
	if f != nil {
		if fn, mine := callFn(); mine {
			f(fn)
		}
	}
	return d.DB.BeginReadTx()
}

const mwPkg = "massnet.org/mass-wallet/masswallet."

// callFn: the innermost masswallet function on the stack, and whether the stack belongs to the
// call under test (it passes through invokeMarked).
func callFn() (string, bool) {
	var pcs [64]uintptr
	n := runtime.Callers(2, pcs[:])
	fr := runtime.CallersFrames(pcs[:n])
	fn, mine := "", false
	for {
		f, more := fr.Next()
		name := f.Function
		if fn == "" && strings.HasPrefix(name, mwPkg) {
			short := name[len(mwPkg):]
			if i := strings.Index(short, ")."); i >= 0 {
				short = short[i+2:]
			}
			if i := strings.Index(short, "."); i >= 0 {
				short = short[:i]
			}
			fn = short
		}
		if strings.HasSuffix(name, "main.invokeMarked") {
			mine = true
		}
		if !more {
			break
		}
	}
	return fn, mine
}

//go:noinline
func invokeMarked(f func()) { f() }

// ---------------------------------------------------------------- scenarios

var buildCalls = []string{"A1", "A2", "AD", "A3", "MAN", "STK", "BND", "EST"}
var buildKinds = []string{"plain", "spendLS", "spendTop", "away", "chain", "mature", "create", "reorg", "ratchet"}

type coin struct {
	op  wire.OutPoint
	val int64
}

type place struct{ k, r int } // before read r (0 = before BeginReadTx) of read transaction k (1-based)

func (a place) le(b place) bool { return a.k < b.k || (a.k == b.k && a.r <= b.r) }

type rtInfo struct {
	fn    string
	idx   int
	reads int
}

type bstats struct {
	scenarios, histories, placements, intra, split, rts, injected, okCalls, refusals, lookupFails, otherErrs int
	maxrts                                                                                                   int
}

var bst bstats

func kindOfFn(fn string) string {
	switch fn {
	case "getUtxosExcludeBindingAndStaking":
		return "S"
	case "existsMsgTx":
		return "L"
	case "existsUnminedTx":
		return "U"
	}
	return "O"
}

func errClass(err error) string {
	switch err {
	case masswallet.ErrInsufficientFunds, masswallet.ErrNotEnoughInputs:
		return "insufficient"
	case masswallet.ErrOverfullUtxo:
		return "overfull"
	case txmgr.ErrNotFound, masswallet.ErrInvalidParameter:
		return "lookup"
	}
	return "other:" + strings.ReplaceAll(err.Error(), " ", "_")
}

func strangerAddr(r *rng.R) string {
	a, err := massutil.NewAddressWitnessScriptHash(r.Bytes(32), config.ChainParams)
	if err != nil {
		panic(err)
	}
	return a.EncodeAddress()
}

func amt(v int64) massutil.Amount {
	a, err := massutil.NewAmountFromInt(v)
	if err != nil {
		panic(err)
	}
	return a
}

// coinValues: the values (all distinct) the wallet is funded with for a call shape, largest first.
func coinValues(call string, r *rng.R) []int64 {
	j := func() int64 { return int64(r.Intn(900)) * 10 } // keeps the shapes, varies the digits
	switch call {
	case "A1", "MAN":
		return []int64{300000000 + j() + 3, 200000000 + j() + 2, 100000000 + j() + 1}
	case "A2", "STK":
		var l []int64
		for i := 8; i >= 1; i-- {
			l = append(l, 100000000+int64(i)*10000+j()%10000+int64(i))
		}
		return l
	case "AD", "BND":
		return []int64{100000000 + j() + 3, 50000000 + j() + 2, 20000000 + j() + 1}
	default: // A3, EST: seven coins of about 1 MASS and one of 0.5
		var l []int64
		for i := 7; i >= 1; i-- {
			l = append(l, 100000000+int64(i)*10+int64(r.Intn(9)))
		}
		return append(l, 50000000+j())
	}
}

// payAmount: the requested output total that gives the call its shape (see the header of each case).
func payAmount(call string, v []int64) int64 {
	sum := func(l []int64) (s int64) {
		for _, x := range l {
			s += x
		}
		return
	}
	switch call {
	case "A1", "MAN": // the largest coin is passed over, the other two selected, comfortable change: one round
		return v[1] + v[2]/2
	case "A2", "STK": // seven of eight inputs, comfortable change; seven inputs need a higher fee: two rounds
		return sum(v[:6]) + 50000000
	case "AD", "BND": // two largest coins leave a change of half the relay fee: dust, second selection takes all three
		return v[0] + v[1] - 15000
	default: // seven coins leave exactly the relay fee as change; the fee raise makes it dust: three rounds, five selections
		return sum(v[:7]) - 20000
	}
}

type bscn struct {
	s       int
	call    string
	kind    string
	variant int
	seed    uint64
}

func scenarioOf(seed uint64, s int) *bscn {
	return &bscn{s: s, call: buildCalls[s%len(buildCalls)], kind: buildKinds[(s/len(buildCalls))%len(buildKinds)],
		variant: s / (len(buildCalls) * len(buildKinds)), seed: seed}
}

// world is the wallet + chain of one scenario; round() prepares one placement.
type world struct {
	h         *hist.H
	ctl       *sched.Ctl
	vdb       *viewDB
	wi        *hist.WInfo
	as        []*hist.AddrInfo
	stranger  []byte
	funds     []coin // mature coins of the stranger, oldest first
	young     []coin // coinbases of the stranger not yet known to be mature (with their height in val2)
	youngH    []uint64
	reserve   bool
	reorgMine bool
	coins     []coin // the funded coins of this round, largest first
	extra     []wire.OutPoint
	reserved  []wire.OutPoint
	pending   []*massutil.Block
	call      func() (*wire.MsgTx, massutil.Amount, error)
	out       int64
	nout      int
	userfee   int64
	payload   int
	ins       []wire.OutPoint // explicit inputs (MAN)
	buf       bytes.Buffer
	bw        *bufio.Writer
}

const strangerCb = 40000000000

// mine builds a block on the tip whose coinbase pays the stranger (plus cb), attaches it and lets the wallet process it.
func (wd *world) mine(cb []sim.Out, txs ...*wire.MsgTx) (*massutil.Block, error) {
	h := wd.h
	b := h.C17Block(append([]sim.Out{{Script: wd.stranger, Value: strangerCb}}, cb...), txs)
	if err := h.Attach(b); err != nil {
		return nil, err
	}
	h.Process(b)
	if h.Stale {
		return nil, fmt.Errorf("the wallet did not accept block %d", b.Height())
	}
	wd.noteCb(b)
	return b, nil
}

func (wd *world) noteCb(b *massutil.Block) {
	wd.young = append(wd.young, coin{wire.OutPoint{Hash: b.MsgBlock().Transactions[0].TxHash(), Index: 0}, strangerCb})
	wd.youngH = append(wd.youngH, b.Height())
}

// fund returns a coin of the stranger that a block at height next may spend.
func (wd *world) fund(next uint64) (coin, error) {
	for len(wd.young) > 0 && next >= wd.youngH[0]+sim.Cur.CoinbaseMaturity+3 {
		// deep enough that no reorganisation of this family reaches it
		if _, ok := wd.h.Utxo[wd.young[0].op]; ok {
			wd.funds = append(wd.funds, wd.young[0])
		}
		wd.young, wd.youngH = wd.young[1:], wd.youngH[1:]
	}
	if len(wd.funds) == 0 {
		return coin{}, fmt.Errorf("no mature funds of the stranger at height %d", next)
	}
	c := wd.funds[0]
	wd.funds = wd.funds[1:]
	return c, nil
}

func (sc *bscn) open(hid int) (*world, error) {
	wd := &world{}
	wd.bw = bufio.NewWriter(&wd.buf)
	r := rng.New(sc.seed*1000003 + uint64(sc.s)*7919 + 11)
	wd.ctl = sched.New()
	wd.ctl.Tracing = false
	wrap := func(db mwdb.DB) mwdb.DB {
		wd.vdb = &viewDB{DB: wd.ctl.Wrap(db)}
		return wd.vdb
	}
	h, err := hist.New(r, wd.bw, hid, hist.Options{Games: true, MaxReorg: 3}, wrap)
	if err != nil {
		return nil, err
	}
	wd.h = h
	old := crand.Reader
	crand.Reader = &detReader{rng.New(sc.seed*7 + uint64(sc.s)*13 + 5)}
	defer func() { crand.Reader = old }()

	wi, err := h.NewWallet()
	if err != nil {
		return wd, err
	}
	wd.wi = wi
	for _, cls := range []uint16{0, 0, 1} {
		a, err := h.NewAddress(wi, cls)
		if err != nil {
			return wd, err
		}
		wd.as = append(wd.as, a)
	}
	var w2a *hist.AddrInfo
	if r.Chance(50) {
		w2, err := h.NewWallet()
		if err != nil {
			return wd, err
		}
		if w2a, err = h.NewAddress(w2, 0); err != nil {
			return wd, err
		}
	}
	wd.stranger = h.Strangers[0]
	wd.reserve = sc.kind != "reorg" && r.Chance(40)
	wd.reorgMine = r.Chance(50)
	// funds of a stranger, deep enough to be spent
	for i := 0; i < int(sim.Cur.CoinbaseMaturity)+5; i++ {
		if _, err := wd.mine(nil); err != nil {
			return wd, err
		}
	}
	// noise that must never be selected: a staking and a binding output of the wallet, a coin of another wallet
	f, err := wd.fund(h.N.Height() + 1)
	if err != nil {
		return wd, err
	}
	outs := []sim.Out{{Script: h.TxScriptStaking(wd.as[0], 2), Value: 700000000 + 5}, {Script: h.TxScriptBinding(wd.as[1], false), Value: 800000000 + 6}}
	if w2a != nil {
		outs = append(outs, sim.Out{Script: h.TxScriptStd(w2a), Value: 900000000 + 7})
	}
	outs = append(outs, sim.Out{Script: wd.stranger, Value: f.val - 2400000018 - 1000})
	if _, err := wd.mine(nil, sim.NewTx([]wire.OutPoint{f.op}, nil, outs, 0, nil)); err != nil {
		return wd, err
	}
	if _, err := h.W.WM.UseWallet(wi.ID); err != nil {
		return wd, err
	}
	return wd, nil
}

// round sweeps what the wallet can spend, funds it afresh, prepares the call and the pending blocks.
func (wd *world) round(sc *bscn, it int) error {
	h, as, stranger := wd.h, wd.as, wd.stranger
	r := rng.New(sc.seed*1000003 + uint64(sc.s)*7919 + uint64(it)*104729 + 17)
	wd.pending, wd.ins = nil, nil
	mySh := map[int]bool{}
	for _, a := range as {
		mySh[a.Sh] = true
	}
	next := h.N.Height() + 1
	// the sweep: every standard coin of the wallet that a block at this height may spend
	var sweepIns []wire.OutPoint
	var sweepVal int64
	var ops []wire.OutPoint
	for op, c := range h.Utxo {
		if c.Class == hist.ClsStd && mySh[c.Sh] && !(c.CB && next-c.Height < sim.Cur.CoinbaseMaturity) {
			ops = append(ops, op)
		}
	}
	sort.Slice(ops, func(i, j int) bool {
		a, b := ops[i], ops[j]
		if ia, ib := h.C17TxNum(a.Hash), h.C17TxNum(b.Hash); ia != ib {
			return ia < ib
		}
		return a.Index < b.Index
	})
	for _, op := range ops {
		sweepIns = append(sweepIns, op)
		sweepVal += h.Utxo[op].Val
	}
	var first []*wire.MsgTx
	if len(sweepIns) > 0 {
		first = append(first, sim.NewTx(sweepIns, nil, []sim.Out{{Script: stranger, Value: sweepVal}}, 0, nil))
	}
	f, err := wd.fund(next)
	if err != nil {
		return err
	}
	vals := coinValues(sc.call, r)
	// F (the first block of the round) pays the coins with an even rank, F2 (the tip block) those with an odd rank
	var outsF, outsF2 []sim.Out
	var rankF, rankF2 []int
	for i, v := range vals {
		a := as[(i/2)%2]
		if i%2 == 0 {
			outsF = append(outsF, sim.Out{Script: h.TxScriptStd(a), Value: v})
			rankF = append(rankF, i)
		} else {
			outsF2 = append(outsF2, sim.Out{Script: h.TxScriptStd(a), Value: v})
			rankF2 = append(rankF2, i)
		}
	}
	resIdx := -1
	if wd.reserve {
		resIdx = len(outsF)
		outsF = append(outsF, sim.Out{Script: h.TxScriptStd(as[0]), Value: 950000000 + 9})
	}
	restF := len(outsF)
	outsF = append(outsF, sim.Out{Script: stranger, Value: f.val / 2})
	F := sim.NewTx([]wire.OutPoint{f.op}, nil, outsF, 0, nil)
	first = append(first, F)
	if _, err := wd.mine(nil, first...); err != nil {
		return err
	}
	fh := F.TxHash()
	if sc.kind == "mature" {
		// a coinbase paying the wallet that matures with the first pending block
		if _, err := wd.mine([]sim.Out{{Script: h.TxScriptStd(as[1]), Value: 3000000000 + 11}}); err != nil {
			return err
		}
		if _, err := wd.mine(nil); err != nil {
			return err
		}
	}
	outsF2 = append(outsF2, sim.Out{Script: stranger, Value: f.val / 4})
	F2 := sim.NewTx([]wire.OutPoint{{Hash: fh, Index: uint32(restF)}}, nil, outsF2, 0, nil)
	tipBlock, err := wd.mine(nil, F2)
	if err != nil {
		return err
	}
	f2h := F2.TxHash()
	wd.coins = make([]coin, len(vals))
	for i, rk := range rankF {
		wd.coins[rk] = coin{wire.OutPoint{Hash: fh, Index: uint32(i)}, vals[rk]}
	}
	for i, rk := range rankF2 {
		wd.coins[rk] = coin{wire.OutPoint{Hash: f2h, Index: uint32(i)}, vals[rk]}
	}
	wm := h.W.WM
	if _, err := wm.UseWallet(wd.wi.ID); err != nil { // the quiescent reports select every wallet in turn
		return err
	}
	if wd.reserve {
		// an earlier draft holds the largest coin of the wallet
		op := wire.OutPoint{Hash: fh, Index: uint32(resIdx)}
		_, _, err := wm.CreateRawTransaction([]*masswallet.TxIn{{TxId: op.Hash.String(), Vout: op.Index}},
			map[string]massutil.Amount{strangerAddr(r): amt(100000000)}, 0, "", nil)
		if err != nil {
			return fmt.Errorf("reserving draft: %v", err)
		}
		wd.reserved = append(wd.reserved, op)
	}

	// ---- the call
	pay := payAmount(sc.call, vals)
	wd.out, wd.nout, wd.payload = pay, 1, 0
	to := strangerAddr(r)
	switch sc.call {
	case "A1", "A2", "AD", "A3":
		if sc.call == "A1" && r.Chance(50) {
			wd.payload = 40
		}
		pl := r.Bytes(wd.payload)
		wd.call = func() (*wire.MsgTx, massutil.Amount, error) {
			hx, fee, err := wm.AutoCreateRawTransaction(map[string]massutil.Amount{to: amt(pay)}, 0, massutil.ZeroAmount(), "", "", pl)
			if err != nil {
				return nil, fee, err
			}
			tx, derr := hist.DecodeTxHex(hx)
			return tx, fee, derr
		}
	case "EST":
		wd.call = func() (*wire.MsgTx, massutil.Amount, error) {
			return wm.EstimateTxFee(map[string]massutil.Amount{to: amt(pay)}, 0, massutil.ZeroAmount(), "", "", nil)
		}
	case "STK":
		sa, err := massutil.NewAddressStakingScriptHash(as[2].ShBytes, config.ChainParams)
		if err != nil {
			return err
		}
		o := []*masswallet.StakingTxOut{{Address: sa.EncodeAddress(), FrozenPeriod: uint32(sim.Cur.MinFrozenPeriod) + 1, Amount: amt(pay)}}
		wd.call = func() (*wire.MsgTx, massutil.Amount, error) {
			hx, fee, err := wm.CreateStakingTransaction("", o, 0, massutil.ZeroAmount())
			if err != nil {
				return nil, fee, err
			}
			tx, derr := hist.DecodeTxHex(hx)
			return tx, fee, derr
		}
	case "BND":
		holder, err := massutil.NewAddressWitnessScriptHash(as[0].ShBytes, config.ChainParams)
		if err != nil {
			return err
		}
		target, err := massutil.NewAddressPubKeyHash(r.Bytes(20), config.ChainParams)
		if err != nil {
			return err
		}
		o := []*masswallet.BindingOutput{{Holder: holder, BindingTarget: target, Amount: amt(pay)}}
		wd.call = func() (*wire.MsgTx, massutil.Amount, error) {
			hx, fee, err := wm.CreateBindingTransaction("", massutil.ZeroAmount(), o)
			if err != nil {
				return nil, fee, err
			}
			tx, derr := hist.DecodeTxHex(hx)
			return tx, fee, derr
		}
	case "MAN":
		var ins []*masswallet.TxIn
		for _, c := range wd.coins {
			ins = append(ins, &masswallet.TxIn{TxId: c.op.Hash.String(), Vout: c.op.Index})
			wd.ins = append(wd.ins, c.op)
		}
		wd.call = func() (*wire.MsgTx, massutil.Amount, error) {
			hx, fee, err := wm.CreateRawTransaction(ins, map[string]massutil.Amount{to: amt(pay)}, 0, "", nil)
			if err != nil {
				return nil, fee, err
			}
			tx, derr := hist.DecodeTxHex(hx)
			return tx, fee, derr
		}
	}

	// ---- the pending blocks (attached to the node, not yet announced to the wallet)
	attach := func(txs ...*wire.MsgTx) error {
		b := h.C17Block([]sim.Out{{Script: stranger, Value: strangerCb}}, txs)
		if err := h.Attach(b); err != nil {
			return err
		}
		wd.noteCb(b)
		wd.pending = append(wd.pending, b)
		return nil
	}
	// c0, c1: the two largest coins the first selection takes; cs: its smallest coin / the coin a second selection adds
	c0, c1, cs := wd.coins[0], wd.coins[1], wd.coins[len(wd.coins)-1]
	if sc.call == "A1" || sc.call == "MAN" { // the largest coin is passed over by the selection: the other two are taken
		c0, c1 = wd.coins[1], wd.coins[2]
	}
	switch sc.kind {
	case "plain":
		for i, n := 0, 1+r.Intn(3); i < n; i++ {
			if err := attach(); err != nil {
				return err
			}
		}
	case "spendLS", "spendTop", "away":
		// X, made elsewhere with the same keys, spends two coins the call looks at: the two largest (spendTop), or
		// the largest and the smallest (the one a second selection round would add); it pays the wallet back
		// (away: a stranger)
		to := h.TxScriptStd(as[1])
		if sc.kind == "away" {
			to = stranger
		}
		if sc.kind != "spendTop" && cs.op != c0.op {
			c1 = cs
		}
		X := sim.NewTx([]wire.OutPoint{c0.op, c1.op}, nil, []sim.Out{{Script: to, Value: c0.val + c1.val - 1000}}, 0, nil)
		if err := attach(X); err != nil {
			return err
		}
		for i, n := 0, r.Intn(2); i < n; i++ {
			if err := attach(); err != nil {
				return err
			}
		}
	case "ratchet":
		// X spends every coin of the round and pays the wallet ONE coin worth exactly the requested outputs plus the
		// relay minimum: a call that runs alone after it succeeds (no change, one input); a call that raised its fee
		// target for a larger selection before it no longer finds enough
		var all []wire.OutPoint
		var tot int64
		for _, c := range wd.coins {
			all = append(all, c.op)
			tot += c.val
		}
		X := sim.NewTx(all, nil, []sim.Out{{Script: h.TxScriptStd(as[1]), Value: pay + 10000}, {Script: stranger, Value: tot - pay - 10000 - 1000}}, 0, nil)
		if err := attach(X); err != nil {
			return err
		}
	case "chain":
		// X spends one coin and pays the wallet; Y (next block) spends X's coin and another one
		X := sim.NewTx([]wire.OutPoint{c0.op}, nil, []sim.Out{{Script: h.TxScriptStd(as[1]), Value: c0.val - 1000}}, 0, nil)
		if err := attach(X); err != nil {
			return err
		}
		Y := sim.NewTx([]wire.OutPoint{{Hash: X.TxHash(), Index: 0}, c1.op}, nil, []sim.Out{{Script: h.TxScriptStd(as[0]), Value: c0.val + c1.val - 2000}}, 0, nil)
		if err := attach(Y); err != nil {
			return err
		}
		if r.Chance(40) {
			if err := attach(); err != nil {
				return err
			}
		}
	case "mature":
		for i, n := 0, 1+r.Intn(2); i < n; i++ {
			if err := attach(); err != nil {
				return err
			}
		}
	case "create":
		g, err := wd.fund(h.N.Height() + 1)
		if err != nil {
			return err
		}
		G := sim.NewTx([]wire.OutPoint{g.op}, nil, []sim.Out{{Script: h.TxScriptStd(as[0]), Value: 3000000000 + 13}, {Script: stranger, Value: g.val / 2}}, 0, nil)
		if err := attach(G); err != nil {
			return err
		}
		if r.Chance(50) {
			if err := attach(); err != nil {
				return err
			}
		}
	case "reorg":
		// the tip block (with F2) leaves the chain; the new branch is empty, or mines F2 again at another place
		if _, err := h.Detach(); err != nil {
			return err
		}
		_ = tipBlock
		if wd.reorgMine == (it%2 == 0) {
			g, err := wd.fund(h.N.Height() + 1)
			if err != nil {
				return err
			}
			G := sim.NewTx([]wire.OutPoint{g.op}, nil, []sim.Out{{Script: stranger, Value: g.val / 2}}, 0, nil)
			if err := attach(G, F2); err != nil {
				return err
			}
		} else if err := attach(); err != nil {
			return err
		}
		if r.Chance(50) {
			if err := attach(); err != nil {
				return err
			}
		}
	}
	return nil
}

func opStr(h *hist.H, op wire.OutPoint) string {
	return fmt.Sprintf("%d:%d", h.C17TxNum(op.Hash), op.Index)
}

// run makes the call with the given plan (plan[i] = placement at which pending block i is committed;
// nil = no commit during the call), writes the W line, the P lines and the quiescent reports. Returns the trace.
func (wd *world) run(sc *bscn, pi int, plan []place) ([]rtInfo, error) {
	h := wd.h
	var mu sync.Mutex
	var rts []rtInfo
	done := 0
	busy := false
	var results []bool
	var injErr error
	fire := func(at place) {
		for plan != nil && done < len(wd.pending) && plan[done].le(at) {
			b := wd.pending[done]
			ch := make(chan bool, 1)
			busy = true
			mu.Unlock()
			go func() { ch <- h.C17Announce(b) }()
			var ok bool
			select {
			case ok = <-ch:
			case <-time.After(20 * time.Second):
				injErr = fmt.Errorf("the handler could not commit block %d while the call stood at read transaction %d read %d", h.BlkID[*b.Hash()], at.k, at.r)
			}
			mu.Lock()
			busy = false
			results = append(results, ok)
			done++
		}
	}
	wd.vdb.setHook(func(fn string) {
		mu.Lock()
		defer mu.Unlock()
		if busy {
			return
		}
		fire(place{len(rts) + 1, 0})
		rts = append(rts, rtInfo{fn: fn, idx: done})
	})
	wd.ctl.SetOnRead(func(ev sched.Event, key []byte) {
		if ev.Role != sched.Other {
			return
		}
		mu.Lock()
		defer mu.Unlock()
		if busy || len(rts) == 0 {
			return
		}
		if _, mine := callFn(); !mine {
			return
		}
		rts[len(rts)-1].reads++
		fire(place{len(rts), rts[len(rts)-1].reads})
	})
	var tx *wire.MsgTx
	var fee massutil.Amount
	var cerr error
	panicked := ""
	func() {
		defer func() {
			if e := recover(); e != nil {
				panicked = fmt.Sprint(e)
			}
		}()
		invokeMarked(func() { tx, fee, cerr = wd.call() })
	}()
	wd.vdb.setHook(nil)
	wd.ctl.SetOnRead(nil)
	if injErr != nil {
		return nil, injErr
	}
	h.C17Order()
	var sb strings.Builder
	fmt.Fprintf(&sb, "W %d %s@%d %d %d %d %d %d", wd.wi.Num, sc.call, pi, wd.out, wd.nout, wd.userfee, wd.payload, len(wd.ins))
	for _, op := range wd.ins {
		sb.WriteString(" " + opStr(h, op))
	}
	fmt.Fprintf(&sb, " | %d %d", len(wd.pending), done)
	for _, b := range wd.pending {
		fmt.Fprintf(&sb, " %d", h.BlkID[*b.Hash()])
	}
	fmt.Fprintf(&sb, " | %d", len(rts))
	for _, t := range rts {
		fmt.Fprintf(&sb, " %s%d:%d", kindOfFn(t.fn), t.idx, t.reads)
	}
	fmt.Fprintf(&sb, " | %d", len(wd.reserved))
	for _, op := range wd.reserved {
		sb.WriteString(" " + opStr(h, op))
	}
	switch {
	case panicked != "":
		sb.WriteString(" | err panic:" + strings.ReplaceAll(panicked, " ", "_"))
		bst.otherErrs++
	case cerr != nil:
		cl := errClass(cerr)
		sb.WriteString(" | err " + cl)
		switch cl {
		case "insufficient", "overfull":
			bst.refusals++
		case "lookup":
			bst.lookupFails++
		default:
			bst.otherErrs++
		}
	default:
		var tot int64
		for _, o := range tx.TxOut {
			tot += o.Value
		}
		fmt.Fprintf(&sb, " | ok %d %d %d", fee.IntValue(), tot, len(tx.TxIn))
		for _, in := range tx.TxIn {
			sb.WriteString(" " + opStr(h, in.PreviousOutPoint))
		}
		bst.okCalls++
	}
	h.C17Emit("%s", sb.String())
	for i := 0; i < done; i++ {
		h.C17EmitProcessed(wd.pending[i], results[i])
	}
	for i := done; i < len(wd.pending); i++ {
		h.Process(wd.pending[i])
	}
	if pi%5 == 0 {
		h.Query()
	}
	bst.histories++
	bst.rts += len(rts)
	bst.injected += done
	if len(rts) > bst.maxrts {
		bst.maxrts = len(rts)
	}
	return rts, nil
}

// placements of a traced call: before every read transaction, and inside every selection round
// before its second read (the height has been read) and before its last read.
func placements(rts []rtInfo) []place {
	var l []place
	for i, t := range rts {
		l = append(l, place{i + 1, 0})
		if kindOfFn(t.fn) == "S" {
			if t.reads >= 2 {
				l = append(l, place{i + 1, 2})
			}
			if t.reads >= 4 {
				l = append(l, place{i + 1, t.reads})
			}
		}
	}
	return l
}

func histID(s int) int { return 100000 + s }

// runBuildScenario runs the probe (placement 0: no commit during the call) and every placement of
// scenario s on one wallet; the history id names the scenario, the W lines carry the placement.
func runBuildScenario(seed uint64, s int, thorough bool, w io.Writer) {
	sc := scenarioOf(seed, s)
	hid := histID(s)
	wd, err := sc.open(hid)
	if wd != nil && wd.h != nil {
		defer wd.h.Close()
	}
	fail := func(pi int, err error) {
		if wd != nil {
			wd.bw.Flush()
			w.Write(wd.buf.Bytes())
			wd.buf.Reset()
		}
		fmt.Fprintf(w, "X %d harness-error build scenario %d (%s %s) placement %d: %v\n", hid, s, sc.call, sc.kind, pi, err)
	}
	if err != nil {
		fail(-1, err)
		return
	}
	one := func(pi int, plan func() []place) []rtInfo {
		if err := wd.round(sc, pi); err != nil {
			fail(pi, err)
			return nil
		}
		var pl []place
		if plan != nil {
			pl = plan()
		}
		rts, err := wd.run(sc, pi, pl)
		if err != nil {
			fail(pi, err)
			return nil
		}
		return rts
	}
	probe := one(0, nil)
	if probe == nil {
		return
	}
	bst.scenarios++
	pls := placements(probe)
	for i, at := range pls {
		pi := i + 1
		pr := rng.New(seed*31 + uint64(s)*1009 + uint64(pi))
		i, at := i, at
		if one(pi, func() []place {
			plan := make([]place, len(wd.pending))
			for j := range plan {
				plan[j] = at
			}
			// every third placement: the later blocks are committed at later placements
			if len(plan) > 1 && pi%3 == 2 {
				rest := pls[i:]
				for j := 1; j < len(plan); j++ {
					plan[j] = rest[pr.Intn(len(rest))]
				}
				sort.Slice(plan, func(a, b int) bool { return plan[a].le(plan[b]) && plan[a] != plan[b] })
				bst.split++
			}
			return plan
		}) == nil {
			return
		}
		bst.placements++
		if at.r > 0 {
			bst.intra++
		}
	}
	wd.h.Query()
	wd.h.End()
	wd.bw.Flush()
	w.Write(wd.buf.Bytes())
}

func buildWorker(seed uint64, first, count int, thorough bool) {
	w := bufio.NewWriter(os.Stdout)
	for i := 0; i < count; i++ {
		runBuildScenario(seed, first+i, thorough, w)
	}
	w.Flush()
	fmt.Fprintf(os.Stderr, "STATS build_scenarios=%d build_histories=%d placements=%d intra_placements=%d split_plans=%d read_transactions=%d commits_injected=%d calls_ok=%d refusals=%d lookup_failures=%d other_errors=%d maxrts=%d\n",
		bst.scenarios, bst.histories, bst.placements, bst.intra, bst.split, bst.rts, bst.injected, bst.okCalls, bst.refusals, bst.lookupFails, bst.otherErrs, bst.maxrts)
}
