// c13: runs keystore.NewMnemonic, EntropyFromMnemonic, MnemonicToByteArray, IsMnemonicValid,
// NewSeed, NewSeedWithErrorChecking on generated inputs and prints one observation per line,
// together with (a) the answers of an independent BIP-39 implementation written from the BIP
// text (internal/bip39ref: bit strings, own word-list copy, own PBKDF2, own white-space splitter)
// and (b) the primitive table the Coq model needs (SHA-256 digests, PBKDF2 outputs, NFKD forms).
//
//	E <kind> <entropy hex> <tbl> <NewMnemonic> <ref encode>
//	D <kind> <sentence hex> <passphrase hex> <tbl> <EntropyFromMnemonic> <MnemonicToByteArray>
//	  <MnemonicToByteArray raw> <IsMnemonicValid> <NewSeedWithErrorChecking> <NewSeed> <ref decode> <ref seed>
//
// results: "ok <hex>" | "err" | "panic" | "true"/"false" | "-" (not evaluated)
// tbl: comma separated h:<in>:<sha256>  k:<password>:<salt>:<pbkdf2>  n:<in>:<nfkd>   ("-" if empty)
package main

import (
	"bufio"
	"bytes"
	"crypto/sha256"
	"encoding/hex"
	"flag"
	"fmt"
	"os"
	"strings"

	"crypto/sha512"
	"golang.org/x/crypto/pbkdf2"

	"massnet.org/mass-wallet/masswallet/keystore"
	"massnet.org/mass-wallet/masswallet/keystore/wordlists"
	ref "verifharness/internal/bip39ref"
	"verifharness/internal/rng"
)

var out *bufio.Writer
var dist = map[string]int{}
var hx = hex.EncodeToString

func guard(f func() string) (r string) {
	defer func() {
		if e := recover(); e != nil {
			r = "panic"
		}
	}()
	return f()
}

func okBytes(b []byte, err error) string {
	if err != nil {
		return "err"
	}
	return "ok " + hx(b)
}

func tblString(t []string) string {
	if len(t) == 0 {
		return "-"
	}
	return strings.Join(t, ",")
}

func hEntry(d []byte) string {
	h := sha256.Sum256(d)
	return "h:" + hx(d) + ":" + hx(h[:])
}

func encodeCase(kind string, ent []byte) string {
	dist["E/"+kind]++
	impl := guard(func() string {
		m, err := keystore.NewMnemonic(append([]byte(nil), ent...))
		return okBytes([]byte(m), err)
	})
	o := "err"
	if m, ok := ref.Encode(ent); ok {
		o = "ok " + hx([]byte(m))
	}
	fmt.Fprintf(out, "E\t%s\t%s\t%s\t%s\t%s\n", kind, hx(ent), hEntry(ent), impl, o)
	if strings.HasPrefix(impl, "ok ") {
		b, _ := hex.DecodeString(impl[3:])
		return string(b)
	}
	return ""
}

func decodeCase(kind, s, pass string, seeds bool) {
	dist["D/"+kind]++
	var tbl []string
	words := ref.Split(s)
	odec, oseed := "err", "-"
	if ent, _, ok := ref.CandidateEntropy(words); ok {
		tbl = append(tbl, hEntry(ent))
	}
	ent, accepted := ref.DecodeWords(words)
	if accepted {
		odec = "ok " + hx(ent)
	}
	efm := guard(func() string { return okBytes(keystore.EntropyFromMnemonic(s)) })
	mtba := guard(func() string { return okBytes(keystore.MnemonicToByteArray(s)) })
	mtbaRaw := guard(func() string { return okBytes(keystore.MnemonicToByteArray(s, true)) })
	valid := guard(func() string { return fmt.Sprint(keystore.IsMnemonicValid(s)) })
	seedchk, seed := "-", "-"
	if seeds {
		seedchk = guard(func() string { return okBytes(keystore.NewSeedWithErrorChecking(s, pass)) })
		seed = guard(func() string { return hx(keystore.NewSeed(s, pass)) })
		salt := []byte("mnemonic" + pass)
		own := ref.PBKDF2SHA512([]byte(s), salt, 2048, 64)
		if x := pbkdf2.Key([]byte(s), salt, 2048, 64, sha512.New); !bytes.Equal(x, own) {
			panic("harness: own PBKDF2 disagrees with x/crypto/pbkdf2")
		}
		tbl = append(tbl, "k:"+hx([]byte(s))+":"+hx(salt)+":"+hx(own))
		np := ref.NFKD(pass)
		tbl = append(tbl, "n:"+hx([]byte(pass))+":"+hx([]byte(np)))
		canon := strings.Join(words, " ")
		csalt := []byte("mnemonic" + np)
		if canon != s {
			tbl = append(tbl, "k:"+hx([]byte(canon))+":"+hx(salt)+":"+hx(ref.PBKDF2SHA512([]byte(canon), salt, 2048, 64)))
		}
		if np != pass {
			tbl = append(tbl, "k:"+hx([]byte(canon))+":"+hx(csalt)+":"+hx(ref.PBKDF2SHA512([]byte(canon), csalt, 2048, 64)))
		}
		if accepted {
			oseed = hx(ref.Seed(words, pass))
		}
	}
	fmt.Fprintf(out, "D\t%s\t%s\t%s\t%s\t%s\t%s\t%s\t%s\t%s\t%s\t%s\t%s\n", kind, hx([]byte(s)), hx([]byte(pass)),
		tblString(tbl), efm, mtba, mtbaRaw, valid, seedchk, seed, odec, oseed)
}

var spaces = []string{"  ", "\t", "\n", " \t ", "\r\n", "\v", "\f", "\u00a0", "\u0085", "\u1680", "\u2000", "\u2001", "\u2002", "\u2003", "\u2004", "\u2005",
	"\u2006", "\u2007", "\u2008", "\u2009", "\u200a", "\u2028", "\u2029", "\u202f", "\u205f", "\u3000", " \u3000 "}

// separators that look like spaces but are not Unicode White_Space, or are broken UTF-8
var notSpaces = []string{"\u200b", "\u180e", "\ufeff", "\x00", "\x1c", "\x1f", "\xa0", "\x85", "\xc2", "\xe2\x80", "\xe3\x80",
	"\u2060", "\u200c", "_", "-", ",", "\xc2\x20", "\xe2\x80\x20"}

// passphrases: ASCII, and strings whose NFKD form differs (composed letters, full-width forms, ligature, Hangul)
var passes = []string{"", "TREZOR", "123456", "correct horse battery staple", "p\u00e4ssw\u00f6rd", "\u00e9", "e\u0301",
	"\uff46\uff55\uff4c\uff4c", "\ufb01sh", "\u00c5", "\ud55c\uae00", "\u1e9b\u0323", " pass ", "\x00", "\xff\xfe",
	"0123456789012345678901234567890123456789", "0123456789012345678901234567890123456789X", "0123456789012345678901234567890123456789Y",
	strings.Repeat("long passphrase ", 9), strings.Repeat("k", 128), strings.Repeat("k", 129)}

func foreign(r *rng.R) string {
	ls := [][]string{wordlists.Spanish, wordlists.French, wordlists.Italian, wordlists.Japanese, wordlists.Korean,
		wordlists.ChineseSimplified, wordlists.ChineseTraditional}
	l := ls[r.Intn(len(ls))]
	return l[r.Intn(len(l))]
}

func randPass(r *rng.R) string {
	if r.Chance(50) {
		return passes[r.Intn(len(passes))]
	}
	// lengths: mostly what the API admits (6..40), but NewSeed takes any string: the boundaries of the API's
	// limit (39..42), HMAC's block size (127..130: longer keys are hashed first) and long passphrases
	n := 6 + r.Intn(35)
	switch r.Intn(8) {
	case 0:
		n = 39 + r.Intn(4)
	case 1:
		n = 127 + r.Intn(4)
	case 2:
		n = 41 + r.Intn(260)
	case 3:
		n = r.Intn(6)
	}
	b := make([]byte, n)
	for i := range b {
		b[i] = byte(33 + r.Intn(94))
	}
	return string(b)
}

func mutate(r *rng.R, valid string, seedEvery int, counter *int) {
	w := strings.Split(valid, " ")
	n := len(w)
	cp := func() []string { return append([]string(nil), w...) }
	seeds := func() bool { *counter++; return seedEvery > 0 && *counter%seedEvery == 0 }
	pw := randPass(r)
	decodeCase("valid", valid, pw, seeds())
	switch r.Intn(12) {
	case 0: // one word replaced by another list word
		c := cp()
		c[r.Intn(n)] = ref.English[r.Intn(2048)]
		decodeCase("subst-list", strings.Join(c, " "), pw, seeds())
	case 1: // one word replaced by a token outside the list
		c := cp()
		i := r.Intn(n)
		switch r.Intn(7) {
		case 0:
			c[i] = strings.ToUpper(c[i])
		case 1:
			c[i] = c[i] + "s"
		case 2:
			c[i] = c[i][:len(c[i])-1]
		case 3:
			c[i] = foreign(r)
		case 4:
			c[i] = c[i] + "\x00"
		case 5:
			c[i] = strings.Title(c[i])
		default:
			c[i] = string(r.Bytes(1+r.Intn(5))) + "q"
		}
		k := "subst-nonlist"
		if _, ok := keystore.GetWordIndex(c[i]); ok || len(ref.Split(c[i])) != 1 {
			k = "subst-other"
		}
		decodeCase(k, strings.Join(c, " "), pw, false)
	case 2: // permuted
		c := cp()
		switch r.Intn(3) {
		case 0:
			i, j := r.Intn(n), r.Intn(n)
			c[i], c[j] = c[j], c[i]
		case 1:
			c = append(c[1:], c[0])
		default:
			for i, j := 0, n-1; i < j; i, j = i+1, j-1 {
				c[i], c[j] = c[j], c[i]
			}
		}
		decodeCase("permuted", strings.Join(c, " "), pw, seeds())
	case 3: // truncated
		k := 1 + r.Intn(n)
		if r.Bool() {
			k = 3 * (1 + r.Intn(2))
		}
		if k > n {
			k = n
		}
		if r.Bool() {
			decodeCase("truncated", strings.Join(w[:n-k], " "), pw, false)
		} else {
			decodeCase("truncated", strings.Join(w[k:], " "), pw, false)
		}
	case 4: // extended
		c := cp()
		for k := 1 + r.Intn(6); k > 0; k-- {
			c = append(c, ref.English[r.Intn(2048)])
		}
		decodeCase("extended", strings.Join(c, " "), pw, false)
	case 5, 6, 7: // re-spaced with Unicode white space: same word sequence
		var sb strings.Builder
		if r.Chance(40) {
			sb.WriteString(spaces[r.Intn(len(spaces))])
		}
		for i, x := range w {
			if i > 0 {
				if r.Chance(60) {
					sb.WriteString(spaces[r.Intn(len(spaces))])
				} else {
					sb.WriteString(" ")
				}
			}
			sb.WriteString(x)
		}
		if r.Chance(40) {
			sb.WriteString(spaces[r.Intn(len(spaces))])
		}
		decodeCase("respaced", sb.String(), pw, seeds())
	case 8: // one separator replaced by something that is not white space
		i := 1 + r.Intn(n-1)
		s := strings.Join(w[:i], " ") + notSpaces[r.Intn(len(notSpaces))] + strings.Join(w[i:], " ")
		decodeCase("pseudo-space", s, pw, false)
	case 9: // other language words only
		c := cp()
		for i := range c {
			c[i] = foreign(r)
		}
		decodeCase("foreign", strings.Join(c, " "), pw, false)
	case 10: // last word searched so that the checksum of a substituted sentence is right again
		c := cp()
		c[r.Intn(n-1)] = ref.English[r.Intn(2048)]
		for t := 0; t < 2048; t++ {
			c[n-1] = ref.English[(t*7+r.Intn(2048))%2048]
			if _, ok := ref.DecodeWords(c); ok {
				break
			}
		}
		decodeCase("subst-rechecksummed", strings.Join(c, " "), pw, seeds())
	default: // arbitrary bytes around / instead of the sentence
		switch r.Intn(3) {
		case 0:
			decodeCase("garbage", string(r.Bytes(r.Intn(40))), pw, false)
		case 1:
			decodeCase("garbage", valid+string(r.Bytes(1+r.Intn(3))), pw, false)
		default:
			b := []byte(valid)
			b[r.Intn(len(b))] = byte(r.U64())
			decodeCase("garbage", string(b), pw, false)
		}
	}
}

// official BIP-39 vectors (github.com/trezor/python-mnemonic vectors.json, passphrase "TREZOR"):
// the harness itself stops if its reference implementation disagrees with them.
var vectors = [][3]string{
	{"00000000000000000000000000000000",
		"abandon abandon abandon abandon abandon abandon abandon abandon abandon abandon abandon about",
		"c55257c360c07c72029aebc1b53c05ed0362ada38ead3e3e9efa3708e53495531f09a6987599d18264c1e1c92f2cf141630c7a3c4ab7c81b2f001698e7463b04"},
	{"7f7f7f7f7f7f7f7f7f7f7f7f7f7f7f7f",
		"legal winner thank year wave sausage worth useful legal winner thank yellow",
		"2e8905819b8723fe2c1d161860e5ee1830318dbf49a83bd451cfb8440c28bd6fa457fe1296106559a3c80937a1c1069be3a3a5bd381ee6260e8d9739fce1f607"},
	{"80808080808080808080808080808080",
		"letter advice cage absurd amount doctor acoustic avoid letter advice cage above",
		"d71de856f81a8acc65e6fc851a38d4d7ec216fd0796d0a6827a3ad6ed5511a30fa280f12eb2e47ed2ac03b5c462a0358d18d69fe4f985ec81778c1b370b652a8"},
	{"ffffffffffffffffffffffffffffffff",
		"zoo zoo zoo zoo zoo zoo zoo zoo zoo zoo zoo wrong",
		"ac27495480225222079d7be181583751e86f571027b0497b5b5d11218e0a8a13332572917f0f8e5a589620c6f15b11c61dee327651a14c34e18231052e48c069"},
	{"0000000000000000000000000000000000000000000000000000000000000000",
		"abandon abandon abandon abandon abandon abandon abandon abandon abandon abandon abandon abandon abandon abandon abandon abandon abandon abandon abandon abandon abandon abandon abandon art",
		"bda85446c68413707090a52022edd26a1c9462295029f2e60cd7c4f2bbd3097170af7a4d73245cafa9c3cca8d561a7c3de6f5d4a10be8ed2a5e608d68f92fcc8"},
	{"ffffffffffffffffffffffffffffffffffffffffffffffffffffffffffffffff",
		"zoo zoo zoo zoo zoo zoo zoo zoo zoo zoo zoo zoo zoo zoo zoo zoo zoo zoo zoo zoo zoo zoo zoo vote",
		"dd48c104698c30cfe2b6142103248622fb7bb0ff692eebb00089b32d22484e1613912f0a5b694407be899ffd31ed3992c456cdf60f5d4564b8ba3f05a69890ad"},
}

func main() {
	tier := flag.String("tier", "quick", "quick|thorough")
	outPath := flag.String("out", "", "output file")
	replay := flag.String("replay", "", "replay one case: E:<entropy hex>  or  D:<sentence hex>:<passphrase hex>:<0|1 seeds>")
	flag.Parse()
	f := os.Stdout
	if *outPath != "" {
		var err error
		f, err = os.Create(*outPath)
		if err != nil {
			panic(err)
		}
		defer f.Close()
	}
	out = bufio.NewWriterSize(f, 1<<20)
	defer out.Flush()

	if *replay != "" {
		p := strings.Split(*replay, ":")
		if p[0] == "E" && len(p) == 2 {
			b, _ := hex.DecodeString(p[1])
			encodeCase("replay", b)
		} else if p[0] == "D" && len(p) == 4 {
			s, _ := hex.DecodeString(p[1])
			pw, _ := hex.DecodeString(p[2])
			decodeCase("replay", string(s), string(pw), p[3] == "1")
		}
		return
	}

	// the reference implementation against the official vectors
	for _, v := range vectors {
		e, _ := hex.DecodeString(v[0])
		m, ok := ref.Encode(e)
		if !ok || m != v[1] || hx(ref.Seed(strings.Split(v[1], " "), "TREZOR")) != v[2] {
			fmt.Fprintf(os.Stderr, "reference implementation disagrees with official BIP-39 vector %s\n", v[0])
			os.Exit(3)
		}
		d, ok := ref.DecodeWords(strings.Split(v[1], " "))
		if !ok || hx(d) != v[0] {
			fmt.Fprintf(os.Stderr, "reference decoder disagrees with official BIP-39 vector %s\n", v[0])
			os.Exit(3)
		}
	}

	r := rng.FromEnv(13)
	thorough := *tier == "thorough"
	sizes := []int{16, 20, 24, 28, 32}
	var valids []string
	keep := func(m string) {
		if m != "" {
			valids = append(valids, m)
		}
	}

	// --- the word list in force against the reference copy of bips/bip-0039/english.txt
	wl := keystore.GetWordList()
	wdiff := -1
	for i := 0; i < 2048 && wdiff < 0; i++ {
		if i >= len(wl) || wl[i] != ref.English[i] {
			wdiff = i
		}
	}
	if wdiff < 0 && len(wl) != 2048 {
		wdiff = 2048
	}
	fmt.Fprintf(os.Stderr, "wordlist %d %d\n", len(wl), wdiff)
	if wdiff >= 0 && wdiff < 2048 { // an entropy whose first word has the differing index
		e := make([]byte, 16)
		e[0], e[1] = byte(wdiff>>3), byte(wdiff<<5)
		encodeCase("wordlist-diff", e)
	}

	// --- corpus: official vectors, through the real code
	for _, v := range vectors {
		e, _ := hex.DecodeString(v[0])
		encodeCase("vector", e)
		decodeCase("vector", v[1], "TREZOR", true)
	}
	// --- boundary sentences
	for _, s := range []string{"", " ", "\t\n", "\u3000", "abandon", strings.Repeat("abandon ", 11) + "about ",
		" " + strings.Repeat("abandon ", 11) + "about", strings.Repeat("abandon  ", 11) + "about",
		strings.Repeat("abandon\u00a0", 11) + "about", strings.Repeat("abandon\u3000", 11) + "about",
		strings.Repeat("abandon\xa0", 11) + "about", strings.Repeat("abandon ", 12), strings.Repeat("abandon ", 24),
		strings.Repeat("zoo ", 27), strings.Repeat("abandon ", 11) + "About", strings.Repeat("abandon ", 9) + "about",
		strings.Repeat("abandon ", 23) + "art\n", "\xe2\x80" + strings.Repeat("abandon ", 11) + "about",
		strings.Repeat("abandon ", 11) + "about\xe2\x80", strings.Repeat("abandon ", 11) + "about\xe2\x80\x80",
		strings.Repeat("abandon ", 11) + "about \xc2", strings.Repeat("abandon ", 11) + "about\xc2\x85\xc2\xa0"} {
		decodeCase("boundary", s, "TREZOR", true)
	}
	// --- entropies: patterns for every legal size
	for _, n := range sizes {
		z := make([]byte, n)
		keep(encodeCase("all-zero", z))
		o := bytes.Repeat([]byte{0xff}, n)
		keep(encodeCase("all-one", o))
		for k := 1; k < n; k++ { // k leading zero bytes
			if !thorough && k > 4 && k < n-2 && k%5 != 0 {
				continue
			}
			e := append(make([]byte, k), r.Bytes(n-k)...)
			if e[k] == 0 {
				e[k] = 1
			}
			keep(encodeCase("leading-zero", e))
			t := append(r.Bytes(n-k), make([]byte, k)...)
			keep(encodeCase("trailing-zero", t))
		}
		e := append([]byte{0}, bytes.Repeat([]byte{0xff}, n-1)...)
		keep(encodeCase("leading-zero", e))
		e = append(bytes.Repeat([]byte{0xff}, n-1), 0)
		keep(encodeCase("trailing-zero", e))
		step := 1
		if !thorough {
			step = 5
		}
		for bit := 0; bit < 8*n; bit += step { // one bit set
			e := make([]byte, n)
			e[bit/8] = 0x80 >> uint(bit%8)
			keep(encodeCase("one-hot", e))
		}
		for _, b := range []byte{0x7f, 0x80, 0x01, 0x55, 0xaa} {
			keep(encodeCase("pattern", bytes.Repeat([]byte{b}, n)))
		}
	}
	// --- illegal sizes
	for n := 0; n <= 40; n++ {
		if !ref.LegalEntropyLen(n) {
			encodeCase("illegal-size", r.Bytes(n))
		}
	}
	encodeCase("illegal-size", r.Bytes(64))
	encodeCase("illegal-size", make([]byte, 33))
	encodeCase("illegal-size", nil)

	// --- random entropies
	nRand := 300
	if thorough {
		nRand = 20000
	}
	for i := 0; i < nRand; i++ {
		for _, n := range sizes {
			e := r.Bytes(n)
			if r.Chance(15) {
				e[0] = 0
			}
			if r.Chance(5) {
				e[0], e[1] = 0, 0
			}
			if r.Chance(10) {
				e[n-1] = 0
			}
			keep(encodeCase("random", e))
		}
	}
	// --- sentences derived from the valid mnemonics
	seedEvery := 9
	if thorough {
		seedEvery = 25
	}
	counter := 0
	for _, m := range valids {
		mutate(r, m, seedEvery, &counter)
	}
	// every passphrase of the list with a canonical and a re-spaced sentence
	for i, p := range passes {
		m := valids[(i*37)%len(valids)]
		decodeCase("valid", m, p, true)
		decodeCase("respaced", strings.Replace(m, " ", "  ", 1), p, true)
	}
	fmt.Fprintf(os.Stderr, "dist %v\n", dist)
}
