// c09: histories that interleave unconfirmed transactions (chains, duplicates, orphans, conflicts)
// with block connects and reorganisations, run on the real wallet and printed with the
// implementation's observations (format: internal/hist, hist.go + pending.go). Used by the C09
// check (-mode c09) and, with more deposits, withdrawals and transaction building, by the C10
// check (-mode c10).
package main

import (
	"bufio"
	"bytes"
	"flag"
	"fmt"
	"os"
	"strings"
	"sync"

	"github.com/massnetorg/mass-core/consensus"
	"github.com/massnetorg/mass-core/massutil"
	"github.com/massnetorg/mass-core/wire"
	"verifharness/internal/hist"
	"verifharness/internal/rng"
	"verifharness/internal/sim"
)

type stats struct {
	sync.Mutex
	hist, blocks, reorgs, queries, txs, received, rel, no, err, minedPending, minedConflict, chains, orphans, dups, simul, sel, wd, restarts, directed int
}

var st stats

type cfg struct {
	mode    string
	lag     bool
	restart bool
	probes  map[string]bool
}

func runOne(seed uint64, n int, c cfg) ([]byte, error) {
	var buf bytes.Buffer
	out := bufio.NewWriter(&buf)
	// the multiplier keeps the streams of neighbouring histories far apart (rng.New is linear in its seed)
	r := rng.New((seed*1000003 + uint64(n) + 7777) * 0xD1342543DE82EF95)
	opt := hist.Options{Games: true, Lag: c.lag, MaxReorg: 4}
	h, err := hist.New(r, out, n, opt, nil)
	if err != nil {
		return nil, err
	}
	defer h.Close()
	defer h.ClosePending()
	po := hist.PendOpt{Games: 25}
	if c.mode == "c10" {
		po.Games = 55
	}
	// conflicting pairs delivered together, transactions delivered after they were mined and coinbase
	// deposits are ordinary cases (the defects they exhibited are repaired); only the shape of the
	// recorded finding stale-pending:foreign-input is generated on request
	po.SimulConflicts = !c.probes["nosimul"]
	po.ForeignInputs = c.probes["foreign"]
	po.CoinbaseGames = !c.probes["nocbgames"]
	po.AlreadyMined = !c.probes["nomined"]
	po.UnseenParents = c.probes["unseen"]
	h.SetPendOpt(po)
	nW := 1 + r.Intn(2)
	for i := 0; i < nW; i++ {
		wi, err := h.NewWallet()
		if err != nil {
			return nil, err
		}
		for j, na := 0, 1+r.Intn(3); j < na; j++ {
			cls := uint16(0)
			if r.Chance(30) {
				cls = 1
			}
			if _, err := h.NewAddress(wi, cls); err != nil {
				return nil, err
			}
		}
	}
	var queue []*massutil.Block
	announce := func(b *massutil.Block) {
		if c.lag && r.Chance(35) {
			queue = append(queue, b)
			return
		}
		for _, q := range queue {
			h.Process(q)
		}
		queue = nil
		h.Process(b)
	}
	nb, nr, nq, ntx := 0, 0, 0, 0
	// candidates for mining: accepted pending transactions and transactions of detached blocks
	var heldConflicts []*wire.MsgTx // conflicts of pending transactions, never delivered, waiting to be mined
	var orphans []*wire.MsgTx       // children delivered before their parent
	extras := func() []*wire.MsgTx {
		var cands []*wire.MsgTx
		if r.Chance(35) && len(heldConflicts) > 0 {
			cands = append(cands, heldConflicts...)
			st.Lock()
			st.minedConflict++
			st.Unlock()
		}
		cands = append(cands, h.LivePool()...)
		ex := h.PickMinable(cands, 3)
		return ex
	}
	block := func(maxRandom int) error {
		var ex []*wire.MsgTx
		if r.Chance(65) {
			ex = extras()
		}
		b := h.BuildBlockP(r.Intn(maxRandom+1), ex)
		ntx += len(b.MsgBlock().Transactions)
		if err := h.Attach(b); err != nil {
			return err
		}
		nb++
		st.Lock()
		st.minedPending += len(ex)
		st.Unlock()
		announce(b)
		return nil
	}
	// directed shapes of reported findings (only with -probes): played as soon as the chain offers the coins
	todo := map[string]bool{}
	if c.probes["foreign"] {
		todo["foreign"] = true
	}
	if c.probes["unseen"] {
		todo["unseen"] = true
	}
	// the two directed shapes of repaired findings stay in the ordinary mix
	if r.Chance(25) {
		todo["simul"] = true
	}
	if r.Chance(25) {
		todo["mined"] = true
	}
	if r.Chance(25) {
		todo["forkrecv"] = true
	}
	steps := 10 + r.Intn(30)
	for s := 0; s < steps || ((c.probes["foreign"] || c.probes["unseen"]) && len(todo) > 0 && s < 80); s++ {
		if len(todo) > 0 && len(queue) == 0 && h.N.Height() >= 6 {
			for _, p := range []string{"simul", "mined", "forkrecv", "foreign", "unseen"} {
				if todo[p] {
					done, err := h.Scenario(p)
					if err != nil {
						return nil, err
					}
					if done {
						delete(todo, p)
						st.Lock()
						st.directed++
						st.Unlock()
					}
				}
			}
		}
		switch k := r.Intn(100); {
		case k < 34:
			if err := block(2); err != nil {
				return nil, err
			}
		case k < 44:
			if h.N.Height() < 2 {
				continue
			}
			d := 1 + r.Intn(opt.MaxReorg)
			if uint64(d) > h.N.Height()-1 {
				d = int(h.N.Height() - 1)
			}
			for i := 0; i < d; i++ {
				if _, err := h.Detach(); err != nil {
					return nil, err
				}
			}
			nnew := d + r.Intn(2)
			perBlock := r.Chance(60)
			var last *massutil.Block
			for i := 0; i < nnew; i++ {
				var ex []*wire.MsgTx
				if r.Chance(50) {
					ex = extras()
				}
				b := h.BuildBlockP(r.Intn(2), ex)
				ntx += len(b.MsgBlock().Transactions)
				if err := h.Attach(b); err != nil {
					return nil, err
				}
				nb++
				last = b
				if perBlock {
					announce(b)
				}
			}
			if !perBlock && last != nil {
				announce(last)
			}
			nr++
		case k < 76:
			// an unconfirmed transaction arrives (the handler ignores them while the wallet is
			// more than one block behind the node)
			if !h.CanReceive() {
				for _, q := range queue {
					h.Process(q)
				}
				queue = nil
				if !h.CanReceive() {
					h.Process(h.N.Tip())
				}
			}
			switch kk := r.Intn(100); {
			case kk < 38:
				if tx := h.NewPending(0); tx != nil {
					h.Receive(tx)
				}
			case kk < 52:
				if tx := h.NewPending(1); tx != nil {
					h.Receive(tx)
				}
			case kk < 68:
				if tx := h.NewPending(2); tx != nil {
					h.Receive(tx)
					st.Lock()
					st.chains++
					st.Unlock()
				}
			case kk < 72:
				if tx := h.NewPending(3); tx != nil {
					h.Receive(tx)
				}
			case kk < 80:
				// a parent and, at once, a child spending one of its outputs
				if p := h.NewPending(0); p != nil {
					h.Receive(p)
					if ch := h.ChildOf(p); ch != nil {
						h.Receive(ch)
						st.Lock()
						st.chains++
						st.Unlock()
					}
				}
			case kk < 86:
				// orphan: build parent (undelivered) and child; deliver child, parent, child
				if p := h.NewPending(0); p != nil {
					if ch := h.ChildOf(p); ch != nil {
						h.Receive(ch)
						h.Receive(p)
						h.Receive(ch)
						orphans = append(orphans, ch)
						st.Lock()
						st.orphans++
						st.Unlock()
					} else {
						h.Receive(p)
					}
				}
			case kk < 93:
				// duplicate delivery of something the wallet has been shown before
				if tx := h.KnownDelivered(); tx != nil {
					h.Receive(tx)
					st.Lock()
					st.dups++
					st.Unlock()
				}
			default:
				// a conflict of a pending transaction: held back to be mined, or (probe) delivered as well
				if tx, _ := h.NewConflict(); tx != nil {
					if po.SimulConflicts && r.Chance(60) {
						h.Receive(tx)
						st.Lock()
						st.simul++
						st.Unlock()
					} else {
						heldConflicts = append(heldConflicts, tx)
					}
				}
			}
			st.Lock()
			st.received++
			st.Unlock()
		case k < 78:
			// restart of the process (only between blocks: Start() catches up by itself otherwise)
			if !h.Stale && len(queue) == 0 && c.restart {
				if err := h.Restart(); err != nil {
					return nil, err
				}
				st.Lock()
				st.restarts++
				st.Unlock()
			}
		case k < 81:
			if len(h.Wallets) > 0 {
				wi := h.Wallets[r.Intn(len(h.Wallets))]
				if _, err := h.NewAddress(wi, 0); err != nil {
					return nil, err
				}
			}
		default:
			sel := r.Chance(35)
			wd := c.mode == "c10" && r.Chance(60)
			h.QueryP(sel, wd)
			nq++
		}
	}
	for _, q := range queue {
		h.Process(q)
	}
	if h.Stale {
		h.Process(h.N.Tip())
	}
	h.QueryP(true, c.mode == "c10")
	nq++
	h.End()
	out.Flush()
	ps := h.PendStats()
	st.Lock()
	st.hist++
	st.blocks += nb
	st.reorgs += nr
	st.queries += nq
	st.txs += ntx
	st.rel += ps["rel"]
	st.no += ps["no"]
	st.err += ps["err"]
	st.Unlock()
	return buf.Bytes(), nil
}

func main() {
	count := flag.Int("n", 100, "number of histories")
	outPath := flag.String("out", "", "output file")
	workers := flag.Int("j", 12, "parallel worker processes")
	lag := flag.Bool("lag", true, "let announcements lag")
	mode := flag.String("mode", "c09", "c09 | c10")
	probes := flag.String("probes", "", "comma separated: foreign, unseen (shapes of the findings stale-pending:foreign-input / stale-pending:unseen-parent); nosimul,nomined,nocbgames switch ordinary shapes off")
	warm := flag.Int("warmup", 0, "MASSIP0002 warm-up height (0: leave the consensus value)")
	first := flag.Int("first", 0, "index of the first history (replay: -first k -n 1)")
	restart := flag.Bool("restart", true, "restart the wallet process now and then")
	worker := flag.Bool("worker", false, "internal: run sequentially and print to stdout")
	flag.Parse()
	if !*worker {
		err := hist.ParallelSelf(*count, *first, *workers, *outPath, os.Args[1:])
		if err != nil {
			fmt.Fprintln(os.Stderr, err)
			os.Exit(2)
		}
		return
	}
	sim.Init(sim.Params{CoinbaseMaturity: 4, MinFrozenPeriod: 2, GapLimit: 20})
	if *warm > 0 {
		consensus.MASSIP0002WarmUpHeight = uint64(*warm)
	}
	seed := rng.Seed()
	c := cfg{mode: *mode, lag: *lag, restart: *restart, probes: map[string]bool{}}
	for _, p := range strings.Split(*probes, ",") {
		if p != "" {
			c.probes[p] = true
		}
	}
	w := bufio.NewWriter(os.Stdout)
	for i := 0; i < *count; i++ {
		res, err := runOne(seed, *first+i, c)
		if err != nil {
			fmt.Fprintf(w, "X %d harness-error %v\n", *first+i, err)
			continue
		}
		w.Write(res)
	}
	w.Flush()
	fmt.Fprintf(os.Stderr, "STATS histories=%d blocks=%d txs=%d reorgs=%d queries=%d received=%d rel=%d no=%d err=%d mined_pending=%d mined_conflict_blocks=%d chains=%d orphans=%d duplicates=%d simultaneous_conflicts=%d restarts=%d directed_shapes=%d\n",
		st.hist, st.blocks, st.txs, st.reorgs, st.queries, st.received, st.rel, st.no, st.err, st.minedPending, st.minedConflict, st.chains, st.orphans, st.dups, st.simul, st.restarts, st.directed)
}
