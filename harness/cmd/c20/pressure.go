// Queue-pressure schedules (family "qp") for the second sentence of C20: "while the wallet runs ...
// every announced tip is eventually processed and every accepted import or removal eventually
// finishes".
//
// One schedule, on the real handler / worker / API goroutines, steered only through the database
// wrapper (internal/sched: every begin / commit / abort of the handler and of the worker waits for a
// grant), the announcements and the API calls:
//
//  1. (restart shapes) a first run of the wallet accepts k imports / removals and is stopped while the
//     worker is still waiting for the follower, so that k tasks are unfinished; some further ready
//     wallets are created; the wallet is opened again: initTaskChan sizes the queue from the status
//     rows and re-queues the k tasks.
//  2. a task that needs more than one round is running:
//     "long"  an import on a chain longer than one rescan batch (1000 heights): two rounds;
//     "retry" an import whose first round is refused (the node has silently switched to another tip:
//     ErrImportingContinuable), re-queued after the retry delay, second round after the switch
//     has been announced and processed.
//     The worker is held inside a round of it:
//     A  after the suspend hand-shake, before its write transaction begins,
//     B  after that transaction has ended (committed / rolled back), before resume,
//     C  in suspend() itself: the follower is busy with a block (held before its transaction).
//  3. API callers request imports / removals of OTHER wallets until the API answers ErrTooManyTask,
//     tips are announced meanwhile.
//  4. everything is released: the pending handler / worker passages are granted in an order chosen
//     by the schedule (worker first, handler first, random), a few more tips and requests arrive
//     while the queue drains.
//  5. required: every ACCEPTED task finishes (import: wallet ready; removal: wallet gone), every
//     announced tip is processed (SyncedTo = the node's height, block queue empty), within a
//     bound; then Stop returns.
//
// The result line carries the scenario in the model's terms (reqs with their rounds, restart list in
// the order of the status rows, number of status rows = argument of NewWalletTaskChan) and the
// observed event sequence, which ocaml/C20/driver.ml checks for membership in the extracted model
// with the capacity the model's start-up rule gives (start_cap), ending in a terminal idle state.
package main

import (
	"fmt"
	"strings"
	"time"

	"github.com/massnetorg/mass-core/massutil"
	"massnet.org/mass-wallet/masswallet"
	"verifharness/internal/rng"
	"verifharness/internal/sched"
	"verifharness/internal/sim"
)

const (
	qpWait      = 8 * time.Second  // positive waits for a goroutine to reach a known point
	qpDeadline  = 40 * time.Second // bound for the drain
	qpStableFor = 1500 * time.Millisecond
	rescanBatch = 1000 // heights per import round (asyncImport: ws.SyncedHeight + 1000)
)

type qpTask struct {
	kind byte // 'i' / 'r'
	id   string
	more int
}

func (t qpTask) String() string { return fmt.Sprintf("%c%d", t.kind, t.more) }

type qpRun struct {
	x        *world
	r        *rng.R
	variant  string
	reqs     []string // every API request in order, in the model's notation
	accepted []qpTask
	nann     int
	fork     []*massutil.Block // attached to the node, not yet announced (retry variant)
	noted    int
}

func qpWaitPending(x *world, role sched.Role, points ...string) bool {
	return sched.Until(qpWait, func() bool {
		ev, ok := x.ctl.Pending(role)
		if !ok {
			return false
		}
		for _, p := range points {
			if ev.Point == p {
				return true
			}
		}
		return false
	})
}

// rounds an import of a wallet synced to `synced` needs when the follower's tip is `best`, minus one
func importMore(best, synced uint64) int {
	if best <= synced {
		return 0
	}
	n := int((best - synced + rescanBatch - 1) / rescanBatch)
	return n - 1
}

// announce queues the next block: a block of the unannounced fork first, else a new one.
func (q *qpRun) announce() {
	var b *massutil.Block
	if len(q.fork) > 0 {
		b = q.fork[0]
		q.fork = q.fork[1:]
	} else {
		nb, err := q.x.mine()
		if err != nil {
			fail("mine: %v", err)
		}
		b = nb
	}
	q.x.w.H.OnBlockConnected(b.MsgBlock())
	q.x.ctl.Note("node", "a")
	q.nann++
}

// request issues one API request of a wallet that no other task concerns; returns the label.
func (q *qpRun) request(kind byte) string {
	x := q.x
	var id, pass string
	var err error
	if kind == 'r' {
		id, pass, err = x.createWallet()
		if err != nil {
			fail("create: %v", err)
		}
	}
	label := "ti"
	func() {
		defer func() {
			if r := recover(); r != nil {
				label = "tp"
			}
		}()
		if kind == 'r' {
			label = "tr"
			err = x.w.WM.RemoveWallet(id, pass)
		} else {
			id, _, err = x.importWallet()
		}
		if err == masswallet.ErrTooManyTask {
			label = "tb"
		} else if err != nil {
			label = "te"
		}
	}()
	x.ctl.Note("api", label)
	more := 0
	if kind == 'i' && q.variant == "long" {
		more = importMore(x.node.Height(), 0)
	}
	t := qpTask{kind, id, more}
	q.reqs = append(q.reqs, t.String())
	if label == "ti" || label == "tr" {
		q.accepted = append(q.accepted, t)
	}
	return label
}

type qpStatus struct {
	ready   map[string]bool
	present map[string]bool
	height  map[string]uint64
	order   []string
	removed map[string]bool
}

func qpWallets(x *world) (*qpStatus, error) {
	list, err := x.w.WM.Wallets()
	if err != nil {
		return nil, err
	}
	st := &qpStatus{ready: map[string]bool{}, present: map[string]bool{}, height: map[string]uint64{}, removed: map[string]bool{}}
	for _, s := range list {
		st.order = append(st.order, s.WalletID)
		st.present[s.WalletID] = true
		st.removed[s.WalletID] = s.Status.IsRemoved()
		st.ready[s.WalletID] = s.Status.Ready() && !s.Status.IsRemoved()
		st.height[s.WalletID] = s.Status.SyncedHeight
	}
	return st, nil
}

func (q *qpRun) unfinished() (n int, detail []string) {
	st, err := qpWallets(q.x)
	if err != nil {
		return len(q.accepted), []string{"wallets-error"}
	}
	for i, t := range q.accepted {
		switch t.kind {
		case 'i':
			if !st.ready[t.id] {
				n++
				detail = append(detail, fmt.Sprintf("import#%d(%s)-stands-at-height-%d-of-%d", i, t, st.height[t.id], q.x.node.Height()))
			}
		case 'r':
			if st.present[t.id] {
				n++
				detail = append(detail, fmt.Sprintf("removal#%d(%s)-wallet-still-present", i, t))
			}
		}
	}
	return
}

func (q *qpRun) tipsProcessed() (uint64, bool) {
	h, err := q.x.w.WM.SyncedTo()
	if err != nil {
		return 0, false
	}
	return h, q.x.w.H.VerifQueueLen() == 0 && h == q.x.node.Height()
}

func qpParked(name string) bool {
	g := sched.Find(name)
	return g != nil && g.State == "select"
}

// qp runs schedule number n of the family.
func qp(seed uint64, n int) {
	r := rng.New(seed*104729 + uint64(n)*31 + 17)
	q := &qpRun{r: r, variant: "long"}
	li := n - n/4 // index among the long schedules
	k, placement := 0, byte('A')
	if n%4 == 3 {
		q.variant = "retry"
		placement = "AB"[(n/4)%2]
	} else {
		k = []int{0, 1, 0, 2, 3, 0, 4, 2, 1}[li%9]
		pos := []int{0, 0, 1, 1, 2, 2, 3, 4, 5}[li%9] // index among the k = 0 / the k > 0 schedules of this cycle
		if k == 0 {
			placement = "ABC"[(pos+li/9)%3]
		} else {
			placement = "AB"[(pos+li/9)%2]
		}
	}
	restart := k > 0 || r.Chance(15)
	policy := []string{"worker-first", "handler-first", "random"}[r.Intn(3)]
	pre := 2 + r.Intn(4)
	if q.variant == "long" {
		pre = rescanBatch + 1 + r.Intn(30)
	}
	id := fmt.Sprintf("qp/%d", n)
	shape := fmt.Sprintf("%s:%c:k%d:%s", q.variant, placement, k, policy)

	x, err := newWorld(seed+uint64(n), pre)
	if err != nil {
		fail("%v", err)
	}
	defer x.cleanup()
	q.x = x

	// ---- 1. first run of the wallet: k unfinished tasks, some ready wallets
	if restart {
		if err := x.start(true); err != nil {
			fail("%v", err)
		}
		for i, e := 0, r.Intn(4); i < e; i++ {
			if _, _, err := x.createWallet(); err != nil {
				fail("create: %v", err)
			}
		}
		if k > 0 {
			x.ctl.SetHold(true)
			q.announce()
			if !qpWaitPending(x, sched.Handler, "begin") {
				fail("prep: the handler did not take the block")
			}
			for i := 0; i < k; i++ {
				if l := q.request(r.Pick("iir")); l != "ti" && l != "tr" {
					fail("prep: request %d answered %s", i, l)
				}
			}
			if !sched.Until(qpWait, func() bool { return sched.Find("masswallet.worker(", "NtfnsHandler).suspend(") != nil }) {
				fail("prep: the worker did not reach suspend")
			}
		}
		x.stop()
		x.ctl.SetHold(false)
		if !x.stopReturned(30 * time.Second) {
			fail("prep: Stop did not return")
		}
		x.ctl = sched.New()
		w, err := sim.OpenWallet(x.node, x.dir, x.ctl.Wrap, false)
		if err != nil {
			fail("reopen: %v", err)
		}
		x.w, x.stopDone = w, nil
		*q = qpRun{x: x, r: r, variant: q.variant}
	}

	// the scenario in the model's terms: what initTaskChan will read
	st0, err := qpWallets(x)
	if err != nil {
		fail("wallets: %v", err)
	}
	nw := len(st0.order)
	var rst []string
	for _, wid := range st0.order {
		switch {
		case st0.removed[wid]:
			t := qpTask{'r', wid, 0}
			rst = append(rst, t.String())
			q.accepted = append(q.accepted, t)
		case !st0.ready[wid]:
			t := qpTask{'i', wid, importMore(x.node.Height(), st0.height[wid])}
			rst = append(rst, t.String())
			q.accepted = append(q.accepted, t)
		}
	}
	nrst := len(rst)

	// ---- 2. a multi-round task is running and the worker is held inside a round of it
	x.ctl.SetHold(true)
	if err := x.start(false); err != nil {
		fail("%v", err)
	}
	if q.variant == "retry" {
		// the node silently moves to another tip of the same height (+ possibly one more block)
		if _, err := x.node.Detach(); err != nil {
			fail("detach: %v", err)
		}
		for i, e := 0, 1+r.Intn(2); i < e; i++ {
			b, err := x.mine()
			if err != nil {
				fail("mine: %v", err)
			}
			q.fork = append(q.fork, b)
		}
	}
	if nrst == 0 {
		if placement == 'C' {
			q.announce()
			if !qpWaitPending(x, sched.Handler, "begin") {
				fail("the handler did not take the block")
			}
		}
		if l := q.request('i'); l != "ti" {
			fail("the first import answered %s", l)
		}
		if q.variant == "retry" {
			q.accepted[0].more = 1 // one refused round, then one round
			q.reqs[0] = q.accepted[0].String()
		}
	}
	if placement == 'C' && nrst == 0 {
		if !sched.Until(qpWait, func() bool { return sched.Find("masswallet.worker(", "NtfnsHandler).suspend(") != nil }) {
			fail("the worker did not reach suspend")
		}
	} else {
		if !qpWaitPending(x, sched.Worker, "begin") {
			fail("the worker did not reach the transaction of its round (restart=%v)", rst)
		}
		if placement == 'B' {
			x.ctl.Grant(sched.Worker)
			if !qpWaitPending(x, sched.Worker, "commit", "abort") {
				fail("the worker did not end the transaction of its round")
			}
		}
	}

	// ---- 3. API callers fill the waiting queue until the API answers busy; tips meanwhile
	tipsHold := r.Intn(3)
	if q.variant == "retry" && tipsHold == 0 {
		tipsHold = 1
	}
	nfill := 0
	for {
		if tipsHold > 0 && r.Chance(40) {
			q.announce()
			tipsHold--
		}
		l := q.request(r.Pick("ir"))
		if l == "tb" {
			break
		}
		if l != "ti" && l != "tr" {
			fail("request during the hold answered %s", l)
		}
		nfill++
		if nfill > 8 {
			fail("the API accepted %d tasks while one is running: it never answers busy", nfill)
		}
	}
	for ; tipsHold > 0; tipsHold-- {
		q.announce()
	}

	// ---- 4. release
	lateTips, lateReqs := r.Intn(2), r.Intn(3)
	if q.variant == "retry" {
		lateTips = 0 // every block of the new branch was announced during the hold or is announced now
		for len(q.fork) > 0 {
			q.announce()
		}
	}
	grants := 0
	deadline := time.Now().Add(qpDeadline)
	var stableSince time.Time
	outcome := "busy"
	for {
		_, ph := x.ctl.Pending(sched.Handler)
		_, pk := x.ctl.Pending(sched.Worker)
		if ph || pk {
			stableSince = time.Time{}
			role := sched.Worker
			switch {
			case ph && pk:
				switch policy {
				case "handler-first":
					role = sched.Handler
				case "random":
					if r.Bool() {
						role = sched.Handler
					}
				}
			case ph:
				role = sched.Handler
			}
			x.ctl.Grant(role)
			grants++
			if lateTips > 0 && r.Chance(15) {
				q.announce()
				lateTips--
			}
			if lateReqs > 0 && r.Chance(20) {
				q.request(r.Pick("ir"))
				lateReqs--
			}
			continue
		}
		if x.w.H.VerifQueueLen() == 0 && x.w.H.VerifTaskQueueLen() == 0 && qpParked("masswallet.handle(") && qpParked("masswallet.worker(") {
			if _, p1 := x.ctl.Pending(sched.Handler); !p1 {
				if _, p2 := x.ctl.Pending(sched.Worker); !p2 {
					if stableSince.IsZero() {
						stableSince = time.Now()
					}
					if lateTips > 0 {
						q.announce()
						lateTips--
						continue
					}
					if u, _ := q.unfinished(); u == 0 {
						if _, ok := q.tipsProcessed(); ok {
							outcome = "idle"
							break
						}
					}
					if time.Since(stableSince) > qpStableFor {
						// nothing moves, nothing is queued: this is how it stays
						outcome = "idle"
						break
					}
				}
			}
		} else {
			stableSince = time.Time{}
		}
		if time.Now().After(deadline) {
			break
		}
		time.Sleep(300 * time.Microsecond)
	}

	// ---- 5. the property
	unfin, detail := q.unfinished()
	synced, tipsOK := q.tipsProcessed()
	obs := obsLine(x)
	taskq := x.w.H.VerifTaskQueueLen()
	stacks := ""
	if outcome == "busy" {
		stacks = filterStacks(sched.Dump())
	}
	x.ctl.Tracing = false
	x.ctl.SetHold(false)
	x.stop()
	stopret := 1
	if finish(x, true) != "stopped" {
		stopret = 0
	}
	tp := 0
	if tipsOK {
		tp = 1
	}
	reqs, rs := strings.Join(q.reqs, ","), strings.Join(rst, ",")
	if reqs == "" {
		reqs = "-"
	}
	if rs == "" {
		rs = "-"
	}
	det := "-"
	if len(detail) > 0 {
		det = strings.Join(detail, ";")
	}
	fmt.Printf("R id=%s blocks=%d reqs=%s restart=%s wallets=%d stop=0 steered=%d/%d diverged=0 outcome=%s obs=%s qp=1 shape=%s acc=%d fin=%d filled=%d tipsok=%d synced=%d/%d taskq=%d stopret=%d unfinished=%s\n",
		id, q.nann, reqs, rs, nw, grants, grants, outcome, obs, shape, len(q.accepted), len(q.accepted)-unfin, nfill, tp, synced, x.node.Height(), taskq, stopret, det)
	if stopret == 0 || outcome == "busy" {
		if stacks == "" {
			stacks = filterStacks(sched.Dump())
		}
		fmt.Printf("STACKS-BEGIN id=%s\n%s\nSTACKS-END\n", id, stacks)
	}
}
