// Retry-stop schedules (family "rs") for the first sentence of C20 in the presence of REFUSED rescan
// batches: "a stop request issued at any moment - while blocks are queued, while a wallet import ... is
// running or between two of its steps - returns after a bounded time with the wallet database closed".
//
// Since 9b649ff asyncImport refuses a batch (ErrImportingContinuable, transaction rolled back) when the
// chain it read is not the chain the follower is synced to; since 4dd12f5 the worker then pauses
// importRetryDelay - or until quit - before it re-queues the task. One schedule, on the real handler /
// worker / Stop goroutines, steered only through the database wrapper (internal/sched), the
// announcements, the API and Stop:
//
//  1. the wallet runs on a short chain; the simulated node silently switches to a side branch (tip
//     detached, 1-2 other blocks attached, nothing announced);
//  2. an import is requested: its batch reads the side branch and is REFUSED; the worker is held at the
//     points the wrapper sees (before the batch's transaction, right after its roll-back), announcements
//     are queued meanwhile (the follower is suspended, or held in front of a block's transaction, or just
//     slower than the node);
//  3. Stop is requested
//     wait           while the worker stands in the retry wait,
//     refused        at the moment the batch is refused (rolled back, resume not yet done),
//     prebatch       before the transaction of the batch that is going to be refused,
//     requeued       right after the re-queue (the worker holds the task again, before its transaction),
//     requeued-susp  after the re-queue, the worker in suspend() because the follower is inside a block,
//     with 0 / 1 / many announcements queued, the follower free (running unheld through a burst of
//     announcements), suspended or inside a block (held in front of its transaction);
//  4. required: Stop returns within the bound, the database is closed, both goroutines are gone and neither
//     touched the database after the close;
//  5. the wallet is opened again on the same directory (the node still on the side branch, a few new tips):
//     the import is re-queued by Start, runs and FINISHES, every tip is processed, Stop returns again.
//
// Two result lines per schedule (rs/<n> and rs/<n>/restart) carry the scenario in the model's terms
// (announcements, request, refusals = number of observed roll-backs, left-over tasks) and the observed
// event sequence; ocaml/C20/driver.ml checks it for membership in the extracted system with retry waits
// (coq/Sched/HandshakeRetry.v). A refused batch is the observable "kx".
package main

import (
	"fmt"
	"strings"
	"time"

	"github.com/massnetorg/mass-core/massutil"
	"verifharness/internal/rng"
	"verifharness/internal/sched"
	"verifharness/internal/sim"
)

const (
	rsStopBound = 3 * time.Second // Stop returns in milliseconds on an idle machine
	rsStopGrace = 3 * time.Second // ... further patience before the verdict "hang"
	rsWait      = 8 * time.Second // positive waits for a goroutine to reach a known point
)

// refusalLabel: project a rolled-back asyncImport transaction to "kx" instead of "kc" (rs family only).
var refusalLabel = false

type rsShape struct {
	place  string
	q      string // "0", "1", "many"
	hblock bool   // the follower is held inside a block (in front of its transaction) when Stop is called
}

var rsShapes = []rsShape{
	{"wait", "0", false}, {"wait", "1", false}, {"wait", "many", false}, {"wait", "1", true}, {"wait", "many", true},
	{"refused", "0", false}, {"refused", "1", false}, {"refused", "many", false},
	{"prebatch", "1", false}, {"prebatch", "many", false},
	{"requeued", "0", false}, {"requeued", "many", false},
	{"requeued-susp", "1", true}, {"requeued-susp", "many", true},
}

type rsRun struct {
	x    *world
	r    *rng.R
	fork []*massutil.Block
	nann int
}

func (q *rsRun) announce() { q.announceOpt(false) }

// noteFirst: the follower runs unheld and may take the block before the call returns
func (q *rsRun) announceOpt(noteFirst bool) {
	var b *massutil.Block
	if len(q.fork) > 0 {
		b = q.fork[0]
		q.fork = q.fork[1:]
	} else {
		nb, err := q.x.mine()
		if err != nil {
			fail("mine: %v", err)
		}
		b = nb
	}
	if noteFirst {
		q.x.ctl.Note("node", "a")
		q.x.w.H.OnBlockConnected(b.MsgBlock())
	} else {
		q.x.w.H.OnBlockConnected(b.MsgBlock())
		q.x.ctl.Note("node", "a")
	}
	q.nann++
}

func rsWorkerAt(x *world) string {
	if ev, ok := x.ctl.Pending(sched.Worker); ok {
		return "held-" + ev.Point
	}
	g := sched.Find("masswallet.worker(")
	switch {
	case g == nil:
		return "gone"
	case strings.Contains(g.Text, ").suspend("):
		return "suspend"
	case strings.Contains(g.Text, ").resume("):
		return "resume"
	case strings.Contains(g.Text, "asyncImport") || strings.Contains(g.Text, "asyncRemove"):
		return "in-task"
	case g.State == "select":
		if x.w.H.VerifTaskQueueLen() == 0 {
			return "retry-wait"
		}
		return "select"
	}
	return "worker-loop"
}

func rsHandlerAt(x *world) string {
	if ev, ok := x.ctl.Pending(sched.Handler); ok {
		return "held-" + ev.Point
	}
	g := sched.Find("masswallet.handle(")
	switch {
	case g == nil:
		return "gone"
	case strings.Contains(g.Text, "processConnectedBlock"):
		return "in-block"
	case g.State == "chan receive":
		return "suspended"
	case g.State == "select":
		return "select"
	}
	return g.State
}

// rsLateUse: a handler / worker database event recorded after the close event.
func rsLateUse(x *world) int {
	n, closed := 0, false
	for _, e := range x.ctl.Events() {
		if e.Role == sched.Other && e.Point == "close" {
			closed = true
		} else if closed && (e.Role == sched.Handler || e.Role == sched.Worker) {
			n++
		}
	}
	return n
}

func rsCount(obs, what string) int {
	n := 0
	for _, e := range strings.Split(obs, ",") {
		if e == what {
			n++
		}
	}
	return n
}

// rsAwaitStop waits for Stop with the bound; returns the outcome, the time Stop took, and (hang) where
// the worker stands.
func rsAwaitStop(x *world, t0 time.Time) (outcome string, ms int64, hangat string) {
	if x.stopReturned(rsStopBound) {
		return "stopped", time.Since(t0).Milliseconds(), "-"
	}
	if x.stopReturned(rsStopGrace) {
		return "stopped", time.Since(t0).Milliseconds(), "-"
	}
	hangat = "other"
	g := sched.Find("masswallet.worker(")
	switch {
	case g == nil:
		hangat = "worker-gone"
	case strings.Contains(g.Text, ").suspend("):
		hangat = "suspend"
	case strings.Contains(g.Text, ").resume("):
		hangat = "resume"
	case strings.Contains(g.Text, "asyncImport"):
		hangat = "import-tx"
	default:
		// quit is closed and the worker goroutine is alive in worker() itself: not in its main select
		// (the quit case would end it), so in the pause after a refused batch
		hangat = "retry-wait"
	}
	return "hang", time.Since(t0).Milliseconds(), hangat
}

func rs(seed uint64, n int) {
	refusalLabel = true
	r := rng.New(seed*15485863 + uint64(n)*97 + 5)
	sh := rsShapes[n%len(rsShapes)]
	id := fmt.Sprintf("rs/%d", n)
	nq := 0
	switch sh.q {
	case "1":
		nq = 1
	case "many":
		nq = []int{12, 40, 120}[r.Intn(3)]
	}
	shape := fmt.Sprintf("%s:%s:%s", sh.place, sh.q, map[bool]string{false: "free", true: "inblock"}[sh.hblock])

	x, err := newWorld(seed+uint64(n)*13, 2+r.Intn(4))
	if err != nil {
		fail("%v", err)
	}
	defer x.cleanup()
	q := &rsRun{x: x, r: r}
	if err := x.start(true); err != nil {
		fail("%v", err)
	}
	x.ctl.SetHold(true)

	// ---- 1. the node silently moves to a side branch
	if _, err := x.node.Detach(); err != nil {
		fail("detach: %v", err)
	}
	nfork := 1 + r.Intn(2)
	if sh.place == "wait" && !sh.hblock && nfork < nq {
		nfork = nq // the burst of announcements is mined in advance: announcing is then faster than processing
	}
	for i := 0; i < nfork; i++ {
		b, err := x.mine()
		if err != nil {
			fail("mine: %v", err)
		}
		q.fork = append(q.fork, b)
	}

	// ---- 2. the import; its batch is held in front of its transaction
	wid, _, err := x.importWallet()
	if err != nil {
		fail("import: %v", err)
	}
	x.ctl.Note("api", "ti")
	if !qpWaitPending(x, sched.Worker, "begin") {
		fail("the worker did not reach the transaction of its batch")
	}
	grants := 0
	grantK := func() {
		if !x.ctl.Grant(sched.Worker) {
			fail("nothing to grant to the worker")
		}
		grants++
	}
	toAbort := func() {
		grantK()
		if !qpWaitPending(x, sched.Worker, "abort", "commit") {
			fail("the worker did not end the transaction of its batch")
		}
		if ev, _ := x.ctl.Pending(sched.Worker); ev.Point != "abort" {
			fail("the batch read from a side branch was committed, not refused")
		}
	}
	handlerInBlock := func() {
		if !qpWaitPending(x, sched.Handler, "begin") {
			fail("the follower did not take a block")
		}
	}
	switch sh.place {
	case "prebatch":
		for i := 0; i < nq; i++ {
			q.announce()
		}
	case "refused":
		toAbort()
		for i := 0; i < nq; i++ {
			q.announce()
		}
	case "wait":
		toAbort()
		if sh.hblock {
			for i := 0; i < nq+1; i++ { // queued while the follower is suspended; it takes one after the resume
				q.announce()
			}
		}
		grantK() // roll-back recorded, resume, retry wait
		if sh.hblock {
			handlerInBlock()
		}
		if !sched.Until(rsWait, func() bool { a := rsWorkerAt(x); return a == "retry-wait" || strings.HasPrefix(a, "held-") || a == "suspend" }) {
			fail("the worker did not leave the refused batch")
		}
		if !sh.hblock && nq > 0 {
			// announced faster than processed: the follower runs unheld from here on (events are recorded as
			// they happen; an announcement is noted before the call, the follower may take the block at once)
			x.ctl.SetHold(false)
			for i := 0; i < nq; i++ {
				q.announceOpt(true)
			}
		}
	case "requeued":
		toAbort()
		grantK()
		// the retry wait elapses, re-queue, the task is taken again (if not: the schedule goes on, see at=)
		sched.Until(2*time.Second, func() bool { _, ok := x.ctl.Pending(sched.Worker); return ok })
		for i := 0; i < nq; i++ {
			q.announce()
		}
	case "requeued-susp":
		toAbort()
		for i := 0; i < nq+1; i++ {
			q.announce()
		}
		grantK()
		handlerInBlock()
		// the retry wait elapses, re-queue, the task is taken again, suspend() blocks: the follower is busy.
		// (If the worker does not get there the schedule goes on where it stands: see at=.)
		sched.Until(2*time.Second, func() bool { return rsWorkerAt(x) == "suspend" })
	}

	// ---- 3. Stop
	at := fmt.Sprintf("K:%s/H:%s", rsWorkerAt(x), rsHandlerAt(x))
	queued := x.w.H.VerifQueueLen()
	t0 := time.Now()
	x.stop()
	x.autoGrant()
	outcome, ms, hangat := rsAwaitStop(x, t0)
	obs := obsLine(x)
	closed, gone := 0, 0
	if outcome == "stopped" {
		if x.ctl.IsClosed() {
			closed = 1
		}
		if sched.Find("masswallet.handle(") == nil && sched.Find("masswallet.worker(") == nil {
			gone = 1
		}
		time.Sleep(5 * time.Millisecond)
	}
	late := rsLateUse(x)
	left := x.w.H.VerifQueueLen()
	fmt.Printf("R id=%s blocks=%d reqs=i0 stop=1 refuse=%d steered=%d/%d diverged=0 outcome=%s obs=%s rs=1 shape=%s at=%s queued=%d left=%d stopms=%d closed=%d gone=%d lateuse=%d hangat=%s\n",
		id, q.nann, rsCount(obs, "kx"), grants, grants, outcome, obs, shape, at, queued, left, ms, closed, gone, late, hangat)
	if outcome != "stopped" {
		g := func(name string) string {
			if gg := sched.Find(name); gg != nil {
				return gg.State
			}
			return "gone"
		}
		fmt.Printf("D id=%s worker=[%s %s] stopper=[%s] handler=[%s]\n", id, g("masswallet.worker("), hangat, g("NtfnsHandler).Stop("), g("masswallet.handle("))
		fmt.Printf("STACKS-BEGIN id=%s\n%s\nSTACKS-END\n", id, filterStacks(sched.Dump()))
		return
	}
	x.autoStop = true
	x.ctl.SetHold(false)

	// ---- 5. restart: the import resumes and finishes
	x.ctl = sched.New()
	x.auto, x.autoStop, x.paused = false, false, false
	w, err := sim.OpenWallet(x.node, x.dir, x.ctl.Wrap, false)
	if err != nil {
		fmt.Printf("R id=%s/restart blocks=0 reqs=- restart=- stop=0 refuse=0 steered=0/0 diverged=0 outcome=busy obs=- rs=2 shape=%s fin=0 tipsok=0 stopret=0 reopen_error=%q\n", id, shape, err.Error())
		return
	}
	x.w, x.stopDone = w, nil
	st0, err := qpWallets(x)
	if err != nil {
		fail("wallets: %v", err)
	}
	rst := "-"
	if !st0.ready[wid] {
		rst = "i0"
	}
	x.ctl.SetHold(true)
	x.autoGrant()
	if err := x.start(false); err != nil {
		fmt.Printf("R id=%s/restart blocks=0 reqs=- restart=%s stop=0 refuse=0 steered=0/0 diverged=0 outcome=busy obs=- rs=2 shape=%s fin=0 tipsok=0 stopret=0 start_error=%q\n", id, rst, shape, err.Error())
		return
	}
	q2 := &rsRun{x: x, r: r}
	for i, e := 0, r.Intn(3); i < e; i++ {
		if r.Bool() {
			time.Sleep(time.Duration(r.Intn(2000)) * time.Microsecond)
		}
		// noted first: free running, the follower may take the block before the call returns
		b, err := x.mine()
		if err != nil {
			fail("mine: %v", err)
		}
		x.ctl.Note("node", "a")
		x.w.H.OnBlockConnected(b.MsgBlock())
		q2.nann++
	}
	fin, tipsOK := 0, 0
	idle := sched.Until(20*time.Second, func() bool {
		if x.w.H.VerifQueueLen() != 0 || x.w.H.VerifTaskQueueLen() != 0 || !qpParked("masswallet.handle(") || !qpParked("masswallet.worker(") {
			return false
		}
		if _, p := x.ctl.Pending(sched.Handler); p {
			return false
		}
		if _, p := x.ctl.Pending(sched.Worker); p {
			return false
		}
		st, err := qpWallets(x)
		if err != nil || !st.ready[wid] {
			return false
		}
		h, err := x.w.WM.SyncedTo()
		return err == nil && h == x.node.Height()
	})
	if st, err := qpWallets(x); err == nil && st.ready[wid] {
		fin = 1
	}
	synced, _ := x.w.WM.SyncedTo()
	if synced == x.node.Height() && x.w.H.VerifQueueLen() == 0 {
		tipsOK = 1
	}
	out2 := "busy"
	if idle {
		out2 = "idle"
	}
	obs2 := obsLine(x)
	stacks := ""
	if !idle {
		stacks = filterStacks(sched.Dump())
	}
	x.ctl.Tracing = false
	t1 := time.Now()
	x.stop()
	o3, _, _ := rsAwaitStop(x, t1)
	stopret := 0
	if o3 == "stopped" && x.ctl.IsClosed() {
		stopret = 1
	}
	x.autoStop = true
	x.ctl.SetHold(false)
	fmt.Printf("R id=%s/restart blocks=%d reqs=- restart=%s stop=0 refuse=%d steered=0/0 diverged=0 outcome=%s obs=%s rs=2 shape=%s fin=%d tipsok=%d synced=%d/%d stopret=%d\n",
		id, q2.nann, rst, rsCount(obs2, "kx"), out2, obs2, shape, fin, tipsOK, synced, x.node.Height(), stopret)
	if !idle || stopret == 0 {
		if stacks == "" {
			stacks = filterStacks(sched.Dump())
		}
		fmt.Printf("STACKS-BEGIN id=%s/restart\n%s\nSTACKS-END\n", id, stacks)
	}
}
