// c20: schedule-controlled runs of the REAL handler / worker / Stop goroutines of
// masswallet/ntfnshandler.go. Control is exercised only from outside: the database wrapper
// (internal/sched) holds goroutines at BeginTx / Commit / bucket operations; the harness decides
// when blocks are announced, when wallets are imported or removed and when Stop is called.
// One schedule = one worker process (a hung one is simply abandoned / killed).
package main

import (
	"flag"
	"fmt"
	"os"
	"strings"
	"time"

	"verifharness/internal/rng"
	"verifharness/internal/sched"
	"verifharness/internal/sim"
)

var stopTimeout = 4 * time.Second

func fail(format string, a ...interface{}) {
	fmt.Printf("X harness-error "+format+"\n", a...)
	os.Exit(0)
}

// obs prints the observable projection of the wrapper's trace.
func obsLine(x *world) string {
	var sb []string
	for _, e := range x.ctl.Events() {
		if s := project(e); s != "" {
			sb = append(sb, s)
		}
	}
	return strings.Join(sb, " ")
}

// project maps a wrapper event to the model's observable alphabet ("" = not observable).
func project(e sched.Event) string {
	switch e.Role {
	case sched.Handler:
		if e.Fn == "processConnectedBlock" {
			switch e.Point {
			case "begin":
				return "hb"
			case "commit", "abort":
				return "hc"
			}
		}
	case sched.Worker:
		if e.Fn == "asyncImport" || e.Fn == "asyncRemove" {
			switch e.Point {
			case "begin":
				return "kb"
			case "commit", "abort":
				return "kc"
			}
		}
	case sched.Other:
		switch e.Point {
		case "s", "a", "ti", "tr", "tb", "tp", "z":
			return e.Point
		case "close":
			return "z"
		}
	}
	return ""
}

// f1det: the deterministic schedule of DESIGN F1 (see the comments at each step).
func f1det(seed uint64, second string) {
	x, err := newWorld(seed, 3)
	if err != nil {
		fail("%v", err)
	}
	defer x.cleanup()
	if err := x.start(true); err != nil {
		fail("%v", err)
	}
	idX, passX, err := x.createWallet()
	if err != nil {
		fail("create: %v", err)
	}
	idB, passB, err := x.createWallet()
	if err != nil {
		fail("create: %v", err)
	}
	// 1. hold the worker inside its first task (an import), right after that task's commit:
	//    the handler is suspended (waiting for sigResume), the worker holds no lock.
	gK := x.ctl.Arm(sched.Worker, "asyncImport", "commit", 0)
	if _, _, err := x.importWallet(); err != nil {
		fail("import: %v", err)
	}
	x.ctl.Note("import", "ti")
	if !gK.Wait(5 * time.Second) {
		fail("worker did not reach the commit of its import batch")
	}
	// 2. queue a second task behind it
	if second == "remove" {
		if err := x.w.WM.RemoveWallet(idB, passB); err != nil {
			fail("remove: %v", err)
		}
		x.ctl.Note("remove", "tr")
	} else {
		if _, _, err := x.importWallet(); err != nil {
			fail("import2: %v", err)
		}
		x.ctl.Note("import", "ti")
	}
	// 3. an API client takes the keystore manager's mutex and is held inside it (ExportWallet
	//    reads the database while holding KeystoreManager.mu)
	gA := x.ctl.Arm(sched.Other, "ExportWallet", "get", 0)
	expDone := make(chan error, 1)
	go func() {
		_, err := x.w.WM.ExportWallet(idX, passX)
		expDone <- err
	}()
	if !gA.Wait(5 * time.Second) {
		fail("ExportWallet did not reach a database read")
	}
	// 4. let the worker go on: it resumes the handler, finishes the import, takes the second task
	//    from the queue (its `select` sees quit still open) and blocks on KeystoreManager.mu in
	//    GetAddrManagerByAccountID, i.e. BETWEEN its quit check and the sigSuspend send.
	gK.Release()
	if !sched.Until(5*time.Second, func() bool {
		return sched.Find("masswallet.worker(", "GetAddrManagerByAccountID", "sync.(*Mutex)") != nil
	}) {
		fail("worker did not block on the keystore mutex\n%s", sched.Dump())
	}
	// 5. Stop: closes quit; the handler, idle in its select, sees only quit and leaves.
	x.stop()
	if !sched.Until(5*time.Second, func() bool { return sched.Find("masswallet.handle(") == nil }) {
		fail("handler goroutine did not leave after quit was closed")
	}
	// 6. release the API client; the worker gets the mutex and sends on sigSuspend.
	gA.Release()
	<-expDone
	ret := x.stopReturned(stopTimeout)
	out := "stopped"
	if !ret {
		out = "hang"
	}
	fmt.Printf("R f1det-%s outcome=%s closed=%v obs=%s\n", second, out, x.ctl.Closed, obsLine(x))
	if !ret {
		g := sched.Find("masswallet.worker(")
		where := ""
		if g != nil {
			where = g.State
			if strings.Contains(g.Text, ").suspend(") {
				where += " in NtfnsHandler.suspend"
			}
		}
		s := sched.Find("NtfnsHandler).Stop(")
		sw := ""
		if s != nil {
			sw = s.State
		}
		fmt.Printf("D worker=[%s] stopper=[%s] handler_alive=%v\n", where, sw, sched.Find("masswallet.handle(") != nil)
		fmt.Printf("STACKS-BEGIN\n%s\nSTACKS-END\n", filterStacks(sched.Dump()))
	}
}

// filterStacks keeps the goroutines of the wallet (handler, worker, Stop) of a dump.
func filterStacks(d string) string {
	var keep []string
	for _, blk := range strings.Split(d, "\n\n") {
		if strings.Contains(blk, "mass-wallet/masswallet.") {
			keep = append(keep, blk)
		}
	}
	return strings.Join(keep, "\n\n")
}

// nilrace: ImportWallet right after Start, before the worker goroutine created h.taskChan.
func nilrace(seed uint64) {
	x, err := newWorld(seed, 2)
	if err != nil {
		fail("%v", err)
	}
	defer x.cleanup()
	// the worker goroutine's first action is a read transaction; hold it there
	gK := x.ctl.Arm(sched.Worker, "worker", "view", 0)
	if err := x.start(false); err != nil {
		fail("%v", err)
	}
	if !gK.Wait(5 * time.Second) {
		fail("worker goroutine did not reach its start-up view")
	}
	res := "ok"
	func() {
		defer func() {
			if r := recover(); r != nil {
				res = fmt.Sprintf("panic: %v", r)
			}
		}()
		_, _, err := x.importWallet()
		if err != nil {
			res = "err: " + err.Error()
		}
	}()
	out := "ok"
	if strings.HasPrefix(res, "panic") {
		out = "panic"
		x.ctl.Note("import", "tp")
	}
	fmt.Printf("R nilrace outcome=%s detail=%q obs=%s\n", out, res, obsLine(x))
	// the panic left WalletManager.mu locked (no defer ran past it? it did: defer w.mu.Unlock) — go on
	gK.Release()
}

func main() {
	scen := flag.String("scenario", "", "scenario to run in this process")
	worker := flag.Bool("worker", false, "internal")
	flag.Parse()
	_ = worker
	sim.Init(sim.Params{CoinbaseMaturity: 4, MinFrozenPeriod: 2, GapLimit: 20})
	seed := rng.Seed()
	switch *scen {
	case "f1det-remove":
		f1det(seed, "remove")
	case "f1det-import":
		f1det(seed, "import")
	case "nilrace":
		nilrace(seed)
	default:
		fmt.Fprintln(os.Stderr, "unknown scenario")
		os.Exit(2)
	}
	os.Exit(0)
}
