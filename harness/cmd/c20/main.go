// c20: schedule-controlled runs of the REAL handler / worker / Stop goroutines of
// masswallet/ntfnshandler.go. Control is exercised only from outside: the database wrapper
// (internal/sched) holds goroutines at BeginTx / Commit / bucket operations; the harness decides
// when blocks are announced, when wallets are imported or removed and when Stop is called.
// One schedule = one worker process (a hung one is simply abandoned / killed by the parent).
//
// parent:  c20 -in <schedules> -out <results> -j N     (S lines of ocaml/C20/driver.ml + built-ins)
// worker:  c20 -worker -spec "<S line>"  |  c20 -worker -scenario f1det-remove|f1det-import|nilrace|race-stop/<n>|qp/<n>|rs/<n>
//
// result line:  R id=.. blocks=.. reqs=.. stop=.. steered=k/n diverged=0|1 outcome=stopped|hang|idle|busy|panic obs=a,hb,..
// observable alphabet (= labels of coq/Sched/Handshake.v):
//
//	a  block queued        ti/tr  import/removal accepted and queued      tp  API call panicked
//	hb/hc  handler begins/ends its block transaction     kb/kc  worker begins/ends a task transaction
//	s  Stop called         z  database closed
//	kx worker's import batch refused: transaction rolled back (family rs only, retrystop.go)
package main

import (
	"bufio"
	"bytes"
	"flag"
	"fmt"
	"os"
	"os/exec"
	"strconv"
	"strings"
	"sync"
	"time"

	"verifharness/internal/rng"
	"verifharness/internal/sched"
	"verifharness/internal/sim"
)

var (
	stopTimeout = 3 * time.Second
	gateTimeout = 150 * time.Millisecond
)

func fail(format string, a ...interface{}) {
	fmt.Printf("X harness-error "+format+"\n", a...)
	os.Exit(0)
}

func obsLine(x *world) string {
	var sb []string
	for _, e := range x.ctl.Events() {
		if s := project(e); s != "" {
			sb = append(sb, s)
		}
	}
	if len(sb) == 0 {
		return "-"
	}
	return strings.Join(sb, ",")
}

// project maps a wrapper event to the model's observable alphabet ("" = not observable).
func project(e sched.Event) string {
	switch e.Role {
	case sched.Handler:
		if e.Fn == "processConnectedBlock" {
			switch e.Point {
			case "begin":
				return "hb"
			case "commit", "abort":
				return "hc"
			}
		}
	case sched.Worker:
		if e.Fn == "asyncImport" || e.Fn == "asyncRemove" {
			switch e.Point {
			case "begin":
				return "kb"
			case "abort":
				if refusalLabel && e.Fn == "asyncImport" {
					return "kx" // the batch was refused (retrystop.go)
				}
				return "kc"
			case "commit":
				return "kc"
			}
		}
	case sched.Other:
		switch e.Point {
		case "s", "a", "ti", "tr", "tb", "tp":
			return e.Point
		case "close":
			return "z"
		}
	}
	return ""
}

func filterStacks(d string) string {
	var keep []string
	for _, blk := range strings.Split(d, "\n\n") {
		if strings.Contains(blk, "mass-wallet/masswallet.") {
			keep = append(keep, blk)
		}
	}
	return strings.Join(keep, "\n\n")
}

// report prints the result line; on a hang also where the three threads stand and their stacks.
func report(x *world, id string, blocks int, reqs string, stop bool, steered, total int, diverged bool, outcome, extra string) {
	st := 0
	if stop {
		st = 1
	}
	dv := 0
	if diverged {
		dv = 1
	}
	if reqs == "" {
		reqs = "-"
	}
	fmt.Printf("R id=%s blocks=%d reqs=%s stop=%d steered=%d/%d diverged=%d outcome=%s obs=%s%s\n",
		id, blocks, reqs, st, steered, total, dv, outcome, obsLine(x), extra)
	if outcome == "hang" {
		g := sched.Find("masswallet.worker(")
		where := "gone"
		if g != nil {
			where = g.State
			if strings.Contains(g.Text, ").suspend(") {
				where += " in NtfnsHandler.suspend"
			}
		}
		s := sched.Find("NtfnsHandler).Stop(")
		sw := "gone"
		if s != nil {
			sw = s.State
		}
		h := sched.Find("masswallet.handle(")
		hw := "gone"
		if h != nil {
			hw = h.State
		}
		fmt.Printf("D id=%s worker=[%s] stopper=[%s] handler=[%s]\n", id, where, sw, hw)
		fmt.Printf("STACKS-BEGIN id=%s\n%s\nSTACKS-END\n", id, filterStacks(sched.Dump()))
	}
}

// finish waits for the outcome after the steering is over.
func finish(x *world, stop bool) string {
	if stop {
		if x.stopReturned(stopTimeout) {
			return "stopped"
		}
		// not back yet: a hang only if the wallet's goroutines do not move any more (on a loaded
		// machine they may just be slow): compare their stacks over time, for at most 20 s more
		prev := filterStacks(sched.Dump())
		for i := 0; i < 40; i++ {
			if x.stopReturned(500 * time.Millisecond) {
				return "stopped"
			}
			cur := filterStacks(sched.Dump())
			if cur == prev && i >= 1 {
				return "hang"
			}
			prev = cur
		}
		return "hang"
	}
	idle := func() bool {
		if x.w.H.VerifQueueLen() != 0 || x.w.H.VerifTaskQueueLen() != 0 {
			return false
		}
		h, k := sched.Find("masswallet.handle("), sched.Find("masswallet.worker(")
		return h != nil && k != nil && h.State == "select" && k.State == "select"
	}
	ok := sched.Until(stopTimeout, func() bool {
		if !idle() {
			return false
		}
		time.Sleep(2 * time.Millisecond)
		return idle()
	})
	out := "busy"
	if ok {
		out = "idle"
	}
	// clean shutdown outside the recorded trace
	x.ctl.Tracing = false
	if ok {
		go x.w.WM.Stop()
		time.Sleep(20 * time.Millisecond)
	}
	return out
}

// apiCall issues the next API request (kind 'i' = ImportWalletWithMnemonic, 'r' = RemoveWallet)
// and returns the observable it produced: ti / tr, te (refused with an error), tp (panicked).
func apiCall(x *world, kind byte, rem *[]rw, noteBefore bool) (label string, detail string) {
	ok := "ti"
	if kind == 'r' {
		ok = "tr"
	}
	if noteBefore {
		x.ctl.Note("api", ok)
	}
	label = ok
	func() {
		defer func() {
			if r := recover(); r != nil {
				label, detail = "tp", fmt.Sprintf("%v", r)
				if x.ctl.IsClosed() {
					// the database is closed: the request fails (by a nil bucket dereference
					// instead of an error: reported separately, see api_panic_after_close)
					label = "te"
					detail = "panic-after-close: " + detail
				}
			}
		}()
		var err error
		if kind == 'r' {
			if len(*rem) == 0 {
				fail("no wallet left to remove")
			}
			r := (*rem)[0]
			*rem = (*rem)[1:]
			err = x.w.WM.RemoveWallet(r.id, r.pass)
		} else {
			_, _, err = x.importWallet()
		}
		if err != nil {
			label, detail = "te", err.Error()
		}
	}()
	if !noteBefore {
		x.ctl.Note("api", label)
	} else if label != ok {
		x.ctl.RenameLast("api", ok, label)
	}
	return
}

type rw struct{ id, pass string }

// runSeq steers the real goroutines along one observable sequence of the model.
func runSeq(seed uint64, id string, blocks int, reqs string, stop bool, seq []string, pre int) {
	x, err := newWorld(seed, 2+pre)
	if err != nil {
		fail("%v", err)
	}
	defer x.cleanup()
	if err := x.start(true); err != nil {
		fail("%v", err)
	}
	var removable []rw
	var kinds []byte
	for _, r := range strings.Split(reqs, ",") {
		if r == "" {
			continue
		}
		kinds = append(kinds, r[0])
		if r[0] == 'r' {
			wid, pass, err := x.createWallet()
			if err != nil {
				fail("create: %v", err)
			}
			removable = append(removable, rw{wid, pass})
		}
	}
	x.ctl.SetHold(true)
	steered, diverged := 0, false
	extra := ""
	waitPending := func(role sched.Role, points ...string) bool {
		return sched.Until(gateTimeout, func() bool {
			ev, ok := x.ctl.Pending(role)
			if !ok {
				return false
			}
			for _, p := range points {
				if ev.Point == p {
					return true
				}
			}
			return false
		})
	}
	diverge := func() {
		if !diverged {
			diverged = true
			x.autoGrant()
		}
	}
	nreq, nblk := 0, 0
	for _, ev := range seq {
		okEv := true
		switch ev {
		case "a", "ti", "tr", "te", "s":
			// environment action: first let the threads run as far as they can on their own
			x.settle(20 * time.Millisecond)
		}
		switch ev {
		case "a":
			b, err := x.mine()
			if err != nil {
				fail("mine: %v", err)
			}
			if diverged {
				// free-running: the handler may process the block before the call returns
				x.ctl.Note("node", "a")
				x.w.H.OnBlockConnected(b.MsgBlock())
			} else {
				x.w.H.OnBlockConnected(b.MsgBlock())
				x.ctl.Note("node", "a")
			}
			nblk++
		case "ti", "tr", "te":
			if nreq >= len(kinds) {
				fail("more requests in the sequence than in the scenario")
			}
			// once the run is free-running (auto-granting) the worker may act on the request before
			// the call returns: note it first
			got, detail := apiCall(x, kinds[nreq], &removable, diverged)
			nreq++
			if got != ev {
				okEv = false
				diverge()
			}
			if got == "tp" {
				extra += fmt.Sprintf(" api_panic=%q", detail)
			}
			if strings.HasPrefix(detail, "panic-after-close") {
				extra += " api_panic_after_close=1"
			}
		case "s":
			x.stop()
		case "hb", "hc", "kb", "kc":
			if diverged {
				continue
			}
			role := sched.Handler
			if ev[0] == 'k' {
				role = sched.Worker
			}
			pts := []string{"begin"}
			if ev[1] == 'c' {
				pts = []string{"commit", "abort"}
			}
			if !waitPending(role, pts...) {
				okEv = false
				diverge()
			} else {
				x.ctl.Grant(role)
			}
		case "z":
			if diverged {
				continue
			}
			if x.stopDone == nil || !x.stopReturned(gateTimeout) {
				okEv = false
				diverge()
			}
		default:
			fail("unknown event %q", ev)
		}
		if okEv && !diverged {
			steered++
		}
	}
	x.autoGrant()
	out := finish(x, stop && x.stopDone != nil)
	x.autoStop = true
	x.ctl.SetHold(false)
	report(x, id, blocks, reqs, stop, steered, len(seq), diverged, out, extra)
}

// f1det: the deterministic schedule of DESIGN F1 (see the comments at each step).
func f1det(seed uint64, second string) {
	x, err := newWorld(seed, 3)
	if err != nil {
		fail("%v", err)
	}
	defer x.cleanup()
	if err := x.start(true); err != nil {
		fail("%v", err)
	}
	idX, passX, err := x.createWallet()
	if err != nil {
		fail("create: %v", err)
	}
	idB, passB, err := x.createWallet()
	if err != nil {
		fail("create: %v", err)
	}
	// 1. hold the worker inside its first task (an import), right after that task's commit:
	//    the handler is suspended (waiting for sigResume), the worker holds no lock.
	gK := x.ctl.Arm(sched.Worker, "asyncImport", "commit", 0)
	x.ctl.Note("import", "ti") // noted first: the worker is free to start the task at once
	if _, _, err := x.importWallet(); err != nil {
		fail("import: %v", err)
	}
	if !gK.Wait(5 * time.Second) {
		fail("worker did not reach the commit of its import batch")
	}
	// 2. queue a second task behind it
	reqs := "i0,r0"
	if second == "remove" {
		if err := x.w.WM.RemoveWallet(idB, passB); err != nil {
			fail("remove: %v", err)
		}
		x.ctl.Note("remove", "tr")
	} else {
		reqs = "i0,i0"
		if _, _, err := x.importWallet(); err != nil {
			fail("import2: %v", err)
		}
		x.ctl.Note("import", "ti")
	}
	// 3. an API client takes the keystore manager's mutex and is held inside it (ExportWallet
	//    reads the database while holding KeystoreManager.mu)
	gA := x.ctl.Arm(sched.Other, "ExportWallet", "get", 0)
	expDone := make(chan error, 1)
	go func() {
		_, err := x.w.WM.ExportWallet(idX, passX)
		expDone <- err
	}()
	if !gA.Wait(5 * time.Second) {
		fail("ExportWallet did not reach a database read")
	}
	// 4. let the worker go on: it resumes the handler, finishes the import, takes the second task
	//    from the queue (its `select` sees quit still open) and blocks on KeystoreManager.mu in
	//    GetAddrManagerByAccountID, i.e. BETWEEN its quit check and the sigSuspend send.
	gK.Release()
	if !sched.Until(5*time.Second, func() bool {
		return sched.Find("masswallet.worker(", "GetAddrManagerByAccountID", "sync.(*Mutex)") != nil
	}) {
		fail("worker did not block on the keystore mutex\n%s", sched.Dump())
	}
	// 5. Stop: closes quit; the handler, idle in its select, sees only quit and leaves.
	x.stop()
	if !sched.Until(5*time.Second, func() bool { return sched.Find("masswallet.handle(") == nil }) {
		fail("handler goroutine did not leave after quit was closed")
	}
	// 6. release the API client; the worker gets the mutex and reaches suspend().
	gA.Release()
	<-expDone
	out := finish(x, true)
	report(x, "f1det-"+second, 0, reqs, true, 0, 0, false, out, "")
}

// nilrace: an import request right after Start, while the worker goroutine has not run yet.
func nilrace(seed uint64) {
	x, err := newWorld(seed, 2)
	if err != nil {
		fail("%v", err)
	}
	defer x.cleanup()
	// code as found: the worker goroutine's first action is the read transaction in which it
	// creates h.taskChan; hold it there. Repaired code: Start() itself does that before the
	// goroutine exists, the gate is never reached.
	gK := x.ctl.Arm(sched.Worker, "", "view", 0)
	if err := x.start(false); err != nil {
		fail("%v", err)
	}
	held := gK.Wait(300 * time.Millisecond)
	res := "ok"
	x.ctl.SetHold(true) // the worker's task transaction is recorded when granted, after "ti"
	func() {
		defer func() {
			if r := recover(); r != nil {
				res = fmt.Sprintf("panic: %v", r)
			}
		}()
		_, _, err := x.importWallet()
		if err != nil {
			res = "err: " + err.Error()
		}
	}()
	gK.Release()
	if res == "ok" {
		x.ctl.Note("import", "ti")
	}
	x.autoGrant()
	if strings.HasPrefix(res, "panic") {
		x.ctl.Note("import", "tp")
		report(x, "nilrace", 0, "i0", false, 0, 0, false, "panic", fmt.Sprintf(" worker_held_before_queue_creation=%v detail=%q", held, res))
		return
	}
	if res != "ok" {
		fail("import: %s", res)
	}
	x.stop()
	out := finish(x, true)
	report(x, "nilrace", 0, "i0", true, 0, 0, false, out, fmt.Sprintf(" worker_held_before_queue_creation=%v", held))
}

// raceStop: no steering at all — requests and Stop issued back to back (exploration).
func raceStop(seed uint64, n int) {
	r := rng.New(seed*7919 + uint64(n))
	x, err := newWorld(seed+uint64(n), 2)
	if err != nil {
		fail("%v", err)
	}
	defer x.cleanup()
	if err := x.start(r.Bool()); err != nil {
		fail("%v", err)
	}
	x.ctl.SetHold(true)
	x.autoGrant()
	var reqs []string
	nb := 0
	wid, pass, err := x.createWallet()
	if err != nil {
		fail("create: %v", err)
	}
	for i, k := 0, 1+r.Intn(3); i < k; i++ {
		switch r.Intn(3) {
		case 0:
			b, _ := x.mine()
			x.ctl.Note("node", "a")
			x.w.H.OnBlockConnected(b.MsgBlock())
			nb++
		case 1:
			if len(reqs) < 2 {
				apiCall(x, 'i', nil, true)
				reqs = append(reqs, "i0")
			}
		case 2:
			if wid != "" && len(reqs) < 2 {
				rem := []rw{{wid, pass}}
				apiCall(x, 'r', &rem, true)
				reqs = append(reqs, "r0")
				wid = ""
			}
		}
		if r.Chance(30) {
			time.Sleep(time.Duration(r.Intn(300)) * time.Microsecond)
		}
	}
	x.stop()
	out := finish(x, true)
	x.autoStop = true
	x.ctl.SetHold(false)
	report(x, fmt.Sprintf("race-stop/%d", n), nb, strings.Join(reqs, ","), true, 0, 0, false, out, "")
}

func field(line, key string) string {
	for _, f := range strings.Fields(line) {
		if strings.HasPrefix(f, key+"=") {
			return f[len(key)+1:]
		}
	}
	return ""
}

func runWorker(spec, scen string) {
	sim.Init(sim.Params{CoinbaseMaturity: 4, MinFrozenPeriod: 2, GapLimit: 20})
	seed := rng.Seed()
	switch {
	case spec != "":
		blocks, _ := strconv.Atoi(field(spec, "blocks"))
		reqs := field(spec, "reqs")
		if reqs == "-" {
			reqs = ""
		}
		var seq []string
		if s := field(spec, "seq"); s != "" && s != "-" {
			seq = strings.Split(s, ",")
		}
		pre, _ := strconv.Atoi(field(spec, "pre"))
		runSeq(seed, field(spec, "id"), blocks, reqs, field(spec, "stop") == "1", seq, pre)
	case scen == "f1det-remove":
		f1det(seed, "remove")
	case scen == "f1det-import":
		f1det(seed, "import")
	case scen == "nilrace":
		nilrace(seed)
	case strings.HasPrefix(scen, "race-stop/"):
		n, _ := strconv.Atoi(scen[len("race-stop/"):])
		raceStop(seed, n)
	case strings.HasPrefix(scen, "qp/"):
		n, _ := strconv.Atoi(scen[len("qp/"):])
		qp(seed, n)
	case strings.HasPrefix(scen, "rs/"):
		n, _ := strconv.Atoi(strings.TrimSuffix(scen[len("rs/"):], "/restart"))
		rs(seed, n)
	default:
		fmt.Fprintln(os.Stderr, "unknown scenario")
		os.Exit(2)
	}
}

func main() {
	scen := flag.String("scenario", "", "built-in scenario to run in this process")
	spec := flag.String("spec", "", "schedule line to run in this process")
	worker := flag.Bool("worker", false, "run one schedule in this process")
	in := flag.String("in", "", "file with S lines")
	out := flag.String("out", "", "result file")
	jobs := flag.Int("j", 8, "parallel worker processes")
	nrace := flag.Int("race", 0, "number of unsteered request/Stop races to add")
	nqp := flag.Int("qp", 0, "number of queue-pressure schedules to add (pressure.go)")
	nrs := flag.Int("rs", 0, "number of retry-stop schedules to add (retrystop.go)")
	scens := flag.String("scen", "", "further built-in scenarios to run (comma separated, e.g. qp/7: replay)")
	flag.Parse()
	if *worker || *scen != "" || *spec != "" {
		runWorker(*spec, *scen)
		os.Stdout.Sync()
		os.Exit(0)
	}
	// parent
	type job struct {
		args []string
		id   string
	}
	var jobsList []job
	for _, s := range []string{"f1det-remove", "f1det-import", "nilrace"} {
		jobsList = append(jobsList, job{[]string{"-worker", "-scenario", s}, s})
	}
	if *in != "" {
		f, err := os.Open(*in)
		if err != nil {
			fmt.Fprintln(os.Stderr, err)
			os.Exit(2)
		}
		sc := bufio.NewScanner(f)
		sc.Buffer(make([]byte, 1<<20), 1<<20)
		for sc.Scan() {
			l := sc.Text()
			if strings.HasPrefix(l, "S ") {
				jobsList = append(jobsList, job{[]string{"-worker", "-spec", l}, field(l, "id")})
			}
		}
		f.Close()
	}
	for i := 0; i < *nrace; i++ {
		s := fmt.Sprintf("race-stop/%d", i)
		jobsList = append(jobsList, job{[]string{"-worker", "-scenario", s}, s})
	}
	for i := 0; i < *nqp; i++ {
		s := fmt.Sprintf("qp/%d", i)
		jobsList = append(jobsList, job{[]string{"-worker", "-scenario", s}, s})
	}
	for i := 0; i < *nrs; i++ {
		s := fmt.Sprintf("rs/%d", i)
		jobsList = append(jobsList, job{[]string{"-worker", "-scenario", s}, s})
	}
	for _, s := range strings.Split(*scens, ",") {
		if s != "" {
			jobsList = append(jobsList, job{[]string{"-worker", "-scenario", s}, s})
		}
	}
	self, _ := os.Executable()
	results := make([][]byte, len(jobsList))
	var wg sync.WaitGroup
	sem := make(chan struct{}, *jobs)
	for i, j := range jobsList {
		wg.Add(1)
		sem <- struct{}{}
		go func(i int, j job) {
			defer wg.Done()
			defer func() { <-sem }()
			cmd := exec.Command(self, j.args...)
			var so, se bytes.Buffer
			cmd.Stdout, cmd.Stderr = &so, &se
			if err := cmd.Start(); err != nil {
				results[i] = []byte(fmt.Sprintf("X id=%s cannot-start %v\n", j.id, err))
				return
			}
			done := make(chan error, 1)
			go func() { done <- cmd.Wait() }()
			select {
			case err := <-done:
				if err != nil {
					tail := se.String()
					if len(tail) > 1500 {
						tail = tail[len(tail)-1500:]
					}
					so.WriteString(fmt.Sprintf("X id=%s worker-died %v %q\n", j.id, err, tail))
				}
			case <-time.After(120 * time.Second):
				cmd.Process.Kill()
				so.WriteString(fmt.Sprintf("X id=%s worker-killed-after-120s\n", j.id))
			}
			results[i] = so.Bytes()
		}(i, j)
	}
	wg.Wait()
	w := os.Stdout
	if *out != "" {
		f, err := os.Create(*out)
		if err != nil {
			fmt.Fprintln(os.Stderr, err)
			os.Exit(2)
		}
		defer f.Close()
		w = f
	}
	for _, r := range results {
		w.Write(r)
	}
}
