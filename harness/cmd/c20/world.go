package main

import (
	"fmt"
	"os"
	"time"

	"github.com/massnetorg/mass-core/massutil"
	"massnet.org/mass-wallet/masswallet/keystore"
	"verifharness/internal/rng"
	"verifharness/internal/sched"
	"verifharness/internal/sim"
)

// world = one real wallet (WalletManager + NtfnsHandler goroutines on a LevelDB directory under
// /dev/shm) over a simulated node, with the scheduling wrapper around its database.
type world struct {
	dir      string
	node     *sim.Node
	w        *sim.Wallet
	ctl      *sched.Ctl
	r        *rng.R
	nwallet  int
	stopDone chan struct{}
	started  bool
}

func scratchRoot() string {
	if st, err := os.Stat("/dev/shm"); err == nil && st.IsDir() {
		return "/dev/shm"
	}
	return ""
}

func newWorld(seed uint64, preBlocks int) (*world, error) {
	dir, err := os.MkdirTemp(scratchRoot(), "c20")
	if err != nil {
		return nil, err
	}
	node, err := sim.NewNode(dir)
	if err != nil {
		os.RemoveAll(dir)
		return nil, err
	}
	x := &world{dir: dir, node: node, ctl: sched.New(), r: rng.New(seed)}
	for i := 0; i < preBlocks; i++ {
		if _, err := x.mine(); err != nil {
			return nil, err
		}
	}
	w, err := sim.OpenWallet(node, dir, x.ctl.Wrap, false)
	if err != nil {
		node.Close()
		os.RemoveAll(dir)
		return nil, err
	}
	x.w = w
	return x, nil
}

// mine attaches an empty block to the node's chain (not announced).
func (x *world) mine() (*massutil.Block, error) {
	b := x.node.MakeBlock(x.node.Tip(), nil, nil)
	if err := x.node.Attach(b); err != nil {
		return nil, err
	}
	return b, nil
}

// start runs the real WalletManager.Start (catch-up, then the handler and worker goroutines).
// waitWorker: wait until the worker goroutine has finished its start-up read transaction
// (observed through the database wrapper only).
func (x *world) start(waitWorker bool) error {
	if err := x.w.WM.Start(); err != nil {
		return err
	}
	x.started = true
	if waitWorker {
		ok := sched.Until(5*time.Second, func() bool {
			for _, e := range x.ctl.Events() {
				if e.Role == sched.Worker && e.Fn == "worker" && e.Point == "viewend" {
					return true
				}
			}
			return false
		})
		if !ok {
			return fmt.Errorf("worker goroutine did not finish its start-up view")
		}
		// the task queue is assigned inside that view; give the goroutine the few instructions
		// it needs to reach its select
		sched.Until(2*time.Second, func() bool {
			g := sched.Find("masswallet.worker(")
			return g != nil && g.State == "select"
		})
	}
	return nil
}

func (x *world) createWallet() (string, string, error) {
	x.nwallet++
	pass := fmt.Sprintf("passW%d@verif", x.nwallet)
	id, _, _, err := x.w.WM.CreateWallet(pass, "", 128)
	return id, pass, err
}

// importWallet restores a wallet from a fresh mnemonic: it has one address, so it is accepted as
// "importing" and a background import task is queued.
func (x *world) importWallet() (string, string, error) {
	x.nwallet++
	pass := fmt.Sprintf("passI%d@verif", x.nwallet)
	mn, err := keystore.NewMnemonic(x.r.Bytes(16))
	if err != nil {
		return "", "", err
	}
	s, err := x.w.WM.ImportWalletWithMnemonic(&keystore.WalletParams{Mnemonic: mn, PrivatePassphrase: []byte(pass),
		ExternalIndex: 1, AddressGapLimit: sim.Cur.GapLimit})
	if err != nil {
		return "", pass, err
	}
	return s.WalletID, pass, nil
}

// stop runs the real WalletManager.Stop in its own goroutine.
func (x *world) stop() {
	x.stopDone = make(chan struct{})
	x.ctl.Note("Stop", "s")
	go func() {
		x.w.WM.Stop()
		close(x.stopDone)
	}()
}

func (x *world) stopReturned(d time.Duration) bool {
	select {
	case <-x.stopDone:
		return true
	case <-time.After(d):
		return false
	}
}

func (x *world) cleanup() {
	os.RemoveAll(x.dir)
}
