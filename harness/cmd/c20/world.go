package main

import (
	"fmt"
	"os"
	"time"

	"github.com/massnetorg/mass-core/massutil"
	"massnet.org/mass-wallet/masswallet/keystore"
	"verifharness/internal/rng"
	"verifharness/internal/sched"
	"verifharness/internal/sim"
)

// world = one real wallet (WalletManager + NtfnsHandler goroutines on a LevelDB directory under
// /dev/shm) over a simulated node, with the scheduling wrapper around its database.
type world struct {
	dir      string
	node     *sim.Node
	w        *sim.Wallet
	ctl      *sched.Ctl
	r        *rng.R
	nwallet  int
	stopDone chan struct{}
	started  bool
	paused   bool
	auto     bool
	autoStop bool
}

func scratchRoot() string {
	if st, err := os.Stat("/dev/shm"); err == nil && st.IsDir() {
		return "/dev/shm"
	}
	return ""
}

func newWorld(seed uint64, preBlocks int) (*world, error) {
	dir, err := os.MkdirTemp(scratchRoot(), "c20")
	if err != nil {
		return nil, err
	}
	node, err := sim.NewNode(dir)
	if err != nil {
		os.RemoveAll(dir)
		return nil, err
	}
	x := &world{dir: dir, node: node, ctl: sched.New(), r: rng.New(seed)}
	for i := 0; i < preBlocks; i++ {
		if _, err := x.mine(); err != nil {
			return nil, err
		}
	}
	w, err := sim.OpenWallet(node, dir, x.ctl.Wrap, false)
	if err != nil {
		node.Close()
		os.RemoveAll(dir)
		return nil, err
	}
	x.w = w
	return x, nil
}

// mine attaches an empty block to the node's chain (not announced).
func (x *world) mine() (*massutil.Block, error) {
	b := x.node.MakeBlock(x.node.Tip(), nil, nil)
	if err := x.node.Attach(b); err != nil {
		return nil, err
	}
	return b, nil
}

// start runs the real WalletManager.Start (catch-up, task queue, then the handler and worker
// goroutines). waitWorker: wait until the worker goroutine is parked in its select (observed
// through the goroutine stacks only).
func (x *world) start(waitWorker bool) error {
	if err := x.w.WM.Start(); err != nil {
		return err
	}
	x.started = true
	if waitWorker {
		ok := sched.Until(5*time.Second, func() bool {
			g := sched.Find("masswallet.worker(")
			return g != nil && g.State == "select"
		})
		if !ok {
			return fmt.Errorf("worker goroutine did not reach its select")
		}
	}
	return nil
}

func (x *world) createWallet() (string, string, error) {
	x.nwallet++
	pass := fmt.Sprintf("passW%d@verif", x.nwallet)
	id, _, _, err := x.w.WM.CreateWallet(pass, "", 128)
	return id, pass, err
}

// importWallet restores a wallet from a fresh mnemonic: it has one address, so it is accepted as
// "importing" and a background import task is queued.
func (x *world) importWallet() (string, string, error) {
	x.nwallet++
	pass := fmt.Sprintf("passI%d@verif", x.nwallet)
	mn, err := keystore.NewMnemonic(x.r.Bytes(16))
	if err != nil {
		return "", "", err
	}
	s, err := x.w.WM.ImportWalletWithMnemonic(&keystore.WalletParams{Mnemonic: mn, PrivatePassphrase: []byte(pass),
		ExternalIndex: 1, AddressGapLimit: sim.Cur.GapLimit})
	if err != nil {
		return "", pass, err
	}
	return s.WalletID, pass, nil
}

// stop runs the real WalletManager.Stop in its own goroutine and returns once quit is known to
// be closed: the stopping goroutine stands in quitWg.Wait (or is already past it). While this
// function runs the harness grants nothing, so no observable event is recorded between the note
// "s" and the moment quit is really closed.
func (x *world) stop() {
	x.stopDone = make(chan struct{})
	x.paused = true
	x.ctl.Note("Stop", "s")
	go func() {
		x.w.WM.Stop()
		close(x.stopDone)
	}()
	sched.Until(5*time.Second, func() bool {
		select {
		case <-x.stopDone:
			return true
		default:
		}
		if x.ctl.IsClosed() {
			return true
		}
		return sched.Find("NtfnsHandler).Stop(", "sync.(*WaitGroup).Wait") != nil
	})
	x.paused = false
}

// autoGrant starts a goroutine that grants every pending handler/worker event as soon as it
// appears (free running, but still serialised through the gates), except while paused.
func (x *world) autoGrant() {
	if x.auto {
		return
	}
	x.auto = true
	go func() {
		for !x.autoStop {
			if !x.paused {
				x.ctl.Grant(sched.Handler)
				x.ctl.Grant(sched.Worker)
			}
			time.Sleep(50 * time.Microsecond)
		}
	}()
}

// settle waits (at most d) until the handler and the worker goroutines are both parked: held at
// a gate, idle in their select, or blocked on a channel / mutex.
func (x *world) settle(d time.Duration) {
	parked := func(name string, role sched.Role) bool {
		if _, ok := x.ctl.Pending(role); ok {
			return true
		}
		g := sched.Find(name)
		if g == nil {
			return true
		}
		switch g.State {
		case "select", "chan receive", "chan send", "sync.Mutex.Lock", "semacquire":
			return true
		}
		return false
	}
	sched.Until(d, func() bool {
		if !(parked("masswallet.handle(", sched.Handler) && parked("masswallet.worker(", sched.Worker)) {
			return false
		}
		time.Sleep(300 * time.Microsecond)
		return parked("masswallet.handle(", sched.Handler) && parked("masswallet.worker(", sched.Worker)
	})
}

func (x *world) stopReturned(d time.Duration) bool {
	select {
	case <-x.stopDone:
		return true
	case <-time.After(d):
		return false
	}
}

func (x *world) cleanup() {
	os.RemoveAll(x.dir)
}
