// temporary probe (not part of the check): D1 through the wallet manager
package main

import (
	"fmt"
	"os"
	"strings"

	"massnet.org/mass-wallet/masswallet/keystore"
	"verifharness/internal/sim"
)

func imp(m string) (string, string) {
	dir, _ := os.MkdirTemp("/dev/shm", "c13probe")
	defer os.RemoveAll(dir)
	sim.Init(sim.Cur)
	n, err := sim.NewNode(dir)
	if err != nil {
		panic(err)
	}
	defer n.Close()
	w, err := sim.OpenWallet(n, dir, nil, true)
	if err != nil {
		panic(err)
	}
	defer w.Stop()
	ws, err := w.WM.ImportWalletWithMnemonic(&keystore.WalletParams{Version: keystore.KeystoreVersion0, Mnemonic: m,
		PrivatePassphrase: []byte("123456"), AddressGapLimit: 20})
	if err != nil {
		return "err: " + err.Error(), ""
	}
	back, _, err := w.WM.GetMnemonic(ws.WalletID, "123456")
	if err != nil {
		back = "err: " + err.Error()
	}
	return ws.WalletID, back
}

func main() {
	m := "abandon abandon abandon abandon abandon abandon abandon abandon abandon abandon abandon about"
	r := strings.Replace(m, " ", "  ", 1)
	a, ba := imp(m)
	b, bb := imp(r)
	fmt.Printf("import %q\n  wallet id %s\n  GetMnemonic -> %q\n", m, a, ba)
	fmt.Printf("import %q\n  wallet id %s\n  GetMnemonic -> %q\n", r, b, bb)
	c, _ := imp(bb)
	fmt.Printf("import of that backup -> wallet id %s\n", c)
}
