// The FAULT family of c05 (flag -flt): error paths that only exist when the environment fails.
//
// One history = one wallet instance whose two environments are wrapped:
//
//	the chain database the wallet reads (sim.ChainFault around the node's database.Db): the
//	    used-address look-up CheckScriptHashUsed ("lookup") and, separately, every other read
//	    the wallet makes — FetchScriptHashRelatedTx, FetchTxByLoc, FetchTxBySha, block, height
//	    and tip reads of imports / rescans / start-up ("fetch") — fail on demand;
//	the wallet database (internal/dbwrap, as C18): the numbered call failAt .. failAt+count-1
//	    (begin / get / put / delete / commit / iterator ...) fails ("db").
//
// Every secret-bearing operation
//
//	create      CreateWallet
//	impmn       ImportWalletWithMnemonic of a wallet WITH history on the chain (rescan in the background)
//	impmn-hint  the same with external / internal index hints
//	impmn-new   ImportWalletWithMnemonic of a fresh sentence (no history)
//	impks       ImportWallet (keystore JSON)
//	remove      RemoveWallet with the right passphrase and its background steps (after every import
//	            that succeeded: the imported wallet is removed again)
//	export getmn signhash signraw newaddr use     ExportWallet GetMnemonic SignHash SignRawTx NewAddress UseWallet
//	chpub chpriv                                   ChangePubPassphrase ChangePrivPassphrase
//	restart     Stop, then NewWalletManager + Start on the same database (keystores loaded, catch-up)
//
// is run once without fault (its environment calls are counted) and then with each fault kind at
// sampled call numbers (quick tier; -sweep: every call number up to a cap), single, double and
// persistent faults. Faults stay armed while the background task of an import / removal runs.
// After EVERY attempt the returned error text, the raw LevelDB content (files, keys, values) and
// every export produced are searched for every secret of every wallet of the history — including
// the wallets whose creation or import FAILED — in every encoding (taint.go). Whether the
// operation failed or succeeded cleanly is C18's subject; here only secrets appearing count.
//
// Lines (TAB separated):
//
//	FH  hist  wallets                       header: resident wallet, guest wallet (ids)
//	FO  hist  step  op  fault  at  count  injected  first  dbcalls  lookups  fetches  outcome  errtext
//	F   hist  step  where  what             a secret was FOUND (never expected), as in the main family
//	N   hist  step  needles  haystacks  bytes
//	FD  hist  step  note                    the harness had to recover (restart / give up a cycle): no verdict
package main

import (
	"bufio"
	"encoding/base64"
	"encoding/json"
	"fmt"
	"os"
	"runtime"
	"sort"
	"strings"
	"time"

	"github.com/btcsuite/btcd/btcec"
	"github.com/massnetorg/mass-core/txscript"
	"github.com/massnetorg/mass-core/wire"
	mwdb "massnet.org/mass-wallet/masswallet/db"
	"massnet.org/mass-wallet/masswallet/keystore"
	"verifharness/internal/bip39ref"
	"verifharness/internal/bipref"
	"verifharness/internal/dbwrap"
	"verifharness/internal/rng"
	"verifharness/internal/sim"
)

const persistent = 1 << 20

type plan struct {
	kind  string // "none" | "db" | "lookup" | "fetch"
	at    int
	count int
}

type faddr struct {
	b, i  uint32
	pub   *btcec.PublicKey
	sh    []byte
	coins []wire.OutPoint
}

type fwallet struct {
	id, pass, mnemonic, remark string
	rf                         *bipref.P
	acct                       *bipref.Key
	addrs                      []*faddr
	json                       string
	keys                       map[[2]uint32]bool
}

type fsess struct {
	l      *life // the scanner, the snapshot of the raw database, the F / N lines
	r      *rng.R
	n      int
	sweep  bool
	out    *bufio.Writer
	root   string
	node   *sim.Node
	ctl    *dbwrap.Ctl
	cf     *sim.ChainFault
	raw    mwdb.DB // the unwrapped wallet database (polling without numbered calls)
	w      *sim.Wallet
	dir    string
	pub    string
	oldPub []string
	A, G   *fwallet
	all    []*fwallet
	base   map[string][3]int // op -> calls of the fault-free run: db, lookup, fetch
	fresh  int
	spare  *fwallet // a fresh sentence whose import has not succeeded yet (used again: fewer needles)
	dbSig  string   // names, sizes and modification times of the database files when last scanned
}

// scanDB scans the raw database unless no file of it changed since the last scan (a failed
// operation that was rolled back writes nothing; the content was scanned when it was written)
func (s *fsess) scanDB() (int, int) {
	var sb strings.Builder
	if fs, err := os.ReadDir(s.dir + "/walletdb"); err == nil {
		for _, f := range fs {
			if info, e := f.Info(); e == nil && !f.IsDir() && f.Name() != "LOCK" {
				fmt.Fprintf(&sb, "%s:%d:%d;", f.Name(), info.Size(), info.ModTime().UnixNano())
			}
		}
	}
	sig := sb.String()
	if sig != "" && sig == s.dbSig {
		stats["flt_scans_skipped_db_unchanged"]++
		return 0, 0
	}
	_, hays, total := s.l.snapshot()
	s.dbSig = sig
	return hays, total
}

// shieldDB keeps faults away from NtfnsHandler.initTaskChan: when its read transaction cannot be
// begun (or its listing fails) the task queue is never created, the worker goroutine dereferences
// the nil queue, and the wallet's Recover turns that panic into a fatal log entry that ends the
// PROCESS (reported as a side finding; nothing to do with secrets). The transaction of that one
// function is begun on the unwrapped database: not numbered, never failing.
type shieldDB struct {
	mwdb.DB
	raw mwdb.DB
}

func (d *shieldDB) BeginReadTx() (mwdb.ReadTransaction, error) {
	pcs := make([]uintptr, 12)
	n := runtime.Callers(2, pcs)
	frames := runtime.CallersFrames(pcs[:n])
	for {
		f, more := frames.Next()
		if strings.HasSuffix(f.Function, ".initTaskChan") {
			stats["flt_shielded_initTaskChan"]++
			return d.raw.BeginReadTx()
		}
		if !more {
			break
		}
	}
	return d.DB.BeginReadTx()
}

func (s *fsess) wrap(db mwdb.DB) mwdb.DB {
	s.raw = db
	// (the shield was needed before /repo commit 6aa80c4: a fault in initTaskChan's read transaction left the task
	// queue nil and the worker's panic ended the process; Start now reports the failure, so nothing is shielded)
	return s.ctl.Wrap(db)
}

func (s *fsess) ks() *keystore.KeystoreManager {
	_, _, _, ks, _ := s.w.WM.VerifStores()
	return ks
}

func (s *fsess) note(format string, a ...interface{}) {
	fmt.Fprintf(s.out, "FD\t%d\t%d\t%s\n", s.n, s.l.step, sanitize(fmt.Sprintf(format, a...)))
	stats["flt_recoveries"]++
}

// register computes every secret of (mnemonic, pass) with the independent references and makes
// them needles; the wallet need not exist (a failed import has secrets too)
func (s *fsess) register(w *fwallet) error {
	if err := s.l.secretsOf(w.mnemonic, w.pass); err != nil {
		return err
	}
	w.rf, w.acct, w.keys = s.l.rf, s.l.acct, map[[2]uint32]bool{}
	// the address keys an import with index hints may derive, and the first ones of both branches
	for b := uint32(0); b < 2; b++ {
		for i := uint32(0); i < 4; i++ {
			s.addrKey(w, b, i)
		}
	}
	s.all = append(s.all, w)
	return nil
}

func (s *fsess) addrKey(w *fwallet, b, i uint32) {
	if w.keys[[2]uint32{b, i}] || w.rf == nil {
		return
	}
	w.keys[[2]uint32{b, i}] = true
	kb, e := w.rf.CKD(w.acct, b)
	if e != "" {
		return
	}
	ki, e := w.rf.CKD(kb, i)
	if e != "" {
		return
	}
	s.l.addSecret(fmt.Sprintf("address-private-key-%d.%d", b, i), pad32(bipref.Scalar(ki).Bytes()))
}

// refresh reloads the address objects of w from the manager (they are replaced whenever a keystore is reloaded)
func (s *fsess) refresh(w *fwallet) bool {
	if s.w == nil {
		return false
	}
	am, err := s.ks().GetAddrManagerByAccountID(w.id)
	if err != nil {
		return false
	}
	old := map[[2]uint32]*faddr{}
	for _, a := range w.addrs {
		old[[2]uint32{a.b, a.i}] = a
	}
	w.addrs = w.addrs[:0]
	for _, ma := range am.ManagedAddresses() {
		_, b, i := ma.VerifPath()
		a := old[[2]uint32{b, i}]
		if a == nil {
			a = &faddr{b: b, i: i}
		}
		a.pub, a.sh = ma.PubKey(), ma.ScriptAddress()
		w.addrs = append(w.addrs, a)
		s.addrKey(w, b, i)
	}
	sort.Slice(w.addrs, func(x, y int) bool {
		if w.addrs[x].b != w.addrs[y].b {
			return w.addrs[x].b < w.addrs[y].b
		}
		return w.addrs[x].i < w.addrs[y].i
	})
	return true
}

func (s *fsess) present(id string) bool {
	if s.w == nil {
		return false
	}
	_, err := s.ks().GetAddrManagerByAccountID(id)
	return err == nil
}

// idle: no wallet importing or being removed, nothing queued — read through the UNWRAPPED database
func (s *fsess) idle() bool {
	_, _, sync, _, _ := s.w.WM.VerifStores()
	busy := false
	err := mwdb.View(s.raw, func(tx mwdb.ReadTransaction) error {
		l, err := sync.GetAllWalletStatus(tx)
		if err != nil {
			return err
		}
		for _, ws := range l {
			if !ws.Ready() || ws.IsRemoved() {
				busy = true
			}
		}
		return nil
	})
	return err == nil && !busy && s.w.H.VerifTaskQueueLen() == 0
}

func (s *fsess) waitIdle(timeout time.Duration) bool {
	deadline := time.Now().Add(timeout)
	for time.Now().Before(deadline) {
		if s.idle() {
			s.w.Barrier()
			if s.idle() {
				return true
			}
		}
		time.Sleep(time.Millisecond)
	}
	return false
}

func (s *fsess) open(p plan, arm bool) error {
	if arm {
		s.arm(p)
	}
	w, err := sim.OpenWalletChain(s.node, s.dir, s.wrap, s.cf, s.pub, true)
	if err != nil {
		return err
	}
	s.w = w
	return nil
}

// reopen without faults, trying the public passphrases of the history (a failed change may or may
// not have reached the store)
func (s *fsess) recoverOpen() error {
	s.ctl.Disarm()
	s.cf.Disarm()
	cands := append([]string{s.pub}, s.oldPub...)
	var last error
	for _, p := range cands {
		w, err := sim.OpenWalletChain(s.node, s.dir, s.wrap, s.cf, p, true)
		if err == nil {
			s.w, s.pub = w, p
			s.waitIdle(20 * time.Second)
			for _, x := range s.all {
				s.refresh(x)
			}
			return nil
		}
		last = err
		s.l.search("error-of-reopen", []byte(err.Error()))
	}
	return fmt.Errorf("the wallet cannot be reopened after a fault: %v", last)
}

func (s *fsess) restartClean(why string) error {
	s.note("restart to recover: %s", why)
	if s.w != nil {
		s.ctl.Disarm()
		s.cf.Disarm()
		s.w.Stop()
		s.w = nil
	}
	return s.recoverOpen()
}

func (s *fsess) arm(p plan) {
	s.ctl.Arm(0, 0, false)
	s.cf.Arm(sim.MaskLookup|sim.MaskFetch, 0, 0)
	switch p.kind {
	case "db":
		s.ctl.Arm(p.at, p.count, false)
	case "lookup":
		s.cf.Arm(sim.MaskLookup, p.at, p.count)
	case "fetch":
		s.cf.Arm(sim.MaskFetch, p.at, p.count)
	}
}

// attempt runs one operation under a fault plan, waits for its background task when bg is set
// (the plan stays armed; a persistent fault ends when the call has returned), scans and reports
func (s *fsess) attempt(op string, p plan, bg bool, f func() error) (error, bool) {
	tot0 := s.cf.Totals()
	done := make(chan struct{})
	go func() {
		select {
		case <-done:
		case <-time.After(120 * time.Second):
			fmt.Fprintf(os.Stdout, "X\t%d\tharness-error the operation %s under fault %s@%d*%d hung\n", s.n, op, p.kind, p.at, p.count)
			os.Exit(3)
		}
	}()
	s.arm(p)
	err, panicked := guard(f)
	dbInjected := s.ctl.NInjected()
	dbCalls := s.ctl.Calls()
	if bg && s.w != nil {
		if p.count >= persistent {
			// the environment recovers: background tasks retry for ever otherwise
			if p.kind == "db" {
				s.ctl.Arm(0, 0, false)
			} else {
				s.cf.Calm()
			}
		}
		if !s.waitIdle(20 * time.Second) {
			s.note("background task of %s under fault %s@%d*%d did not finish", op, p.kind, p.at, p.count)
		}
		if p.count >= persistent && p.kind == "db" {
			dbCalls += s.ctl.Calls()
		} else {
			dbInjected, dbCalls = s.ctl.NInjected(), s.ctl.Calls()
		}
	}
	s.ctl.Disarm()
	_, chInjected, first := s.cf.Disarm()
	close(done)
	tot1 := s.cf.Totals()
	lookups := tot1[sim.CKCheckUsed] - tot0[sim.CKCheckUsed]
	fetches := 0
	for k := sim.CKRelatedTx; k < sim.NChainKinds; k++ {
		fetches += tot1[k] - tot0[k]
	}
	injected, firstName := dbInjected, "-"
	switch p.kind {
	case "db":
		if dbInjected > 0 {
			firstName = s.ctl.FirstKind.String() + "@" + s.ctl.FirstSite
		}
	case "lookup", "fetch":
		injected = chInjected
		if chInjected > 0 {
			firstName = first.String()
		}
	}
	s.l.step++
	text := "-"
	if err != nil {
		text = sanitize(err.Error())
		s.l.search("error-of-"+op, []byte(err.Error()))
	}
	outcome := errClass(err)
	if i := strings.Index(outcome, ":other:"); i >= 0 {
		outcome = outcome[:i+6]
	}
	if panicked {
		outcome = "panic"
	}
	hays, total := s.scanDB()
	fmt.Fprintf(s.out, "FO\t%d\t%d\t%s\t%s\t%d\t%d\t%d\t%s\t%d\t%d\t%d\t%s\t%s\n", s.n, s.l.step, op, p.kind, p.at, p.count, injected,
		strings.ReplaceAll(firstName, "\t", " "), dbCalls, lookups, fetches, outcome, text)
	fmt.Fprintf(s.out, "N\t%d\t%d\t%d\t%d\t%d\n", s.n, s.l.step, s.l.sc.count(), hays, total)
	stats["flt_attempts"]++
	stats["flt_op_"+strings.ReplaceAll(op, "-", "_")]++
	stats["scans"]++
	stats["scanned_bytes"] += total
	if p.kind != "none" {
		stats["flt_fault_"+p.kind]++
		if injected > 0 {
			stats["flt_injected_"+p.kind]++
			if err != nil {
				stats["flt_failed_under_fault"]++
			}
		}
	} else {
		s.base[op] = [3]int{dbCalls, lookups, fetches}
	}
	return err, panicked
}

// plans: the fault points of one operation, from the call counts of its fault-free run
func (s *fsess) plans(op string, perKind int) []plan {
	base := s.base[op]
	var out []plan
	h := 0
	for _, c := range op {
		h = h*31 + int(c)
	}
	for ki, kind := range []string{"db", "lookup", "fetch"} {
		N := base[ki]
		if N == 0 {
			continue
		}
		if s.sweep {
			stepBy := 1
			if N > 64 {
				stepBy = (N + 63) / 64
			}
			for at := 1 + (s.n % stepBy); at <= N; at += stepBy {
				out = append(out, plan{kind, at, 1})
			}
			for j := 0; j < 6; j++ {
				out = append(out, plan{kind, 1 + s.r.Intn(N), []int{2, 3, persistent}[j%3]})
			}
			continue
		}
		k := perKind
		if kind != "db" && k > 2 {
			k = 2
		}
		for j := 0; j < k; j++ {
			// spread over the histories: history n, sample j
			at := 1 + (h+s.n*37+j*(N/k+1)+s.r.Intn(3))%N
			count := 1
			switch (s.n + j + ki) % 5 {
			case 3:
				count = 2 + s.r.Intn(2)
			case 4:
				count = persistent
			}
			dup := false
			for _, q := range out {
				if q.kind == kind && q.at == at && q.count == count {
					dup = true
				}
			}
			if !dup {
				out = append(out, plan{kind, at, count})
			}
		}
		if kind == "lookup" && (s.n+h)%2 == 0 {
			out = append(out, plan{kind, 1, persistent}) // the chain database is down
		}
	}
	return out
}

func (s *fsess) pay(w *fwallet, blocks int) error {
	paid := w.addrs
	if len(paid) > 3 {
		paid = paid[:3] // the first addresses have history, the rest of a long list stays unused (gap rule)
	}
	for k := 0; k < blocks; k++ {
		var outs []sim.Out
		for _, a := range paid {
			sc, err := txscript.PayToWitnessScriptHashScript(a.sh)
			if err != nil {
				return err
			}
			outs = append(outs, sim.Out{Script: sc, Value: int64(1+s.r.Intn(900)) * 100000})
		}
		b := s.node.MakeBlock(s.node.Tip(), outs, nil)
		if err := s.node.Attach(b); err != nil {
			return err
		}
		s.w.Notify(b)
		th := b.MsgBlock().Transactions[0].TxHash()
		for j, a := range paid {
			a.coins = append(a.coins, wire.OutPoint{Hash: th, Index: uint32(j)})
		}
	}
	return nil
}

// removeGuest: RemoveWallet of the guest with the right passphrase under a plan, background steps
// included; afterwards the guest is gone (without fault if need be)
func (s *fsess) removeGuest(p plan) error {
	s.attempt("remove", p, true, func() error { return s.w.WM.RemoveWallet(s.G.id, s.G.pass) })
	for try := 0; s.present(s.G.id) && try < 3; try++ {
		err, _ := guard(func() error { return s.w.WM.RemoveWallet(s.G.id, s.G.pass) })
		if err != nil {
			s.l.search("error-of-remove", []byte(err.Error()))
		}
		if !s.waitIdle(20*time.Second) || (err != nil && s.present(s.G.id)) {
			if e := s.restartClean("the guest wallet is still there after a faulted removal"); e != nil {
				return e
			}
		}
	}
	if s.present(s.G.id) {
		return fmt.Errorf("the guest wallet cannot be removed")
	}
	return nil
}

func (s *fsess) importGuest(op string, p plan) error {
	if s.present(s.G.id) {
		if err := s.removeGuest(plan{"none", 0, 0}); err != nil {
			return err
		}
	}
	g := s.G
	var f func() error
	switch op {
	case "impks":
		f = func() error { _, e := s.w.WM.ImportWallet(g.json, g.pass); return e }
	default:
		wp := &keystore.WalletParams{Version: keystore.KeystoreVersionLatest, Mnemonic: g.mnemonic, Remarks: g.remark,
			PrivatePassphrase: []byte(g.pass), AddressGapLimit: sim.Cur.GapLimit}
		if op == "impmn-hint" {
			wp.ExternalIndex, wp.InternalIndex = uint32(1+s.r.Intn(3)), uint32(s.r.Intn(3))
		}
		f = func() error { _, e := s.w.WM.ImportWalletWithMnemonic(wp); return e }
	}
	err, _ := s.attempt(op, p, true, f)
	if err == nil && !s.present(g.id) {
		s.note("%s reported success but the wallet is not managed", op)
	}
	if s.present(g.id) {
		s.refresh(g)
		if _, e := s.w.WM.UseWallet(s.A.id); e != nil {
			s.l.search("error-of-use", []byte(e.Error()))
		}
	}
	return nil
}

func (s *fsess) freshMnemonic() (*fwallet, error) {
	s.fresh++
	ent := s.r.Bytes([]int{16, 20, 24, 28, 32}[s.r.Intn(5)])
	mn, ok := bip39ref.Encode(ent)
	if !ok {
		return nil, fmt.Errorf("reference cannot encode entropy")
	}
	w := &fwallet{pass: randPass(s.r), mnemonic: mn, remark: fmt.Sprintf("fresh%d", s.fresh)}
	return w, s.register(w)
}

// one operation by name under a plan
func (s *fsess) run(op string, p plan) error {
	if s.w == nil {
		if err := s.recoverOpen(); err != nil {
			return err
		}
	}
	a := s.A
	switch op {
	case "create":
		pass := randPass(s.r)
		s.l.addSecret("private-passphrase", []byte(pass))
		remark := ""
		if s.r.Chance(50) {
			remark = "note" + fmt.Sprint(s.r.Intn(100000))
		}
		var id, mn string
		err, _ := s.attempt(op, p, false, func() error {
			var e error
			id, mn, _, e = s.w.WM.CreateWallet(pass, remark, []int{128, 160, 192, 224, 256}[s.r.Intn(5)])
			return e
		})
		if err == nil && mn != "" {
			w := &fwallet{id: id, pass: pass, mnemonic: mn, remark: remark}
			if e := s.register(w); e != nil {
				return e
			}
			// the rows of the wallet just created were scanned before its secrets were known
			s.l.step++
			s.dbSig = ""
			hays, total := s.scanDB()
			fmt.Fprintf(s.out, "N\t%d\t%d\t%d\t%d\t%d\n", s.n, s.l.step, s.l.sc.count(), hays, total)
			if s.sweep && p.kind != "none" {
				// many creations succeed in a sweep: keep the database small
				if e, _ := guard(func() error { return s.w.WM.RemoveWallet(id, pass) }); e != nil {
					s.l.search("error-of-remove", []byte(e.Error()))
				}
				s.waitIdle(20 * time.Second)
				w.id = ""
			}
		}
	case "impmn", "impmn-hint", "impks":
		if err := s.importGuest(op, p); err != nil {
			return err
		}
		if s.present(s.G.id) {
			// the wallet imported (under the fault or not) is removed again, under a fault of its own
			rp := plan{"none", 0, 0}
			if pl := s.plans("remove", 1); len(pl) > 0 && s.base["remove"][0] > 0 {
				rp = pl[s.r.Intn(len(pl))]
			}
			if err := s.removeGuest(rp); err != nil {
				return err
			}
		}
	case "impmn-new":
		w := s.spare
		if w == nil {
			var err error
			if w, err = s.freshMnemonic(); err != nil {
				return err
			}
		}
		s.spare = w
		wp := &keystore.WalletParams{Version: keystore.KeystoreVersionLatest, Mnemonic: w.mnemonic, Remarks: w.remark,
			PrivatePassphrase: []byte(w.pass), ExternalIndex: uint32(s.r.Intn(2)), InternalIndex: uint32(s.r.Intn(2)), AddressGapLimit: sim.Cur.GapLimit}
		s.attempt(op, p, true, func() error {
			sum, e := s.w.WM.ImportWalletWithMnemonic(wp)
			if e == nil {
				w.id = sum.WalletID
				s.spare = nil
			}
			return e
		})
		if s.sweep && w.id != "" && s.present(w.id) {
			// a sweep imports the same fresh sentence again and again: remove it after a success
			if e, _ := guard(func() error { return s.w.WM.RemoveWallet(w.id, w.pass) }); e != nil {
				s.l.search("error-of-remove", []byte(e.Error()))
			}
			s.waitIdle(20 * time.Second)
			if !s.present(w.id) {
				w.id, s.spare = "", w
			}
		}
	case "export":
		var js string
		err, _ := s.attempt(op, p, false, func() error { var e error; js, e = s.w.WM.ExportWallet(a.id, a.pass); return e })
		if err == nil {
			s.l.search("exported-keystore", []byte(js))
		}
	case "getmn":
		s.attempt(op, p, false, func() error { _, _, e := s.w.WM.GetMnemonic(a.id, a.pass); return e })
	case "signhash":
		if len(a.addrs) == 0 {
			return nil
		}
		ad := a.addrs[s.r.Intn(len(a.addrs))]
		h := s.r.Bytes(32)
		s.attempt(op, p, false, func() error { _, e := s.w.WM.SignHash(ad.pub, h, []byte(a.pass)); return e })
		s.ks().ClearPrivKey()
	case "signraw":
		var ops []wire.OutPoint
		for _, ad := range a.addrs {
			if len(ad.coins) > 0 && len(ops) < 2 {
				ops = append(ops, ad.coins[s.r.Intn(len(ad.coins))])
			}
		}
		if len(ops) == 0 {
			return nil
		}
		sc, _ := txscript.PayToWitnessScriptHashScript(a.addrs[0].sh)
		tx := sim.NewTx(ops, nil, []sim.Out{{Script: sc, Value: 1000}}, 0, nil)
		s.attempt(op, p, false, func() error { _, e := s.w.WM.SignRawTx([]byte(a.pass), "ALL", tx); return e })
	case "newaddr":
		s.attempt(op, p, false, func() error { _, e := s.w.WM.NewAddress(0); return e })
	case "use":
		s.attempt(op, p, false, func() error { _, e := s.w.WM.UseWallet(a.id); return e })
	case "chpub":
		np := "pub" + randPass(s.r)
		if len(np) > 40 {
			np = np[:40]
		}
		old := s.pub
		s.l.addNeedle("public-passphrase", []byte(np))
		s.oldPub = append([]string{np}, s.oldPub...)
		err, _ := s.attempt(op, p, false, func() error {
			return mwdb.Update(s.w.DB, func(tx mwdb.DBTransaction) error {
				return s.ks().ChangePubPassphrase(tx, []byte(old), []byte(np), nil)
			})
		})
		if err == nil {
			s.pub = np
			s.oldPub = append([]string{old}, s.oldPub...)
		}
	case "chpriv":
		np := randPass(s.r)
		s.l.addSecret("private-passphrase", []byte(np))
		err, _ := s.attempt(op, p, false, func() error { return s.w.WM.ChangePrivPassphrase(a.pass, np) })
		if err == nil {
			a.pass = np
		}
	case "restart":
		s.attempt(op, p, true, func() error {
			s.w.Stop()
			s.w = nil
			return s.open(p, true) // the plan is armed anew: call 1 is the first call of NewWalletManager
		})
		if s.w == nil {
			if err := s.recoverOpen(); err != nil {
				return err
			}
		}
	}
	// the keystores may have been reloaded, the selection dropped
	if s.w != nil {
		for _, x := range s.all {
			if x.id != "" {
				s.refresh(x)
			}
		}
		if cur := s.ks().CurrentKeystore(); cur == nil || cur.Name() != a.id {
			if _, e := s.w.WM.UseWallet(a.id); e != nil {
				s.l.search("error-of-use", []byte(e.Error()))
				if err := s.restartClean("the resident wallet cannot be selected: " + e.Error()); err != nil {
					return err
				}
				if _, e := s.w.WM.UseWallet(a.id); e != nil {
					return fmt.Errorf("the resident wallet cannot be selected after a clean restart: %v", e)
				}
			}
		}
	}
	return nil
}

var faultOps = []string{"create", "impmn", "impmn-hint", "impks", "impmn-new", "export", "getmn", "signhash", "signraw", "newaddr", "use", "chpub", "chpriv", "restart"}

func runFaults(seed uint64, n int, sweep bool, out *bufio.Writer) error {
	r := rng.New(seed*67867967 + uint64(n)*982451653 + 17)
	root, err := os.MkdirTemp("/dev/shm", "vc05f")
	if err != nil {
		root, err = os.MkdirTemp("", "vc05f")
		if err != nil {
			return err
		}
	}
	defer os.RemoveAll(root)
	node, err := sim.NewNode(root)
	if err != nil {
		return err
	}
	defer node.Close()
	l := &life{r: r, n: n, out: out, root: root, node: node, pub: sim.PubPass, addrKeys: map[[2]uint32]bool{}, sc: newScanner()}
	s := &fsess{l: l, r: r, n: n, sweep: sweep, out: out, root: root, node: node, ctl: dbwrap.New(), cf: sim.NewChainFault(node.DB),
		pub: sim.PubPass, base: map[string][3]int{}}
	defer func() {
		if s.w != nil {
			s.ctl.Disarm()
			s.cf.Disarm()
			s.w.Stop()
		}
	}()
	l.addNeedle("public-passphrase", []byte(s.pub))

	// the guest wallet: created and used in an instance of its own, exported, paid on the chain
	s.dir, l.dir = root+"/i0", root+"/i0"
	if err := s.open(plan{}, false); err != nil {
		return err
	}
	g := &fwallet{pass: randPass(r), remark: "guest" + fmt.Sprint(r.Intn(1000))}
	g.id, g.mnemonic, _, err = s.w.WM.CreateWallet(g.pass, g.remark, []int{128, 160, 192, 224, 256}[n%5])
	if err != nil {
		return fmt.Errorf("CreateWallet (guest): %v", err)
	}
	if err := s.register(g); err != nil {
		return err
	}
	s.G = g
	if _, err := s.w.WM.UseWallet(g.id); err != nil {
		return err
	}
	for j, na := 0, 1+r.Intn(3); j < na; j++ {
		if _, err := s.w.WM.NewAddress(0); err != nil {
			return fmt.Errorf("NewAddress (guest): %v", err)
		}
	}
	s.refresh(g)
	if err := s.pay(g, 2); err != nil {
		return err
	}
	if g.json, err = s.w.WM.ExportWallet(g.id, g.pass); err != nil {
		return fmt.Errorf("ExportWallet (guest): %v", err)
	}
	l.search("exported-keystore", []byte(g.json))
	l.step++
	l.snapshot()
	s.w.Stop()
	s.w = nil

	// the instance under test
	s.dir, l.dir = root+"/i1", root+"/i1"
	if err := s.open(plan{}, false); err != nil {
		return err
	}
	a := &fwallet{pass: randPass(r)}
	s.A = a
	l.addSecret("private-passphrase", []byte(a.pass))
	s.base["create"] = [3]int{}
	errc, _ := s.attempt("create", plan{"none", 0, 0}, false, func() error {
		var e error
		a.id, a.mnemonic, _, e = s.w.WM.CreateWallet(a.pass, "", []int{128, 160, 192, 224, 256}[(n/5)%5])
		return e
	})
	if errc != nil {
		return fmt.Errorf("CreateWallet: %v", errc)
	}
	if err := s.register(a); err != nil {
		return err
	}
	if _, err := s.w.WM.UseWallet(a.id); err != nil {
		return err
	}
	na := 1 + r.Intn(2)
	if n%2 == 1 {
		// a full window of addresses: from here on NewAddress consults the chain look-up (gap rule)
		na = int(sim.Cur.GapLimit)
	}
	for j := 0; j < na; j++ {
		if _, err := s.w.WM.NewAddress(0); err != nil {
			return fmt.Errorf("NewAddress: %v", err)
		}
	}
	s.refresh(a)
	if err := s.pay(a, 2); err != nil {
		return err
	}
	fmt.Fprintf(out, "FH\t%d\tresident=%s guest=%s\n", n, a.id, g.id)

	// fault-free runs first (call counts; they are attempts like the others: scanned), the guest
	// cycle giving the counts of the imports and of the removal
	order := append([]string{}, faultOps...)
	for i := len(order) - 1; i > 0; i-- {
		j := r.Intn(i + 1)
		order[i], order[j] = order[j], order[i]
	}
	for _, op := range order {
		if op == "create" {
			continue
		}
		if err := s.run(op, plan{"none", 0, 0}); err != nil {
			return err
		}
	}
	perKind := 3
	for _, op := range order {
		for _, p := range s.plans(op, perKind) {
			if err := s.run(op, p); err != nil {
				return err
			}
		}
	}
	stats["flt_histories"]++
	return nil
}

// taintSelfTest plants every printing of a secret the scan claims to know into a haystack and
// checks that it is found (and that an innocent text is not); returns the misses.
func taintSelfTest() []string {
	sc := newScanner()
	pass := []byte("@#XXd7O9xyDIWIbXX$lj")
	key := []byte{0x40, 0x23, 0x00, 0xff, 0x10, 0x7f, 0x80, 0x0a, 0x22, 0x5c, 0x3c, 0x99, 0xde, 0xad, 0xbe, 0xef, 1, 2, 3, 4, 5, 6, 7, 8, 9, 10, 11, 12, 13, 14, 15, 16}
	words := strings.Fields("vault valid stove draw silly juice veteran marine actor idle impose anchor")
	sc.addSecret("pass", pass, true)
	sc.addSecret("key", key, true)
	sc.addMnemonic(words)
	type params struct {
		Version  uint8
		Mnemonic string
		Remarks  string
		Pass     []byte
		E, I, G  uint32
	}
	pv := params{0, strings.Join(words, " "), "restored", pass, 5, 0, 20}
	var misses []string
	check := func(name, hay string, want bool) {
		got := false
		sc.search([]byte(hay), func(string) { got = true })
		if got != want {
			misses = append(misses, name)
		}
	}
	for _, b := range [][]byte{pass, key} {
		tag := fmt.Sprintf("%d-byte secret ", len(b))
		check(tag+"%v", fmt.Sprintf("lookup failed: %v: closed", b), true)
		check(tag+"%d", fmt.Sprintf("%d", b), true)
		check(tag+"%x", fmt.Sprintf("key=%x", b), true)
		check(tag+"%X", fmt.Sprintf("key=%X", b), true)
		check(tag+"% x", fmt.Sprintf("% x", b), true)
		check(tag+"% X", fmt.Sprintf("% X", b), true)
		check(tag+"% #x", fmt.Sprintf("% #x", b), true)
		check(tag+"%q", fmt.Sprintf("%q", b), true)
		check(tag+"%+q", fmt.Sprintf("%+q", b), true)
		check(tag+"%#v", fmt.Sprintf("%#v", b), true)
		check(tag+"%s", fmt.Sprintf("pass %s!", b), true)
		check(tag+"json-bytes", jsonOf(b), true)
		check(tag+"json-string", jsonOf(string(b)), true) // invalid UTF-8 is replaced by json, the windows of valid bytes still show
		check(tag+"json-ints", jsonOf(ints(b)), true)
		check(tag+"b64", "x"+b64s(b, 0)+"y", true)
		check(tag+"b64url-embedded", b64s(append([]byte("ab"), b...), 1), true)
		check(tag+"window-decimal", fmt.Sprintf("%v", b[3:14]), true)
		check(tag+"window-hex", fmt.Sprintf("%x", b[5:15]), true)
		check(tag+"7-bytes-only", fmt.Sprintf("%v", b[3:10]), false)
	}
	check("struct-dump", fmt.Sprintf("address lookup failed while restoring %v: leveldb: closed", pv), true)
	check("struct-dump+v", fmt.Sprintf("%+v", pv), true)
	check("struct-dump#v", fmt.Sprintf("%#v", pv), true)
	check("words-%q", fmt.Sprintf("%q", words[2:6]), true)
	check("words-json", jsonOf(words[4:8]), true)
	check("words-lines", strings.Join(words[1:4], "\n"), true)
	check("two-words", "draw silly", false)
	check("innocent", "invalid passphrase for master private key; account 1 not found; failed to get 7: 64 35 88 at height 120, wallet ms1qq0123456789", false)
	for _, t := range []string{"invalid passphrase for master private key", "failed to store encrypted crypto private key: unable to open account index",
		"not allowed to change private passphrase when unlocked", "new public passphrase same as private passphrase"} {
		if mnemonicLikeRun([]byte(t)) >= wordRunThreshold {
			misses = append(misses, "word-run-false-alarm: "+t)
		}
	}
	if mnemonicLikeRun([]byte("create failed for {abandon ability able about above absent absorb abstract}: closed")) < 8 {
		misses = append(misses, "word-run-missed")
	}
	return misses
}

func jsonOf(v interface{}) string {
	b, err := json.Marshal(v)
	if err != nil {
		return ""
	}
	return string(b)
}

func ints(b []byte) []int {
	out := make([]int, len(b))
	for i, c := range b {
		out[i] = int(c)
	}
	return out
}

func b64s(b []byte, enc int) string {
	if enc == 1 {
		return base64.URLEncoding.EncodeToString(b)
	}
	return base64.StdEncoding.EncodeToString(b)
}
