// The taint scan of c05: the set of byte strings ("needles") no haystack (raw database file, database
// key or value, exported keystore, error text) may contain, and the search for them.
//
// For every secret the needles are the secret in every way it could end up in a text or a record:
//
//	raw            the bytes themselves
//	hex / HEX      %x / %X
//	dec-sp         Go's %v / %d of a []byte, "64 35 88" (with or without the brackets: the needle is the inside)
//	dec-comma      "64,35,88" and "64, 35, 88" (JSON arrays of numbers, hand-rolled joins)
//	hex-sp / HEX-sp   % x / % X, "40 23 58"
//	0x-comma / 0x-sp  %#v of a []byte, "[]byte{0x40, 0x23, 0x58}" (the inside), and % #x, "0x40 0x23 0x58"
//	go-quote       %q / strconv.Quote and %+q (QuoteToASCII): "\x40#X…" (the inside of the quotes)
//	json           encoding/json string escaping, with and without HTML escaping (the inside of the quotes)
//	b64 / b64url   base64, standard and URL alphabet; the unpadded form is searched, which the padded form
//	               contains
//
// and the same for WINDOWS of a secret, so that a truncated or embedded leak counts as well: every 8
// consecutive bytes of a byte secret or of a passphrase (every 3 consecutive words of a mnemonic
// sentence) in each of the encodings above; for base64 every 9 consecutive bytes (three whole groups:
// whatever the alignment of the secret inside the encoded buffer, a leak of 11 consecutive bytes
// contains one). Windows with fewer than 4 distinct byte values are left out (they would match
// padding). Text secrets (mnemonic, passphrases, extended-key strings) are treated as their UTF-8 bytes.
//
// Search: needles are indexed by their first four bytes behind a bit set over their first three, so
// a haystack is walked once whatever the number of needles (tens of thousands per wallet).
package main

import (
	"bytes"
	"encoding/base64"
	"encoding/hex"
	"encoding/json"
	"strconv"
	"strings"

	"verifharness/internal/bip39ref"
)

type needle struct {
	what string
	b    []byte
}

type scanner struct {
	needles []needle
	idx     map[uint32][]int32
	bits    []uint64 // 2^24 bits: first three bytes of some needle
	seen    map[string]struct{}
}

func newScanner() *scanner {
	return &scanner{idx: map[uint32][]int32{}, bits: make([]uint64, 1<<18), seen: map[string]struct{}{}}
}

func (s *scanner) count() int { return len(s.needles) }

// add registers one needle (needles shorter than 6 bytes are ignored, as before: they would match by chance)
func (s *scanner) add(what string, b []byte) {
	if len(b) < 6 {
		return
	}
	if _, dup := s.seen[string(b)]; dup {
		return
	}
	s.seen[string(b)] = struct{}{}
	c := append([]byte{}, b...)
	s.needles = append(s.needles, needle{what, c})
	k3 := uint32(c[0]) | uint32(c[1])<<8 | uint32(c[2])<<16
	s.bits[k3>>6] |= 1 << (k3 & 63)
	k4 := k3 | uint32(c[3])<<24
	s.idx[k4] = append(s.idx[k4], int32(len(s.needles)-1))
}

// search reports every needle hay contains (each needle once per haystack)
func (s *scanner) search(hay []byte, found func(what string)) {
	var hit map[int32]bool
	for i := 0; i+6 <= len(hay); i++ {
		k3 := uint32(hay[i]) | uint32(hay[i+1])<<8 | uint32(hay[i+2])<<16
		if s.bits[k3>>6]&(1<<(k3&63)) == 0 {
			continue
		}
		for _, j := range s.idx[k3|uint32(hay[i+3])<<24] {
			nd := &s.needles[j]
			if hit[j] || !bytes.HasPrefix(hay[i:], nd.b) {
				continue
			}
			if hit == nil {
				hit = map[int32]bool{}
			}
			hit[j] = true
			found(nd.what)
		}
	}
}

func joinBytes(b []byte, format func(byte) string, sep string) []byte {
	var sb strings.Builder
	for i, c := range b {
		if i > 0 {
			sb.WriteString(sep)
		}
		sb.WriteString(format(c))
	}
	return []byte(sb.String())
}

func dec(c byte) string  { return strconv.Itoa(int(c)) }
func hex2(c byte) string { return hex.EncodeToString([]byte{c}) }
func hEX2(c byte) string { return strings.ToUpper(hex2(c)) }
func ox(c byte) string   { return "0x" + hex2(c) }

func jsonString(s string, escapeHTML bool) []byte {
	var buf bytes.Buffer
	e := json.NewEncoder(&buf)
	e.SetEscapeHTML(escapeHTML)
	if e.Encode(s) != nil {
		return nil
	}
	o := bytes.TrimSpace(buf.Bytes())
	if len(o) < 2 {
		return nil
	}
	return o[1 : len(o)-1]
}

// encodings returns the textual forms of b (name, bytes); the raw form is not among them
func encodings(b []byte, b64 bool) []needle {
	q := strconv.Quote(string(b))
	qa := strconv.QuoteToASCII(string(b))
	out := []needle{
		{"hex", []byte(hex.EncodeToString(b))},
		{"HEX", []byte(strings.ToUpper(hex.EncodeToString(b)))},
		{"go-decimal-list", joinBytes(b, dec, " ")},
		{"decimal-comma", joinBytes(b, dec, ",")},
		{"decimal-comma-space", joinBytes(b, dec, ", ")},
		{"hex-spaced", joinBytes(b, hex2, " ")},
		{"HEX-spaced", joinBytes(b, hEX2, " ")},
		{"go-syntax-0x-list", joinBytes(b, ox, ", ")},
		{"0x-spaced", joinBytes(b, ox, " ")},
		{"go-quote", []byte(q[1 : len(q)-1])},
		{"go-quote-ascii", []byte(qa[1 : len(qa)-1])},
		{"json-string", jsonString(string(b), true)},
		{"json-string-nohtml", jsonString(string(b), false)},
	}
	if b64 {
		out = append(out,
			needle{"base64", []byte(base64.RawStdEncoding.EncodeToString(b))},
			needle{"base64url", []byte(base64.RawURLEncoding.EncodeToString(b))})
	}
	return out
}

func distinct(b []byte) int {
	var seen [256]bool
	n := 0
	for _, c := range b {
		if !seen[c] {
			seen[c] = true
			n++
		}
	}
	return n
}

const byteWindow = 8   // consecutive secret bytes that count as a leak
const b64Window = 9    // three whole base64 groups
const wordWindow = 3   // consecutive mnemonic words that count as a leak

// addSecret registers a secret byte string (binary or the UTF-8 bytes of a text) in every encoding,
// whole and — when windows is set — by windows.
func (s *scanner) addSecret(what string, b []byte, windows bool) {
	if len(b) < 6 {
		return
	}
	s.add(what+":raw", b)
	for _, e := range encodings(b, true) {
		s.add(what+":"+e.what, e.b)
	}
	if !windows {
		return
	}
	for i := 0; i+byteWindow <= len(b) && len(b) > byteWindow; i++ {
		w := b[i : i+byteWindow]
		if distinct(w) < 4 {
			continue
		}
		tag := what + ":bytes-" + strconv.Itoa(i) + ".." + strconv.Itoa(i+byteWindow-1)
		s.add(tag+":raw", w)
		for _, e := range encodings(w, false) {
			s.add(tag+":"+e.what, e.b)
		}
	}
	for i := 0; i+b64Window <= len(b) && len(b) > b64Window; i++ {
		w := b[i : i+b64Window]
		if distinct(w) < 4 {
			continue
		}
		tag := what + ":bytes-" + strconv.Itoa(i) + ".." + strconv.Itoa(i+b64Window-1)
		s.add(tag+":base64", []byte(base64.RawStdEncoding.EncodeToString(w)))
		s.add(tag+":base64url", []byte(base64.RawURLEncoding.EncodeToString(w)))
	}
}

// separators a list of words may be joined by when it is printed: %v of a []string / the sentence itself,
// comma joins, %q of a []string, a JSON array, one word per line
var wordSeparators = []struct{ name, sep string }{
	{"", " "}, {"comma", ","}, {"comma-space", ", "}, {"go-quoted-list", "\" \""}, {"json-array", "\",\""},
	{"json-array-space", "\", \""}, {"lines", "\n"},
}

// addMnemonic registers the sentence (single spaces, as the wallet hands it out) whole and by
// windows of three words, in every encoding, and joined by the other separators.
func (s *scanner) addMnemonic(words []string) {
	s.addSecret("mnemonic-sentence", []byte(strings.Join(words, " ")), false)
	for i := 0; i+wordWindow <= len(words); i++ {
		w := []byte(strings.Join(words[i:i+wordWindow], " "))
		if distinct(w) < 4 {
			continue
		}
		tag := "mnemonic-words-" + strconv.Itoa(i) + ".." + strconv.Itoa(i+wordWindow-1)
		s.addSecret(tag, w, false)
		for _, ws := range wordSeparators[1:] {
			s.add(tag+":"+ws.name, []byte(strings.Join(words[i:i+wordWindow], ws.sep)))
		}
	}
}

// mnemonicLikeRun: the longest run of consecutive BIP-39 list words in a text (tokens = maximal
// letter runs; any other token ends a run). A secret the harness cannot know — the sentence of a
// wallet whose CREATION failed is never handed out — still shows as such a run in an error text.
// Ordinary error prose has short runs ("master private key": 3); 6 or more is reported.
const wordRunThreshold = 6

var bip39Word = func() map[string]bool {
	m := map[string]bool{}
	for _, w := range bip39ref.English {
		m[w] = true
	}
	return m
}()

func mnemonicLikeRun(text []byte) int {
	best, run := 0, 0
	i := 0
	for i < len(text) {
		c := text[i]
		letter := func(c byte) bool { return c >= 'a' && c <= 'z' || c >= 'A' && c <= 'Z' }
		if !letter(c) {
			if c >= '0' && c <= '9' {
				run = 0
			}
			i++
			continue
		}
		j := i
		for j < len(text) && letter(text[j]) {
			j++
		}
		if bip39Word[strings.ToLower(string(text[i:j]))] {
			run++
			if run > best {
				best = run
			}
		} else {
			run = 0
		}
		i = j
	}
	return best
}
