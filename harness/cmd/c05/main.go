// c05: histories of a wallet's life on the REAL wallet (create / new address / sign / export /
// reveal / removal check / import / public-passphrase change / restart, with right and wrong
// passphrases); after every step
//
//	(i)  the RAW LevelDB directory of the wallet database (a copy, opened with goleveldb, every key
//	     and value; plus the raw bytes of every file of the directory, which still hold overwritten
//	     and deleted records), every exported keystore JSON and every returned error string are
//	     searched for every secret of the wallet in every encoding it could leak in;
//	(ii) the rows under the wallet's bucket k/km/<id> are listed with their lengths, to be compared
//	     with the term table of the Coq model (Keys/Store.v);
//	(iii) for operations that need a secret: outcome, and whether the raw database content and the
//	     unlock state are unchanged after a refusal.
//
// Lines (TAB separated):
//
//	W  hist  right-pass(hex)  0  0  addrs(b.i,...)        a manager (re)starts: model state reset
//	A  hist  addrs(b.i,...)                              the manager's addresses now
//	O  hist  kind  pass(hex)  addr  hashlen  arg  impl  obs   (as cmd/c03)  + dbsame(0|1)  passkind
//	K  hist  step  id  entlen  remarklen  coin  addrs  rows(sub:key:len,...)
//	F  hist  step  where  what                            a secret was FOUND (never expected)
//	N  hist  step  needles  haystacks  bytes              scan statistics
//
// With -mgr the command runs the keystore MANAGER family instead (several wallets in one
// KeystoreManager, lines MW / MO): see manager.go.
package main

import (
	"bufio"
	"bytes"
	"encoding/hex"
	"flag"
	"fmt"
	"io/ioutil"
	"os"
	"path/filepath"
	"sort"
	"strings"
	"time"

	"github.com/btcsuite/btcd/btcec"
	"github.com/syndtr/goleveldb/leveldb"
	"github.com/syndtr/goleveldb/leveldb/opt"
	"massnet.org/mass-wallet/config"
	mwdb "massnet.org/mass-wallet/masswallet/db"
	"massnet.org/mass-wallet/masswallet/keystore"
	"verifharness/internal/bip39ref"
	"verifharness/internal/bipref"
	"verifharness/internal/hist"
	"verifharness/internal/rng"
	"verifharness/internal/sim"
	"verifharness/internal/simx"
)

var stats = map[string]int{}

func hx(b []byte) string { return hex.EncodeToString(b) }

const passChars = "0123456789abcdefghijklmnopqrstuvwxyzABCDEFGHIJKLMNOPQRSTUVWXYZ@#$%^&"

func randPass(r *rng.R) string {
	n := 6 + r.Intn(35)
	// the boundary lengths of a legal passphrase often: code that sizes a buffer for "the longest legal passphrase"
	// behaves differently exactly there (seed C05f: a 40 byte passphrase plus any tail was accepted once unlocked)
	if r.Chance(25) {
		n = 40
	} else if r.Chance(10) {
		n = 6
	}
	b := make([]byte, n)
	for i := range b {
		b[i] = r.Pick(passChars)
	}
	return string(b)
}

type life struct {
	gone     bool // the wallet was removed by an attempt that should have been refused
	r        *rng.R
	n        int
	out      *bufio.Writer
	root     string
	node     *sim.Node
	w        *simx.Wallet
	dir      string
	pub      string
	id       string
	pass     string
	mnemonic string
	remark   string
	entLen   int
	sc       *scanner
	rf       *bipref.P
	acct     *bipref.Key // private account key of the reference
	addrKeys map[[2]uint32]bool
	step     int
	lastKV   map[string]string
}

// a text secret searched for whole, in every encoding (taint.go)
func (l *life) addNeedle(what string, b []byte) { l.sc.addSecret(what, b, false) }

// a byte secret: whole and by windows of 8 bytes, in every encoding (taint.go)
func (l *life) addSecret(what string, b []byte) { l.sc.addSecret(what, b, true) }

func (l *life) secretsOf(mnemonic, pass string) error {
	words := bip39ref.Split(mnemonic)
	l.sc.addMnemonic(words)
	ent, ok := bip39ref.DecodeWords(words)
	if !ok {
		return fmt.Errorf("the reference cannot decode the mnemonic")
	}
	l.entLen = len(ent)
	l.addSecret("entropy", ent)
	seed := bip39ref.Seed(words, pass)
	l.addSecret("seed", seed)
	l.addSecret("seed-first-half", seed[:32])
	l.addSecret("private-passphrase", []byte(pass))
	p := bipref.New()
	l.rf = p
	k, e := p.Master(bipref.XprvVer, seed)
	if e != "" {
		return fmt.Errorf("reference master: %s", e)
	}
	names := []string{"root", "purpose", "coin", "account"}
	path := []uint32{44 + 0x80000000, config.ChainParams.HDCoinType + 0x80000000, 1 + 0x80000000}
	for j := 0; ; j++ {
		l.addSecret("xprv-scalar-"+names[j], pad32(bipref.Scalar(k).Bytes()))
		l.addNeedle("xprv-string-"+names[j], []byte(p.String(k)))
		if j == len(path) {
			break
		}
		k, e = p.CKD(k, path[j])
		if e != "" {
			return fmt.Errorf("reference path: %s", e)
		}
	}
	l.acct = k
	for b := uint32(0); b < 2; b++ {
		kb, e := p.CKD(k, b)
		if e != "" {
			return fmt.Errorf("reference branch: %s", e)
		}
		l.addSecret(fmt.Sprintf("xprv-scalar-branch%d", b), pad32(bipref.Scalar(kb).Bytes()))
		l.addNeedle(fmt.Sprintf("xprv-string-branch%d", b), []byte(p.String(kb)))
	}
	return nil
}

func pad32(b []byte) []byte {
	if len(b) >= 32 {
		return b
	}
	out := make([]byte, 32)
	copy(out[32-len(b):], b)
	return out
}

func (l *life) addAddressKey(b, i uint32) {
	if l.addrKeys[[2]uint32{b, i}] {
		return
	}
	l.addrKeys[[2]uint32{b, i}] = true
	kb, e := l.rf.CKD(l.acct, b)
	if e != "" {
		return
	}
	ki, e := l.rf.CKD(kb, i)
	if e != "" {
		return
	}
	l.addSecret(fmt.Sprintf("address-private-key-%d.%d", b, i), pad32(bipref.Scalar(ki).Bytes()))
}

func (l *life) found(where, what string) {
	fmt.Fprintf(l.out, "F\t%d\t%d\t%s\t%s\n", l.n, l.step, where, what)
	stats["FOUND"]++
}

func (l *life) search(where string, hay []byte) {
	l.sc.search(hay, func(what string) { l.found(where, what) })
	if strings.HasPrefix(where, "error-of-") {
		if n := mnemonicLikeRun(hay); n >= wordRunThreshold {
			l.found(where, fmt.Sprintf("mnemonic-like-word-run:%d-consecutive-list-words", n))
		}
	}
}

// snapshot copies the wallet database directory, opens the copy with goleveldb and returns every
// key/value; the raw bytes of every file are searched as well.
func (l *life) snapshot() (map[string]string, int, int) {
	// goleveldb may rename or delete a table file between our directory listing and the copy
	// (compaction runs in the background): take the copy again then
	for try := 0; ; try++ {
		kv, hays, total, err := l.snapshotOnce()
		if err == nil || try == 4 {
			if err != nil {
				fmt.Fprintf(l.out, "X\t%d\tcannot open the copy of the wallet database: %v\n", l.n, err)
			}
			return kv, hays, total
		}
		time.Sleep(5 * time.Millisecond)
	}
}

func (l *life) snapshotOnce() (map[string]string, int, int, error) {
	src := simx.DBPath(l.dir)
	dst := filepath.Join(l.root, fmt.Sprintf("copy-%d", l.step))
	os.MkdirAll(dst, 0700)
	defer os.RemoveAll(dst)
	files, _ := ioutil.ReadDir(src)
	hays, total := 0, 0
	for _, f := range files {
		if f.IsDir() || f.Name() == "LOCK" {
			continue
		}
		b, err := ioutil.ReadFile(filepath.Join(src, f.Name()))
		if err != nil {
			continue
		}
		l.search("file:"+f.Name(), b)
		hays++
		total += len(b)
		ioutil.WriteFile(filepath.Join(dst, f.Name()), b, 0600)
	}
	kv := map[string]string{}
	db, err := leveldb.OpenFile(dst, &opt.Options{ErrorIfMissing: true})
	if err != nil {
		return kv, hays, total, err
	}
	it := db.NewIterator(nil, nil)
	for it.Next() {
		k, v := append([]byte{}, it.Key()...), append([]byte{}, it.Value()...)
		kv[string(k)] = string(v)
		l.search("db-key:"+printable(k), k)
		l.search("db-value-of:"+printable(k), v)
		hays += 2
		total += len(k) + len(v)
	}
	it.Release()
	db.Close()
	return kv, hays, total, nil
}

func printable(b []byte) string {
	var sb strings.Builder
	for _, c := range b {
		if c >= 33 && c < 127 && c != '\\' {
			sb.WriteByte(c)
		} else {
			fmt.Fprintf(&sb, "\\x%02x", c)
		}
	}
	s := sb.String()
	if len(s) > 120 {
		s = s[:120]
	}
	return s
}

// rows lists the keys under the wallet's bucket with the value lengths
func (l *life) rows(kv map[string]string) string {
	p3 := "3_k_km_" + l.id + "_"
	p4 := "4_k_km_" + l.id + "_pub_"
	var out []string
	for k, v := range kv {
		switch {
		case strings.HasPrefix(k, p4):
			out = append(out, fmt.Sprintf("707562:%s:%d", hx([]byte(k[len(p4):])), len(v)))
		case strings.HasPrefix(k, p3):
			out = append(out, fmt.Sprintf(":%s:%d", hx([]byte(k[len(p3):])), len(v)))
		}
	}
	sort.Strings(out)
	if len(out) == 0 {
		return "-"
	}
	return strings.Join(out, ",")
}

func (l *life) addrList() (string, []*btcec.PublicKey, [][2]uint32) {
	am, err := l.w.KS.GetAddrManagerByAccountID(l.id)
	if err != nil {
		return "-", nil, nil
	}
	type e struct {
		b, i uint32
		pub  *btcec.PublicKey
	}
	var es []e
	for _, ma := range am.ManagedAddresses() {
		_, b, i := ma.VerifPath()
		es = append(es, e{b, i, ma.PubKey()})
	}
	sort.Slice(es, func(a, b int) bool {
		if es[a].b != es[b].b {
			return es[a].b < es[b].b
		}
		return es[a].i < es[b].i
	})
	var p []string
	var pubs []*btcec.PublicKey
	var bis [][2]uint32
	for _, x := range es {
		p = append(p, fmt.Sprintf("%d.%d", x.b, x.i))
		pubs = append(pubs, x.pub)
		bis = append(bis, [2]uint32{x.b, x.i})
		l.addAddressKey(x.b, x.i)
	}
	if len(p) == 0 {
		return "-", nil, nil
	}
	return strings.Join(p, ","), pubs, bis
}

func (l *life) obs() string {
	am, err := l.w.KS.GetAddrManagerByAccountID(l.id)
	if err != nil {
		return "no-manager"
	}
	u := am.VerifUnlockState()
	b := func(x bool) int {
		if x {
			return 1
		}
		return 0
	}
	return fmt.Sprintf("%d,%d,%d,%d,%d,%d", b(u.Unlocked), b(u.MasterKeyZero), b(u.HashedZero), b(u.BranchPriv), u.CachedPrivKeys, b(am.VerifSaltZero()))
}

// afterStep scans everything and emits the K / N lines; returns whether the database content is
// the same as after the previous step
func (l *life) afterStep(name string) bool {
	l.step++
	kv, hays, total := l.snapshot()
	same := l.lastKV != nil && len(kv) == len(l.lastKV)
	if same {
		for k, v := range kv {
			if l.lastKV[k] != v {
				same = false
				break
			}
		}
	}
	l.lastKV = kv
	al, _, _ := l.addrList()
	fmt.Fprintf(l.out, "K\t%d\t%d:%s\t%s\t%d\t%d\t%d\t%s\t%s\n", l.n, l.step, name, l.id, l.entLen, len(l.remark), config.ChainParams.HDCoinType, al, l.rows(kv))
	fmt.Fprintf(l.out, "N\t%d\t%d\t%d\t%d\t%d\n", l.n, l.step, l.sc.count(), hays, total)
	stats["scans"]++
	stats["scanned_bytes"] += total
	return same
}

func (l *life) startManager() {
	al, _, _ := l.addrList()
	fmt.Fprintf(l.out, "W\t%d\t%s\t0\t0\t%s\n", l.n, hx([]byte(l.pass)), al)
}

// sanitize keeps printable ASCII and escapes everything else (error texts go into TAB separated lines)
func sanitize(s string) string {
	var sb strings.Builder
	for i := 0; i < len(s) && i < 300; i++ {
		if c := s[i]; c >= 32 && c < 127 {
			sb.WriteByte(c)
		} else {
			fmt.Fprintf(&sb, "\\x%02x", c)
		}
	}
	return sb.String()
}

func errClass(err error) string {
	switch err {
	case nil:
		return "ok"
	case keystore.ErrInvalidPassphrase:
		return "err:invalid-passphrase"
	case keystore.ErrInvalidDataHash:
		return "err:invalid-data-hash"
	case keystore.ErrAccountNotFound:
		return "err:account-not-found"
	case keystore.ErrBadTimingForChangingPass:
		return "err:bad-timing"
	case keystore.ErrChangePassNotAllowed:
		return "err:change-not-allowed"
	case keystore.ErrIllegalNewPubPass:
		return "err:illegal-new-pubpass"
	}
	if err.Error() == "unable to decrypt" {
		return "err:decrypt-failed"
	}
	return "err:other:" + sanitize(err.Error())
}

// candidate passphrases: all mutation classes of the right one, empty, very long, binary
func (l *life) candidate() (string, string) {
	r := l.r
	if r.Chance(40) {
		return l.pass, "right"
	}
	p := []byte(l.pass)
	var q, kind string
	switch r.Intn(12) {
	case 0:
		c := append([]byte{}, p...)
		c[r.Intn(len(c))] ^= byte(1 << uint(r.Intn(7)))
		q, kind = string(c), "bit-flip"
	case 1:
		q, kind = string(p[:len(p)-1-r.Intn(2)]), "prefix"
	case 2:
		q, kind = string(p[1+r.Intn(2):]), "suffix"
	case 3:
		q, kind = l.pass+string(r.Pick(passChars)), "extended"
	case 4:
		q, kind = strings.ToUpper(l.pass), "upper"
		if q == l.pass {
			q = strings.ToLower(l.pass)
		}
	case 5:
		q, kind = "", "empty"
	case 6:
		q, kind = strings.Repeat(l.pass, 40), "very-long"
	case 7:
		q, kind = string(r.Bytes(1+r.Intn(64))), "binary"
	case 8:
		q, kind = l.pub, "public-passphrase"
	case 9:
		q, kind = l.pass+"\x00", "nul-suffix"
	case 10:
		q, kind = " "+l.pass, "space-prefix"
	default:
		k := r.Intn(len(p))
		c := append(append([]byte{}, p[:k]...), p[k+1:]...)
		q, kind = string(c), "char-dropped"
	}
	if q == l.pass {
		q, kind = l.pass+"x", "extended"
	}
	return q, kind
}

func guard(f func() error) (err error, panicked bool) {
	defer func() {
		if e := recover(); e != nil {
			panicked = true
			err = fmt.Errorf("panic: %v", e)
		}
	}()
	return f(), false
}

// one operation that needs a secret, with a candidate passphrase
func (l *life) secretOp() {
	r := l.r
	pass, pk := l.candidate()
	_, pubs, bis := l.addrList()
	kind := []string{"sh", "ex", "mn", "ck", "ck"}[r.Intn(5)]
	if kind == "sh" && len(pubs) == 0 {
		kind = "ex"
	}
	as, hl := "-", 0
	var err error
	var p bool
	switch kind {
	case "sh":
		j := r.Intn(len(pubs))
		as, hl = fmt.Sprintf("%d.%d", bis[j][0], bis[j][1]), 32
		h := r.Bytes(32)
		err, p = guard(func() error { _, e := l.w.WM.SignHash(pubs[j], h, []byte(pass)); return e })
	case "ex":
		var js string
		err, p = guard(func() error { s, e := l.w.WM.ExportWallet(l.id, pass); js = s; return e })
		if err == nil {
			l.search("exported-keystore", []byte(js))
		}
	case "mn":
		err, p = guard(func() error { _, _, e := l.w.WM.GetMnemonic(l.id, pass); return e })
	case "ck":
		// the passphrase gate of RemoveWallet (calling RemoveWallet itself with the right passphrase
		// would remove the wallet)
		if pk == "right" {
			err, p = guard(func() error { return l.w.KS.CheckPrivPassphrase(l.id, []byte(pass)) })
		} else {
			err, p = guard(func() error { return l.w.WM.RemoveWallet(l.id, pass) })
			if err == nil && !p {
				l.gone = true
			}
		}
	}
	if err != nil {
		l.search("error-of-"+kind, []byte(err.Error()))
	}
	impl := errClass(err)
	if p {
		impl = "panic"
	}
	obs := l.obs()
	if l.gone {
		fmt.Fprintf(l.out, "O\t%d\t%s\t%s\t%s\t%d\t\t%s\t%s\t%d\t%s\n", l.n, kind, hx([]byte(pass)), as, hl, impl, obs, 0, pk)
		return
	}
	same := l.afterStep(kind + ":" + pk)
	sm := 0
	if same {
		sm = 1
	}
	fmt.Fprintf(l.out, "O\t%d\t%s\t%s\t%s\t%d\t\t%s\t%s\t%d\t%s\n", l.n, kind, hx([]byte(pass)), as, hl, impl, obs, sm, pk)
	stats["op_"+kind]++
	stats["pass_"+strings.ReplaceAll(pk, "-", "_")]++
	// SignHash leaves the manager unlocked; the wallet's own calls clear it at the end of SignRawTx
	if kind == "sh" && r.Chance(50) {
		l.w.KS.ClearPrivKey()
		fmt.Fprintf(l.out, "O\t%d\tcl\t\t-\t0\t\tok\t%s\t1\t-\n", l.n, l.obs())
	}
}

func runOne(seed uint64, n int, out *bufio.Writer) error {
	r := rng.New(seed*32452843 + uint64(n)*49979687 + 5)
	root, err := os.MkdirTemp("/dev/shm", "vc05")
	if err != nil {
		root, err = os.MkdirTemp("", "vc05")
		if err != nil {
			return err
		}
	}
	defer os.RemoveAll(root)
	node, err := sim.NewNode(root)
	if err != nil {
		return err
	}
	defer node.Close()
	l := &life{r: r, n: n, out: out, root: root, node: node, pub: sim.PubPass, addrKeys: map[[2]uint32]bool{}, sc: newScanner()}
	l.dir = root + "/i1"
	l.w, err = simx.Open(node, l.dir, l.pub)
	if err != nil {
		return err
	}
	defer func() {
		if l.w != nil {
			l.w.Stop()
		}
	}()
	bits := []int{128, 160, 192, 224, 256}[n%5]
	l.pass = randPass(r)
	if r.Chance(50) {
		l.remark = "note" + fmt.Sprint(r.Intn(100000))
	}
	id, mn, _, err := l.w.WM.CreateWallet(l.pass, l.remark, bits)
	if err != nil {
		return fmt.Errorf("CreateWallet: %v", err)
	}
	l.id, l.mnemonic = id, mn
	l.addNeedle("public-passphrase", []byte(l.pub))
	if err := l.secretsOf(mn, l.pass); err != nil {
		return err
	}
	if _, err := l.w.WM.UseWallet(id); err != nil {
		return err
	}
	l.startManager()
	l.afterStep("create")
	// a fixed opening every history goes through (the shapes of the recorded findings):
	// sign (stays unlocked) - wrong attempt with the empty passphrase - export - reveal - lock,
	// then the passphrase followed by a zero byte on the locked manager
	if _, err := l.w.WM.NewAddress(0); err != nil {
		return fmt.Errorf("NewAddress: %v", err)
	}
	{
		al, pubs, bis := l.addrList()
		fmt.Fprintf(out, "A\t%d\t%s\n", n, al)
		l.afterStep("new-address")
		fixed := func(kind, pass, pk string) {
			var err error
			var p bool
			as, hl := "-", 0
			switch kind {
			case "sh":
				as, hl = fmt.Sprintf("%d.%d", bis[0][0], bis[0][1]), 32
				h := r.Bytes(32)
				err, p = guard(func() error { _, e := l.w.WM.SignHash(pubs[0], h, []byte(pass)); return e })
			case "ex":
				var js string
				err, p = guard(func() error { s, e := l.w.WM.ExportWallet(l.id, pass); js = s; return e })
				if err == nil {
					l.search("exported-keystore", []byte(js))
				}
			case "mn":
				err, p = guard(func() error { _, _, e := l.w.WM.GetMnemonic(l.id, pass); return e })
			case "ck":
				err, p = guard(func() error { return l.w.KS.CheckPrivPassphrase(l.id, []byte(pass)) })
			}
			if err != nil {
				l.search("error-of-"+kind, []byte(err.Error()))
			}
			impl := errClass(err)
			if p {
				impl = "panic"
			}
			obs := l.obs()
			sm := 0
			if l.afterStep(kind + ":" + pk) {
				sm = 1
			}
			fmt.Fprintf(out, "O\t%d\t%s\t%s\t%s\t%d\t\t%s\t%s\t%d\t%s\n", n, kind, hx([]byte(pass)), as, hl, impl, obs, sm, pk)
			stats["op_"+kind]++
		}
		fixed("sh", l.pass, "right")
		fixed("mn", "", "empty")
		fixed("ex", l.pass, "right")
		fixed("mn", l.pass, "right")
		fixed("ck", l.pass, "right")
		fixed("mn", l.pass, "right")
		l.w.KS.ClearPrivKey()
		fmt.Fprintf(out, "O\t%d\tcl\t\t-\t0\t\tok\t%s\t1\t-\n", n, l.obs())
		fixed("ex", l.pass+"\x00", "nul-suffix")
		fixed("ck", l.pass+"\x00\x00", "nul-suffix")
		fixed("ex", l.pass, "right")
	}
	inst := 1
	steps := 7 + r.Intn(8)
	for s := 0; s < steps && !l.gone; s++ {
		switch k := r.Intn(100); {
		case k < 18:
			if _, err := l.w.WM.NewAddress(uint16(r.Intn(2))); err != nil {
				return fmt.Errorf("NewAddress: %v", err)
			}
			al, _, _ := l.addrList()
			fmt.Fprintf(out, "A\t%d\t%s\n", n, al)
			l.afterStep("new-address")
		case k < 70:
			l.secretOp()
		case k < 78:
			// public passphrase change
			np := "pub" + randPass(r)
			if len(np) > 40 {
				np = np[:40]
			}
			old := l.pub
			err := mwdb.Update(l.w.DB, func(tx mwdb.DBTransaction) error {
				return l.w.KS.ChangePubPassphrase(tx, []byte(old), []byte(np), nil)
			})
			if err != nil {
				return fmt.Errorf("ChangePubPassphrase: %v", err)
			}
			l.pub = np
			l.addNeedle("public-passphrase", []byte(np))
			fmt.Fprintf(out, "O\t%d\tcu\t%s\t-\t0\t\tok\t%s\t0\t-\n", n, hx([]byte(np)), l.obs())
			l.afterStep("change-pubpass")
		case k < 88:
			// restart
			l.w.Stop()
			l.w, err = simx.Open(node, l.dir, l.pub)
			if err != nil {
				return fmt.Errorf("restart: %v", err)
			}
			if _, err := l.w.WM.UseWallet(l.id); err != nil {
				return err
			}
			l.startManager()
			l.afterStep("restart")
		default:
			// export, stop, import into a fresh instance (wrong passphrase first), continue there
			var js string
			err, pn := guard(func() error { s, e := l.w.WM.ExportWallet(l.id, l.pass); js = s; return e })
			impl := errClass(err)
			if pn {
				impl = "panic"
			}
			obs := l.obs()
			same := 0
			if l.afterStep("ex:right") {
				same = 1
			}
			fmt.Fprintf(out, "O\t%d\tex\t%s\t-\t0\t\t%s\t%s\t%d\tright\n", n, hx([]byte(l.pass)), impl, obs, same)
			if err != nil {
				l.search("error-of-ex", []byte(err.Error()))
				continue
			}
			l.search("exported-keystore", []byte(js))
			l.w.Stop()
			inst++
			l.dir = fmt.Sprintf("%s/i%d", root, inst)
			l.w, err = simx.Open(node, l.dir, l.pub)
			if err != nil {
				return err
			}
			wp, _ := l.candidate()
			if wp != l.pass {
				if _, e := l.w.WM.ImportWallet(js, wp); e == nil {
					fmt.Fprintf(out, "F\t%d\t%d\timport\twrong-passphrase-accepted\n", n, l.step)
				} else {
					l.search("error-of-import", []byte(e.Error()))
				}
			}
			sum, err := l.w.WM.ImportWallet(js, l.pass)
			if err != nil {
				return fmt.Errorf("ImportWallet: %v", err)
			}
			if sum.WalletID != l.id {
				return fmt.Errorf("the imported wallet has another id")
			}
			if !l.w.WaitTasks(20 * time.Second) {
				return fmt.Errorf("import did not finish")
			}
			if _, err := l.w.WM.UseWallet(l.id); err != nil {
				return err
			}
			l.lastKV = nil
			l.startManager()
			l.afterStep("import-keystore")
		}
	}
	l.w.Stop()
	l.w = nil
	stats["histories"]++
	stats[fmt.Sprintf("bits_%d", bits)]++
	return nil
}

func main() {
	count := flag.Int("n", 30, "number of histories")
	outPath := flag.String("out", "", "output file")
	workers := flag.Int("j", 8, "parallel worker processes")
	first := flag.Int("first", 0, "index of the first history")
	worker := flag.Bool("worker", false, "internal: run sequentially and print to stdout")
	mgr := flag.Bool("mgr", false, "the keystore manager family (several wallets in one manager, see manager.go)")
	flt := flag.Bool("flt", false, "the fault family (error paths under chain-database and wallet-database faults, see faults.go)")
	sweep := flag.Bool("sweep", false, "fault family: every call number (up to a cap) instead of samples")
	selftest := flag.Bool("selftest", false, "check the taint scan against planted leaks in every encoding and exit")
	flag.Parse()
	if *selftest {
		if m := taintSelfTest(); len(m) > 0 {
			fmt.Println("SELFTEST FAILED " + strings.Join(m, "; "))
			os.Exit(1)
		}
		fmt.Println("SELFTEST ok")
		return
	}
	if !*worker {
		if err := hist.ParallelSelf(*count, *first, *workers, *outPath, os.Args[1:]); err != nil {
			fmt.Fprintln(os.Stderr, err)
			os.Exit(2)
		}
		return
	}
	sim.Init(sim.Params{CoinbaseMaturity: 2, MinFrozenPeriod: 2, GapLimit: 20})
	seed := rng.Seed()
	w := bufio.NewWriter(os.Stdout)
	for i := 0; i < *count; i++ {
		var buf bytes.Buffer
		bw := bufio.NewWriter(&buf)
		var err error
		if *flt {
			err = runFaults(seed, *first+i, *sweep, bw)
		} else if *mgr {
			err = runManager(seed, *first+i, bw)
		} else {
			err = runOne(seed, *first+i, bw)
		}
		bw.Flush()
		w.Write(buf.Bytes())
		if err != nil {
			fmt.Fprintf(w, "X\t%d\tharness-error %s\n", *first+i, strings.ReplaceAll(err.Error(), "\n", " "))
		}
	}
	w.Flush()
	keys := make([]string, 0, len(stats))
	for k := range stats {
		keys = append(keys, k)
	}
	sort.Strings(keys)
	var sb strings.Builder
	for _, k := range keys {
		fmt.Fprintf(&sb, "%s=%d ", k, stats[k])
	}
	fmt.Fprintln(os.Stderr, "STATS "+sb.String())
}
