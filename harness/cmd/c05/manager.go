// The keystore MANAGER family of c05 (flag -mgr): one KeystoreManager holding 2-3 wallets, random
// sequences of
//
//	use   UseWallet / UseKeystoreForWallet (also of an unknown id)
//	sh    WalletManager.SignHash with a public key of ANY managed wallet, in use or not (the keystore is
//	      resolved from the key over all managed keystores), or of no wallet at all
//	raw   WalletManager.SignRawTx over coins of the wallet in use and of the others, with UseWallet
//	      requests of "another caller" scheduled INSIDE the call: the wallet database is wrapped
//	      (mwdb.DB is an interface) and the k-th read transaction the signing goroutine begins — the
//	      look-ups signWitnessTx makes for every input — first runs the UseWallet; SignRawTx holds no
//	      lock at that point, so this is exactly an interleaving of a concurrent request, made
//	      deterministic. The position is recorded as "before input j" (j = inputs already signed).
//	cl    KeystoreManager.ClearPrivKey called directly (the step signWitnessTx defers)
//	ex mn ck   ExportWallet / GetMnemonic / RemoveWallet's passphrase gate for ANY wallet
//	restart    a fresh manager over the same database (nothing in use)
//
// with right passphrases, the other wallets' passphrases (some wallets share one) and every mutation
// class of wrong ones. After EVERY step the selection and the unlock state of EVERY managed keystore
// (AddrManager.VerifUnlockState) are observed.
//
// Lines (TAB separated):
//
//	MW  hist  wallets                       wallets = idx:pass(hex):b.i;b.i,...  fresh keystores, nothing in use
//	MO  hist  kind  wallet  pass(hex)  arg  impl  obs  passkind
//	    arg: sh  w.b.i:hashlen   raw  s+s@w.b.i;...#s+s  (selection changes before each input / before the clearing)
//	    obs: selection|state of keystore 1|state of keystore 2|...   state = unlocked,masterKeyZero,hashedZero,branchPriv,cachedPrivKeys,saltZero
package main

import (
	"bufio"
	"bytes"
	"fmt"
	"runtime"
	"sort"
	"strconv"
	"strings"
	"sync"

	"github.com/btcsuite/btcd/btcec"
	"github.com/massnetorg/mass-core/txscript"
	"github.com/massnetorg/mass-core/wire"
	"massnet.org/mass-wallet/masswallet"
	mwdb "massnet.org/mass-wallet/masswallet/db"
	"massnet.org/mass-wallet/masswallet/keystore"
	"verifharness/internal/hist"
	"verifharness/internal/rng"
	"verifharness/internal/sim"
)

func goid() uint64 {
	var buf [64]byte
	b := buf[:runtime.Stack(buf[:], false)]
	b = bytes.TrimPrefix(b, []byte("goroutine "))
	i := bytes.IndexByte(b, ' ')
	if i < 0 {
		return 0
	}
	n, _ := strconv.ParseUint(string(b[:i]), 10, 64)
	return n
}

// hookDB delegates everything to the real driver; while a plan is armed, the read transactions the
// marked goroutine begins are numbered and the planned action runs BEFORE the numbered one begins.
type hookDB struct {
	mwdb.DB
	mu    sync.Mutex
	gid   uint64
	plan  map[int]func()
	reads int
	busy  bool
}

func (d *hookDB) BeginReadTx() (mwdb.ReadTransaction, error) {
	var act func()
	d.mu.Lock()
	if d.plan != nil && !d.busy && goid() == d.gid {
		act = d.plan[d.reads]
		d.reads++
		if act != nil {
			d.busy = true
		}
	}
	d.mu.Unlock()
	if act != nil {
		act()
		d.mu.Lock()
		d.busy = false
		d.mu.Unlock()
	}
	return d.DB.BeginReadTx()
}

func (d *hookDB) arm(plan map[int]func()) {
	d.mu.Lock()
	d.gid, d.plan, d.reads = goid(), plan, 0
	d.mu.Unlock()
}

func (d *hookDB) disarm() int {
	d.mu.Lock()
	defer d.mu.Unlock()
	d.plan = nil
	return d.reads
}

type mcoin struct {
	op  wire.OutPoint
	val int64
}

type maddr struct {
	w     *mwal
	b, i  uint32
	pub   *btcec.PublicKey
	sh    []byte
	coins []mcoin
}

func (a *maddr) name() string { return fmt.Sprintf("%d.%d.%d", a.w.idx, a.b, a.i) }

type mwal struct {
	idx   int
	id    string
	pass  string
	addrs []*maddr
}

type msess struct {
	h    *hist.H
	r    *rng.R
	n    int
	out  *bufio.Writer
	ws   []*mwal
	hdb  *hookDB
	pub  string
	gone bool
}

func (s *msess) wrap(db mwdb.DB) mwdb.DB {
	s.hdb = &hookDB{DB: db}
	return s.hdb
}

func (s *msess) ks() *keystore.KeystoreManager {
	_, _, _, ks, _ := s.h.W.WM.VerifStores()
	return ks
}

func b01(x bool) int {
	if x {
		return 1
	}
	return 0
}

// obs: the selection and the unlock state of every managed keystore
func (s *msess) obs() string {
	ks := s.ks()
	cur := "-"
	if am := ks.CurrentKeystore(); am != nil {
		cur = "?"
		for _, w := range s.ws {
			if w.id == am.Name() {
				cur = fmt.Sprint(w.idx)
			}
		}
	}
	parts := []string{cur}
	for _, w := range s.ws {
		am, err := ks.GetAddrManagerByAccountID(w.id)
		if err != nil {
			parts = append(parts, "no-manager")
			continue
		}
		u := am.VerifUnlockState()
		parts = append(parts, fmt.Sprintf("%d,%d,%d,%d,%d,%d", b01(u.Unlocked), b01(u.MasterKeyZero), b01(u.HashedZero), b01(u.BranchPriv), u.CachedPrivKeys, b01(am.VerifSaltZero())))
	}
	return strings.Join(parts, "|")
}

func (s *msess) current() *mwal {
	if am := s.ks().CurrentKeystore(); am != nil {
		for _, w := range s.ws {
			if w.id == am.Name() {
				return w
			}
		}
	}
	return nil
}

func merrClass(err error) string {
	switch err {
	case masswallet.ErrNoWalletInUse:
		return "err:no-wallet-in-use"
	case masswallet.ErrUTXONotExists:
		return "err:utxo-not-exists"
	case keystore.ErrUnexpectedPubKeyToSign:
		return "err:not-mine"
	}
	return errClass(err)
}

func (s *msess) emit(kind string, w *mwal, pass, arg string, err error, panicked bool, pk string) {
	impl := merrClass(err)
	if panicked {
		impl = "panic"
	}
	ws := "-"
	if w != nil {
		ws = fmt.Sprint(w.idx)
	}
	fmt.Fprintf(s.out, "MO\t%d\t%s\t%s\t%s\t%s\t%s\t%s\t%s\n", s.n, kind, ws, hx([]byte(pass)), arg, impl, s.obs(), pk)
	stats["mgr_op_"+kind]++
	if pk != "-" {
		stats["mgr_pass_"+strings.ReplaceAll(pk, "-", "_")]++
	}
}

// a candidate passphrase for wallet w: the right one, another wallet's, or a mutation
func (s *msess) candidate(w *mwal) (string, string) {
	r := s.r
	if r.Chance(55) {
		return w.pass, "right"
	}
	if r.Chance(25) {
		o := s.ws[r.Intn(len(s.ws))]
		if o.pass != w.pass {
			return o.pass, "other-wallet"
		}
	}
	p := []byte(w.pass)
	var q, kind string
	switch r.Intn(9) {
	case 0:
		c := append([]byte{}, p...)
		c[r.Intn(len(c))] ^= byte(1 << uint(r.Intn(7)))
		q, kind = string(c), "bit-flip"
	case 1:
		q, kind = string(p[:len(p)-1]), "prefix"
	case 2:
		q, kind = w.pass+string(r.Pick(passChars)), "extended"
	case 3:
		q, kind = "", "empty"
	case 4:
		q, kind = w.pass+"\x00", "nul-suffix"
	case 5:
		q, kind = s.pub, "public-passphrase"
	case 6:
		q, kind = string(r.Bytes(1+r.Intn(40))), "binary"
	case 7:
		q, kind = strings.ToUpper(w.pass), "upper"
		if q == w.pass {
			q = strings.ToLower(w.pass)
		}
	default:
		q, kind = string(p[1:]), "suffix"
	}
	if q == w.pass {
		q, kind = w.pass+"x", "extended"
	}
	return q, kind
}

func (s *msess) header() {
	var ws []string
	for _, w := range s.ws {
		var as []string
		for _, a := range w.addrs {
			as = append(as, fmt.Sprintf("%d.%d", a.b, a.i))
		}
		ws = append(ws, fmt.Sprintf("%d:%s:%s", w.idx, hx([]byte(w.pass)), strings.Join(as, ";")))
	}
	fmt.Fprintf(s.out, "MW\t%d\t%s\t%s\n", s.n, strings.Join(ws, ","), s.obs())
}

// restart: stop the wallet the way the daemon does and open it again on the same database: a fresh
// KeystoreManager, every keystore freshly loaded, nothing in use
func (s *msess) restart() error {
	s.h.W.Stop()
	w, err := sim.OpenWallet(s.h.N, s.h.Dir, s.wrap, true)
	if err != nil {
		s.h.W = nil
		return err
	}
	s.h.W = w
	// the AddrManagers are new objects: reload the public keys
	for _, mw := range s.ws {
		am, err := s.ks().GetAddrManagerByAccountID(mw.id)
		if err != nil {
			return err
		}
		for _, ma := range am.ManagedAddresses() {
			_, b, i := ma.VerifPath()
			for _, a := range mw.addrs {
				if a.b == b && a.i == i {
					a.pub = ma.PubKey()
				}
			}
		}
	}
	s.header()
	stats["mgr_restarts"]++
	return nil
}

func (s *msess) anyAddr(w *mwal) *maddr { return w.addrs[s.r.Intn(len(w.addrs))] }

func (s *msess) opUse() {
	r := s.r
	if r.Chance(10) {
		err, p := guard(func() error { return s.ks().UseKeystoreForWallet("ms1qq000000000000000000000000000000000000") })
		fmt.Fprintf(s.out, "MO\t%d\tuse\t99\t\t\t%s\t%s\t-\n", s.n, func() string {
			if p {
				return "panic"
			}
			return merrClass(err)
		}(), s.obs())
		stats["mgr_op_use_unknown"]++
		return
	}
	w := s.ws[r.Intn(len(s.ws))]
	var err error
	var p bool
	if r.Chance(70) {
		err, p = guard(func() error { _, e := s.h.W.WM.UseWallet(w.id); return e })
	} else {
		err, p = guard(func() error { return s.ks().UseKeystoreForWallet(w.id) })
	}
	s.emit("use", w, "", "", err, p, "-")
}

func (s *msess) opSignHash(w *mwal, viaKS bool) {
	r := s.r
	if w == nil {
		// a public key no managed keystore holds
		k, _ := btcec.NewPrivateKey(btcec.S256())
		h := r.Bytes(32)
		err, p := guard(func() error { _, e := s.h.W.WM.SignHash(k.PubKey(), h, []byte(s.ws[0].pass)); return e })
		s.emit("sh", nil, s.ws[0].pass, "99.0.0:32", err, p, "-")
		return
	}
	a := s.anyAddr(w)
	pass, pk := s.candidate(w)
	hl := 32
	if r.Chance(4) {
		hl = []int{0, 31, 33}[r.Intn(3)]
	}
	h := r.Bytes(hl)
	var err error
	var p bool
	if viaKS {
		err, p = guard(func() error { _, e := s.ks().SignHash(a.pub, h, []byte(pass)); return e })
	} else {
		err, p = guard(func() error { _, e := s.h.W.WM.SignHash(a.pub, h, []byte(pass)); return e })
	}
	s.emit("sh", w, pass, fmt.Sprintf("%s:%d", a.name(), hl), err, p, pk)
	if w != s.current() {
		stats["mgr_sh_not_in_use"]++
	}
}

func (s *msess) opClear() {
	err, p := guard(func() error { s.ks().ClearPrivKey(); return nil })
	s.emit("cl", nil, "", "", err, p, "-")
}

func (s *msess) opSecret(kind string, w *mwal) {
	pass, pk := s.candidate(w)
	var err error
	var p bool
	switch kind {
	case "ex":
		err, p = guard(func() error { _, e := s.h.W.WM.ExportWallet(w.id, pass); return e })
	case "mn":
		err, p = guard(func() error { _, _, e := s.h.W.WM.GetMnemonic(w.id, pass); return e })
	case "ck":
		// RemoveWallet with the right passphrase would remove the wallet: its gate is called instead
		if pk == "right" {
			err, p = guard(func() error { return s.ks().CheckPrivPassphrase(w.id, []byte(pass)) })
		} else {
			err, p = guard(func() error { return s.h.W.WM.RemoveWallet(w.id, pass) })
			if err == nil && !p {
				s.gone = true
			}
		}
	}
	s.emit(kind, w, pass, "", err, p, pk)
}

// SignRawTx over 1-3 coins, with UseWallet requests scheduled inside the call
func (s *msess) opSignRaw() {
	r := s.r
	cur := s.current()
	base := cur
	if base == nil {
		base = s.ws[r.Intn(len(s.ws))]
	}
	nin := 1 + r.Intn(3)
	var ins []*maddr
	var ops []wire.OutPoint
	used := map[wire.OutPoint]bool{}
	foreign := r.Chance(30)
	for t := 0; len(ins) < nin && t < 40; t++ {
		w := base
		if foreign && r.Chance(50) {
			w = s.ws[r.Intn(len(s.ws))]
		}
		a := s.anyAddr(w)
		if len(a.coins) == 0 {
			continue
		}
		c := a.coins[r.Intn(len(a.coins))]
		if used[c.op] {
			continue
		}
		used[c.op] = true
		ins = append(ins, a)
		ops = append(ops, c.op)
	}
	if len(ins) == 0 {
		return
	}
	payee := s.anyAddr(s.ws[r.Intn(len(s.ws))])
	sc, _ := txscript.PayToWitnessScriptHashScript(payee.sh)
	tx := sim.NewTx(ops, nil, []sim.Out{{Script: sc, Value: 1000}}, 0, nil)
	pass, pk := s.candidate(base)
	// the schedule: at most two UseWallet requests, each before one of the read transactions of the call
	type sw struct{ j, w int }
	var fired []sw
	plan := map[int]func(){}
	if len(s.ws) > 1 && r.Chance(55) {
		for k := 1 + r.Intn(2); k > 0; k-- {
			at := r.Intn(2*len(ins) + 1)
			target := s.ws[r.Intn(len(s.ws))]
			if r.Chance(60) && len(ins) > 1 {
				// right before the look-ups of a later input, towards its owner: signing goes on with
				// another keystore (two reads per input: the previous transaction, the outpoint)
				j := 1 + r.Intn(len(ins)-1)
				at, target = 2*j, ins[j].w
			}
			plan[at] = func() {
				j := 0
				for _, in := range tx.TxIn {
					if len(in.Witness) > 0 {
						j++
					}
				}
				if _, e := s.h.W.WM.UseWallet(target.id); e == nil {
					fired = append(fired, sw{j, target.idx})
				}
			}
		}
	}
	s.hdb.arm(plan)
	err, p := guard(func() error { _, e := s.h.W.WM.SignRawTx([]byte(pass), "ALL", tx); return e })
	s.hdb.disarm()
	var parts []string
	for i, a := range ins {
		var l []string
		for _, f := range fired {
			if f.j == i {
				l = append(l, fmt.Sprint(f.w))
			}
		}
		parts = append(parts, strings.Join(l, "+")+"@"+a.name())
	}
	var last []string
	for _, f := range fired {
		if f.j >= len(ins) {
			last = append(last, fmt.Sprint(f.w))
		}
	}
	s.emit("raw", cur, pass, strings.Join(parts, ";")+"#"+strings.Join(last, "+"), err, p, pk)
	if len(fired) > 0 {
		stats["mgr_raw_with_switch"]++
	}
	if foreign {
		stats["mgr_raw_foreign_inputs"]++
	}
}

func runManager(seed uint64, n int, out *bufio.Writer) error {
	r := rng.New(seed*15485863 + uint64(n)*86028121 + 11)
	s := &msess{r: r, n: n, out: out, pub: sim.PubPass}
	h, err := hist.New(r, nil, n, hist.Options{}, s.wrap)
	if err != nil {
		return err
	}
	s.h = h
	defer func() { s.h.Close() }()
	nw := 2 + r.Intn(2)
	for k := 0; k < nw; k++ {
		pass := randPass(r)
		if k > 0 && r.Chance(45) {
			pass = s.ws[0].pass // wallets may share a passphrase
		}
		id, _, _, err := h.W.WM.CreateWallet(pass, "", 128)
		if err != nil {
			return fmt.Errorf("CreateWallet: %v", err)
		}
		w := &mwal{idx: k + 1, id: id, pass: pass}
		s.ws = append(s.ws, w)
		if _, err := h.W.WM.UseWallet(id); err != nil {
			return err
		}
		for j, na := 0, 1+r.Intn(3); j < na; j++ {
			if _, err := h.W.WM.NewAddress(0); err != nil {
				return fmt.Errorf("NewAddress: %v", err)
			}
		}
		am, err := s.ks().GetAddrManagerByAccountID(id)
		if err != nil {
			return err
		}
		for _, ma := range am.ManagedAddresses() {
			_, b, i := ma.VerifPath()
			w.addrs = append(w.addrs, &maddr{w: w, b: b, i: i, pub: ma.PubKey(), sh: ma.ScriptAddress()})
		}
		sort.Slice(w.addrs, func(x, y int) bool {
			if w.addrs[x].b != w.addrs[y].b {
				return w.addrs[x].b < w.addrs[y].b
			}
			return w.addrs[x].i < w.addrs[y].i
		})
	}
	// two blocks whose coinbases pay every address of every wallet
	for k := 0; k < 2; k++ {
		var outs []sim.Out
		var as []*maddr
		for _, w := range s.ws {
			for _, a := range w.addrs {
				sc, err := txscript.PayToWitnessScriptHashScript(a.sh)
				if err != nil {
					return err
				}
				outs = append(outs, sim.Out{Script: sc, Value: int64(1+r.Intn(900)) * 100000})
				as = append(as, a)
			}
		}
		b := h.N.MakeBlock(h.N.Tip(), outs, nil)
		if err := h.Attach(b); err != nil {
			return err
		}
		h.Process(b)
		if h.Stale {
			return fmt.Errorf("the wallet did not accept block %d", b.Height())
		}
		th := b.MsgBlock().Transactions[0].TxHash()
		for j, a := range as {
			a.coins = append(a.coins, mcoin{op: wire.OutPoint{Hash: th, Index: uint32(j)}, val: outs[j].Value})
		}
	}
	if err := s.restart(); err != nil {
		return err
	}
	steps := 28 + r.Intn(18)
	for k := 0; k < steps && !s.gone; k++ {
		w := s.ws[r.Intn(len(s.ws))]
		if s.current() == nil && r.Chance(30) {
			s.opUse()
			continue
		}
		switch x := r.Intn(100); {
		case x < 14:
			s.opUse()
		case x < 32:
			if r.Chance(6) {
				s.opSignHash(nil, false)
			} else {
				s.opSignHash(w, r.Chance(25))
			}
		case x < 62:
			s.opSignRaw()
		case x < 66:
			s.opClear()
		case x < 74:
			// the keystore-level calls of one signed input with the selection changed in between
			s.opSignHash(w, true)
			if !s.gone {
				s.opUse()
				s.opClear()
			}
		case x < 97:
			s.opSecret([]string{"ex", "mn", "ck"}[r.Intn(3)], w)
		default:
			if err := s.restart(); err != nil {
				return err
			}
		}
	}
	stats["mgr_histories"]++
	stats[fmt.Sprintf("mgr_wallets_%d", nw)]++
	return nil
}
