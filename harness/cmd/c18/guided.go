// Coverage-guided fault plans (quick tier).
//
// A fault TARGET is a database call as the wallet code makes it: operation kind (the background work
// an OpWait waits for is named after its request), kind of call, the two innermost wallet functions
// on the stack, the key (names stand for themselves, other keys for their length) and the ordinal
// among equal descriptions inside the operation (1, 2, 3+).  Phase 1 targets are the calls of the
// fault-free twins; phase 2 targets ("2|...") are the calls an operation makes AFTER a first
// injected fault (its repair, reload and retry path), discovered by tracing the phase 1 runs.
//
// The master (this process) keeps one worker process per -j slot alive (one wallet database per
// process), hands the histories out, collects every twin's targets, and then assigns every
// distinct target to `mult` histories that contain it (fewest-candidates first, least-loaded
// history first); each worker turns its share into explicit plans ("v<op>.<j>[+<d>]_...": one
// fault, or one pair of non-adjacent faults, per chosen operation, every other operation
// undisturbed; the NewAddress that follows a faulted operation on the same wallet is never
// faulted itself: it is the observer of stale in-memory key counters) and runs them.  Targets a
// plan aimed at but did not strike are assigned once more to other histories.  Everything is a
// function of VERIF_SEED and the twins: the number of workers does not change the plans.
package main

import (
	"bufio"
	"fmt"
	"hash/fnv"
	"io"
	"os"
	"os/exec"
	"sort"
	"strconv"
	"strings"
	"sync"

	"verifharness/internal/cfsim"
)

// ---------------------------------------------------------------- worker

type wit struct{ op, j, d int }

type hstate struct {
	n      int
	s      *cfsim.Script
	twin   *cfsim.Twin
	maxCalls int
	fops   []int            // faultable operations, in order
	label  map[int]string   // operation -> label
	prevW  map[int]int      // operation -> previous operation on the same wallet (-1: none)
	nextW  map[int]int      // operation -> next operation on the same wallet (-1: none)
	first  map[int]bool     // NewAddress operations that issue a wallet's first address
	single map[string][]wit // phase 1 target -> where it occurs
	second map[string][]wit // phase 2 target -> (operation, first fault, distance) that reach it
}

func hash32(s string) uint32 { h := fnv.New32a(); h.Write([]byte(s)); return h.Sum32() }

// walletOf: the wallet whose keystore an operation works on (0: none in particular).
func walletOf(s *cfsim.Script, i int) int {
	op := &s.Ops[i]
	if op.Kind.Mutating() {
		return op.W
	}
	if op.Kind == cfsim.OpWait {
		for b := i - 1; b >= 0; b-- {
			if k := s.Ops[b].Kind; k == cfsim.OpImport || k == cfsim.OpRemove {
				return s.Ops[b].W
			} else if k == cfsim.OpWait {
				return 0
			}
		}
	}
	return 0
}

func newHState(seed uint64, n int, w *bufio.Writer) *hstate {
	s, twin, maxCalls := genTwin(w, seed, n, true)
	if s == nil {
		return nil
	}
	hs := &hstate{n: n, s: s, twin: twin, maxCalls: maxCalls, label: map[int]string{}, prevW: map[int]int{}, nextW: map[int]int{}, first: map[int]bool{},
		single: map[string][]wit{}, second: map[string][]wit{}}
	last := map[int]int{}
	issued := map[int]int{}
	for i := range s.Ops {
		if !cfsim.Faultable(s.Ops[i].Kind) {
			continue
		}
		hs.fops = append(hs.fops, i)
		hs.label[i] = s.OpLabel(i)
		hs.prevW[i], hs.nextW[i] = -1, -1
		if wn := walletOf(s, i); wn != 0 {
			if p, ok := last[wn]; ok {
				hs.prevW[i] = p
				hs.nextW[p] = i
			}
			last[wn] = i
			if s.Ops[i].Kind == cfsim.OpNewAddr {
				if issued[wn] == 0 && !s.Wallets[wn].Foreign {
					hs.first[i] = true
				}
				issued[wn]++
			}
		}
		if i < len(twin.Info) {
			for c, t := range cfsim.Targets(hs.label[i], twin.Info[i]) {
				hs.single[t] = append(hs.single[t], wit{i, c + 1, 0})
			}
		}
	}
	return hs
}

func (hs *hstate) printTargets(w *bufio.Writer, phase int) {
	m := hs.single
	if phase == 2 {
		m = hs.second
	}
	ks := make([]string, 0, len(m))
	for k := range m {
		ks = append(ks, k)
	}
	sort.Strings(ks)
	for _, k := range ks {
		fmt.Fprintf(w, "T %d %d %s %d\n", hs.n, phase, k, len(m[k]))
	}
	if phase == 1 {
		cnt := map[string]int{}
		for _, i := range hs.fops {
			if hs.twin.Calls[i] > 0 {
				cnt[hs.label[i]]++
			}
		}
		for k, v := range cnt {
			fmt.Fprintf(w, "K %d %s %d\n", hs.n, k, v)
		}
	}
}

// allowed: may operation i get a fault in this plan?  (one fault spec per operation; the NewAddress
// after a faulted operation on the same wallet stays undisturbed)
func (hs *hstate) allowed(p cfsim.Plan, i int) bool {
	if _, used := p[i]; used {
		return false
	}
	if hs.s.Ops[i].Kind == cfsim.OpNewAddr {
		if q := hs.prevW[i]; q >= 0 {
			if _, f := p[q]; f {
				return false
			}
		}
	}
	if q := hs.nextW[i]; q >= 0 && hs.s.Ops[q].Kind == cfsim.OpNewAddr {
		if _, f := p[q]; f {
			return false
		}
	}
	return true
}

// buildPlans turns a list of targets into explicit plans: every target is placed at one of its
// witnesses (rotating through them by target and history, a wallet's first NewAddress last: a stale
// counter cannot show while the true counter is 0), first fit over the plans built so far.
func (hs *hstate) buildPlans(phase int, targets []string, isolated bool) ([]cfsim.Plan, map[string]bool) {
	src := hs.single
	if phase == 2 {
		src = hs.second
	}
	var plans []cfsim.Plan
	aimed := map[string]bool{}
	sort.Strings(targets)
	for _, t := range targets {
		ws := append([]wit{}, src[t]...)
		if len(ws) == 0 {
			continue
		}
		rot := int(hash32(t)+uint32(hs.n)*2654435761) % len(ws)
		if rot < 0 {
			rot = -rot
		}
		ws = append(ws[rot:], ws[:rot]...)
		sort.SliceStable(ws, func(a, b int) bool { return !hs.first[ws[a].op] && hs.first[ws[b].op] })
		placed := false
		start := 0
		if isolated {
			start = len(plans) // a plan of its own: no other fault of the run can get in its way
		}
		for pi := start; pi <= len(plans) && !placed; pi++ {
			if pi == len(plans) {
				plans = append(plans, cfsim.Plan{})
			}
			for _, x := range ws {
				if hs.allowed(plans[pi], x.op) {
					plans[pi][x.op] = cfsim.FaultSpec{J: x.j, D: x.d}
					placed = true
					break
				}
			}
		}
		aimed[t] = placed
	}
	return plans, aimed
}

// runPlan executes one explicit plan and prints its R / V / M / HIT lines.
func (hs *hstate) runPlan(w *bufio.Writer, phase int, p cfsim.Plan, model bool) {
	name := p.String()
	res, err := cfsim.RunFaultPlan(hs.s, p, hs.twin)
	id := fmt.Sprintf("%d:%s", hs.n, name)
	if err != nil {
		fmt.Fprintf(w, "X %d harness-error run %s: %v\n", hs.n, id, err)
		return
	}
	reportAttributed(w, hs.s, hs.twin, hs.n, id, fmt.Sprintf("guided%d", phase), p, res, model)
	for _, e := range res.Events {
		lab := hs.label[e.Op]
		// what was struck
		if len(e.Hits) > 0 && len(e.All) >= e.Before+1 {
			if e.D == 0 || len(e.Hits) == 1 {
				ts := cfsim.Targets(lab, e.All[:e.Before+1])
				fmt.Fprintf(w, "HIT %d 1 %s\n", hs.n, ts[e.Before])
			}
			if e.D > 0 && len(e.Hits) >= 2 && len(e.After) >= e.D {
				ts := cfsim.Targets("2|"+lab, e.After[:e.D])
				fmt.Fprintf(w, "HIT %d 2 %s\n", hs.n, ts[e.D-1])
			}
		}
		// the calls after a first fault: phase 2 targets with the (operation, call, distance) that reaches them
		if e.D == 0 && len(e.After) > 0 {
			after := e.After
			if len(after) > maxDist {
				after = after[:maxDist]
			}
			for d, t := range cfsim.Targets("2|"+lab, after) {
				if l := hs.second[t]; len(l) < 4 {
					dup := false
					for _, x := range l {
						if x.op == e.Op {
							dup = true
						}
					}
					if !dup {
						hs.second[t] = append(l, wit{e.Op, e.J, d + 1})
					}
				}
			}
		}
	}
}

const maxDist = 160

func serve(seed uint64) {
	in := bufio.NewReaderSize(os.Stdin, 1<<22)
	w := bufio.NewWriterSize(os.Stdout, 1<<20)
	hist := map[int]*hstate{}
	for {
		line, err := in.ReadString('\n')
		f := strings.Fields(line)
		if len(f) > 0 {
			switch f[0] {
			case "TWIN":
				n, _ := strconv.Atoi(f[1])
				if hs := newHState(seed, n, w); hs != nil {
					hist[n] = hs
					hs.printTargets(w, 1)
				}
			case "LEGACY":
				n, _ := strconv.Atoi(f[1])
				q, _ := strconv.Atoi(f[2])
				if hs := hist[n]; hs != nil {
					for _, p := range legacyPlans(seed, n, hs.maxCalls, q) {
						runLegacy(w, hs.s, hs.twin, n, p)
					}
				}
			case "PLAN", "PLAN1":
				n, _ := strconv.Atoi(f[1])
				phase, _ := strconv.Atoi(f[2])
				if hs := hist[n]; hs != nil {
					plans, aimed := hs.buildPlans(phase, f[3:], f[0] == "PLAN1")
					for t, ok := range aimed {
						if !ok {
							fmt.Fprintf(w, "X %d harness-error target %s could not be placed\n", n, t)
						}
					}
					for k, p := range plans {
						hs.runPlan(w, phase, p, k%modelEvery == 0)
					}
					if phase == 1 {
						hs.printTargets(w, 2)
					}
				}
			case "QUIT":
				stats()
				w.Flush()
				return
			}
			fmt.Fprintln(w, "#end")
			w.Flush()
		}
		if err != nil {
			return
		}
	}
}

// the extracted Ledger model replays the twin and every modelEvery-th guided run of a history
var modelEvery = 2

// ---------------------------------------------------------------- master

type workerProc struct {
	cmd *exec.Cmd
	in  io.WriteCloser
	out *bufio.Reader
	err *strings.Builder
	k   int
}

type master struct {
	ws     []*workerProc
	owner  map[int]int
	mu     sync.Mutex
	out    map[int][]string        // history -> output lines in order
	cand   [3]map[string][]int     // phase -> target -> histories that have it
	hits   [3]map[string]map[int]bool
	caps   map[int]map[string]int  // history -> label -> operations with calls
	tried  [3]map[string]map[int]bool
	dead   []string
}

func (m *master) ask(wp *workerProc, cmdline string, h int) bool {
	if _, err := io.WriteString(wp.in, cmdline+"\n"); err != nil {
		return false
	}
	for {
		line, err := wp.out.ReadString('\n')
		if strings.HasPrefix(line, "#end") {
			return true
		}
		if line != "" {
			m.take(strings.TrimRight(line, "\n"), h)
		}
		if err != nil {
			return false
		}
	}
}

// take files one output line of a worker: T / K / HIT are for the planner, everything else is
// output of history h.
func (m *master) take(line string, h int) {
	f := strings.SplitN(line, " ", 5)
	m.mu.Lock()
	defer m.mu.Unlock()
	switch f[0] {
	case "T":
		ph, _ := strconv.Atoi(f[2])
		l := m.cand[ph][f[3]]
		for _, x := range l {
			if x == h {
				return
			}
		}
		m.cand[ph][f[3]] = append(l, h)
	case "K":
		n, _ := strconv.Atoi(f[3])
		if m.caps[h] == nil {
			m.caps[h] = map[string]int{}
		}
		m.caps[h][f[2]] = n
	case "HIT":
		ph, _ := strconv.Atoi(f[2])
		if m.hits[ph][f[3]] == nil {
			m.hits[ph][f[3]] = map[int]bool{}
		}
		m.hits[ph][f[3]][h] = true
	default:
		m.out[h] = append(m.out[h], line)
	}
}

func labelOf(target string) string {
	t := strings.TrimPrefix(target, "2|")
	if i := strings.Index(t, "|"); i >= 0 {
		return t[:i]
	}
	return t
}

// assign distributes the targets of a phase that still need hits over the histories that contain
// them: need(t) histories per target; returns history -> targets and the estimated number of runs.
func (m *master) assign(phase, mult int, only map[string]bool) (map[int][]string, int) {
	type tg struct {
		name string
		hs   []int
	}
	var l []tg
	for t, hs := range m.cand[phase] {
		if only != nil && !only[t] {
			continue
		}
		var free []int
		for _, h := range hs {
			if !m.tried[phase][t][h] {
				free = append(free, h)
			}
		}
		if len(free) == 0 && only != nil {
			// missed in every history that has it: once more, in a plan of its own
			free = append(free, hs...)
		}
		sort.Ints(free)
		if len(free) > 0 {
			l = append(l, tg{t, free})
		}
	}
	sort.Slice(l, func(a, b int) bool {
		if len(l[a].hs) != len(l[b].hs) {
			return len(l[a].hs) < len(l[b].hs)
		}
		return l[a].name < l[b].name
	})
	load := map[int]map[string]int{}
	res := map[int][]string{}
	cost := func(h int, lab string) float64 {
		c := m.caps[h][lab]
		if lab == "newaddr" {
			c = (c + 1) / 2
		}
		if c < 1 {
			c = 1
		}
		return float64(load[h][lab]+1) / float64(c)
	}
	for _, t := range l {
		lab := labelOf(t.name)
		need := mult - len(m.hits[phase][t.name])
		hs := append([]int{}, t.hs...)
		rot := int(hash32(t.name) % uint32(len(hs)))
		hs = append(hs[rot:], hs[:rot]...)
		for ; need > 0 && len(hs) > 0; need-- {
			best := 0
			for x := 1; x < len(hs); x++ {
				if cost(hs[x], lab) < cost(hs[best], lab) {
					best = x
				}
			}
			h := hs[best]
			hs = append(hs[:best], hs[best+1:]...)
			if load[h] == nil {
				load[h] = map[string]int{}
			}
			load[h][lab]++
			res[h] = append(res[h], t.name)
			if m.tried[phase][t.name] == nil {
				m.tried[phase][t.name] = map[int]bool{}
			}
			m.tried[phase][t.name][h] = true
		}
	}
	runs := 0
	for h, ll := range load {
		mx := 0
		for lab := range ll {
			load[h][lab]--
			if c := int(cost(h, lab) + 0.999); c > mx {
				mx = c
			}
			load[h][lab]++
		}
		runs += mx
	}
	return res, runs
}

// untry forgets an assignment made only to estimate its cost.
func (m *master) untry(phase int, asg map[int][]string) {
	for h, ts := range asg {
		for _, t := range ts {
			delete(m.tried[phase][t], h)
		}
	}
}

func (m *master) perWorker(f func(wp *workerProc)) {
	var wg sync.WaitGroup
	for _, wp := range m.ws {
		wg.Add(1)
		go func(wp *workerProc) { defer wg.Done(); f(wp) }(wp)
	}
	wg.Wait()
}

// runPhase assigns and runs the plans of a phase (up to three rounds: what was aimed at and missed —
// background work does not make its calls at the same index in every run — is assigned again).
func (m *master) runPhase(phase, mult, budget int) int {
	total := 0
	for round := 0; round < 3; round++ {
		var only map[string]bool
		if round > 0 {
			only = map[string]bool{}
			for t := range m.cand[phase] {
				if len(m.hits[phase][t]) == 0 {
					only[t] = true
				}
			}
			if len(only) == 0 {
				break
			}
		}
		mu := mult
		if round > 0 {
			mu = 1
		}
		asg, runs := m.assign(phase, mu, only)
		for mu > 1 && total+runs > budget {
			m.untry(phase, asg)
			mu--
			asg, runs = m.assign(phase, mu, only)
		}
		fmt.Fprintf(os.Stderr, "guided: phase %d round %d: %d targets known, multiplicity %d, about %d runs\n", phase, round, len(m.cand[phase]), mu, runs)
		total += runs
		m.perWorker(func(wp *workerProc) {
			var mine []int
			for h, k := range m.owner {
				if k == wp.k && len(asg[h]) > 0 {
					mine = append(mine, h)
				}
			}
			sort.Ints(mine)
			for _, h := range mine {
				verb := "PLAN"
				if round > 0 {
					verb = "PLAN1"
				}
				if !m.ask(wp, fmt.Sprintf("%s %d %d %s", verb, h, phase, strings.Join(asg[h], " ")), h) {
					m.died(wp)
					return
				}
			}
		})
	}
	return total
}

func (m *master) died(wp *workerProc) {
	m.mu.Lock()
	m.dead = append(m.dead, fmt.Sprintf("worker %d died: %s", wp.k, tail(wp.err.String(), 2000)))
	m.mu.Unlock()
}

func tail(s string, n int) string {
	if len(s) > n {
		return s[len(s)-n:]
	}
	return s
}

// runMaster: the guided mode.  budget = quota runs per history (legacy plans included).
func runMaster(count, first, workers int, outPath string, quota, mult, mult2, legacy int) int {
	if workers > count {
		workers = count
	}
	if workers < 1 {
		workers = 1
	}
	self, err := os.Executable()
	if err != nil {
		fmt.Fprintln(os.Stderr, err)
		return 2
	}
	m := &master{owner: map[int]int{}, out: map[int][]string{}, caps: map[int]map[string]int{}}
	for ph := 1; ph <= 2; ph++ {
		m.cand[ph], m.hits[ph], m.tried[ph] = map[string][]int{}, map[string]map[int]bool{}, map[string]map[int]bool{}
	}
	for k := 0; k < workers; k++ {
		cmd := exec.Command(self, "-serve")
		in, _ := cmd.StdinPipe()
		out, _ := cmd.StdoutPipe()
		eb := &strings.Builder{}
		cmd.Stderr = eb
		if err := cmd.Start(); err != nil {
			fmt.Fprintln(os.Stderr, err)
			return 2
		}
		m.ws = append(m.ws, &workerProc{cmd: cmd, in: in, out: bufio.NewReaderSize(out, 1<<20), err: eb, k: k})
	}
	// twins (and the sampled index-rule plans), histories handed out as workers become free
	jobs := make(chan int, count)
	for i := 0; i < count; i++ {
		jobs <- first + i
	}
	close(jobs)
	m.perWorker(func(wp *workerProc) {
		for h := range jobs {
			m.mu.Lock()
			m.owner[h] = wp.k
			m.mu.Unlock()
			if !m.ask(wp, fmt.Sprintf("TWIN %d", h), h) || !m.ask(wp, fmt.Sprintf("LEGACY %d %d", h, legacy), h) {
				m.died(wp)
				return
			}
		}
	})
	budget := (quota - legacy) * count
	if budget < count {
		budget = count
	}
	used := m.runPhase(1, mult, budget*2/5)
	used += m.runPhase(2, mult2, budget-used)
	m.perWorker(func(wp *workerProc) {
		io.WriteString(wp.in, "QUIT\n")
		wp.in.Close()
		io.Copy(io.Discard, wp.out)
		wp.cmd.Wait()
	})

	f := os.Stdout
	if outPath != "" {
		if f, err = os.Create(outPath); err != nil {
			fmt.Fprintln(os.Stderr, err)
			return 2
		}
		defer f.Close()
	}
	bw := bufio.NewWriterSize(f, 1<<20)
	defer bw.Flush()
	var hs []int
	for h := range m.out {
		hs = append(hs, h)
	}
	sort.Ints(hs)
	for _, h := range hs {
		for _, l := range m.out[h] {
			bw.WriteString(l)
			bw.WriteByte('\n')
		}
	}
	for _, d := range m.dead {
		fmt.Fprintf(bw, "X -1 %s\n", strings.Replace(d, "\n", " | ", -1))
	}
	// coverage of the fault targets
	sum := map[string]int{}
	var order []string
	add := func(k string, v int) {
		if _, ok := sum[k]; !ok {
			order = append(order, k)
		}
		sum[k] += v
	}
	for _, wp := range m.ws {
		for _, l := range strings.Split(wp.err.String(), "\n") {
			if !strings.HasPrefix(l, "STATS ") {
				if strings.TrimSpace(l) != "" && !strings.Contains(l, "GOCOVERDIR") {
					fmt.Fprintln(os.Stderr, l)
				}
				continue
			}
			for _, kv := range strings.Fields(l)[1:] {
				if i := strings.Index(kv, "="); i > 0 {
					if v, err := strconv.Atoi(kv[i+1:]); err == nil {
						add(kv[:i], v)
					}
				}
			}
		}
	}
	for ph := 1; ph <= 2; ph++ {
		var ts []string
		for t := range m.cand[ph] {
			ts = append(ts, t)
		}
		sort.Strings(ts)
		per := map[string][2]int{}
		hit := 0
		for _, t := range ts {
			fmt.Fprintf(bw, "G %d %s seen=%d faulted=%d\n", ph, t, len(m.cand[ph][t]), len(m.hits[ph][t]))
			c := per[labelOf(t)]
			c[0]++
			if len(m.hits[ph][t]) > 0 {
				c[1]++
				hit++
			}
			per[labelOf(t)] = c
		}
		add(fmt.Sprintf("targets%d_seen", ph), len(ts))
		add(fmt.Sprintf("targets%d_faulted", ph), hit)
		var ls []string
		for l := range per {
			ls = append(ls, l)
		}
		sort.Strings(ls)
		for _, l := range ls {
			add(fmt.Sprintf("t%d_%s_seen", ph, strings.Replace(l, "-", "_", -1)), per[l][0])
			add(fmt.Sprintf("t%d_%s_faulted", ph, strings.Replace(l, "-", "_", -1)), per[l][1])
		}
	}
	add("guided_runs_planned", used)
	var parts []string
	for _, k := range order {
		parts = append(parts, fmt.Sprintf("%s=%d", k, sum[k]))
	}
	fmt.Fprintln(os.Stderr, "STATS "+strings.Join(parts, " "))
	if len(m.dead) > 0 {
		for _, d := range m.dead {
			fmt.Fprintln(os.Stderr, d)
		}
		return 2
	}
	return 0
}

// reportAttributed: a divergence noticed late (at a later faulted operation, or at the end of the
// run) is traced to its cause before it is reported — the plan is reduced to one faulted operation
// at a time and re-run with the state compared after every operation; every reduced plan that
// still diverges is reported as a run of its own (its key names the operation that first differs
// and the fault before it), and the run that noticed it is reported under the same key.
func reportAttributed(w *bufio.Writer, s *cfsim.Script, twin *cfsim.Twin, n int, id, planName string, p cfsim.Plan, res *cfsim.FaultResult, model bool) {
	late := res.Viol != nil && (len(p) > 1 || hasPair(p)) && !strings.HasPrefix(res.Viol.Key, "process-exits") && !strings.HasPrefix(res.Viol.Key, "address-index-differs-after-fault")
	type red struct {
		id  string
		res *cfsim.FaultResult
	}
	var reds []red
	if late {
		var ops []int
		for i := range p {
			ops = append(ops, i)
		}
		sort.Ints(ops)
		for _, i := range ops {
			single := cfsim.Plan{i: p[i]}
			r2, err := cfsim.RunFaultPlanTracked(s, single, twin)
			if err != nil || r2.Viol == nil {
				continue
			}
			// a pair of faults: is one of the two enough?  (the first alone; the second alone, at the
			// place of the fault-free execution where the operation makes the same call)
			if p[i].D > 0 && len(r2.Events) > 0 && len(r2.Events[0].Hits) >= 2 && i < len(twin.Info) {
				cands := []int{p[i].J}
				want := r2.Events[0].Hits[1].String()
				for c, ci := range twin.Info[i] {
					if ci.String() == want {
						cands = append(cands, c+1)
						break
					}
				}
				for _, j := range cands {
					one := cfsim.Plan{i: cfsim.FaultSpec{J: j}}
					if r3, err := cfsim.RunFaultPlanTracked(s, one, twin); err == nil && r3.Viol != nil {
						single, r2 = one, r3
						break
					}
				}
			}
			reds = append(reds, red{fmt.Sprintf("%d:%s", n, single), r2})
		}
		if len(reds) > 0 {
			res.Viol.What = "[noticed as " + res.Viol.Key + "; cause: plan " + reds[0].id + "] " + res.Viol.What
			res.Viol.Key = reds[0].res.Viol.Key
		}
	}
	report(w, n, id, planName, 0, res, model)
	for _, r := range reds {
		report(w, n, r.id, "attributed", 0, r.res, false)
	}
}

func hasPair(p cfsim.Plan) bool {
	for _, sp := range p {
		if sp.D > 0 {
			return true
		}
	}
	return false
}
