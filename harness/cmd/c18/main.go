// c18: storage-fault enumeration on the real wallet.
// For every generated history (script, internal/cfsim) one undisturbed replay (the twin) counts
// the numbered database calls of every operation; then the script is replayed with the wrapper
// (internal/dbwrap) failing one chosen call of every operation: the operation must report the
// failure (or recover), nothing observable may change, the repeated operation must succeed with
// the twin's result (same address, same wallet) and the state must equal the twin's.
// Output:
//   S <hist> ... statistics;  C <opkind> <callkind> n  (calls seen in the twin, per kind)
//   V <hist> <run> <key> <text>   a failed operation left a trace (the run went on)
//   R <hist> <run> plan=.. repeat=0|1 events=n failed=n recovered=n background=n kinds=.. ok | VIOL <key> <text>
//   M <line>  history lines of the twin and of every faulted replay for the extracted Ledger model
//   X <hist> harness-error ...
package main

import (
	"bufio"
	"flag"
	"fmt"
	"os"
	"sort"
	"strconv"
	"strings"

	"verifharness/internal/cfsim"
	"verifharness/internal/hist"
	"verifharness/internal/rng"
	"verifharness/internal/sim"
)

var (
	nHist, nRuns, nEvents, nViol int
	byOutcome                    = map[string]int{}
	byKind                       = map[string]int{}
	byOp                         = map[string]int{}
)

type plan struct {
	name string // "j<k>" fixed index, "last<d>" d-th call from the end, "frac<p>" p percent into the operation
	rep  bool
}

func picker(name string, twin *cfsim.Twin) func(int) int {
	switch {
	case strings.HasPrefix(name, "j"):
		k, _ := strconv.Atoi(name[1:])
		return func(int) int { return k }
	case strings.HasPrefix(name, "last"):
		d, _ := strconv.Atoi(name[4:])
		return func(i int) int { return twin.Calls[i] - d }
	case strings.HasPrefix(name, "frac"):
		p, _ := strconv.Atoi(name[4:])
		return func(i int) int { return 1 + twin.Calls[i]*p/100 }
	}
	return func(int) int { return 0 }
}

func emitModel(w *bufio.Writer, id string, lines []string) {
	for i, l := range lines {
		if i == 0 && strings.HasPrefix(l, "H ") {
			l = "H " + id
		}
		w.WriteString("M ")
		w.WriteString(l)
		w.WriteByte('\n')
	}
}

func one(w *bufio.Writer, seed uint64, n int, all bool, quota int, only string) {
	opt := cfsim.GenOptions{Hist: hist.Options{Games: true, Lag: true, MaxReorg: 3}, Import: true, Remove: true, MinSteps: 6, MaxSteps: 20}
	s, err := cfsim.Generate(seed, n, opt)
	if err != nil {
		fmt.Fprintf(w, "X %d harness-error generate: %v\n", n, err)
		return
	}
	twin, err := cfsim.RunTwin(s, true, true)
	if err != nil {
		fmt.Fprintf(w, "X %d harness-error %v\n", n, err)
		return
	}
	nHist++
	maxCalls, total := 0, 0
	seen := map[string]int{}
	for i, op := range s.Ops {
		if !(op.Kind.Mutating() || op.Kind == cfsim.OpAnnounce || op.Kind == cfsim.OpWait) {
			continue
		}
		total += twin.Calls[i]
		if op.Kind != cfsim.OpWait && twin.Calls[i] > maxCalls {
			maxCalls = twin.Calls[i]
		}
		for _, k := range twin.Kinds[i] {
			seen[op.Kind.String()+" "+k.String()]++
		}
	}
	foreign := 0
	for _, ws := range s.Wallets {
		if ws.Foreign {
			foreign = ws.Num
		}
	}
	fmt.Fprintf(w, "S %d ops=%d commits=%d calls=%d maxcalls=%d blocks=%d reorgs=%d creates=%d newaddr=%d imports=%d removes=%d foreign=%d\n",
		n, len(s.Ops), twin.Commits, total, maxCalls, s.Stats.Blocks, s.Stats.Reorgs, s.Stats.Creates, s.Stats.NewAddr, s.Stats.Imports, s.Stats.Removes, foreign)
	var ks []string
	for k := range seen {
		ks = append(ks, k)
	}
	sort.Strings(ks)
	for _, k := range ks {
		fmt.Fprintf(w, "C %s %d\n", k, seen[k])
	}
	emitModel(w, fmt.Sprintf("%d:twin", n), twin.Lines)

	r := rng.New(seed*911 + uint64(n)*17 + 3)
	var plans []plan
	if only != "" {
		f := strings.Split(only, "/")
		plans = append(plans, plan{f[0], len(f) > 1 && f[1] == "r"})
	} else if all {
		for k := 1; k <= maxCalls; k++ {
			plans = append(plans, plan{fmt.Sprintf("j%d", k), k%3 == 0})
		}
		for d := 0; d < 6; d++ {
			plans = append(plans, plan{fmt.Sprintf("last%d", d), d%2 == 1})
		}
	} else {
		// the last calls of every operation (commit, the puts before it), the first ones (begin,
		// first reads), and random indexes / fractions in between
		cand := []plan{{"last0", false}, {"last0", true}, {"last1", false}, {"last2", r.Bool()}, {"last3", r.Bool()}, {"j1", false}, {"j2", r.Bool()}, {"j3", r.Bool()}}
		for len(cand) < quota+6 {
			if r.Bool() {
				cand = append(cand, plan{fmt.Sprintf("j%d", 4+r.Intn(maxCalls)), r.Chance(30)})
			} else {
				cand = append(cand, plan{fmt.Sprintf("frac%d", 5+r.Intn(90)), r.Chance(30)})
			}
		}
		// keep the two commit plans, sample the rest
		plans = append(plans, cand[0], cand[1])
		rest := cand[2:]
		for len(plans) < quota && len(rest) > 0 {
			k := r.Intn(len(rest))
			plans = append(plans, rest[k])
			rest = append(rest[:k], rest[k+1:]...)
		}
	}
	for _, p := range plans {
		res, err := cfsim.RunFault(s, picker(p.name, twin), p.rep, twin)
		id := fmt.Sprintf("%d:%s", n, p.name)
		if p.rep {
			id += "/r"
		}
		if err != nil {
			fmt.Fprintf(w, "X %d harness-error run %s: %v\n", n, id, err)
			continue
		}
		nRuns++
		oc := map[string]int{}
		kinds := map[string]int{}
		for _, e := range res.Events {
			oc[e.Outcome]++
			byOutcome[e.Outcome]++
			kinds[e.CallKind.String()]++
			byKind[e.CallKind.String()]++
			byOp[e.OpKind.String()]++
			nEvents++
		}
		var kl []string
		for k, v := range kinds {
			kl = append(kl, fmt.Sprintf("%s:%d", k, v))
		}
		sort.Strings(kl)
		for _, t := range res.Traces {
			nViol++
			fmt.Fprintf(w, "V %d %s %s %s\n", n, id, t.Key, strings.Replace(t.What, "\n", " ", -1))
		}
		verdict := "ok"
		if res.Viol != nil {
			nViol++
			verdict = "VIOL " + res.Viol.Key + " " + strings.Replace(res.Viol.What, "\n", " ", -1)
		}
		rep := 0
		if p.rep {
			rep = 1
		}
		fmt.Fprintf(w, "R %d %s plan=%s repeat=%d events=%d failed=%d recovered=%d background=%d kinds=%s %s\n", n, id, p.name, rep, len(res.Events),
			oc["failed"]+oc["failed-then-ok-under-fault"], oc["recovered"], oc["background"], strings.Join(kl, ","), verdict)
		if res.Viol == nil {
			emitModel(w, id, res.Lines)
		}
	}
}

func main() {
	count := flag.Int("n", 40, "number of histories")
	outPath := flag.String("out", "", "output file")
	workers := flag.Int("j", 12, "parallel worker processes")
	first := flag.Int("first", 0, "index of the first history")
	worker := flag.Bool("worker", false, "internal: run sequentially and print to stdout")
	all := flag.Bool("all", false, "every call index of every operation")
	quota := flag.Int("quota", 8, "fault plans per history when sampling")
	only := flag.String("only", "", "replay one faulted run: <plan>[/r]")
	flag.Parse()
	if !*worker {
		if err := hist.ParallelSelf(*count, *first, *workers, *outPath, os.Args[1:]); err != nil {
			fmt.Fprintln(os.Stderr, err)
			os.Exit(2)
		}
		return
	}
	sim.Init(sim.Params{CoinbaseMaturity: 4, MinFrozenPeriod: 2, GapLimit: 20})
	seed := rng.Seed()
	w := bufio.NewWriter(os.Stdout)
	for i := 0; i < *count; i++ {
		one(w, seed, *first+i, *all, *quota, *only)
		w.Flush()
	}
	var parts []string
	for _, m := range []struct {
		p string
		m map[string]int
	}{{"outcome_", byOutcome}, {"call_", byKind}, {"op_", byOp}} {
		var ks []string
		for k := range m.m {
			ks = append(ks, k)
		}
		sort.Strings(ks)
		for _, k := range ks {
			parts = append(parts, fmt.Sprintf("%s%s=%d", m.p, strings.Replace(k, "-", "_", -1), m.m[k]))
		}
	}
	fmt.Fprintf(os.Stderr, "STATS histories=%d faulted_runs=%d faults_injected=%d divergences=%d %s\n", nHist, nRuns, nEvents, nViol, strings.Join(parts, " "))
}
