// c18: storage-fault enumeration on the real wallet.
// For every generated history (script, internal/cfsim) one undisturbed replay (the twin) counts
// the numbered database calls of every operation; then the script is replayed with the wrapper
// (internal/dbwrap) failing one chosen call of every operation: the operation must report the
// failure (or recover), nothing observable may change, the repeated operation must succeed with
// the twin's result (same address, same wallet) and the state must equal the twin's.
// Output:
//   S <hist> ... statistics;  C <opkind> <callkind> n  (calls seen in the twin, per kind)
//   V <hist> <run> <key> <text>   a failed operation left a trace (the run went on)
//   R <hist> <run> plan=.. repeat=0|1 events=n failed=n recovered=n background=n kinds=.. ok | VIOL <key> <text>
//   M <line>  history lines of the twin and of every faulted replay for the extracted Ledger model
//   X <hist> harness-error ...
//   G <phase> <target> seen=<histories> faulted=<histories>   fault-target coverage (guided mode, see guided.go)
// Plans: "j<k>" call k of every operation, "last<d>", "frac<p>" (one failing call; "/r": repeated),
// "j<k>+<d>" call k and the d-th call after it (two non-adjacent faults inside one operation),
// "v<op>.<j>[+<d>]_..." explicit faults per operation (what the guided mode builds).
package main

import (
	"bufio"
	"flag"
	"fmt"
	"os"
	"sort"
	"strconv"
	"strings"

	"verifharness/internal/cfsim"
	"verifharness/internal/hist"
	"verifharness/internal/rng"
	"verifharness/internal/sim"
)

var (
	nHist, nRuns, nEvents, nViol, nDouble int
	byOutcome                    = map[string]int{}
	byKind                       = map[string]int{}
	byOp                         = map[string]int{}
)

type plan struct {
	name string // "j<k>" fixed index, "last<d>" d-th call from the end, "frac<p>" p percent into the operation
	rep  bool
}

func picker(name string, twin *cfsim.Twin) func(int) int {
	switch {
	case strings.HasPrefix(name, "j"):
		k, _ := strconv.Atoi(name[1:])
		return func(int) int { return k }
	case strings.HasPrefix(name, "last"):
		d, _ := strconv.Atoi(name[4:])
		return func(i int) int { return twin.Calls[i] - d }
	case strings.HasPrefix(name, "frac"):
		p, _ := strconv.Atoi(name[4:])
		return func(i int) int { return 1 + twin.Calls[i]*p/100 }
	}
	return func(int) int { return 0 }
}

func emitModel(w *bufio.Writer, id string, lines []string) {
	for i, l := range lines {
		if i == 0 && strings.HasPrefix(l, "H ") {
			l = "H " + id
		}
		w.WriteString("M ")
		w.WriteString(l)
		w.WriteByte('\n')
	}
}

var genOpt = cfsim.GenOptions{Hist: hist.Options{Games: true, Lag: true, MaxReorg: 3}, Import: true, Remove: true, MinSteps: 6, MaxSteps: 20, TailNewAddr: true}

// genTwin generates history n, runs its twin and prints the S / C / M lines.
func genTwin(w *bufio.Writer, seed uint64, n int, info bool) (*cfsim.Script, *cfsim.Twin, int) {
	s, err := cfsim.Generate(seed, n, genOpt)
	if err != nil {
		fmt.Fprintf(w, "X %d harness-error generate: %v\n", n, err)
		return nil, nil, 0
	}
	var twin *cfsim.Twin
	if info {
		twin, err = cfsim.RunTwinInfo(s)
	} else {
		twin, err = cfsim.RunTwin(s, true, true)
	}
	if err != nil {
		fmt.Fprintf(w, "X %d harness-error %v\n", n, err)
		return nil, nil, 0
	}
	nHist++
	maxCalls, total := 0, 0
	seen := map[string]int{}
	observed := 0 // NewAddress calls that follow an import / another operation on their wallet
	lastW := map[int]bool{}
	for i, op := range s.Ops {
		if !cfsim.Faultable(op.Kind) {
			continue
		}
		total += twin.Calls[i]
		if op.Kind != cfsim.OpWait && twin.Calls[i] > maxCalls {
			maxCalls = twin.Calls[i]
		}
		for _, k := range twin.Kinds[i] {
			seen[op.Kind.String()+" "+k.String()]++
		}
		if op.Kind == cfsim.OpNewAddr && lastW[op.W] {
			observed++
		}
		if op.Kind.Mutating() {
			lastW[op.W] = true
		}
	}
	foreign, afterImport := 0, 0
	for _, ws := range s.Wallets {
		if ws.Foreign {
			foreign = ws.Num
		}
	}
	imported := false
	for _, op := range s.Ops {
		if op.Kind == cfsim.OpImport {
			imported = true
		}
		if imported && op.Kind == cfsim.OpNewAddr && op.W == foreign {
			afterImport++
		}
	}
	fmt.Fprintf(w, "S %d ops=%d commits=%d calls=%d maxcalls=%d blocks=%d reorgs=%d creates=%d newaddr=%d imports=%d removes=%d foreign=%d newaddr_after_import=%d newaddr_after_op_on_wallet=%d\n",
		n, len(s.Ops), twin.Commits, total, maxCalls, s.Stats.Blocks, s.Stats.Reorgs, s.Stats.Creates, s.Stats.NewAddr, s.Stats.Imports, s.Stats.Removes, foreign, afterImport, observed)
	var ks []string
	for k := range seen {
		ks = append(ks, k)
	}
	sort.Strings(ks)
	for _, k := range ks {
		fmt.Fprintf(w, "C %s %d\n", k, seen[k])
	}
	emitModel(w, fmt.Sprintf("%d:twin", n), twin.Lines)
	return s, twin, maxCalls
}

// report prints the V / R (/ M) lines of one faulted run.
func report(w *bufio.Writer, n int, id, planName string, rep int, res *cfsim.FaultResult, model bool) {
	nRuns++
	oc := map[string]int{}
	kinds := map[string]int{}
	for _, e := range res.Events {
		oc[e.Outcome]++
		byOutcome[e.Outcome]++
		ck := e.CallKind.String()
		if e.D > 0 && len(e.Hits) >= 2 {
			ck += "+" + e.Hits[1].Kind.String()
			nDouble++
		}
		kinds[ck]++
		byKind[e.CallKind.String()]++
		byOp[e.OpKind.String()]++
		nEvents++
	}
	var kl []string
	for k, v := range kinds {
		kl = append(kl, fmt.Sprintf("%s:%d", k, v))
	}
	sort.Strings(kl)
	for _, t := range res.Traces {
		nViol++
		fmt.Fprintf(w, "V %d %s %s %s\n", n, id, t.Key, strings.Replace(t.What, "\n", " ", -1))
	}
	verdict := "ok"
	if res.Viol != nil {
		nViol++
		verdict = "VIOL " + res.Viol.Key + " " + strings.Replace(res.Viol.What, "\n", " ", -1)
	}
	fmt.Fprintf(w, "R %d %s plan=%s repeat=%d events=%d failed=%d recovered=%d background=%d kinds=%s %s\n", n, id, planName, rep, len(res.Events),
		oc["failed"]+oc["failed-then-ok-under-fault"]+oc["failed-keystore-dropped"], oc["recovered"], oc["background"], strings.Join(kl, ","), verdict)
	if res.Viol == nil && model {
		emitModel(w, id, res.Lines)
	}
}

// runLegacy runs one index-rule plan (one failing call per operation, optionally repeated), or a
// uniform pair plan "j<k>+<d>", or an explicit plan "v...".
func runLegacy(w *bufio.Writer, s *cfsim.Script, twin *cfsim.Twin, n int, p plan) {
	id := fmt.Sprintf("%d:%s", n, p.name)
	if p.rep {
		id += "/r"
	}
	var res *cfsim.FaultResult
	var err error
	switch {
	case strings.HasPrefix(p.name, "v"):
		var pl cfsim.Plan
		if pl, err = cfsim.ParsePlan(p.name); err == nil {
			if len(pl) == 1 {
				res, err = cfsim.RunFaultPlanTracked(s, pl, twin)
			} else if res, err = cfsim.RunFaultPlan(s, pl, twin); err == nil {
				reportAttributed(w, s, twin, n, id, p.name, pl, res, true)
				return
			}
		}
	case strings.HasPrefix(p.name, "j") && strings.Contains(p.name, "+"):
		f := strings.SplitN(p.name[1:], "+", 2)
		k, _ := strconv.Atoi(f[0])
		d, _ := strconv.Atoi(f[1])
		res, err = cfsim.RunFaultPlan(s, cfsim.UniformPlan(s, twin, k, d), twin)
	default:
		res, err = cfsim.RunFault(s, picker(p.name, twin), p.rep, twin)
	}
	if err != nil {
		fmt.Fprintf(w, "X %d harness-error run %s: %v\n", n, id, err)
		return
	}
	rep := 0
	if p.rep {
		rep = 1
	}
	report(w, n, id, p.name, rep, res, true)
}

// legacyPlans: the sampled index-rule plans of a history.
func legacyPlans(seed uint64, n, maxCalls, quota int) []plan {
	r := rng.New(seed*911 + uint64(n)*17 + 3)
	// the last calls of every operation (commit, the puts before it), the first ones (begin,
	// first reads), and random indexes / fractions in between
	cand := []plan{{"last0", false}, {"last0", true}, {"last1", false}, {"last2", r.Bool()}, {"last3", r.Bool()}, {"j1", false}, {"j2", r.Bool()}, {"j3", r.Bool()}}
	for len(cand) < quota+6 {
		if r.Bool() {
			cand = append(cand, plan{fmt.Sprintf("j%d", 4+r.Intn(maxCalls)), r.Chance(30)})
		} else {
			cand = append(cand, plan{fmt.Sprintf("frac%d", 5+r.Intn(90)), r.Chance(30)})
		}
	}
	// keep the two commit plans, sample the rest
	plans := []plan{cand[0], cand[1]}
	rest := cand[2:]
	for len(plans) < quota && len(rest) > 0 {
		k := r.Intn(len(rest))
		plans = append(plans, rest[k])
		rest = append(rest[:k], rest[k+1:]...)
	}
	return plans
}

func one(w *bufio.Writer, seed uint64, n int, all bool, quota int, only string, pairs int) {
	// explicit plans and pair plans compare the whole database with the twin's at the end: the twin
	// must have recorded it (RunTwinInfo)
	info := (all && pairs > 0) || strings.HasPrefix(only, "v") || strings.Contains(only, "+")
	s, twin, maxCalls := genTwin(w, seed, n, info)
	if s == nil {
		return
	}
	var plans []plan
	if only != "" {
		f := strings.Split(only, "/")
		plans = append(plans, plan{f[0], len(f) > 1 && f[1] == "r"})
	} else if all {
		for k := 1; k <= maxCalls; k++ {
			plans = append(plans, plan{fmt.Sprintf("j%d", k), k%3 == 0})
		}
		for d := 0; d < 6; d++ {
			plans = append(plans, plan{fmt.Sprintf("last%d", d), d%2 == 1})
		}
		// every pair (k, d) up to the bound: call k and the d-th call after it
		for k := 1; k <= pairs && k <= maxCalls; k++ {
			for d := 2; d <= 2*pairs; d++ {
				plans = append(plans, plan{fmt.Sprintf("j%d+%d", k, d), false})
			}
		}
	} else {
		plans = legacyPlans(seed, n, maxCalls, quota)
	}
	for _, p := range plans {
		runLegacy(w, s, twin, n, p)
	}
}

func stats() {
	var parts []string
	for _, m := range []struct {
		p string
		m map[string]int
	}{{"outcome_", byOutcome}, {"call_", byKind}, {"op_", byOp}} {
		var ks []string
		for k := range m.m {
			ks = append(ks, k)
		}
		sort.Strings(ks)
		for _, k := range ks {
			parts = append(parts, fmt.Sprintf("%s%s=%d", m.p, strings.Replace(k, "-", "_", -1), m.m[k]))
		}
	}
	fmt.Fprintf(os.Stderr, "STATS histories=%d faulted_runs=%d faults_injected=%d double_faults=%d divergences=%d %s\n", nHist, nRuns, nEvents, nDouble, nViol, strings.Join(parts, " "))
}

func main() {
	count := flag.Int("n", 40, "number of histories")
	outPath := flag.String("out", "", "output file")
	workers := flag.Int("j", 12, "parallel worker processes")
	first := flag.Int("first", 0, "index of the first history")
	worker := flag.Bool("worker", false, "internal: run sequentially and print to stdout")
	srv := flag.Bool("serve", false, "internal: worker of the guided mode (commands on stdin)")
	all := flag.Bool("all", false, "every call index of every operation")
	pairs := flag.Int("pairs", 0, "with -all: every pair of faults (call k <= pairs, distance d <= 2*pairs) as well")
	quota := flag.Int("quota", 8, "fault plans per history when sampling (guided mode: budget of runs per history)")
	guided := flag.Bool("guided", false, "coverage-guided plans: every fault target of every twin, every target of a repair path as second fault")
	mult := flag.Int("mult", 2, "guided mode: histories every target is faulted in (reduced when the budget does not allow it)")
	mult2 := flag.Int("mult2", 0, "guided mode: the same for the second-fault targets of repair paths (0: as -mult)")
	legacy := flag.Int("legacy", 3, "guided mode: sampled index-rule plans per history (the two commit plans first)")
	only := flag.String("only", "", "replay one faulted run: <plan>[/r]")
	flag.Parse()
	cfsim.HoldBackground = true
	if *srv {
		sim.Init(sim.Params{CoinbaseMaturity: 4, MinFrozenPeriod: 2, GapLimit: 20})
		serve(rng.Seed())
		return
	}
	if *guided && !*worker {
		if *mult2 <= 0 {
			*mult2 = *mult
		}
		os.Exit(runMaster(*count, *first, *workers, *outPath, *quota, *mult, *mult2, *legacy))
	}
	if !*worker {
		if err := hist.ParallelSelf(*count, *first, *workers, *outPath, os.Args[1:]); err != nil {
			fmt.Fprintln(os.Stderr, err)
			os.Exit(2)
		}
		return
	}
	sim.Init(sim.Params{CoinbaseMaturity: 4, MinFrozenPeriod: 2, GapLimit: 20})
	seed := rng.Seed()
	w := bufio.NewWriter(os.Stdout)
	for i := 0; i < *count; i++ {
		one(w, seed, *first+i, *all, *quota, *only, *pairs)
		w.Flush()
	}
	stats()
}
