// The re-attach family (directed scenarios 13..60 and the removal mode "awayback" of the random
// histories): the node reorganises AWAY from the block that created a survivor's coin — nothing is
// announced, the handler still stands on the old branch —, removal steps run, the node reorganises
// BACK onto that very block (the same block is connected a second time) and grows; only then is the
// handler told. Whatever removableTxForRemoveWallet decided while the node was away must not depend
// on where the node stood: afterwards the survivors must report what the node's best chain pays them.
//
// Witness in Coq: C08_survivors_after_reattach_refuted (coq/Properties/C08.v, hist_reattach).
package main

import (
	"github.com/massnetorg/mass-core/massutil"
	"github.com/massnetorg/mass-core/wire"
	"verifharness/internal/hist"
	"verifharness/internal/sim"
)

const (
	reattachFirst = 13
	reattachCount = 48
)

// reattachScenarios lists the scenario numbers of the family the given tier runs: the quick tier a
// fixed third that covers every value of every dimension, the thorough tier all of them.
func reattachScenarios(tier string) []int {
	var ks []int
	for v := 0; v < reattachCount; v++ {
		if tier == "thorough" || v%3 == (v/12)%3 {
			ks = append(ks, reattachFirst+v)
		}
	}
	return ks
}

// reattach runs variant v on the base chain (five blocks paying A and B):
//
//	block X   P spends a coin of B and pays      v%4: 0 [B, A]  1 [A, B]  2 [stranger, A]  3 [A]
//	block Y   T spends EVERY output of P and pays only B
//	away      the node disconnects Y, X (and, depth 1, the block below X) and connects a longer detour
//	          (v/12)%2: 0 before RemoveWallet(B) is requested, 1 between removal phase 1 and the first round
//	          (v/24)%2: depth
//	back      the node disconnects the detour, connects X (and what was below it) AGAIN and outgrows the detour
//	          (v/4)%3: 0 with new empty blocks in Y's place (Rollback of Y has to un-spend A's coin)
//	                   1 with Y itself again and new blocks on top; a later reorganisation replaces Y
//	                   2 with a new block in Y's place that mines T again
//
// and only then announces the node's tip.
func reattach(e *env, A, B *hist.WInfo, a1, b1 *hist.AddrInfo, v int) {
	h, d := e.h, e.d
	pv, back, when, depth := v%4, (v/4)%3, (v/12)%2, (v/24)%2
	h.IEmit("C reattach outputs=%d back=%d when=%d depth=%d", pv, back, when, depth)
	var pouts []sim.Out
	switch pv {
	case 0:
		pouts = []sim.Out{{Script: h.ScriptStd(b1), Value: 100}, {Script: h.ScriptStd(a1), Value: 100}}
	case 1:
		pouts = []sim.Out{{Script: h.ScriptStd(a1), Value: 100}, {Script: h.ScriptStd(b1), Value: 100}}
	case 2:
		pouts = []sim.Out{{Script: h.StrangerScript(), Value: 100}, {Script: h.ScriptStd(a1), Value: 100}}
	default:
		pouts = []sim.Out{{Script: h.ScriptStd(a1), Value: 100}}
	}
	pt := hist.PayTx(e.pick(b1.Sh), pouts)
	e.attach(h.BlockWith(nil, []*wire.MsgTx{pt}))
	var ins []wire.OutPoint
	total := int64(0)
	for i, o := range pt.TxOut {
		ins = append(ins, wire.OutPoint{Hash: pt.TxHash(), Index: uint32(i)})
		total += o.Value
	}
	t := sim.NewTx(ins, nil, []sim.Out{{Script: h.ScriptStd(b1), Value: total}}, 0, nil)
	e.attach(h.BlockWith(nil, []*wire.MsgTx{t}))
	h.Query()

	var gone []*massutil.Block // the disconnected blocks of the first branch, top first
	detour := 0
	away := func() {
		for i := 0; i < 2+depth; i++ {
			b, err := h.Detach()
			must(err)
			gone = append(gone, b)
		}
		for i := 0; i < 3+depth; i++ {
			must(h.Attach(h.BlockWith(nil, nil)))
			detour++
		}
	}
	grow := func(n int, first []*wire.MsgTx) {
		for i := 0; i < n; i++ {
			var txs []*wire.MsgTx
			if i == 0 {
				txs = first
			}
			must(h.Attach(h.BlockWith(nil, txs)))
		}
	}

	if when == 0 {
		away()
		e.plainRemove(B)
	} else {
		h.W.Barrier()
		d.G.Arm()
		must(h.W.WM.RemoveWallet(B.ID, B.Pass))
		h.IEmit("R req %d %d ok", B.Num, d.Pass(B.Pass))
		moved := false
		_, ok := d.RunRemove(B, func(kind string, step int, status string) string {
			if kind == "remove" && step == 1 && !moved {
				moved = true
				away()
			}
			return ""
		}, nil, stepTimeout)
		if !ok {
			panic("removal did not finish")
		}
		d.Settle()
	}
	h.Listing()
	h.RetireWallet(B)
	h.Query()

	// back onto the first branch: the SAME blocks are connected again
	for ; detour > 0; detour-- {
		_, err := h.Detach()
		must(err)
	}
	keep := 1 // gone[0] is Y
	if back == 1 {
		keep = 0
	}
	for i := len(gone) - 1; i >= keep; i-- {
		must(h.Attach(gone[i]))
	}
	switch back {
	case 0:
		grow(3, nil)
	case 1:
		grow(3, nil)
	case 2:
		grow(3, []*wire.MsgTx{t})
	}
	h.Process(h.N.Tip())
	h.Query()
	if back == 1 {
		// Y is replaced later on
		for i := 0; i < 4; i++ {
			_, err := h.Detach()
			must(err)
		}
		grow(5, nil)
		h.Process(h.N.Tip())
		h.Query()
	}
	last := h.BlockWith([]sim.Out{{Script: h.ScriptStd(a1), Value: 900}}, nil)
	must(h.Attach(last))
	h.Process(last)
	h.Query()
	_ = A
}

// awayBack is the state of the removal mode "awayback" of the random histories: at one removal step
// the node leaves 1..3 blocks for a detour that is not announced, at the next step (or when the
// removal has ended) it comes back onto some or all of the blocks it left and grows from there.
type awayBack struct {
	state  int // 0 not yet away, 1 away, 2 back
	gone   []*massutil.Block
	detour int
}

func (ab *awayBack) away(e *env) {
	h, r := e.h, e.r
	n := 1 + r.Intn(3)
	if uint64(n) > h.N.Height()-1 {
		n = int(h.N.Height() - 1)
	}
	if n < 1 {
		ab.state = 2
		return
	}
	for i := 0; i < n; i++ {
		b, err := h.Detach()
		must(err)
		ab.gone = append(ab.gone, b)
	}
	for i, nn := 0, 1+r.Intn(n+1); i < nn; i++ {
		must(h.Attach(h.BuildBlock(r.Intn(2), nil)))
		ab.detour++
	}
	ab.state = 1
	e.stats["away"]++
}

func (ab *awayBack) back(e *env) {
	h, r := e.h, e.r
	if ab.state != 1 {
		return
	}
	for ; ab.detour > 0; ab.detour-- {
		_, err := h.Detach()
		must(err)
	}
	// connect again the lowest 1..n of the blocks left (mostly all but the top one)
	again := len(ab.gone) - 1
	if again < 1 || r.Chance(30) {
		again = 1 + r.Intn(len(ab.gone))
	}
	for i := len(ab.gone) - 1; i >= len(ab.gone)-again; i-- {
		must(h.Attach(ab.gone[i]))
	}
	for i, nn := 0, 1+r.Intn(3); i < nn; i++ {
		var extra []*wire.MsgTx
		if len(h.Detached) > 0 && r.Chance(50) {
			tx := h.Detached[r.Intn(len(h.Detached))]
			if h.InputsUnspent(tx) && !h.OnBest(tx.TxHash()) {
				extra = append(extra, tx)
			}
		}
		must(h.Attach(h.BuildBlock(r.Intn(2), extra)))
	}
	ab.state = 2
	e.stats["back"]++
}
