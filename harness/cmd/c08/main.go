// c08: multi-wallet histories with wallet removal on the real WalletManager (format: internal/hist,
// extra lines: internal/hist/importremove.go). Used by the C08 check.
//
//   c08 -n N -out FILE -j J          N random histories (indexes first..first+N-1) in J worker processes
//   c08 -directed -out FILE          the directed scenarios (witnesses of the Coq _refuted theorems and
//                                    paths the random generator reaches rarely), one process each
//   c08 -worker ...                  internal
// A worker process that dies (the wallet's Recover() logs FATAL, which exits) is detected by the
// parent: the history is closed with a "died" line and the remaining indexes run in a new worker.
package main

import (
	"bufio"
	"bytes"
	"flag"
	"fmt"
	"os"
	"os/exec"
	"regexp"
	"runtime"
	"strconv"
	"strings"
	"sync"
	"time"

	"github.com/massnetorg/mass-core/massutil"
	"github.com/massnetorg/mass-core/wire"
	"verifharness/internal/gate"
	"verifharness/internal/hist"
	"verifharness/internal/rng"
	"verifharness/internal/sim"
)

const stepTimeout = 8 * time.Second

type env struct {
	h     *hist.H
	d     *hist.Drive
	r     *rng.R
	pend  []*wire.MsgTx // delivered as unconfirmed, candidates for mining
	stats map[string]int
}

func must(err error) {
	if err != nil {
		panic(err)
	}
}

func newEnv(seed uint64, n int, out *bufio.Writer, opt hist.Options) *env {
	r := rng.New(seed*1000003 + uint64(n))
	r = rng.New(r.U64() ^ (uint64(n)+1)*0xD1342543DE82EF95) // consecutive seeds of splitmix64 give shifted copies of one stream
	g := gate.New()
	h, err := hist.New(r, out, n, opt, g.Wrap)
	must(err)
	e := &env{h: h, d: hist.NewDrive(h, g), r: r, stats: map[string]int{}}
	return e
}

func (e *env) close() {
	e.d.G.Shutdown()
	e.h.Close()
}

func (e *env) attach(b *massutil.Block) {
	must(e.h.Attach(b))
	e.h.Process(b)
}

// one random chain step; returns a short name
func (e *env) step(maxReorg int) string {
	h, r := e.h, e.r
	switch k := r.Intn(100); {
	case k < 55:
		var extra []*wire.MsgTx
		if len(e.pend) > 0 && r.Chance(60) {
			i := r.Intn(len(e.pend))
			tx := e.pend[i]
			e.pend = append(e.pend[:i], e.pend[i+1:]...)
			if h.InputsUnspent(tx) && !h.OnBest(tx.TxHash()) {
				extra = append(extra, tx)
			}
		} else if len(h.Detached) > 0 && r.Chance(50) {
			tx := h.Detached[r.Intn(len(h.Detached))]
			if h.InputsUnspent(tx) && !h.OnBest(tx.TxHash()) {
				extra = append(extra, tx)
			}
		}
		b := h.BuildBlock(r.Intn(4), extra)
		e.attach(b)
		e.stats["blocks"]++
		return "block"
	case k < 62:
		// sweep: spend SEVERAL outputs of one earlier transaction (owned by different wallets or by
		// nobody), in random input order, into ONE output
		if tx := e.sweepTx(); tx != nil {
			b := h.BuildBlock(r.Intn(2), []*wire.MsgTx{tx})
			e.attach(b)
			e.stats["blocks"]++
			e.stats["sweeps"]++
			return "sweep"
		}
		return ""
	case k < 76:
		if h.N.Height() < 2 {
			return ""
		}
		e.reorg(1+r.Intn(maxReorg), true)
		return "reorg"
	case k < 83:
		if len(h.Wallets) > 0 {
			wi := h.Wallets[r.Intn(len(h.Wallets))]
			cls := uint16(0)
			if r.Chance(25) {
				cls = 1
			}
			_, err := h.NewAddress(wi, cls)
			must(err)
		}
		return "addr"
	case k < 92:
		tx := h.RandomTx()
		if tx != nil {
			rel, err := h.W.H.VerifReceiveTx(tx)
			_ = rel
			if err == nil {
				e.pend = append(e.pend, tx)
				e.stats["pending"]++
			}
		}
		return "pending"
	default:
		h.Query()
		return "query"
	}
}

// sweepTx spends two or more mature outputs of one transaction into a single output paying one
// wallet address (or a stranger).
func (e *env) sweepTx() *wire.MsgTx {
	h, r := e.h, e.r
	groups := map[wire.Hash][]*hist.Coin{}
	var order []wire.Hash
	for _, c := range h.MatureCoins(h.N.Height() + 1) {
		if c.Class == hist.ClsBindingOld || c.Class == hist.ClsBindingNew {
			continue
		}
		if _, ok := groups[c.Op.Hash]; !ok {
			order = append(order, c.Op.Hash)
		}
		groups[c.Op.Hash] = append(groups[c.Op.Hash], c)
	}
	var cands []wire.Hash
	for _, hsh := range order {
		if len(groups[hsh]) >= 2 {
			cands = append(cands, hsh)
		}
	}
	if len(cands) == 0 {
		return nil
	}
	g := groups[cands[r.Intn(len(cands))]]
	for i := len(g) - 1; i > 0; i-- { // shuffle the input order
		j := r.Intn(i + 1)
		g[i], g[j] = g[j], g[i]
	}
	var ins []wire.OutPoint
	var seqs []uint64
	total := int64(0)
	for _, c := range g {
		ins = append(ins, c.Op)
		seq := uint64(wire.MaxTxInSequenceNum)
		if c.Class == hist.ClsStaking {
			seq = uint64(c.Param)
		}
		seqs = append(seqs, seq)
		total += c.Val
	}
	script := h.StrangerScript()
	var all []*hist.AddrInfo
	for _, w := range h.Wallets {
		all = append(all, w.Addrs...)
	}
	if len(all) > 0 && r.Chance(85) {
		script = h.ScriptStd(all[r.Intn(len(all))])
	}
	return sim.NewTx(ins, seqs, []sim.Out{{Script: script, Value: total}}, 0, nil)
}

// reorg detaches d blocks and attaches d or d+1 new ones; announce: process the new tip.
func (e *env) reorg(d int, announce bool) *massutil.Block {
	h, r := e.h, e.r
	if uint64(d) > h.N.Height()-1 {
		d = int(h.N.Height() - 1)
	}
	if d < 1 {
		return nil
	}
	for i := 0; i < d; i++ {
		_, err := h.Detach()
		must(err)
	}
	var last *massutil.Block
	for i, nn := 0, d+r.Intn(2); i < nn; i++ {
		var extra []*wire.MsgTx
		if len(h.Detached) > 0 && r.Chance(60) {
			tx := h.Detached[r.Intn(len(h.Detached))]
			if h.InputsUnspent(tx) && !h.OnBest(tx.TxHash()) {
				extra = append(extra, tx)
			}
		}
		b := h.BuildBlock(r.Intn(3), extra)
		must(h.Attach(b))
		last = b
	}
	e.stats["reorgs"]++
	if announce && last != nil {
		h.Process(last)
	}
	return last
}

// removal of wallet x with one of the interleavings; returns false when the history cannot go on
func (e *env) remove(x *hist.WInfo, mode string) bool {
	h, d, r := e.h, e.d, e.r
	h.W.Barrier()
	// wrong passphrase first
	err := h.W.WM.RemoveWallet(x.ID, x.Pass+"x")
	res := "ok"
	if err != nil {
		res = "badpass"
	}
	h.IEmit("R req %d %d %s", x.Num, d.Pass(x.Pass+"x"), res)
	d.G.Arm()
	if err := h.W.WM.RemoveWallet(x.ID, x.Pass); err != nil {
		h.IEmit("R req %d %d err", x.Num, d.Pass(x.Pass))
		d.G.Disarm()
		return false
	}
	h.IEmit("R req %d %d ok", x.Num, d.Pass(x.Pass))
	at := 1 + r.Intn(2) // inject after phase 1 (step 1) or after the first round (step 2, multi-round only)
	moved := false
	ab := &awayBack{}
	if mode == "awayback" && r.Chance(35) {
		ab.away(e) // the node has left before the removal is requested
	}
	between := func(kind string, step int, status string) string {
		if mode == "awayback" {
			// the node leaves its branch at one step and is back on it at the next; nothing is announced
			if kind == "remove" {
				switch ab.state {
				case 0:
					ab.away(e)
				case 1:
					ab.back(e)
				}
			}
			return ""
		}
		if moved || mode == "none" {
			return ""
		}
		if kind == "remove" && step != at && !(step == 1) {
			return ""
		}
		switch {
		case kind == "remove" && mode == "block":
			moved = true
			b := h.BuildBlock(r.Intn(3), nil)
			must(h.Attach(b))
			d.Announce(b)
		case kind == "remove" && mode == "reorg":
			moved = true
			if last := e.reorg(1+r.Intn(3), false); last != nil {
				d.Announce(last)
			}
		case kind == "remove" && (mode == "restart" || mode == "restart-reorg"):
			return "restart"
		case kind == "remove+down":
			moved = true
			if mode == "restart-reorg" {
				e.reorg(1+r.Intn(3), false)
			}
		}
		return ""
	}
	reopen := func() (*gate.Gate, string) { return d.Reopen("") }
	st, ok := d.RunRemove(x, between, reopen, stepTimeout)
	e.stats["removals"]++
	e.stats["mode_"+mode]++
	if !ok {
		h.IEmit("C removal-ended %s", st)
		return false
	}
	d.Settle()
	ab.back(e)
	if h.Stale {
		h.Process(h.N.Tip())
	}
	return true
}

func (e *env) rawScan(x *hist.WInfo, addrs []*hist.AddrInfo) {
	h := e.h
	dir := h.Dir
	e.d.G.Shutdown()
	h.CloseInstance()
	hits, err := hist.RawScan(dir, x.ID, addrs)
	if err != nil {
		h.IEmit("X %d rawscan %v", x.Num, err)
		return
	}
	var shs []string
	for _, a := range addrs {
		shs = append(shs, strconv.Itoa(a.Sh))
	}
	h.IEmit("Z %d %d %s | %s", x.Num, len(hits), strings.Join(hits, " "), strings.Join(shs, " "))
}

func runOne(seed uint64, n int, out *bufio.Writer, tier string) (err error) {
	e := newEnv(seed, n, out, hist.Options{Unsupported: true, Games: true, MaxReorg: 4})
	defer func() {
		if r := recover(); r != nil {
			e.h.IEmit("X %d harness-error %v", n, r)
			e.h.End()
			err = fmt.Errorf("%v", r)
		}
		e.close()
		out.Flush()
		report(e)
	}()
	h, d, r := e.h, e.d, e.r
	nW := 2 + r.Intn(2)
	for i := 0; i < nW; i++ {
		wi, err := d.NewWallet()
		must(err)
		for j, na := 0, 1+r.Intn(3); j < na; j++ {
			cls := uint16(0)
			if r.Chance(30) {
				cls = 1
			}
			_, err := h.NewAddress(wi, cls)
			must(err)
		}
	}
	for s, steps := 0, 8+r.Intn(16); s < steps; s++ {
		e.step(3)
	}
	h.Query()
	x := h.Wallets[r.Intn(len(h.Wallets))]
	xAddrs := append([]*hist.AddrInfo{}, x.Addrs...)
	modes := []string{"none", "block", "reorg", "reorg", "reorg", "restart", "restart-reorg", "awayback", "awayback"}
	mode := modes[r.Intn(len(modes))]
	abl := map[int]string{}
	tipBefore := *h.N.Tip().Hash()
	pendBefore := map[int]string{}
	for _, wi := range h.Wallets {
		if wi != x {
			abl[wi.Num] = h.BuildSign(wi)
			pendBefore[wi.Num] = h.PendingCoinsOf(wi, e.pend)
		}
	}
	if !e.remove(x, mode) {
		h.End()
		return nil
	}
	for _, wi := range h.Wallets {
		// (a chain movement during the removal legitimately changes what can be spent)
		if wi != x && abl[wi.Num] == "ok" && tipBefore == *h.N.Tip().Hash() {
			e.stats["buildsign_ok_before"]++
			if after := h.BuildSign(wi); after != "ok" && after != "nofunds" {
				h.IEmit("V survivor-cannot-build-or-sign wallet %d after removing wallet %d: %s", wi.Num, x.Num, after)
			}
		}
	}
	for _, wi := range h.Wallets {
		// a survivor's coins of PENDING transactions (also ones that pay the removed wallet too) stay readable:
		// signing and explicit-input building need the pending transaction's record
		if wi != x && tipBefore == *h.N.Tip().Hash() {
			if pendBefore[wi.Num] != "" {
				e.stats["survivors_with_pending_coins"]++
			}
			if after := h.PendingCoinsOf(wi, e.pend); after != pendBefore[wi.Num] {
				h.IEmit("V survivor-pending-coins-changed wallet %d after removing wallet %d: before [%s] after [%s]", wi.Num, x.Num,
					strings.ReplaceAll(pendBefore[wi.Num], " ", ","), strings.ReplaceAll(after, " ", ","))
			}
		}
	}
	h.Listing()
	h.Use(x)
	h.RetireWallet(x)
	h.Query()
	for _, wi := range h.Wallets {
		h.Games(wi)
	}
	// later chain movement, including a deep reorg over blocks that held shared transactions
	for s, steps := 0, 3+r.Intn(8); s < steps; s++ {
		e.step(4)
	}
	if h.N.Height() > 3 {
		e.reorg(2+r.Intn(4), true)
	}
	h.Query()
	reimport := r.Chance(50)
	if reimport {
		d.G.Arm()
		wi, err := h.ImportMnemonic(x.Num, x.Mnemo, x.Pass, d.Pass(x.Pass))
		if err != nil {
			d.G.Disarm()
			h.IEmit("V reimport-refused wallet %d: %v", x.Num, strings.ReplaceAll(err.Error(), " ", "_"))
		} else {
			if os.Getenv("VERIF_DUMP") != "" {
				for _, a := range xAddrs {
					u, err := h.W.WM.VerifChainFetcher().CheckScriptHashUsed(a.ShBytes)
					fmt.Fprintf(os.Stderr, "DUMP sh %d used=%v err=%v staking=%q\n", a.Sh, u, err, a.Staking)
				}
				fmt.Fprintf(os.Stderr, "DUMP discovered %d of %d\n", len(wi.Addrs), len(xAddrs))
			}
			st, ok := d.RunImport(wi, nil, stepTimeout)
			if !ok {
				h.IEmit("C import-ended %s", st)
			}
			d.Settle()
			h.AdoptWallet(wi)
			e.stats["reimports"]++
			for s := 0; s < 3; s++ {
				e.step(3)
			}
			h.Query()
			for _, w := range h.Wallets {
				h.Games(w)
			}
		}
	} else {
		e.rawScan(x, xAddrs)
	}
	h.End()
	return nil
}

var statMu sync.Mutex
var total = map[string]int{}

func report(e *env) {
	statMu.Lock()
	defer statMu.Unlock()
	total["histories"]++
	for k, v := range e.stats {
		total[k] += v
	}
	for k, v := range e.d.Stats {
		total[k] += v
	}
}

// ---------------------------------------------------------------- directed scenarios

// base: wallets A and B with one address each, five blocks whose coinbases pay both
func base(k int, out *bufio.Writer) (*env, *hist.WInfo, *hist.WInfo, *hist.AddrInfo, *hist.AddrInfo) {
	e := newEnv(77, 900000+k, out, hist.Options{MaxReorg: 4})
	A, err := e.d.NewWallet()
	must(err)
	B, err := e.d.NewWallet()
	must(err)
	a1, err := e.h.NewAddress(A, 0)
	must(err)
	b1, err := e.h.NewAddress(B, 0)
	must(err)
	for i := 0; i < 5; i++ {
		e.attach(e.h.BlockWith([]sim.Out{{Script: e.h.ScriptStd(a1), Value: 500}, {Script: e.h.ScriptStd(b1), Value: 700}}, nil))
	}
	return e, A, B, a1, b1
}

func (e *env) pick(sh int) *hist.Coin {
	for _, c := range e.h.MatureCoins(e.h.N.Height() + 1) {
		if c.Sh == sh && c.Val > 0 {
			return c
		}
	}
	panic("no coin")
}

func (e *env) plainRemove(x *hist.WInfo) {
	h, d := e.h, e.d
	d.G.Arm()
	must(h.W.WM.RemoveWallet(x.ID, x.Pass))
	h.IEmit("R req %d %d ok", x.Num, d.Pass(x.Pass))
	_, ok := d.RunRemove(x, nil, nil, stepTimeout)
	if !ok {
		panic("removal did not finish")
	}
	d.Settle()
}

// between-steps reorg: returns true when the handler took the announcement before the next step
func (e *env) removeWithReorg(x *hist.WInfo, newBlocks int) bool {
	h, d := e.h, e.d
	h.W.Barrier()
	d.G.Arm()
	must(h.W.WM.RemoveWallet(x.ID, x.Pass))
	h.IEmit("R req %d %d ok", x.Num, d.Pass(x.Pass))
	done := false
	before := d.Stats["between_remove_steps"]
	_, ok := d.RunRemove(x, func(kind string, step int, status string) string {
		if kind == "remove" && step == 1 && !done {
			done = true
			_, err := h.Detach()
			must(err)
			var last *massutil.Block
			for i := 0; i < newBlocks; i++ {
				last = h.BlockWith(nil, nil)
				must(h.Attach(last))
			}
			d.Announce(last)
		}
		return ""
	}, nil, stepTimeout)
	if ok {
		d.Settle()
	}
	return d.Stats["between_remove_steps"] > before
}

func directed(k int, out *bufio.Writer) {
	e, A, B, a1, b1 := base(k, out)
	h, d := e.h, e.d
	_ = A
	defer func() {
		if r := recover(); r != nil {
			h.IEmit("X %d harness-error %v", 900000+k, r)
		}
		h.End()
		e.close()
		out.Flush()
	}()
	if k == lateOwnerScenario {
		lateOwner(e, A, B, a1, b1)
		return
	}
	if k >= pendingSharedFirst {
		pendingShared(e, A, B, a1, b1, k-pendingSharedFirst)
		return
	}
	if k >= reattachFirst {
		reattach(e, A, B, a1, b1, k-reattachFirst)
		return
	}
	switch k {
	case 1, 2:
		// C08_frame_later_refuted: T spends A's coin and pays only B; B removed; T's block reorganised away.
		// 1: the new branch does not contain T (A's coin stays spent); 2: it does (every block refused)
		t := hist.PayTx(e.pick(a1.Sh), []sim.Out{{Script: h.ScriptStd(b1), Value: 1}})
		e.attach(h.BlockWith(nil, []*wire.MsgTx{t}))
		h.Query()
		e.plainRemove(B)
		h.Listing()
		h.RetireWallet(B)
		h.Query()
		_, err := h.Detach()
		must(err)
		var txs []*wire.MsgTx
		if k == 2 {
			txs = append(txs, t)
		}
		b6 := h.BlockWith(nil, txs)
		must(h.Attach(b6))
		b7 := h.BlockWith(nil, nil)
		must(h.Attach(b7))
		h.Process(b7)
		h.Query()
		b8 := h.BlockWith([]sim.Out{{Script: h.ScriptStd(a1), Value: 900}}, nil)
		must(h.Attach(b8))
		h.Process(b8)
		h.Query()
	case 3:
		// C08_reorg_during_removal_panics: T spends B's coin; reorg of T's block between phase 1 and phase 2 (live)
		t := hist.PayTx(e.pick(b1.Sh), []sim.Out{{Script: h.StrangerScript(), Value: 1}})
		e.attach(h.BlockWith(nil, []*wire.MsgTx{t}))
		hit := e.removeWithReorg(B, 2)
		h.IEmit("C interleaved %v", hit)
		h.Listing()
		h.RetireWallet(B)
		h.Query()
	case 4:
		// the same through a restart between the steps (deterministic): Start's catch-up does the reorg
		t := hist.PayTx(e.pick(b1.Sh), []sim.Out{{Script: h.StrangerScript(), Value: 1}})
		e.attach(h.BlockWith(nil, []*wire.MsgTx{t}))
		h.W.Barrier()
		d.G.Arm()
		must(h.W.WM.RemoveWallet(B.ID, B.Pass))
		h.IEmit("R req %d %d ok", B.Num, d.Pass(B.Pass))
		restarted := false
		st, ok := d.RunRemove(B, func(kind string, step int, status string) string {
			if kind == "remove" {
				if restarted {
					return ""
				}
				restarted = true
				return "restart"
			}
			_, err := h.Detach()
			must(err)
			must(h.Attach(h.BlockWith(nil, nil)))
			must(h.Attach(h.BlockWith(nil, nil)))
			return ""
		}, func() (*gate.Gate, string) { return d.Reopen("") }, stepTimeout)
		h.IEmit("C removal-ended %s %v", st, ok)
		if ok {
			d.Settle()
			h.Listing()
			addrs := append([]*hist.AddrInfo{}, B.Addrs...)
			h.RetireWallet(B)
			h.Query()
			e.rawScan(B, addrs)
		}
	case 5:
		// C08_residue_under_reorg_refuted: T pays a staking deposit to B; reorg of T's block between the steps
		t := hist.PayTx(e.pick(a1.Sh), []sim.Out{{Script: h.ScriptStaking(b1, 3), Value: 1}})
		e.attach(h.BlockWith(nil, []*wire.MsgTx{t}))
		hit := e.removeWithReorg(B, 2)
		h.IEmit("C interleaved %v", hit)
		h.Listing()
		addrs := append([]*hist.AddrInfo{}, B.Addrs...)
		h.RetireWallet(B)
		h.Query()
		e.rawScan(B, addrs)
	case 6:
		// refused while importing; needs the passphrase; re-import after removal
		mn, pass := B.Mnemo, B.Pass
		e.plainRemove(B)
		h.Listing()
		h.RetireWallet(B)
		d.G.ArmBegin()
		wi, err := h.ImportMnemonic(B.Num, mn, pass, d.Pass(pass))
		must(err)
		if _, ok := d.G.WaitHeld(stepTimeout); !ok {
			panic("import worker did not start")
		}
		h.Listing(wi)
		h.Use(wi)
		err = h.W.WM.RemoveWallet(wi.ID, pass)
		res := "ok"
		if err != nil {
			res = "unready"
			if !strings.Contains(err.Error(), "unready") {
				res = "err"
			}
		}
		h.IEmit("R req %d %d %s", wi.Num, d.Pass(pass), res)
		d.G.Arm()
		d.G.Release()
		st, ok := d.RunImport(wi, nil, stepTimeout)
		h.IEmit("C import-ended %s %v", st, ok)
		d.Settle()
		h.AdoptWallet(wi)
		h.Listing()
		h.Query()
		err = h.W.WM.RemoveWallet(wi.ID, pass+"?")
		res = "ok"
		if err != nil {
			res = "badpass"
		}
		h.IEmit("R req %d %d %s", wi.Num, d.Pass(pass+"?"), res)
		h.Listing()
	case 8:
		// block-record order: B is removed; block X holds T1 (pays B's address, a stranger now) and T2
		// (spends T1's output, pays A): only T2 is recorded. B is re-imported: the rescan appends T1 to
		// X's block record AFTER T2 and marks T1's output spent by T2. X is then reorganised away:
		// Rollback walks the record backwards, deletes T1's credit first and then cannot un-spend it for T2.
		mn, pass := B.Mnemo, B.Pass
		e.plainRemove(B)
		h.RetireWallet(B)
		var stranger *hist.Coin
		for _, c := range h.MatureCoins(h.N.Height() + 1) {
			if c.Sh != a1.Sh && c.Sh != b1.Sh && c.Val > 0 && c.Class == hist.ClsStd {
				stranger = c
				break
			}
		}
		if stranger == nil {
			// the base chain pays only A and B: use one of B's former coins (B is gone, they are strangers' now)
			stranger = e.pick(b1.Sh)
		}
		t1 := hist.PayTx(stranger, []sim.Out{{Script: h.ScriptStd(b1), Value: 1}})
		t2 := sim.NewTx([]wire.OutPoint{{Hash: t1.TxHash(), Index: 0}}, nil, []sim.Out{{Script: h.ScriptStd(a1), Value: t1.TxOut[0].Value}}, 0, nil)
		e.attach(h.BlockWith(nil, []*wire.MsgTx{t1, t2}))
		h.Query()
		d.G.Arm()
		wi, err := h.ImportMnemonic(B.Num, mn, pass, d.Pass(pass))
		must(err)
		st, ok := d.RunImport(wi, nil, stepTimeout)
		h.IEmit("C import-ended %s %v", st, ok)
		d.Settle()
		h.AdoptWallet(wi)
		h.Query()
		_, err = h.Detach()
		must(err)
		must(h.Attach(h.BlockWith(nil, nil)))
		b7 := h.BlockWith(nil, nil)
		must(h.Attach(b7))
		h.Process(b7)
		h.Query()
		b8 := h.BlockWith([]sim.Out{{Script: h.ScriptStd(a1), Value: 900}}, nil)
		must(h.Attach(b8))
		h.Process(b8)
		h.Query()
	case 9, 10, 11, 12:
		// C2 with several inputs from ONE previous transaction P: the removed wallet's (9), a stranger's
		// (10) or both (11) output of P comes first, the survivor's output of P last; 12: survivor first.
		// T pays only B; B removed; T's block reorganised away: A's coin must be unspent again.
		var pouts []sim.Out
		switch k {
		case 9:
			pouts = []sim.Out{{Script: h.ScriptStd(b1), Value: 100}, {Script: h.ScriptStd(a1), Value: 100}}
		case 10:
			pouts = []sim.Out{{Script: h.StrangerScript(), Value: 100}, {Script: h.ScriptStd(a1), Value: 100}}
		case 11:
			pouts = []sim.Out{{Script: h.StrangerScript(), Value: 100}, {Script: h.ScriptStd(b1), Value: 100}, {Script: h.ScriptStd(a1), Value: 100}}
		case 12:
			pouts = []sim.Out{{Script: h.ScriptStd(a1), Value: 100}, {Script: h.ScriptStd(b1), Value: 100}}
		}
		pt := hist.PayTx(e.pick(b1.Sh), pouts)
		e.attach(h.BlockWith(nil, []*wire.MsgTx{pt}))
		var ins []wire.OutPoint
		total := int64(0)
		for i, o := range pt.TxOut {
			ins = append(ins, wire.OutPoint{Hash: pt.TxHash(), Index: uint32(i)})
			total += o.Value
		}
		t := sim.NewTx(ins, nil, []sim.Out{{Script: h.ScriptStd(b1), Value: total}}, 0, nil)
		e.attach(h.BlockWith(nil, []*wire.MsgTx{t}))
		h.Query()
		e.plainRemove(B)
		h.Listing()
		h.RetireWallet(B)
		h.Query()
		_, err := h.Detach()
		must(err)
		must(h.Attach(h.BlockWith(nil, nil)))
		b8 := h.BlockWith(nil, nil)
		must(h.Attach(b8))
		h.Process(b8)
		h.Query()
		b9 := h.BlockWith([]sim.Out{{Script: h.ScriptStd(a1), Value: 900}}, nil)
		must(h.Attach(b9))
		h.Process(b9)
		h.Query()
	case 7:
		// more credits than one round takes (thorough tier): 20100 credits in 201 transactions of 100 outputs
		var outs []sim.Out
		for i := 0; i < 100; i++ {
			outs = append(outs, sim.Out{Script: h.ScriptStd(b1), Value: 1})
		}
		// coinbases with 100 outputs each (a transaction needs an input to be consensus-valid)
		for i := 0; i < 201; i++ {
			e.attach(h.BlockWith(outs, nil))
		}
		h.Query()
		rounds := 0
		h.W.Barrier()
		d.G.Arm()
		must(h.W.WM.RemoveWallet(B.ID, B.Pass))
		h.IEmit("R req %d %d ok", B.Num, d.Pass(B.Pass))
		st, ok := d.RunRemove(B, func(kind string, step int, status string) string {
			rounds = step
			if kind == "remove" && step == 2 {
				return "restart"
			}
			return ""
		}, func() (*gate.Gate, string) { return d.Reopen("") }, 60*time.Second)
		h.IEmit("C removal-ended %s %v rounds %d", st, ok, rounds)
		d.Settle()
		h.Listing()
		addrs := append([]*hist.AddrInfo{}, B.Addrs...)
		h.RetireWallet(B)
		h.Query()
		e.rawScan(B, addrs)
	}
}

// ---------------------------------------------------------------- process management

var reH = regexp.MustCompile(`(?m)^H (\d+)$`)

// runWorkers runs indexes [first, first+count) in j worker processes; a worker that dies is
// restarted after the history it died in.
func runWorkers(count, first, j int, tier string, extra []string) []byte {
	self, _ := os.Executable()
	if j > count {
		j = count
	}
	if j < 1 {
		j = 1
	}
	outs := make([][]byte, j)
	stats := make([]string, j)
	var wg sync.WaitGroup
	per := (count + j - 1) / j
	for k := 0; k < j; k++ {
		lo, hi := first+k*per, first+k*per+per
		if hi > first+count {
			hi = first + count
		}
		if lo >= hi {
			continue
		}
		wg.Add(1)
		go func(k, lo, hi int) {
			defer wg.Done()
			var buf bytes.Buffer
			for lo < hi {
				args := append([]string{"-worker", "-first", strconv.Itoa(lo), "-n", strconv.Itoa(hi - lo), "-tier", tier}, extra...)
				cmd := exec.Command(self, args...)
				var so, se bytes.Buffer
				cmd.Stdout, cmd.Stderr = &so, &se
				err := cmd.Run()
				buf.Write(so.Bytes())
				for _, l := range strings.Split(se.String(), "\n") {
					if strings.HasPrefix(l, "STATS ") {
						stats[k] += l + "\n"
					}
				}
				if err == nil {
					break
				}
				// died: close the open history
				m := reH.FindAllSubmatch(so.Bytes(), -1)
				last := lo
				if len(m) > 0 {
					last, _ = strconv.Atoi(string(m[len(m)-1][1]))
				}
				if len(so.Bytes()) > 0 && so.Bytes()[len(so.Bytes())-1] != '\n' {
					buf.WriteByte('\n')
				}
				why := "died"
				if strings.Contains(se.String(), "nil pointer dereference") {
					why = "died-nil-deref"
				}
				if strings.Contains(se.String(), "watchdog:") {
					why = "hang"
					if os.Getenv("VERIF_DUMP") != "" {
						fmt.Fprintln(os.Stderr, se.String())
					}
				}
				fmt.Fprintf(&buf, "F died %s\nE\n", why)
				lo = last + 1
			}
			outs[k] = buf.Bytes()
		}(k, lo, hi)
	}
	wg.Wait()
	var all bytes.Buffer
	sum := map[string]int{}
	var order []string
	re := regexp.MustCompile(`(\w+)=(\d+)`)
	for k := 0; k < j; k++ {
		all.Write(outs[k])
		for _, m := range re.FindAllStringSubmatch(stats[k], -1) {
			v, _ := strconv.Atoi(m[2])
			if _, ok := sum[m[1]]; !ok {
				order = append(order, m[1])
			}
			sum[m[1]] += v
		}
	}
	var sb strings.Builder
	for _, k := range order {
		fmt.Fprintf(&sb, "%s=%d ", k, sum[k])
	}
	fmt.Fprintln(os.Stderr, strings.TrimSpace(sb.String()))
	return all.Bytes()
}

func main() {
	count := flag.Int("n", 40, "number of random histories")
	first := flag.Int("first", 0, "index of the first history")
	outPath := flag.String("out", "", "output file")
	workers := flag.Int("j", 12, "worker processes")
	tier := flag.String("tier", "quick", "quick|thorough")
	worker := flag.Bool("worker", false, "internal")
	dir := flag.Bool("directed", false, "run the directed scenarios")
	scen := flag.Int("scenario", 0, "internal: run one directed scenario")
	flag.Parse()
	if *scen > 0 {
		sim.Init(sim.Params{CoinbaseMaturity: 4, MinFrozenPeriod: 2, GapLimit: 20})
		defer os.RemoveAll(hist.QuietLogs(envOr("VERIF_LOG", "info")))
		w := bufio.NewWriter(os.Stdout)
		directed(*scen, w)
		w.Flush()
		return
	}
	if *worker {
		sim.Init(sim.Params{CoinbaseMaturity: 4, MinFrozenPeriod: 2, GapLimit: 20})
		defer os.RemoveAll(hist.QuietLogs(envOr("VERIF_LOG", "info")))
		seed := rng.Seed()
		w := bufio.NewWriter(os.Stdout)
		for i := 0; i < *count; i++ {
			done := make(chan struct{})
			go func(n int) {
				select {
				case <-done:
				case <-time.After(90 * time.Second):
					buf := make([]byte, 1<<20)
					fmt.Fprintf(os.Stderr, "watchdog: history %d hangs\n%s\n", n, buf[:runtime.Stack(buf, true)])
					os.Exit(3)
				}
			}(*first + i)
			runOne(seed, *first+i, w, *tier)
			close(done)
			w.Flush()
		}
		var sb strings.Builder
		for k, v := range total {
			fmt.Fprintf(&sb, "%s=%d ", k, v)
		}
		fmt.Fprintln(os.Stderr, "STATS "+sb.String())
		return
	}
	var res []byte
	if *dir {
		self, _ := os.Executable()
		ks := []int{1, 2, 3, 3, 3, 3, 4, 5, 5, 5, 5, 5, 5, 6, 8, 9, 10, 11, 12}
		if *tier == "thorough" {
			ks = append(ks, 7)
		}
		ks = append(ks, reattachScenarios(*tier)...)
		for v := 0; v < pendingSharedCount; v++ {
			ks = append(ks, pendingSharedFirst+v)
		}
		outs := make([][]byte, len(ks))
		var wg sync.WaitGroup
		sem := make(chan struct{}, *workers)
		for i, k := range ks {
			wg.Add(1)
			go func(i, k int) {
				defer wg.Done()
				sem <- struct{}{}
				defer func() { <-sem }()
				cmd := exec.Command("timeout", "120", self, "-scenario", strconv.Itoa(k))
				var so, se bytes.Buffer
				cmd.Stdout, cmd.Stderr = &so, &se
				err := cmd.Run()
				b := so.Bytes()
				if err != nil {
					why := "died"
					if strings.Contains(se.String(), "nil pointer dereference") {
						why = "died-nil-deref"
					}
					if len(b) > 0 && b[len(b)-1] != '\n' {
						b = append(b, '\n')
					}
					b = append(b, []byte(fmt.Sprintf("F died %s\nE\n", why))...)
				}
				// give every run of a scenario its own history number
				b = bytes.Replace(b, []byte(fmt.Sprintf("H %d\n", 900000+k)), []byte(fmt.Sprintf("H %d\n", 900000+k*100+i)), 1)
				outs[i] = b
			}(i, k)
		}
		wg.Wait()
		res = bytes.Join(outs, nil)
	} else {
		res = runWorkers(*count, *first, *workers, *tier, nil)
	}
	if *outPath != "" {
		must(os.WriteFile(*outPath, res, 0644))
	} else {
		os.Stdout.Write(res)
	}
}

func envOr(k, d string) string {
	if v := os.Getenv(k); v != "" {
		return v
	}
	return d
}

// ---------------------------------------------------------------- pending transactions shared with the removed wallet
const (
	pendingSharedFirst = 100
	pendingSharedCount = 4
	lateOwnerScenario  = 200
)

// lateOwner (probe, property C09 seen from the removal / restore side): B is removed; a transaction T in which B pays A
// (funded by one of B's coins, change to B) arrives unconfirmed — relevant through A's output, B's coin is a stranger's
// now; B is restored from its mnemonic while T is still pending. T is known, unconfirmed and relevant to a wallet: the
// coin of B it spends must be reported spent_by_unmined and must not be offered to transaction building.
func lateOwner(e *env, A, B *hist.WInfo, a1, b1 *hist.AddrInfo) {
	h, d := e.h, e.d
	c := e.pick(b1.Sh)
	t := hist.PayTx(c, []sim.Out{{Script: h.ScriptStd(b1), Value: 1}, {Script: h.ScriptStd(a1), Value: 200}})
	mn, pass := B.Mnemo, B.Pass
	e.plainRemove(B)
	h.RetireWallet(B)
	rel, err := h.W.H.VerifReceiveTx(t)
	if err != nil || !rel {
		panic(fmt.Sprintf("pending transaction not accepted: relevant=%v err=%v", rel, err))
	}
	d.G.Arm()
	wi, err := h.ImportMnemonic(B.Num, mn, pass, d.Pass(pass))
	must(err)
	st, ok := d.RunImport(wi, nil, stepTimeout)
	h.IEmit("C import-ended %s %v", st, ok)
	d.Settle()
	h.AdoptWallet(wi)
	o := h.W.Observe(wi.ID)
	found, flagged := false, false
	for _, u := range o.Utxos {
		if u.TxID == c.Op.Hash.String() && u.Vout == c.Op.Index {
			found, flagged = true, u.SpentUnmined
		}
	}
	h.IEmit("C lateowner coin-listed=%v flagged=%v", found, flagged)
	if found && !flagged {
		h.IEmit("V unflagged:wallet-restored-while-pending wallet %d restored while a known unconfirmed transaction spends its coin: the coin is listed without spent_by_unmined", wi.Num)
	}
}

// pendingShared: a PENDING transaction T touches both the wallet that is removed (B) and the survivor (A):
//
//	v%2 == 0  B pays A (funded by B's coin, change to B)      v%2 == 1  A pays B (funded by A's coin, change to A)
//	v/2 == 0  plain removal                                   v/2 == 1  a restart between the removal steps
//
// After the removal A's coins of T must still be there and readable (signing / explicit-input building look the
// pending transaction up), its spent coin must still be flagged; then T is mined and A's report is the chain's.
func pendingShared(e *env, A, B *hist.WInfo, a1, b1 *hist.AddrInfo, v int) {
	h, d := e.h, e.d
	var t *wire.MsgTx
	if v%2 == 0 {
		t = hist.PayTx(e.pick(b1.Sh), []sim.Out{{Script: h.ScriptStd(b1), Value: 1}, {Script: h.ScriptStd(a1), Value: 200}})
	} else {
		t = hist.PayTx(e.pick(a1.Sh), []sim.Out{{Script: h.ScriptStd(a1), Value: 1}, {Script: h.ScriptStd(b1), Value: 200}})
	}
	rel, err := h.W.H.VerifReceiveTx(t)
	if err != nil || !rel {
		panic(fmt.Sprintf("pending transaction not accepted: relevant=%v err=%v", rel, err))
	}
	pend := []*wire.MsgTx{t}
	before := h.PendingCoinsOf(A, pend)
	if before == "" {
		panic("the survivor has no coin of the pending transaction")
	}
	h.Query()
	if v/2 == 0 {
		e.plainRemove(B)
	} else {
		h.W.Barrier()
		d.G.Arm()
		must(h.W.WM.RemoveWallet(B.ID, B.Pass))
		h.IEmit("R req %d %d ok", B.Num, d.Pass(B.Pass))
		restarted := false
		_, ok := d.RunRemove(B, func(kind string, step int, status string) string {
			if kind == "remove" && step == 1 && !restarted {
				restarted = true
				return "restart"
			}
			return ""
		}, nil, stepTimeout)
		if !ok {
			panic("removal did not finish")
		}
		d.Settle()
	}
	if after := h.PendingCoinsOf(A, pend); after != before {
		h.IEmit("V survivor-pending-coins-changed wallet %d after removing wallet %d: before [%s] after [%s]", A.Num, B.Num,
			strings.ReplaceAll(before, " ", ","), strings.ReplaceAll(after, " ", ","))
	}
	h.Listing()
	h.RetireWallet(B)
	h.Query()
	// T confirms: the survivor's ledger is the chain's
	e.attach(h.BlockWith(nil, []*wire.MsgTx{t}))
	h.Query()
	e.attach(h.BlockWith(nil, nil))
	h.Query()
}
