// c14: runs hdkeychain.NewMaster / Child / Neuter / String / NewKeyFromString and the path
// helpers of keystore/hd.go on generated inputs. One observation per line, TAB separated:
//
//	kind  input  impl  ref  shape  table
//
// impl  = what the real code returned (ok + every field, raw stored key included, or err <kind>)
// ref   = what the independent BIP-32 implementation of ref.go returns for the same input
// shape = "short-hardened" when some step of the case is a hardened child of a private parent
//
//	whose stored key is shorter than 32 bytes (the recorded known finding), else "-"
//
// table = true input->output pairs of the primitives (HMAC-SHA512, k*G, point addition, point
//
//	(de)serialisation, hash160, double SHA-256, base58) for every question the code, the
//	model of the code and the specification may ask on this case.
//
// The first line is CONST: the constants of the linked packages the model restates.
package main

import (
	"bufio"
	"encoding/hex"
	"flag"
	"fmt"
	"math/big"
	"os"
	"strconv"
	"strings"

	"github.com/btcsuite/btcd/btcec"
	"github.com/massnetorg/mass-core/config"
	"massnet.org/mass-wallet/masswallet/keystore"
	"massnet.org/mass-wallet/masswallet/keystore/hdkeychain"
	"verifharness/internal/rng"
)

type fields = hdkeychain.VerifFields

const hard = uint32(0x80000000)

var out *bufio.Writer
var dist = map[string]int{}
var nlines int

func mk(f fields) *hdkeychain.ExtendedKey {
	return hdkeychain.NewExtendedKey(dup(f.Version), dup(f.Key), dup(f.ChainCode), dup(f.ParentFP), f.Depth, f.ChildNum, f.IsPrivate)
}
func dup(b []byte) []byte { return append([]byte{}, b...) }
func b2i(b bool) int {
	if b {
		return 1
	}
	return 0
}
func encFields(f fields) string {
	return fmt.Sprintf("%s:%s:%s:%s:%d:%d:%d", hx(f.Version), hx(f.Key), hx(f.ChainCode), hx(f.ParentFP), f.Depth, f.ChildNum, b2i(f.IsPrivate))
}
func decFields(s string) fields {
	p := strings.Split(s, ":")
	d, _ := strconv.Atoi(p[4])
	n, _ := strconv.ParseUint(p[5], 10, 32)
	return fields{Version: unhex(p[0]), Key: unhex(p[1]), ChainCode: unhex(p[2]), ParentFP: unhex(p[3]), Depth: uint8(d), ChildNum: uint32(n), IsPrivate: p[6] == "1"}
}
func unhex(s string) []byte { b, _ := hex.DecodeString(s); return b }

func errName(err error) string {
	switch err {
	case hdkeychain.ErrInvalidSeedLen:
		return "EInvalidSeedLen"
	case hdkeychain.ErrUnusableSeed:
		return "EUnusableSeed"
	case hdkeychain.ErrDeriveHardFromPublic:
		return "EDeriveHardFromPublic"
	case hdkeychain.ErrDeriveBeyondMaxDepth:
		return "EDeriveBeyondMaxDepth"
	case hdkeychain.ErrInvalidChild:
		return "EInvalidChild"
	case hdkeychain.ErrBadChecksum:
		return "EBadChecksum"
	case hdkeychain.ErrInvalidKeyLen:
		return "EInvalidKeyLen"
	case config.ErrUnknownHDKeyID:
		return "EUnknownHDKeyID"
	case keystore.ErrInvalidCoinType:
		return "EInvalidCoinType"
	case keystore.ErrInvalidAccountNumber:
		return "EInvalidAccountNumber"
	}
	return "EPubKeyParse" // any error of btcec.ParsePubKey
}

// fmtImpl: every field of a key the real code produced.
func fmtImpl(k *hdkeychain.ExtendedKey) string {
	f := k.VerifFields()
	api := "-"
	if f.IsPrivate {
		if pk, err := k.ECPrivKey(); err == nil {
			api = hx(pk.Serialize())
		}
	} else {
		api = hx(f.Key)
	}
	pub := "-"
	if pk, err := k.ECPubKey(); err == nil {
		pub = hx(pk.SerializeCompressed())
	}
	return "ok " + encFields(f) + "|" + api + "|" + pub + "|" + hx([]byte(k.String()))
}
func res(k *hdkeychain.ExtendedKey, err error) string {
	if err != nil {
		return "err " + errName(err)
	}
	return fmtImpl(k)
}
func guard(f func() string) (r string) {
	defer func() {
		if e := recover(); e != nil {
			r = "panic"
		}
	}()
	return f()
}

// fmtRef: the same observables of a key of the independent implementation (no stored form).
func (p *prims) fmtRef(x *xkey, e string) string {
	if e != "" {
		return "err " + e
	}
	var api []byte
	if x.priv {
		api = ser256(x.k)
	} else {
		api = p.ser(x.K)
	}
	pub := p.ser(p.pointOf(x))
	return fmt.Sprintf("ok %s:-:%s:%s:%d:%d:%d|%s|%s|%s", hx(x.ver), hx(x.c), hx(x.fp), x.depth, x.num, b2i(x.priv), hx(api), hx(pub), hx([]byte(p.refString(x))))
}

// refOfFields: the specification key a stored key denotes.
func (p *prims) refOfFields(f fields) (*xkey, string) {
	x := &xkey{priv: f.IsPrivate, c: f.ChainCode, depth: int(f.Depth), fp: f.ParentFP, num: f.ChildNum, ver: f.Version}
	if f.IsPrivate {
		x.k = new(big.Int).SetBytes(f.Key)
		return x, ""
	}
	K, ok := p.parse(f.Key)
	if !ok {
		return nil, "EPubKeyParse"
	}
	x.K = K
	return x, ""
}

// ---------------------------------------------------------------- anticipated questions
// The real code calls crypto/hmac, btcec, ... directly, so its calls cannot be intercepted.
// These helpers put into the table the answers to the questions a Child / String / ... call
// of that shape asks (both the padded and the unpadded form of the hardened HMAC input).

func fillN(n int, src []byte) []byte {
	out := make([]byte, n)
	copy(out, src)
	return out
}
func leftPad(n int, src []byte) []byte {
	if len(src) >= n {
		return src
	}
	out := make([]byte, n)
	copy(out[n-len(src):], src)
	return out
}

func (p *prims) antKey(f fields) {
	var pub []byte
	if f.IsPrivate {
		pub = p.ser(p.mulG(new(big.Int).SetBytes(f.Key)))
	} else {
		pub = f.Key
	}
	if P, ok := p.parse(pub); ok {
		p.ser(P)
	}
	p.hash160(pub)
	kd := pub
	if f.IsPrivate {
		kd = cat([]byte{0}, leftPad(32, f.Key))
	}
	payload := cat(f.Version, []byte{f.Depth}, f.ParentFP, ser32(f.ChildNum), f.ChainCode, kd)
	cs := p.dsha(payload)[:4]
	p.b58enc(cat(payload, cs))
}

func (p *prims) antNeuter(f fields) {
	p.antKey(f)
	if f.IsPrivate {
		g := f
		g.Key = p.ser(p.mulG(new(big.Int).SetBytes(f.Key)))
		g.IsPrivate = false
		g.Version = xpubVer
		p.antKey(g)
	}
}

func (p *prims) antChild(f fields, i uint32) {
	var pub []byte
	var P pt
	havePar := false
	k := new(big.Int).SetBytes(f.Key)
	if f.IsPrivate {
		P = p.mulG(k)
		pub = p.ser(P)
		havePar = true
	} else {
		pub = f.Key
		P, havePar = p.parse(pub)
	}
	fp := p.hash160(pub)[:4]
	var datas [][]byte
	if i >= hard {
		datas = [][]byte{cat([]byte{0}, fillN(32, f.Key), ser32(i)), cat([]byte{0}, ser256(k), ser32(i))}
	} else {
		datas = [][]byte{cat(fillN(33, pub), ser32(i))}
	}
	for _, data := range datas {
		I := p.hmac(f.ChainCode, data)
		il := parse256(I[:32])
		Q := p.mulG(il)
		p.ser(Q)
		c := fields{ChainCode: I[32:], ParentFP: fp, Version: f.Version, Depth: f.Depth + 1, ChildNum: i, IsPrivate: f.IsPrivate}
		if f.IsPrivate {
			s := new(big.Int).Add(il, k)
			s.Mod(s, curveN)
			c.Key = s.Bytes()
			p.antNeuter(c)
		} else if havePar {
			c.Key = p.ser(p.add(Q, P))
			p.antKey(c)
		}
	}
}

func shortHardened(f fields, i uint32) bool {
	return f.IsPrivate && len(f.Key) < 32 && i >= hard
}

func emit(kind, input, impl, ref, shape string, t *table) {
	if shape == "" {
		shape = "-"
	}
	fmt.Fprintf(out, "%s\t%s\t%s\t%s\t%s\t%s\n", kind, input, impl, ref, shape, t.String())
	nlines++
	dist[kind]++
}

// ---------------------------------------------------------------- cases

func caseMaster(ver, seed []byte) {
	p := &prims{newTable()}
	impl := guard(func() string {
		net := config.ChainParams
		copy(net.HDPrivateKeyID[:], ver)
		return res(hdkeychain.NewMaster(seed, &net))
	})
	x, e := p.refMaster(ver, seed)
	ref := p.fmtRef(x, e)
	if k, err := hdkeychain.NewMaster(seed, &config.ChainParams); err == nil {
		f := k.VerifFields()
		f.Version = ver
		p.antKey(f)
	}
	emit("MASTER", hx(ver)+","+hx(seed), impl, ref, "", p.t)
}

// warm lists operations performed on the SAME key object before the observed Child call:
// Child must be a function of (parent fields, index) only, whatever the object did before
// (other children of either kind, Neuter, String, ...).
var warm []uint32

func used(k *hdkeychain.ExtendedKey) *hdkeychain.ExtendedKey {
	for _, w := range warm {
		switch w {
		case 0xfffffffe:
			k.Neuter()
		case 0xfffffffd:
			_ = k.String()
		default:
			k.Child(w)
		}
	}
	return k
}

func caseChild(f fields, i uint32) {
	p := &prims{newTable()}
	impl := guard(func() string { return res(used(mk(f)).Child(i)) })
	var ref string
	if x, e := p.refOfFields(f); e != "" {
		ref = "err " + e
	} else {
		c, e2 := p.refCKD(x, i)
		ref = p.fmtRef(c, e2)
	}
	p.antChild(f, i)
	sh := ""
	if shortHardened(f, i) {
		sh = "short-hardened"
	}
	emit("CHILD", encFields(f)+","+strconv.FormatUint(uint64(i), 10), impl, ref, sh, p.t)
}

func caseNeuter(f fields) {
	p := &prims{newTable()}
	impl := guard(func() string { return res(mk(f).Neuter()) })
	var ref string
	if x, e := p.refOfFields(f); e != "" {
		ref = "err " + e
	} else {
		c, e2 := p.refNeuter(x)
		ref = p.fmtRef(c, e2)
	}
	p.antNeuter(f)
	emit("NEUTER", encFields(f), impl, ref, "", p.t)
}

func caseString(f fields) string {
	p := &prims{newTable()}
	s := ""
	impl := guard(func() string { s = mk(f).String(); return "ok " + hx([]byte(s)) })
	var ref string
	if x, e := p.refOfFields(f); e != "" {
		ref = "err " + e
	} else {
		ref = "ok " + hx([]byte(p.refString(x)))
	}
	p.antKey(f)
	emit("STRING", encFields(f), impl, ref, "", p.t)
	return s
}

func caseParse(tag, s string) {
	p := &prims{newTable()}
	impl := guard(func() string { return res(hdkeychain.NewKeyFromString(s)) })
	x, e := p.refParse(s)
	ref := p.fmtRef(x, e)
	d := p.b58dec(s)
	if len(d) >= 4 {
		p.dsha(d[:len(d)-4])
	}
	if len(d) == 82 {
		kd := d[45:78]
		f := fields{Version: d[0:4], Depth: d[4], ParentFP: d[5:9], ChildNum: uint32(d[9])<<24 | uint32(d[10])<<16 | uint32(d[11])<<8 | uint32(d[12]), ChainCode: d[13:45]}
		if kd[0] == 0 {
			f.IsPrivate, f.Key = true, kd[1:]
			p.antKey(f)
		} else if _, ok := p.parse(kd); ok {
			f.Key = kd
			p.antKey(f)
		}
	}
	emit("PARSE", tag+","+hx([]byte(s)), impl, ref, "", p.t)
	dist["parse:"+tag]++
}

// casePChild: parse a serialised key, then derive a child from the PARSED object (restored keys are where
// children are derived from in practice): NewKeyFromString(s).Child(i) against parse-then-CKD of the specification.
func casePChild(s string, i uint32) {
	p := &prims{newTable()}
	var pf *fields
	impl := guard(func() string {
		k, err := hdkeychain.NewKeyFromString(s)
		if err != nil {
			return res(nil, err)
		}
		f := k.VerifFields()
		pf = &f
		return res(k.Child(i))
	})
	var ref string
	if x, e := p.refParse(s); e != "" {
		ref = "err " + e
	} else {
		c, e2 := p.refCKD(x, i)
		ref = p.fmtRef(c, e2)
	}
	d := p.b58dec(s)
	if len(d) >= 4 {
		p.dsha(d[:len(d)-4])
	}
	if len(d) == 82 {
		kd := d[45:78]
		f := fields{Version: d[0:4], Depth: d[4], ParentFP: d[5:9], ChildNum: uint32(d[9])<<24 | uint32(d[10])<<16 | uint32(d[11])<<8 | uint32(d[12]), ChainCode: d[13:45]}
		if kd[0] == 0 {
			f.IsPrivate, f.Key = true, kd[1:]
			p.antKey(f)
			p.antChild(f, i)
		} else if _, ok := p.parse(kd); ok {
			f.Key = kd
			p.antKey(f)
			p.antChild(f, i)
		}
	}
	if pf != nil {
		p.antChild(*pf, i) // the questions the real code asks on the fields it actually stored
	}
	emit("PCHILD", hx([]byte(s))+","+strconv.FormatUint(uint64(i), 10), impl, ref, "", p.t)
}

func pathStr(path []uint32) string {
	s := make([]string, len(path))
	for i, v := range path {
		s[i] = strconv.FormatUint(uint64(v), 10)
	}
	return strings.Join(s, "/")
}

// casePath: NewMaster, then Child along the path; observation = final key ; its Neuter.
func casePath(ver, seed []byte, path []uint32) (short bool) {
	p := &prims{newTable()}
	net := config.ChainParams
	copy(net.HDPrivateKeyID[:], ver)
	sh := ""
	impl := guard(func() string {
		k, err := hdkeychain.NewMaster(seed, &net)
		if err != nil {
			return "err " + errName(err) + ";-"
		}
		for _, i := range path {
			f := k.VerifFields()
			p.antChild(f, i)
			if shortHardened(f, i) {
				sh = "short-hardened"
			}
			k, err = k.Child(i)
			if err != nil {
				return "err " + errName(err) + ";-"
			}
		}
		p.antNeuter(k.VerifFields())
		a := fmtImpl(k)
		return a + ";" + res(k.Neuter())
	})
	ref := func() string {
		x, e := p.refMaster(ver, seed)
		if e != "" {
			return "err " + e + ";-"
		}
		for _, i := range path {
			x, e = p.refCKD(x, i)
			if e != "" {
				return "err " + e + ";-"
			}
		}
		n, e2 := p.refNeuter(x)
		return p.fmtRef(x, "") + ";" + p.fmtRef(n, e2)
	}()
	emit("PATH", hx(ver)+","+hx(seed)+","+pathStr(path), impl, ref, sh, p.t)
	return sh != ""
}

// caseCommute: Neuter(Child(k,i)) against Child(Neuter(k), i).
func caseCommute(f fields, i uint32) {
	p := &prims{newTable()}
	impl := guard(func() string {
		k := mk(f)
		var a, b string
		if c, err := k.Child(i); err != nil {
			a = "err " + errName(err)
		} else {
			p.antNeuter(c.VerifFields())
			a = res(c.Neuter())
		}
		if n, err := k.Neuter(); err != nil {
			b = "err " + errName(err)
		} else {
			p.antChild(n.VerifFields(), i)
			b = res(n.Child(i))
		}
		return a + ";" + b
	})
	p.antChild(f, i)
	p.antNeuter(f)
	ref := func() string {
		x, e := p.refOfFields(f)
		if e != "" {
			return "err " + e + ";err " + e
		}
		var a, b string
		if c, e := p.refCKD(x, i); e != "" {
			a = "err " + e
		} else {
			n, e2 := p.refNeuter(c)
			a = p.fmtRef(n, e2)
		}
		if n, e := p.refNeuter(x); e != "" {
			b = "err " + e
		} else {
			c, e2 := p.refCKD(n, i)
			b = p.fmtRef(c, e2)
		}
		return a + ";" + b
	}()
	emit("COMMUTE", encFields(f)+","+strconv.FormatUint(uint64(i), 10), impl, ref, "", p.t)
}

// caseHD: the wallet path m/purpose'/coin'/account' of keystore/hd.go and checkBranchKeys.
func caseHD(seed []byte, purpose, coin, account uint32) (short bool) {
	p := &prims{newTable()}
	ver := xprvVer
	sh := ""
	step := func(k *hdkeychain.ExtendedKey, i uint32) {
		f := k.VerifFields()
		p.antChild(f, i)
		if shortHardened(f, i) {
			sh = "short-hardened"
		}
	}
	impl := guard(func() string {
		m, err := hdkeychain.NewMaster(seed, &config.ChainParams)
		if err != nil {
			return "err " + errName(err) + ";-;-"
		}
		step(m, purpose+hard)
		if pk, err := m.Child(purpose + hard); err == nil {
			step(pk, coin+hard)
		}
		ck, err := keystore.VerifDeriveCoinTypeKey(m, purpose, coin)
		if err != nil {
			return "err " + errName(err) + ";-;-"
		}
		p.antKey(ck.VerifFields())
		step(ck, account+hard)
		ak, err := keystore.VerifDeriveAccountKey(ck, account)
		if err != nil {
			return fmtImpl(ck) + ";err " + errName(err) + ";-"
		}
		p.antKey(ak.VerifFields())
		step(ak, 0)
		step(ak, 1)
		br := "ok"
		if err := keystore.VerifCheckBranchKeys(ak); err != nil {
			br = "err " + errName(err)
		}
		return fmtImpl(ck) + ";" + fmtImpl(ak) + ";" + br
	})
	ref := func() string {
		m, e := p.refMaster(ver, seed)
		if e != "" {
			return "err " + e + ";-;-"
		}
		if coin > 0x7fffffff {
			return "err EInvalidCoinType;-;-"
		}
		pk, e := p.refCKD(m, purpose+hard)
		if e != "" {
			return "err " + e + ";-;-"
		}
		ck, e := p.refCKD(pk, coin+hard)
		if e != "" {
			return "err " + e + ";-;-"
		}
		if account > 0x7ffffffe {
			return p.fmtRef(ck, "") + ";err EInvalidAccountNumber;-"
		}
		ak, e := p.refCKD(ck, account+hard)
		if e != "" {
			return p.fmtRef(ck, "") + ";err " + e + ";-"
		}
		br := "ok"
		for _, b := range []uint32{0, 1} {
			if _, e := p.refCKD(ak, b); e != "" {
				br = "err " + e
				break
			}
		}
		return p.fmtRef(ck, "") + ";" + p.fmtRef(ak, "") + ";" + br
	}()
	emit("HD", fmt.Sprintf("%s,%d,%d,%d", hx(seed), purpose, coin, account), impl, ref, sh, p.t)
	return sh != ""
}


// ---------------------------------------------------------------- object-graph cases (value semantics)
// The model treats keys as immutable values; the real ExtendedKey is a mutable object with memoised
// fields and a Zero method that wipes slices in place (the keystore zeroes intermediate keys after every
// address derivation). OBJ / OBJN observe a key object AFTER other objects derived from the same parent
// (or from the key itself) were created, used and zeroed: the observed key must still be Child(parent, i)
// (resp. Neuter(parent)). A shared backing array between two key objects shows up here.
// script: ops joined by '.', executed in order on parent object P and observed object B:
//   B      B := P.Child(i)  (OBJ)  /  B := P.Neuter()  (OBJN)        exactly once
//   a<j>   A := P.Child(j); A.Zero()         (sibling, before or after B)
//   u<j>   A := P.Child(j); _ = A.String()   (sibling kept alive, used)
//   n      N := P.Neuter(); N.Zero()
//   c<k>   G := B.Child(k); G.Zero()         (only after B)
//   m      M := B.Neuter(); M.Zero()         (only after B)
//   s      _ = B.String()                    (only after B)
//   p      P.Zero()                          (only after B; later ops on P are skipped)
func runObjScript(f fields, i uint32, script string, neuter bool) string {
	return guard(func() string {
		P := mk(f)
		var B *hdkeychain.ExtendedKey
		var berr error
		pz := false
		for _, op := range strings.Split(script, ".") {
			if op == "" {
				continue
			}
			arg := uint32(0)
			if len(op) > 1 {
				v, _ := strconv.ParseUint(op[1:], 10, 32)
				arg = uint32(v)
			}
			switch op[0] {
			case 'B':
				if neuter {
					B, berr = P.Neuter()
				} else {
					B, berr = P.Child(i)
				}
			case 'a':
				if !pz {
					if A, err := P.Child(arg); err == nil {
						A.Zero()
					}
				}
			case 'u':
				if !pz {
					if A, err := P.Child(arg); err == nil {
						_ = A.String()
					}
				}
			case 'n':
				if !pz {
					if N, err := P.Neuter(); err == nil && N != P {
						N.Zero()
					}
				}
			case 'c':
				if B != nil && berr == nil {
					if G, err := B.Child(arg); err == nil {
						G.Zero()
					}
				}
			case 'm':
				if B != nil && berr == nil {
					if M, err := B.Neuter(); err == nil && M != B {
						M.Zero()
					}
				}
			case 's':
				if B != nil && berr == nil {
					_ = B.String()
				}
			case 'p':
				if B != nil && B != P {
					P.Zero()
					pz = true
				}
			}
		}
		return res(B, berr)
	})
}

func caseObj(f fields, i uint32, script string) {
	p := &prims{newTable()}
	impl := runObjScript(f, i, script, false)
	var ref string
	if x, e := p.refOfFields(f); e != "" {
		ref = "err " + e
	} else {
		c, e2 := p.refCKD(x, i)
		ref = p.fmtRef(c, e2)
	}
	p.antChild(f, i)
	sh := ""
	if shortHardened(f, i) {
		sh = "short-hardened"
	}
	emit("OBJ", encFields(f)+","+strconv.FormatUint(uint64(i), 10)+","+script, impl, ref, sh, p.t)
}

func caseObjNeuter(f fields, script string) {
	p := &prims{newTable()}
	impl := runObjScript(f, 0, script, true)
	var ref string
	if x, e := p.refOfFields(f); e != "" {
		ref = "err " + e
	} else {
		c, e2 := p.refNeuter(x)
		ref = p.fmtRef(c, e2)
	}
	p.antNeuter(f)
	emit("OBJN", encFields(f)+","+script, impl, ref, "", p.t)
}

func genObjScript(r *rng.R, neuter bool) string {
	idx := func() string {
		if r.Chance(35) {
			return strconv.FormatUint(uint64(0x80000000+uint32(r.Intn(40))), 10)
		}
		return strconv.Itoa(r.Intn(40))
	}
	var ops []string
	for j, n := 0, r.Intn(3); j < n; j++ { // before B
		switch r.Intn(4) {
		case 0, 1:
			ops = append(ops, "a"+idx())
		case 2:
			ops = append(ops, "u"+idx())
		default:
			ops = append(ops, "n")
		}
	}
	ops = append(ops, "B")
	for j, n := 0, 1+r.Intn(4); j < n; j++ { // after B
		switch r.Intn(8) {
		case 0, 1:
			ops = append(ops, "a"+idx())
		case 2:
			ops = append(ops, "n")
		case 3:
			if !neuter {
				ops = append(ops, "c"+idx())
			} else {
				ops = append(ops, "s")
			}
		case 4:
			if !neuter {
				ops = append(ops, "m")
			} else {
				ops = append(ops, "a"+idx())
			}
		case 5:
			ops = append(ops, "s")
		case 6:
			ops = append(ops, "u"+idx())
		default:
			ops = append(ops, "p")
		}
	}
	return strings.Join(ops, ".")
}

// ---------------------------------------------------------------- generators

var idxBoundaries = []uint32{0, 1, 0x7fffffff, 0x80000000, 0x80000001, 0xffffffff, 44 + hard, 297 + hard}

func genIndex(r *rng.R) uint32 {
	switch k := r.Intn(10); {
	case k < 2:
		return idxBoundaries[r.Intn(len(idxBoundaries))]
	case k < 5:
		return uint32(r.Intn(20))
	case k < 8:
		return hard + uint32(r.Intn(20))
	default:
		return uint32(r.U64())
	}
}
func genSeed(r *rng.R) []byte {
	switch k := r.Intn(10); {
	case k < 4:
		return r.Bytes(32)
	case k < 6:
		return r.Bytes(16)
	case k < 7:
		return r.Bytes(64)
	default:
		return r.Bytes(16 + r.Intn(49))
	}
}
func genPath(r *rng.R, maxDepth int) []uint32 {
	n := r.Intn(maxDepth + 1)
	p := make([]uint32, n)
	for i := range p {
		p[i] = genIndex(r)
	}
	return p
}

// derive walks a path with the real code (used only to obtain realistic parents).
func derive(seed []byte, path []uint32) *hdkeychain.ExtendedKey {
	k, err := hdkeychain.NewMaster(seed, &config.ChainParams)
	if err != nil {
		return nil
	}
	for _, i := range path {
		k, err = k.Child(i)
		if err != nil {
			return nil
		}
	}
	return k
}

// findShortParent searches seeds until the private key at seed/path+[i] is stored with fewer
// than 32 bytes (about one child in 256); want = maximal stored length wanted.
func findShortParent(r *rng.R, prefix []uint32, want int) ([]byte, []uint32, *hdkeychain.ExtendedKey, int) {
	tries := 0
	for {
		seed := genSeed(r)
		base := derive(seed, prefix)
		if base == nil {
			continue
		}
		for j := 0; j < 64; j++ {
			tries++
			var i uint32
			if len(prefix) == 0 && j == 0 {
				i = 44 + hard
			} else {
				i = genIndex(r)
			}
			c, err := base.Child(i)
			if err != nil || !c.IsPrivate() {
				continue
			}
			if len(c.VerifFields().Key) <= want {
				return seed, append(append([]uint32{}, prefix...), i), c, tries
			}
		}
	}
}

func randomKey(r *rng.R) (fields, bool) {
	k := derive(genSeed(r), genPath(r, 4))
	if k == nil {
		return fields{}, false
	}
	if r.Chance(40) {
		n, err := k.Neuter()
		if err == nil {
			k = n
		}
	}
	return k.VerifFields(), true
}

func payloadOf(s string) []byte {
	p := &prims{newTable()}
	return p.b58dec(s)
}
func withChecksum(payload []byte) string {
	p := &prims{newTable()}
	return p.b58enc(cat(payload, p.dsha(payload)[:4]))
}

const b58alphabet = "123456789ABCDEFGHJKLMNPQRSTUVWXYZabcdefghijkmnopqrstuvwxyz"

func main() {
	tier := flag.String("tier", "quick", "quick|thorough")
	outPath := flag.String("out", "", "output file")
	replay := flag.String("replay", "", "replay one case: KIND:<input column>")
	flag.Parse()
	f := os.Stdout
	if *outPath != "" {
		var err error
		f, err = os.Create(*outPath)
		if err != nil {
			panic(err)
		}
		defer f.Close()
	}
	out = bufio.NewWriterSize(f, 1<<20)
	defer out.Flush()

	fmt.Fprintf(out, "CONST\tn=%s,p=%s,hardened=%d,minseed=%d,maxseed=%d,serlen=%d,master=%s,priv=%s,pub=%s,maxcoin=%d,maxacct=%d,ext=%d,int=%d\n",
		btcec.S256().N.Text(10), btcec.S256().P.Text(10), uint64(hdkeychain.HardenedKeyStart), hdkeychain.MinSeedBytes, hdkeychain.MaxSeedBytes,
		hdkeychain.VerifSerializedKeyLen, hx(hdkeychain.VerifMasterKey()), hx(config.ChainParams.HDPrivateKeyID[:]), hx(config.ChainParams.HDPublicKeyID[:]),
		uint64(hdkeychain.HardenedKeyStart-1), uint64(keystore.MaxAccountNum), keystore.ExternalBranch, keystore.InternalBranch)

	if *replay != "" {
		doReplay(*replay)
		return
	}

	r := rng.FromEnv(14)
	mult := 1
	if *tier == "thorough" {
		mult = 12
	}

	// --- corpus: the BIP-32 test vectors (seed, chain). Vector 4 is the "retention of leading
	// zeros" vector: m/0' has a private key with a leading zero byte, m/0'/1' is its hardened child.
	tv := []struct {
		seed string
		path []uint32
	}{
		{"000102030405060708090a0b0c0d0e0f", []uint32{hard, 1, 2 + hard, 2, 1000000000}},
		{"fffcf9f6f3f0edeae7e4e1dedbd8d5d2cfccc9c6c3c0bdbab7b4b1aeaba8a5a29f9c999693908d8a8784817e7b7875726f6c696663605d5a5754514e4b484542", []uint32{0, 2147483647 + hard, 1, 2147483646 + hard, 2}},
		{"4b381541583be4423346c643850da4b320e46a87ae3d2a4e6da11eba819cd4acba45d239319ac14f863b8d5ab5a0d0c64d2e8a1e7d1457df2e5a3c51c73235be", []uint32{hard}},
		{"3ddd5602285899a946114506157c7997e5444528f3003f6134712147db19b678", []uint32{hard, 1 + hard}},
	}
	for _, v := range tv {
		for d := 0; d <= len(v.path); d++ {
			casePath(xprvVer, unhex(v.seed), v.path[:d])
		}
	}

	// --- NewMaster: every length 0..70, then random legal seeds, other version bytes
	for l := 0; l <= 70; l++ {
		caseMaster(xprvVer, r.Bytes(l))
	}
	for i := 0; i < 60*mult; i++ {
		ver := xprvVer
		if r.Chance(20) {
			ver = r.Bytes(4)
		}
		caseMaster(ver, genSeed(r))
	}

	// --- random paths to depth 6 from random seeds
	shortHits := 0
	for i := 0; i < 500*mult; i++ {
		if casePath(xprvVer, genSeed(r), genPath(r, 6)) {
			shortHits++
		}
	}
	dist["path:short-hardened-hit"] = shortHits

	// --- single Child steps from realistic parents (private and public), boundary indexes
	for i := 0; i < 300*mult; i++ {
		kf, ok := randomKey(r)
		if !ok {
			continue
		}
		caseChild(kf, genIndex(r))
		// the same derivation on a key object that has already been used
		warm = nil
		for j, nw := 0, 1+r.Intn(3); j < nw; j++ {
			switch r.Intn(6) {
			case 0:
				warm = append(warm, 0xfffffffe)
			case 1:
				warm = append(warm, 0xfffffffd)
			case 2, 3:
				warm = append(warm, uint32(r.Intn(50)))
			default:
				warm = append(warm, 0x80000000+uint32(r.Intn(50)))
			}
		}
		caseChild(kf, genIndex(r))
		caseChild(kf, 0x80000000+uint32(r.Intn(100)))
		caseChild(kf, uint32(r.Intn(100)))
		warm = nil
	}
	// --- object graphs: the observed key after siblings / neutered copies / grandchildren / the parent were zeroed
	for i := 0; i < 200*mult; i++ {
		kf, ok := randomKey(r)
		if !ok {
			continue
		}
		caseObj(kf, genIndex(r), genObjScript(r, false))
		if i%3 == 0 {
			caseObjNeuter(kf, genObjScript(r, true))
		}
	}
	// directed: sibling derived first and zeroed, then the observed child; and the reverse order
	for i := 0; i < 6; i++ {
		if kf, ok := randomKey(r); ok {
			caseObj(kf, uint32(i), "a7.B")
			caseObj(kf, uint32(i), "B.a7")
			caseObj(kf, uint32(i), "B.c1.m.p")
			caseObjNeuter(kf, "B.p")
		}
	}
	for _, idx := range idxBoundaries {
		for j := 0; j < 2; j++ {
			if kf, ok := randomKey(r); ok {
				caseChild(kf, idx)
			}
		}
	}
	// depth overflow and neighbours; public parent with hardened index; odd constructed parents
	for i := 0; i < 6*mult; i++ {
		kf, ok := randomKey(r)
		if !ok {
			continue
		}
		for _, d := range []uint8{253, 254, 255} {
			g := kf
			g.Depth = d
			caseChild(g, genIndex(r))
			caseString(g)
		}
	}
	for i := 0; i < 4*mult; i++ { // public parent whose key bytes are not a curve point
		kf, ok := randomKey(r)
		if !ok || kf.IsPrivate {
			continue
		}
		g := kf
		g.Key = dup(kf.Key)
		g.Key[1+r.Intn(32)] ^= byte(1 + r.Intn(255))
		caseChild(g, uint32(r.Intn(5)))
		g.Key[0] = 4
		caseChild(g, uint32(r.Intn(5)))
	}

	// --- constructed parents whose stored private key lacks leading bytes
	nShort := 10 * mult
	for i := 0; i < nShort; i++ {
		prefix := genPath(r, 2)
		seed, path, c, tries := findShortParent(r, prefix, 31)
		dist["short:search-tries"] += tries
		cf := c.VerifFields()
		caseChild(cf, hard+uint32(r.Intn(10)))  // the recorded finding
		caseChild(cf, uint32(r.U64())|hard)     // again, arbitrary hardened index
		caseChild(cf, uint32(r.Intn(10)))       // normal child of the same parent: must be exact
		caseCommute(cf, uint32(r.Intn(1000)))   // public derivation from it too
		caseString(cf)                          // serialisation pads
		casePath(xprvVer, seed, append(append([]uint32{}, path...), hard+uint32(r.Intn(3))))
		casePath(xprvVer, seed, append(append([]uint32{}, path...), uint32(r.Intn(3)), hard))
		casePath(xprvVer, seed, append(append([]uint32{}, path...), hard, 0, 1))
	}
	if *tier == "thorough" { // two missing bytes: about one child in 65536
		_, _, c, tries := findShortParent(r, nil, 30)
		dist["short:search-tries-2bytes"] = tries
		cf := c.VerifFields()
		caseChild(cf, hard)
		caseChild(cf, 0)
		caseString(cf)
	}
	// synthetic stored keys with 1..31 missing bytes (reachable only with tiny probability, but
	// the state space of the type; the model must agree on them too)
	for i := 0; i < 20*mult; i++ {
		kf, ok := randomKey(r)
		if !ok || !kf.IsPrivate {
			continue
		}
		g := kf
		g.Key = new(big.Int).SetBytes(r.Bytes(1 + r.Intn(31))).Bytes()
		if len(g.Key) == 0 {
			continue
		}
		caseChild(g, hard+uint32(r.Intn(5)))
		caseChild(g, uint32(r.Intn(5)))
		s := caseString(g)
		caseParse("roundtrip-short", s)
	}
	// parse, then derive: serialised keys whose private scalar has 1..4 leading zero bytes (and ordinary ones),
	// hardened and normal children of the PARSED object
	for i := 0; i < 40*mult; i++ {
		kf, ok := randomKey(r)
		if !ok {
			continue
		}
		g := kf
		if g.IsPrivate && i%2 == 0 {
			k := append([]byte{}, g.Key...)
			for len(k) < 32 {
				k = append([]byte{0}, k...)
			}
			for z := 0; z < 1+r.Intn(4); z++ {
				k[z] = 0
			}
			g.Key = k
		}
		str := ""
		guard(func() string { str = mk(g).String(); return "" })
		if str == "" {
			continue
		}
		casePChild(str, hard+uint32(r.Intn(50)))
		casePChild(str, uint32(r.Intn(50)))
		casePChild(str, 0xffffffff)
	}

	// --- Neuter (known and unknown version bytes, public keys)
	for i := 0; i < 60*mult; i++ {
		kf, ok := randomKey(r)
		if !ok {
			continue
		}
		if r.Chance(25) {
			kf.Version = r.Bytes(4)
		}
		if r.Chance(5) {
			kf.Version = r.Bytes(r.Intn(7))
		}
		caseNeuter(kf)
	}

	// --- pub/priv commutation on realistic private parents
	for i := 0; i < 200*mult; i++ {
		kf, ok := randomKey(r)
		if !ok || !kf.IsPrivate {
			continue
		}
		idx := genIndex(r)
		if r.Chance(85) {
			idx &= 0x7fffffff
		}
		caseCommute(kf, idx)
	}

	// --- String, and NewKeyFromString(String(k))
	var strs []string
	for i := 0; i < 100*mult; i++ {
		kf, ok := randomKey(r)
		if !ok {
			continue
		}
		s := caseString(kf)
		caseParse("roundtrip", s)
		if len(strs) < 3*mult+3 {
			strs = append(strs, s)
		}
	}
	{ // one stored-short private key among the corruption subjects
		_, _, c, _ := findShortParent(r, nil, 31)
		strs = append(strs, caseString(c.VerifFields()))
	}

	// --- every single-byte corruption of serialised keys: each of the 82 bytes, each character
	nsub := 3
	reps := 1
	if *tier == "thorough" {
		nsub, reps = len(strs), 3
	}
	for si := 0; si < nsub && si < len(strs); si++ {
		s := strs[len(strs)-1-si]
		raw := payloadOf(s)
		for pos := 0; pos < len(raw); pos++ {
			for k := 0; k < reps; k++ {
				c := dup(raw)
				c[pos] ^= byte(1 + r.Intn(255))
				p := &prims{newTable()}
				caseParse("corrupt-byte", p.b58enc(c))
			}
		}
		for pos := 0; pos < len(s); pos++ {
			for k := 0; k < reps; k++ {
				b := []byte(s)
				for {
					nc := r.Pick(b58alphabet)
					if r.Chance(10) {
						nc = r.Pick("0OIl +/_")
					}
					if nc != b[pos] {
						b[pos] = nc
						break
					}
				}
				caseParse("corrupt-char", string(b))
			}
		}
		if *tier == "thorough" && si < 2 { // all 255 other values of a few positions
			for _, pos := range []int{0, 4, 12, 44, 45, 46, 77, 78, 81} {
				for v := 1; v < 256; v++ {
					c := dup(raw)
					c[pos] ^= byte(v)
					p := &prims{newTable()}
					caseParse("corrupt-byte", p.b58enc(c))
				}
			}
		}
	}

	// --- wrong lengths (with a correct checksum for that length), junk strings
	for l := 0; l <= 100; l += 1 + r.Intn(3) {
		if l == 78 {
			continue
		}
		caseParse("wrong-length", withChecksum(r.Bytes(l)))
	}
	for _, l := range []int{74, 76, 77, 79, 80, 82} {
		b := r.Bytes(l)
		b[45] = 0
		caseParse("wrong-length", withChecksum(b))
	}
	for _, s := range []string{"", "1", "xprv", "zeroed extended key", strings.Repeat("1", 82), strings.Repeat("z", 111), strings.Repeat("1", 111)} {
		caseParse("junk", s)
	}
	for i := 0; i < 10*mult; i++ {
		caseParse("junk", string(r.Bytes(r.Intn(130))))
	}

	// --- key material, correct length and checksum
	{
		base, _ := randomKey(r)
		for !base.IsPrivate {
			base, _ = randomKey(r)
		}
		hdr := cat(base.Version, []byte{base.Depth}, base.ParentFP, ser32(base.ChildNum), base.ChainCode)
		n := curveN
		for _, k := range []*big.Int{big.NewInt(0), big.NewInt(1), new(big.Int).Sub(n, big.NewInt(1)), n, new(big.Int).Add(n, big.NewInt(1)),
			new(big.Int).Sub(new(big.Int).Lsh(big.NewInt(1), 256), big.NewInt(1)), new(big.Int).Lsh(big.NewInt(1), 255)} {
			caseParse("priv-range", withChecksum(cat(hdr, []byte{0}, ser256(k))))
		}
		pubv := xpubVer
		hdrp := cat(pubv, []byte{base.Depth}, base.ParentFP, ser32(base.ChildNum), base.ChainCode)
		good := mk(base).VerifFields()
		_ = good
		for i := 0; i < 12*mult; i++ { // random x: about half are not on the curve
			caseParse("pub-random-x", withChecksum(cat(hdrp, []byte{byte(2 + r.Intn(2))}, r.Bytes(32))))
		}
		for _, pre := range []byte{1, 4, 5, 6, 7, 0xff} { // invalid prefixes with an on-curve x
			nk, _ := mk(base).Neuter()
			kb := nk.VerifFields().Key
			caseParse("pub-prefix", withChecksum(cat(hdrp, []byte{pre}, kb[1:])))
		}
		// x >= p whose reduction is on the curve: out of range for SEC1, btcec reduces silently
		cnt := 0
		for d := int64(0); d < 200 && cnt < 4; d++ {
			xr := big.NewInt(d)
			if onCurveCompressed(cat([]byte{2}, ser256(xr))) {
				x := new(big.Int).Add(curveP, xr)
				caseParse("pub-x-ge-p", withChecksum(cat(hdrp, []byte{byte(2 + cnt%2)}, ser256(x))))
				cnt++
			}
		}
		caseParse("pub-x-ge-p", withChecksum(cat(hdrp, []byte{2}, ser256(curveP))))
		// metadata the property text does not mention (BIP-32 test vector 5 kinds): counted only
		caseParse("meta-version-mismatch", withChecksum(cat(pubv, hdr[4:], []byte{0}, ser256(big.NewInt(7)))))
		caseParse("meta-depth0-fp", withChecksum(cat(base.Version, []byte{0}, []byte{1, 2, 3, 4}, ser32(0), base.ChainCode, []byte{0}, ser256(big.NewInt(7)))))
		caseParse("meta-unknown-version", withChecksum(cat([]byte{1, 2, 3, 4}, hdr[4:], []byte{0}, ser256(big.NewInt(7)))))
	}

	// --- keystore/hd.go: m/purpose'/coin'/account' and the branch check
	hdShort := 0
	nHD := 150 * mult
	for i := 0; i < nHD; i++ {
		coin := []uint32{297, 1}[r.Intn(2)]
		acct := uint32(r.Intn(3))
		purpose := uint32(44)
		if r.Chance(10) {
			coin = uint32(r.U64())
		}
		if r.Chance(10) {
			acct = uint32(r.U64())
		}
		if r.Chance(5) {
			purpose = uint32(r.U64())
		}
		if caseHD(genSeed(r), purpose, coin, acct) {
			hdShort++
		}
	}
	dist["hd:random-wallets"] = nHD
	dist["hd:random-wallets-hitting-short-parent"] = hdShort
	for _, c := range []uint32{0, 0x7ffffffe, 0x7fffffff, 0x80000000, 0xffffffff} {
		caseHD(genSeed(r), 44, c, 0)
		caseHD(genSeed(r), 44, 297, c)
	}
	caseHD(r.Bytes(8), 44, 297, 0)
	for i := 0; i < 2*mult; i++ { // wallets whose purpose key m/44' is stored short
		seed, _, _, _ := findShortParent(r, nil, 31)
		if derive(seed, []uint32{44 + hard}) != nil && len(derive(seed, []uint32{44 + hard}).VerifFields().Key) < 32 {
			caseHD(seed, 44, 297, 1)
		}
	}

	fmt.Fprintf(os.Stderr, "dist %v\n", dist)
}

func doReplay(c string) {
	i := strings.Index(c, ":")
	if i < 0 {
		return
	}
	kind, in := c[:i], c[i+1:]
	a := strings.Split(in, ",")
	u32 := func(s string) uint32 { v, _ := strconv.ParseUint(s, 10, 32); return uint32(v) }
	switch kind {
	case "MASTER":
		caseMaster(unhex(a[0]), unhex(a[1]))
	case "CHILD":
		caseChild(decFields(a[0]), u32(a[1]))
	case "PCHILD":
		casePChild(string(unhex(a[0])), u32(a[1]))
	case "OBJ":
		caseObj(decFields(a[0]), u32(a[1]), a[2])
	case "OBJN":
		caseObjNeuter(decFields(a[0]), a[1])
	case "NEUTER":
		caseNeuter(decFields(a[0]))
	case "STRING":
		caseString(decFields(a[0]))
	case "PARSE":
		caseParse(a[0], string(unhex(a[1])))
	case "PATH":
		var path []uint32
		if a[2] != "" {
			for _, s := range strings.Split(a[2], "/") {
				path = append(path, u32(s))
			}
		}
		casePath(unhex(a[0]), unhex(a[1]), path)
	case "COMMUTE":
		caseCommute(decFields(a[0]), u32(a[1]))
	case "HD":
		caseHD(unhex(a[0]), u32(a[1]), u32(a[2]), u32(a[3]))
	}
}
