// c06: crash-point enumeration on the real wallet.
// For every generated history (a script of concrete operations, internal/cfsim): one undisturbed
// replay (the twin) counts the write commits C; then for crash points k in 1..C (quick: a sample)
// the same script is replayed in a fresh directory with the database wrapper stopping the wallet
// right after commit k; the wallet is reopened on the same directory while the node has moved
// on, the remaining operations are issued, and the final reports are compared with the twin's.
// Output (one stream; the check splits it):
//   S <hist> ...statistics of the script and the twin
//   R <hist> <run> ks=.. moveon=.. crashes=<context,...> caughtup=n ok | VIOL <key> <text>
//   V <hist> <run> <key> <text>   a finding after which the run went on
//   M <line>     history lines (internal/hist format) of the twin and of every crashed replay,
//                for the extracted Ledger model (ocaml/C01 driver)
//   X <hist> harness-error ...
package main

import (
	"bufio"
	"flag"
	"fmt"
	"os"
	"strconv"
	"strings"

	"verifharness/internal/cfsim"
	"verifharness/internal/hist"
	"verifharness/internal/rng"
	"verifharness/internal/sim"
)

type stats struct {
	hist, ops, commits, runs, crashes, doubles, movedOn, caughtUp, noCrash, viol int
	ctx                                                                        map[string]int
	blocks, reorgs, imports, removes, creates, newaddr                         int
	importOnly, importOnlyFF, ioBelow                                          int
}

var st = stats{ctx: map[string]int{}}

func options(n int, long bool) cfsim.GenOptions {
	o := cfsim.GenOptions{Hist: hist.Options{Games: true, Lag: true, MaxReorg: 3}, Import: true, Remove: true, MinSteps: 8, MaxSteps: 26}
	if long {
		switch n % 40 {
		case 7: // import over more than one 1000-height batch
			o.Long, o.MinSteps, o.MaxSteps = 1030, 6, 10
		case 23: // restart more than 2000 blocks behind with no ready wallet: fast-forward
			o.Long, o.LongNoWallet, o.MinSteps, o.MaxSteps = 2060, true, 5, 8
			o.Remove = false
		}
	}
	return o
}

// importOnly: among the first 48 histories (the quick tier) every sixth one belongs to the import-only
// family (internal/cfsim/importonly.go: the only wallet of the database is being restored when the
// process stops, the node is reorganised and grows while it is down), beyond them every 24th; one in
// eight of the first and one in four of the others is long enough for the node to end more than 2000
// blocks above the stored tip (Start's fast-forward). With 48 histories and 8 worker processes every
// worker gets one of them.
func importOnly(n int) (member, ff bool) {
	if n%6 != 4 {
		return false, false
	}
	m := n / 6
	if n < 48 {
		return true, m%8 == 2
	}
	if m%4 != 0 {
		return false, false
	}
	return true, m%16 == 4
}

func emitModel(w *bufio.Writer, id string, lines []string) {
	for i, l := range lines {
		if i == 0 && strings.HasPrefix(l, "H ") {
			l = "H " + id
		}
		w.WriteString("M ")
		w.WriteString(l)
		w.WriteByte('\n')
	}
}

func one(w *bufio.Writer, seed uint64, n int, all bool, quota int, long bool, only string) {
	opt := options(n, long)
	io, ioFF := importOnly(n)
	if !long {
		io = false
	}
	var s *cfsim.Script
	var info *cfsim.IOInfo
	var err error
	if io {
		opt.Long, opt.LongNoWallet = 0, false
		quiet := 0
		if ioFF && (n/48)%2 == 0 {
			quiet = 1 // (the long history of the quick tier: the rescan finishes, the report is wrong)
		}
		s, info, err = cfsim.GenerateImportOnly(seed, n, cfsim.IOOptions{Hist: opt.Hist, FF: ioFF, QuietBranch: quiet})
	} else {
		s, err = cfsim.Generate(seed, n, opt)
	}
	if err != nil {
		fmt.Fprintf(w, "X %d harness-error generate: %v\n", n, err)
		return
	}
	twin, err := cfsim.RunTwin(s, false, false)
	if err != nil {
		fmt.Fprintf(w, "X %d harness-error %v\n", n, err)
		return
	}
	st.hist++
	st.ops += len(s.Ops)
	st.commits += twin.Commits
	st.blocks += s.Stats.Blocks
	st.reorgs += s.Stats.Reorgs
	st.imports += s.Stats.Imports
	st.removes += s.Stats.Removes
	st.creates += s.Stats.Creates
	st.newaddr += s.Stats.NewAddr
	foreign := 0
	for _, ws := range s.Wallets {
		if ws.Foreign {
			foreign = ws.Num
		}
	}
	fmt.Fprintf(w, "S %d ops=%d commits=%d blocks=%d reorgs=%d creates=%d newaddr=%d imports=%d removes=%d long=%d foreign=%d\n",
		n, len(s.Ops), twin.Commits, s.Stats.Blocks, s.Stats.Reorgs, s.Stats.Creates, s.Stats.NewAddr, s.Stats.Imports, s.Stats.Removes, opt.Long, foreign)
	if io {
		st.importOnly++
		if ioFF {
			st.importOnlyFF++
		}
		if info.Shape == "below-cursor" {
			st.ioBelow++
		}
		fmt.Fprintf(w, "S %d family=import-only shape=%s ff=%v quiet-branch=%v chainA=%d fork=%d abandoned=%d newtip=%d abandoned-blocks-paying-the-wallet-below-the-cursor=%d commits-of-the-restore=%d..%d foreign=%d\n",
			n, info.Shape, ioFF, info.Quiet, info.L, info.Fork, info.Depth, info.NewTip, info.PaidGone,
			twin.CommitsAt[info.ImportOp-1]+1, twin.CommitsAt[info.ImportOp+1], foreign)
	}
	emitModel(w, fmt.Sprintf("%d:twin", n), twin.Lines)

	r := rng.New(seed*977 + uint64(n)*13 + 5)
	type plan struct {
		ks     []int
		moveOn int
		drop   bool
	}
	var plans []plan
	if only != "" {
		// replay of one crashed run: "k1,k2/moveon[d]"  (d: lost announcements are dropped)
		parts := strings.Split(only, "/")
		var ks []int
		for _, f := range strings.Split(parts[0], ",") {
			v, _ := strconv.Atoi(f)
			ks = append(ks, v)
		}
		m, drop := 0, false
		if len(parts) > 1 {
			drop = strings.HasSuffix(parts[1], "d")
			m, _ = strconv.Atoi(strings.TrimSuffix(parts[1], "d"))
		}
		plans = append(plans, plan{ks, m, drop})
	} else if io {
		// every commit of the restore (ImportWalletWithMnemonic, then one per rescan batch) is a
		// crash point, the whole outage (reorganisation + growth) happens while the wallet is down
		c0, c1 := twin.CommitsAt[info.ImportOp-1], twin.CommitsAt[info.ImportOp+1]
		// (the announcements the dead process missed are lost: a late announcement of a block below
		// the stored tip would send the restarted wallet through a reorganisation of its own)
		for k := c0 + 1; k <= c1; k++ {
			if ioFF && !all && k == c1 && c1-c0 >= 2 {
				continue // (the long history, quick tier: the commit that finishes the rescan is left to the short ones)
			}
			plans = append(plans, plan{[]int{k}, 100000, true})
		}
		if c1-c0 >= 2 {
			kb := c1 - 1 // the last commit before the one that finishes the rescan: between two batches
			// ... the same with the missed announcements delivered late
			plans = append(plans, plan{[]int{kb}, 100000, false})
			// ... crash again while Start catches up / fast-forwards, or right after it
			plans = append(plans, plan{[]int{kb, 1 + r.Intn(4)}, 100000, true})
			// ... only a part of the outage happens while the wallet is down: the node is found
			// SHORTER than the stored tip (all detaches, a few attaches), the rest arrives live
			if info.Depth > 0 && (!ioFF || all) {
				plans = append(plans, plan{[]int{c0 + 1 + r.Intn(c1-c0)}, info.Depth + r.Intn(3), r.Chance(50)})
			}
		}
		if all {
			for x := 0; x < 4; x++ {
				plans = append(plans, plan{[]int{c0 + 1 + r.Intn(c1-c0), 1 + r.Intn(8)}, []int{100000, info.Depth, info.Outage / 2}[r.Intn(3)], r.Chance(50)})
			}
		}
	} else {
		C := twin.Commits
		var ks []int
		if all && C > 120 {
			// the thorough tier makes every commit a crash point, except in histories with more than 120 commits
			// (the 1000+ block chains: every crashed replay repeats the whole chain): a stratified sample of 48
			all, quota = false, 48
		}
		if all || C <= quota {
			for k := 1; k <= C; k++ {
				ks = append(ks, k)
			}
		} else {
			// stratified sample: the commits of wallet-changing operations and of the background
			// worker first, then random ones
			seen := map[int]bool{}
			var pri []int
			prev := 0
			for i, c := range twin.CommitsAt {
				k := s.Ops[i].Kind
				if c > prev && (k.Mutating() || k == cfsim.OpWait) {
					for x := prev + 1; x <= c; x++ {
						pri = append(pri, x)
					}
				}
				prev = c
			}
			for len(ks) < quota/2 && len(pri) > 0 {
				j := r.Intn(len(pri))
				if !seen[pri[j]] {
					seen[pri[j]] = true
					ks = append(ks, pri[j])
				}
				pri = append(pri[:j], pri[j+1:]...)
			}
			for len(ks) < quota {
				k := 1 + r.Intn(C)
				if !seen[k] {
					seen[k] = true
					ks = append(ks, k)
				}
			}
		}
		if opt.LongNoWallet {
			// restart more than 2000 blocks behind with no wallet at all: Start fast-forwards;
			// crash again in the middle of the fast-forward and of the catch-up
			plans = append(plans, plan{[]int{1}, 100000, true}, plan{[]int{2}, 100000, false}, plan{[]int{3, 25}, 100000, true},
				plan{[]int{2, 70, 10}, 100000, true})
			if len(ks) > 3 {
				ks = ks[:3]
			}
		}
		for _, k := range ks {
			m := r.Intn(4)
			if opt.LongNoWallet {
				m = 100000
			}
			p := plan{[]int{k}, m, r.Chance(50)}
			if r.Chance(25) {
				p.ks = append(p.ks, 1+r.Intn(6))
				if r.Chance(30) {
					p.ks = append(p.ks, 1+r.Intn(4))
				}
			}
			plans = append(plans, p)
		}
	}
	for _, p := range plans {
		res, err := cfsim.RunCrash(s, p.ks, p.moveOn, p.drop, twin)
		ksS := strings.Trim(strings.Replace(fmt.Sprint(p.ks), " ", ",", -1), "[]")
		id := fmt.Sprintf("%d:k%s/%d", n, ksS, p.moveOn)
		if p.drop {
			id += "d"
		}
		if err != nil {
			fmt.Fprintf(w, "X %d harness-error run %s: %v\n", n, id, err)
			continue
		}
		st.runs++
		var ctxs []string
		cu, mo := 0, 0
		for _, c := range res.Crashes {
			ctxs = append(ctxs, c.Context)
			st.ctx[c.Context]++
			cu += c.CaughtUp
			mo += c.MovedOn
		}
		st.crashes += len(res.Crashes)
		st.caughtUp += cu
		st.movedOn += mo
		if len(res.Crashes) >= 2 {
			st.doubles++
		}
		if len(res.Crashes) == 0 {
			st.noCrash++
		}
		for _, t := range res.Traces {
			st.viol++
			fmt.Fprintf(w, "V %d %s %s %s\n", n, id, t.Key, strings.Replace(t.What, "\n", " ", -1))
		}
		verdict := "ok"
		if res.Viol != nil {
			st.viol++
			verdict = "VIOL " + res.Viol.Key + " " + strings.Replace(res.Viol.What, "\n", " ", -1)
		}
		fmt.Fprintf(w, "R %d %s ks=%s moveon=%d crashes=%s caughtup=%d %s\n", n, id, ksS, p.moveOn, strings.Join(ctxs, ","), cu, verdict)
		if len(res.Crashes) > 0 && (res.Viol == nil || res.Viol.Key == "addressbook-row-lost-by-rollback") {
			emitModel(w, id, res.Lines)
		}
	}
}

func main() {
	count := flag.Int("n", 40, "number of histories")
	outPath := flag.String("out", "", "output file")
	workers := flag.Int("j", 12, "parallel worker processes")
	first := flag.Int("first", 0, "index of the first history")
	worker := flag.Bool("worker", false, "internal: run sequentially and print to stdout")
	all := flag.Bool("all", false, "every commit of every history is a crash point")
	quota := flag.Int("quota", 8, "crash points per history when sampling")
	long := flag.Bool("long", true, "include the long histories (import batches, fast-forward)")
	only := flag.String("only", "", "replay one crashed run: k1[,k2...]/moveon")
	flag.Parse()
	if !*worker {
		if err := hist.ParallelSelf(*count, *first, *workers, *outPath, os.Args[1:]); err != nil {
			fmt.Fprintln(os.Stderr, err)
			os.Exit(2)
		}
		return
	}
	sim.Init(sim.Params{CoinbaseMaturity: 4, MinFrozenPeriod: 2, GapLimit: 20})
	seed := rng.Seed()
	w := bufio.NewWriter(os.Stdout)
	for i := 0; i < *count; i++ {
		one(w, seed, *first+i, *all, *quota, *long, *only)
		w.Flush()
	}
	var cs []string
	for k, v := range st.ctx {
		cs = append(cs, fmt.Sprintf("ctx_%s=%d", strings.Replace(k, "-", "_", -1), v))
	}
	fmt.Fprintf(os.Stderr, "STATS histories=%d ops=%d commits=%d crashed_runs=%d crashes=%d multi_crash_runs=%d node_ops_while_down=%d blocks_caught_up=%d no_crash=%d divergences=%d blocks=%d reorgs=%d creates=%d newaddr=%d imports=%d removes=%d import_only_histories=%d import_only_ff=%d import_only_fork_below_cursor=%d %s\n",
		st.hist, st.ops, st.commits, st.runs, st.crashes, st.doubles, st.movedOn, st.caughtUp, st.noCrash, st.viol,
		st.blocks, st.reorgs, st.creates, st.newaddr, st.imports, st.removes, st.importOnly, st.importOnlyFF, st.ioBelow, strings.Join(cs, " "))
}
