// c04: wallet id and addresses as a function of (mnemonic, private passphrase, network), on the REAL
// wallet: create -> N x NewAddress -> export -> Stop -> import the keystore into a second instance
// (fresh directory, same node) -> more addresses -> restart -> ChangePubPassphrase -> restart with the
// new public passphrase -> import the mnemonic (possibly re-spaced) with index hints into a third
// instance. One line per observation, TAB separated:
//
//	C  case  bits  pass(hex)  mnemonic(hex)  short(0|1)
//	I  case  stage  id  ex,in  addrs(b.i:scripthash:std,...)  signcheck  idhash(hex: the 20 bytes the id encodes)
//	R  case  idhash(hex)  addrs(b.i:scripthash,...)                 independent BIP-39/32 derivation
//	D  case  ver  seed  coin  idhash  addrs(b.i:scripthash,...)  table      input of the Coq model Keys/Derive.v
//	M  case  entropy  pass  mnemonic  variant  seed  table39               input of create_seed / import_mnemonic_seed
//
// signcheck = ok when, for every address of the stage, WalletManager.SignHash with the right passphrase
// returns a signature that verifies (btcec) against the public key DERIVED BY THE REFERENCE for that
// (branch, index), the address's script hash is sha256(OP_1 <that key> OP_1 OP_CHECKMULTISIG), and a
// wrong passphrase is refused; otherwise the first failure.
// short = 1 when a hardened step of m/44'/coin'/1' has a parent scalar with a leading zero byte (the
// recorded finding C14 short-parent-hardened-child: the code then leaves BIP-32). Such a life has no
// independent reference: it is judged across instances only, and the addresses its restore-with-discovery
// stage pays come from a throwaway instance of the implementation (implAddrs). Cases = 7 mod 16 are
// short-parent wallets on purpose.
package main

import (
	"github.com/massnetorg/mass-core/txscript"
	"bufio"
	"bytes"
	crand "crypto/rand"
	"crypto/sha256"
	"encoding/hex"
	"flag"
	"fmt"
	"io"
	"os"
	"sort"
	"strings"
	"time"

	"github.com/btcsuite/btcd/btcec"
	"github.com/massnetorg/mass-core/massutil"
	"github.com/massnetorg/mass-core/massutil/bech32"
	"massnet.org/mass-wallet/config"
	mwdb "massnet.org/mass-wallet/masswallet/db"
	"massnet.org/mass-wallet/masswallet/keystore"
	"verifharness/internal/bip39ref"
	"verifharness/internal/bipref"
	"verifharness/internal/hist"
	"verifharness/internal/rng"
	"verifharness/internal/sim"
	"verifharness/internal/simx"
)

var stats = map[string]int{}

func hx(b []byte) string { return hex.EncodeToString(b) }

const passChars = "0123456789abcdefghijklmnopqrstuvwxyzABCDEFGHIJKLMNOPQRSTUVWXYZ@#$%^&"

func randPass(r *rng.R) string {
	n := 6 + r.Intn(35)
	b := make([]byte, n)
	for i := range b {
		b[i] = r.Pick(passChars)
	}
	return string(b)
}

// foreignPass: 6..40 bytes of printable ASCII with at least one character OUTSIDE CreateWallet's alphabet.
func foreignPass(r *rng.R) string {
	const outside = " !\"'()*+,-./:;<=>?[]_`{|}~"
	n := 6 + r.Intn(35)
	b := make([]byte, n)
	for i := range b {
		if r.Chance(25) {
			b[i] = r.Pick(outside)
		} else {
			b[i] = r.Pick(passChars)
		}
	}
	b[r.Intn(n)] = r.Pick(outside)
	if b[n-1] == ' ' {
		b[n-1] = '!'
	}
	return string(b)
}

func redeemOf(pub33 []byte) []byte {
	out := append([]byte{0x51, 0x21}, pub33...)
	return append(out, 0x51, 0xae)
}

type addrObs struct {
	b, i uint32
	sh   []byte
	std  string
	pub  *btcec.PublicKey
}

type ref struct {
	p      *bipref.P
	idHash []byte
	acct   *bipref.Key // public account key
	seed   []byte
	short  bool
	pubs   map[[2]uint32][]byte
	shs    map[[2]uint32][]byte
}

func (rf *ref) addr(b, i uint32) ([]byte, []byte) {
	k := [2]uint32{b, i}
	if sh, ok := rf.shs[k]; ok {
		return rf.pubs[k], sh
	}
	kb, e := rf.p.CKD(rf.acct, b)
	if e != "" {
		return nil, nil
	}
	rf.p.Anticipate(rf.p.Pub33(kb))
	ki, e := rf.p.CKD(kb, i)
	if e != "" {
		return nil, nil
	}
	pub := rf.p.Pub33(ki)
	rf.p.Anticipate(pub)
	sh := rf.p.Sha256(redeemOf(pub))
	rf.pubs[k], rf.shs[k] = pub, sh
	return pub, sh
}

func newRef(mnemonic, pass string, coin uint32) (*ref, error) {
	words := bip39ref.Split(mnemonic)
	seed := bip39ref.Seed(words, pass)
	p := bipref.New()
	rf := &ref{p: p, seed: seed, pubs: map[[2]uint32][]byte{}, shs: map[[2]uint32][]byte{}}
	m, e := p.Master(bipref.XprvVer, seed)
	if e != "" {
		return nil, fmt.Errorf("reference master: %s", e)
	}
	k := m
	for _, idx := range []uint32{44 + 0x80000000, coin + 0x80000000, 1 + 0x80000000} {
		if sc := bipref.Scalar(k); sc != nil && len(sc.Bytes()) < 32 {
			rf.short = true
		}
		k, e = p.CKD(k, idx)
		if e != "" {
			return nil, fmt.Errorf("reference path: %s", e)
		}
	}
	ap, e := p.Neuter(k)
	if e != "" {
		return nil, fmt.Errorf("reference neuter: %s", e)
	}
	rf.acct = ap
	pub := p.Pub33(ap)
	p.Anticipate(pub)
	rf.idHash = p.Hash160(pub)
	return rf, nil
}

// the 20 bytes a wallet id encodes
func idHash(id string) []byte {
	_, data, err := bech32.Decode(id)
	if err != nil || len(data) < 1 {
		return nil
	}
	out, err := bech32.ConvertBits(data[1:], 5, 8, false)
	if err != nil {
		return nil
	}
	return out
}

func observe(w *simx.Wallet, id string) (string, []addrObs, error) {
	am, err := w.KS.GetAddrManagerByAccountID(id)
	if err != nil {
		return "", nil, err
	}
	ex, in := am.VerifNextIndexes()
	var l []addrObs
	for _, ma := range am.ManagedAddresses() {
		_, b, i := ma.VerifPath()
		l = append(l, addrObs{b: b, i: i, sh: ma.ScriptAddress(), std: ma.String(), pub: ma.PubKey()})
	}
	sort.Slice(l, func(a, b int) bool {
		if l[a].b != l[b].b {
			return l[a].b < l[b].b
		}
		return l[a].i < l[b].i
	})
	return fmt.Sprintf("%d,%d", ex, in), l, nil
}

// implAddrs restores the mnemonic into a fresh throwaway instance with the given index hints and returns the
// script hash the IMPLEMENTATION gives every (branch, index) below the hints.
func implAddrs(node *sim.Node, dir, pub, mnemonic, pass, remark string, exN, inN uint32) (map[[2]uint32][]byte, error) {
	w, err := simx.Open(node, dir, pub)
	if err != nil {
		return nil, err
	}
	defer w.Stop()
	sum, err := w.WM.ImportWalletWithMnemonic(&keystore.WalletParams{Version: keystore.KeystoreVersionLatest, Mnemonic: mnemonic,
		Remarks: remark, PrivatePassphrase: []byte(pass), ExternalIndex: exN, InternalIndex: inN, AddressGapLimit: sim.Cur.GapLimit})
	if err != nil {
		return nil, fmt.Errorf("ImportWalletWithMnemonic (address table of a short-parent case): %v", err)
	}
	if !w.WaitTasks(20 * time.Second) {
		return nil, fmt.Errorf("import (address table of a short-parent case) did not finish")
	}
	_, l, err := observe(w, sum.WalletID)
	if err != nil {
		return nil, err
	}
	tbl := map[[2]uint32][]byte{}
	for _, a := range l {
		tbl[[2]uint32{a.b, a.i}] = a.sh
	}
	return tbl, nil
}

func signCheck(w *simx.Wallet, r *rng.R, pass string, l []addrObs, rf *ref) string {
	defer w.KS.ClearPrivKey()
	for _, a := range l {
		// the address string decodes to the script hash
		dec, err := massutil.DecodeAddress(a.std, config.ChainParams)
		if err != nil || !bytes.Equal(dec.ScriptAddress(), a.sh) {
			return fmt.Sprintf("address-%d.%d-does-not-decode-to-its-script-hash", a.b, a.i)
		}
		own := sha256.Sum256(redeemOf(a.pub.SerializeCompressed()))
		if !bytes.Equal(own[:], a.sh) {
			return fmt.Sprintf("address-%d.%d-does-not-commit-to-its-stored-public-key", a.b, a.i)
		}
		pub := a.pub
		if !rf.short {
			rp, rsh := rf.addr(a.b, a.i)
			if rp == nil {
				return fmt.Sprintf("reference-cannot-derive-%d.%d", a.b, a.i)
			}
			if !bytes.Equal(rsh, a.sh) {
				return fmt.Sprintf("address-%d.%d-differs-from-reference", a.b, a.i)
			}
			pub, err = btcec.ParsePubKey(rp, btcec.S256())
			if err != nil {
				return "reference-pubkey-parse"
			}
		}
		h := r.Bytes(32)
		if r.Chance(50) { // a wrong passphrase first (locked or unlocked, as it comes)
			if _, err := w.WM.SignHash(a.pub, h, []byte(pass+"x")); err != keystore.ErrInvalidPassphrase {
				return fmt.Sprintf("wrong-passphrase-not-refused-%d.%d:%v", a.b, a.i, err)
			}
		}
		sig, err := w.WM.SignHash(a.pub, h, []byte(pass))
		if err != nil {
			return fmt.Sprintf("sign-%d.%d:%v", a.b, a.i, err)
		}
		if !sig.Verify(h, pub) {
			return fmt.Sprintf("signature-of-%d.%d-does-not-verify-against-the-committed-key", a.b, a.i)
		}
		if r.Chance(30) {
			w.KS.ClearPrivKey()
		}
		stats["signatures"]++
	}
	return "ok"
}

func emitI(out *bufio.Writer, n int, stage, id, counters string, l []addrObs, sc string) {
	var p []string
	for _, a := range l {
		p = append(p, fmt.Sprintf("%d.%d:%s:%s", a.b, a.i, hx(a.sh), a.std))
	}
	s := strings.Join(p, ",")
	if s == "" {
		s = "-"
	}
	fmt.Fprintf(out, "I\t%d\t%s\t%s\t%s\t%s\t%s\t%s\n", n, stage, id, counters, s, strings.ReplaceAll(sc, "\t", " "), hx(idHash(id)))
	stats["stage_"+stage]++
	stats["addresses_observed"] += len(l)
}

func respace(r *rng.R, m string) (string, string) {
	words := strings.Fields(m)
	switch r.Intn(5) {
	case 0:
		return m, "canonical"
	case 1:
		return strings.Join(words, "  "), "double-space"
	case 2:
		return "  " + m + " ", "lead-trail"
	case 3:
		return strings.Join(words, "\t") + "\n", "tab-newline"
	default:
		var sb strings.Builder
		for i, w := range words {
			if i > 0 {
				sb.WriteString(strings.Repeat(" ", 1+r.Intn(3)))
			}
			sb.WriteString(w)
		}
		return sb.String(), "random-runs"
	}
}

// aliasSpelling respells a mnemonic in a way a lenient reader might accept: letter case, non-ASCII spaces.
func aliasSpelling(r *rng.R, m string) (string, string) {
	words := strings.Fields(m)
	switch r.Intn(5) {
	case 0:
		words[0] = strings.ToUpper(words[0][:1]) + words[0][1:]
		return strings.Join(words, " "), "capital-first"
	case 1:
		return strings.ToUpper(m), "all-caps"
	case 2:
		k := r.Intn(len(words))
		words[k] = strings.ToUpper(words[k])
		return strings.Join(words, " "), "one-word-caps"
	case 3:
		for i := range words {
			words[i] = strings.ToUpper(words[i][:1]) + words[i][1:]
		}
		return strings.Join(words, " "), "title-case"
	default:
		return strings.Join(words, "\u00a0"), "nbsp"
	}
}

// detReader is the entropy source of one wallet life: CreateWallet / NewEntropy draw the mnemonic from
// crypto/rand.Reader, which withEntropy replaces by this stream for the duration of the call, so that the wallets of a
// run — and with them rare classes such as short-parent wallets — are a function of VERIF_SEED and the case number
// and a reported case replays as the same wallet (salts and nonces drawn inside the call come from it too; everything
// else keeps the system source).
type detReader struct{ r *rng.R }

func (d *detReader) Read(p []byte) (int, error) {
	for i := range p {
		p[i] = byte(d.r.U64())
	}
	return len(p), nil
}

func withEntropy(d *detReader, f func()) {
	old := crand.Reader
	crand.Reader = io.Reader(d)
	defer func() { crand.Reader = old }()
	f()
}

func runOne(seed uint64, n int, out *bufio.Writer) error {
	r := rng.New(seed*15485863 + uint64(n)*2750159 + 11)
	entropy := &detReader{rng.New(seed*32452843 + uint64(n)*49979687 + 29)}
	root, err := os.MkdirTemp("/dev/shm", "vc04")
	if err != nil {
		root, err = os.MkdirTemp("", "vc04")
		if err != nil {
			return err
		}
	}
	defer os.RemoveAll(root)
	node, err := sim.NewNode(root)
	if err != nil {
		return err
	}
	defer node.Close()
	bits := []int{128, 160, 192, 224, 256}[n%5]
	pass := randPass(r)
	remark := ""
	if r.Chance(40) {
		remark = "remark-" + fmt.Sprint(r.Intn(1000))
	}
	coin := config.ChainParams.HDCoinType
	pub := sim.PubPass

	// ---- instance 1: create
	w1, err := simx.Open(node, root+"/i1", pub)
	if err != nil {
		return err
	}
	var id, mnemonic string
	if n%4 == 3 {
		// born by IMPORT with a passphrase outside CreateWallet's alphabet: the import paths (and the API's length
		// check) admit any passphrase of 6..40 bytes, and a version-0 keystore makes the passphrase part of the seed,
		// so such a wallet must keep working with exactly that passphrase
		pass = foreignPass(r)
		var ent []byte
		var err error
		withEntropy(entropy, func() { ent, err = keystore.NewEntropy(bits) })
		if err != nil {
			w1.Stop()
			return err
		}
		if mnemonic, err = keystore.NewMnemonic(ent); err != nil {
			w1.Stop()
			return err
		}
		if n%16 == 7 {
			// a short-parent wallet on purpose (about 1 in 85 wallets is one by chance, so a run of forty lives met the
			// class only now and then): fresh entropies until a hardened step of the path has a short parent scalar.
			// Such a life has no independent reference (finding C14), it is judged by the cross-instance rules alone
			for try := 0; try < 4000; try++ {
				if rfTry, err := newRef(mnemonic, pass, coin); err == nil && rfTry.short {
					stats["short_parent_sought"]++
					break
				}
				var e2 []byte
				var err error
				withEntropy(entropy, func() { e2, err = keystore.NewEntropy(bits) })
				if err != nil {
					break
				}
				m2, err := keystore.NewMnemonic(e2)
				if err != nil {
					break
				}
				mnemonic = m2
			}
		}
		sum, err := w1.WM.ImportWalletWithMnemonic(&keystore.WalletParams{Version: keystore.KeystoreVersionLatest, Mnemonic: mnemonic,
			Remarks: remark, PrivatePassphrase: []byte(pass), AddressGapLimit: sim.Cur.GapLimit})
		if err != nil {
			w1.Stop()
			return fmt.Errorf("ImportWalletWithMnemonic (born by import): %v", err)
		}
		if !w1.WaitTasks(20 * time.Second) {
			w1.Stop()
			return fmt.Errorf("import did not finish")
		}
		id = sum.WalletID
		stats["born_by_import_foreign_passphrase"]++
	} else {
		var err error
		withEntropy(entropy, func() { id, mnemonic, _, err = w1.WM.CreateWallet(pass, remark, bits) })
		if err != nil {
			w1.Stop()
			return fmt.Errorf("CreateWallet: %v", err)
		}
	}
	rf, err := newRef(mnemonic, pass, coin)
	if err != nil {
		w1.Stop()
		return err
	}
	short := 0
	if rf.short {
		short = 1
		stats["short_parent_cases"]++
	}
	fmt.Fprintf(out, "C\t%d\t%d\t%s\t%s\t%d\n", n, bits, hx([]byte(pass)), hx([]byte(mnemonic)), short)
	if _, err := w1.WM.UseWallet(id); err != nil {
		w1.Stop()
		return err
	}
	n1 := r.Intn(9)
	for k := 0; k < n1; k++ {
		if _, err := w1.WM.NewAddress(uint16(r.Intn(2))); err != nil {
			w1.Stop()
			return fmt.Errorf("NewAddress: %v", err)
		}
	}
	cnt, l1, err := observe(w1, id)
	if err != nil {
		w1.Stop()
		return err
	}
	emitI(out, n, "create", id, cnt, l1, signCheck(w1, r, pass, l1, rf))
	js, err := w1.WM.ExportWallet(id, pass)
	if err != nil {
		w1.Stop()
		return fmt.Errorf("ExportWallet: %v", err)
	}
	if mn1, _, err := w1.WM.GetMnemonic(id, pass); err != nil || mn1 != mnemonic {
		fmt.Fprintf(out, "I\t%d\tcreate-reveal\t%s\t-\t-\trevealed-mnemonic-differs:%v:%s\t-\n", n, id, err, hx([]byte(mn1)))
	}
	w1.Stop()

	var l2 []addrObs
	var exHint, inHint uint32
	variant, vname := mnemonic, "canonical"
	stages := func() error {
		// ---- instance 2: import the exported keystore into a fresh directory
		w2, err := simx.Open(node, root+"/i2", pub)
		if err != nil {
			return err
		}
		if _, err := w2.WM.ImportWallet(js, pass+"y"); err == nil {
			w2.Stop()
			return fmt.Errorf("ImportWallet accepted a wrong passphrase")
		}
		if _, err := w2.WM.ImportWallet(js, pass+"\x00"); err == nil {
			w2.Stop()
			fmt.Fprintf(out, "I\t%d\timport-keystore\t-\t-\t-\timport-accepted-the-passphrase-followed-by-a-zero-byte\t-\n", n)
			return nil
		}
		sum, err := w2.WM.ImportWallet(js, pass)
		if err != nil {
			w2.Stop()
			return fmt.Errorf("ImportWallet: %v", err)
		}
		if !w2.WaitTasks(20 * time.Second) {
			w2.Stop()
			return fmt.Errorf("import did not finish")
		}
		id2 := sum.WalletID
		cnt, l2, err = observe(w2, id2)
		if err != nil {
			w2.Stop()
			return err
		}
		sc2 := signCheck(w2, r, pass, l2, rf)
		if mnB, _, err := w2.WM.GetMnemonic(id2, pass); err != nil || mnB != mnemonic {
			sc2 = fmt.Sprintf("revealed-mnemonic-differs:%v:%s", err, hx([]byte(mnB)))
		}
		emitI(out, n, "import-keystore", id2, cnt, l2, sc2)
		// the export of the IMPORTED keystore, for the second hop below
		js2, err := w2.WM.ExportWallet(id2, pass)
		if err != nil {
			w2.Stop()
			return fmt.Errorf("ExportWallet of the imported keystore: %v", err)
		}
		if _, err := w2.WM.UseWallet(id2); err != nil {
			w2.Stop()
			return err
		}
		for k, m := 0, r.Intn(4); k < m; k++ {
			if _, err := w2.WM.NewAddress(uint16(r.Intn(2))); err != nil {
				w2.Stop()
				return fmt.Errorf("NewAddress (instance 2): %v", err)
			}
		}
		cnt, l2, _ = observe(w2, id2)
		emitI(out, n, "more-addresses", id2, cnt, l2, signCheck(w2, r, pass, l2, rf))
		w2.Stop()

		// ---- restart
		w2, err = simx.Open(node, root+"/i2", pub)
		if err != nil {
			return fmt.Errorf("restart: %v", err)
		}
		cnt, l2, err = observe(w2, id2)
		if err != nil {
			w2.Stop()
			return err
		}
		emitI(out, n, "restart", id2, cnt, l2, signCheck(w2, r, pass, l2, rf))

		// ---- public-passphrase change, then restart with the new one
		newPub := "newPub" + randPass(r)
		if len(newPub) > 40 {
			newPub = newPub[:40]
		}
		err = mwdb.Update(w2.DB, func(tx mwdb.DBTransaction) error {
			return w2.KS.ChangePubPassphrase(tx, []byte(pub), []byte(newPub), nil)
		})
		if err != nil {
			w2.Stop()
			return fmt.Errorf("ChangePubPassphrase: %v", err)
		}
		cnt, l2, _ = observe(w2, id2)
		emitI(out, n, "pubpass-changed", id2, cnt, l2, signCheck(w2, r, pass, l2, rf))
		w2.Stop()
		if wbad, err := simx.Open(node, root+"/i2", pub); err == nil {
			wbad.Stop()
			return fmt.Errorf("the wallet still opens with the old public passphrase")
		}
		w2, err = simx.Open(node, root+"/i2", newPub)
		if err != nil {
			return fmt.Errorf("restart with the new public passphrase: %v", err)
		}
		cnt, l2, err = observe(w2, id2)
		if err != nil {
			w2.Stop()
			return err
		}
		emitI(out, n, "restart-newpub", id2, cnt, l2, signCheck(w2, r, pass, l2, rf))
		w2.Stop()

		// ---- second hop: the export of the imported keystore into yet another fresh instance
		w4, err := simx.Open(node, root+"/i4", pub)
		if err != nil {
			return err
		}
		sum4, err := w4.WM.ImportWallet(js2, pass)
		if err != nil {
			w4.Stop()
			return fmt.Errorf("ImportWallet (second hop): %v", err)
		}
		if !w4.WaitTasks(20 * time.Second) {
			w4.Stop()
			return fmt.Errorf("second-hop import did not finish")
		}
		cnt4, l4, err := observe(w4, sum4.WalletID)
		if err != nil {
			w4.Stop()
			return err
		}
		sc4 := signCheck(w4, r, pass, l4, rf)
		if mn4, _, err := w4.WM.GetMnemonic(sum4.WalletID, pass); err != nil || mn4 != mnemonic {
			sc4 = fmt.Sprintf("revealed-mnemonic-differs:%v:%s", err, hx([]byte(mn4)))
		}
		emitI(out, n, "import-keystore-2hop", sum4.WalletID, cnt4, l4, sc4)
		w4.Stop()

		// ---- instance 3: import the mnemonic (possibly re-spaced) with index hints
		variant, vname = respace(r, mnemonic)
		exHint = []uint32{0, uint32(len(l2)), uint32(len(l2)) + 2, 1}[r.Intn(4)]
		inHint = []uint32{0, 0, 2}[r.Intn(3)]
		// in half of the lives the chain already pays addresses of this key chain BEYOND the hints, several per branch:
		// the restore discovers them (gap-limit scan upwards from the hint) and must end with every address up to the
		// last paid one, each on its branch and index, each signing with its own key (seed C04g: the second discovery
		// of a branch overwrote the records of the first)
		muEx, muIn := -1, -1
		if r.Chance(50) {
			// whom to pay: the independent derivation gives the script hash of every index, except in a short-parent
			// case, where the wallet's key chain is not the BIP-32 one (recorded finding C14 short-parent-hardened-child)
			// and the reference addresses belong to nobody: there the addresses are read off a throwaway instance of
			// the implementation restored, before any payment, with hints beyond every index paid below (that the
			// address at an index is the same in every instance is what the address-differs rule checks)
			shOf := func(b, i uint32) []byte { _, sh := rf.addr(b, i); return sh }
			if rf.short {
				tbl, err := implAddrs(node, root+"/i6", pub, mnemonic, pass, remark, exHint+10, inHint+10)
				if err != nil {
					return err
				}
				shOf = func(b, i uint32) []byte { return tbl[[2]uint32{b, i}] }
				stats["restore_with_discovery_short_parent"]++
			}
			var outs []sim.Out
			pay := func(b, i uint32) bool {
				if sh := shOf(b, i); sh != nil {
					if pk, err := txscript.PayToWitnessScriptHashScript(sh); err == nil {
						outs = append(outs, sim.Out{Script: pk, Value: int64(1+len(outs)) * 1000000})
						return true
					}
				}
				stats["discovery_payment_skipped"]++
				return false
			}
			for k, i := 0, exHint; k < 1+r.Intn(3); k++ {
				i += uint32(1 + r.Intn(3))
				if pay(0, i) {
					muEx = int(i)
				}
			}
			if r.Chance(60) {
				for k, i := 0, inHint; k < 1+r.Intn(3); k++ {
					i += uint32(r.Intn(3))
					if k > 0 && r.Chance(50) {
						i++
					}
					if pay(1, i) {
						muIn = int(i)
					}
				}
			}
			// one payment per block (the restore walks blocks; discoveries come one by one)
			for _, o := range outs {
				b := node.MakeBlock(node.Tip(), []sim.Out{o}, nil)
				if err := node.Attach(b); err != nil {
					return fmt.Errorf("attach: %v", err)
				}
			}
			stats["restore_with_discovery"]++
		}
		// opened after the payments: Start() catches up with the node before the restore begins
		w3, err := simx.Open(node, root+"/i3", pub)
		if err != nil {
			return err
		}
		sum3, err := w3.WM.ImportWalletWithMnemonic(&keystore.WalletParams{Version: keystore.KeystoreVersionLatest, Mnemonic: variant,
			Remarks: remark, PrivatePassphrase: []byte(pass), ExternalIndex: exHint, InternalIndex: inHint, AddressGapLimit: sim.Cur.GapLimit})
		if err != nil {
			w3.Stop()
			fmt.Fprintf(out, "I\t%d\timport-mnemonic:%s:%d:%d:%d:%d\t-\t-\t-\timport-failed:%s\t-\n", n, vname, exHint, inHint, muEx, muIn, strings.ReplaceAll(err.Error(), "\t", " "))
		} else {
			if !w3.WaitTasks(20 * time.Second) {
				w3.Stop()
				return fmt.Errorf("mnemonic import did not finish")
			}
			cnt, l3, err := observe(w3, sum3.WalletID)
			if err != nil {
				w3.Stop()
				return err
			}
			sc := signCheck(w3, r, pass, l3, rf)
			if mn3, _, err := w3.WM.GetMnemonic(sum3.WalletID, pass); err != nil || mn3 != mnemonic {
				sc = fmt.Sprintf("revealed-mnemonic-differs:%v:%s", err, hx([]byte(mn3)))
			}
			emitI(out, n, fmt.Sprintf("import-mnemonic:%s:%d:%d:%d:%d", vname, exHint, inHint, muEx, muIn), sum3.WalletID, cnt, l3, sc)
			w3.Stop()
			// ... and what the restore WROTE is what it showed: reopen the instance (the address table is rebuilt from the
			// stored public-key rows and counters), same addresses on both branches, every address still signs with its key
			w3b, err := simx.Open(node, root+"/i3", pub)
			if err != nil {
				return err
			}
			cntb, l3b, err := observe(w3b, sum3.WalletID)
			if err != nil {
				w3b.Stop()
				return err
			}
			emitI(out, n, "restart:after-import-mnemonic", sum3.WalletID, cntb, l3b, signCheck(w3b, r, pass, l3b, rf))
			w3b.Stop()
		}
		stats["variant_"+vname]++

		// ---- instance 5: an ALIAS spelling of the mnemonic (letter case, non-ASCII white space). BIP-39 words
		// are lower case, so refusing the sentence is right; but IF the wallet accepts it, it must restore the
		// SAME wallet (id, addresses, revealed mnemonic): acceptance and seed derivation must not disagree
		// about what the words are.
		w5, err := simx.Open(node, root+"/i5", pub)
		if err != nil {
			return err
		}
		alias, aname := aliasSpelling(r, mnemonic)
		sum5, err := w5.WM.ImportWalletWithMnemonic(&keystore.WalletParams{Version: keystore.KeystoreVersionLatest, Mnemonic: alias,
			Remarks: remark, PrivatePassphrase: []byte(pass), ExternalIndex: 0, InternalIndex: 0, AddressGapLimit: sim.Cur.GapLimit})
		if err != nil {
			stats["alias_refused_"+aname]++
			w5.Stop()
		} else {
			stats["alias_accepted_"+aname]++
			if !w5.WaitTasks(20 * time.Second) {
				w5.Stop()
				return fmt.Errorf("alias mnemonic import did not finish")
			}
			cnt, l5, err := observe(w5, sum5.WalletID)
			if err != nil {
				w5.Stop()
				return err
			}
			sc := signCheck(w5, r, pass, l5, rf)
			if mn5, _, err := w5.WM.GetMnemonic(sum5.WalletID, pass); err != nil || mn5 != mnemonic {
				sc = fmt.Sprintf("revealed-mnemonic-differs:%v:%s", err, hx([]byte(mn5)))
			}
			emitI(out, n, "import-alias:"+aname, sum5.WalletID, cnt, l5, sc)
			w5.Stop()
		}

		return nil
	}
	if err := stages(); err != nil {
		fmt.Fprintf(out, "I\t%d\tstage-failed\t-\t-\t-\tstage-failed:%s\t-\n", n, strings.ReplaceAll(strings.ReplaceAll(err.Error(), "\t", " "), "\n", " "))
	}
	// ---- reference and model lines
	want := map[[2]uint32]bool{}
	for _, a := range l1 {
		want[[2]uint32{a.b, a.i}] = true
	}
	for _, a := range l2 {
		want[[2]uint32{a.b, a.i}] = true
	}
	for i := uint32(0); i < exHint+1; i++ {
		want[[2]uint32{0, i}] = true
	}
	for i := uint32(0); i < inHint; i++ {
		want[[2]uint32{1, i}] = true
	}
	var keys [][2]uint32
	for k := range want {
		keys = append(keys, k)
	}
	sort.Slice(keys, func(a, b int) bool {
		if keys[a][0] != keys[b][0] {
			return keys[a][0] < keys[b][0]
		}
		return keys[a][1] < keys[b][1]
	})
	var ra []string
	for _, k := range keys {
		_, sh := rf.addr(k[0], k[1])
		ra = append(ra, fmt.Sprintf("%d.%d:%s", k[0], k[1], hx(sh)))
	}
	fmt.Fprintf(out, "R\t%d\t%s\t%s\n", n, hx(rf.idHash), strings.Join(ra, ","))
	fmt.Fprintf(out, "D\t%d\t%s\t%s\t%d\t%s\t%s\t%s\n", n, hx(bipref.XprvVer), hx(rf.seed), coin, hx(rf.idHash), strings.Join(ra, ","), rf.p.Table())
	// BIP-39 side: entropy, the canonical mnemonic, the imported variant, the seed; SHA-256 and PBKDF2 tables
	words := bip39ref.Split(mnemonic)
	ent, ok := bip39ref.DecodeWords(words)
	if !ok {
		return fmt.Errorf("the reference cannot decode the created mnemonic")
	}
	eh := sha256.Sum256(ent)
	canon := strings.Join(words, " ")
	salt := "mnemonic" + pass
	t39 := fmt.Sprintf("h:%s:%s,k:%s:%s:%s", hx(ent), hx(eh[:]), hx([]byte(canon)), hx([]byte(salt)), hx(rf.seed))
	fmt.Fprintf(out, "M\t%d\t%s\t%s\t%s\t%s\t%s\t%s\n", n, hx(ent), hx([]byte(pass)), hx([]byte(mnemonic)), hx([]byte(variant)), hx(rf.seed), t39)
	stats["cases"]++
	stats[fmt.Sprintf("bits_%d", bits)]++
	return nil
}

func main() {
	count := flag.Int("n", 30, "number of cases")
	outPath := flag.String("out", "", "output file")
	workers := flag.Int("j", 8, "parallel worker processes")
	first := flag.Int("first", 0, "index of the first case")
	worker := flag.Bool("worker", false, "internal: run sequentially and print to stdout")
	flag.Parse()
	if !*worker {
		if err := hist.ParallelSelf(*count, *first, *workers, *outPath, os.Args[1:]); err != nil {
			fmt.Fprintln(os.Stderr, err)
			os.Exit(2)
		}
		return
	}
	sim.Init(sim.Params{CoinbaseMaturity: 2, MinFrozenPeriod: 2, GapLimit: 20})
	seed := rng.Seed()
	w := bufio.NewWriter(os.Stdout)
	for i := 0; i < *count; i++ {
		var buf bytes.Buffer
		bw := bufio.NewWriter(&buf)
		err := runOne(seed, *first+i, bw)
		bw.Flush()
		w.Write(buf.Bytes())
		if err != nil {
			fmt.Fprintf(w, "X\t%d\tharness-error %s\n", *first+i, strings.ReplaceAll(err.Error(), "\n", " "))
		}
	}
	w.Flush()
	keys := make([]string, 0, len(stats))
	for k := range stats {
		keys = append(keys, k)
	}
	sort.Strings(keys)
	var sb strings.Builder
	for _, k := range keys {
		fmt.Fprintf(&sb, "%s=%d ", k, stats[k])
	}
	fmt.Fprintln(os.Stderr, "STATS "+sb.String())
}
