package main

import (
	"fmt"
	"os"

	"github.com/massnetorg/mass-core/massutil"
	"github.com/massnetorg/mass-core/txscript"
	"github.com/massnetorg/mass-core/wire"
	"massnet.org/mass-wallet/config"
	"verifharness/internal/sim"
)

func must(err error) {
	if err != nil {
		panic(err)
	}
}
func script(addr string) []byte {
	a, err := massutil.DecodeAddress(addr, config.ChainParams)
	must(err)
	s, err := txscript.PayToAddrScript(a)
	must(err)
	return s
}
func stakingOf(sh []byte, frozen uint64) []byte {
	a, err := massutil.NewAddressStakingScriptHash(sh, config.ChainParams)
	must(err)
	s, err := txscript.PayToStakingAddrScript(a, frozen)
	must(err)
	return s
}
func try(name string, f func() error) {
	defer func() {
		if e := recover(); e != nil {
			fmt.Println(name, "PANIC:", e)
		}
	}()
	err := f()
	fmt.Println(name, "->", err)
}

func main() {
	sim.Init(sim.Params{CoinbaseMaturity: 2, MinFrozenPeriod: 2, GapLimit: 20})
	dir, _ := os.MkdirTemp("/dev/shm", "probe")
	defer os.RemoveAll(dir)
	n, err := sim.NewNode(dir)
	must(err)
	w, err := sim.OpenWallet(n, dir, nil, true)
	must(err)
	pass := "passphrase1"
	id, mn, _, err := w.WM.CreateWallet(pass, "", 128)
	must(err)
	_, err = w.WM.UseWallet(id)
	must(err)
	a1, err := w.WM.NewAddress(0)
	must(err)
	a2, err := w.WM.NewAddress(0)
	must(err)
	fmt.Println(id, mn, a1, a2)
	ad1, _ := massutil.DecodeAddress(a1, config.ChainParams)
	b1 := n.MakeBlock(n.Tip(), []sim.Out{{script(a1), 500000000}, {script(a2), 300000000}, {stakingOf(ad1.ScriptAddress(), 2), 700000000}}, nil)
	must(n.Attach(b1))
	w.Notify(b1)
	for i := 0; i < 4; i++ {
		b := n.MakeBlock(n.Tip(), nil, nil)
		must(n.Attach(b))
		w.Notify(b)
	}
	fmt.Printf("%+v\n", w.Observe(id))
	cb := b1.MsgBlock().Transactions[0].TxHash()
	// sign std ALL
	tx := sim.NewTx([]wire.OutPoint{{Hash: cb, Index: 0}}, nil, []sim.Out{{script(a2), 400000000}}, 0, nil)
	try("sign ALL", func() error { _, err := w.WM.SignRawTx([]byte(pass), "ALL", tx); return err })
	fmt.Println("witness", len(tx.TxIn[0].Witness))
	// SINGLE 2 in 1 out
	tx2 := sim.NewTx([]wire.OutPoint{{Hash: cb, Index: 0}, {Hash: cb, Index: 1}}, nil, []sim.Out{{script(a2), 400000000}}, 0, nil)
	try("sign SINGLE 2in1out", func() error { _, err := w.WM.SignRawTx([]byte(pass), "SINGLE", tx2); return err })
	fmt.Println("witness0", len(tx2.TxIn[0].Witness), "witness1", len(tx2.TxIn[1].Witness))
	// staking with seq 3 and seq 2
	tx3 := sim.NewTx([]wire.OutPoint{{Hash: cb, Index: 2}}, []uint64{3}, []sim.Out{{script(a2), 400000000}}, 0, nil)
	try("sign staking seq3", func() error { _, err := w.WM.SignRawTx([]byte(pass), "ALL", tx3); return err })
	tx4 := sim.NewTx([]wire.OutPoint{{Hash: cb, Index: 2}}, []uint64{2}, []sim.Out{{script(a2), 400000000}}, 0, nil)
	try("sign staking seq2", func() error { _, err := w.WM.SignRawTx([]byte(pass), "ALL", tx4); return err })
	// pending
	ptx := sim.NewTx([]wire.OutPoint{{Hash: cb, Index: 1}}, nil, []sim.Out{{script(a1), 200000000}}, 0, nil)
	rel, err := w.H.VerifReceiveTx(ptx)
	fmt.Println("receive pending:", rel, err)
	fmt.Printf("%+v\n", w.Observe(id))
	ph := ptx.TxHash()
	tx5 := sim.NewTx([]wire.OutPoint{{Hash: ph, Index: 0}}, nil, []sim.Out{{script(a2), 100000000}}, 0, nil)
	try("sign pending input", func() error { _, err := w.WM.SignRawTx([]byte(pass), "ALL", tx5); return err })
	// gate defect
	ma, err := w.WM.GetAllAddressesWithPubkey()
	must(err)
	hash := make([]byte, 32)
	try("SignHash right", func() error { _, err := w.WM.SignHash(ma[0].PubKey, hash, []byte(pass)); return err })
	try("GetMnemonic right (unlocked)", func() error { _, _, err := w.WM.GetMnemonic(id, pass); return err })
	try("Export right (unlocked)", func() error { _, err := w.WM.ExportWallet(id, pass); return err })
	try("GetMnemonic right (unlocked, after export)", func() error { _, _, err := w.WM.GetMnemonic(id, pass); return err })
	try("Export wrong (unlocked)", func() error { _, err := w.WM.ExportWallet(id, pass+"x"); return err })
	try("SignHash right other addr", func() error { _, err := w.WM.SignHash(ma[1].PubKey, hash, []byte(pass)); return err })
	try("ChangePriv", func() error { return w.WM.ChangePrivPassphrase(pass, "newpass111") })
	try("sign ALL again (clears)", func() error { _, err := w.WM.SignRawTx([]byte(pass), "ALL", tx); return err })
	try("GetMnemonic right (locked)", func() error { _, _, err := w.WM.GetMnemonic(id, pass); return err })
	w.Stop()
}
