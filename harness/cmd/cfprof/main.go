// cfprof: CPU profile of twin replays (debugging aid).
package main

import (
	"fmt"
	"os"
	"runtime/pprof"
	"time"

	"verifharness/internal/cfsim"
	"verifharness/internal/hist"
	"verifharness/internal/sim"
)

func main() {
	sim.Init(sim.Params{CoinbaseMaturity: 4, MinFrozenPeriod: 2, GapLimit: 20})
	o := cfsim.GenOptions{Hist: hist.Options{Games: true, Lag: true, MaxReorg: 3}, Import: true, Remove: true, MinSteps: 8, MaxSteps: 26}
	t0 := time.Now()
	s, err := cfsim.Generate(1, 3, o)
	if err != nil {
		panic(err)
	}
	fmt.Println("generate", time.Since(t0), len(s.Ops))
	f, _ := os.Create("/tmp/cf.prof")
	pprof.StartCPUProfile(f)
	t0 = time.Now()
	for i := 0; i < 10; i++ {
		if _, err := cfsim.RunTwin(s, false, false); err != nil {
			panic(err)
		}
	}
	fmt.Println("10 twins", time.Since(t0))
	pprof.StopCPUProfile()
}
