package main

// Structured, mostly-valid requests for the second group of API methods (tx_service.go: binding /
// pool-coinbase / staking creation, fee estimates, histories, SendRawTransaction, network / target /
// pool queries; block_service.go; Wallets). The reflection-driven stream of gen.go mostly dies in the
// argument checks of these methods; here every argument is drawn from what the state really has — own
// standard and staking addresses, binding targets encoded the way the node encodes them, heights of
// blocks with staking rewards / proposals / staking and binding transactions, amounts at the limits,
// frozen periods at the boundaries, a pool-coinbase payload signed with a fresh BLS key, raw
// transactions built AND signed through the API itself — and then at most one argument is replaced by
// a value of the malformed pools.

import (
	"context"
	"encoding/hex"
	"fmt"
	"math"
	"os"
	"reflect"
	"time"

	"github.com/golang/protobuf/ptypes/empty"
	"github.com/massnetorg/mass-core/blockchain"
	"github.com/massnetorg/mass-core/massutil"
	"github.com/massnetorg/mass-core/poc/chiapos"
	"github.com/massnetorg/mass-core/wire"
	pb "massnet.org/mass-wallet/api/proto"
	"massnet.org/mass-wallet/config"
	"verifharness/internal/rng"
	"verifharness/internal/sim"
)

func targetAddr(t []byte) string {
	if len(t) == 20 {
		if a, err := massutil.NewAddressPubKeyHash(t, config.ChainParams); err == nil {
			return a.EncodeAddress()
		}
		return ""
	}
	if a, err := massutil.NewAddressBindingTarget(t, config.ChainParams); err == nil {
		return a.EncodeAddress()
	}
	return ""
}

// poolPayload: a BindPoolCoinbase payload the node accepts (signature by a fresh pool key), hex encoded
func poolPayload(r *rng.R, coinbaseScriptAddr []byte, nonce uint32) string {
	sk, err := chiapos.NewAugSchemeMPL().KeyGen(r.Bytes(32))
	if err != nil {
		return ""
	}
	pk, err := sk.GetG1()
	if err != nil {
		return ""
	}
	sig, err := blockchain.SignPoolPkPayload(sk, coinbaseScriptAddr, nonce)
	if err != nil {
		return ""
	}
	return hex.EncodeToString(blockchain.EncodePayload(blockchain.NewBindPoolCoinbasePayload(pk, sig, coinbaseScriptAddr, nonce)))
}

// call1 invokes an API method by name
func call1(ms []apiMethod, name string, req interface{}) func(wd *World) string {
	return func(wd *World) string {
		for i := range ms {
			if ms[i].name == name {
				out := reflect.ValueOf(wd.api).MethodByName(name).Call([]reflect.Value{reflect.ValueOf(context.Background()), reflect.ValueOf(req)})
				err, _ := out[1].Interface().(error)
				return errClass(err)
			}
		}
		return "err:harness-no-method"
	}
}

func genStructured(wd *World, p *pools, ms []apiMethod, r *rng.R) gcase {
	var A *wallet
	if len(wd.ws) > 0 {
		A = wd.ws[0]
	}
	ownStd := func() string {
		if A != nil && len(A.addrs) > 0 && r.Chance(85) {
			return A.addrs[r.Intn(len(A.addrs))].std
		}
		return pick(r, p.addrs, nil, 100)
	}
	ownStaking := func() string {
		if A != nil && len(A.addrs) > 0 && r.Chance(85) {
			return A.addrs[r.Intn(len(A.addrs))].staking
		}
		return pick(r, p.stakingAddrs, nil, 100)
	}
	optFrom := func() string {
		if r.Chance(60) {
			return ""
		}
		return ownStd()
	}
	target := func() string {
		var l []string
		for _, t := range wd.targets {
			if a := targetAddr(t); a != "" {
				l = append(l, a)
			}
		}
		l = append(l, p.targets...)
		if len(l) == 0 {
			return ""
		}
		return l[r.Intn(len(l))]
	}
	fee := func() string { return pick(r, []string{"", "", "0", "0.0001", "0.001", "0.01", "0.5", "1"}, nil, 100) }
	small := func() string { return pick(r, []string{"0.5", "1", "0.00000001", "0.0001", "2", "10", "0.011", "3.5", "40"}, nil, 100) }
	// mutate: with probability q the value is replaced by one of the malformed pool
	mut := func(v string, bad []string, q int) string {
		if len(bad) > 0 && r.Chance(q) {
			return bad[r.Intn(len(bad))]
		}
		return v
	}
	addrBad := append(append([]string{}, p.addrsBad...), p.stakingAddrs...)
	best := int64(wd.n.Height())
	heights := func() uint64 {
		l := []int64{0, 1, best, best, best - 1, best / 2, best + 1, math.MaxInt64}
		for _, h := range wd.rewardHeights {
			l = append(l, int64(h), int64(h), int64(h)+1)
		}
		for _, h := range wd.proposalHeights {
			l = append(l, int64(h), int64(h))
		}
		for _, h := range wd.gameHeights {
			l = append(l, int64(h), int64(h))
		}
		for h := int64(1); h <= best; h++ {
			if r.Chance(12) {
				l = append(l, h)
			}
		}
		return uint64(l[r.Intn(len(l))])
	}
	q := []int{0, 0, 10, 30}[r.Intn(4)] // per-argument mutation probability of this request
	type mk struct {
		name string
		w    int
		f    func() interface{}
	}
	list := []mk{
		{"CreateStakingTransaction", 10, func() interface{} {
			m := int64(sim.Cur.MinFrozenPeriod)
			fr := []int64{m, m, m + 1, m + 7, 100, 65535, m - 1, 0, 65536, math.MaxUint32}[r.Intn(10)]
			amt := pick(r, []string{"2048", "2048", "2048.00000001", "2100", "2047.99999999", "2999", "206438400", "5000"}, nil, 100)
			return &pb.CreateStakingTransactionRequest{FromAddress: mut(optFrom(), addrBad, q), StakingAddress: mut(ownStaking(), append(append([]string{}, p.addrs...), p.addrsBad...), q),
				Amount: mut(amt, p.amountsBad, q), FrozenPeriod: uint32(fr), Fee: mut(fee(), p.amountsBad, q)}
		}},
		{"CreateBindingTransaction", 10, func() interface{} {
			n := []int{1, 1, 1, 2, 3, 0}[r.Intn(6)]
			var outs []*pb.CreateBindingTransactionRequest_Output
			for i := 0; i < n; i++ {
				outs = append(outs, &pb.CreateBindingTransactionRequest_Output{HolderAddress: mut(ownStd(), addrBad, q),
					BindingAddress: mut(target(), append(append([]string{}, p.addrs...), p.addrsBad...), q), Amount: mut(small(), p.amountsBad, q)})
			}
			if n > 0 && r.Chance(4) { // a total above the maximum amount
				outs = append(outs, &pb.CreateBindingTransactionRequest_Output{HolderAddress: ownStd(), BindingAddress: target(), Amount: "206438400"},
					&pb.CreateBindingTransactionRequest_Output{HolderAddress: ownStd(), BindingAddress: target(), Amount: "206438400"})
			}
			return &pb.CreateBindingTransactionRequest{Outputs: outs, FromAddress: mut(optFrom(), addrBad, q), Fee: mut(fee(), p.amountsBad, q)}
		}},
		{"CreatePoolPkCoinbaseTransaction", 8, func() interface{} {
			from := ownStd()
			var sa []byte
			if a, err := massutil.DecodeAddress(from, config.ChainParams); err == nil {
				sa = a.ScriptAddress()
			}
			nonce := uint32([]int64{1, 1, 2, 7, 0, math.MaxUint32}[r.Intn(6)])
			pl := poolPayload(r, sa, nonce)
			switch r.Intn(12) {
			case 0:
				alt := pl
				if len(alt) > 4 {
					alt = "0002" + alt[4:] // another method number
				}
				pl = pick(r, []string{"", "0", "zz", "0001", "0001" + rep("00", 60), rep("ab", 5000), pl + "00", alt}, nil, 100)
			case 1:
				if len(pl) > 20 {
					pl = pl[:len(pl)-8] + "00000000" // signature no longer verifies
				}
			}
			if r.Chance(30) {
				from = " " + from + " "
			}
			return &pb.CreatePoolPkCoinbaseTransactionRequest{FromAddress: mut(from, addrBad, q), Payload: pl}
		}},
		{"AutoCreateTransaction", 5, func() interface{} {
			m := map[string]string{}
			for i, n := 0, 1+r.Intn(2); i < n; i++ {
				m[mut(pick(r, p.addrs, nil, 100), p.addrsBad, q)] = mut(small(), p.amountsBad, q)
			}
			return &pb.AutoCreateTransactionRequest{Amounts: m, LockTime: uint64([]int64{0, 0, 0, 1, 500}[r.Intn(5)]), Fee: mut(fee(), p.amountsBad, q),
				FromAddress: mut(optFrom(), addrBad, q), ChangeAddress: mut(optFrom(), addrBad, q)}
		}},
		{"GetTransactionFee", 12, func() interface{} {
			m := map[string]string{}
			for i, n := 0, 1+r.Intn(3); i < n; i++ {
				m[mut(ownStd(), addrBad, q)] = mut(small(), p.amountsBad, q)
			}
			req := &pb.GetTransactionFeeRequest{Amounts: m, HasBinding: r.Bool()}
			if r.Chance(35) {
				for i, n := 0, 1+r.Intn(2); i < n && len(p.outpoints) > 0; i++ {
					o := p.outpoints[r.Intn(len(p.outpoints))]
					req.Inputs = append(req.Inputs, &pb.TransactionInput{TxId: o.txid, Vout: o.vout})
				}
			}
			return req
		}},
		{"GetStakingHistory", 5, func() interface{} {
			return &pb.GetStakingHistoryRequest{Type: pick(r, []string{"", "all", "all", "x"}, nil, 100)}
		}},
		{"GetBindingHistory", 5, func() interface{} {
			return &pb.GetBindingHistoryRequest{Type: pick(r, []string{"", "all", "all", "x"}, nil, 100)}
		}},
		{"GetNetworkBinding", 4, func() interface{} { return &pb.GetNetworkBindingRequest{Height: heights()} }},
		{"CheckPoolPkCoinbase", 4, func() interface{} {
			var l []string
			for i, n := 0, r.Intn(4); i < n; i++ {
				l = append(l, mut(hex.EncodeToString(r.Bytes([]int{48, 48, 33, 0, 1}[r.Intn(5)])), []string{"0", "zz", "abc", rep("ab", 5000)}, q))
			}
			return &pb.CheckPoolPkCoinbaseRequest{PoolPubkeys: l}
		}},
		{"CheckTargetBinding", 6, func() interface{} {
			var l []string
			for i, n := 0, 1+r.Intn(4); i < n; i++ {
				t := mut(target(), append(append([]string{}, p.addrs...), p.addrsBad...), q+10)
				if r.Chance(20) {
					t = " " + t + "\t"
				}
				l = append(l, t)
			}
			if r.Chance(20) && len(l) > 0 {
				l = append(l, l[0])
			}
			return &pb.CheckTargetBindingRequest{Targets: l}
		}},
		{"GetBlockByHeight", 12, func() interface{} { return &pb.GetBlockByHeightRequest{Height: heights()} }},
		{"GetBestBlock", 3, func() interface{} { return &empty.Empty{} }},
		{"GetBlockStakingReward", 10, func() interface{} { return &pb.GetBlockStakingRewardRequest{Height: heights()} }},
		{"Wallets", 3, func() interface{} { return &empty.Empty{} }},
		{"SendRawTransaction", 6, func() interface{} {
			return &pb.SendRawTransactionRequest{Hex: pick(r, p.hexes, p.hexesBad, 85)}
		}},
		{"flow:SendRawTransaction", 8, nil},
	}
	tot := 0
	for _, m := range list {
		tot += m.w
	}
	k := r.Intn(tot)
	var sel mk
	for _, m := range list {
		if k < m.w {
			sel = m
			break
		}
		k -= m.w
	}
	if sel.name == "flow:SendRawTransaction" {
		return genSendFlow(wd, p, r)
	}
	req := sel.f()
	return gcase{method: sel.name, req: req, call: call1(ms, sel.name, req)}
}

// genSendFlow: a transaction is built by one of the creating methods, signed by SignRawTransaction with the
// wallet's passphrase and handed to SendRawTransaction — the only way to get past mass-core's script and
// signature checks into the node's transaction pool (which then tells the wallet's follower). Variants
// send it twice, send it unsigned, or after its coins were reserved by another draft.
func genSendFlow(wd *World, p *pools, r *rng.R) gcase {
	var A *wallet
	if len(wd.ws) > 0 {
		A = wd.ws[0]
	}
	kind := r.Intn(5)
	variant := r.Intn(6)
	dest := pick(r, p.addrs, nil, 100)
	amount := pick(r, []string{"0.5", "1", "2", "0.01"}, nil, 100)
	staking := ""
	tgt := ""
	frozen := uint32(sim.Cur.MinFrozenPeriod + uint64(r.Intn(3)))
	if A != nil && len(A.addrs) > 0 {
		staking = A.addrs[r.Intn(len(A.addrs))].staking
	}
	for _, t := range p.targets {
		tgt = t
		if r.Chance(50) {
			break
		}
	}
	pass := ""
	if A != nil {
		pass = A.pass
	}
	var poolPl string
	if A != nil && len(A.addrs) > 0 {
		poolPl = poolPayload(r, A.addrs[0].sh, 1)
	}
	desc := fmt.Sprintf("build(kind %d: 0 auto, 1 staking, 2 binding, 3 pool-coinbase, 4 manual) to %s amount %s -> SignRawTransaction -> SendRawTransaction (variant %d: 0-2 once, 3 twice, 4 unsigned, 5 signed with a wrong passphrase)",
		kind, dest, amount, variant)
	return gcase{method: "SendRawTransaction", desc: desc, call: func(wd *World) string {
		ctx := context.Background()
		var hx string
		var err error
		switch kind {
		case 0:
			var resp *pb.CreateRawTransactionResponse
			resp, err = wd.api.AutoCreateTransaction(ctx, &pb.AutoCreateTransactionRequest{Amounts: map[string]string{dest: amount}})
			if resp != nil {
				hx = resp.Hex
			}
		case 1:
			var resp *pb.CreateRawTransactionResponse
			resp, err = wd.api.CreateStakingTransaction(ctx, &pb.CreateStakingTransactionRequest{StakingAddress: staking, Amount: "2048", FrozenPeriod: frozen})
			if resp != nil {
				hx = resp.Hex
			}
		case 2:
			var resp *pb.CreateRawTransactionResponse
			resp, err = wd.api.CreateBindingTransaction(ctx, &pb.CreateBindingTransactionRequest{Outputs: []*pb.CreateBindingTransactionRequest_Output{{HolderAddress: dest, BindingAddress: tgt, Amount: amount}}})
			if resp != nil {
				hx = resp.Hex
			}
		case 3:
			var resp *pb.CreateRawTransactionResponse
			from := ""
			if A != nil && len(A.addrs) > 0 {
				from = A.addrs[0].std
			}
			resp, err = wd.api.CreatePoolPkCoinbaseTransaction(ctx, &pb.CreatePoolPkCoinbaseTransactionRequest{FromAddress: from, Payload: poolPl})
			if resp != nil {
				hx = resp.Hex
			}
		default:
			own := []*coin{}
			if A != nil {
				own = wd.coinsOf(A, clsStd, true)
			}
			if len(own) == 0 {
				return "err:flow-no-coin"
			}
			var resp *pb.CreateRawTransactionResponse
			resp, err = wd.api.CreateRawTransaction(ctx, &pb.CreateRawTransactionRequest{Inputs: []*pb.TransactionInput{{TxId: own[0].op.Hash.String(), Vout: own[0].op.Index}},
				Amounts: map[string]string{dest: "0.3"}})
			if resp != nil {
				hx = resp.Hex
			}
		}
		if err != nil || hx == "" {
			return "err:flow-build:" + errClass(err)
		}
		if variant != 4 {
			pw := pass
			if variant == 5 {
				pw = "wrong-passphrase"
			}
			s, err := wd.api.SignRawTransaction(ctx, &pb.SignRawTransactionRequest{RawTx: hx, Passphrase: pw})
			if err != nil {
				if variant != 5 {
					return "err:flow-sign:" + errClass(err)
				}
			} else {
				hx = s.Hex
			}
		}
		_, err = wd.api.SendRawTransaction(ctx, &pb.SendRawTransactionRequest{Hex: hx})
		if variant == 3 {
			_, err = wd.api.SendRawTransaction(ctx, &pb.SendRawTransactionRequest{Hex: hx})
		}
		// the follower has been told about an accepted transaction: let it take it up before the next request
		// (no barrier: in the held states the follower is parked)
		for i := 0; i < 200 && wd.w.H.VerifQueueLen() > 0; i++ {
			time.Sleep(time.Millisecond)
		}
		if err != nil && os.Getenv("C19_DEBUG") != "" {
			fmt.Fprintf(os.Stderr, "flow kind %d variant %d: %v\n", kind, variant, err)
		}
		return errClass(err)
	}}
}

var _ = wire.MaxTxInSequenceNum
