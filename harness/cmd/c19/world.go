package main

// The wallet states of the exploration: a real WalletManager (harness/internal/sim) on a real
// LevelDB directory, a simulated node, and a deterministic little history that leaves the
// wallet with every kind of coin the property's quantifier names (confirmed, immature, spent,
// pending, spent-by-pending; standard / staking / old and new binding outputs; a second
// wallet's coins; strangers' transactions), plus the bookkeeping the request generator draws
// its "valid-looking" arguments from. Built on sim only (internal/hist is being extended by
// other builders concurrently).

import (
	"fmt"
	"os"
	"path/filepath"
	"runtime"
	"strings"
	"sync"
	"time"

	"github.com/massnetorg/mass-core/massutil"
	"github.com/massnetorg/mass-core/txscript"
	"github.com/massnetorg/mass-core/wire"
	"massnet.org/mass-wallet/api"
	"massnet.org/mass-wallet/config"
	mwdb "massnet.org/mass-wallet/masswallet/db"
	"massnet.org/mass-wallet/masswallet/keystore"
	"verifharness/internal/rng"
	"verifharness/internal/sim"
)

const (
	clsStd = iota
	clsStaking
	clsBindOld
	clsBindNew
	clsOther
)

type addrInfo struct {
	std     string // standard (witness v0) address
	staking string // staking form of the same script hash
	sh      []byte
	issuedStaking bool
}

type wallet struct {
	id, pass, mnemonic, keystoreJSON string
	addrs                            []*addrInfo
}

type coin struct {
	op     wire.OutPoint
	val    int64
	script []byte
	class  int
	owner  *wallet
	ai     *addrInfo
	height uint64
	cb     bool
	frozen uint64
	nout   int // outputs of the creating transaction
}

// gate stalls chosen goroutines right before one of their database transactions, so that the
// "wallet importing" / "wallet removing" states can be held while requests are issued, and so
// that an API call can be held between two of its reads (deterministic schedules for the races
// with the background removal / the start-up). It wraps only DB.BeginTx / DB.BeginReadTx.
type rule struct {
	fn      string // substring of a function name that must be on the caller's stack
	read    bool   // applies to read transactions (else to write transactions)
	readEnd bool   // applies to the end (Rollback) of read transactions
	skip    int    // let this many matching transactions pass first
	hit     chan struct{}
	release chan struct{}
	held    bool
	open    bool
}

type gate struct {
	mwdb.DB
	mu    sync.Mutex
	rules []*rule
	// compatibility with the single-rule use
	hit chan struct{}
}

func (g *gate) armReadEnd(fn string, skip int) *rule {
	r := &rule{fn: fn, readEnd: true, skip: skip, hit: make(chan struct{}), release: make(chan struct{})}
	g.mu.Lock()
	g.rules = append(g.rules, r)
	g.mu.Unlock()
	return r
}

func (g *gate) armRule(fn string, skip int, read bool) *rule {
	r := &rule{fn: fn, read: read, skip: skip, hit: make(chan struct{}), release: make(chan struct{})}
	g.mu.Lock()
	g.rules = append(g.rules, r)
	g.mu.Unlock()
	return r
}

func (g *gate) arm(fn string, skip int) {
	r := g.armRule(fn, skip, false)
	g.hit = r.hit
}

func (g *gate) openRule(r *rule) {
	g.mu.Lock()
	if !r.open {
		r.open = true
		close(r.release)
	}
	g.mu.Unlock()
}

func (g *gate) open() {
	g.mu.Lock()
	rs := append([]*rule{}, g.rules...)
	g.mu.Unlock()
	for _, r := range rs {
		g.openRule(r)
	}
}

func (g *gate) pass(read bool) {
	if read {
		g.passKind(1)
	} else {
		g.passKind(0)
	}
}

// kind: 0 = begin of a write transaction, 1 = begin of a read transaction, 2 = end of a read transaction
func (g *gate) passKind(kind int) {
	g.mu.Lock()
	var cand []*rule
	for _, r := range g.rules {
		k := 0
		if r.readEnd {
			k = 2
		} else if r.read {
			k = 1
		}
		if !r.open && !r.held && k == kind {
			cand = append(cand, r)
		}
	}
	g.mu.Unlock()
	for _, r := range cand {
		if !onStack(r.fn) {
			continue
		}
		g.mu.Lock()
		wait := false
		if !r.open && !r.held {
			if r.skip > 0 {
				r.skip--
			} else {
				r.held = true
				wait = true
				close(r.hit)
			}
		}
		g.mu.Unlock()
		if wait {
			<-r.release
		}
	}
}

func (g *gate) BeginTx() (mwdb.DBTransaction, error) {
	g.pass(false)
	return g.DB.BeginTx()
}

func (g *gate) BeginReadTx() (mwdb.ReadTransaction, error) {
	g.pass(true)
	tx, err := g.DB.BeginReadTx()
	if err != nil {
		return tx, err
	}
	return &gateRTx{ReadTransaction: tx, g: g}, nil
}

// gateRTx lets a rule hold a goroutine at the END of a read transaction (mwdb.View defers Rollback).
type gateRTx struct {
	mwdb.ReadTransaction
	g *gate
}

func (t *gateRTx) Rollback() error {
	err := t.ReadTransaction.Rollback()
	t.g.passKind(2)
	return err
}

func onStack(fn string) bool {
	pcs := make([]uintptr, 48)
	n := runtime.Callers(2, pcs)
	fr := runtime.CallersFrames(pcs[:n])
	for {
		f, more := fr.Next()
		if strings.Contains(f.Function, fn) {
			return true
		}
		if !more {
			return false
		}
	}
}

// World is one wallet state.
type World struct {
	r     *rng.R
	dir   string
	n     *sim.Node
	w     *sim.Wallet
	api   *api.APIServer
	g     *gate
	ws    []*wallet // A, B, (C)
	gone  []*wallet // wallets known elsewhere / removed here (ids, mnemonics, keystores still valid-looking)
	utxo  map[wire.OutPoint]*coin
	spent []*coin
	pend  []*wire.MsgTx // unconfirmed transactions the wallet accepted
	pendRejected []*wire.MsgTx
	chainTx []*wire.MsgTx // some transactions on the chain (any owner)
	stranger [][]byte
	uniq  uint64
	state string
	targets [][]byte // binding targets used by outputs on the chain (20 or 22 bytes)
	gameHeights []uint64 // heights of blocks with staking / binding transactions (outputs or inputs), OP_RETURN outputs
	rewardHeights []uint64 // heights of blocks whose coinbase carries a standard payload and pays staking rewards
	proposalHeights []uint64 // heights of blocks with a punishment proposal and a ban list
	lag *lagInfo // set by scenario lagging-reorg
	lagDirty bool // a wallet was removed or imported by a request since: the recorded rows may have been rebuilt
	stopped bool // scenario stopped: WalletManager.Stop has run
}

func scratchRoot() string {
	if st, err := os.Stat("/dev/shm"); err == nil && st.IsDir() {
		return "/dev/shm"
	}
	return ""
}

func newWorld(r *rng.R) (*World, error) {
	dir, err := os.MkdirTemp(scratchRoot(), "c19-")
	if err != nil {
		return nil, err
	}
	n, err := sim.NewNode(dir)
	if err != nil {
		return nil, err
	}
	wd := &World{r: r, dir: dir, n: n, utxo: map[wire.OutPoint]*coin{}}
	if err := wd.open(); err != nil {
		return nil, err
	}
	for i := 0; i < 3; i++ {
		wd.stranger = append(wd.stranger, stdScript(r.Bytes(32)))
	}
	return wd, nil
}

func (wd *World) open() error {
	w, err := sim.OpenWalletSync(wd.n, wd.dir, func(db mwdb.DB) mwdb.DB {
		wd.g = &gate{DB: db}
		return wd.g
	}, true)
	if err != nil {
		return err
	}
	wd.w = w
	a, err := api.NewAPIServer(w.WM.VerifServer(), w.WM, func() {}, w.Cfg)
	if err != nil {
		return err
	}
	wd.api = a
	return nil
}

// openHeld opens the manager but freezes its background worker goroutine before it has created
// its task queue (the first thing worker() does is a read transaction).
func (wd *World) openHeld() error {
	w, err := sim.OpenWalletSync(wd.n, wd.dir, func(db mwdb.DB) mwdb.DB {
		wd.g = &gate{DB: db}
		return wd.g
	}, false)
	if err != nil {
		return err
	}
	wd.w = w
	r := wd.g.armRule("masswallet.worker", 0, true)
	if err := w.WM.Start(); err != nil {
		return err
	}
	wd.state = "starting:worker-frozen-before-its-first-read"
	select {
	case <-r.hit:
	case <-time.After(300 * time.Millisecond):
		// the worker does not begin with a database read (any more): requests are issued right after Start returns
		wd.g.openRule(r)
		wd.state = "starting:right-after-Start"
	}
	a, err := api.NewAPIServer(w.WM.VerifServer(), w.WM, func() {}, w.Cfg)
	if err != nil {
		return err
	}
	wd.api = a
	return nil
}

func (wd *World) ksmgr() *keystore.KeystoreManager {
	_, _, _, k, _ := wd.w.WM.VerifStores()
	return k
}

// restart stops the manager and opens it again on the same directory (no wallet selected afterwards).
func (wd *World) restart() error {
	wd.w.Stop()
	return wd.open()
}

func (wd *World) close() {
	if wd.g != nil {
		wd.g.open()
	}
	done := make(chan struct{})
	go func() {
		defer func() { recover() }()
		if !wd.stopped {
			wd.w.Stop()
		}
		close(done)
	}()
	select {
	case <-done:
	case <-time.After(5 * time.Second):
	}
	wd.n.Close()
	os.RemoveAll(wd.dir)
}

func stdScript(sh []byte) []byte {
	s, err := txscript.PayToWitnessScriptHashScript(sh)
	if err != nil {
		panic(err)
	}
	return s
}

func stakingScript(sh []byte, frozen uint64) []byte {
	a, err := massutil.NewAddressStakingScriptHash(sh, config.ChainParams)
	if err != nil {
		panic(err)
	}
	s, err := txscript.PayToStakingAddrScript(a, frozen)
	if err != nil {
		panic(err)
	}
	return s
}

func bindingScript(sh, target []byte) []byte {
	s, err := txscript.PayToBindingScriptHashScript(sh, target)
	if err != nil {
		panic(err)
	}
	return s
}

func (wd *World) newWallet(pass string) (*wallet, error) {
	id, mn, _, err := wd.w.WM.CreateWallet(pass, "w", 128)
	if err != nil {
		return nil, err
	}
	wl := &wallet{id: id, pass: pass, mnemonic: mn}
	wd.ws = append(wd.ws, wl)
	return wl, nil
}

func (wd *World) newAddr(wl *wallet, class uint16) (*addrInfo, error) {
	if _, err := wd.w.WM.UseWallet(wl.id); err != nil {
		return nil, err
	}
	a, err := wd.w.WM.NewAddress(class)
	if err != nil {
		return nil, err
	}
	addr, err := massutil.DecodeAddress(a, config.ChainParams)
	if err != nil {
		return nil, err
	}
	ai := &addrInfo{sh: addr.ScriptAddress(), issuedStaking: class == 1}
	std, _ := massutil.NewAddressWitnessScriptHash(ai.sh, config.ChainParams)
	stk, _ := massutil.NewAddressStakingScriptHash(ai.sh, config.ChainParams)
	ai.std, ai.staking = std.EncodeAddress(), stk.EncodeAddress()
	wl.addrs = append(wl.addrs, ai)
	return ai, nil
}

func (wd *World) ownerOf(script []byte) (*wallet, *addrInfo, int, uint64) {
	class, pops := txscript.GetScriptInfo(script)
	var sh []byte
	cls := clsOther
	frozen := uint64(0)
	switch class {
	case txscript.WitnessV0ScriptHashTy:
		_, rsh, err := txscript.GetParsedOpcode(pops, class)
		if err == nil {
			sh, cls = rsh[:], clsStd
		}
	case txscript.StakingScriptHashTy:
		fr, rsh, err := txscript.GetParsedOpcode(pops, class)
		if err == nil {
			sh, cls, frozen = rsh[:], clsStaking, fr
		}
	case txscript.BindingScriptHashTy:
		holder, target, err := txscript.GetParsedBindingOpcode(pops)
		if err == nil {
			sh = holder
			cls = clsBindOld
			if len(target) == 22 {
				cls = clsBindNew
			}
		}
	}
	if sh == nil {
		return nil, nil, cls, 0
	}
	for _, wl := range append(append([]*wallet{}, wd.ws...), wd.gone...) {
		for _, ai := range wl.addrs {
			if string(ai.sh) == string(sh) {
				return wl, ai, cls, frozen
			}
		}
	}
	return nil, nil, cls, frozen
}

// block attaches a block (coinbase paying cb, then txs) and lets the wallet process it.
func (wd *World) block(cb []sim.Out, txs []*wire.MsgTx, notify bool) (*massutil.Block, error) {
	return wd.attach(wd.n.MakeBlock(wd.n.Tip(), cb, txs), notify)
}

// attach makes b the node's best block, records its coins, and (notify) lets the wallet process it.
func (wd *World) attach(b *massutil.Block, notify bool) (*massutil.Block, error) {
	if err := wd.n.Attach(b); err != nil {
		return nil, err
	}
	for i, tx := range b.MsgBlock().Transactions {
		if i > 0 {
			for _, in := range tx.TxIn {
				if c := wd.utxo[in.PreviousOutPoint]; c != nil {
					delete(wd.utxo, in.PreviousOutPoint)
					wd.spent = append(wd.spent, c)
				}
			}
		}
		th := tx.TxHash()
		for vi, o := range tx.TxOut {
			wl, ai, cls, fr := wd.ownerOf(o.PkScript)
			op := wire.OutPoint{Hash: th, Index: uint32(vi)}
			wd.utxo[op] = &coin{op: op, val: o.Value, script: o.PkScript, class: cls, owner: wl, ai: ai, height: b.Height(), cb: i == 0, frozen: fr, nout: len(tx.TxOut)}
		}
		if len(wd.chainTx) < 64 {
			wd.chainTx = append(wd.chainTx, tx)
		}
	}
	if notify {
		wd.w.Notify(b)
	}
	return b, nil
}

func (wd *World) filler(k int) error {
	for i := 0; i < k; i++ {
		if _, err := wd.block([]sim.Out{{Script: wd.stranger[i%len(wd.stranger)], Value: 1e8}}, nil, true); err != nil {
			return err
		}
	}
	return nil
}

// coinsOf returns the unspent coins of wl of the given class (-1 any), mature enough to spend at the next height.
func (wd *World) coinsOf(wl *wallet, class int, matureOnly bool) []*coin {
	var l []*coin
	next := wd.n.Height() + 1
	for _, c := range wd.utxo {
		if c.owner != wl || (class >= 0 && c.class != class) {
			continue
		}
		if matureOnly {
			if c.cb && next-c.height < sim.Cur.CoinbaseMaturity {
				continue
			}
			if c.class == clsStaking && next-c.height < c.frozen+1 {
				continue
			}
		}
		l = append(l, c)
	}
	sortCoins(l)
	return l
}

func sortCoins(l []*coin) {
	for i := 1; i < len(l); i++ {
		for j := i; j > 0; j-- {
			a, b := l[j-1], l[j]
			if a.op.Hash.String() > b.op.Hash.String() || (a.op.Hash == b.op.Hash && a.op.Index > b.op.Index) {
				l[j-1], l[j] = l[j], l[j-1]
			} else {
				break
			}
		}
	}
}

func (wd *World) spend(c *coin, outs []sim.Out) *wire.MsgTx {
	seq := []uint64{wire.MaxTxInSequenceNum}
	if c.class == clsStaking {
		seq[0] = c.frozen
	}
	wd.uniq++
	return sim.NewTx([]wire.OutPoint{c.op}, seq, outs, 0, nil)
}

func target20(r *rng.R) []byte { return r.Bytes(20) }
func target22(r *rng.R) []byte {
	return append(r.Bytes(20), byte(r.Intn(2)), byte(24+r.Intn(16)))
}

// tgt records a binding target that is about to be used on the chain
func (wd *World) tgt(t []byte) []byte {
	wd.targets = append(wd.targets, t)
	return t
}

// build creates wallets A and B and the base history. Returns with A selected.
func (wd *World) build() error {
	r := wd.r
	A, err := wd.newWallet("passA@verif1")
	if err != nil {
		return err
	}
	B, err := wd.newWallet("passB@verif2")
	if err != nil {
		return err
	}
	for i := 0; i < 2; i++ {
		if _, err := wd.newAddr(A, 0); err != nil {
			return err
		}
	}
	if _, err := wd.newAddr(A, 1); err != nil {
		return err
	}
	for i := 0; i < 2; i++ {
		if _, err := wd.newAddr(B, 0); err != nil {
			return err
		}
	}
	a0, a1, a2, b0 := A.addrs[0], A.addrs[1], A.addrs[2], B.addrs[0]
	pay := func(ai *addrInfo, v int64) sim.Out { return sim.Out{Script: stdScript(ai.sh), Value: v} }
	// coinbases to A and B, then maturity
	if _, err := wd.block([]sim.Out{pay(a0, 50e8), pay(a1, 7e8)}, nil, true); err != nil {
		return err
	}
	if _, err := wd.block([]sim.Out{pay(a1, 30e8)}, nil, true); err != nil {
		return err
	}
	if _, err := wd.block([]sim.Out{pay(b0, 40e8), pay(a0, 3e8)}, nil, true); err != nil {
		return err
	}
	if err := wd.filler(int(sim.Cur.CoinbaseMaturity) + r.Intn(2)); err != nil {
		return err
	}
	// one transaction fans A's first coinbase out into every class
	cs := wd.coinsOf(A, clsStd, true)
	if len(cs) == 0 {
		return fmt.Errorf("world: no mature coin of A")
	}
	fan := wd.spend(cs[0], []sim.Out{
		pay(a0, 10e8), pay(a1, 5e8),
		{Script: stakingScript(a2.sh, sim.Cur.MinFrozenPeriod+uint64(r.Intn(3))), Value: 2048e8 / 100},
		{Script: bindingScript(a0.sh, wd.tgt(target20(r))), Value: 1e8},
		{Script: bindingScript(a1.sh, wd.tgt(target22(r))), Value: 2e8},
		pay(b0, 3e8),
		{Script: wd.stranger[0], Value: 1e8},
		{Script: append([]byte{txscript.OP_RETURN, 4}, r.Bytes(4)...), Value: 0},
		pay(a0, 1e8), pay(a0, 1e8),
	})
	if _, err := wd.block(nil, []*wire.MsgTx{fan}, true); err != nil {
		return err
	}
	wd.gameHeights = append(wd.gameHeights, wd.n.Height(), wd.n.Height()+1)
	// spend some of them again: spent credits of A; B moves too
	fh := fan.TxHash()
	var txs []*wire.MsgTx
	if c := wd.utxo[wire.OutPoint{Hash: fh, Index: 1}]; c != nil {
		txs = append(txs, wd.spend(c, []sim.Out{{Script: wd.stranger[1], Value: c.val / 2}, pay(a1, c.val/2)}))
	}
	if c := wd.utxo[wire.OutPoint{Hash: fh, Index: 3}]; c != nil && r.Chance(60) { // old binding withdrawn
		txs = append(txs, wd.spend(c, []sim.Out{pay(a0, c.val)}))
	}
	if bc := wd.coinsOf(B, clsStd, true); len(bc) > 0 {
		txs = append(txs, wd.spend(bc[0], []sim.Out{pay(B.addrs[1], bc[0].val/2), {Script: wd.stranger[2], Value: bc[0].val / 2}}))
	}
	if _, err := wd.block([]sim.Out{pay(a0, 2e8)}, txs, true); err != nil {
		return err
	}
	if err := wd.filler(1 + r.Intn(3)); err != nil {
		return err
	}
	// keystore exports (for the import requests)
	for _, wl := range wd.ws {
		if js, err := wd.w.WM.ExportWallet(wl.id, wl.pass); err == nil {
			wl.keystoreJSON = js
		}
	}
	if err := wd.extend(); err != nil {
		return err
	}
	if _, err := wd.w.WM.UseWallet(A.id); err != nil {
		return err
	}
	wd.state = "selected"
	return nil
}

// addPending delivers unconfirmed transactions that spend A's confirmed coins.
func (wd *World) addPending() error {
	A := wd.ws[0]
	r := wd.r
	cs := wd.coinsOf(A, clsStd, true)
	if len(cs) < 2 {
		return fmt.Errorf("world: not enough coins for pending transactions (%d)", len(cs))
	}
	a0, a1, a2 := A.addrs[0], A.addrs[1], A.addrs[2]
	p1 := wd.spend(cs[0], []sim.Out{
		{Script: stdScript(a1.sh), Value: cs[0].val / 4},
		{Script: bindingScript(a0.sh, target22(r)), Value: cs[0].val / 4},
		{Script: stakingScript(a2.sh, sim.Cur.MinFrozenPeriod), Value: cs[0].val / 4},
		{Script: wd.stranger[0], Value: cs[0].val / 8},
	})
	rel, err := wd.w.H.VerifReceiveTx(p1)
	if err != nil || !rel {
		return fmt.Errorf("world: pending tx 1 not accepted: relevant=%v err=%v", rel, err)
	}
	wd.pend = append(wd.pend, p1)
	// a pending transaction spending a pending output
	h1 := p1.TxHash()
	p2 := sim.NewTx([]wire.OutPoint{{Hash: h1, Index: 0}}, nil, []sim.Out{{Script: stdScript(a0.sh), Value: cs[0].val / 8}, {Script: bindingScript(a1.sh, target20(r)), Value: cs[0].val / 16}}, 0, nil)
	rel, err = wd.w.H.VerifReceiveTx(p2)
	if err == nil && rel {
		wd.pend = append(wd.pend, p2)
	} else {
		wd.pendRejected = append(wd.pendRejected, p2)
	}
	// a stranger's pending payment to A
	p3 := sim.NewTx([]wire.OutPoint{wd.someStrangerCoin()}, nil, []sim.Out{{Script: stdScript(a1.sh), Value: 12345678}}, 0, nil)
	if rel, err := wd.w.H.VerifReceiveTx(p3); err == nil && rel {
		wd.pend = append(wd.pend, p3)
	}
	wd.state = "pending"
	return nil
}

func (wd *World) someStrangerCoin() wire.OutPoint {
	var l []*coin
	for _, c := range wd.utxo {
		if c.owner == nil && c.class == clsStd {
			l = append(l, c)
		}
	}
	sortCoins(l)
	if len(l) == 0 {
		return wire.OutPoint{}
	}
	return l[wd.r.Intn(len(l))].op
}

// makeThird creates wallet C with paid addresses, records its mnemonic/keystore, and removes it
// completely, so that it can be imported again.
func (wd *World) makeThird() (*wallet, error) {
	C, err := wd.newWallet("passC@verif3")
	if err != nil {
		return nil, err
	}
	for i := 0; i < 2; i++ {
		if _, err := wd.newAddr(C, 0); err != nil {
			return nil, err
		}
	}
	if _, err := wd.block([]sim.Out{{Script: stdScript(C.addrs[0].sh), Value: 9e8}, {Script: stdScript(C.addrs[1].sh), Value: 1e8}}, nil, true); err != nil {
		return nil, err
	}
	if err := wd.filler(int(sim.Cur.CoinbaseMaturity)); err != nil {
		return nil, err
	}
	if cs := wd.coinsOf(C, clsStd, true); len(cs) > 0 {
		tx := wd.spend(cs[0], []sim.Out{{Script: stdScript(C.addrs[1].sh), Value: cs[0].val / 2}, {Script: stdScript(wd.ws[0].addrs[0].sh), Value: cs[0].val / 2}})
		if _, err := wd.block(nil, []*wire.MsgTx{tx}, true); err != nil {
			return nil, err
		}
	}
	if js, err := wd.w.WM.ExportWallet(C.id, C.pass); err == nil {
		C.keystoreJSON = js
	}
	return C, nil
}

func (wd *World) removeFully(wl *wallet) error {
	if err := wd.w.WM.RemoveWallet(wl.id, wl.pass); err != nil {
		return err
	}
	if !wd.w.WaitTasks(20 * time.Second) {
		return fmt.Errorf("world: removal of %s did not finish", wl.id)
	}
	for i, x := range wd.ws {
		if x == wl {
			wd.ws = append(wd.ws[:i:i], wd.ws[i+1:]...)
		}
	}
	wd.gone = append(wd.gone, wl)
	for _, c := range wd.utxo {
		if c.owner == wl {
			c.owner = nil
		}
	}
	return nil
}

// holdImport imports wl (known elsewhere) and freezes the background import before its first write.
func (wd *World) holdImport(wl *wallet, byMnemonic bool) error {
	wd.g.arm("asyncImport", wd.r.Intn(2)*0)
	var err error
	if byMnemonic {
		_, err = wd.w.WM.ImportWalletWithMnemonic(&keystore.WalletParams{Mnemonic: wl.mnemonic, PrivatePassphrase: []byte(wl.pass), Remarks: "imp",
			AddressGapLimit: wd.w.Cfg.Wallet.Settings.AddressGapLimit})
	} else {
		_, err = wd.w.WM.ImportWallet(wl.keystoreJSON, wl.pass)
	}
	if err != nil {
		wd.g.open()
		return fmt.Errorf("world: import failed: %v", err)
	}
	select {
	case <-wd.g.hit:
	case <-time.After(10 * time.Second):
		wd.g.open()
		return fmt.Errorf("world: the import task never reached its write transaction")
	}
	for i, x := range wd.gone {
		if x == wl {
			wd.gone = append(wd.gone[:i:i], wd.gone[i+1:]...)
		}
	}
	wd.ws = append(wd.ws, wl)
	wd.state = "importing"
	return nil
}

// holdRemove starts removing wl and freezes the background task before write transaction number `phase`.
func (wd *World) holdRemove(wl *wallet, phase int) error {
	wd.g.arm("asyncRemove", phase)
	if err := wd.w.WM.RemoveWallet(wl.id, wl.pass); err != nil {
		wd.g.open()
		return fmt.Errorf("world: RemoveWallet: %v", err)
	}
	select {
	case <-wd.g.hit:
	case <-time.After(10 * time.Second):
		wd.g.open()
		return fmt.Errorf("world: the remove task never reached write transaction %d", phase)
	}
	wd.state = fmt.Sprintf("removing%d", phase)
	return nil
}

var _ = filepath.Join
