package main

// Calling the real API under recover(), with a deadline, and classifying what came back.

import (
	"context"
	"encoding/json"
	"fmt"
	"math"
	"reflect"
	"regexp"
	"runtime/debug"
	"sort"
	"strings"
	"time"

	"github.com/golang/protobuf/ptypes/empty"
	"github.com/massnetorg/mass-core/massutil"
	"github.com/massnetorg/mass-core/wire"
	"google.golang.org/grpc/status"
	"massnet.org/mass-wallet/api"
	"massnet.org/mass-wallet/masswallet"
	"massnet.org/mass-wallet/masswallet/keystore"
	"verifharness/internal/rng"
)

// methods of *api.APIServer that cannot run without the p2p stack (sim's SyncManager is nil) or that
// are not request handlers
var skipAPI = map[string]string{
	"Start": "opens the gRPC listener", "Stop": "stops the gRPC server", "RunGateway": "opens the HTTP gateway",
}

type apiMethod struct {
	name string
	fn   reflect.Value
	req  reflect.Type // element type of the request pointer
}

func apiMethods(s *api.APIServer) []apiMethod {
	var l []apiMethod
	v := reflect.ValueOf(s)
	t := v.Type()
	ctxT := reflect.TypeOf((*context.Context)(nil)).Elem()
	errT := reflect.TypeOf((*error)(nil)).Elem()
	for i := 0; i < t.NumMethod(); i++ {
		m := t.Method(i)
		if _, skip := skipAPI[m.Name]; skip || strings.HasPrefix(m.Name, "Verif") {
			continue
		}
		mt := m.Type
		if mt.NumIn() != 3 || mt.NumOut() != 2 || !mt.In(1).Implements(ctxT) || mt.In(2).Kind() != reflect.Ptr || !mt.Out(1).Implements(errT) {
			continue
		}
		l = append(l, apiMethod{m.Name, v.Method(i), mt.In(2).Elem()})
	}
	sort.Slice(l, func(i, j int) bool { return l[i].name < l[j].name })
	return l
}

type result struct {
	class string // ok | err:<code> | panic:<file>:<func> | stall
	info  string // panic value and top frames
}

var frameRe = regexp.MustCompile(`^(massnet\.org/mass-wallet/[^\s(]+(?:\([^)]*\))?[^\s(]*)\(`)

// locate returns "<file>:<function>" of the first frame of the wallet repository below the panic,
// and a short rendering of the top frames.
func locate(stack string) (string, string) {
	lines := strings.Split(stack, "\n")
	start := 0
	for i, l := range lines {
		if strings.HasPrefix(l, "panic(") {
			start = i + 2
		}
	}
	var top []string
	key := ""
	for i := start; i+1 < len(lines); i += 2 {
		fn := lines[i]
		if j := strings.LastIndex(fn, "("); j > 0 {
			fn = fn[:j]
		}
		loc := strings.TrimSpace(lines[i+1])
		if j := strings.Index(loc, " +0x"); j > 0 {
			loc = loc[:j]
		}
		if len(top) < 7 {
			top = append(top, fn+" @ "+shortPath(loc))
		}
		// a nil receiver is reported inside the one-line accessor (AddrManager.Name ...): the site is its caller
		if key == "" && strings.Contains(loc, "keystore/addrmgr.go") && i+3 < len(lines) &&
			strings.HasPrefix(lines[i+2], "massnet.org/mass-wallet/") {
			continue
		}
		if key == "" && strings.HasPrefix(fn, "massnet.org/mass-wallet/") && !strings.Contains(loc, "_verif.go") {
			file := loc
			if j := strings.LastIndex(file, ":"); j > 0 {
				file = file[:j]
			}
			if j := strings.Index(file, "/masswallet/"); j >= 0 && !strings.HasPrefix(fn, "massnet.org/mass-wallet/api") {
				file = file[j+1:]
			} else if j := strings.Index(file, "/api/"); j >= 0 {
				file = file[j+1:]
			}
			f := strings.TrimPrefix(fn, "massnet.org/mass-wallet/")
			f = regexp.MustCompile(`\.func\d+(\.\d+)*$`).ReplaceAllString(f, "")
			if j := strings.LastIndex(f, "."); j >= 0 {
				// keep Type.method
				k := strings.LastIndex(f[:j], ".")
				if k >= 0 && strings.Contains(f[k:j], "(") {
					f = strings.Trim(f[k+1:j], "(*)") + "." + f[j+1:]
				} else {
					f = f[j+1:]
				}
			}
			key = file + ":" + f
		}
	}
	if key == "" {
		key = "outside-wallet-code"
	}
	return key, strings.Join(top, " | ")
}

func shortPath(p string) string {
	if j := strings.Index(p, "/pkg/mod/"); j >= 0 {
		return p[j+9:]
	}
	return strings.TrimPrefix(p, "/repo/")
}

// guarded runs f under recover() with a deadline.
func guarded(timeout time.Duration, f func() string) result {
	done := make(chan result, 1)
	go func() {
		defer func() {
			if r := recover(); r != nil {
				key, top := locate(string(debug.Stack()))
				done <- result{"panic:" + key, fmt.Sprintf("%v || %s", r, top)}
			}
		}()
		done <- result{f(), ""}
	}()
	select {
	case r := <-done:
		return r
	case <-time.After(timeout):
		return result{"stall", fmt.Sprintf("no answer within %v", timeout)}
	}
}

func errClass(err error) string {
	if err == nil {
		return "ok"
	}
	if st, ok := status.FromError(err); ok {
		return fmt.Sprintf("err:%d", int(st.Code()))
	}
	return "err:go"
}

// ---------------------------------------------------------------- a generated case

type gcase struct {
	method string
	req    interface{}            // API request message, or nil for a WalletManager call
	call   func(wd *World) string // runs the case
	desc   string
	wm     map[string]interface{} // arguments of a WalletManager call the model knows
}

func trunc(s string) string {
	if len(s) > 300 {
		return fmt.Sprintf("%s...(%d bytes)", s[:120], len(s))
	}
	return s
}

// jsonReq renders a request for the replay file, long strings cut.
func jsonReq(v interface{}) string {
	b, err := json.Marshal(v)
	if err != nil {
		return fmt.Sprintf("%+v", v)
	}
	var x interface{}
	if json.Unmarshal(b, &x) != nil {
		return string(b)
	}
	var cut func(x interface{}) interface{}
	cut = func(x interface{}) interface{} {
		switch t := x.(type) {
		case string:
			return trunc(t)
		case []interface{}:
			if len(t) > 6 {
				t = append(t[:3:3], fmt.Sprintf("...(%d elements)", len(t)))
			}
			for i := range t {
				t[i] = cut(t[i])
			}
			return t
		case map[string]interface{}:
			m := map[string]interface{}{}
			for k, v := range t {
				m[trunc(k)] = cut(v)
			}
			return m
		}
		return x
	}
	b, _ = json.Marshal(cut(x))
	return string(b)
}

// genCase draws request number k of an instance. Generation never looks at earlier answers, so a
// single case can be regenerated (and replayed alone) from (seed, scenario, instance, k).
func genCase(wd *World, p *pools, ms []apiMethod, r *rng.R) gcase {
	pGood := []int{95, 85, 70, 40}[r.Intn(4)]
	if r.Chance(22) {
		return genWM(wd, p, r, pGood)
	}
	if r.Chance(40) {
		return genStructured(wd, p, ms, r)
	}
	m := ms[r.Intn(len(ms))]
	if m.req == reflect.TypeOf(empty.Empty{}) {
		return gcase{method: m.name, req: &empty.Empty{}, call: func(wd *World) string {
			out := m.fn.Call([]reflect.Value{reflect.ValueOf(context.Background()), reflect.ValueOf(&empty.Empty{})})
			err, _ := out[1].Interface().(error)
			return errClass(err)
		}}
	}
	req := reflect.New(m.req)
	p.fill(r, req.Elem(), wd, pGood)
	return gcase{method: m.name, req: req.Interface(), call: func(wd *World) string {
		out := m.fn.Call([]reflect.Value{reflect.ValueOf(context.Background()), req})
		err, _ := out[1].Interface().(error)
		return errClass(err)
	}}
}

func amt(s string) massutil.Amount {
	a, err := api.StringToAmount(s)
	if err != nil {
		return massutil.ZeroAmount()
	}
	return a
}

// genWM draws a direct call of an exported WalletManager method (the layer below the API: no
// length checks, no amount parsing in front of it).
func genWM(wd *World, p *pools, r *rng.R, pGood int) gcase {
	wm := func(wd *World) *masswallet.WalletManager { return wd.w.WM }
	e := func(err error) string {
		if err != nil {
			return "err:go"
		}
		return "ok"
	}
	S := func(name string) string { return p.str(r, name, pGood) }
	ins := func() []*masswallet.TxIn {
		n := []int{0, 1, 1, 1, 2, 3}[r.Intn(6)]
		var l []*masswallet.TxIn
		for i := 0; i < n; i++ {
			if r.Chance(80) {
				o := p.outpoints[r.Intn(len(p.outpoints))]
				vo := o.vout
				switch r.Intn(8) {
				case 0:
					vo = uint32(o.nout)
				case 1:
					vo = math.MaxUint32
				}
				l = append(l, &masswallet.TxIn{TxId: o.txid, Vout: vo})
			} else {
				l = append(l, &masswallet.TxIn{TxId: S("TxId"), Vout: uint32(p.num(r, "vout", 32, false, wd))})
			}
		}
		return l
	}
	amounts := func() map[string]massutil.Amount {
		m := map[string]massutil.Amount{}
		for i, n := 0, r.Intn(4); i < n; i++ {
			m[S("Address")] = amt(S("Amount"))
		}
		return m
	}
	lock := func() uint64 { return uint64(p.num(r, "locktime", 64, false, wd)) }
	type mk struct {
		name string
		f    func() gcase
	}
	desc := func(name string, args ...interface{}) string {
		b, _ := json.Marshal(args)
		return name + trunc(string(b))
	}
	list := []mk{
		{"WM.UseWallet", func() gcase {
			a := S("WalletId")
			return gcase{desc: desc("", a), call: func(wd *World) string { _, err := wm(wd).UseWallet(a); return e(err) }}
		}},
		{"WM.CheckReady", func() gcase {
			a := S("WalletId")
			return gcase{desc: desc("", a), call: func(wd *World) string { _, err := wm(wd).CheckReady(a); return e(err) }}
		}},
		{"WM.ExportWallet", func() gcase {
			a, b := S("WalletId"), S("Passphrase")
			return gcase{desc: desc("", a, b), call: func(wd *World) string { _, err := wm(wd).ExportWallet(a, b); return e(err) }}
		}},
		{"WM.GetMnemonic", func() gcase {
			a, b := S("WalletId"), S("Passphrase")
			return gcase{desc: desc("", a, b), call: func(wd *World) string { _, _, err := wm(wd).GetMnemonic(a, b); return e(err) }}
		}},
		{"WM.RemoveWallet", func() gcase {
			a, b := S("WalletId"), S("Passphrase")
			return gcase{desc: desc("", a, b), call: func(wd *World) string { return e(wm(wd).RemoveWallet(a, b)) }}
		}},
		{"WM.ChangePrivPassphrase", func() gcase {
			a, b := S("Passphrase"), S("Passphrase")
			return gcase{desc: desc("", a, b), call: func(wd *World) string { return e(wm(wd).ChangePrivPassphrase(a, b)) }}
		}},
		{"WM.CreateWallet", func() gcase {
			a, b, c := S("Passphrase"), S("Remarks"), int(p.num(r, "bitsize", 32, true, wd))
			return gcase{desc: desc("", a, b, c), call: func(wd *World) string { _, _, _, err := wm(wd).CreateWallet(a, b, c); return e(err) }}
		}},
		{"WM.ImportWallet", func() gcase {
			a, b := S("Keystore"), S("Passphrase")
			return gcase{desc: desc("", a, b), call: func(wd *World) string { _, err := wm(wd).ImportWallet(a, b); return e(err) }}
		}},
		{"WM.ImportWalletWithMnemonic", func() gcase {
			pr := &keystore.WalletParams{Mnemonic: S("Mnemonic"), PrivatePassphrase: []byte(S("Passphrase")), Remarks: S("Remarks"),
				ExternalIndex: uint32(p.num(r, "externalindex", 32, false, wd)), InternalIndex: uint32(p.num(r, "internalindex", 32, false, wd)),
				AddressGapLimit: uint32([]int64{20, 20, 0, 1, 5}[r.Intn(5)])}
			return gcase{desc: desc("", pr.Mnemonic, string(pr.PrivatePassphrase), pr.Remarks, pr.ExternalIndex, pr.InternalIndex, pr.AddressGapLimit),
				call: func(wd *World) string { _, err := wm(wd).ImportWalletWithMnemonic(pr); return e(err) }}
		}},
		{"WM.WalletBalance", func() gcase {
			a, b := uint32(p.num(r, "requiredconfirmations", 32, false, wd)), r.Bool()
			return gcase{desc: desc("", a, b), call: func(wd *World) string { _, err := wm(wd).WalletBalance(a, b); return e(err) }}
		}},
		{"WM.AddressBalance", func() gcase {
			a := uint32(p.num(r, "requiredconfirmations", 32, false, wd))
			var l []string
			for i, n := 0, r.Intn(3); i < n; i++ {
				l = append(l, S("Address"))
			}
			return gcase{desc: desc("", a, l), call: func(wd *World) string { _, err := wm(wd).AddressBalance(a, l); return e(err) }}
		}},
		{"WM.GetUtxo", func() gcase {
			var l []string
			for i, n := 0, r.Intn(3); i < n; i++ {
				l = append(l, S("Address"))
			}
			return gcase{desc: desc("", l), call: func(wd *World) string { _, err := wm(wd).GetUtxo(l); return e(err) }}
		}},
		{"WM.NewAddress", func() gcase {
			a := uint16(p.num(r, "version", 32, true, wd))
			return gcase{desc: desc("", a), call: func(wd *World) string { _, err := wm(wd).NewAddress(a); return e(err) }}
		}},
		{"WM.GetAddresses", func() gcase {
			a := uint16([]int64{0, 1, 2, math.MaxUint16, 7}[r.Intn(5)])
			return gcase{desc: desc("", a), call: func(wd *World) string { _, err := wm(wd).GetAddresses(a); return e(err) }}
		}},
		{"WM.GetAllAddressesWithPubkey", func() gcase {
			return gcase{call: func(wd *World) string { _, err := wm(wd).GetAllAddressesWithPubkey(); return e(err) }}
		}},
		{"WM.CreateRawTransaction", func() gcase {
			a, b, c, d := ins(), amounts(), lock(), ""
			if r.Chance(50) {
				d = S("ChangeAddress")
			}
			sub := map[string]struct{}{}
			if r.Chance(30) {
				sub[S("Address")] = struct{}{}
			}
			return gcase{desc: desc("", a, b, c, d, sub), wm: map[string]interface{}{"inputs": a, "change_empty": len(d) == 0, "namounts": len(b)},
				call: func(wd *World) string { _, _, err := wm(wd).CreateRawTransaction(a, b, c, d, sub); return e(err) }}
		}},
		{"WM.EstimateManualTxFee", func() gcase {
			a, n := ins(), r.Intn(4)
			return gcase{desc: desc("", a, n), wm: map[string]interface{}{"inputs": a},
				call: func(wd *World) string { _, err := wm(wd).EstimateManualTxFee(a, n); return e(err) }}
		}},
		{"WM.AutoCreateRawTransaction", func() gcase {
			a, b, c := amounts(), lock(), amt(S("Fee"))
			f, ch := "", ""
			if r.Chance(50) {
				f = S("FromAddress")
			}
			if r.Chance(50) {
				ch = S("ChangeAddress")
			}
			return gcase{desc: desc("", a, b, c, f, ch), call: func(wd *World) string { _, _, err := wm(wd).AutoCreateRawTransaction(a, b, c, f, ch, nil); return e(err) }}
		}},
		{"WM.CreateStakingTransaction", func() gcase {
			f := ""
			if r.Chance(50) {
				f = S("FromAddress")
			}
			var outs []*masswallet.StakingTxOut
			for i, n := 0, r.Intn(3); i < n; i++ {
				outs = append(outs, &masswallet.StakingTxOut{Address: S("StakingAddress"), FrozenPeriod: uint32(p.num(r, "frozenperiod", 32, false, wd)), Amount: amt(S("Amount"))})
			}
			return gcase{desc: desc("", f, outs), call: func(wd *World) string { _, _, err := wm(wd).CreateStakingTransaction(f, outs, lock(), amt("0")); return e(err) }}
		}},
		{"WM.SignRawTx", func() gcase {
			hx, pass, flag := S("Hex"), S("Passphrase"), S("Flags")
			return gcase{desc: desc("", hx, pass, flag), call: func(wd *World) string {
				raw, err := hexDecode(hx)
				if err != nil {
					return "err:harness-hex"
				}
				var tx wire.MsgTx
				if err := tx.SetBytes(raw, wire.Packet); err != nil {
					return "err:harness-tx"
				}
				_, err = wm(wd).SignRawTx([]byte(pass), flag, &tx)
				return e(err)
			}}
		}},
		{"WM.GetTxHistory", func() gcase {
			n, a := int(p.num(r, "count", 32, false, wd)), ""
			if r.Chance(60) {
				a = S("Address")
			}
			if r.Chance(10) {
				n = -1
			}
			var wmv map[string]interface{}
			if a == "" {
				wmv = map[string]interface{}{"wanted": n}
			}
			return gcase{desc: desc("", n, a), wm: wmv, call: func(wd *World) string { _, err := wm(wd).GetTxHistory(n, a); return e(err) }}
		}},
		{"WM.GetStakingHistory", func() gcase {
			b := r.Bool()
			return gcase{desc: desc("", b), call: func(wd *World) string { _, err := wm(wd).GetStakingHistory(b); return e(err) }}
		}},
		{"WM.GetBindingHistory", func() gcase {
			b := r.Bool()
			return gcase{desc: desc("", b), call: func(wd *World) string { _, err := wm(wd).GetBindingHistory(b); return e(err) }}
		}},
		{"WM.IsAddressInCurrent", func() gcase {
			a := S("Address")
			return gcase{desc: desc("", a), call: func(wd *World) string { _, _, err := wm(wd).IsAddressInCurrent(a); return e(err) }}
		}},
		{"WM.Wallets", func() gcase {
			return gcase{call: func(wd *World) string { _, err := wm(wd).Wallets(); return e(err) }}
		}},
		{"WM.SyncedTo", func() gcase {
			return gcase{call: func(wd *World) string { _, err := wm(wd).SyncedTo(); return e(err) }}
		}},
		{"WM.CurrentWallet", func() gcase {
			return gcase{call: func(wd *World) string { wm(wd).CurrentWallet(); return "ok" }}
		}},
	}
	m := list[r.Intn(len(list))]
	g := m.f()
	g.method = m.name
	return g
}

func hexDecode(s string) ([]byte, error) {
	if len(s)%2 != 0 {
		s = "0" + s
	}
	b := make([]byte, len(s)/2)
	for i := 0; i < len(b); i++ {
		var v byte
		for j := 0; j < 2; j++ {
			c := s[2*i+j]
			switch {
			case c >= '0' && c <= '9':
				v = v<<4 | (c - '0')
			case c >= 'a' && c <= 'f':
				v = v<<4 | (c - 'a' + 10)
			case c >= 'A' && c <= 'F':
				v = v<<4 | (c - 'A' + 10)
			default:
				return nil, fmt.Errorf("not hex")
			}
		}
		b[i] = v
	}
	return b, nil
}
