package main

// The abstract view of a request and of the store answers it depends on, in the line format
// ocaml/C19/driver.ml turns into a [request], a [wst] and an [env] of coq/Api/Panic.v.
//
//   R <caseid> <METHOD> <cur 0/1> <taskchan 0/1> <args…> # <NLOOK> (<txid> <vout> <credit F|N|E> <height> <utxo -|0|1>)*
//                                                          <NTX> (<txid> <unmined 0/1> <nout> (<parse -|0|1|2> <mine 0/1> <addrs -1..> <keys 0/1>)*)*
// Strings are hex ("-" = empty). The store answers are obtained by calling the SAME lower-level
// functions the modelled paths call (TxStore.ExistsTx / ExistUnminedTx / ExistsUtxo,
// utils.ParsePkScript, AddrManager.Address, txscript.ExtractPkScriptAddrs, RedeemScript): the
// correspondence is about the glue between them, which is what the model describes.

import (
	"encoding/hex"
	"fmt"
	"sort"
	"strings"

	"github.com/golang/protobuf/ptypes/empty"
	"github.com/massnetorg/mass-core/blockchain"

	"github.com/massnetorg/mass-core/massutil"
	"github.com/massnetorg/mass-core/txscript"
	"github.com/massnetorg/mass-core/wire"
	pb "massnet.org/mass-wallet/api/proto"
	"massnet.org/mass-wallet/config"
	"massnet.org/mass-wallet/masswallet"
	mwdb "massnet.org/mass-wallet/masswallet/db"
	"massnet.org/mass-wallet/masswallet/txmgr"
	"massnet.org/mass-wallet/masswallet/utils"
)

func hx(s string) string {
	if s == "" {
		return "-"
	}
	return hex.EncodeToString([]byte(s))
}

func b01(b bool) string {
	if b {
		return "1"
	}
	return "0"
}

type opk struct {
	txid string
	vout uint32
}

func sortedMap(m map[string]string) []string {
	var ks []string
	for k := range m {
		ks = append(ks, k)
	}
	sort.Strings(ks)
	var out []string
	out = append(out, fmt.Sprint(len(ks)))
	for _, k := range ks {
		out = append(out, hx(k), hx(m[k]))
	}
	return out
}

func strList(l []string) []string {
	out := []string{fmt.Sprint(len(l))}
	for _, s := range l {
		out = append(out, hx(s))
	}
	return out
}

// outView is what the paths read of one output
func outView(wd *World, o *wire.TxOut) string {
	parse, mine, addrs, keys := "-", "0", "-1", "0"
	ksmgr := wd.ksmgr()
	if pks, err := utils.ParsePkScript(o.PkScript, config.ChainParams); err == nil {
		switch {
		case pks.IsStaking():
			parse = "1"
		case pks.IsBinding():
			parse = "2"
		default:
			parse = "0"
		}
		if am := ksmgr.CurrentKeystore(); am != nil {
			if _, err := am.Address(pks.StdEncodeAddress()); err == nil {
				mine = "1"
			}
		}
	}
	func() {
		defer func() { recover() }()
		_, as, _, _, err := txscript.ExtractPkScriptAddrs(o.PkScript, config.ChainParams)
		if err != nil {
			return
		}
		addrs = fmt.Sprint(len(as))
		if len(as) == 0 {
			return
		}
		addr := as[0]
		if massutil.IsWitnessStakingAddress(addr) {
			addr, _ = massutil.NewAddressWitnessScriptHash(addr.ScriptAddress(), config.ChainParams)
		}
		acctM, err := ksmgr.GetAddrManager(addr.String())
		if err != nil {
			return
		}
		mAddr, err := acctM.Address(addr.String())
		if err != nil {
			return
		}
		script, err := mAddr.RedeemScript(config.ChainParams)
		if err != nil {
			return
		}
		class, _, _, _, err := txscript.ExtractPkScriptAddrs(script, config.ChainParams)
		if err == nil && class == txscript.MultiSigTy {
			keys = "1"
		}
	}()
	return parse + "\t" + mine + "\t" + addrs + "\t" + keys
}

// tables renders the store answers for the given outpoints.
func tables(wd *World, ops []opk) []string {
	_, ts, _, ksmgr, db := wd.w.WM.VerifStores()
	selected := ksmgr.CurrentKeystore() != nil
	var look []string
	txs := map[string]*wire.MsgTx{}
	unmined := map[string]bool{}
	seen := map[opk]bool{}
	nlook := 0
	for _, op := range ops {
		if seen[op] {
			continue
		}
		seen[op] = true
		h, err := wire.NewHashFromStr(op.txid)
		if err != nil {
			continue
		}
		key := h.String()
		credit, height, utxo := "N", "0", "-"
		mwdb.View(db, func(rtx mwdb.ReadTransaction) error {
			func() {
				defer func() {
					if r := recover(); r != nil {
						credit = "E"
					}
				}()
				if selected {
					mtx, meta, err := ts.ExistsTx(rtx, &wire.OutPoint{Hash: *h, Index: op.vout})
					switch {
					case err == nil && mtx != nil:
						credit = "F"
						if meta != nil {
							height = fmt.Sprint(meta.Height)
						}
						txs[key] = mtx
					case err == txmgr.ErrNotFound:
					default:
						credit = "E"
					}
					if fl, err := ts.ExistsUtxo(rtx, &wire.OutPoint{Hash: *h, Index: op.vout}); err == nil && fl != nil {
						utxo = b01(fl.Spent)
					}
				}
				if mtx, err := ts.ExistUnminedTx(rtx, h); err == nil && mtx != nil {
					unmined[key] = true
					if txs[key] == nil {
						txs[key] = mtx
					}
				}
			}()
			return nil
		})
		look = append(look, key, fmt.Sprint(op.vout), credit, height, utxo)
		nlook++
	}
	out := append([]string{fmt.Sprint(nlook)}, look...)
	var keys []string
	for k := range txs {
		keys = append(keys, k)
	}
	sort.Strings(keys)
	out = append(out, fmt.Sprint(len(keys)))
	for _, k := range keys {
		tx := txs[k]
		out = append(out, k, b01(unmined[k]), fmt.Sprint(len(tx.TxOut)))
		for _, o := range tx.TxOut {
			out = append(out, outView(wd, o))
		}
	}
	return out
}

func pbInputs(l []*pb.TransactionInput, trim bool) ([]string, []opk) {
	out := []string{fmt.Sprint(len(l))}
	var ops []opk
	for _, i := range l {
		out = append(out, hx(i.TxId), fmt.Sprint(i.Vout))
		t := i.TxId
		if trim {
			t = strings.TrimSpace(t)
		}
		ops = append(ops, opk{t, i.Vout})
	}
	return out, ops
}

// asciiOnlySpaces: the model's TrimSpace is the ASCII one
func asciiOnly(ss ...string) bool {
	for _, s := range ss {
		for i := 0; i < len(s); i++ {
			if s[i] >= 0x80 {
				return false
			}
		}
	}
	return true
}

// addrClass: what massutil.DecodeAddress says about a string (the [addr_class] of coq/Api/Validate.v)
func addrClass(s string) (cls string) {
	defer func() {
		if r := recover(); r != nil {
			cls = "E"
		}
	}()
	a, err := massutil.DecodeAddress(s, config.ChainParams)
	if err != nil || a == nil {
		return "E"
	}
	switch t := a.(type) {
	case *massutil.AddressWitnessScriptHash:
		return fmt.Sprintf("W%d.%d", t.WitnessVersion(), t.WitnessExtendVersion())
	case *massutil.AddressPubKeyHash:
		return "P"
	case *massutil.AddressBindingTarget:
		return "T"
	}
	return fmt.Sprintf("O%d", len(a.ScriptAddress()))
}

// second renders the "$" section: codec answers for the given strings / payloads and the node-side facts
func second(wd *World, addrs []string, pays [][]byte, blockAt int64, rewardAt int64, rows []string) []string {
	out := []string{"$"}
	seen := map[string]bool{}
	var al []string
	for _, a := range addrs {
		for _, v := range []string{a, strings.TrimSpace(a)} {
			if !seen[v] {
				seen[v] = true
				al = append(al, v)
			}
		}
	}
	out = append(out, fmt.Sprint(len(al)))
	for _, a := range al {
		out = append(out, hx(a), addrClass(a))
	}
	out = append(out, fmt.Sprint(len(pays)))
	for _, raw := range pays {
		pl := blockchain.DecodePayload(raw)
		out = append(out, hx(string(raw)), b01(pl != nil && pl.Method == blockchain.BindPoolCoinbase))
	}
	chain := wd.w.WM.VerifServer().Blockchain()
	best := chain.BestBlockHeight()
	out = append(out, fmt.Sprint(best))
	blk := "0"
	if blockAt >= 0 {
		if _, err := chain.GetBlockByHeight(uint64(blockAt)); err == nil {
			blk = "1"
		}
	}
	out = append(out, blk)
	rew := "-"
	if rewardAt >= 0 {
		h := uint64(rewardAt)
		if h == 0 {
			h = best
		}
		if b, err := chain.GetBlockByHeight(h); err == nil {
			if cb, err := b.Tx(0); err == nil {
				pl := blockchain.NewCoinbasePayload()
				if pl.SetBytes(cb.MsgTx().Payload) == nil {
					rew = fmt.Sprintf("%d,%d", pl.NumStakingReward(), len(cb.MsgTx().TxOut))
				}
			}
		}
	}
	out = append(out, rew)
	if rows == nil {
		rows = []string{"0"}
	}
	out = append(out, rows...)
	// has the keystore cache lost the keystore that is still selected? (asked the way the path asks)
	ev := "0"
	func() {
		defer func() {
			if r := recover(); r != nil {
				ev = "1"
			}
		}()
		wd.ksmgr().GetManagedAddressByScriptHashInCurrent(make([]byte, 32))
	}()
	return append(out, ev)
}

// lagRows: the binding-history row of the deposit of scenario lagging-reorg, as coq/Api/Panic.v [bind_row] reads it:
// the recorded output index, and the transaction the node NOW returns for the recorded (height, location)
func lagRows(wd *World) []string {
	l := wd.lag
	// with unconfirmed binding deposits in the wallet the API meets their rows first (and gives up on an unmined
	// parent: ErrAPIQueryDataFailed): the single row rendered here is the whole story only without them
	if l == nil || !l.sameLoc || wd.lagDirty || len(wd.ws) == 0 || wd.w.WM.CurrentWallet() != wd.ws[0].id || len(wd.pend) > 0 {
		return nil // (another wallet may have been selected by an earlier request of the instance)
	}
	// has the wallet followed the node in the meantime? then the row is gone (or points to the new chain)
	if h, err := wd.w.WM.SyncedTo(); err != nil || h != l.height+1 {
		return nil
	}
	chain := wd.w.WM.VerifServer().Blockchain()
	row := []string{"1", "1", "1", "0", "1", fmt.Sprint(len(l.newTx.TxOut))}
	for _, o := range l.newTx.TxOut {
		if pks, err := utils.ParsePkScript(o.PkScript, config.ChainParams); err != nil {
			row = append(row, "-")
		} else {
			row = append(row, b01(pks.IsBinding()))
		}
	}
	row = append(row, fmt.Sprint(l.oldTx.TxOut[1].Value), "0", fmt.Sprint(len(l.newTx.TxIn)))
	for _, in := range l.newTx.TxIn {
		prev := "-"
		ok := "0"
		if list, err := chain.GetTransactionInDB(&in.PreviousOutPoint.Hash); err == nil && len(list) > 0 {
			ptx := list[len(list)-1].Tx
			prev = fmt.Sprint(len(ptx.TxOut))
			if int(in.PreviousOutPoint.Index) < len(ptx.TxOut) {
				if _, err := utils.ParsePkScript(ptx.TxOut[in.PreviousOutPoint.Index].PkScript, config.ChainParams); err == nil {
					ok = "1"
				}
			}
		}
		row = append(row, prev, fmt.Sprint(in.PreviousOutPoint.Index), "0", ok)
	}
	return row
}

// modelLine returns the R line of a case, or "" when the model has nothing to say about it.
func modelLine(wd *World, id string, g gcase) string {
	cur := wd.w.WM.CurrentWallet() != ""
	head := []string{"R", id, g.method, b01(cur), b01(wd.w.H.VerifTaskChanReady())}
	var args []string
	var ops []opk
	var sec []string // the "$" section (second group)
	switch r := g.req.(type) {
	case *pb.UseWalletRequest:
		args = []string{hx(r.WalletId)}
	case *pb.ExportWalletRequest:
		args = []string{hx(r.WalletId), hx(r.Passphrase)}
	case *pb.RemoveWalletRequest:
		args = []string{hx(r.WalletId), hx(r.Passphrase)}
	case *pb.GetWalletMnemonicRequest:
		args = []string{hx(r.WalletId), hx(r.Passphrase)}
	case *pb.ImportWalletRequest:
		args = []string{hx(r.Keystore), hx(r.Passphrase)}
	case *pb.ImportMnemonicRequest:
		args = []string{hx(r.Mnemonic), hx(r.Passphrase), hx(r.Remarks), fmt.Sprint(r.ExternalIndex), fmt.Sprint(r.InternalIndex)}
	case *pb.CreateWalletRequest:
		args = []string{hx(r.Passphrase), hx(r.Remarks), fmt.Sprint(r.BitSize)}
	case *pb.ValidateAddressRequest:
		args = []string{hx(r.Address)}
		sec = second(wd, []string{r.Address}, nil, -1, -1, nil)
	case *pb.GetAddressBalanceRequest:
		args = append([]string{fmt.Sprint(r.RequiredConfirmations)}, strList(r.Addresses)...)
	case *pb.GetWalletBalanceRequest:
		args = []string{fmt.Sprint(r.RequiredConfirmations), b01(r.Detail)}
	case *pb.GetUtxoRequest:
		args = strList(r.Addresses)
	case *pb.CreateAddressRequest:
		args = []string{fmt.Sprint(r.Version)}
	case *pb.GetAddressesRequest:
		args = []string{fmt.Sprint(r.Version)}
	case *pb.TxHistoryRequest:
		args = []string{fmt.Sprint(r.Count), hx(r.Address)}
	case *pb.GetTxStatusRequest:
		args = []string{hx(r.TxId)}
	case *pb.GetRawTransactionRequest:
		args = []string{hx(r.TxId)}
	case *pb.DecodeRawTransactionRequest:
		args = []string{hx(r.Hex)}
	case *pb.CreateRawTransactionRequest:
		var ins []string
		ins, ops = pbInputs(r.Inputs, true)
		var ks []string
		for k, v := range r.Amounts {
			ks = append(ks, k, v)
		}
		if !asciiOnly(append(ks, r.ChangeAddress)...) {
			return ""
		}
		args = append([]string{fmt.Sprint(r.LockTime), hx(r.ChangeAddress)}, ins...)
		args = append(args, sortedMap(r.Amounts)...)
		args = append(args, strList(r.Subtractfeefrom)...)
	case *pb.AutoCreateTransactionRequest:
		var ks []string
		for k, v := range r.Amounts {
			ks = append(ks, k, v)
		}
		if !asciiOnly(ks...) {
			return ""
		}
		if !asciiOnly(r.FromAddress, r.ChangeAddress) {
			return ""
		}
		args = append([]string{fmt.Sprint(r.LockTime), hx(r.Fee), hx(r.FromAddress), hx(r.ChangeAddress)}, sortedMap(r.Amounts)...)
		sec = second(wd, []string{r.FromAddress, r.ChangeAddress}, nil, -1, -1, nil)
	case *pb.CreateStakingTransactionRequest:
		args = []string{hx(r.FromAddress), hx(r.StakingAddress), hx(r.Amount), fmt.Sprint(r.FrozenPeriod), hx(r.Fee)}
		sec = second(wd, []string{r.FromAddress, r.StakingAddress}, nil, -1, -1, nil)
	case *pb.CreateBindingTransactionRequest:
		args = []string{hx(r.FromAddress), hx(r.Fee), fmt.Sprint(len(r.Outputs))}
		as := []string{r.FromAddress}
		for _, o := range r.Outputs {
			args = append(args, hx(o.HolderAddress), hx(o.BindingAddress), hx(o.Amount))
			as = append(as, o.HolderAddress, o.BindingAddress)
		}
		sec = second(wd, as, nil, -1, -1, nil)
	case *pb.CreatePoolPkCoinbaseTransactionRequest:
		if !asciiOnly(r.FromAddress) {
			return ""
		}
		args = []string{hx(r.FromAddress), hx(r.Payload)}
		var pays [][]byte
		if raw, err := hex.DecodeString(r.Payload); err == nil {
			pays = append(pays, raw)
		}
		sec = second(wd, []string{r.FromAddress}, pays, -1, -1, nil)
	case *pb.GetStakingHistoryRequest:
		args = []string{hx(r.Type)}
		sec = second(wd, nil, nil, -1, -1, nil)
	case *pb.GetBindingHistoryRequest:
		args = []string{hx(r.Type)}
		rows := lagRows(wd)
		if wd.lag != nil && rows == nil && cur {
			return "" // the rows of this state are not rendered (see lagRows): nothing to compare
		}
		sec = second(wd, nil, nil, -1, -1, rows)
	case *pb.SendRawTransactionRequest:
		raw, err := hexDecode(r.Hex)
		var tx wire.MsgTx
		args = []string{hx(r.Hex), b01(err == nil && len(r.Hex) > 0 && tx.SetBytes(raw, wire.Packet) == nil)}
	case *pb.GetNetworkBindingRequest:
		args = []string{fmt.Sprint(r.Height)}
	case *pb.CheckPoolPkCoinbaseRequest:
		args = strList(r.PoolPubkeys)
	case *pb.CheckTargetBindingRequest:
		if !asciiOnly(r.Targets...) {
			return ""
		}
		args = strList(r.Targets)
		sec = second(wd, r.Targets, nil, -1, -1, nil)
	case *pb.GetBlockByHeightRequest:
		if r.Height > 1<<62 {
			return ""
		}
		args = []string{fmt.Sprint(r.Height)}
		sec = second(wd, nil, nil, int64(r.Height), -1, nil)
	case *pb.GetBlockStakingRewardRequest:
		if r.Height > 1<<62 {
			args = []string{fmt.Sprint(r.Height)}
			sec = second(wd, nil, nil, -1, -1, nil)
		} else {
			args = []string{fmt.Sprint(r.Height)}
			sec = second(wd, nil, nil, -1, int64(r.Height), nil)
		}
	case *empty.Empty:
		switch g.method {
		case "GetBestBlock":
			sec = second(wd, nil, nil, int64(wd.w.WM.VerifServer().Blockchain().BestBlockHeight()), -1, nil)
		case "Wallets":
		default:
			return ""
		}
	case *pb.GetTransactionFeeRequest:
		var ins []string
		ins, ops = pbInputs(r.Inputs, false)
		args = append([]string{b01(r.HasBinding)}, sortedMap(r.Amounts)...)
		args = append(args, ins...)
		var ks []string
		for k := range r.Amounts {
			ks = append(ks, k)
		}
		sort.Strings(ks)
		sec = second(wd, ks, nil, -1, -1, nil)
	case *pb.SignRawTransactionRequest:
		args = []string{hx(r.RawTx), hx(r.Passphrase), hx(r.Flags)}
		raw, err := hexDecode(r.RawTx)
		var tx wire.MsgTx
		if err != nil || len(r.RawTx) == 0 || tx.SetBytes(raw, wire.Packet) != nil {
			args = append(args, "0", "0")
		} else {
			args = append(args, "1", fmt.Sprint(len(tx.TxIn)))
			for _, in := range tx.TxIn {
				args = append(args, in.PreviousOutPoint.Hash.String(), fmt.Sprint(in.PreviousOutPoint.Index))
				ops = append(ops, opk{in.PreviousOutPoint.Hash.String(), in.PreviousOutPoint.Index})
			}
		}
	default:
		if g.wm == nil {
			return ""
		}
		switch g.method {
		case "WM.CreateRawTransaction":
			ins := g.wm["inputs"].([]*masswallet.TxIn)
			args = []string{b01(g.wm["change_empty"].(bool)), fmt.Sprint(g.wm["namounts"].(int)), fmt.Sprint(len(ins))}
			for _, i := range ins {
				args = append(args, hx(i.TxId), fmt.Sprint(i.Vout))
				ops = append(ops, opk{i.TxId, i.Vout})
			}
		case "WM.EstimateManualTxFee":
			ins := g.wm["inputs"].([]*masswallet.TxIn)
			args = []string{fmt.Sprint(len(ins))}
			for _, i := range ins {
				args = append(args, hx(i.TxId), fmt.Sprint(i.Vout))
				ops = append(ops, opk{i.TxId, i.Vout})
			}
		case "WM.GetTxHistory":
			args = []string{fmt.Sprint(g.wm["wanted"].(int))}
		default:
			return ""
		}
	}
	line := append(head, args...)
	line = append(line, "#")
	line = append(line, tables(wd, ops)...)
	line = append(line, sec...)
	return strings.Join(line, "\t")
}
