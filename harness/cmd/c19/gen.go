package main

// Request generation. Every request struct of api/proto is filled by reflection: the value of a
// field is drawn from a pool selected by the field's NAME and type — "good" values taken from the
// world (ids, addresses, txids, outpoints, passphrases, mnemonics, keystores, transaction hex of
// this very state, of the other wallet, of the other network ...) and "bad" ones (empty, one
// character, the length limits -1/0/+1, 10 000 characters, non-hex, odd-length hex, wrong class,
// wrong network, overflowing numbers ...). A field name the generator does not know is filled
// from a generic pool and counted, so that a new API field is noticed.

import (
	"bytes"
	"encoding/hex"
	"fmt"
	"math"
	"reflect"
	"strings"

	"github.com/massnetorg/mass-core/massutil"
	"github.com/massnetorg/mass-core/wire"
	"massnet.org/mass-wallet/config"
	"verifharness/internal/rng"
	"verifharness/internal/sim"
)

type pools struct {
	walletIDs, walletIDsBad   []string
	passes, passesBad         []string
	addrs, addrsBad           []string // standard addresses of the selected wallet first
	stakingAddrs              []string
	targets                   []string
	txids, txidsBad           []string
	outpoints                 []outp // (txid, vout, nout, kind)
	amounts, amountsBad       []string
	hexes, hexesBad           []string
	mnemonics, mnemonicsBad   []string
	keystores, keystoresBad   []string
	flags                     []string
	unknownFields             map[string]int
}

type outp struct {
	txid string
	vout uint32
	nout int
	kind string
}

func rep(s string, n int) string { return strings.Repeat(s, n) }

func otherNetAddr(sh []byte) string {
	p := *config.ChainParams
	// a different human-readable prefix / version: whatever differs in the other parameter sets
	for i := range p.Bech32HRPSegwit {
		_ = i
	}
	p.Bech32HRPSegwit = "tm"
	a, err := massutil.NewAddressWitnessScriptHash(sh, &p)
	if err != nil {
		return "tm1qqqqqqqqqqqqqqqqqqqqqqqqqqqqqqqqqqqqqqqqqqqqqqqqqqqqqqqq"
	}
	return a.EncodeAddress()
}

func txHex(tx *wire.MsgTx) string {
	var buf bytes.Buffer
	if _, err := tx.Encode(&buf, wire.Packet); err != nil {
		return ""
	}
	return hex.EncodeToString(buf.Bytes())
}

func buildPools(wd *World) *pools {
	p := &pools{unknownFields: map[string]int{}}
	r := wd.r
	var cur *wallet
	if len(wd.ws) > 0 {
		cur = wd.ws[0]
	}
	for _, wl := range wd.ws {
		p.walletIDs = append(p.walletIDs, wl.id)
		p.passes = append(p.passes, wl.pass)
		if wl.mnemonic != "" {
			p.mnemonics = append(p.mnemonics, wl.mnemonic)
		}
		if wl.keystoreJSON != "" {
			p.keystores = append(p.keystores, wl.keystoreJSON)
		}
		for _, ai := range wl.addrs {
			p.addrs = append(p.addrs, ai.std)
			p.stakingAddrs = append(p.stakingAddrs, ai.staking)
		}
	}
	for _, wl := range wd.gone {
		p.walletIDs = append(p.walletIDs, wl.id)
		p.passes = append(p.passes, wl.pass)
		p.mnemonics = append(p.mnemonics, wl.mnemonic)
		if wl.keystoreJSON != "" {
			p.keystores = append(p.keystores, wl.keystoreJSON)
		}
		for _, ai := range wl.addrs {
			p.addrs = append(p.addrs, ai.std)
		}
	}
	// a stranger's and a foreign-network address
	sh := r.Bytes(32)
	if a, err := massutil.NewAddressWitnessScriptHash(sh, config.ChainParams); err == nil {
		p.addrs = append(p.addrs, a.EncodeAddress())
	}
	if a, err := massutil.NewAddressStakingScriptHash(sh, config.ChainParams); err == nil {
		p.stakingAddrs = append(p.stakingAddrs, a.EncodeAddress())
	}
	if len(p.walletIDs) == 0 {
		p.walletIDs = []string{"ac10" + rep("q", 38)}
	}
	valid := p.walletIDs[0]
	p.walletIDsBad = []string{"", "a", valid[:41], valid + "x", strings.ToUpper(valid), "ac10" + rep("0", 38), rep("z", 42), rep("\xff", 42), rep("a", 10000), valid[:20] + "\x00" + valid[21:]}
	p.passesBad = []string{"", "12345", "123456", rep("p", 40), rep("p", 41), "wrong-passphrase", rep("p", 10000), "pässwörd1", "\x00\x00\x00\x00\x00\x00"}
	if len(p.passes) == 0 {
		p.passes = []string{"passA@verif1"}
	}
	good := "ms1qq" + rep("q", 50)
	if len(p.addrs) > 0 {
		good = p.addrs[0]
	}
	p.addrsBad = []string{"", "m", good[:len(good)-1], good + "q", strings.ToUpper(good), otherNetAddr(sh), rep("a", 100), rep("a", 101), rep("m", 10000),
		"ms1" + rep("q", 60), "1BvBMSEYstWetqTFn5Au4m4GFg7xJaNVN2", " " + good + " ", good[:10] + "I" + good[11:]}
	if len(p.stakingAddrs) > 0 {
		p.addrsBad = append(p.addrsBad, p.stakingAddrs[0]) // class confusion: staking where standard is expected
	}
	// binding targets: old (pubkey-hash, base58) and new (22 bytes)
	if a, err := massutil.NewAddressPubKeyHash(r.Bytes(20), config.ChainParams); err == nil {
		p.targets = append(p.targets, a.EncodeAddress())
	}
	for _, t := range [][]byte{append(r.Bytes(20), 0, 32), append(r.Bytes(20), 1, 34), append(r.Bytes(20), 5, 32), append(r.Bytes(20), 0, 250)} {
		if a, err := massutil.NewAddressBindingTarget(t, config.ChainParams); err == nil {
			p.targets = append(p.targets, a.EncodeAddress())
		}
	}
	// outpoints
	add := func(c *coin, kind string) {
		p.outpoints = append(p.outpoints, outp{c.op.Hash.String(), c.op.Index, c.nout, kind})
		p.txids = append(p.txids, c.op.Hash.String())
	}
	var all []*coin
	for _, c := range wd.utxo {
		all = append(all, c)
	}
	sortCoins(all)
	nStr := 0
	for _, c := range all {
		switch {
		case c.owner != nil && c.owner == cur:
			add(c, fmt.Sprintf("own-unspent-%d", c.class))
		case c.owner != nil:
			add(c, "foreign-unspent")
		case nStr < 4:
			nStr++
			add(c, "stranger")
		}
	}
	sp := append([]*coin{}, wd.spent...)
	for i, c := range sp {
		if i > 12 {
			break
		}
		if c.owner != nil && c.owner == cur {
			add(c, "own-spent")
		} else if c.owner != nil {
			add(c, "foreign-spent")
		}
	}
	for _, tx := range wd.pend {
		h := tx.TxHash().String()
		p.txids = append(p.txids, h)
		for i := range tx.TxOut {
			p.outpoints = append(p.outpoints, outp{h, uint32(i), len(tx.TxOut), "pending"})
		}
		for _, in := range tx.TxIn {
			nout := 1
			if c := wd.utxo[in.PreviousOutPoint]; c != nil {
				nout = c.nout
			}
			p.outpoints = append(p.outpoints, outp{in.PreviousOutPoint.Hash.String(), in.PreviousOutPoint.Index, nout, "spent-by-pending"})
		}
	}
	for _, tx := range wd.pendRejected {
		p.txids = append(p.txids, tx.TxHash().String())
	}
	unknown := hex.EncodeToString(r.Bytes(32))
	p.txids = append(p.txids, unknown)
	p.outpoints = append(p.outpoints, outp{unknown, 0, 1, "unknown"})
	t0 := unknown
	p.txidsBad = []string{"", "0", t0[:63], t0 + "0", rep("g", 64), strings.ToUpper(t0), " " + t0[:62] + " ", rep("0", 64), rep("f", 64), rep("0", 10000), t0[:32] + "\x00" + t0[33:]}

	p.amounts = []string{"1", "0.5", "0.00000001", "10", "0.0001", "2048", "3.14159265", "100", "0.01", "25"}
	p.amountsBad = []string{"", "0", "0.0", ".", "1.", ".5", "206438400", "206438400.00000001", "206438401", "92233720368", "99999999999999999999", "1.123456789",
		"-1", "+1", "1e5", "abc", " 1", "1 ", "1.0.0", "0x10", "١", rep("9", 400), "0." + rep("0", 400) + "1", "1,5"}

	// transactions
	var own, foreign, pending *coin
	for _, c := range all {
		if c.owner == cur && cur != nil && c.class == clsStd && own == nil {
			own = c
		}
		if c.owner != nil && c.owner != cur && foreign == nil {
			foreign = c
		}
	}
	_ = pending
	stranger := stdScript(sh)
	mk := func(ins []wire.OutPoint, nouts int) string {
		var outs []sim.Out
		for i := 0; i < nouts; i++ {
			outs = append(outs, sim.Out{Script: stranger, Value: 1000000})
		}
		return txHex(sim.NewTx(ins, nil, outs, 0, nil))
	}
	if own != nil {
		p.hexes = append(p.hexes, mk([]wire.OutPoint{own.op}, 1), mk([]wire.OutPoint{own.op}, 2), mk([]wire.OutPoint{own.op, own.op}, 1))
		p.hexes = append(p.hexes, mk([]wire.OutPoint{{Hash: own.op.Hash, Index: uint32(own.nout)}}, 1), mk([]wire.OutPoint{{Hash: own.op.Hash, Index: math.MaxUint32}}, 1), mk([]wire.OutPoint{own.op}, 0))
	}
	for _, c := range all {
		if c.owner == cur && cur != nil && c.class != clsStd {
			p.hexes = append(p.hexes, mk([]wire.OutPoint{c.op}, 1))
		}
	}
	if foreign != nil {
		p.hexes = append(p.hexes, mk([]wire.OutPoint{foreign.op}, 1))
	}
	for i, c := range sp {
		if i < 3 {
			p.hexes = append(p.hexes, mk([]wire.OutPoint{c.op}, 1))
		}
	}
	for _, tx := range wd.pend {
		h := tx.TxHash()
		for i := 0; i <= len(tx.TxOut); i++ {
			p.hexes = append(p.hexes, mk([]wire.OutPoint{{Hash: h, Index: uint32(i)}}, 1))
		}
		p.hexes = append(p.hexes, mk([]wire.OutPoint{{Hash: h, Index: 0}}, 0), mk([]wire.OutPoint{tx.TxIn[0].PreviousOutPoint}, 1), txHex(tx))
	}
	for i, tx := range wd.chainTx {
		if i%7 == 0 {
			p.hexes = append(p.hexes, txHex(tx))
		}
	}
	var uh wire.Hash
	copy(uh[:], r.Bytes(32))
	p.hexes = append(p.hexes, mk([]wire.OutPoint{{Hash: uh, Index: 0}}, 1), mk(nil, 1), mk(nil, 0))
	hx := p.hexes[0]
	p.hexesBad = []string{"", "0", "zz", hx[:len(hx)/2], hx[:len(hx)-1], hx + "00", "0" + hx, strings.ToUpper(hx), rep("00", 5000), rep("ff", 5000), hx[:8] + rep("ff", 40), " " + hx}

	fresh := "abandon abandon abandon abandon abandon abandon abandon abandon abandon abandon abandon about"
	p.mnemonics = append(p.mnemonics, fresh)
	m0 := p.mnemonics[0]
	p.mnemonicsBad = []string{"", rep("a", 37), rep("a", 38), rep("a ", 128), rep("a", 257), strings.Replace(m0, " ", "  ", -1), strings.ToUpper(m0), m0 + " abandon",
		"abandon abandon abandon abandon abandon abandon abandon abandon abandon abandon abandon abandon", strings.Replace(m0, " ", "\t", 1), rep("zoo ", 24), rep("é", 40)}
	ks := `{"remarks":"x"}`
	if len(p.keystores) > 0 {
		ks = p.keystores[0]
	}
	p.keystoresBad = []string{"", "{}", "[]", "null", ks[:len(ks)/2], strings.Replace(ks, "\"", "'", 4), strings.Replace(ks, "0", "1", 3), rep("{", 10000), `{"crypto":null,"hdPath":null}`,
		`{"remarks":"x","crypto":{"cipher":"","entropyEnc":"","kdf":"","privParams":"","cryptoKeyEntropyEnc":""},"hdPath":{"Purpose":0,"Coin":0,"Account":0,"ExternalChildNum":4294967295,"InternalChildNum":4294967295}}`}
	if len(p.keystores) == 0 {
		p.keystores = []string{ks}
	}
	p.flags = []string{"", "ALL", "NONE", "SINGLE", "ALL|ANYONECANPAY", "NONE|ANYONECANPAY", "SINGLE|ANYONECANPAY", "all", "ALL|", "BOGUS", rep("A", 10000)}
	return p
}

func pick(r *rng.R, good, bad []string, pGood int) string {
	if len(good) > 0 && (len(bad) == 0 || r.Chance(pGood)) {
		return good[r.Intn(len(good))]
	}
	if len(bad) == 0 {
		return ""
	}
	return bad[r.Intn(len(bad))]
}

func (p *pools) str(r *rng.R, name string, pGood int) string {
	n := strings.ToLower(name)
	switch {
	case n == "walletid":
		return pick(r, p.walletIDs, p.walletIDsBad, pGood)
	case strings.Contains(n, "passphrase"):
		return pick(r, p.passes, p.passesBad, pGood)
	case n == "stakingaddress":
		return pick(r, p.stakingAddrs, append(append([]string{}, p.addrs...), p.addrsBad...), pGood)
	case n == "bindingaddress" || n == "targets":
		return pick(r, p.targets, append(append([]string{}, p.addrs...), p.addrsBad...), pGood)
	case strings.Contains(n, "address") || n == "subtractfeefrom" || n == "amounts.key":
		return pick(r, p.addrs, p.addrsBad, pGood)
	case n == "txid":
		return pick(r, p.txids, p.txidsBad, pGood)
	case n == "amount" || n == "fee" || n == "amounts.value":
		if n == "fee" && r.Chance(40) {
			return pick(r, []string{"", "0", "0.0001", "0.01", "1"}, nil, 100)
		}
		return pick(r, p.amounts, p.amountsBad, pGood)
	case n == "hex" || n == "rawtx":
		return pick(r, p.hexes, p.hexesBad, pGood)
	case n == "payload" || n == "poolpubkeys":
		return pick(r, []string{"", hex.EncodeToString(r.Bytes(33)), hex.EncodeToString(r.Bytes(40)), "0001" + hex.EncodeToString(r.Bytes(33)) + "0000000000000001"},
			[]string{"zz", "0", rep("ab", 5000)}, pGood)
	case n == "flags":
		return pick(r, p.flags, nil, 100)
	case n == "mnemonic":
		return pick(r, p.mnemonics, p.mnemonicsBad, pGood)
	case n == "keystore":
		return pick(r, p.keystores, p.keystoresBad, pGood)
	case n == "remarks":
		return pick(r, []string{"", "remark", rep("r", 20), rep("r", 21), rep("é", 20), rep("é", 21), "\xff\xfe\xfd", rep("x", 10000)}, nil, 100)
	case n == "type":
		return pick(r, []string{"", "all", "ALL", "x"}, nil, 100)
	}
	p.unknownFields[name]++
	return pick(r, []string{"", "a", rep("a", 10000), "\x00", "0"}, nil, 100)
}

func (p *pools) num(r *rng.R, name string, bits int, signed bool, wd *World) int64 {
	n := strings.ToLower(name)
	u := func(l ...int64) int64 { return l[r.Intn(len(l))] }
	switch n {
	case "version":
		return u(0, 0, 1, 1, 2, -1, 65536, 65537, math.MaxInt32, math.MinInt32)
	case "requiredconfirmations":
		return u(0, 1, 1, 2, 6, -1, math.MaxInt32, math.MinInt32, 100000)
	case "locktime":
		return u(0, 0, 0, 1, 500, math.MaxInt64, math.MinInt64 /* 2^63 as uint64 */, -1 /* 2^64-1 */)
	case "frozenperiod":
		m := int64(sim.Cur.MinFrozenPeriod)
		return u(m, m, m+1, m-1, 0, 65535, 65536, math.MaxUint32, math.MaxUint32-1, 1<<31)
	case "count":
		return u(0, 1, 5, 200, 1000, 1001, math.MaxUint32)
	case "height":
		b := int64(wd.n.Height())
		return u(0, 1, b, b+1, b/2, -1, math.MaxInt64)
	case "bitsize":
		return u(128, 128, 160, 192, 224, 256, 0, -1, 129, 96, 512, math.MaxInt32, math.MinInt32)
	case "externalindex", "internalindex":
		// large hints make the import work for seconds to days (known finding, measured by scenario "hints")
		return u(0, 0, 1, 2, 19, 20, 21, 40, 300)
	case "vout":
		return u(0, 1, 2, 3, 1<<31, math.MaxUint32)
	}
	p.unknownFields[name]++
	return u(0, 1, -1, math.MaxInt64)
}

// fill populates a request message.
func (p *pools) fill(r *rng.R, v reflect.Value, wd *World, pGood int) {
	t := v.Type()
	for i := 0; i < t.NumField(); i++ {
		f := t.Field(i)
		if strings.HasPrefix(f.Name, "XXX_") || f.PkgPath != "" {
			continue
		}
		fv := v.Field(i)
		switch fv.Kind() {
		case reflect.String:
			fv.SetString(p.str(r, f.Name, pGood))
		case reflect.Bool:
			fv.SetBool(r.Bool())
		case reflect.Int32, reflect.Int64:
			fv.SetInt(truncInt(p.num(r, f.Name, fv.Type().Bits(), true, wd), fv.Type().Bits()))
		case reflect.Uint32, reflect.Uint64:
			fv.SetUint(truncUint(uint64(p.num(r, f.Name, fv.Type().Bits(), false, wd)), fv.Type().Bits()))
		case reflect.Slice:
			n := []int{0, 1, 1, 1, 2, 3}[r.Intn(6)]
			if r.Chance(2) {
				n = 300
			}
			sl := reflect.MakeSlice(fv.Type(), 0, n)
			for k := 0; k < n; k++ {
				et := fv.Type().Elem()
				switch {
				case et.Kind() == reflect.String:
					sl = reflect.Append(sl, reflect.ValueOf(p.str(r, f.Name, pGood)))
				case et.Kind() == reflect.Ptr && et.Elem().Kind() == reflect.Struct:
					e := reflect.New(et.Elem())
					p.fill(r, e.Elem(), wd, pGood)
					if et.Elem().Name() == "TransactionInput" && r.Chance(75) {
						// a coherent outpoint of this state, vout in range, at the end, or far out
						o := p.outpoints[r.Intn(len(p.outpoints))]
						e.Elem().FieldByName("TxId").SetString(o.txid)
						vo := o.vout
						switch r.Intn(8) {
						case 0:
							vo = uint32(o.nout)
						case 1:
							vo = math.MaxUint32
						case 2:
							vo = uint32(r.Intn(o.nout + 1))
						}
						e.Elem().FieldByName("Vout").SetUint(uint64(vo))
					}
					sl = reflect.Append(sl, e)
				}
			}
			fv.Set(sl)
		case reflect.Map:
			n := []int{0, 1, 1, 1, 2, 3}[r.Intn(6)]
			m := reflect.MakeMap(fv.Type())
			for k := 0; k < n; k++ {
				m.SetMapIndex(reflect.ValueOf(p.str(r, f.Name+".key", pGood)), reflect.ValueOf(p.str(r, f.Name+".value", pGood)))
			}
			fv.Set(m)
		}
	}
}

func truncInt(x int64, bits int) int64 {
	if bits == 32 {
		return int64(int32(x))
	}
	return x
}

func truncUint(x uint64, bits int) uint64 {
	if bits == 32 {
		return uint64(uint32(x))
	}
	return x
}
