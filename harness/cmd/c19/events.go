package main

// Chain events: blocks and unconfirmed transactions with unsupported / malformed scripts, odd
// values, dangling or out-of-range inputs, conflicts, reorganisations, re-imports — each
// followed by a liveness probe (is the next ordinary block processed?).

import (
	"bytes"
	"fmt"
	"math"
	"strconv"
	"strings"
	"time"

	"github.com/massnetorg/mass-core/massutil"
	"github.com/massnetorg/mass-core/txscript"
	"github.com/massnetorg/mass-core/wire"
	"massnet.org/mass-wallet/masswallet/keystore"
	"verifharness/internal/rng"
	"verifharness/internal/sim"
)

type event struct {
	name   string
	beyond bool // not deliverable by a consensus-following node (kept, but labelled)
	run    func(wd *World) string
}

func weirdScripts(wd *World, r *rng.R) map[string][]byte {
	A := wd.ws[0]
	sh := A.addrs[0].sh
	off := append([]byte{txscript.OP_1, 33, 2}, make([]byte, 32)...)
	off[len(off)-1] = 5
	off = append(off, txscript.OP_1, txscript.OP_CHECKMULTISIG)
	m := map[string][]byte{
		"op_return":          append([]byte{txscript.OP_RETURN, 4}, r.Bytes(4)...),
		"empty":              {},
		"op_true":            {txscript.OP_TRUE},
		"p2pkh":              append(append([]byte{txscript.OP_DUP, txscript.OP_HASH160, 20}, r.Bytes(20)...), txscript.OP_EQUALVERIFY, txscript.OP_CHECKSIG),
		"witness31":          append([]byte{txscript.OP_0, 31}, sh[:31]...),
		"witness33":          append(append([]byte{txscript.OP_0, 33}, sh...), 1),
		"witness_v1":         append([]byte{txscript.OP_1, 32}, sh...),
		"staking_frozen0":    append(append([]byte{txscript.OP_0, 32}, sh...), 8, 0, 0, 0, 0, 0, 0, 0, 0),
		"staking_frozenmax":  append(append([]byte{txscript.OP_0, 32}, sh...), 8, 255, 255, 255, 255, 255, 255, 255, 255),
		"staking_frozen7b":   append(append([]byte{txscript.OP_0, 32}, sh...), 7, 1, 0, 0, 0, 0, 0, 0),
		"binding_badtype":    append(append(append([]byte{txscript.OP_0, 32}, sh...), 22), append(r.Bytes(20), 5, 32)...),
		"binding_size0":      append(append(append([]byte{txscript.OP_0, 32}, sh...), 22), append(r.Bytes(20), 0, 0)...),
		"binding_21":         append(append(append([]byte{txscript.OP_0, 32}, sh...), 21), r.Bytes(21)...),
		"multisig_offcurve":  off,
		"truncated_push":     {txscript.OP_0, 32, 1, 2, 3},
		"pushdata4_huge":     {txscript.OP_PUSHDATA4, 255, 255, 255, 255, 1},
		"nops_10k":           bytes.Repeat([]byte{txscript.OP_NOP}, 10000),
		"std_then_garbage":   append(append([]byte{txscript.OP_0, 32}, sh...), 0xff, 0xff),
	}
	return m
}

func (wd *World) tryReceive(tx *wire.MsgTx) string {
	rel, err := wd.w.H.VerifReceiveTx(tx)
	switch {
	case err != nil:
		return "tx:refused"
	case rel:
		wd.pend = append(wd.pend, tx)
		return "tx:relevant"
	}
	return "tx:irrelevant"
}

func (wd *World) tryBlock(cb []sim.Out, txs []*wire.MsgTx) string {
	b, err := wd.block(cb, txs, false)
	if err != nil {
		return "harness:" + err.Error()
	}
	wd.w.Notify(b)
	if wd.w.H.VerifBest().Hash == *b.Hash() {
		return "block:accepted"
	}
	return "block:refused"
}

func buildEvents(wd *World, r *rng.R) []event {
	A, B := wd.ws[0], wd.ws[1]
	a0 := A.addrs[0]
	var evs []event
	ws := weirdScripts(wd, r)
	var names []string
	for k := range ws {
		names = append(names, k)
	}
	sortStrings(names)
	for _, name := range names {
		name, sc := name, ws[name]
		evs = append(evs, event{name: "block-coinbase-pays-" + name, run: func(wd *World) string {
			return wd.tryBlock([]sim.Out{{Script: sc, Value: 5e8}, {Script: stdScript(a0.sh), Value: 1e8}}, nil)
		}})
		evs = append(evs, event{name: "block-A-pays-" + name + "-then-spent", run: func(wd *World) string {
			cs := wd.coinsOf(A, clsStd, true)
			if len(cs) == 0 {
				return "skip:no-coin"
			}
			t1 := wd.spend(cs[0], []sim.Out{{Script: sc, Value: cs[0].val / 2}, {Script: stdScript(a0.sh), Value: cs[0].val / 2}})
			r1 := wd.tryBlock(nil, []*wire.MsgTx{t1})
			// spend the odd output again, paying A: the input path of filterTx
			t2 := sim.NewTx([]wire.OutPoint{{Hash: t1.TxHash(), Index: 0}}, nil, []sim.Out{{Script: stdScript(a0.sh), Value: cs[0].val / 2}}, 0, nil)
			r2 := wd.tryBlock(nil, []*wire.MsgTx{t2})
			return r1 + "+" + r2
		}})
		evs = append(evs, event{name: "unconfirmed-pays-A-and-" + name, run: func(wd *World) string {
			op := wd.someStrangerCoin()
			tx := sim.NewTx([]wire.OutPoint{op}, nil, []sim.Out{{Script: sc, Value: 1000}, {Script: stdScript(a0.sh), Value: 2000}}, 0, nil)
			return wd.tryReceive(tx)
		}})
	}
	for _, v := range []int64{0, 1, math.MaxInt64, -1, math.MinInt64} {
		v := v
		evs = append(evs, event{name: fmt.Sprintf("block-pays-A-value-%d", v), beyond: v < 0 || v == math.MaxInt64, run: func(wd *World) string {
			return wd.tryBlock([]sim.Out{{Script: stdScript(a0.sh), Value: v}}, nil)
		}})
		evs = append(evs, event{name: fmt.Sprintf("unconfirmed-pays-A-value-%d", v), beyond: v < 0 || v == math.MaxInt64, run: func(wd *World) string {
			return wd.tryReceive(sim.NewTx([]wire.OutPoint{wd.someStrangerCoin()}, nil, []sim.Out{{Script: stdScript(a0.sh), Value: v}}, 0, nil))
		}})
	}
	pay := []sim.Out{{Script: stdScript(a0.sh), Value: 4242}}
	evs = append(evs,
		event{name: "unconfirmed-unknown-input", run: func(wd *World) string {
			var h wire.Hash
			copy(h[:], r.Bytes(32))
			return wd.tryReceive(sim.NewTx([]wire.OutPoint{{Hash: h, Index: 0}}, nil, pay, 0, nil))
		}},
		event{name: "unconfirmed-mined-input-vout-out-of-range", run: func(wd *World) string {
			cs := wd.coinsOf(A, -1, false)
			if len(cs) == 0 {
				return "skip:no-coin"
			}
			return wd.tryReceive(sim.NewTx([]wire.OutPoint{{Hash: cs[0].op.Hash, Index: uint32(cs[0].nout)}}, nil, pay, 0, nil)) + "+" +
				wd.tryReceive(sim.NewTx([]wire.OutPoint{{Hash: cs[0].op.Hash, Index: math.MaxUint32}}, nil, pay, 0, nil))
		}},
		event{name: "unconfirmed-pending-input-vout-out-of-range", run: func(wd *World) string {
			if len(wd.pend) == 0 {
				return "skip:no-pending"
			}
			p := wd.pend[0]
			return wd.tryReceive(sim.NewTx([]wire.OutPoint{{Hash: p.TxHash(), Index: uint32(len(p.TxOut))}}, nil, pay, 0, nil)) + "+" +
				wd.tryReceive(sim.NewTx([]wire.OutPoint{{Hash: p.TxHash(), Index: math.MaxUint32}}, nil, pay, 0, nil))
		}},
		// several inputs on ONE previous transaction, a later one out of range (a per-transaction cache of the
		// previous transaction must not bypass the range check): unconfirmed and inside a block, previous
		// transaction mined, pending, or in the same block
		event{name: "second-input-on-same-prev-out-of-range", run: func(wd *World) string {
			cs := wd.coinsOf(A, -1, false)
			if len(cs) == 0 {
				return "skip:no-coin"
			}
			c := cs[0]
			res := ""
			for _, bad := range []uint32{uint32(c.nout), uint32(c.nout) + 5, math.MaxUint32} {
				ins := []wire.OutPoint{c.op, {Hash: c.op.Hash, Index: bad}}
				res += wd.tryReceive(sim.NewTx(ins, nil, pay, 0, nil)) + "+"
				ins3 := []wire.OutPoint{wd.someStrangerCoin(), c.op, {Hash: c.op.Hash, Index: bad}}
				res += wd.tryReceive(sim.NewTx(ins3, nil, pay, 0, nil)) + "+"
			}
			ins := []wire.OutPoint{c.op, {Hash: c.op.Hash, Index: uint32(c.nout) + 5}}
			return res + wd.tryBlock(nil, []*wire.MsgTx{sim.NewTx(ins, nil, pay, 0, nil)})
		}},
		event{name: "second-input-on-same-pending-prev-out-of-range", run: func(wd *World) string {
			if len(wd.pend) == 0 {
				return "skip:no-pending"
			}
			p := wd.pend[0]
			ins := []wire.OutPoint{{Hash: p.TxHash(), Index: 0}, {Hash: p.TxHash(), Index: uint32(len(p.TxOut)) + 5}}
			return wd.tryReceive(sim.NewTx(ins, nil, pay, 0, nil)) + "+" + wd.tryBlock(nil, []*wire.MsgTx{sim.NewTx(ins, nil, pay, 0, nil)})
		}},
		event{name: "block-prev-in-same-block-second-input-out-of-range", run: func(wd *World) string {
			p1 := sim.NewTx([]wire.OutPoint{wd.someStrangerCoin()}, nil, []sim.Out{{Script: stdScript(a0.sh), Value: 3000}, {Script: wd.stranger[0], Value: 1000}}, 0, nil)
			t := sim.NewTx([]wire.OutPoint{{Hash: p1.TxHash(), Index: 0}, {Hash: p1.TxHash(), Index: 7}}, nil, pay, 0, nil)
			return wd.tryBlock(nil, []*wire.MsgTx{p1, t})
		}},
		event{name: "unconfirmed-same-again", run: func(wd *World) string {
			if len(wd.pend) == 0 {
				return "skip:no-pending"
			}
			return wd.tryReceive(wd.pend[0])
		}},
		event{name: "unconfirmed-conflict-then-block-confirms-conflict", run: func(wd *World) string {
			if len(wd.pend) == 0 {
				return "skip:no-pending"
			}
			in := wd.pend[0].TxIn[0].PreviousOutPoint
			c := wd.utxo[in]
			if c == nil {
				return "skip:input-gone"
			}
			tx := sim.NewTx([]wire.OutPoint{in}, nil, []sim.Out{{Script: stdScript(A.addrs[1].sh), Value: 999}}, 0, nil)
			r1 := wd.tryReceive(tx)
			return r1 + "+" + wd.tryBlock(nil, []*wire.MsgTx{tx})
		}},
		event{name: "block-confirms-pending", run: func(wd *World) string {
			var txs []*wire.MsgTx
			for _, p := range wd.pend {
				ok := true
				for _, in := range p.TxIn {
					if wd.utxo[in.PreviousOutPoint] == nil {
						ok = false
					}
				}
				if ok {
					txs = append(txs, p)
					break
				}
			}
			if len(txs) == 0 {
				return "skip:nothing-confirmable"
			}
			return wd.tryBlock(nil, txs)
		}},
		event{name: "unconfirmed-binding-in-and-binding-out", run: func(wd *World) string {
			cs := wd.coinsOf(A, clsBindOld, false)
			if len(cs) == 0 {
				cs = wd.coinsOf(A, clsBindNew, false)
			}
			if len(cs) == 0 {
				return "skip:no-binding-coin"
			}
			tx := wd.spend(cs[0], []sim.Out{{Script: bindingScript(a0.sh, target20(r)), Value: cs[0].val}})
			return wd.tryReceive(tx)
		}},
		event{name: "block-binding-in-and-binding-out", beyond: true, run: func(wd *World) string {
			cs := wd.coinsOf(A, clsBindOld, false)
			if len(cs) == 0 {
				cs = wd.coinsOf(A, clsBindNew, false)
			}
			if len(cs) == 0 {
				return "skip:no-binding-coin"
			}
			tx := wd.spend(cs[0], []sim.Out{{Script: bindingScript(a0.sh, target20(r)), Value: cs[0].val}})
			return wd.tryBlock(nil, []*wire.MsgTx{tx})
		}},
		event{name: "unconfirmed-no-inputs", beyond: true, run: func(wd *World) string { return wd.tryReceive(sim.NewTx(nil, nil, pay, 0, nil)) }},
		event{name: "unconfirmed-no-outputs", beyond: true, run: func(wd *World) string {
			cs := wd.coinsOf(A, clsStd, true)
			if len(cs) == 0 {
				return "skip:no-coin"
			}
			return wd.tryReceive(sim.NewTx([]wire.OutPoint{cs[0].op}, nil, nil, 0, nil))
		}},
		event{name: "unconfirmed-duplicate-inputs", beyond: true, run: func(wd *World) string {
			cs := wd.coinsOf(A, clsStd, true)
			if len(cs) == 0 {
				return "skip:no-coin"
			}
			return wd.tryReceive(sim.NewTx([]wire.OutPoint{cs[0].op, cs[0].op}, nil, pay, 0, nil))
		}},
		event{name: "unconfirmed-coinbase-shaped", beyond: true, run: func(wd *World) string {
			return wd.tryReceive(sim.NewTx([]wire.OutPoint{{Hash: wire.Hash{}, Index: wire.MaxPrevOutIndex}}, nil, pay, 0, nil))
		}},
		event{name: "block-spends-A-coin-twice", beyond: true, run: func(wd *World) string {
			cs := wd.coinsOf(A, clsStd, true)
			if len(cs) == 0 {
				return "skip:no-coin"
			}
			t1 := wd.spend(cs[0], []sim.Out{{Script: wd.stranger[0], Value: 1}})
			t2 := wd.spend(cs[0], []sim.Out{{Script: wd.stranger[1], Value: 2}})
			return wd.tryBlock(nil, []*wire.MsgTx{t1, t2})
		}},
		event{name: "reorg-depth-2-tip-only", run: func(wd *World) string {
			if wd.n.Height() < 4 {
				return "skip:short-chain"
			}
			return wd.reorg(2, 3, false)
		}},
		event{name: "reorg-depth-3-remines-nothing", run: func(wd *World) string {
			if wd.n.Height() < 5 {
				return "skip:short-chain"
			}
			return wd.reorg(3, 3, true)
		}},
		event{name: "stale-announcement-of-detached-block", run: func(wd *World) string {
			old := wd.n.Tip()
			res := wd.reorg(1, 2, true)
			wd.w.Notify(old)
			return res + "+stale-announced"
		}},
		event{name: "announce-block-far-ahead-only", run: func(wd *World) string {
			var last *massutil.Block
			for i := 0; i < 4; i++ {
				b, err := wd.block([]sim.Out{{Script: stdScript(B.addrs[0].sh), Value: 1e6}}, nil, false)
				if err != nil {
					return "harness:" + err.Error()
				}
				last = b
			}
			wd.w.Notify(last)
			if wd.w.H.VerifBest().Hash == *last.Hash() {
				return "block:accepted"
			}
			return "block:refused"
		}},
		event{name: "reimport-wallet-whose-address-got-odd-binding-output", run: func(wd *World) string {
			return wd.reimportWith(ws["binding_badtype"], r)
		}},
		event{name: "reimport-wallet-whose-address-got-odd-staking-output", run: func(wd *World) string {
			return wd.reimportWith(ws["staking_frozen0"], r)
		}},
		event{name: "reimport-wallet-ordinary", run: func(wd *World) string {
			return wd.reimportWith(nil, r)
		}},
	)
	return evs
}

func sortStrings(l []string) {
	for i := 1; i < len(l); i++ {
		for j := i; j > 0 && l[j-1] > l[j]; j-- {
			l[j-1], l[j] = l[j], l[j-1]
		}
	}
}

// reorg detaches d blocks and attaches n new ones; perBlock: announce each, else only the tip.
func (wd *World) reorg(d, n int, perBlock bool) string {
	for i := 0; i < d; i++ {
		b, err := wd.n.Detach()
		if err != nil {
			return "harness:" + err.Error()
		}
		// forget the coins the detached block created, give back what it spent (approximation good enough for the generator)
		for ti, tx := range b.MsgBlock().Transactions {
			th := tx.TxHash()
			for vi := range tx.TxOut {
				delete(wd.utxo, wire.OutPoint{Hash: th, Index: uint32(vi)})
			}
			if ti > 0 {
				for _, in := range tx.TxIn {
					for k, c := range wd.spent {
						if c.op == in.PreviousOutPoint {
							wd.utxo[c.op] = c
							wd.spent = append(wd.spent[:k:k], wd.spent[k+1:]...)
							break
						}
					}
				}
			}
		}
	}
	var last *massutil.Block
	for i := 0; i < n; i++ {
		b, err := wd.block([]sim.Out{{Script: wd.stranger[i%3], Value: 1e6}, {Script: stdScript(wd.ws[0].addrs[1].sh), Value: 3e6}}, nil, false)
		if err != nil {
			return "harness:" + err.Error()
		}
		last = b
		if perBlock {
			wd.w.Notify(b)
		}
	}
	if !perBlock {
		wd.w.Notify(last)
	}
	if wd.w.H.VerifBest().Hash == *last.Hash() {
		return "reorg:followed"
	}
	return "reorg:not-followed"
}

// reimportWith creates a wallet, pays one of its addresses (optionally with an odd script that is
// indexed under the address' script hash), removes the wallet and imports it again from its mnemonic.
func (wd *World) reimportWith(odd []byte, r *rng.R) string {
	C, err := wd.newWallet("passC@verif3")
	if err != nil {
		return "harness:" + err.Error()
	}
	if _, err := wd.newAddr(C, 0); err != nil {
		return "harness:" + err.Error()
	}
	sh := C.addrs[0].sh
	outs := []sim.Out{{Script: stdScript(sh), Value: 5e8}}
	if odd != nil {
		// same shape, but for C's script hash
		o := append([]byte{}, odd...)
		copy(o[2:34], sh)
		outs = append([]sim.Out{{Script: o, Value: 1e8}}, outs...)
		if r.Chance(50) {
			outs = outs[:1] // the odd output is the ONLY thing the index knows about this address
		}
	}
	if res := wd.tryBlock(outs, nil); !strings.HasPrefix(res, "block:accepted") {
		return res
	}
	if err := wd.filler(2); err != nil {
		return "harness:" + err.Error()
	}
	if err := wd.removeFully(C); err != nil {
		return "harness:" + err.Error()
	}
	_, err = wd.w.WM.ImportWalletWithMnemonic(&keystore.WalletParams{Mnemonic: C.mnemonic, PrivatePassphrase: []byte(C.pass), Remarks: "again",
		AddressGapLimit: wd.w.Cfg.Wallet.Settings.AddressGapLimit})
	if err != nil {
		return "import:refused"
	}
	if !wd.w.WaitTasks(20 * time.Second) {
		return "import:never-finished"
	}
	return "import:finished"
}

func runEvents(wd *World, scen string, inst, part, n, only int) int {
	seed := rng.Seed()
	r := rng.New(seed*86028121 + uint64(inst)*674506081 + uint64(part)*982451653)
	evs := buildEvents(wd, r)
	// deterministic shuffle; every part starts somewhere else in the list
	for i := len(evs) - 1; i > 0; i-- {
		j := r.Intn(i + 1)
		evs[i], evs[j] = evs[j], evs[i]
	}
	for k := 0; k < n; k++ {
		ev := evs[k%len(evs)]
		if only >= 0 && k != only {
			continue
		}
		curCase = strconv.Itoa(k)
		res := guarded(60*time.Second, func() string { return ev.run(wd) })
		live, detail := "-", ""
		if !strings.HasPrefix(res.class, "panic") && res.class != "stall" {
			live, detail = wd.liveness()
		}
		name := ev.name
		if ev.beyond {
			name += " [beyond what a consensus-following node delivers]"
		}
		emit("V\t%s\t%d\t%d\t%d\t%s\t%s\t%s\t%s", scen, inst, part, k, name, res.class, live, clean(detail+" "+res.info))
		if strings.HasPrefix(res.class, "panic") || res.class == "stall" || live != "ok" {
			return 3
		}
	}
	return 0
}
