// c19: exploration of the real wallet API and of block / transaction delivery for property C19
// ("no client request or chain event can crash or silently stall the wallet").
//
// Parent:  c19 -tier quick|thorough -out FILE [-j N]
// Worker:  c19 -worker -scen S -inst I -part P -nreq N [-only K] -wout FILE      (one wallet DB per process)
//
// Output lines (tab separated):
//   C scen inst part k state method class request info        one request and what came back
//   L scen inst part verdict detail                            liveness probe at the end of an instance
//   V scen inst part k event class liveness detail             one chain event (scenario "events") + liveness probe
//   X scen inst part k what detail                             the worker process died / harness trouble
//   M key  scen inst part k single-request-reproduces(0/1)     minimisation of the first occurrence of a panic key
package main

import (
	"bufio"
	"bytes"
	"context"
	"reflect"
	"flag"
	"fmt"
	"os"
	"os/exec"
	"regexp"
	"sort"
	"strconv"
	"strings"
	"sync"
	"time"

	"github.com/golang/protobuf/ptypes/empty"
	"github.com/sirupsen/logrus"
	pb "massnet.org/mass-wallet/api/proto"
	"github.com/massnetorg/mass-core/consensus"
	"github.com/massnetorg/mass-core/wire"
	"massnet.org/mass-wallet/masswallet/keystore"
	"verifharness/internal/rng"
	"verifharness/internal/sim"
)

var scenarios = []string{"none", "ghost", "unselected", "selected", "pending", "pending-restart", "importing", "removing1", "removing2", "removed", "starting", "lagging-reorg", "stopped", "race-remove", "hints", "events"}

// API methods raced against the completion of the background removal of the selected wallet
var raceTargets = []string{"GetWalletBalance", "GetAddressBalance", "GetUtxo", "SignRawTransaction", "CreateRawTransaction", "GetTransactionFee", "AutoCreateTransaction", "TxHistory", "GetAddresses", "CreateAddress"}

func buildScenario(scen string, r *rng.R) (*World, error) {
	wd, err := newWorld(r)
	if err != nil {
		return nil, err
	}
	fail := func(err error) (*World, error) { wd.close(); return nil, err }
	if scen == "none" {
		wd.state = "none"
		if r.Chance(50) {
			if err := wd.filler(3); err != nil {
				return fail(err)
			}
		}
		return wd, nil
	}
	if scen == "ghost" {
		// The follower processes blocks while NO wallet is ready, and a wallet whose history lies in exactly those
		// blocks is restored afterwards (a node that ran without wallets, then the user restores one): per-block
		// bookkeeping that is only set up "when somebody is listening" meets the background import (seed C19e: the
		// per-block set of confirmed transactions stayed nil and the import's epilogue wrote into it).
		G, err := wd.newWallet("passG@verif4")
		if err != nil {
			return fail(err)
		}
		for i := 0; i < 2; i++ {
			if _, err := wd.newAddr(G, 0); err != nil {
				return fail(err)
			}
		}
		if err := wd.removeFully(G); err != nil {
			return fail(err)
		}
		g0, g1 := G.addrs[0], G.addrs[1]
		if _, err := wd.block([]sim.Out{{Script: stdScript(g0.sh), Value: 9e8}}, nil, true); err != nil {
			return fail(err)
		}
		if err := wd.filler(int(sim.Cur.CoinbaseMaturity) + 1); err != nil {
			return fail(err)
		}
		// a spend of G's coin (debit side) paying G's second address and a stranger
		var gc *coin
		for _, c := range wd.utxo {
			if bytes.Equal(c.script, stdScript(g0.sh)) {
				gc = c
			}
		}
		if gc != nil {
			t := wd.spend(gc, []sim.Out{{Script: stdScript(g1.sh), Value: gc.val / 2}, {Script: wd.stranger[0], Value: gc.val / 3}})
			if _, err := wd.block(nil, []*wire.MsgTx{t}, true); err != nil {
				return fail(err)
			}
		}
		if err := wd.filler(1 + r.Intn(2)); err != nil {
			return fail(err)
		}
		byMnemonic := r.Chance(60) || G.keystoreJSON == ""
		if byMnemonic {
			_, err = wd.w.WM.ImportWalletWithMnemonic(&keystore.WalletParams{Mnemonic: G.mnemonic, PrivatePassphrase: []byte(G.pass), Remarks: "ghost",
				AddressGapLimit: wd.w.Cfg.Wallet.Settings.AddressGapLimit})
		} else {
			_, err = wd.w.WM.ImportWallet(G.keystoreJSON, G.pass)
		}
		if err != nil {
			return fail(fmt.Errorf("ghost: import refused: %v", err))
		}
		if !wd.w.WaitTasks(30 * time.Second) {
			return fail(fmt.Errorf("ghost: the background import never finished"))
		}
		for i, x := range wd.gone {
			if x == G {
				wd.gone = append(wd.gone[:i:i], wd.gone[i+1:]...)
			}
		}
		wd.ws = append(wd.ws, G)
		if r.Chance(50) {
			if _, err := wd.w.WM.UseWallet(G.id); err != nil {
				return fail(err)
			}
		}
		wd.state = "ghost-restored"
		return wd, nil
	}
	if err := wd.build(); err != nil {
		return fail(err)
	}
	A := wd.ws[0]
	// the Blockchain object of the simulated node reads the chain database when it is opened (blocks are attached
	// below it): reopening the manager lets the API's node-side queries (best height, blocks by height, staking
	// ranks) see the chain the history has built
	refresh := func() error {
		if !r.Chance(65) {
			return nil
		}
		if err := wd.restart(); err != nil {
			return err
		}
		_, err := wd.w.WM.UseWallet(A.id)
		return err
	}
	switch scen {
	case "selected":
		if err := refresh(); err != nil {
			return fail(err)
		}
	case "unselected":
		if r.Chance(50) {
			if err := wd.addPending(); err != nil {
				return fail(err)
			}
		}
		if err := wd.restart(); err != nil {
			return fail(err)
		}
		wd.state = "unselected"
	case "pending", "events":
		if err := wd.addPending(); err != nil {
			return fail(err)
		}
		if scen == "pending" {
			st := wd.state
			if err := refresh(); err != nil {
				return fail(err)
			}
			wd.state = st
		}
	case "pending-restart":
		if err := wd.addPending(); err != nil {
			return fail(err)
		}
		if err := wd.restart(); err != nil {
			return fail(err)
		}
		if _, err := wd.w.WM.UseWallet(A.id); err != nil {
			return fail(err)
		}
		wd.state = "pending-restart"
	case "importing":
		C, err := wd.makeThird()
		if err != nil {
			return fail(err)
		}
		if r.Chance(50) {
			if err := wd.addPending(); err != nil {
				return fail(err)
			}
		}
		if err := wd.removeFully(C); err != nil {
			return fail(err)
		}
		if _, err := wd.w.WM.UseWallet(A.id); err != nil {
			return fail(err)
		}
		if err := wd.holdImport(C, r.Bool()); err != nil {
			return fail(err)
		}
	case "removing1", "removing2":
		if err := wd.addPending(); err != nil {
			return fail(err)
		}
		ph := 0
		if scen == "removing2" {
			ph = 1
		}
		if err := wd.holdRemove(A, ph); err != nil {
			return fail(err)
		}
	case "starting":
		if err := wd.addPending(); err != nil {
			return fail(err)
		}
		wd.w.Stop()
		if err := wd.openHeld(); err != nil {
			return fail(err)
		}
	case "race-remove":
		if err := wd.addPending(); err != nil {
			return fail(err)
		}
	case "lagging-reorg":
		if curInst%4 >= 2 {
			if err := wd.addPending(); err != nil {
				return fail(err)
			}
		}
		// instance i: variant i%2; every third instance the replacing branch is one block shorter and the manager is
		// reopened between the deposit and the reorganisation (the node's Blockchain object then still names the old tip)
		shorter := curInst%3 == 1
		mid := refresh
		if shorter {
			mid = func() error {
				if err := wd.restart(); err != nil {
					return err
				}
				_, err := wd.w.WM.UseWallet(A.id)
				return err
			}
		}
		if err := wd.makeLagging(curInst%2, shorter, mid); err != nil {
			return fail(err)
		}
	case "stopped":
		// the daemon is shutting down: WalletManager.Stop has closed the database, the gRPC server still hands
		// requests to the handlers (grpc's Stop does not wait for them)
		if r.Chance(50) {
			if err := wd.addPending(); err != nil {
				return fail(err)
			}
		}
		if err := refresh(); err != nil {
			return fail(err)
		}
		wd.w.Stop()
		wd.stopped = true
		wd.state = "stopped"
	case "hints":
	case "removed":
		if err := wd.addPending(); err != nil {
			return fail(err)
		}
		if err := wd.removeFully(A); err != nil {
			return fail(err)
		}
		wd.state = "removed-selected"
	default:
		return fail(fmt.Errorf("unknown scenario %q", scen))
	}
	return wd, nil
}

func clean(s string) string {
	s = strings.Replace(s, "\t", " ", -1)
	s = strings.Replace(s, "\n", " ", -1)
	return strings.Replace(s, "\r", " ", -1)
}

// liveness: is an ordinary block still processed?
func (wd *World) liveness() (string, string) {
	wd.g.open()
	type res struct{ v, d string }
	ch := make(chan res, 1)
	go func() {
		defer func() {
			if r := recover(); r != nil {
				ch <- res{"dead", fmt.Sprintf("probe panicked: %v", r)}
			}
		}()
		if !wd.w.WaitTasks(3 * time.Second) {
			// a rescan batch is refused (and retried) while the node is on a chain the follower has not been
			// told about (/repo 9b649ff): a background import can only finish once the node's tip was announced —
			// which the node always does eventually. Announce it, then wait.
			if t := wd.n.Tip(); t != nil {
				wd.w.Notify(t)
			}
			if !wd.w.WaitTasks(15 * time.Second) {
				ch <- res{"dead", "background task (import/remove) never finished"}
				return
			}
		}
		pay := wd.stranger[0]
		if len(wd.ws) > 1 {
			pay = stdScript(wd.ws[len(wd.ws)-1].addrs[0].sh)
		}
		b, err := wd.block([]sim.Out{{Script: pay, Value: 77e6}}, nil, false)
		if err != nil {
			ch <- res{"harness", "cannot attach the probe block: " + err.Error()}
			return
		}
		wd.w.Notify(b)
		// the announcement of the tip may legitimately be refused once if the wallet lags: announce again
		h, err := wd.w.WM.SyncedTo()
		if err == nil && h != wd.n.Height() {
			wd.w.Notify(b)
			h, err = wd.w.WM.SyncedTo()
		}
		if err != nil {
			ch <- res{"dead", "SyncedTo: " + err.Error()}
			return
		}
		if h != wd.n.Height() {
			ch <- res{"dead", fmt.Sprintf("wallet synced to %d, node at %d after an ordinary block", h, wd.n.Height())}
			return
		}
		ch <- res{"ok", ""}
	}()
	select {
	case r := <-ch:
		return r.v, r.d
	case <-time.After(40 * time.Second):
		return "dead", "the probe block was never processed (handler goroutine gone or blocked)"
	}
}

var curCase = "-"
var curInst = 0
var wout *bufio.Writer
var woutMu sync.Mutex

func emit(format string, a ...interface{}) {
	woutMu.Lock()
	fmt.Fprintf(wout, format+"\n", a...)
	wout.Flush()
	woutMu.Unlock()
}

func worker(scen string, inst, part, nreq, only int, path string) int {
	f, err := os.Create(path)
	if err != nil {
		fmt.Fprintln(os.Stderr, err)
		return 2
	}
	defer f.Close()
	wout = bufio.NewWriter(f)
	// a panic in the handler / worker goroutine is caught by the wallet's own Recover(), logged at
	// FATAL level, and logrus then exits the process: leave a trace first
	logrus.RegisterExitHandler(func() {
		emit("X\t%s\t%d\t%d\t%s\tfatal-exit\tthe wallet logged at FATAL level (its Recover() caught a panic in a background goroutine) and the process exits", scen, inst, part, curCase)
	})
	curInst = inst
	sim.Init(sim.Params{CoinbaseMaturity: 4, MinFrozenPeriod: 2, GapLimit: 20})
	consensus.StakingTxRewardStart = 2 // a package variable of mass-core, like the two maturities: staking deposits earn rewards after 2 blocks
	seed := rng.Seed()
	r := rng.New(seed*7919 + uint64(inst)*104729 + uint64(part)*1299709 + uint64(len(scen))*31 + uint64(scen[0]))
	wd, err := buildScenario(scen, r)
	if err != nil {
		emit("X\t%s\t%d\t%d\t-\tharness\tcannot build the state: %s", scen, inst, part, clean(err.Error()))
		return 0
	}
	defer wd.close()
	if scen == "events" {
		return runEvents(wd, scen, inst, part, nreq, only)
	}
	if scen == "race-remove" {
		return runRace(wd, scen, inst, part)
	}
	if scen == "hints" {
		return runHints(wd, scen, inst, part)
	}
	if inst%2 == 1 {
		// the second fork switch of mass-core (a package variable like the maturities): in every other instance the
		// requests are served after the MASSIP0002 warm-up height (new bindings and pool-coinbase payloads may be
		// sent, old bindings are refused, GetNetworkBinding prices Chia plots)
		consensus.MASSIP0002WarmUpHeight = 1
	}
	p := buildPools(wd)
	ms := apiMethods(wd.api)
	stopped := scen == "stopped"
	// (lagging-reorg: an import accepted while the wallet lags behind the node's reorganisation cannot finish before
	// the node's tip is announced — its batches are refused and retried, /repo 9b649ff —, so there is nothing to wait for)
	held := stopped || scen == "importing" || scen == "removing1" || scen == "removing2" || scen == "lagging-reorg" || strings.HasPrefix(wd.state, "starting:worker-frozen")
	gr := rng.New(seed*15485863 + uint64(inst)*32452843 + uint64(part)*49979687 + uint64(len(scen)))
	for k := 0; k < nreq; k++ {
		g := genCase(wd, p, ms, gr)
		if scen == "lagging-reorg" && part == 0 && k == 0 {
			// the request this state is about comes first (the others of the instance are drawn as everywhere)
			req := &pb.GetBindingHistoryRequest{Type: "all"}
			g = gcase{method: "GetBindingHistory", req: req, call: call1(ms, "GetBindingHistory", req)}
		}
		if stopped && part == 0 && k < 2 && len(wd.ws) > 0 {
			// the shape of the defect this state exposed: WalletManager.NewAddress fails on the closed database, drops the
			// cached keystore to reload it, the reload fails too (CreateAddress gets here when Stop closes the database
			// after its GetAddresses call); then an address is validated
			A := wd.ws[0]
			if k == 0 {
				g = gcase{method: "WM.NewAddress", desc: "[0]", call: func(wd *World) string {
					if _, err := wd.w.WM.NewAddress(0); err != nil {
						return "err:go"
					}
					return "ok"
				}}
			} else {
				req := &pb.ValidateAddressRequest{Address: A.addrs[0].std}
				g = gcase{method: "ValidateAddress", req: req, call: call1(ms, "ValidateAddress", req)}
			}
		}
		if scen == "lagging-reorg" && k == 1 {
			g = gcase{method: "GetBestBlock", req: &empty.Empty{}, call: call1(ms, "GetBestBlock", &empty.Empty{})}
		}
		if only >= 0 && k != only {
			continue
		}
		curCase = strconv.Itoa(k)
		reqs := g.desc
		if g.req != nil {
			reqs = jsonReq(g.req)
		}
		timeout := 6 * time.Second
		if !held {
			// let an import / removal started by an earlier request finish: the abstract state handed to the
			// model is read before the call and must still hold when the call runs
			wd.w.WaitTasks(3 * time.Second)
		}
		if !stopped || g.method == "ValidateAddress" { // the model has no closed database: after Stop the requests are explored, not predicted (but for ValidateAddress, which reads the keystore cache only)
			if ml := guarded(timeout, func() string { return modelLine(wd, fmt.Sprintf("%s/%d/%d/%d", scen, inst, part, k), g) }); ml.class != "" && ml.class[0] == 'R' {
				emit("%s", ml.class)
			}
		}
		res := guarded(timeout, func() string { return g.call(wd) })
		emit("C\t%s\t%d\t%d\t%d\t%s\t%s\t%s\t%s\t%s", scen, inst, part, k, wd.state, g.method, res.class, clean(reqs), clean(res.info))
		if res.class == "ok" && (strings.Contains(g.method, "RemoveWallet") || strings.Contains(g.method, "Import")) {
			wd.lagDirty = true
		}
		if strings.HasPrefix(res.class, "panic") || res.class == "stall" {
			// the database may be left inside a write transaction: this process is finished
			return 3
		}
	}
	if stopped {
		return 0
	}
	curCase = "liveness"
	v, d := wd.liveness()
	emit("L\t%s\t%d\t%d\t%s\t%s", scen, inst, part, v, clean(d))
	var unk []string
	for k, n := range p.unknownFields {
		unk = append(unk, fmt.Sprintf("%s=%d", k, n))
	}
	sort.Strings(unk)
	if len(unk) > 0 {
		emit("U\t%s", strings.Join(unk, " "))
	}
	return 0
}

// runRace: RemoveWallet(selected wallet) is accepted; the background removal is frozen before its
// last write transaction; API method raceTargets[inst] is started and frozen at its first database
// read (it has already fetched the current keystore); the removal completes; the API call goes on.
func runRace(wd *World, scen string, inst, part int) int {
	target := raceTargets[inst%len(raceTargets)]
	A := wd.ws[0]
	p := buildPools(wd)
	ms := apiMethods(wd.api)
	var m *apiMethod
	for i := range ms {
		if ms[i].name == target {
			m = &ms[i]
		}
	}
	if m == nil {
		emit("X\t%s\t%d\t%d\t0\tharness\tAPI method %s not found", scen, inst, part, target)
		return 0
	}
	gr := rng.New(rng.Seed()*613 + uint64(inst)*7 + uint64(part))
	req := reflect.New(m.req)
	p.fill(gr, req.Elem(), wd, 100)
	// make the request as ordinary as possible
	if f := req.Elem().FieldByName("RequiredConfirmations"); f.IsValid() {
		f.SetInt(1)
	}
	if f := req.Elem().FieldByName("Detail"); f.IsValid() {
		f.SetBool(true)
	}
	if f := req.Elem().FieldByName("Version"); f.IsValid() {
		f.SetInt(0)
	}
	if f := req.Elem().FieldByName("Passphrase"); f.IsValid() {
		f.SetString(A.pass)
	}
	if f := req.Elem().FieldByName("Addresses"); f.IsValid() {
		f.Set(reflect.ValueOf([]string{A.addrs[0].std}))
	}
	if f := req.Elem().FieldByName("LockTime"); f.IsValid() {
		f.SetUint(0)
	}
	// requests that reach the deep paths: spend / estimate from the wallet's own confirmed coins
	own := wd.coinsOf(A, clsStd, true)
	switch r := req.Interface().(type) {
	case *pb.AutoCreateTransactionRequest:
		r.Amounts = map[string]string{A.addrs[1].std: "0.5"}
		r.Fee, r.FromAddress, r.ChangeAddress = "", "", ""
	case *pb.GetTransactionFeeRequest:
		r.Amounts = map[string]string{A.addrs[1].std: "0.5"}
		r.Inputs, r.HasBinding = nil, false
		if inst%2 == 1 && len(own) > 0 {
			r.Inputs = []*pb.TransactionInput{{TxId: own[0].op.Hash.String(), Vout: own[0].op.Index}}
		}
	case *pb.CreateRawTransactionRequest:
		if len(own) > 0 {
			r.Inputs = []*pb.TransactionInput{{TxId: own[0].op.Hash.String(), Vout: own[0].op.Index}}
			r.Amounts = map[string]string{A.addrs[1].std: "0.1"}
			r.ChangeAddress, r.Subtractfeefrom = "", nil
		}
	case *pb.SignRawTransactionRequest:
		if len(own) > 0 {
			r.RawTx = txHex(sim.NewTx([]wire.OutPoint{own[0].op}, nil, []sim.Out{{Script: stdScript(A.addrs[1].sh), Value: own[0].val / 2}}, 0, nil))
			r.Flags = "ALL"
		}
	case *pb.TxHistoryRequest:
		r.Count, r.Address = 5, ""
	}
	phase := (inst / (len(raceTargets) * 7)) % 2
	rm := wd.g.armRule("asyncRemove", phase, false)
	if err := wd.w.WM.RemoveWallet(A.id, A.pass); err != nil {
		emit("X\t%s\t%d\t%d\t0\tharness\tRemoveWallet: %s", scen, inst, part, clean(err.Error()))
		return 0
	}
	select {
	case <-rm.hit:
	case <-time.After(10 * time.Second):
		emit("X\t%s\t%d\t%d\t0\tharness\tthe removal never reached write transaction %d", scen, inst, part, phase+1)
		return 0
	}
	kth := (inst / len(raceTargets)) % 7
	var call *rule
	if kth == 0 {
		call = wd.g.armRule("api.(*APIServer)."+target, 0, true)
	} else {
		call = wd.g.armReadEnd("api.(*APIServer)."+target, kth-1)
	}
	curCase = "0"
	resCh := make(chan result, 1)
	go func() {
		resCh <- guarded(30*time.Second, func() string {
			out := m.fn.Call([]reflect.Value{reflect.ValueOf(context.Background()), req})
			err, _ := out[1].Interface().(error)
			return errClass(err)
		})
	}()
	sched := fmt.Sprintf("removal-frozen-before-write-%d/held-at-first-read", phase+1)
	if kth > 0 {
		sched = fmt.Sprintf("removal-frozen-before-write-%d/held-after-read-%d", phase+1, kth)
	}
	if false {
		sched = fmt.Sprintf("held-after-read-%d", kth)
	}
	select {
	case <-call.hit:
	case r := <-resCh:
		// the method answered without reading the database
		st := "race:no-read"
		if kth > 0 {
			st = fmt.Sprintf("race:fewer-than-%d-reads", kth)
		}
		emit("C\t%s\t%d\t%d\t0\t%s\t%s\t%s\t%s\t%s", scen, inst, part, st, target, r.class, clean(jsonReq(req.Interface())), clean(r.info))
		if strings.HasPrefix(r.class, "panic") {
			return 3
		}
		return 0
	case <-time.After(10 * time.Second):
		sched = "never-read"
	}
	_ = kth
	wd.g.openRule(rm)
	for i := 0; i < 5000 && wd.w.WM.CurrentWallet() != ""; i++ {
		time.Sleep(2 * time.Millisecond)
	}
	if wd.w.WM.CurrentWallet() != "" {
		sched += "+removal-did-not-finish"
	}
	wd.g.openRule(call)
	r := <-resCh
	emit("C\t%s\t%d\t%d\t0\t%s\t%s\t%s\t%s\t%s", scen, inst, part, "race:"+sched, target, r.class, clean(jsonReq(req.Interface())), clean(r.info))
	if strings.HasPrefix(r.class, "panic") || r.class == "stall" {
		return 3
	}
	v, d := wd.liveness()
	emit("L\t%s\t%d\t%d\t%s\t%s", scen, inst, part, v, clean(d))
	return 0
}

// runHints measures how long ImportMnemonic works (holding WalletManager.mu and the database write
// transaction) as a function of the external_index / internal_index hints of the request.
func runHints(wd *World, scen string, inst, part int) int {
	sizes := []uint32{20, 200, 2000, 20000}
	n := sizes[inst%len(sizes)]
	internal := inst >= len(sizes)
	C, err := wd.newWallet("passH@verif9")
	if err != nil {
		emit("X\t%s\t%d\t%d\t0\tharness\t%s", scen, inst, part, clean(err.Error()))
		return 0
	}
	if err := wd.removeFully(C); err != nil {
		emit("X\t%s\t%d\t%d\t0\tharness\t%s", scen, inst, part, clean(err.Error()))
		return 0
	}
	req := &pb.ImportMnemonicRequest{Mnemonic: C.mnemonic, Passphrase: C.pass, Remarks: "hint"}
	if internal {
		req.InternalIndex = n
	} else {
		req.ExternalIndex = n
	}
	t0 := time.Now()
	// while the import works, does another request get an answer?
	blocked := make(chan time.Duration, 1)
	go func() {
		time.Sleep(20 * time.Millisecond)
		t1 := time.Now()
		wd.api.Wallets(context.Background(), &empty.Empty{})
		blocked <- time.Since(t1)
	}()
	res := guarded(120*time.Second, func() string {
		_, err := wd.api.ImportMnemonic(context.Background(), req)
		return errClass(err)
	})
	d := time.Since(t0)
	var other time.Duration
	select {
	case other = <-blocked:
	case <-time.After(2 * time.Second):
		other = -1
	}
	kind := "external"
	if internal {
		kind = "internal"
	}
	emit("H\t%s\t%d\t%s\t%d\t%.4f\t%s\t%.4f", scen, inst, kind, n, d.Seconds(), res.class, other.Seconds())
	return 0
}

// ---------------------------------------------------------------- parent

type job struct {
	scen       string
	inst, nreq int
}

var fatalRe = regexp.MustCompile(`level=fatal msg=panic(.*)`)

func runWorker(self string, scen string, inst, part, nreq, only int) (lines []string, rc int, fatal string) {
	tmp, _ := os.CreateTemp("", "c19w-")
	tmp.Close()
	defer os.Remove(tmp.Name())
	args := []string{"-worker", "-scen", scen, "-inst", strconv.Itoa(inst), "-part", strconv.Itoa(part), "-nreq", strconv.Itoa(nreq), "-only", strconv.Itoa(only), "-wout", tmp.Name()}
	cmd := exec.Command(self, args...)
	var so, se bytes.Buffer
	cmd.Stdout, cmd.Stderr = &so, &se
	done := make(chan error, 1)
	cmd.Start()
	go func() { done <- cmd.Wait() }()
	select {
	case err := <-done:
		if err != nil {
			rc = 1
			if ee, ok := err.(*exec.ExitError); ok {
				rc = ee.ExitCode()
			}
		}
	case <-time.After(240 * time.Second):
		cmd.Process.Kill()
		rc = 124
	}
	b, _ := os.ReadFile(tmp.Name())
	for _, l := range strings.Split(string(b), "\n") {
		if l != "" {
			lines = append(lines, l)
		}
	}
	out := so.String() + se.String()
	if m := fatalRe.FindStringSubmatch(out); m != nil {
		fatal = m[1]
	} else if rc != 0 && rc != 3 {
		t := out
		if len(t) > 1500 {
			t = t[len(t)-1500:]
		}
		fatal = "exit " + strconv.Itoa(rc) + ": " + t
	}
	return
}

// stackKey extracts "<file>:<function>" and the top frames from the stack string the wallet's Recover() logged.
func stackKey(logged string) (string, string) {
	i := strings.Index(logged, `stack="`)
	if i < 0 {
		return "unknown", clean(logged)
	}
	s := logged[i+7:]
	s = strings.Replace(s, `\n`, "\n", -1)
	s = strings.Replace(s, `\t`, "\t", -1)
	key, top := locate(s)
	errv := ""
	if m := regexp.MustCompile(`err="([^"]*)"`).FindStringSubmatch(logged); m != nil {
		errv = m[1]
	} else if m := regexp.MustCompile(`err=(\S+)`).FindStringSubmatch(logged); m != nil {
		errv = m[1]
	}
	return key, errv + " || " + top
}

func parent(tier, outPath string, workers int) int {
	self, err := os.Executable()
	if err != nil {
		fmt.Fprintln(os.Stderr, err)
		return 2
	}
	perScen, nreq := 3, 150
	evInst, evN := 3, 40
	if tier == "thorough" {
		perScen, nreq = 48, 500
		evInst, evN = 24, 120
	}
	if v := os.Getenv("C19_INSTANCES"); v != "" {
		perScen, _ = strconv.Atoi(v)
	}
	if v := os.Getenv("C19_NREQ"); v != "" {
		nreq, _ = strconv.Atoi(v)
	}
	var jobs []job
	for _, s := range scenarios {
		if s == "events" {
			for i := 0; i < evInst; i++ {
				jobs = append(jobs, job{s, i, evN})
			}
			continue
		}
		if s == "hints" {
			jobs = append(jobs, job{s, 1, 1}, job{s, 2, 1})
			continue
		}
		if s == "race-remove" {
			// instance = target + len(targets) * k: the call is frozen at its first read (k = 0) or at the END of its k-th read
			for i := 0; i < len(raceTargets)*7*2; i++ {
				jobs = append(jobs, job{s, i, 1})
			}
			continue
		}
		for i := 0; i < perScen; i++ {
			jobs = append(jobs, job{s, i, nreq})
		}
	}
	results := make([][]string, len(jobs))
	var wg sync.WaitGroup
	sem := make(chan struct{}, workers)
	for ji, j := range jobs {
		wg.Add(1)
		go func(ji int, j job) {
			defer wg.Done()
			sem <- struct{}{}
			defer func() { <-sem }()
			var all []string
			remaining := j.nreq
			for part := 0; remaining > 0 && part < 40; part++ {
				lines, rc, fatal := runWorker(self, j.scen, j.inst, part, remaining, -1)
				all = append(all, lines...)
				last := -1
				died := false
				for _, l := range lines {
					f := strings.Split(l, "\t")
					if (f[0] == "C" || f[0] == "V") && len(f) > 4 {
						if k, err := strconv.Atoi(f[4]); err == nil {
							last = k
						}
					}
					if f[0] == "X" && len(f) > 5 && f[5] == "fatal-exit" {
						died = true
						k, err := strconv.Atoi(f[4])
						if err == nil && k > last {
							last = k
						}
					}
				}
				if fatal != "" {
					key, top := stackKey(fatal)
					all = append(all, fmt.Sprintf("X\t%s\t%d\t%d\t%d\tbackground-panic\tpanic:%s\t%s", j.scen, j.inst, part, last, key, clean(top)))
				} else if died || (rc != 0 && rc != 3) {
					all = append(all, fmt.Sprintf("X\t%s\t%d\t%d\t%d\tworker-died\trc=%d", j.scen, j.inst, part, last, rc))
				}
				if rc == 0 {
					break
				}
				if last < 0 {
					break // the state itself cannot be built any more
				}
				remaining -= last + 1
			}
			results[ji] = all
		}(ji, j)
	}
	wg.Wait()
	// minimisation: the first occurrence of every panic / stall key is replayed alone on a fresh state
	type occ struct {
		scen             string
		inst, part, k    int
	}
	first := map[string]occ{}
	var keys []string
	for _, ls := range results {
		for _, l := range ls {
			f := strings.Split(l, "\t")
			if f[0] == "C" && len(f) > 7 && (strings.HasPrefix(f[7], "panic") || f[7] == "stall") {
				key := f[7] + "@" + f[6]
				if _, ok := first[key]; !ok {
					i, _ := strconv.Atoi(f[2])
					p, _ := strconv.Atoi(f[3])
					k, _ := strconv.Atoi(f[4])
					first[key] = occ{f[1], i, p, k}
					keys = append(keys, key)
				}
			}
		}
	}
	sort.Strings(keys)
	mins := make([]string, len(keys))
	for i, key := range keys {
		wg.Add(1)
		go func(i int, key string) {
			defer wg.Done()
			sem <- struct{}{}
			defer func() { <-sem }()
			o := first[key]
			lines, _, _ := runWorker(self, o.scen, o.inst, o.part, o.k+1, o.k)
			rep := 0
			for _, l := range lines {
				f := strings.Split(l, "\t")
				if f[0] == "C" && len(f) > 7 && f[7] == strings.SplitN(key, "@", 2)[0] {
					rep = 1
				}
			}
			mins[i] = fmt.Sprintf("M\t%s\t%s\t%d\t%d\t%d\t%d", key, o.scen, o.inst, o.part, o.k, rep)
		}(i, key)
	}
	wg.Wait()
	out := os.Stdout
	if outPath != "" {
		out, err = os.Create(outPath)
		if err != nil {
			fmt.Fprintln(os.Stderr, err)
			return 2
		}
		defer out.Close()
	}
	w := bufio.NewWriter(out)
	for _, ls := range results {
		for _, l := range ls {
			w.WriteString(l)
			w.WriteByte('\n')
		}
	}
	for _, l := range mins {
		w.WriteString(l)
		w.WriteByte('\n')
	}
	w.Flush()
	return 0
}

func main() {
	isWorker := flag.Bool("worker", false, "internal")
	scen := flag.String("scen", "selected", "scenario")
	inst := flag.Int("inst", 0, "instance")
	part := flag.Int("part", 0, "part")
	nreq := flag.Int("nreq", 100, "requests")
	only := flag.Int("only", -1, "execute only request k")
	woutPath := flag.String("wout", "/dev/stdout", "worker output")
	tier := flag.String("tier", "quick", "quick|thorough")
	outPath := flag.String("out", "", "output file")
	workers := flag.Int("j", 12, "worker processes")
	flag.Parse()
	if *isWorker {
		os.Exit(worker(*scen, *inst, *part, *nreq, *only, *woutPath))
	}
	os.Exit(parent(*tier, *outPath, *workers))
}
