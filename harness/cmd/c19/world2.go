package main

// Extensions of the base history for the second group of API methods: funds large enough for a
// staking transaction, a long-lived staking deposit that earns a reward, a block whose coinbase
// carries the standard coinbase payload and pays that reward (GetBlockStakingReward), a block with a
// punishment proposal and a ban list (marshalGetBlockResponse / createFaultPubKeyResult), and the
// state "the node has reorganised, the wallet has not followed yet" (scenario lagging-reorg).

import (
	"bytes"
	"encoding/binary"
	"fmt"

	"github.com/massnetorg/mass-core/interfaces"
	"github.com/massnetorg/mass-core/massutil"
	"github.com/massnetorg/mass-core/txscript"
	"github.com/massnetorg/mass-core/wire"
	"massnet.org/mass-wallet/config"
	"verifharness/internal/sim"
)

// remake rebuilds the block around an edited message block (roots recomputed; nothing validates the rest).
func remake(blk *wire.MsgBlock) *massutil.Block {
	merkles := wire.BuildMerkleTreeStoreTransactions(blk.Transactions, false)
	blk.Header.TransactionRoot = *merkles[len(merkles)-1]
	wmerkles := wire.BuildMerkleTreeStoreTransactions(blk.Transactions, true)
	blk.Header.WitnessRoot = *wmerkles[len(wmerkles)-1]
	return massutil.NewBlock(blk)
}

func coinbasePayload(height uint64, numStakingReward uint32) []byte {
	buf := make([]byte, 12)
	binary.LittleEndian.PutUint64(buf[:8], height)
	binary.LittleEndian.PutUint32(buf[8:12], numStakingReward)
	return buf
}

// extend is called at the end of build(), with A and B in place.
func (wd *World) extend() error {
	A := wd.ws[0]
	a0, a2 := A.addrs[0], A.addrs[2]
	pay := func(ai *addrInfo, v int64) sim.Out { return sim.Out{Script: stdScript(ai.sh), Value: v} }
	// funds: enough for a 2048 MASS staking output
	if _, err := wd.block([]sim.Out{pay(a0, 3000e8), pay(A.addrs[1], 2500e8)}, nil, true); err != nil {
		return err
	}
	if err := wd.filler(int(sim.Cur.CoinbaseMaturity)); err != nil {
		return err
	}
	// a staking deposit of A that stays frozen for a long time and earns a reward
	var big *coin
	for _, c := range wd.coinsOf(A, clsStd, true) {
		if c.val == 2500e8 {
			big = c
		}
	}
	if big == nil {
		return fmt.Errorf("world: the 2500 MASS coin is missing")
	}
	stake := wd.spend(big, []sim.Out{{Script: stakingScript(a2.sh, 200), Value: 2100e8}, pay(a0, 399e8)})
	if _, err := wd.block(nil, []*wire.MsgTx{stake}, true); err != nil {
		return err
	}
	if err := wd.filler(2); err != nil {
		return err
	}
	wd.gameHeights = append(wd.gameHeights, wd.n.Height()-2)
	// reward blocks: the coinbase carries the standard coinbase payload (height, number of staking rewards) and pays
	// the rewards first. One as the node builds it (one reward to the staking script hash), then the shapes
	// GetBlockStakingReward has an answer for: no reward, a reward to a script hash that is not on the rank list,
	// a reward of value 0, a first output without a script hash, fewer rewards paid than announced is NOT built
	// (txOuts[j] would leave the coinbase: consensus forbids it, model site PRewardTxOut)
	opret := append([]byte{txscript.OP_RETURN, 4}, wd.r.Bytes(4)...)
	for _, rb := range []struct {
		n    uint32
		outs []sim.Out
	}{
		{1, []sim.Out{{Script: stdScript(a2.sh), Value: 1234567}, {Script: wd.stranger[0], Value: 1e8}}},
		{0, []sim.Out{{Script: wd.stranger[0], Value: 1e8}}},
		{1, []sim.Out{{Script: wd.stranger[2], Value: 777}, {Script: wd.stranger[0], Value: 1e8}}},
		{1, []sim.Out{{Script: stdScript(a2.sh), Value: 0}, {Script: wd.stranger[0], Value: 1e8}}},
		{1, []sim.Out{{Script: opret, Value: 0}, {Script: wd.stranger[0], Value: 1e8}}},
	} {
		b := wd.n.MakeBlock(wd.n.Tip(), rb.outs, nil)
		msg := b.MsgBlock()
		msg.Transactions[0].Payload = coinbasePayload(msg.Header.Height, rb.n)
		if _, err := wd.attach(remake(msg), true); err != nil {
			return err
		}
		wd.rewardHeights = append(wd.rewardHeights, wd.n.Height())
	}
	// a transaction whose only game-related part is its INPUT: the matured staking output of the base history is withdrawn
	for _, c := range wd.coinsOf(A, clsStaking, true) {
		if c.val < 2000e8 {
			if _, err := wd.block(nil, []*wire.MsgTx{wd.spend(c, []sim.Out{pay(a0, c.val)})}, true); err != nil {
				return err
			}
			wd.gameHeights = append(wd.gameHeights, wd.n.Height())
			break
		}
	}
	// a block with a punishment proposal and a ban list (keys and headers: copies of the genesis header's)
	b := wd.n.MakeBlock(wd.n.Tip(), []sim.Out{{Script: wd.stranger[1], Value: 1e8}}, nil)
	msg := b.MsgBlock()
	gh := config.ChainParams.GenesisBlock.Header
	fpk := wire.NewEmptyFaultPubKey()
	fpk.PubKey = gh.PubKey
	for i := range fpk.Testimony {
		h := gh
		h.Height = uint64(3 + i)
		h.BanList = []interfaces.PublicKey{gh.PubKey}
		fpk.Testimony[i] = &h
	}
	msg.Proposals.PunishmentArea = []*wire.FaultPubKey{fpk}
	msg.Header.BanList = []interfaces.PublicKey{gh.PubKey}
	nb := remake(msg)
	// the block must survive its own encoding (the chain database stores the encoded form)
	var buf bytes.Buffer
	if _, err := nb.MsgBlock().Encode(&buf, wire.DB); err == nil {
		if _, err := wd.attach(nb, true); err != nil {
			return err
		}
		wd.proposalHeights = append(wd.proposalHeights, wd.n.Height())
	}
	return wd.filler(1)
}

// ---------------------------------------------------------------- lagging-reorg

type lagInfo struct {
	variant int
	height  uint64
	oldTx   *wire.MsgTx // the binding deposit the wallet recorded (output 1 is the binding output)
	newTx   *wire.MsgTx // what the node now holds at the same height and location
	sameLoc bool
}

// makeLagging: a binding deposit of A is mined and processed; then the NODE replaces that block (and
// the one above it) by blocks of the same layout in which another transaction of the same encoded
// length sits at the deposit's place — variant 0: one output and a padded payload, variant 1: the same
// two outputs in the other order — and the wallet is not told. Until the next announcement is
// processed the wallet's records point into a chain the node no longer has.
func (wd *World) makeLagging(variant int, shorter bool, mid func() error) error {
	A := wd.ws[0]
	a0, a1 := A.addrs[0], A.addrs[1]
	var c *coin
	for _, x := range wd.coinsOf(A, clsStd, true) {
		if x.val >= 3e8 && x.val < 1000e8 {
			c = x
			break
		}
	}
	if c == nil {
		return fmt.Errorf("world: no coin for the binding deposit")
	}
	v := c.val / 4
	target := wd.tgt(target22(wd.r))
	dep := wd.spend(c, []sim.Out{{Script: stdScript(a1.sh), Value: v}, {Script: bindingScript(a0.sh, target), Value: v}})
	cb := []sim.Out{{Script: wd.stranger[0], Value: 1e8}}
	old, err := wd.block(cb, []*wire.MsgTx{dep}, true)
	if err != nil {
		return err
	}
	if err := wd.filler(1); err != nil {
		return err
	}
	oldLocs, err := massutil.NewBlock(old.MsgBlock()).TxLoc()
	if err != nil {
		return err
	}
	if err := mid(); err != nil {
		return err
	}
	// the node reorganises: two blocks off, two other blocks on; the wallet hears nothing
	for i := 0; i < 2; i++ {
		if _, err := wd.n.Detach(); err != nil {
			return err
		}
	}
	mk := func(pad int) *wire.MsgTx {
		if variant == 1 {
			return sim.NewTx([]wire.OutPoint{c.op}, nil, []sim.Out{{Script: bindingScript(a0.sh, target), Value: v}, {Script: stdScript(a1.sh), Value: v}}, 0, nil)
		}
		return sim.NewTx([]wire.OutPoint{c.op}, nil, []sim.Out{{Script: stdScript(a1.sh), Value: v}}, 0, bytes.Repeat([]byte{7}, pad))
	}
	var nb *massutil.Block
	same := false
	for pad := 0; pad < 200 && !same; pad++ {
		cand := wd.n.MakeBlock(wd.n.Tip(), cb, []*wire.MsgTx{mk(pad)})
		locs, err := massutil.NewBlock(cand.MsgBlock()).TxLoc()
		if err != nil {
			return err
		}
		nb = cand
		same = len(locs) == 2 && locs[1] == oldLocs[1]
		if variant == 1 {
			break
		}
	}
	if err := wd.n.Attach(nb); err != nil {
		return err
	}
	if !shorter {
		if err := wd.n.Attach(wd.n.MakeBlock(wd.n.Tip(), []sim.Out{{Script: wd.stranger[1], Value: 1e8}}, nil)); err != nil {
			return err
		}
	}
	wd.lag = &lagInfo{variant: variant, height: old.Height(), oldTx: dep, newTx: nb.MsgBlock().Transactions[1], sameLoc: same}
	wd.state = fmt.Sprintf("lagging-reorg:%d", variant)
	if !same {
		wd.state += ":other-location"
	}
	if shorter {
		// the replacing branch is (still) one block shorter than the one the wallet followed
		wd.state += ":shorter"
	}
	return nil
}
