// c02: correspondence harness of property C02 (created transactions).
//
//	-pure   : isolated high-volume cases of topKSelector / optOutputs / maybeSubtractFeeFromAmounts /
//	          CalcMinRequiredTxRelayFee (lines S, O, F, R) through masswallet/tx_verif.go
//	default : wallet scenarios — a wallet's UTXO set is produced by a real chain history
//	          (internal/hist over internal/sim), then 1-4 consecutive create calls are made on the real
//	          WalletManager (lines A = automatic/staking/binding, M = explicit inputs, E = size estimate).
//
// Line formats (tab separated; the model driver ocaml/C02/driver.ml reads them):
//
//	C  k minRelay maxStandardTxSize maxAmount
//	S  tag k req amounts            impl: b=<heap array>;g=<guard>
//	O  tag amount amounts           impl: ok:<selection>:<sum> | err
//	F  tag fee id:amt;... sel,...   impl: ok:<id=amt,...>:<total> | err:<class>
//	R  tag size                     impl: fee
//	E  tag nin nout                 impl: size
//	A  tag utxos addrs reserved req impl     utxo = id:amt:sh:confs:mat:class:spent:su
//	      req = outs|ok|userfee|lock|from|change|changeok|payload    out = class:sh:par:amt
//	      impl = ok|fee|id:seq,...|class:sh:par:val;...  or  err|<class>  or  panic
//	M  tag inputs req impl          input = B | U | V | id:amt:sh:class:frozen:height:mined:parse:owned
//	      req = sh:amt;...|ok|lock|change|changeok|subfee,...
package main

import (
	"bufio"
	"context"
	"flag"
	"fmt"
	"os"
	"sort"
	"strings"

	"google.golang.org/grpc/status"
	"massnet.org/mass-wallet/api"
	pb "massnet.org/mass-wallet/api/proto"

	"github.com/massnetorg/mass-core/blockchain"
	"github.com/massnetorg/mass-core/massutil"
	"github.com/massnetorg/mass-core/txscript"
	"github.com/massnetorg/mass-core/wire"
	"massnet.org/mass-wallet/config"
	"massnet.org/mass-wallet/masswallet"
	"massnet.org/mass-wallet/masswallet/keystore"
	"massnet.org/mass-wallet/masswallet/txmgr"
	"verifharness/internal/hist"
	"verifharness/internal/rng"
	"verifharness/internal/sim"
)

var stats = map[string]int{}

func amt(v int64) massutil.Amount {
	a, err := massutil.NewAmountFromInt(v)
	if err != nil {
		panic(fmt.Sprintf("harness: amount %d: %v", v, err))
	}
	return a
}

func csv(l []string) string {
	if len(l) == 0 {
		return "-"
	}
	return strings.Join(l, ",")
}

func errClass(err error) string {
	switch err {
	case masswallet.ErrInsufficientFunds, masswallet.ErrNotEnoughInputs:
		return "insufficient"
	case masswallet.ErrOverfullUtxo:
		return "overfull"
	case masswallet.ErrInvalidParameter, masswallet.ErrInvalidAmount, masswallet.ErrFailedDecodeAddress,
		masswallet.ErrInvalidAddress, masswallet.ErrInvalidStakingAddress, masswallet.ErrNet,
		masswallet.ErrCreatePkScript, masswallet.ErrShaHashFromStr, masswallet.ErrNoAddressInWallet,
		masswallet.ErrUnknownSubfeefrom, masswallet.ErrInvalidIndex, keystore.ErrAddressNotFound, txscript.ErrFrozenPeriod:
		return "invalid"
	case masswallet.ErrDustChange, masswallet.ErrDustAmount:
		return "dust"
	}
	return "other"
}

// apiErrClass maps the status code of an API error to the same classes.
func apiErrClass(err error) string {
	st, ok := status.FromError(err)
	if !ok {
		return "other"
	}
	switch uint32(st.Code()) {
	case api.ErrAPIInsufficientWalletBalance, api.ErrAPINotEnoughInputs:
		return "insufficient"
	case api.ErrAPIOverfullInputs:
		return "overfull"
	case api.ErrAPIInvalidParameter, api.ErrAPIInvalidLockTime, api.ErrAPIInvalidAmount, api.ErrAPIInvalidAddress,
		api.ErrAPIInvalidTxId, api.ErrAPIUnknownSubfeefrom, api.ErrAPINoAddressInWallet, api.ErrAPIUserTxFee:
		return "invalid"
	case api.ErrAPIDustChange, api.ErrAPIDustAmount:
		return "dust"
	}
	return "other"
}

func amtStr(v int64) string {
	s, err := api.AmountToString(v)
	if err != nil {
		panic(fmt.Sprintf("harness: AmountToString(%d): %v", v, err))
	}
	return s
}

// feeOf computes inputs - outputs of a decoded transaction from the chain's values (the API
// wrappers do not report the fee).
func (s *scn) feeOf(hexTx string) massutil.Amount {
	tx, err := hist.DecodeTxHex(hexTx)
	if err != nil {
		return massutil.ZeroAmount()
	}
	var f int64
	for _, in := range tx.TxIn {
		if oi := s.ops[in.PreviousOutPoint]; oi != nil {
			f += oi.val
		}
	}
	for _, o := range tx.TxOut {
		f -= o.Value
	}
	if f < 0 {
		f = 0
	}
	return amt(f)
}

// ---------------------------------------------------------------------------- pure cases

func credits(vals []int64) []*txmgr.Credit {
	l := make([]*txmgr.Credit, len(vals))
	for i, v := range vals {
		l[i] = &txmgr.Credit{Amount: amt(v)}
		l[i].OutPoint.Index = uint32(i)
	}
	return l
}

func i64s(l []int64) string {
	s := make([]string, len(l))
	for i, v := range l {
		s[i] = fmt.Sprint(v)
	}
	return csv(s)
}

func creditAmts(l []*txmgr.Credit) string {
	s := make([]string, len(l))
	for i, c := range l {
		s[i] = fmt.Sprint(c.Amount.IntValue())
	}
	return csv(s)
}

// amounts with many ties and a few large values
func genAmounts(r *rng.R, n int) []int64 {
	l := make([]int64, n)
	mode := r.Intn(5)
	for i := range l {
		switch mode {
		case 0:
			l[i] = int64(1 + r.Intn(9))
		case 1:
			l[i] = int64(1+r.Intn(20)) * 1000
		case 2:
			l[i] = int64(1 + r.Intn(1000000))
		case 3:
			if r.Chance(15) {
				l[i] = int64(1+r.Intn(50)) * 100000000
			} else {
				l[i] = int64(1 + r.Intn(30000))
			}
		default:
			l[i] = int64(1 + r.U64()%2000000000000)
		}
	}
	return l
}

func pickTarget(r *rng.R, l []int64) int64 {
	var total int64
	for _, v := range l {
		total += v
	}
	switch r.Intn(8) {
	case 0:
		return total
	case 1:
		return total + 1 + int64(r.Intn(5))
	case 2:
		if total > 1 {
			return total - int64(r.Intn(int(min64(total-1, 20))+1))
		}
		return 1
	case 3: // sum of a random subset: reachable exactly
		var s int64
		for _, v := range l {
			if r.Bool() {
				s += v
			}
		}
		if s == 0 {
			s = 1
		}
		return s
	case 4:
		if len(l) > 0 {
			return l[r.Intn(len(l))] + int64(r.Intn(3)) - 1 + 1
		}
		return 1
	case 5:
		return 1 + int64(r.U64()%uint64(total+2))
	case 6:
		return 1 + int64(r.U64()%uint64(total/2+2))
	}
	return 1 + int64(r.Intn(100))
}

func min64(a, b int64) int64 {
	if a < b {
		return a
	}
	return b
}

func pure(out *bufio.Writer, tier string) {
	r := rng.FromEnv(2)
	nS, nO, nF, nR := 20000, 25000, 15000, 2000
	if tier == "thorough" {
		nS, nO, nF, nR = 200000, 300000, 150000, 20000
	}
	maxAmt := massutil.MaxAmount().IntValue()
	// --- topKSelector
	for i := 0; i < nS; i++ {
		k := r.Intn(10)
		n := r.Intn(30)
		switch {
		case i%400 == 0: // production capacity, more than K coins
			k = -1
			n = 640 + r.Intn(60)
		case i%50 == 0:
			k = 10 + r.Intn(40)
			n = r.Intn(120)
		}
		vals := genAmounts(r, n)
		req := pickTarget(r, vals)
		if k < 0 || (k > 0 && r.Chance(50)) { // most coins at or below the required amount: the heap overflows
			var mx int64
			for _, v := range vals {
				if v > mx {
					mx = v
				}
			}
			req = mx - int64(r.Intn(3))*mx/10
			if req <= 0 {
				req = 1
			}
		}
		base, guard, kk, all := masswallet.VerifTopK(k, amt(req), credits(vals))
		g := "-"
		if guard != nil {
			g = fmt.Sprint(guard.Amount.IntValue())
		}
		if len(all) != len(base)+map[bool]int{true: 1, false: 0}[guard != nil] {
			g += "!items"
		}
		if k < 0 && kk != blockchain.GetMaxStandardTxSize()/154 {
			g += "!k"
		}
		fmt.Fprintf(out, "S\ts%d\t%d\t%d\t%s\tb=%s;g=%s\n", i, k, req, i64s(vals), creditAmts(base), g)
		stats["S"]++
	}
	// --- optOutputs
	for i := 0; i < nO; i++ {
		n := r.Intn(14)
		if i%100 == 0 {
			n = r.Intn(200)
		}
		vals := genAmounts(r, n)
		target := pickTarget(r, vals)
		if i%500 == 7 {
			target = 0
		}
		if i%300 == 5 && n > 1 { // sums above MaxAmount: the checked additions fail
			for j := range vals {
				vals[j] = maxAmt/int64(n) + int64(r.Intn(3)) - 1
			}
			target = maxAmt - int64(r.Intn(10))
		}
		in := append([]int64{}, vals...)
		res := "err"
		func() {
			defer func() {
				if e := recover(); e != nil {
					res = "panic"
				}
			}()
			sel, sum, _, err := masswallet.VerifOptOutputs(amt(target), credits(vals))
			if err == nil {
				res = fmt.Sprintf("ok:%s:%d", creditAmts(sel), sum.IntValue())
			}
		}()
		fmt.Fprintf(out, "O\to%d\t%d\t%s\t%s\n", i, target, i64s(in), res)
		stats["O"]++
	}
	// --- maybeSubtractFeeFromAmounts
	for i := 0; i < nF; i++ {
		n := r.Intn(6)
		amounts := map[string]massutil.Amount{}
		var desc []string
		for j := 1; j <= n; j++ {
			var v int64
			switch r.Intn(6) {
			case 0:
				v = int64(r.Intn(4))
			case 1:
				v = int64(r.Intn(20000))
			case 2:
				v = maxAmt - int64(r.Intn(3))
			default:
				v = int64(r.U64() % 1000000000000)
			}
			amounts[fmt.Sprint(j)] = amt(v)
			desc = append(desc, fmt.Sprintf("%d:%d", j, v))
		}
		sel := map[string]struct{}{}
		var seld []string
		for j := 1; j <= n; j++ {
			if r.Chance(40) {
				sel[fmt.Sprint(j)] = struct{}{}
				seld = append(seld, fmt.Sprint(j))
			}
		}
		if r.Chance(4) {
			sel["99"] = struct{}{}
			seld = append(seld, "99")
		}
		var fee int64
		switch r.Intn(6) {
		case 0:
			fee = int64(r.Intn(10))
		case 1:
			fee = 2290 + int64(r.Intn(5))
		case 2:
			fee = maxAmt - int64(r.Intn(4))
		default:
			fee = int64(r.Intn(200000))
		}
		res := ""
		func() {
			defer func() {
				if e := recover(); e != nil {
					res = "panic"
				}
			}()
			na, total, err := masswallet.VerifMaybeSubtractFee(amounts, sel, amt(fee))
			if err != nil {
				res = "err:" + errClass(err)
				return
			}
			var ks []int
			for k := range na {
				var x int
				fmt.Sscan(k, &x)
				ks = append(ks, x)
			}
			sort.Ints(ks)
			var parts []string
			for _, k := range ks {
				parts = append(parts, fmt.Sprintf("%d=%d", k, na[fmt.Sprint(k)].IntValue()))
			}
			res = fmt.Sprintf("ok:%s:%d", csv(parts), total.IntValue())
		}()
		d := "-"
		if len(desc) > 0 {
			d = strings.Join(desc, ";")
		}
		fmt.Fprintf(out, "F\tf%d\t%d\t%s\t%s\t%s\n", i, fee, d, csv(seld), res)
		stats["F"]++
	}
	// --- CalcMinRequiredTxRelayFee
	for i := 0; i < nR; i++ {
		var size int64
		switch r.Intn(4) {
		case 0:
			size = int64(r.Intn(300))
		case 1:
			size = 99000 + int64(r.Intn(3000))
		case 2:
			size = int64(r.U64() % 4000000000000000)
		default:
			size = int64(r.Intn(200000))
		}
		f, err := blockchain.CalcMinRequiredTxRelayFee(size, massutil.MinRelayTxFee())
		res := "err"
		if err == nil {
			res = fmt.Sprint(f.IntValue())
		}
		fmt.Fprintf(out, "R\tr%d\t%d\t%s\n", i, size, res)
		stats["R"]++
	}
}

// ---------------------------------------------------------------------------- wallet scenarios

type outInfo struct {
	id     int
	op     wire.OutPoint
	val    int64
	script []byte
	class  int // 0 standard, 1 staking, 2 binding
	sh     int
	frozen int64
	height uint64
	mined  bool
	owner  int // 1 subject wallet, 2 foreign wallet, 0 nobody
	spent  bool
}

type scn struct {
	h       *hist.H
	r       *rng.R
	n       int
	out     *bufio.Writer
	w1, w2  *hist.WInfo
	ops     map[wire.OutPoint]*outInfo
	nextID  int
	pending []*wire.MsgTx
	shOwner map[int]int
	step    int
	reserved []int
	drafts   []*wire.MsgTx // successfully created, still reserved
	faucet  []wire.OutPoint
	strangerAddr []string
	srv     *api.APIServer
}

func (s *scn) note(tx *wire.MsgTx, height uint64, mined bool) {
	th := tx.TxHash()
	for i, o := range tx.TxOut {
		cls, sh, par := s.h.TxDest(o.PkScript)
		ow := s.shOwner[sh]
		if cls == 9 || ow == 0 {
			continue
		}
		op := wire.OutPoint{Hash: th, Index: uint32(i)}
		if oi, ok := s.ops[op]; ok {
			oi.mined = oi.mined || mined
			oi.height = height
			continue
		}
		s.nextID++
		s.ops[op] = &outInfo{id: s.nextID, op: op, val: o.Value, script: o.PkScript, class: cls, sh: sh, frozen: par,
			height: height, mined: mined, owner: ow}
		if cls == 2 {
			s.ops[op].frozen = 0
		}
	}
	if mined {
		for _, in := range tx.TxIn {
			if oi, ok := s.ops[in.PreviousOutPoint]; ok {
				oi.spent = true
			}
		}
	}
}

func (s *scn) mine(cb []sim.Out, txs []*wire.MsgTx) error {
	b, err := s.h.TxMine(cb, txs)
	if err != nil {
		return err
	}
	for _, tx := range b.MsgBlock().Transactions {
		s.note(tx, b.Height(), true)
	}
	return nil
}

func (s *scn) coinAmounts(profile int) []int64 {
	r := s.r
	var l []int64
	add := func(n int, f func() int64) {
		for i := 0; i < n; i++ {
			l = append(l, f())
		}
	}
	switch profile {
	case 0: // few
		add(1+r.Intn(6), func() int64 { return 10000 + int64(r.U64()%1000000000) })
	case 1: // many small, many ties
		add(20+r.Intn(100), func() int64 { return int64(1+r.Intn(20)) * 10000 })
	case 2: // ties
		base := []int64{50000, 200000, 1000000}
		add(5+r.Intn(25), func() int64 { return base[r.Intn(1+r.Intn(3))] })
	case 3: // big + small
		add(1+r.Intn(3), func() int64 { return 10000000000 + int64(r.U64()%1000000000000) })
		add(5+r.Intn(35), func() int64 { return 5000 + int64(r.Intn(200000)) })
	case 4: // more coins than the selector keeps
		add(655+r.Intn(40), func() int64 { return 10000 + int64(r.Intn(20000)) })
		if r.Bool() {
			add(1, func() int64 { return 5000000000 })
		}
	case 5: // tiny coins around the relay minimum
		add(3+r.Intn(10), func() int64 { return 1 + int64(r.Intn(25000)) })
	}
	return l
}

func randomStrangerAddr(r *rng.R) string {
	a, err := massutil.NewAddressWitnessScriptHash(r.Bytes(32), config.ChainParams)
	if err != nil {
		panic(err)
	}
	return a.EncodeAddress()
}

func (s *scn) build(profile int) error {
	h, r := s.h, s.r
	var err error
	if s.w1, err = h.NewWallet(); err != nil {
		return err
	}
	for i, na := 0, 1+r.Intn(4); i < na; i++ {
		if _, err = h.NewAddress(s.w1, 0); err != nil {
			return err
		}
	}
	if r.Chance(30) {
		if _, err = h.NewAddress(s.w1, 1); err != nil {
			return err
		}
	}
	if r.Chance(60) {
		if s.w2, err = h.NewWallet(); err != nil {
			return err
		}
		for i, na := 0, 1+r.Intn(2); i < na; i++ {
			if _, err = h.NewAddress(s.w2, 0); err != nil {
				return err
			}
		}
	}
	for _, a := range s.w1.Addrs {
		s.shOwner[a.Sh] = 1
	}
	if s.w2 != nil {
		for _, a := range s.w2.Addrs {
			s.shOwner[a.Sh] = 2
		}
	}
	for i := 0; i < 3; i++ {
		s.strangerAddr = append(s.strangerAddr, randomStrangerAddr(r))
	}
	stranger := h.Strangers[0]
	// block 1: faucet coins (coinbase to a stranger); blocks 2..5 let them mature, some pay the wallets
	var cb []sim.Out
	for i := 0; i < 6; i++ {
		cb = append(cb, sim.Out{Script: stranger, Value: 1000000000000000})
	}
	if err = s.mine(cb, nil); err != nil {
		return err
	}
	fb := h.N.Tip().MsgBlock().Transactions[0].TxHash()
	for i := 0; i < 6; i++ {
		s.faucet = append(s.faucet, wire.OutPoint{Hash: fb, Index: uint32(i)})
	}
	payee := func() *hist.AddrInfo { return s.w1.Addrs[r.Intn(len(s.w1.Addrs))] }
	for i := 0; i < int(sim.Cur.CoinbaseMaturity); i++ {
		var c []sim.Out
		if r.Chance(35) {
			c = append(c, sim.Out{Script: h.TxScriptStd(payee()), Value: int64(1+r.Intn(40)) * 25000})
		}
		if err = s.mine(c, nil); err != nil {
			return err
		}
	}
	// funding block
	vals := s.coinAmounts(profile)
	var outs []sim.Out
	for _, v := range vals {
		outs = append(outs, sim.Out{Script: h.TxScriptStd(payee()), Value: v})
	}
	// staking / binding coins of the wallet, coins of the foreign wallet
	for i, n := 0, r.Intn(4); i < n; i++ {
		outs = append(outs, sim.Out{Script: h.TxScriptStaking(payee(), uint64(sim.Cur.MinFrozenPeriod)+uint64(r.Intn(4))), Value: 100000 + int64(r.Intn(1000000))})
	}
	for i, n := 0, r.Intn(3); i < n; i++ {
		outs = append(outs, sim.Out{Script: h.TxScriptBinding(payee(), false), Value: 100000 + int64(r.Intn(1000000))})
	}
	if s.w2 != nil {
		for i, n := 0, 1+r.Intn(3); i < n; i++ {
			outs = append(outs, sim.Out{Script: h.TxScriptStd(s.w2.Addrs[r.Intn(len(s.w2.Addrs))]), Value: 100000 + int64(r.Intn(100000000))})
		}
	}
	outs = append(outs, sim.Out{Script: stranger, Value: 77777})
	fund := sim.NewTx([]wire.OutPoint{s.faucet[0]}, nil, outs, 0, nil)
	if err = s.mine(nil, []*wire.MsgTx{fund}); err != nil {
		return err
	}
	// a later block spends one or two of the wallet's coins (they stay credit records) and pays some more
	if r.Chance(55) {
		var spend []wire.OutPoint
		for _, oi := range s.sortedOuts() {
			if oi.owner == 1 && oi.class == 0 && !oi.spent && oi.mined && len(spend) < 1+r.Intn(2) && !s.isCoinbase(oi) {
				spend = append(spend, oi.op)
			}
		}
		if len(spend) > 0 {
			tx := sim.NewTx(append(spend, s.faucet[1]), nil, []sim.Out{{Script: stranger, Value: 1234567}, {Script: h.TxScriptStd(payee()), Value: 30000 + int64(r.Intn(50000))}}, 0, nil)
			var c []sim.Out
			if r.Chance(50) {
				c = append(c, sim.Out{Script: h.TxScriptStd(payee()), Value: 40000 + int64(r.Intn(100000))}) // immature coinbase
			}
			if err = s.mine(c, []*wire.MsgTx{tx}); err != nil {
				return err
			}
		}
	}
	for i, n := 0, r.Intn(4); i < n; i++ {
		var c []sim.Out
		if r.Chance(50) {
			c = append(c, sim.Out{Script: h.TxScriptStd(payee()), Value: 40000 + int64(r.Intn(100000))}) // immature coinbase
		}
		if err = s.mine(c, nil); err != nil {
			return err
		}
	}
	// pending transactions spending coins of the wallet (delivered as the node's mempool notification would)
	if r.Chance(50) {
		for k, n := 0, 1+r.Intn(2); k < n; k++ {
			var spend []wire.OutPoint
			cnt := 1 + r.Intn(2)
			for _, oi := range s.sortedOuts() {
				if oi.owner == 1 && oi.class == 0 && !oi.spent && oi.mined && !s.pendingSpent(oi.op) && len(spend) < cnt && r.Chance(30) {
					spend = append(spend, oi.op)
				}
			}
			if len(spend) == 0 {
				continue
			}
			po := []sim.Out{{Script: h.TxScriptStd(payee()), Value: 20000 + int64(r.Intn(90000))}, {Script: stranger, Value: 5000}}
			if r.Chance(30) {
				po = append(po, sim.Out{Script: h.TxScriptBinding(payee(), false), Value: 150000})
			}
			tx := sim.NewTx(spend, nil, po, 0, nil)
			rel, err := h.W.H.VerifReceiveTx(tx)
			if err != nil {
				return fmt.Errorf("VerifReceiveTx: %v", err)
			}
			if rel {
				s.pending = append(s.pending, tx)
				s.note(tx, s.h.N.Height()+1, false)
				stats["pending_txs"]++
			}
		}
	}
	if _, err = h.W.WM.UseWallet(s.w1.ID); err != nil {
		return err
	}
	return nil
}

func (s *scn) isCoinbase(oi *outInfo) bool {
	c := s.h.Utxo[oi.op]
	return c != nil && c.CB
}

func (s *scn) pendingSpent(op wire.OutPoint) bool {
	for _, tx := range s.pending {
		for _, in := range tx.TxIn {
			if in.PreviousOutPoint == op {
				return true
			}
		}
	}
	return false
}

func (s *scn) sortedOuts() []*outInfo {
	var l []*outInfo
	for _, oi := range s.ops {
		l = append(l, oi)
	}
	sort.Slice(l, func(i, j int) bool { return l[i].id < l[j].id })
	return l
}

type row struct {
	id, sh, class      int
	amt                int64
	confs, mat         uint32
	su                 bool
	op                 wire.OutPoint
}

// observe reads the wallet's reported UTXO set (GetUtxo over all its addresses).
func (s *scn) observe() ([]row, error) {
	o := s.h.W.Observe(s.w1.ID)
	if o.Err != "" {
		return nil, fmt.Errorf("observe: %s", o.Err)
	}
	var rows []row
	seen := map[wire.OutPoint]bool{}
	for _, u := range o.Utxos {
		hs, err := wire.NewHashFromStr(u.TxID)
		if err != nil {
			return nil, err
		}
		op := wire.OutPoint{Hash: *hs, Index: u.Vout}
		if seen[op] {
			continue
		}
		seen[op] = true
		oi := s.ops[op]
		if oi == nil {
			return nil, fmt.Errorf("observe: the wallet reports %v which the harness does not know", op)
		}
		sh, _, _ := s.h.TxAddrSh(u.Addr)
		rows = append(rows, row{id: oi.id, sh: sh, class: oi.class, amt: u.Amount, confs: u.Confirmations, mat: u.Maturity, su: u.SpentUnmined, op: op})
	}
	sort.Slice(rows, func(i, j int) bool { return rows[i].id < rows[j].id })
	return rows, nil
}

func rowsString(rows []row) string {
	l := make([]string, len(rows))
	b := map[bool]int{true: 1, false: 0}
	for i, x := range rows {
		l[i] = fmt.Sprintf("%d:%d:%d:%d:%d:%d:0:%d", x.id, x.amt, x.sh, x.confs, x.mat, x.class, b[x.su])
	}
	return csv(l)
}

func (s *scn) addrsString() string {
	var l []string
	for _, a := range s.w1.Addrs {
		l = append(l, fmt.Sprint(a.Sh))
	}
	return csv(l)
}

func ints(l []int) string {
	x := make([]string, len(l))
	for i, v := range l {
		x[i] = fmt.Sprint(v)
	}
	return csv(x)
}

// implObs projects the result of a create call.
func (s *scn) implObs(hexTx string, fee massutil.Amount, err error, panicked bool, viaAPI bool) (string, *wire.MsgTx) {
	if panicked {
		return "panic", nil
	}
	if err != nil {
		if viaAPI {
			return "err|" + apiErrClass(err), nil
		}
		return "err|" + errClass(err), nil
	}
	tx, derr := hist.DecodeTxHex(hexTx)
	if derr != nil {
		return "err|undecodable", nil
	}
	var ins, outs []string
	for _, in := range tx.TxIn {
		id := -1
		if oi := s.ops[in.PreviousOutPoint]; oi != nil {
			id = oi.id
		}
		ins = append(ins, fmt.Sprintf("%d:%d", id, in.Sequence))
	}
	for _, o := range tx.TxOut {
		c, sh, par := s.h.TxDest(o.PkScript)
		outs = append(outs, fmt.Sprintf("%d:%d:%d:%d", c, sh, par, o.Value))
	}
	os := "-"
	if len(outs) > 0 {
		os = strings.Join(outs, ";")
	}
	return fmt.Sprintf("ok|%d|%s|%s", fee.IntValue(), csv(ins), os), tx
}

func eligibleTotal(rows []row, reserved []int) (total int64, vals []int64) {
	res := map[int]bool{}
	for _, x := range reserved {
		res[x] = true
	}
	for _, x := range rows {
		if x.class == 0 && x.confs >= x.mat && !x.su && !res[x.id] {
			total += x.amt
			vals = append(vals, x.amt)
		}
	}
	sort.Slice(vals, func(i, j int) bool { return vals[i] > vals[j] })
	return
}

func (s *scn) pickFee() int64 {
	r := s.r
	switch r.Intn(9) {
	case 0, 1:
		return 0
	case 2:
		return 1
	case 3:
		return 2290
	case 4:
		return 5000 + int64(r.Intn(3000))
	case 5:
		return 10000
	case 6:
		return 50000 + int64(r.Intn(100000))
	case 7:
		return 1 + int64(r.Intn(4000))
	}
	return 1100000 + int64(r.Intn(100000))
}

func (s *scn) pickLock() uint64 {
	switch s.r.Intn(4) {
	case 0:
		return 5
	case 1:
		return 1 << 40
	}
	return 0
}

// target total for a request relative to what the wallet can spend
func (s *scn) pickTotal(total int64, vals []int64, fee int64) int64 {
	r := s.r
	f := fee
	if f == 0 {
		f = 10000
	}
	var t int64
	if r.Chance(45) && total > 0 { // comfortable: a fraction of what is there
		t = 1 + int64(r.U64()%uint64(total*6/10+1))
		if r.Chance(30) && len(vals) > 0 { // about one coin
			t = vals[r.Intn(len(vals))] - int64(r.Intn(3))*int64(r.Intn(15000))
		}
		if t <= 0 {
			t = 1 + int64(r.Intn(20000))
		}
		return t
	}
	switch r.Intn(12) {
	case 0:
		t = total - f
	case 1:
		t = total - f - 1 - int64(r.Intn(3))
	case 2:
		t = total - f - 9999 + int64(r.Intn(3)) - 1
	case 3:
		t = total - f - 10000 - int64(r.Intn(3))
	case 4:
		t = total + 1 + int64(r.Intn(50000))
	case 5:
		t = total - int64(r.Intn(30000))
	case 6: // the largest coin minus fee: exact hit
		if len(vals) > 0 {
			t = vals[0] - f - int64(r.Intn(2))*int64(r.Intn(12000))
		}
	case 7: // two largest
		if len(vals) > 1 {
			t = vals[0] + vals[1] - f - int64(r.Intn(2))*int64(r.Intn(12000))
		}
	case 8:
		t = total / 2
	case 9:
		if len(vals) > 0 {
			t = vals[len(vals)-1]
		}
	default:
		if total > 0 {
			t = 1 + int64(r.U64()%uint64(total))
		}
	}
	if t <= 0 {
		t = 1 + int64(r.Intn(20000))
	}
	if t > 2000000000000000 {
		t = 2000000000000000
	}
	return t
}

func split(r *rng.R, total int64, n int) []int64 {
	l := make([]int64, n)
	rest := total
	for i := 0; i < n; i++ {
		if i == n-1 {
			l[i] = rest
		} else {
			l[i] = int64(r.U64() % uint64(rest/2+1))
			if l[i] == 0 && r.Chance(90) {
				l[i] = min64(1, rest)
			}
		}
		rest -= l[i]
	}
	return l
}

func (s *scn) ownAddr() *hist.AddrInfo { return s.w1.Addrs[s.r.Intn(len(s.w1.Addrs))] }

// autoStep performs one automatic / staking / binding create call and prints its A line.
func (s *scn) autoStep(forced *forcedAuto) error {
	r := s.r
	rows, err := s.observe()
	if err != nil {
		return err
	}
	total, vals := eligibleTotal(rows, s.reserved)
	kind := 0
	switch k := r.Intn(10); {
	case k == 8:
		kind = 1
	case k == 9:
		kind = 2
	}
	fee := s.pickFee()
	lock := s.pickLock()
	from, fromSh := "", "-"
	change, changeSh, changeOK := "", "-", 1
	if r.Chance(25) {
		switch r.Intn(6) {
		case 0:
			if s.w2 != nil {
				from, fromSh = s.w2.Addrs[0].Addr, "0"
			} else {
				from, fromSh = s.strangerAddr[0], "0"
			}
		case 1:
			from, fromSh = "not-an-address", "0"
		default:
			a := s.ownAddr()
			from, fromSh = a.Addr, fmt.Sprint(a.Sh)
		}
	}
	payload := 0
	var pl []byte
	if kind == 0 {
		if r.Chance(30) {
			switch r.Intn(5) {
			case 0:
				change, changeSh, changeOK = "bad-change-address", "0", 0
			case 1:
				if s.w2 != nil {
					change, changeSh = s.w2.Addrs[0].Addr, fmt.Sprint(s.w2.Addrs[0].Sh)
				}
			case 2:
				change = s.strangerAddr[1]
				sh, _, _ := s.h.TxAddrSh(change)
				changeSh = fmt.Sprint(sh)
			default:
				a := s.ownAddr()
				change, changeSh = a.Addr, fmt.Sprint(a.Sh)
			}
		}
		if r.Chance(20) {
			payload = []int{1, 10, 300, 2000}[r.Intn(4)]
			pl = r.Bytes(payload)
		}
	}
	if kind == 2 {
		lock = 0
	}
	// the selected sender address limits the funds
	if fromSh != "-" && fromSh != "0" {
		var rows2 []row
		for _, x := range rows {
			if fmt.Sprint(x.sh) == fromSh {
				rows2 = append(rows2, x)
			}
		}
		total, vals = eligibleTotal(rows2, s.reserved)
	}
	nrec := 1
	if kind != 1 {
		nrec = []int{1, 1, 1, 2, 2, 3, 4}[r.Intn(7)]
	}
	tot := s.pickTotal(total, vals, fee)
	amounts := split(r, tot, nrec)
	if forced != nil {
		kind, fee, lock, from, fromSh, change, changeSh, changeOK, payload, pl = 0, forced.fee, 0, "", "-", "", "-", 1, 0, nil
		amounts = forced.amounts
		nrec = len(amounts)
	}
	outsOK := 1
	viaAPI := false
	var outDesc []string
	var hexTx string
	var gotFee massutil.Amount
	var cerr error
	panicked := false
	call := func(f func()) {
		defer func() {
			if e := recover(); e != nil {
				panicked = true
			}
		}()
		f()
	}
	switch kind {
	case 0:
		m := map[string]massutil.Amount{}
		used := map[string]bool{}
		for i := 0; i < nrec; i++ {
			var a string
			for tries := 0; ; tries++ {
				switch r.Intn(8) {
				case 0:
					a = s.ownAddr().Addr
				case 1:
					if s.w2 != nil {
						a = s.w2.Addrs[r.Intn(len(s.w2.Addrs))].Addr
					} else {
						a = s.strangerAddr[2]
					}
				default:
					a = randomStrangerAddr(r)
				}
				if !used[a] {
					break
				}
			}
			if forced == nil && r.Chance(2) {
				a = fmt.Sprintf("invalid-address-%d", i)
			}
			used[a] = true
			m[a] = amt(amounts[i])
			sh, staking, ok := s.h.TxAddrSh(a)
			if !ok || staking {
				outsOK = 0
				sh = 0
			}
			outDesc = append(outDesc, fmt.Sprintf("0:%d:0:%d", sh, amounts[i]))
		}
		if forced == nil && payload == 0 && changeOK == 1 && lock < 1<<62 && r.Chance(30) {
			viaAPI = true
			req := &pb.AutoCreateTransactionRequest{Amounts: map[string]string{}, LockTime: lock, Fee: amtStr(fee), FromAddress: from, ChangeAddress: change}
			for a, v := range m {
				req.Amounts[a] = amtStr(v.IntValue())
			}
			call(func() {
				var resp *pb.CreateRawTransactionResponse
				resp, cerr = s.srv.AutoCreateTransaction(context.Background(), req)
				if cerr == nil {
					hexTx = resp.Hex
					gotFee = s.feeOf(hexTx)
				}
			})
		} else {
			call(func() { hexTx, gotFee, cerr = s.h.W.WM.AutoCreateRawTransaction(m, lock, amt(fee), from, change, pl) })
		}
	case 1:
		a := s.ownAddr()
		saddr, err := massutil.NewAddressStakingScriptHash(a.ShBytes, config.ChainParams)
		if err != nil {
			return err
		}
		frozen := uint32(sim.Cur.MinFrozenPeriod) + uint32(r.Intn(5))
		if r.Chance(8) {
			frozen = uint32(sim.Cur.MinFrozenPeriod) - 1
			outsOK = 0
		}
		outDesc = append(outDesc, fmt.Sprintf("1:%d:%d:%d", a.Sh, frozen, amounts[0]))
		o := []*masswallet.StakingTxOut{{Address: saddr.EncodeAddress(), FrozenPeriod: frozen, Amount: amt(amounts[0])}}
		call(func() { hexTx, gotFee, cerr = s.h.W.WM.CreateStakingTransaction(from, o, lock, amt(fee)) })
	case 2:
		var o []*masswallet.BindingOutput
		for i := 0; i < nrec; i++ {
			a := s.ownAddr()
			holder, err := massutil.NewAddressWitnessScriptHash(a.ShBytes, config.ChainParams)
			if err != nil {
				return err
			}
			tb := r.Bytes(20)
			target, err := massutil.NewAddressPubKeyHash(tb, config.ChainParams)
			if err != nil {
				return err
			}
			o = append(o, &masswallet.BindingOutput{Holder: holder, BindingTarget: target, Amount: amt(amounts[i])})
			outDesc = append(outDesc, fmt.Sprintf("2:%d:%d:%d", a.Sh, s.h.TxTargetID(target.ScriptAddress()), amounts[i]))
		}
		call(func() { hexTx, gotFee, cerr = s.h.W.WM.CreateBindingTransaction(from, amt(fee), o) })
	}
	obs, tx := s.implObs(hexTx, gotFee, cerr, panicked, viaAPI)
	od := "-"
	if len(outDesc) > 0 {
		od = strings.Join(outDesc, ";")
	}
	s.step++
	if viaAPI {
		stats["A_api"]++
		kind = 9
	}
	fmt.Fprintf(s.out, "A\t%d.%d.k%d\t%s\t%s\t%s\t%s|%d|%d|%d|%s|%s|%d|%d\t%s\n", s.n, s.step, kind,
		rowsString(rows), s.addrsString(), ints(s.reserved), od, outsOK, fee, lock, fromSh, changeSh, changeOK, payload, obs)
	stats["A"]++
	stats["A_"+strings.SplitN(obs, "|", 3)[0]+map[bool]string{true: "_" + errTail(obs), false: ""}[strings.HasPrefix(obs, "err")]]++
	if tx != nil {
		// size estimate of the real transaction's inputs (line E) on a sample
		if s.step == 1 && len(tx.TxIn) > 0 {
			var cr []*txmgr.Credit
			for _, in := range tx.TxIn {
				cr = append(cr, &txmgr.Credit{OutPoint: in.PreviousOutPoint})
			}
			sz, err := s.h.W.WM.VerifEstimateSignedSize(cr, len(tx.TxOut))
			res := "err"
			if err == nil {
				res = fmt.Sprint(sz)
			}
			fmt.Fprintf(s.out, "E\t%d.%d\t%d\t%d\t%s\n", s.n, s.step, len(tx.TxIn), len(tx.TxOut), res)
			stats["E"]++
		}
		for _, in := range tx.TxIn {
			if oi := s.ops[in.PreviousOutPoint]; oi != nil {
				s.reserved = append(s.reserved, oi.id)
			}
		}
		s.drafts = append(s.drafts, tx)
	}
	return nil
}

// releaseDraft: what the API does when signing or sending a draft fails (ClearUsedUTXOMark): the reservation of
// ONE outstanding draft is given up while the others stay. Its coins leave the reserved list the model is told.
func (s *scn) releaseDraft() {
	if len(s.drafts) == 0 {
		return
	}
	// only drafts that share no coin with another outstanding draft: a draft with EXPLICIT inputs may name a coin an
	// earlier draft reserved, and giving such a draft up frees the shared coin for everybody (the cache is a set) —
	// that shape is the known finding reservation:shared-coin-freed-by-release, reproduced by corpus scenario 5
	var cand []int
	for i, d := range s.drafts {
		shared := false
		for j, e := range s.drafts {
			if i == j {
				continue
			}
			for _, a := range d.TxIn {
				for _, b := range e.TxIn {
					if a.PreviousOutPoint == b.PreviousOutPoint {
						shared = true
					}
				}
			}
		}
		if !shared {
			cand = append(cand, i)
		}
	}
	if len(cand) == 0 {
		return
	}
	k := cand[s.r.Intn(len(cand))]
	tx := s.drafts[k]
	s.drafts = append(s.drafts[:k:k], s.drafts[k+1:]...)
	s.h.W.WM.ClearUsedUTXOMark(tx)
	drop := map[int]int{}
	for _, in := range tx.TxIn {
		if oi := s.ops[in.PreviousOutPoint]; oi != nil {
			drop[oi.id]++
		}
	}
	var keep []int
	for _, id := range s.reserved {
		if drop[id] > 0 {
			drop[id]--
			continue
		}
		keep = append(keep, id)
	}
	s.reserved = keep
	stats["draft_released"]++
}

func errTail(obs string) string {
	p := strings.Split(obs, "|")
	if len(p) > 1 {
		return p[1]
	}
	return ""
}

type forcedAuto struct {
	fee     int64
	amounts []int64
}

type forcedManual struct {
	ins     []*outInfo
	amounts []int64
	respell int // 0: as is; else respellTxId's mode for every input after the first
}

// respellTxId returns another text of the same transaction id: 1 upper case, 2 mixed case, 3 leading
// zeros dropped (NewHashFromStr pads; the API insists on 64 characters, so through the API this is
// upper case); 0 and anything else: unchanged. The outpoint named is the same, so the model is told
// the same coin.
func respellTxId(r *rng.R, how int, id string, viaAPI bool) string {
	if len(id) != 64 {
		return id
	}
	switch how {
	case 1:
		return strings.ToUpper(id)
	case 2:
		b := []byte(id)
		for i := range b {
			if b[i] >= 'a' && b[i] <= 'f' && ((r != nil && r.Chance(50)) || (r == nil && i%2 == 0)) {
				b[i] -= 'a' - 'A'
			}
		}
		return string(b)
	case 3:
		t := strings.TrimLeft(id, "0")
		if viaAPI || t == "" || t == id {
			return strings.ToUpper(id)
		}
		return t
	}
	return id
}

// manualStep performs one CreateRawTransaction call with explicit inputs and prints its M line.
func (s *scn) manualStep(forced *forcedManual) error {
	r := s.r
	all := s.sortedOuts()
	var own, ownStd []*outInfo
	for _, oi := range all {
		if oi.owner == 1 && oi.mined {
			own = append(own, oi)
			if oi.class == 0 && !oi.spent {
				ownStd = append(ownStd, oi)
			}
		}
	}
	var ins []*masswallet.TxIn
	var desc []string
	var totalIn int64
	addOut := func(oi *outInfo) {
		ins = append(ins, &masswallet.TxIn{TxId: oi.op.Hash.String(), Vout: oi.op.Index})
		b := map[bool]int{true: 1, false: 0}
		desc = append(desc, fmt.Sprintf("%d:%d:%d:%d:%d:%d:%d:1:%d", oi.id, oi.val, oi.sh, oi.class, oi.frozen, oi.height, b[oi.mined], b[oi.owner == 1]))
		totalIn += oi.val
	}
	nin := 1 + r.Intn(4)
	clean := r.Chance(62)
	viaAPI := forced == nil && r.Chance(30)
	if forced != nil {
		for i, oi := range forced.ins {
			addOut(oi)
			if forced.respell != 0 && i > 0 {
				ins[len(ins)-1].TxId = respellTxId(nil, forced.respell, ins[len(ins)-1].TxId, false)
			}
		}
		nin = 0
	}
	for i := 0; i < nin; i++ {
		k := r.Intn(100)
		if clean && len(ownStd) > 0 { // distinct spendable coins of the wallet
			oi := ownStd[r.Intn(len(ownStd))]
			dup := false
			for _, in := range ins {
				if in.TxId == oi.op.Hash.String() && in.Vout == oi.op.Index {
					dup = true
				}
			}
			if !dup {
				addOut(oi)
			}
			continue
		}
		switch {
		case k < 62 && len(ownStd) > 0:
			addOut(ownStd[r.Intn(len(ownStd))]) // may repeat an earlier one (duplicate)
		case k < 72 && len(own) > 0:
			addOut(own[r.Intn(len(own))]) // staking / binding / spent / immature ones included
		case k < 78 && len(desc) > 0 && len(ins) > 0: // explicit duplicate, half of them under another spelling of the same id
			j := r.Intn(len(ins))
			ins = append(ins, &masswallet.TxIn{TxId: respellTxId(r, r.Intn(6), ins[j].TxId, viaAPI), Vout: ins[j].Vout})
			desc = append(desc, desc[j])
			if f := strings.Split(desc[j], ":"); len(f) > 1 {
				var v int64
				fmt.Sscan(f[1], &v)
				totalIn += v
			}
		case k < 84: // foreign wallet's coin
			var f []*outInfo
			for _, oi := range all {
				if oi.owner == 2 && oi.mined {
					f = append(f, oi)
				}
			}
			if len(f) > 0 {
				addOut(f[r.Intn(len(f))])
			}
		case k < 88: // pending output of the wallet or of nobody
			if len(s.pending) > 0 {
				tx := s.pending[r.Intn(len(s.pending))]
				th := tx.TxHash()
				vi := r.Intn(len(tx.TxOut) + 1)
				op := wire.OutPoint{Hash: th, Index: uint32(vi)}
				if oi := s.ops[op]; oi != nil {
					addOut(oi)
				} else if vi >= len(tx.TxOut) && viaAPI {
					// the API reports ErrInvalidIndex as "abnormal data": not used through the API
				} else if vi >= len(tx.TxOut) {
					ins = append(ins, &masswallet.TxIn{TxId: th.String(), Vout: uint32(vi)})
					desc = append(desc, "V")
				} else {
					o := tx.TxOut[vi]
					c, sh, par := s.h.TxDest(o.PkScript)
					ins = append(ins, &masswallet.TxIn{TxId: th.String(), Vout: uint32(vi)})
					pi := 0
					for x, ptx := range s.pending {
						if ptx == tx {
							pi = x
						}
					}
					desc = append(desc, fmt.Sprintf("%d:%d:%d:%d:%d:%d:0:1:0", 900000+100*pi+vi, o.Value, sh, c, par, s.h.N.Height()+1))
				}
			}
		case k < 92: // stranger's coin: the wallet has no record
			ins = append(ins, &masswallet.TxIn{TxId: s.faucet[2].Hash.String(), Vout: s.faucet[2].Index})
			desc = append(desc, "U")
		case k < 95: // known transaction, other output index
			if len(own) > 0 {
				oi := own[r.Intn(len(own))]
				op := wire.OutPoint{Hash: oi.op.Hash, Index: oi.op.Index + 1000}
				ins = append(ins, &masswallet.TxIn{TxId: op.Hash.String(), Vout: op.Index})
				desc = append(desc, "U")
			}
		case k < 97:
			ins = append(ins, &masswallet.TxIn{TxId: "zz-not-hex", Vout: 0})
			desc = append(desc, "B")
		default:
			ins = append(ins, &masswallet.TxIn{TxId: strings.Repeat("ab", 32), Vout: 1})
			desc = append(desc, "U")
		}
	}
	if forced == nil && r.Chance(12) {
		for _, in := range ins {
			if len(in.TxId) == 64 && r.Chance(50) {
				in.TxId = respellTxId(r, 1+r.Intn(3), in.TxId, viaAPI)
			}
		}
	}
	if forced == nil && r.Chance(3) {
		ins, desc, totalIn = nil, nil, 0
	}
	if len(ins) == 0 && forced == nil && r.Chance(70) && len(ownStd) > 0 {
		addOut(ownStd[0])
	}
	nrec := []int{1, 1, 2, 2, 3}[r.Intn(5)]
	feeGuess := int64(10 * (154*len(ins) + 63*nrec + 12))
	var tot int64
	switch r.Intn(8) {
	case 0:
		tot = totalIn - feeGuess // no change
	case 1:
		tot = totalIn - feeGuess - 1 - int64(r.Intn(700)) // change smaller than its own cost
	case 2:
		tot = totalIn - feeGuess - 630 - int64(r.Intn(6000)) // dust change
	case 3:
		tot = totalIn + int64(r.Intn(1000)) - 500
	case 4:
		tot = totalIn / 2
	case 5:
		tot = totalIn - feeGuess - 630 - 5880 - int64(r.Intn(3))
	default:
		if totalIn > 0 {
			tot = 1 + int64(r.U64()%uint64(totalIn))
		}
	}
	if tot <= 0 {
		tot = 6000 + int64(r.Intn(10000))
	}
	amounts := split(r, tot, nrec)
	if forced != nil {
		amounts = forced.amounts
		nrec = len(amounts)
	}
	m := map[string]massutil.Amount{}
	var adesc []string
	var recSh []int
	var recAddr []string
	aok := 1
	for i := 0; i < nrec; i++ {
		var a string
		for {
			if r.Chance(20) {
				a = s.ownAddr().Addr
			} else {
				a = randomStrangerAddr(r)
			}
			if _, dup := m[a]; !dup {
				break
			}
		}
		sh, _, _ := s.h.TxAddrSh(a)
		if forced == nil && r.Chance(2) {
			a = fmt.Sprintf("bad-recipient-%d", i)
			sh = 800000 + i
			aok = 0
		}
		m[a] = amt(amounts[i])
		adesc = append(adesc, fmt.Sprintf("%d:%d", sh, amounts[i]))
		recSh = append(recSh, sh)
		recAddr = append(recAddr, a)
	}
	sub := map[string]struct{}{}
	var subd []string
	if forced == nil && r.Chance(40) {
		for i := 0; i < nrec; i++ {
			if r.Chance(55) {
				sub[recAddr[i]] = struct{}{}
				subd = append(subd, fmt.Sprint(recSh[i]))
			}
		}
		if r.Chance(5) {
			sub[s.strangerAddr[0]] = struct{}{}
			subd = append(subd, "700000")
		}
	}
	lock := s.pickLock()
	change, changeSh, changeOK := "", "-", 1
	if forced == nil && r.Chance(40) {
		switch r.Intn(5) {
		case 0:
			change, changeSh, changeOK = "bad-change-address", "0", 0
		case 1:
			change = s.strangerAddr[1]
			sh, _, _ := s.h.TxAddrSh(change)
			changeSh = fmt.Sprint(sh)
		default:
			a := s.ownAddr()
			change, changeSh = a.Addr, fmt.Sprint(a.Sh)
		}
	}
	var hexTx string
	var gotFee massutil.Amount
	var cerr error
	panicked := false
	func() {
		defer func() {
			if e := recover(); e != nil {
				panicked = true
			}
		}()
		if viaAPI && lock < 1<<62 {
			req := &pb.CreateRawTransactionRequest{Amounts: map[string]string{}, LockTime: lock, ChangeAddress: change}
			for _, in := range ins {
				req.Inputs = append(req.Inputs, &pb.TransactionInput{TxId: in.TxId, Vout: in.Vout})
			}
			for a, v := range m {
				req.Amounts[a] = amtStr(v.IntValue())
			}
			for a := range sub {
				req.Subtractfeefrom = append(req.Subtractfeefrom, a)
			}
			var resp *pb.CreateRawTransactionResponse
			resp, cerr = s.srv.CreateRawTransaction(context.Background(), req)
			if cerr == nil {
				hexTx = resp.Hex
				gotFee = s.feeOf(hexTx)
			}
			return
		}
		viaAPI = false
		hexTx, gotFee, cerr = s.h.W.WM.CreateRawTransaction(ins, m, lock, change, sub)
	}()
	obs, tx := s.implObs(hexTx, gotFee, cerr, panicked, viaAPI)
	if viaAPI {
		stats["M_api"]++
	}
	s.step++
	ad := "-"
	if len(adesc) > 0 {
		ad = strings.Join(adesc, ";")
	}
	fmt.Fprintf(s.out, "M\t%d.%d\t%s\t%s|%d|%d|%s|%d|%s\t%s\n", s.n, s.step, csv(desc), ad, aok, lock, changeSh, changeOK, csv(subd), obs)
	stats["M"]++
	stats["M_"+strings.SplitN(obs, "|", 3)[0]+map[bool]string{true: "_" + errTail(obs), false: ""}[strings.HasPrefix(obs, "err")]]++
	if tx != nil {
		for _, in := range tx.TxIn {
			if oi := s.ops[in.PreviousOutPoint]; oi != nil {
				s.reserved = append(s.reserved, oi.id)
			}
		}
		s.drafts = append(s.drafts, tx)
	}
	return nil
}

func runScenario(seed uint64, n int, out *bufio.Writer) (err error) {
	r := rng.New(seed*7000003 + uint64(n)*31 + 2)
	h, err := hist.New(r, nil, n, hist.Options{Games: true}, nil)
	if err != nil {
		return err
	}
	defer h.Close()
	s := &scn{h: h, r: r, n: n, out: out, ops: map[wire.OutPoint]*outInfo{}, shOwner: map[int]int{}}
	profile := 0
	switch {
	case n >= 0 && n <= 5:
		profile = -1 // corpus scenarios, see below
	case n%29 == 3:
		profile = 4
	default:
		profile = []int{0, 0, 1, 1, 2, 3, 3, 5}[r.Intn(8)]
	}
	if profile == -1 {
		return s.corpus(n)
	}
	if err = s.build(profile); err != nil {
		return err
	}
	if s.srv, err = api.NewAPIServer(nil, h.W.WM, func() {}, h.W.Cfg); err != nil {
		return err
	}
	stats["scenarios"]++
	stats[fmt.Sprintf("profile%d", profile)]++
	steps := 1 + r.Intn(4)
	if r.Chance(35) {
		steps += 2 // longer runs of drafts with releases in between
	}
	for i := 0; i < steps; i++ {
		if i > 0 && len(s.drafts) > 0 && r.Chance(35) {
			s.releaseDraft()
		}
		if r.Chance(30) {
			err = s.manualStep(nil)
		} else {
			err = s.autoStep(nil)
		}
		if err != nil {
			return err
		}
	}
	return nil
}

// corpus: the witnesses of coq/Tx/Proofs.v replayed on the real wallet.
//
//	n = 0: C02_exact_iff_refuted — one coin of 100000, request 89999 with user fee 0.
//	n = 1: C02_manual_no_dup_refuted — the same explicit input twice.
//	n = 2, 3, 4: the same explicit input twice, the second time under another spelling of its id
//	             (upper case, mixed case, leading zeros dropped).
func (s *scn) corpus(n int) error {
	h := s.h
	var err error
	if s.w1, err = h.NewWallet(); err != nil {
		return err
	}
	if _, err = h.NewAddress(s.w1, 0); err != nil {
		return err
	}
	s.shOwner[s.w1.Addrs[0].Sh] = 1
	for i := 0; i < 3; i++ {
		s.strangerAddr = append(s.strangerAddr, randomStrangerAddr(s.r))
	}
	stranger := h.Strangers[0]
	if err = s.mine([]sim.Out{{Script: stranger, Value: 1000000000000000}}, nil); err != nil {
		return err
	}
	f := wire.OutPoint{Hash: h.N.Tip().MsgBlock().Transactions[0].TxHash(), Index: 0}
	s.faucet = []wire.OutPoint{f, f, f}
	for i := 0; i < int(sim.Cur.CoinbaseMaturity); i++ {
		if err = s.mine(nil, nil); err != nil {
			return err
		}
	}
	fund := sim.NewTx([]wire.OutPoint{f}, nil, []sim.Out{{Script: h.TxScriptStd(s.w1.Addrs[0]), Value: 100000}, {Script: stranger, Value: 5}}, 0, nil)
	if err = s.mine(nil, []*wire.MsgTx{fund}); err != nil {
		return err
	}
	if _, err = h.W.WM.UseWallet(s.w1.ID); err != nil {
		return err
	}
	stats["scenarios"]++
	if n == 0 {
		return s.autoStep(&forcedAuto{fee: 0, amounts: []int64{89999}})
	}
	var coin *outInfo
	for _, oi := range s.sortedOuts() {
		if oi.owner == 1 {
			coin = oi
		}
	}
	if n == 5 {
		// known finding reservation:shared-coin-freed-by-release: draft D1 (automatic) reserves the coin; draft D2 with
		// the same coin as an EXPLICIT input is admitted (explicit inputs may name reserved coins); D2 is given up
		// (ClearUsedUTXOMark, as the API does when signing or sending fails): the reservation cache is a set, so the
		// coin is free again although D1 is still outstanding, and the next automatic draft takes it.
		if err := s.autoStep(&forcedAuto{fee: 0, amounts: []int64{40000}}); err != nil {
			return err
		}
		if err := s.manualStep(&forcedManual{ins: []*outInfo{coin}, amounts: []int64{50000}}); err != nil {
			return err
		}
		if len(s.drafts) == 2 {
			tx := s.drafts[1]
			s.drafts = s.drafts[:1]
			h.W.WM.ClearUsedUTXOMark(tx)
			// D1 still holds the coin: the reserved list the model is told keeps ONE entry for it
			for i := len(s.reserved) - 1; i >= 0; i-- {
				if s.reserved[i] == coin.id {
					s.reserved = append(s.reserved[:i:i], s.reserved[i+1:]...)
					break
				}
			}
		}
		return s.autoStep(&forcedAuto{fee: 0, amounts: []int64{30000}})
	}
	// n = 1: textually identical; n = 2, 3, 4: the second one under another spelling of the same id
	return s.manualStep(&forcedManual{ins: []*outInfo{coin, coin}, amounts: []int64{150000}, respell: n - 1})
}

func main() {
	count := flag.Int("n", 100, "number of wallet scenarios")
	outPath := flag.String("out", "", "output file")
	workers := flag.Int("j", 12, "parallel worker processes")
	first := flag.Int("first", 0, "index of the first scenario (replay: -worker -first k -n 1)")
	worker := flag.Bool("worker", false, "internal: run sequentially and print to stdout")
	pureMode := flag.Bool("pure", false, "isolated function cases instead of wallet scenarios")
	tier := flag.String("tier", "quick", "quick|thorough (volume of -pure)")
	flag.Parse()
	if *pureMode {
		f := os.Stdout
		if *outPath != "" {
			var err error
			if f, err = os.Create(*outPath); err != nil {
				panic(err)
			}
			defer f.Close()
		}
		w := bufio.NewWriterSize(f, 1<<20)
		fmt.Fprintf(w, "C\t%d\t%d\t%d\t%d\n", blockchain.GetMaxStandardTxSize()/154, massutil.MinRelayTxFee().IntValue(),
			blockchain.GetMaxStandardTxSize(), massutil.MaxAmount().IntValue())
		pure(w, *tier)
		w.Flush()
		printStats()
		return
	}
	if !*worker {
		if err := hist.ParallelSelf(*count, *first, *workers, *outPath, os.Args[1:]); err != nil {
			fmt.Fprintln(os.Stderr, err)
			os.Exit(2)
		}
		return
	}
	sim.Init(sim.Params{CoinbaseMaturity: 4, MinFrozenPeriod: 2, GapLimit: 20})
	seed := rng.Seed()
	w := bufio.NewWriterSize(os.Stdout, 1<<20)
	for i := 0; i < *count; i++ {
		if err := runScenario(seed, *first+i, w); err != nil {
			fmt.Fprintf(w, "X\t%d\tharness-error\t%s\n", *first+i, strings.ReplaceAll(err.Error(), "\t", " "))
		}
	}
	w.Flush()
	printStats()
}

func printStats() {
	var ks []string
	for k := range stats {
		ks = append(ks, k)
	}
	sort.Strings(ks)
	var sb strings.Builder
	sb.WriteString("STATS")
	for _, k := range ks {
		fmt.Fprintf(&sb, " %s=%d", k, stats[k])
	}
	fmt.Fprintln(os.Stderr, sb.String())
}
