// cfdbg: prints the operations of one generated script (debugging aid for c06/c18).
package main

import (
	"flag"
	"fmt"

	"verifharness/internal/cfsim"
	"verifharness/internal/hist"
	"verifharness/internal/rng"
	"verifharness/internal/sim"
)

func main() {
	n := flag.Int("first", 0, "history")
	flag.Parse()
	sim.Init(sim.Params{CoinbaseMaturity: 4, MinFrozenPeriod: 2, GapLimit: 20})
	o := cfsim.GenOptions{Hist: hist.Options{Games: true, Lag: true, MaxReorg: 3}, Import: true, Remove: true, MinSteps: 8, MaxSteps: 26}
	s, err := cfsim.Generate(rng.Seed(), *n, o)
	if err != nil {
		panic(err)
	}
	for i, op := range s.Ops {
		fmt.Printf("%3d %-8v w=%d class=%d blk=%d addr=%s\n", i, op.Kind, op.W, op.Class, op.BlkID, op.Addr)
	}
}
