// c03: SignRawTx / SignHash / ExportWallet / GetMnemonic / CheckPrivPassphrase / Change*Passphrase of
// the REAL wallet (masswallet.WalletManager on LevelDB, through internal/sim + internal/hist) on
// generated histories, for the C03 check. One line per observation, TAB separated:
//
//	W  hist  right-pass(hex)  warmup  pending-height  addrs(b.i,...)       a wallet session starts
//	O  hist  kind  pass(hex)  addr(b.i|-)  hashlen  arg(hex)  impl  obs     one keystore-level operation
//	S  hist  pass(hex)  flag(hex)  nout  inputs  impl  shape  strip  ret  verified  obs  note
//
// inputs (comma separated, one per input): kind:class:frozen:spent:mine:height:seq:witlen with
// kind M (unknown to the wallet) | B (vout beyond the previous transaction) | O (an output the wallet
// finds), class 0 standard 1 staking 2 binding, mine = b.i of the selected wallet's address or -,
// height -1 = pending.
// impl = ok | panic | err:<class>; shape = witness lengths after the call; strip = 1 when the
// witness-stripped serialisation is unchanged; ret = 1 when (ok: the returned bytes are the
// serialisation of the caller's object | not ok: nothing was returned); verified = the property's own
// predicate evaluated independently (own signature-hash computation + btcec verification against the
// address's public key + a fresh mass-core engine per input): "-" when not ok, else 1 or the reason.
// obs = unlocked,masterKeyZero,hashedZero,branchPriv,cachedPrivKeys,saltZero of the selected wallet's manager.
package main

import (
	"bufio"
	"bytes"
	"crypto/sha256"
	"encoding/binary"
	"encoding/hex"
	"flag"
	"fmt"
	"os"
	"sort"
	"strings"

	"github.com/btcsuite/btcd/btcec"
	"github.com/massnetorg/mass-core/consensus"
	"github.com/massnetorg/mass-core/massutil"
	"github.com/massnetorg/mass-core/txscript"
	"github.com/massnetorg/mass-core/wire"
	"massnet.org/mass-wallet/config"
	"massnet.org/mass-wallet/masswallet"
	mwdb "massnet.org/mass-wallet/masswallet/db"
	"massnet.org/mass-wallet/masswallet/keystore"
	"verifharness/internal/hist"
	"verifharness/internal/rng"
	"verifharness/internal/sim"
)

type ainfo struct {
	std  string
	sh   []byte
	pub  *btcec.PublicKey
	b, i uint32
}

type coin struct {
	op     wire.OutPoint
	val    int64
	script []byte
	class  int // 0 std, 1 staking, 2 binding
	frozen uint64
	height int64 // -1 pending
	addr   *ainfo
	wallet int // 0 = selected wallet, 1 = the other wallet of the database
	spent  bool
}

var defaultWarmUp = consensus.MASSIP0002WarmUpHeight

var stats = map[string]int{}

func hx(b []byte) string { return hex.EncodeToString(b) }

func stdScript(sh []byte) []byte {
	s, err := txscript.PayToWitnessScriptHashScript(sh)
	if err != nil {
		panic(err)
	}
	return s
}
func stakingScript(sh []byte, frozen uint64) []byte {
	a, err := massutil.NewAddressStakingScriptHash(sh, config.ChainParams)
	if err != nil {
		panic(err)
	}
	s, err := txscript.PayToStakingAddrScript(a, frozen)
	if err != nil {
		panic(err)
	}
	return s
}
func bindingScript(sh []byte, target []byte) []byte {
	s, err := txscript.PayToBindingScriptHashScript(sh, target)
	if err != nil {
		panic(err)
	}
	return s
}

// sanitize keeps printable ASCII and escapes everything else (error texts go into TAB separated lines)
func sanitize(s string) string {
	var sb strings.Builder
	for i := 0; i < len(s) && i < 300; i++ {
		if c := s[i]; c >= 32 && c < 127 {
			sb.WriteByte(c)
		} else {
			fmt.Fprintf(&sb, "\\x%02x", c)
		}
	}
	return sb.String()
}

func errClass(err error) string {
	switch err {
	case nil:
		return "ok"
	case masswallet.ErrInvalidFlag:
		return "err:invalid-flag"
	case masswallet.ErrUTXONotExists:
		return "err:utxo-not-exists"
	case masswallet.ErrInvalidIndex:
		return "err:invalid-index"
	case masswallet.ErrDoubleSpend:
		return "err:double-spend"
	case masswallet.ErrNoWalletInUse:
		return "err:no-wallet"
	case keystore.ErrUnexpectedPubKeyToSign:
		return "err:not-mine"
	case keystore.ErrInvalidPassphrase:
		return "err:invalid-passphrase"
	case keystore.ErrInvalidDataHash:
		return "err:invalid-data-hash"
	case keystore.ErrAccountNotFound:
		return "err:account-not-found"
	case keystore.ErrBadTimingForChangingPass:
		return "err:bad-timing"
	case keystore.ErrChangePassNotAllowed:
		return "err:change-not-allowed"
	case keystore.ErrIllegalNewPubPass:
		return "err:illegal-new-pubpass"
	case keystore.ErrDeriveMasterPrivKey:
		return "err:derive-master"
	}
	if err.Error() == "unable to decrypt" {
		return "err:decrypt-failed"
	}
	return "err:other:" + sanitize(err.Error())
}

// ---------------------------------------------------------------- independent predicate

func dsha(b []byte) []byte {
	a := sha256.Sum256(b)
	c := sha256.Sum256(a[:])
	return c[:]
}

// sigHash: the witness signature hash of mass-core (BIP-143 layout with 8-byte sequences and lock
// time, the payload before the outputs hash, raw script code), written from the description.
func sigHash(tx *wire.MsgTx, idx int, amt int64, script []byte, ht byte) []byte {
	var le4 [4]byte
	var le8 [8]byte
	zero := make([]byte, 32)
	base := ht & 0x1f
	anyone := ht&0x80 != 0
	var buf bytes.Buffer
	binary.LittleEndian.PutUint32(le4[:], tx.Version)
	buf.Write(le4[:])
	if !anyone {
		var b bytes.Buffer
		for _, in := range tx.TxIn {
			b.Write(in.PreviousOutPoint.Hash[:])
			binary.LittleEndian.PutUint32(le4[:], in.PreviousOutPoint.Index)
			b.Write(le4[:])
		}
		buf.Write(dsha(b.Bytes()))
	} else {
		buf.Write(zero)
	}
	if !anyone && base != 3 && base != 2 {
		var b bytes.Buffer
		for _, in := range tx.TxIn {
			binary.LittleEndian.PutUint64(le8[:], in.Sequence)
			b.Write(le8[:])
		}
		buf.Write(dsha(b.Bytes()))
	} else {
		buf.Write(zero)
	}
	in := tx.TxIn[idx]
	buf.Write(in.PreviousOutPoint.Hash[:])
	binary.LittleEndian.PutUint32(le4[:], in.PreviousOutPoint.Index)
	buf.Write(le4[:])
	buf.Write(script)
	binary.LittleEndian.PutUint64(le8[:], uint64(amt))
	buf.Write(le8[:])
	binary.LittleEndian.PutUint64(le8[:], in.Sequence)
	buf.Write(le8[:])
	buf.Write(tx.Payload)
	ser := func(o *wire.TxOut) []byte {
		var b bytes.Buffer
		binary.LittleEndian.PutUint64(le8[:], uint64(o.Value))
		b.Write(le8[:])
		b.Write(o.PkScript)
		return b.Bytes()
	}
	switch {
	case base != 3 && base != 2:
		var b bytes.Buffer
		for _, o := range tx.TxOut {
			b.Write(ser(o))
		}
		buf.Write(dsha(b.Bytes()))
	case base == 3 && idx < len(tx.TxOut):
		buf.Write(dsha(ser(tx.TxOut[idx])))
	default:
		buf.Write(zero)
	}
	binary.LittleEndian.PutUint64(le8[:], tx.LockTime)
	buf.Write(le8[:])
	binary.LittleEndian.PutUint32(le4[:], uint32(ht))
	buf.Write(le4[:])
	return dsha(buf.Bytes())
}

func redeemOf(pub *btcec.PublicKey) []byte {
	out := []byte{0x51, 0x21}
	out = append(out, pub.SerializeCompressed()...)
	return append(out, 0x51, 0xae)
}

// verifyInput evaluates the property's predicate for one input of a signed transaction.
func verifyInput(tx *wire.MsgTx, i int, c *coin, wantFlag byte, warm uint64, pendingHeight uint64) string {
	w := tx.TxIn[i].Witness
	if len(w) != 2 {
		return fmt.Sprintf("witness-len-%d", len(w))
	}
	red := redeemOf(c.addr.pub)
	if !bytes.Equal(w[1], red) {
		return "redeem-mismatch"
	}
	prog := sha256.Sum256(w[1])
	if !bytes.Equal(prog[:], c.addr.sh) {
		return "program-mismatch"
	}
	// witness[0] is a script: one data push of signature ++ hash type
	if len(w[0]) < 3 || int(w[0][0]) != len(w[0])-1 || w[0][0] > 75 {
		return "signature-push-malformed"
	}
	w0 := w[0][1:]
	ht := w0[len(w0)-1]
	if wantFlag == 0 {
		switch ht {
		case 1, 2, 3, 0x81, 0x82, 0x83:
		default:
			return fmt.Sprintf("hash-type-%d-unsupported", ht)
		}
	} else if ht != wantFlag {
		return fmt.Sprintf("hash-type-%d-want-%d", ht, wantFlag)
	}
	sig, err := btcec.ParseDERSignature(w0[:len(w0)-1], btcec.S256())
	if err != nil {
		return "der:" + err.Error()
	}
	h := sigHash(tx, i, c.val, red, ht)
	if !sig.Verify(h, c.addr.pub) {
		return "ecdsa-verify-failed"
	}
	flags := txscript.StandardVerifyFlags
	height := pendingHeight
	if c.height >= 0 {
		height = uint64(c.height)
	}
	if height >= warm {
		flags |= txscript.ScriptMASSip2
	}
	vm, err := txscript.NewEngine(c.script, tx, i, flags, nil, nil, c.val)
	if err != nil {
		return "engine-new:" + err.Error()
	}
	if err := vm.Execute(); err != nil {
		return "engine:" + err.Error()
	}
	return "1"
}

// ---------------------------------------------------------------- one history

func stripped(tx *wire.MsgTx) []byte {
	c := wire.NewMsgTx()
	c.Version = tx.Version
	c.LockTime = tx.LockTime
	c.Payload = tx.Payload
	for _, in := range tx.TxIn {
		ni := wire.NewTxIn(&wire.OutPoint{Hash: in.PreviousOutPoint.Hash, Index: in.PreviousOutPoint.Index}, nil)
		ni.Sequence = in.Sequence
		c.AddTxIn(ni)
	}
	for _, o := range tx.TxOut {
		c.AddTxOut(wire.NewTxOut(o.Value, o.PkScript))
	}
	b, err := c.Bytes(wire.Packet)
	if err != nil {
		return []byte("serialize-error:" + err.Error())
	}
	return b
}

func shape(tx *wire.MsgTx) string {
	var p []string
	for _, in := range tx.TxIn {
		p = append(p, fmt.Sprint(len(in.Witness)))
	}
	if len(p) == 0 {
		return "-"
	}
	return strings.Join(p, ".")
}

type session struct {
	h       *hist.H
	r       *rng.R
	n       int
	out     *bufio.Writer
	wm      *masswallet.WalletManager
	ks      *keystore.KeystoreManager
	db      mwdb.DB
	id      string
	pass    string
	addrs   []*ainfo
	other   []*ainfo // addresses of the second wallet
	coins   []*coin
	pubpass string
	warm    uint64
}

func (s *session) obs() string {
	am, err := s.ks.GetAddrManagerByAccountID(s.id)
	if err != nil {
		return "no-manager"
	}
	u := am.VerifUnlockState()
	b := func(x bool) int {
		if x {
			return 1
		}
		return 0
	}
	return fmt.Sprintf("%d,%d,%d,%d,%d,%d", b(u.Unlocked), b(u.MasterKeyZero), b(u.HashedZero), b(u.BranchPriv), u.CachedPrivKeys, b(am.VerifSaltZero()))
}

func (s *session) loadAddrs(id string) []*ainfo {
	am, err := s.ks.GetAddrManagerByAccountID(id)
	if err != nil {
		panic(err)
	}
	var l []*ainfo
	for _, ma := range am.ManagedAddresses() {
		_, b, i := ma.VerifPath()
		l = append(l, &ainfo{std: ma.String(), sh: ma.ScriptAddress(), pub: ma.PubKey(), b: b, i: i})
	}
	sort.Slice(l, func(a, b int) bool {
		if l[a].b != l[b].b {
			return l[a].b < l[b].b
		}
		return l[a].i < l[b].i
	})
	return l
}

// candidate passphrases: the right one, near misses, and unrelated strings
func (s *session) pickPass() (string, bool) {
	r := s.r
	if r.Chance(45) {
		return s.pass, true
	}
	p := []byte(s.pass)
	var q string
	switch r.Intn(11) {
	case 10: // the passphrase followed by zero bytes (scrypt's HMAC zero-pads short keys)
		q = s.pass + strings.Repeat("\x00", 1+r.Intn(3))
	case 0: // one character changed
		k := r.Intn(len(p))
		c := append([]byte{}, p...)
		c[k] ^= 1
		q = string(c)
	case 1: // proper prefix
		q = string(p[:len(p)-1-r.Intn(3)])
	case 2: // proper suffix
		q = string(p[1+r.Intn(3):])
	case 3: // extended
		q = s.pass + string(r.Pick("aZ0@"))
	case 4: // case flipped
		q = strings.ToUpper(s.pass)
		if q == s.pass {
			q = strings.ToLower(s.pass)
		}
	case 5:
		q = ""
	case 6:
		q = strings.Repeat(s.pass, 8)
	case 7:
		q = string(r.Bytes(1 + r.Intn(20)))
	case 8:
		q = s.pubpass
	default:
		q = "passW2@verif"
		if s.h.Wallets[0].Pass == q {
			q = "passW1@verif"
		}
	}
	if q == s.pass {
		q = s.pass + "x"
	}
	return q, false
}

func (s *session) emitO(kind, pass string, a *ainfo, hashlen int, arg string, err error, panicked bool) {
	impl := errClass(err)
	if panicked {
		impl = "panic"
	}
	as := "-"
	if a != nil {
		as = fmt.Sprintf("%d.%d", a.b, a.i)
	}
	fmt.Fprintf(s.out, "O\t%d\t%s\t%s\t%s\t%d\t%s\t%s\t%s\n", s.n, kind, hx([]byte(pass)), as, hashlen, hx([]byte(arg)), impl, s.obs())
	stats["op_"+kind]++
}

func guard(f func() error) (err error, panicked bool) {
	defer func() {
		if e := recover(); e != nil {
			panicked = true
			err = fmt.Errorf("panic: %v", e)
		}
	}()
	return f(), false
}

// one keystore-level operation with a candidate passphrase
func (s *session) randomOp() {
	r := s.r
	pass, _ := s.pickPass()
	switch k := r.Intn(100); {
	case k < 30:
		a := s.addrs[r.Intn(len(s.addrs))]
		hl := 32
		if r.Chance(8) {
			hl = []int{0, 31, 33, 64}[r.Intn(4)]
		}
		pub := a.pub
		var ai *ainfo = a
		if r.Chance(6) { // a key no keystore holds
			priv, _ := btcec.PrivKeyFromBytes(btcec.S256(), r.Bytes(32))
			pub = priv.PubKey()
			ai = &ainfo{b: 9, i: 9}
		}
		hash := r.Bytes(hl)
		err, p := guard(func() error { _, e := s.wm.SignHash(pub, hash, []byte(pass)); return e })
		s.emitO("sh", pass, ai, hl, "", err, p)
	case k < 48:
		err, p := guard(func() error { _, e := s.wm.ExportWallet(s.id, pass); return e })
		s.emitO("ex", pass, nil, 0, "", err, p)
	case k < 66:
		err, p := guard(func() error { _, _, e := s.wm.GetMnemonic(s.id, pass); return e })
		s.emitO("mn", pass, nil, 0, "", err, p)
	case k < 80:
		err, p := guard(func() error { return s.ks.CheckPrivPassphrase(s.id, []byte(pass)) })
		s.emitO("ck", pass, nil, 0, "", err, p)
	case k < 86:
		np := "newPriv" + fmt.Sprint(r.Intn(1000)) + "@x"
		err, p := guard(func() error { return s.wm.ChangePrivPassphrase(pass, np) })
		if err == nil || err == keystore.ErrBadTimingForChangingPass || err == keystore.ErrChangePassNotAllowed || p {
			s.emitO("cp", pass, nil, 0, np, err, p)
		}
	case k < 92:
		// new public passphrase: the candidate when it is a legal passphrase, else a fresh legal one
		np := pass
		// (not another wallet's private passphrase: ChangePubPassphrase checks every manager)
		if !keystore.ValidatePassphrase([]byte(np)) || np == s.pubpass || (np != s.pass && strings.HasPrefix(np, "passW")) {
			np = "newPub" + fmt.Sprint(r.Intn(100000)) + "@y"
		}
		old := s.pubpass
		err, p := guard(func() error {
			return mwdb.Update(s.db, func(tx mwdb.DBTransaction) error {
				return s.ks.ChangePubPassphrase(tx, []byte(old), []byte(np), nil)
			})
		})
		if err == nil {
			s.pubpass = np
		}
		s.emitO("cu", np, nil, 0, "", err, p)
	default:
		s.ks.ClearPrivKey()
		s.emitO("cl", "", nil, 0, "", nil, false)
	}
}

var flagStrings = []string{"ALL", "NONE", "SINGLE", "ALL|ANYONECANPAY", "NONE|ANYONECANPAY", "SINGLE|ANYONECANPAY"}
var flagBytes = map[string]byte{"ALL": 1, "NONE": 2, "SINGLE": 3, "ALL|ANYONECANPAY": 0x81, "NONE|ANYONECANPAY": 0x82, "SINGLE|ANYONECANPAY": 0x83}
var badFlags = []string{"", "all", "ALL|", "SINGLE|ANYONECANPAY ", "ANYONECANPAY", "ALL|NONE", "1"}

func (s *session) signCase() {
	r := s.r
	h := s.h
	pendingHeight := h.N.Height() + 1
	if sy, err := s.wm.SyncedTo(); err == nil {
		pendingHeight = sy + 1
	}
	nin := 1 + r.Intn(6)
	if r.Chance(3) {
		nin = 0
	}
	type inp struct {
		c    *coin
		kind byte
		op   wire.OutPoint
		seq  uint64
	}
	var ins []inp
	used := map[wire.OutPoint]bool{}
	clean := r.Chance(70) // only own, unspent coins with the right sequences
	lock := uint64(0)
	if r.Chance(30) {
		lock = uint64(1 + r.Intn(1000))
	}
	for tries := 0; len(ins) < nin && tries < 200; tries++ {
		if !clean && r.Chance(12) {
			// an outpoint the wallet has never seen
			var hsh wire.Hash
			copy(hsh[:], r.Bytes(32))
			ins = append(ins, inp{kind: 'M', op: wire.OutPoint{Hash: hsh, Index: uint32(r.Intn(3))}, seq: wire.MaxTxInSequenceNum})
			continue
		}
		c := s.coins[r.Intn(len(s.coins))]
		if used[c.op] {
			continue
		}
		if clean && (c.wallet != 0 || c.spent) {
			continue
		}
		used[c.op] = true
		in := inp{c: c, kind: 'O', op: c.op, seq: wire.MaxTxInSequenceNum}
		if lock != 0 {
			in.seq = wire.MaxTxInSequenceNum - 1
		}
		height := pendingHeight
		if c.height >= 0 {
			height = uint64(c.height)
		}
		switch c.class {
		case 1:
			in.seq = c.frozen + 1
			if !clean && r.Chance(25) {
				in.seq = []uint64{c.frozen, 0, wire.MaxTxInSequenceNum, c.frozen + 2 + uint64(r.Intn(5))}[r.Intn(4)]
			}
		case 2:
			if height >= s.warm {
				in.seq = consensus.MASSIP0002BindingLockedPeriod
				if !clean && r.Chance(25) {
					in.seq = []uint64{0, wire.MaxTxInSequenceNum, consensus.MASSIP0002BindingLockedPeriod - 1, consensus.MASSIP0002BindingLockedPeriod + 1}[r.Intn(4)]
				}
			}
		}
		if c.wallet != 0 && c.height >= 0 && !c.spent {
			in.kind = 'M' // an unspent confirmed coin of another wallet: existsOutPoint fails
		}
		if !clean && c.height < 0 && r.Chance(10) {
			// vout beyond the outputs of a pending previous transaction
			in.kind = 'B'
			in.op.Index = 50 + uint32(r.Intn(5))
		}
		ins = append(ins, in)
	}
	nout := r.Intn(5)
	if clean && r.Chance(60) && nout < len(ins) {
		nout = len(ins) + r.Intn(2)
	}
	var ops []wire.OutPoint
	var seqs []uint64
	for _, in := range ins {
		ops = append(ops, in.op)
		seqs = append(seqs, in.seq)
	}
	var outs []sim.Out
	for i := 0; i < nout; i++ {
		a := s.addrs[r.Intn(len(s.addrs))]
		outs = append(outs, sim.Out{Script: stdScript(a.sh), Value: int64(1+r.Intn(1000)) * 1000})
	}
	var payload []byte
	if r.Chance(40) {
		payload = r.Bytes(1 + r.Intn(40))
	}
	tx := sim.NewTx(ops, seqs, outs, lock, payload)
	fl := flagStrings[r.Intn(len(flagStrings))]
	if !clean && r.Chance(8) {
		fl = badFlags[r.Intn(len(badFlags))]
	}
	pass, right := s.pickPass()
	// a few keystore operations first, so that the manager is in an arbitrary reachable state
	for k := r.Intn(3); k > 0; k-- {
		s.randomOp()
	}
	// call runs SignRawTx on tx (which may already carry witnesses) and emits the S line
	call := func(tx *wire.MsgTx, fl, pass string, right bool, tag string, wantFlag byte) (bool, []byte) {
		// witnesses before the call: "0" none, "v<hash type>" a witness an earlier successful call left
		var wdesc []string
		var wbefore [][]byte
		for _, in := range tx.TxIn {
			d := "0"
			if len(in.Witness) == 2 && len(in.Witness[0]) > 2 {
				d = fmt.Sprintf("v%d", in.Witness[0][len(in.Witness[0])-1])
			}
			wdesc = append(wdesc, d)
			wbefore = append(wbefore, bytes.Join(in.Witness, []byte{0xff, 0x00, 0xff}))
		}
		before := stripped(tx)
		var ret []byte
		err, panicked := guard(func() error {
			b, e := s.wm.SignRawTx([]byte(pass), fl, tx)
			ret = b
			return e
		})
		impl := errClass(err)
		if panicked {
			impl = "panic"
		}
		if strings.HasPrefix(impl, "err:other:") {
			impl = "err:engine:" + impl[len("err:other:"):]
		}
		after := stripped(tx)
		stripEq := "0"
		if bytes.Equal(before, after) {
			stripEq = "1"
		}
		witSame := 1
		for i, in := range tx.TxIn {
			if !bytes.Equal(wbefore[i], bytes.Join(in.Witness, []byte{0xff, 0x00, 0xff})) {
				witSame = 0
			}
		}
		retOK := "0"
		if err == nil && !panicked {
			if cur, e := tx.Bytes(wire.Packet); e == nil && bytes.Equal(cur, ret) {
				retOK = "1"
			}
		} else if ret == nil {
			retOK = "1"
		}
		verified := "-"
		if err == nil && !panicked {
			verified = "1"
			for i, in := range ins {
				if in.c == nil || in.kind != 'O' {
					verified = fmt.Sprintf("input-%d-not-a-wallet-coin", i)
					break
				}
				if v := verifyInput(tx, i, in.c, wantFlag, s.warm, pendingHeight); v != "1" {
					verified = fmt.Sprintf("input-%d:%s", i, strings.ReplaceAll(v, "\t", " "))
					break
				}
			}
		}
		var desc []string
		pend, cls := 0, map[int]bool{}
		for i, in := range ins {
			if in.c == nil || in.kind == 'M' {
				desc = append(desc, fmt.Sprintf("M:0:0:0:-:0:%d:%s", in.seq, wdesc[i]))
				continue
			}
			c := in.c
			mine := "-"
			if c.wallet == 0 {
				mine = fmt.Sprintf("%d.%d", c.addr.b, c.addr.i)
			}
			sp := 0
			if c.spent {
				sp = 1
			}
			if c.height < 0 {
				pend++
			}
			cls[c.class] = true
			desc = append(desc, fmt.Sprintf("%c:%d:%d:%d:%s:%d:%d:%s", in.kind, c.class, c.frozen, sp, mine, c.height, in.seq, wdesc[i]))
		}
		ds := strings.Join(desc, ",")
		if ds == "" {
			ds = "-"
		}
		note := "mixed"
		if clean {
			note = "clean"
		}
		fmt.Fprintf(s.out, "S\t%d\t%s\t%s\t%d\t%s\t%s\t%s\t%s\t%s\t%s\t%s\t%s;pend=%d;right=%v;lock=%d;payload=%d;witsame=%d;%s\n", s.n, hx([]byte(pass)), hx([]byte(fl)), nout, ds,
			impl, shape(tx), stripEq, retOK, verified, s.obs(), note, pend, right, lock, len(payload), witSame, tag)
		stats["sign"]++
		stats["sign_"+tag]++
		stats["flag_"+strings.ReplaceAll(strings.ReplaceAll(fl, "|", "_"), " ", "_")]++
		if pend > 0 {
			stats["sign_with_pending_input"]++
		}
		for c := range cls {
			stats[fmt.Sprintf("sign_class%d", c)]++
		}
		if right {
			stats["sign_right_pass"]++
		}
		if impl == "ok" {
			stats["sign_ok"]++
		}
		return err == nil && !panicked, ret
	}
	ok, ret := call(tx, fl, pass, right, "first", flagBytes[fl])
	if !ok || len(ins) == 0 || !r.Chance(75) {
		return
	}
	// the transaction is completely signed now: sign it AGAIN — the same object, the re-decoded
	// bytes, and partially signed variants — with wrong / near-miss / empty and right passphrases
	wrongPass := func() string {
		for t := 0; t < 20; t++ {
			if q, rt := s.pickPass(); !rt {
				return q
			}
		}
		return s.pass + "x"
	}
	decode := func() *wire.MsgTx {
		t2 := wire.NewMsgTx()
		if err := t2.SetBytes(ret, wire.Packet); err != nil {
			return nil
		}
		return t2
	}
	anyFlag := func() string { return flagStrings[r.Intn(len(flagStrings))] }
	switch r.Intn(4) {
	case 0:
		call(tx, anyFlag(), wrongPass(), false, "resign_same_object", 0)
	case 1:
		if t2 := decode(); t2 != nil {
			q, rt := s.pickPass()
			if r.Chance(60) {
				q, rt = wrongPass(), false
			}
			f2 := fl
			if !rt {
				f2 = anyFlag()
			}
			call(t2, f2, q, rt, "resign_decoded", 0)
		}
	case 2:
		if t2 := decode(); t2 != nil {
			if r.Chance(50) {
				call(t2, anyFlag(), "", false, "resign_empty_pass", 0)
			} else {
				call(t2, anyFlag(), s.pass+"\x00", false, "resign_nul_pass", 0)
			}
		}
	default:
		if t2 := decode(); t2 != nil {
			k := r.Intn(len(t2.TxIn))
			for i, in := range t2.TxIn {
				if i == k || r.Chance(40) {
					in.Witness = nil
				}
			}
			q, rt := wrongPass(), false
			f2 := anyFlag()
			if r.Chance(30) {
				q, rt, f2 = s.pass, true, fl
			}
			call(t2, f2, q, rt, "resign_partial", 0)
		}
	}
}

func runOne(seed uint64, n int, out *bufio.Writer) error {
	r := rng.New(seed*7919 + uint64(n)*104729 + 3)
	// every third history runs with the MASSIP0002 warm-up height lowered, so that binding
	// outputs confirmed at or above it (and pending ones) need the locked-period sequence
	warm := defaultWarmUp
	if n%3 == 1 {
		warm = uint64(3 + r.Intn(4))
	}
	consensus.MASSIP0002WarmUpHeight = warm
	defer func() { consensus.MASSIP0002WarmUpHeight = defaultWarmUp }()
	h, err := hist.New(r, nil, n, hist.Options{}, nil)
	if err != nil {
		return err
	}
	defer h.Close()
	s := &session{h: h, r: r, n: n, out: out, wm: h.W.WM, pubpass: sim.PubPass, warm: warm}
	_, _, _, s.ks, s.db = h.W.WM.VerifStores()
	w1, err := h.NewWallet()
	if err != nil {
		return err
	}
	w2, err := h.NewWallet()
	if err != nil {
		return err
	}
	s.id, s.pass = w1.ID, w1.Pass
	for j, na := 0, 2+r.Intn(4); j < na; j++ {
		if _, err := h.NewAddress(w1, uint16(r.Intn(2))); err != nil {
			return err
		}
	}
	if _, err := h.NewAddress(w2, 0); err != nil {
		return err
	}
	s.addrs = s.loadAddrs(w1.ID)
	s.other = s.loadAddrs(w2.ID)
	if _, err := h.W.WM.UseWallet(w1.ID); err != nil {
		return err
	}
	// blocks whose coinbases pay the two wallets: standard, staking, (old style) binding outputs
	mkOuts := func(k int) ([]sim.Out, []*coin) {
		var outs []sim.Out
		var cs []*coin
		for j := 0; j < k; j++ {
			wal, a := 0, s.addrs[r.Intn(len(s.addrs))]
			if r.Chance(12) {
				wal, a = 1, s.other[r.Intn(len(s.other))]
			}
			c := &coin{val: int64(1+r.Intn(900)) * 100000, addr: a, wallet: wal}
			switch r.Intn(4) {
			case 0:
				c.class, c.frozen = 1, uint64(2+r.Intn(4))
				c.script = stakingScript(a.sh, c.frozen)
			case 1:
				c.class = 2
				c.script = bindingScript(a.sh, r.Bytes(20))
			default:
				c.script = stdScript(a.sh)
			}
			outs = append(outs, sim.Out{Script: c.script, Value: c.val})
			cs = append(cs, c)
		}
		return outs, cs
	}
	attach := func(cb []sim.Out, txs []*wire.MsgTx) (*massutil.Block, error) {
		b := h.N.MakeBlock(h.N.Tip(), cb, txs)
		if err := h.Attach(b); err != nil {
			return nil, err
		}
		h.Process(b)
		if h.Stale {
			return nil, fmt.Errorf("the wallet did not accept block %d", b.Height())
		}
		return b, nil
	}
	nblk := 2 + r.Intn(3)
	for k := 0; k < nblk; k++ {
		outs, cs := mkOuts(2 + r.Intn(4))
		b, err := attach(outs, nil)
		if err != nil {
			return err
		}
		th := b.MsgBlock().Transactions[0].TxHash()
		for j, c := range cs {
			c.op = wire.OutPoint{Hash: th, Index: uint32(j)}
			c.height = int64(b.Height())
			s.coins = append(s.coins, c)
		}
	}
	for k := 0; k < 3+r.Intn(3); k++ {
		if _, err := attach(nil, nil); err != nil {
			return err
		}
	}
	// one confirmed spend (its input becomes a spent coin, its outputs new confirmed coins)
	pickOwn := func() *coin {
		for t := 0; t < 50; t++ {
			c := s.coins[r.Intn(len(s.coins))]
			if c.wallet == 0 && !c.spent && c.class == 0 && c.height >= 0 {
				return c
			}
		}
		return nil
	}
	if c := pickOwn(); c != nil {
		outs, cs := mkOuts(1 + r.Intn(3))
		tx := sim.NewTx([]wire.OutPoint{c.op}, nil, outs, 0, nil)
		b, err := attach(nil, []*wire.MsgTx{tx})
		if err != nil {
			return err
		}
		c.spent = true
		th := tx.TxHash()
		for j, nc := range cs {
			nc.op = wire.OutPoint{Hash: th, Index: uint32(j)}
			nc.height = int64(b.Height())
			s.coins = append(s.coins, nc)
		}
	}
	// pending transactions paying the wallets (delivered as the node's mempool would)
	for k := 0; k < 1+r.Intn(2); k++ {
		c := pickOwn()
		if c == nil {
			break
		}
		outs, cs := mkOuts(1 + r.Intn(3))
		tx := sim.NewTx([]wire.OutPoint{c.op}, nil, outs, 0, nil)
		rel, err := h.W.H.VerifReceiveTx(tx)
		if err != nil || !rel {
			return fmt.Errorf("pending transaction not accepted: %v %v", rel, err)
		}
		// the spent coin stays "unspent, spent by unmined" for the wallet; do not reuse it here
		c.spent = true
		c.wallet = 2 // excluded from generation: C09 covers coins spent by pending transactions
		th := tx.TxHash()
		for j, nc := range cs {
			nc.op = wire.OutPoint{Hash: th, Index: uint32(j)}
			nc.height = -1
			s.coins = append(s.coins, nc)
		}
	}
	var live []*coin
	for _, c := range s.coins {
		if c.wallet != 2 {
			live = append(live, c)
		}
	}
	s.coins = live
	pendingHeight := h.N.Height() + 1
	var as []string
	for _, a := range s.addrs {
		as = append(as, fmt.Sprintf("%d.%d", a.b, a.i))
	}
	fmt.Fprintf(out, "W\t%d\t%s\t%d\t%d\t%s\n", n, hx([]byte(s.pass)), warm, pendingHeight, strings.Join(as, ","))
	// a fixed opening (the shapes of the recorded findings): sign (stays unlocked), a wrong attempt
	// with the empty passphrase, export, reveal, removal check, reveal, lock
	{
		a := s.addrs[0]
		step := func(kind, pass string) {
			var err error
			var p bool
			hl := 0
			var ai *ainfo
			switch kind {
			case "sh":
				hl, ai = 32, a
				hash := r.Bytes(32)
				err, p = guard(func() error { _, e := s.wm.SignHash(a.pub, hash, []byte(pass)); return e })
			case "ex":
				err, p = guard(func() error { _, e := s.wm.ExportWallet(s.id, pass); return e })
			case "mn":
				err, p = guard(func() error { _, _, e := s.wm.GetMnemonic(s.id, pass); return e })
			case "ck":
				err, p = guard(func() error { return s.ks.CheckPrivPassphrase(s.id, []byte(pass)) })
			}
			s.emitO(kind, pass, ai, hl, "", err, p)
		}
		step("sh", s.pass)
		step("mn", "")
		step("ex", s.pass)
		step("mn", s.pass)
		step("ck", s.pass)
		step("mn", s.pass)
		s.ks.ClearPrivKey()
		s.emitO("cl", "", nil, 0, "", nil, false)
		step("mn", s.pass+"\x00")
	}
	ncase := 10 + r.Intn(8)
	for k := 0; k < ncase; k++ {
		if r.Chance(35) {
			s.randomOp()
		}
		s.signCase()
	}
	stats["histories"]++
	return nil
}

func main() {
	count := flag.Int("n", 40, "number of histories")
	outPath := flag.String("out", "", "output file")
	workers := flag.Int("j", 8, "parallel worker processes")
	first := flag.Int("first", 0, "index of the first history")
	worker := flag.Bool("worker", false, "internal: run sequentially and print to stdout")
	flag.Parse()
	if !*worker {
		if err := hist.ParallelSelf(*count, *first, *workers, *outPath, os.Args[1:]); err != nil {
			fmt.Fprintln(os.Stderr, err)
			os.Exit(2)
		}
		return
	}
	sim.Init(sim.Params{CoinbaseMaturity: 2, MinFrozenPeriod: 2, GapLimit: 20})
	seed := rng.Seed()
	w := bufio.NewWriter(os.Stdout)
	for i := 0; i < *count; i++ {
		var buf bytes.Buffer
		bw := bufio.NewWriter(&buf)
		err := runOne(seed, *first+i, bw)
		bw.Flush()
		w.Write(buf.Bytes())
		if err != nil {
			fmt.Fprintf(w, "X\t%d\tharness-error %s\n", *first+i, strings.ReplaceAll(err.Error(), "\n", " "))
		}
	}
	w.Flush()
	keys := make([]string, 0, len(stats))
	for k := range stats {
		keys = append(keys, k)
	}
	sort.Strings(keys)
	var sb strings.Builder
	for _, k := range keys {
		fmt.Fprintf(&sb, "%s=%d ", k, stats[k])
	}
	fmt.Fprintln(os.Stderr, "STATS "+sb.String())
}
