package main

import (
	"fmt"
	"os"
	"time"

	"github.com/massnetorg/mass-core/massutil"
	"github.com/massnetorg/mass-core/txscript"
	"github.com/massnetorg/mass-core/wire"
	"massnet.org/mass-wallet/config"
	"verifharness/internal/sim"
)

func must(err error) {
	if err != nil {
		panic(err)
	}
}

func script(addr string) []byte {
	a, err := massutil.DecodeAddress(addr, config.ChainParams)
	must(err)
	s, err := txscript.PayToAddrScript(a)
	must(err)
	return s
}

func main() {
	sim.Init(sim.Params{CoinbaseMaturity: 4, MinFrozenPeriod: 3, GapLimit: 20})
	t0 := time.Now()
	dir, _ := os.MkdirTemp("", "simsmoke")
	defer os.RemoveAll(dir)
	n, err := sim.NewNode(dir)
	must(err)
	w, err := sim.OpenWallet(n, dir, nil, true)
	must(err)
	id, _, _, err := w.WM.CreateWallet("passphrase1", "", 128)
	must(err)
	_, err = w.WM.UseWallet(id)
	must(err)
	a1, err := w.WM.NewAddress(0)
	must(err)
	fmt.Println("wallet", id, "addr", a1, time.Since(t0))
	// block 1: coinbase pays a1 5 MASS
	b1 := n.MakeBlock(n.Tip(), []sim.Out{{script(a1), 500000000}}, nil)
	must(n.Attach(b1))
	w.Notify(b1)
	fmt.Printf("%+v\n", w.Observe(id))
	// blocks 2..6 empty
	for i := 0; i < 5; i++ {
		b := n.MakeBlock(n.Tip(), nil, nil)
		must(n.Attach(b))
		w.Notify(b)
	}
	fmt.Printf("%+v\n", w.Observe(id))
	// spend coinbase to a1 (3) + stranger
	cb := b1.MsgBlock().Transactions[0].TxHash()
	tx := sim.NewTx([]wire.OutPoint{{Hash: cb, Index: 0}}, nil, []sim.Out{{script(a1), 300000000}}, 0, nil)
	b7 := n.MakeBlock(n.Tip(), nil, []*wire.MsgTx{tx})
	must(n.Attach(b7))
	w.Notify(b7)
	fmt.Printf("%+v\n", w.Observe(id))
	// deep reorg announced only by its tip: drop 7,6,5 and build 5',6',7',8'
	for i := 0; i < 3; i++ {
		_, err = n.Detach()
		must(err)
	}
	var last *massutil.Block
	for i := 0; i < 4; i++ {
		last = n.MakeBlock(n.Tip(), nil, nil)
		must(n.Attach(last))
	}
	w.Notify(last)
	fmt.Printf("%+v\n", w.Observe(id))
	w.Stop()
	fmt.Println("total", time.Since(t0))
}
