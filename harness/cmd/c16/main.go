// c16: output-script classification. For every generated script the REAL functions are
// run, each under recover(), and one line of projected observations is printed:
//
//	S <kind> <script hex> <P> <X> <C> <A> <O> <Z>
//	  P  utils.ParsePkScript          ok|class|addrclass|maturity|std|second  /  err|unsup  /  err|other  /  panic|<cat>
//	  X  api.extractAddressInfos      ok|class|reqsigs|recipient|staking|bindaddr|bindtype|bindsize  /  err  /  panic|<cat>
//	  C  txscript.GetScriptClass      class number                                   (consensus-side oracle)
//	  A  txscript.ExtractPkScriptAddrs ok|class|reqsigs|addr,addr…  /  err  /  panic|<cat>   (consensus-side oracle)
//	  O  btcec.ParsePubKey verdicts for every 33/65-byte push of the script: hex=0|1,…   (oracle table for the model)
//	  Z  address strings: wallet's StdEncodeAddress/SecondEncodeAddress and the consensus addresses' EncodeAddress
//	addresses are printed as the data they encode: w<ext>:<program hex>  pkh:<hex>  bt:<hex>  pk:<hex>  - (none)
//
//	BW <address data> <R> <P>   masswallet.PayToWitnessV0Address + amountToTxOut on the encoded address, read back
//	BK <address data> <period> <R> <P>   masswallet.constructStakingTxOut (uint32 period), read back
//	BL <address data> <period> <R> <P>   txscript.PayToStakingAddrScript (uint64 period), read back
//	BB <hash hex> <target hex> <R> <P> <tv>   txscript.PayToBindingScriptHashScript as EstimateBindingTxFee calls it; tv = the
//	                                           target is constructible as a massutil address
//	  R  ok|<script hex>  /  err  /  panic|<cat>
//	K <name> <value>            compiled constants the model restates
package main

import (
	"bufio"
	"bytes"
	"encoding/binary"
	"encoding/hex"
	"flag"
	"fmt"
	"os"
	"runtime/debug"
	"sort"
	"strconv"
	"strings"

	"github.com/btcsuite/btcd/btcec"
	"github.com/massnetorg/mass-core/consensus"
	"github.com/massnetorg/mass-core/logging"
	"github.com/massnetorg/mass-core/massutil"
	"github.com/massnetorg/mass-core/txscript"
	"github.com/massnetorg/mass-core/wire"
	"massnet.org/mass-wallet/api"
	"massnet.org/mass-wallet/config"
	"massnet.org/mass-wallet/masswallet"
	"massnet.org/mass-wallet/masswallet/utils"
	"verifharness/internal/rng"
)

var out *bufio.Writer
var dist = map[string]int{}
var seen = map[string]struct{}{}

var verbose bool

func panicCat(e interface{}) string {
	m := fmt.Sprint(e)
	if verbose {
		fmt.Fprintf(os.Stderr, "panic: %s\n%s\n", m, debug.Stack())
	}
	switch {
	case strings.Contains(m, "index out of range"):
		return "panic|index"
	case strings.Contains(m, "nil pointer dereference"):
		return "panic|nil"
	case strings.Contains(m, "slice bounds out of range"):
		return "panic|slice"
	}
	return "panic|other"
}

// the data an address encodes
func addrData(a massutil.Address) string {
	switch t := a.(type) {
	case nil:
		return "-"
	case *massutil.AddressWitnessScriptHash:
		if t == nil {
			return "nilptr"
		}
		return fmt.Sprintf("w%d:%x", t.WitnessExtendVersion(), t.WitnessProgram())
	case *massutil.AddressPubKeyHash:
		if t == nil {
			return "nilptr"
		}
		return fmt.Sprintf("pkh:%x", t.ScriptAddress())
	case *massutil.AddressBindingTarget:
		if t == nil {
			return "nilptr"
		}
		return fmt.Sprintf("bt:%x", t.ScriptAddress())
	case *massutil.AddressPubKey:
		if t == nil {
			return "nilptr"
		}
		return fmt.Sprintf("pk:%x", t.ScriptAddress())
	}
	return "unknown"
}

// an address string back to its data; "?…" when it does not decode or does not re-encode to itself
func strData(s string) string {
	if s == "" {
		return "-"
	}
	a, err := massutil.DecodeAddress(s, config.ChainParams)
	if err != nil {
		return "?" + s
	}
	if a.EncodeAddress() != s {
		return "?reenc:" + s
	}
	return addrData(a)
}

// address data (as printed) to an address object; nil when the constructors refuse
func dataAddr(d string) massutil.Address {
	i := strings.IndexByte(d, ':')
	if i < 0 {
		return nil
	}
	b, err := hex.DecodeString(d[i+1:])
	if err != nil {
		return nil
	}
	switch d[:i] {
	case "w0":
		if a, err := massutil.NewAddressWitnessScriptHash(b, config.ChainParams); err == nil {
			return a
		}
	case "w1":
		if a, err := massutil.NewAddressStakingScriptHash(b, config.ChainParams); err == nil {
			return a
		}
	case "pkh":
		if a, err := massutil.NewAddressPubKeyHash(b, config.ChainParams); err == nil {
			return a
		}
	case "bt":
		if a, err := massutil.NewAddressBindingTarget(b, config.ChainParams); err == nil {
			return a
		}
	}
	return nil
}

func obsParse(script []byte) (p string, z string) {
	p, z = "", "-"
	func() {
		defer func() {
			if e := recover(); e != nil {
				p = panicCat(e)
			}
		}()
		ps, err := utils.ParsePkScript(script, config.ChainParams)
		if err != nil {
			if err == utils.ErrUnsupportedScript {
				p = "err|unsup"
			} else {
				p = "err|other"
			}
			return
		}
		std := ps.StdAddress()
		second := ps.SecondAddress()
		flags := ""
		// the accessors must agree with the address objects and the class
		if !bytes.Equal(ps.StdScriptAddress(), std.ScriptAddress()) || ps.StdEncodeAddress() != std.EncodeAddress() {
			flags += "!stdacc"
		}
		if ps.IsStaking() != (ps.ScriptClass() == txscript.StakingScriptHashTy) || ps.IsBinding() != (ps.ScriptClass() == txscript.BindingScriptHashTy) {
			flags += "!isflags"
		}
		secEnc := ""
		if ps.IsStaking() || ps.IsBinding() { // SecondXxx are documented to panic for standard scripts
			if !bytes.Equal(ps.SecondScriptAddress(), second.ScriptAddress()) || ps.SecondEncodeAddress() != second.EncodeAddress() {
				flags += "!secacc"
			}
			secEnc = ps.SecondEncodeAddress()
		}
		p = fmt.Sprintf("ok|%d|%d|%d|%s|%s%s", ps.ScriptClass(), ps.AddressClass(), ps.Maturity(), addrData(std), addrData(second), flags)
		z = "std=" + ps.StdEncodeAddress() + ";second=" + secEnc
	}()
	return
}

func obsExtract(script []byte) (x string) {
	defer func() {
		if e := recover(); e != nil {
			x = panicCat(e)
		}
	}()
	class, recipient, staking, binding, reqSigs, err := api.VerifExtractAddressInfos(script)
	if err != nil {
		return "err"
	}
	ba, bt, bs := "-", "-", "-"
	if binding != "" {
		parts := strings.Split(binding, ":")
		if len(parts) == 3 {
			ba, bt, bs = strData(parts[0]), parts[1], parts[2]
		} else {
			ba = "?" + binding
		}
	}
	return fmt.Sprintf("ok|%d|%d|%s|%s|%s|%s|%s", class, reqSigs, strData(recipient), strData(staking), ba, bt, bs)
}

func obsClass(script []byte) (c string) {
	defer func() {
		if e := recover(); e != nil {
			c = panicCat(e)
		}
	}()
	return strconv.Itoa(int(txscript.GetScriptClass(script)))
}

func obsAddrs(script []byte) (a string, z string) {
	z = ""
	defer func() {
		if e := recover(); e != nil {
			a = panicCat(e)
		}
	}()
	class, addrs, _, req, err := txscript.ExtractPkScriptAddrs(script, config.ChainParams)
	if err != nil {
		return "err", ""
	}
	ds := make([]string, 0, len(addrs))
	es := make([]string, 0, len(addrs))
	for _, ad := range addrs {
		ds = append(ds, addrData(ad))
		es = append(es, ad.EncodeAddress())
	}
	return fmt.Sprintf("ok|%d|%d|%s", class, req, strings.Join(ds, ",")), strings.Join(es, ",")
}

func obsOracle(script []byte) (o string) {
	defer func() {
		if e := recover(); e != nil {
			o = panicCat(e)
		}
	}()
	pushes, err := txscript.PushedData(script)
	if err != nil {
		return "-"
	}
	m := map[string]bool{}
	for _, d := range pushes {
		if len(d) == 33 || len(d) == 65 {
			_, err := btcec.ParsePubKey(d, btcec.S256())
			m[hex.EncodeToString(d)] = err == nil
		}
	}
	if len(m) == 0 {
		return "-"
	}
	ks := make([]string, 0, len(m))
	for k := range m {
		ks = append(ks, k)
	}
	sort.Strings(ks)
	for i, k := range ks {
		if m[k] {
			ks[i] = k + "=1"
		} else {
			ks[i] = k + "=0"
		}
	}
	return strings.Join(ks, ",")
}

func script(kind string, s []byte) {
	key := string(s)
	if _, ok := seen[key]; ok {
		return
	}
	seen[key] = struct{}{}
	dist[kind]++
	p, zp := obsParse(s)
	x := obsExtract(s)
	c := obsClass(s)
	a, za := obsAddrs(s)
	o := obsOracle(s)
	z := "-"
	if zp != "-" {
		z = zp + ";A=" + za
	}
	fmt.Fprintf(out, "S\t%s\t%s\t%s\t%s\t%s\t%s\t%s\t%s\n", kind, hex.EncodeToString(s), p, x, c, a, o, z)
}

func resScript(s []byte, err error) string {
	if err != nil {
		return "err"
	}
	return "ok|" + hex.EncodeToString(s)
}

// address data -> the string handed to the wallet ("zz" = garbage that does not decode)
func encodeData(d string) (string, bool) {
	if d == "bad" {
		return "ms1qqzzzznotanaddress", true
	}
	a := dataAddr(d)
	if a == nil {
		return "", false
	}
	return a.EncodeAddress(), true
}

func buildW(d string) {
	enc, ok := encodeData(d)
	if !ok {
		return
	}
	dist["build-std"]++
	r, p := "", "-"
	var sc []byte
	func() {
		defer func() {
			if e := recover(); e != nil {
				r = panicCat(e)
			}
		}()
		s1, err1 := masswallet.PayToWitnessV0Address(enc, config.ChainParams)
		one, _ := massutil.NewAmountFromInt(1)
		txo, err2 := masswallet.VerifAmountToTxOut(enc, one)
		if (err1 == nil) != (err2 == nil) || (err2 == nil && !bytes.Equal(s1, txo.PkScript)) {
			r = "diff"
			return
		}
		r = resScript(s1, err1)
		sc = s1
	}()
	if strings.HasPrefix(r, "ok") {
		p, _ = obsParse(sc)
		script("built", sc)
	}
	fmt.Fprintf(out, "BW\t%s\t%s\t%s\n", d, r, p)
}

func buildK(d string, period uint32) {
	enc, ok := encodeData(d)
	if !ok {
		return
	}
	dist["build-staking"]++
	r, p := "", "-"
	var sc []byte
	func() {
		defer func() {
			if e := recover(); e != nil {
				r = panicCat(e)
			}
		}()
		one, _ := massutil.NewAmountFromInt(1)
		mtx := wire.NewMsgTx()
		err := masswallet.VerifConstructStakingTxOut([]*masswallet.StakingTxOut{{Address: enc, FrozenPeriod: period, Amount: one}}, mtx)
		if err != nil {
			r = "err"
			return
		}
		if len(mtx.TxOut) != 1 {
			r = "diff"
			return
		}
		sc = mtx.TxOut[0].PkScript
		r = resScript(sc, nil)
	}()
	if strings.HasPrefix(r, "ok") {
		p, _ = obsParse(sc)
		script("built", sc)
	}
	fmt.Fprintf(out, "BK\t%s\t%d\t%s\t%s\n", d, period, r, p)
}

func buildL(d string, period uint64) {
	a := dataAddr(d)
	if a == nil {
		return
	}
	dist["build-staking64"]++
	r, p := "", "-"
	var sc []byte
	func() {
		defer func() {
			if e := recover(); e != nil {
				r = panicCat(e)
			}
		}()
		s, err := txscript.PayToStakingAddrScript(a, period)
		r = resScript(s, err)
		sc = s
	}()
	if strings.HasPrefix(r, "ok") {
		p, _ = obsParse(sc)
		script("built", sc)
	}
	fmt.Fprintf(out, "BL\t%s\t%d\t%s\t%s\n", d, period, r, p)
}

func buildB(h, t []byte) {
	dist["build-binding"]++
	r, p := "", "-"
	var sc []byte
	func() {
		defer func() {
			if e := recover(); e != nil {
				r = panicCat(e)
			}
		}()
		s, err := txscript.PayToBindingScriptHashScript(h, t)
		r = resScript(s, err)
		sc = s
	}()
	if strings.HasPrefix(r, "ok") {
		p, _ = obsParse(sc)
		script("built", sc)
	}
	tv := 0
	if len(t) == 20 {
		if _, err := massutil.NewAddressPubKeyHash(t, config.ChainParams); err == nil {
			tv = 1
		}
	} else if _, err := massutil.NewAddressBindingTarget(t, config.ChainParams); err == nil {
		tv = 1
	}
	fmt.Fprintf(out, "BB\t%x\t%x\t%s\t%s\t%d\n", h, t, r, p, tv)
}

// ---------------------------------------------------------------- generators

func cat(parts ...[]byte) []byte {
	var b []byte
	for _, p := range parts {
		b = append(b, p...)
	}
	return b
}

func le64(v uint64) []byte {
	b := make([]byte, 8)
	binary.LittleEndian.PutUint64(b, v)
	return b
}

// a push of d with the opcode a canonical builder would choose (raw, no small-int folding)
func push(d []byte) []byte {
	n := len(d)
	switch {
	case n < 76:
		return cat([]byte{byte(n)}, d)
	case n < 256:
		return cat([]byte{0x4c, byte(n)}, d)
	default:
		return cat([]byte{0x4d, byte(n), byte(n >> 8)}, d)
	}
}

var reducedAlphabet = []byte{0x00, 0x01, 0x14, 0x20, 0x51, 0xae, 0xff}

func fill(r *rng.R, n int) []byte {
	b := make([]byte, n)
	switch r.Intn(3) {
	case 0:
		for i := range b {
			b[i] = reducedAlphabet[r.Intn(len(reducedAlphabet))]
		}
	case 1:
		c := reducedAlphabet[r.Intn(len(reducedAlphabet))]
		for i := range b {
			b[i] = c
		}
	default:
		copy(b, r.Bytes(n))
	}
	return b
}

// one opcode with the data it needs (well-formed), data from the reduced alphabet
func opWithData(r *rng.R, op byte) []byte {
	switch {
	case op >= 1 && op <= 75:
		return cat([]byte{op}, fill(r, int(op)))
	case op == 0x4c:
		n := []int{0, 1, 20, 75, 76, 80, 81}[r.Intn(7)]
		return cat([]byte{op, byte(n)}, fill(r, n))
	case op == 0x4d:
		n := []int{0, 8, 32, 80, 81, 256}[r.Intn(6)]
		return cat([]byte{op, byte(n), byte(n >> 8)}, fill(r, n))
	case op == 0x4e:
		n := []int{0, 8, 32, 80}[r.Intn(4)]
		return cat([]byte{op, byte(n), 0, 0, 0}, fill(r, n))
	}
	return []byte{op}
}

var keysValid, keysInvalid [][]byte

func initKeys(r *rng.R) {
	for i := 0; i < 12; i++ {
		sk := r.Bytes(32)
		sk[0] &= 0x7f
		sk[31] |= 1
		_, pk := btcec.PrivKeyFromBytes(btcec.S256(), sk)
		keysValid = append(keysValid, pk.SerializeCompressed(), pk.SerializeUncompressed(), pk.SerializeHybrid())
	}
	// x = 5 is not the abscissa of a curve point (probe-confirmed shape E3), zero key, bad prefixes, bad hybrid parity, y off curve
	off := make([]byte, 33)
	off[0], off[32] = 0x02, 0x05
	keysInvalid = append(keysInvalid, off, make([]byte, 33), make([]byte, 65))
	k := append([]byte(nil), keysValid[0]...)
	k[0] = 0x04
	keysInvalid = append(keysInvalid, k)
	k = append([]byte(nil), keysValid[1]...)
	k[64] ^= 1
	keysInvalid = append(keysInvalid, k)
	k = append([]byte(nil), keysValid[1]...)
	k[0] = 0x02
	keysInvalid = append(keysInvalid, k)
	k = append([]byte(nil), keysValid[2]...)
	k[0] ^= 1
	keysInvalid = append(keysInvalid, k)
	for i := 0; i < 6; i++ {
		b := r.Bytes(33)
		b[0] = 2 + byte(i&1)
		keysInvalid = append(keysInvalid, b) // about half of random x are off the curve; the oracle decides
		c := r.Bytes(65)
		c[0] = 4
		keysInvalid = append(keysInvalid, c)
	}
}

func smallInt(n int) byte {
	if n == 0 {
		return 0
	}
	return byte(0x50 + n)
}

func multisig(m int, keys [][]byte, n int) []byte {
	s := []byte{smallInt(m)}
	for _, k := range keys {
		s = append(s, push(k)...)
	}
	return append(s, smallInt(n), 0xae)
}

func main() {
	tier := flag.String("tier", "quick", "quick|thorough")
	outPath := flag.String("out", "", "output file")
	replay := flag.String("replay", "", "replay one case: S:<hex> | BW:<addr data> | BK:<addr data>:<period> | BL:<addr data>:<period> | BB:<hash hex>:<target hex>")
	flag.BoolVar(&verbose, "v", false, "print every recovered panic with its stack on stderr")
	flag.Parse()
	tmp, _ := os.MkdirTemp("", "c16-")
	defer os.RemoveAll(tmp)
	logging.Init(tmp, "c16.log", "fatal", 1, true)

	f := os.Stdout
	if *outPath != "" {
		var err error
		f, err = os.Create(*outPath)
		if err != nil {
			panic(err)
		}
		defer f.Close()
	}
	out = bufio.NewWriterSize(f, 1<<20)
	defer out.Flush()

	fmt.Fprintf(out, "K\tMinFrozenPeriod\t%d\n", consensus.MinFrozenPeriod)
	fmt.Fprintf(out, "K\tSequenceLockTimeMask\t%d\n", wire.SequenceLockTimeMask)
	fmt.Fprintf(out, "K\tBindingLockedPeriod\t%d\n", consensus.MASSIP0002BindingLockedPeriod)
	fmt.Fprintf(out, "K\tMaxDataCarrierSize\t%d\n", txscript.MaxDataCarrierSize)
	fmt.Fprintf(out, "K\tMaxScriptElementSize\t%d\n", txscript.MaxScriptElementSize)

	if *replay != "" {
		parts := strings.Split(*replay, ":")
		switch parts[0] {
		case "S":
			b, _ := hex.DecodeString(parts[1])
			script("replay", b)
		case "BW":
			buildW(strings.Join(parts[1:], ":"))
		case "BK", "BL":
			d := strings.Join(parts[1:len(parts)-1], ":")
			v, _ := strconv.ParseUint(parts[len(parts)-1], 10, 64)
			if parts[0] == "BK" {
				buildK(d, uint32(v))
			} else {
				buildL(d, v)
			}
		case "BB":
			h, _ := hex.DecodeString(parts[1])
			t, _ := hex.DecodeString(parts[2])
			buildB(h, t)
		}
		return
	}

	thorough := *tier == "thorough"
	r := rng.FromEnv(16)
	initKeys(r)
	h32 := func() []byte { return fill(r, 32) }

	// ---- corpus: shapes named in DESIGN.md section 8 and boundary cases (run first)
	e2 := cat([]byte{0x00, 0x20}, bytes.Repeat([]byte{0x11}, 32), []byte{0x16}, bytes.Repeat([]byte{0x22}, 20), []byte{0x05, 0x20})
	script("corpus", e2)                                               // E2: binding target with unknown type byte
	script("corpus", multisig(1, [][]byte{keysInvalid[0]}, 1))         // E3: 1-of-1 multisig, key off the curve
	script("corpus", []byte{})                                         // empty script
	script("corpus", []byte{0x6a})                                     // OP_RETURN
	script("corpus", cat([]byte{0x6a}, push([]byte("hello"))))          // OP_RETURN <data>
	script("corpus", cat([]byte{0x76, 0xa9}, push(make([]byte, 20)), []byte{0x88, 0xac})) // P2PKH-like
	script("corpus", cat([]byte{0xa9}, push(make([]byte, 20)), []byte{0x87}))             // P2SH-like
	script("corpus", cat([]byte{0x00, 0x14}, make([]byte, 20)))                            // P2WPKH-like
	script("corpus", cat([]byte{0x00, 0x20}, make([]byte, 32)))
	script("corpus", cat([]byte{0x00, 0x20}, make([]byte, 32), []byte{0x08}, le64(^uint64(0)))) // maturity wraps
	script("corpus", cat([]byte{0x00, 0x20}, make([]byte, 32), []byte{0x08}, le64(0)))
	script("corpus", cat([]byte{0x00, 0x4c, 0x20}, make([]byte, 32)))                      // non-canonical push of the hash
	script("corpus", cat([]byte{0x51, 0x20}, make([]byte, 32)))                            // witness version 1
	script("corpus", multisig(1, [][]byte{keysValid[0]}, 1))
	script("corpus", multisig(2, [][]byte{keysValid[0], keysValid[1], keysValid[2]}, 3))
	script("corpus", []byte{0x4e, 0xff, 0xff, 0xff, 0xff})                                 // PUSHDATA4 with length 2^32-1
	script("corpus", []byte{0x4e, 0x00, 0x00, 0x00, 0x80})                                 // PUSHDATA4 with length 2^31

	// ---- the three templates with every field mutated
	versions := []byte{0x00, 0x51, 0x60, 0x4f, 0x01}
	hashPushes := [][]byte{}
	for _, n := range []int{31, 32, 33} {
		d := bytes.Repeat([]byte{0xab}, n)
		hashPushes = append(hashPushes, push(d))                       // well-formed push of n bytes
		hashPushes = append(hashPushes, cat([]byte{0x20}, d))           // OP_DATA_32 followed by n bytes
		hashPushes = append(hashPushes, cat([]byte{0x4c, byte(n)}, d))  // PUSHDATA1
		hashPushes = append(hashPushes, cat([]byte{0x4d, byte(n), 0}, d))
	}
	thirds := [][]byte{{}}
	for _, v := range []uint64{0, 1, consensus.MinFrozenPeriod - 1, consensus.MinFrozenPeriod, wire.SequenceLockTimeMask - 2, wire.SequenceLockTimeMask - 1,
		wire.SequenceLockTimeMask, 1 << 32, 1<<63 - 1, 1 << 63, ^uint64(0) - 1, ^uint64(0)} {
		thirds = append(thirds, cat([]byte{0x08}, le64(v)))
	}
	for _, n := range []int{7, 9} {
		thirds = append(thirds, push(bytes.Repeat([]byte{0x01}, n)))
	}
	thirds = append(thirds, cat([]byte{0x4c, 0x08}, le64(70000)), cat([]byte{0x08}, le64(70000)[:7]), cat([]byte{0x08}, le64(70000), []byte{0x00}))
	for n := 19; n <= 23; n++ {
		for _, ty := range []byte{0, 1, 2, 5, 255} {
			for _, sz := range []byte{0, 19, 20, 32, 200, 201, 255} {
				d := bytes.Repeat([]byte{0x33}, n)
				if n >= 22 {
					d[20], d[21] = ty, sz
				} else if ty != 0 || sz != 0 {
					continue
				}
				thirds = append(thirds, push(d))
				if n == 20 || n == 22 {
					thirds = append(thirds, cat([]byte{0x4c, byte(n)}, d), cat([]byte{byte(n)}, d[:n-1]), cat([]byte{byte(n)}, d, []byte{0x51}))
				}
			}
		}
	}
	for _, v := range versions {
		for _, hp := range hashPushes {
			for _, th := range thirds {
				script("template", cat([]byte{v}, hp, th))
			}
		}
	}

	// ---- truncated pushes: every prefix of well-formed scripts, and length fields that overrun
	full := [][]byte{
		cat([]byte{0x00, 0x20}, h32()),
		cat([]byte{0x00, 0x20}, h32(), []byte{0x08}, le64(100000)),
		cat([]byte{0x00, 0x20}, h32(), []byte{0x16}, fill(r, 20), []byte{0x01, 0x20}),
		cat([]byte{0x00, 0x20}, h32(), []byte{0x14}, fill(r, 20)),
		multisig(1, [][]byte{keysValid[0], keysValid[1]}, 2),
		cat([]byte{0x6a, 0x4c, 0x50}, fill(r, 80)),
		cat([]byte{0x4d, 0x00, 0x01}, fill(r, 256), []byte{0x4e, 0x03, 0, 0, 0, 1, 2, 3}),
	}
	for _, s := range full {
		for i := 0; i <= len(s); i++ {
			script("truncated", s[:i])
		}
	}
	for _, op := range []byte{0x4c, 0x4d, 0x4e} {
		for _, have := range []int{0, 1, 2, 3, 4, 5, 9} {
			for _, l := range []uint32{0, 1, 2, 4, 5, 8, 9, 255, 256, 65535, 1 << 31, ^uint32(0)} {
				lb := make([]byte, 4)
				binary.LittleEndian.PutUint32(lb, l)
				k := map[byte]int{0x4c: 1, 0x4d: 2, 0x4e: 4}[op]
				s := cat([]byte{op}, lb[:k], fill(r, have))
				script("truncated", s)
				script("truncated", cat([]byte{0x00}, s))
			}
		}
	}

	// ---- every opcode in each of the first three positions, the other positions over representatives
	reps := []byte{0x00, 0x08, 0x14, 0x16, 0x20, 0x21, 0x4c, 0x51, 0x60, 0x6a, 0xae, 0xff}
	if thorough {
		reps = []byte{0x00, 0x01, 0x07, 0x08, 0x09, 0x13, 0x14, 0x15, 0x16, 0x17, 0x1f, 0x20, 0x21, 0x41, 0x4b, 0x4c, 0x4d, 0x4e, 0x4f, 0x50, 0x51, 0x52, 0x60, 0x61, 0x6a, 0xac, 0xae, 0xaf, 0xff}
	}
	for op := 0; op < 256; op++ {
		script("ops3", opWithData(r, byte(op)))
		script("ops3", []byte{byte(op)})
		for _, a := range reps {
			script("ops3", cat(opWithData(r, byte(op)), opWithData(r, a)))
			script("ops3", cat(opWithData(r, a), opWithData(r, byte(op))))
			for _, b := range reps {
				script("ops3", cat(opWithData(r, byte(op)), opWithData(r, a), opWithData(r, b)))
				script("ops3", cat(opWithData(r, a), opWithData(r, byte(op)), opWithData(r, b)))
				script("ops3", cat(opWithData(r, a), opWithData(r, b), opWithData(r, byte(op))))
			}
		}
	}

	// ---- multisig and nulldata shapes
	nMS := 3000
	if thorough {
		nMS = 60000
	}
	for i := 0; i < nMS; i++ {
		nk := r.Intn(5)
		if r.Chance(10) {
			nk = r.Intn(18)
		}
		keys := [][]byte{}
		for j := 0; j < nk; j++ {
			switch k := r.Intn(20); {
			case k < 14:
				keys = append(keys, keysValid[r.Intn(len(keysValid))])
			case k < 18:
				keys = append(keys, keysInvalid[r.Intn(len(keysInvalid))])
			default:
				keys = append(keys, fill(r, []int{0, 1, 32, 34, 64, 66}[r.Intn(6)]))
			}
		}
		m, n := r.Intn(nk+2), nk
		if r.Chance(15) {
			n = r.Intn(17)
		}
		s := multisig(m, keys, n)
		switch r.Intn(12) {
		case 0:
			s[len(s)-1] = []byte{0xac, 0xad, 0xaf}[r.Intn(3)]
		case 1:
			s[0] = []byte{0x4f, 0x50, 0x61, 0x01}[r.Intn(4)]
		case 2:
			s = append(s, 0x51)
		case 3:
			s[len(s)-2] = []byte{0x4f, 0x61, 0x50}[r.Intn(3)]
		}
		script("multisig", s)
	}
	for _, n := range []int{0, 1, 2, 40, 75, 76, 79, 80, 81, 255, 256} {
		d := fill(r, n)
		script("nulldata", cat([]byte{0x6a}, push(d)))
		if n > 0 && n < 256 {
			script("nulldata", cat([]byte{0x6a, 0x4c, byte(n)}, d))
		}
		script("nulldata", cat([]byte{0x6a, 0x4d, byte(n), byte(n >> 8)}, d))
		script("nulldata", cat([]byte{0x6a, 0x4e, byte(n), byte(n >> 8), 0, 0}, d))
		script("nulldata", cat([]byte{0x6a}, push(d), []byte{0x51}))
		script("nulldata", cat([]byte{0x6a}, push(d), push(d)))
	}
	for op := 0; op < 256; op++ {
		script("nulldata", []byte{0x6a, byte(op)})
		script("nulldata", []byte{byte(op), 0x6a})
	}

	// ---- arbitrary byte strings up to 300 bytes
	nR := 20000
	if thorough {
		nR = 400000
	}
	for i := 0; i < nR; i++ {
		n := r.Intn(301)
		if r.Chance(40) {
			n = r.Intn(48)
		}
		var s []byte
		switch r.Intn(4) {
		case 0: // uniformly random bytes
			s = r.Bytes(n)
		case 1: // random but biased towards the template bytes
			s = fill(r, n)
			for j := range s {
				if r.Chance(30) {
					s[j] = []byte{0x00, 0x20, 0x08, 0x14, 0x16, 0x4c, 0x4d, 0x4e, 0x51, 0x6a, 0xae}[r.Intn(11)]
				}
			}
		case 2: // a template with a few random byte edits, insertions or deletions
			var third []byte
			switch r.Intn(4) {
			case 1:
				third = cat([]byte{0x08}, le64(r.U64()>>uint(r.Intn(64))))
			case 2:
				third = cat([]byte{0x14}, fill(r, 20))
			case 3:
				third = cat([]byte{0x16}, fill(r, 20), []byte{byte(r.Intn(3)), byte(r.Intn(256))})
			}
			s = cat([]byte{0x00, 0x20}, h32(), third)
			for e := r.Intn(3); e > 0; e-- {
				if len(s) == 0 {
					break
				}
				p := r.Intn(len(s))
				switch r.Intn(3) {
				case 0:
					s[p] = byte(r.U64())
				case 1:
					s = append(s[:p], s[p+1:]...)
				default:
					s = cat(s[:p], []byte{byte(r.U64())}, s[p:])
				}
			}
		default: // a sequence of well-formed operations
			for len(s) < n {
				s = append(s, opWithData(r, byte(r.U64()))...)
			}
		}
		script("random", s)
	}

	// ---- builders: random hashes / periods / targets, and the inputs the builders must refuse
	nB := 1500
	if thorough {
		nB = 40000
	}
	periods := []uint64{0, 1, consensus.MinFrozenPeriod - 1, consensus.MinFrozenPeriod, consensus.MinFrozenPeriod + 1, 1 << 20, wire.SequenceLockTimeMask - 2,
		wire.SequenceLockTimeMask - 1, wire.SequenceLockTimeMask, 1 << 32, 1<<32 + consensus.MinFrozenPeriod, ^uint64(0)}
	for i := 0; i < nB; i++ {
		h := h32()
		hx := hex.EncodeToString(h)
		buildW("w0:" + hx)
		var p uint64
		switch r.Intn(4) {
		case 0:
			p = periods[r.Intn(len(periods))]
		case 1:
			p = consensus.MinFrozenPeriod + uint64(r.Intn(1<<20))
		default:
			p = r.U64() >> uint(32+r.Intn(32))
		}
		buildK("w1:"+hx, uint32(p))
		buildL("w1:"+hx, p)
		if i%16 == 0 {
			buildW("w1:" + hx)
			buildW("pkh:" + hex.EncodeToString(fill(r, 20)))
			buildK("w0:"+hx, uint32(p))
			buildL("w0:"+hx, p)
			buildB(fill(r, 31+r.Intn(3)), fill(r, 19+r.Intn(5)))
		}
		t := fill(r, 20)
		if r.Bool() {
			ty, sz := byte(r.Intn(2)), byte(20+r.Intn(181))
			if r.Chance(20) {
				ty, sz = byte(r.Intn(256)), byte(r.Intn(256))
			}
			t = append(t, ty, sz)
		}
		buildB(h, t)
	}
	buildW("bad")
	buildK("bad", uint32(consensus.MinFrozenPeriod))
	buildW("bt:" + hex.EncodeToString(cat(make([]byte, 20), []byte{0, 32})))
	for _, p := range periods {
		buildK("w1:"+strings.Repeat("00", 32), uint32(p))
		buildL("w1:"+strings.Repeat("ff", 32), p)
	}

	ks := make([]string, 0, len(dist))
	for k := range dist {
		ks = append(ks, k)
	}
	sort.Strings(ks)
	var sb strings.Builder
	for _, k := range ks {
		fmt.Fprintf(&sb, "%s=%d ", k, dist[k])
	}
	fmt.Fprintf(os.Stderr, "dist %s\n", strings.TrimSpace(sb.String()))
}
